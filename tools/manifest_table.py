not_applicable = {}
claimed = {
 "C09": ("proof", "static read-discipline analysis: value-flow of the source reader + per-site classification over go/ssa",
   "Every dynamic Read on the SMF source and every escape of the source value is enumerated from the SSA/call graph of the current tree; each must be a stdlib fill-or-fail primitive or a checked one-byte read, and the accompanying error may only matter under a short count. Given the io contracts this implies independence from fragmentation for all inputs and all partitions.",
   "trusted: io.ReadFull/ReadAtLeast/CopyN contracts, go/ssa, VTA call graph, field-based may-flow; domain: readers returning >=1 byte or an error per call", "DESIGN.md §4 C09"),
}
