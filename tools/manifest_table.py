not_applicable = {}
claimed = {
 "C09": ("proof", "static read-discipline analysis: value-flow of the source reader + per-site classification over go/ssa",
   "Every dynamic Read on the SMF source and every escape of the source value is enumerated from the SSA/call graph of the current tree; each must be a stdlib fill-or-fail primitive or a checked one-byte read, and the accompanying error may only matter under a short count. Given the io contracts this implies independence from fragmentation for all inputs and all partitions.",
   "trusted: io.ReadFull/ReadAtLeast/CopyN contracts, go/ssa, VTA call graph, field-based may-flow; domain: readers returning >=1 byte or an error per call", "DESIGN.md §4 C09"),
}
claimed["C07"] = ("proof", "abstract interpretation over go/ssa (interval x known-bits x bit provenance, trace partitioning) compared bit-for-bit with a MIDI 1.0 spec table",
   "Each exported channel-voice / system-common constructor is interpreted abstractly with fully symbolic arguments; every trace partition's output bytes must equal the MIDI 1.0 layout of the clamped arguments bit for bit, the matching accessor interpreted on that abstract result must return the clamped arguments, and every other type-specific accessor must reject. One abstract run covers all argument tuples (in and out of range).",
   "trusted: go/ssa translation, E-abs transfer functions and stdlib summaries, the spec table in props_c07.go; loopback clause (C07.5) is decided under C04", "DESIGN.md §4 C07")
claimed["C10"] = ("proof", "all-paths error-flow analysis on SSA (discard / swallow / latch rules) + value-flow of the destination writer",
   "Every fallible call reachable from WriteTo / ReadFrom is an obligation: its error is propagated, or tested with every return reachable from the non-nil edge definitely non-nil, or latched and the latch tested by every caller; discards only into in-memory buffers. Size accounting: the destination flows only into the counting wrapper. Induction up the call graph gives: a failing Write/Read makes the entry point return non-nil.",
   "trusted: io.Writer/io.Reader contracts, bytes.Buffer never fails, fmt.Errorf/errors.New non-nil, VTA call graph; partial-count exactness under short writes is the io.Writer contract", "DESIGN.md §4 C10")
