#!/usr/bin/env python3
# Generates /verif/MANIFEST.json from the table below (kept in one place so the manifest is always valid).
import json, sys
B="/verif/bin/midiverif"
ENV="GOFLAGS=-mod=mod GOPROXY=off GOSUMDB=off GOTOOLCHAIN=local"
claimed = {
 # id: (level, technique, text, note, design_ref)
}
exec(open('/verif/tools/manifest_table.py').read())
props=[json.loads(l) for l in open('/verif/properties.jsonl')]
checks=[]; na=[]
for p in props:
    i=p['id']
    if i in claimed:
        lv,tech,text,note,ref=claimed[i]
        checks.append({
          "property_id": i,
          "quick_cmd": f"{B} check {i} --tier quick",
          "thorough_cmd": f"{B} check {i} --tier thorough",
          "evidence_file": f"/verif/evidence/{i}.json",
          "replay_cmd_template": f"{B} explain {{path}}",
          "engine": "midiverif",
          "level_claimed": {"category": lv, "text": text, "design_ref": ref},
          "level_note": note,
          "technique": tech,
        })
    else:
        na.append({"property_id": i, "reason": not_applicable.get(i, "no sound static rule armed yet for this property in this round (see DESIGN.md §4); not claimed rather than served by a proxy")})
m={
 "version":1,
 "setup_cmd": f"cd /verif/checker && {ENV} go build -o /verif/bin/midiverif . && /verif/bin/midiverif selfcheck",
 "hooks": {"guard":"verif","enable":"none needed: static analysis reads the source; no file in /repo is guarded by the tag","baseline_off_cmd":"/verif/tools/baseline.sh","source_commits":[],"add_only":True},
 "engines":[{"name":"midiverif","path":"/verif/checker","serves_properties":sorted(claimed.keys()),"kind_free_text":"repository-specific static analyser over go/packages + go/ssa + VTA call graph: path rules (dominance, must-pass, edge dominance), all-paths error flow, value-flow of reader/writer, lock state, abstract interpretation (interval x known-bits x bit provenance) with trace partitioning, table/layout agreement against specification tables compiled into the checker"}],
 "checks":checks,
 "not_applicable":na,
 "notes":"Technique family: static analysis only. Nothing in /repo is executed by any registered command. See DESIGN.md."
}
json.dump(m,open('/verif/MANIFEST.json','w'),indent=1)
print("claimed:",sorted(claimed.keys()))
