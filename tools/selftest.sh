#!/bin/bash
# Runs every seeded mutant (must be caught by the check named in its file name prefix, or the one given in
# selftest/expect.txt) and every benign variant (all checks must stay silent). Scratch copies live under /var/tmp.
# PAR jobs in parallel (default 4).
cd /verif
mut() {
  m=$1
  id=$(basename "$m" | cut -d- -f1)
  exp=$(grep -s "^$(basename $m .patch) " selftest/expect.txt | cut -d' ' -f2-)
  [ -n "$exp" ] && ids="$exp" || ids="$id"
  out=$(tools/mutant.sh "$m" $ids 2>&1)
  if echo "$out" | grep -q "CAUGHT"; then echo "ok   $(basename $m) caught by $(echo "$out" | grep CAUGHT | sed 's/CAUGHT by //;s/://' | tr '\n' ' ') :: $(echo "$out" | grep -m1 -E '^  C[0-9]+\.[0-9]+' | sed -E 's/^  (C[0-9]+\.[0-9]+) \[[a-z]+\] ([^@]*)@.*/\1 — \2/' | cut -c1-160)"; else echo "MISS $(basename $m): $(echo "$out" | head -2 | tr '\n' ' ')"; fi
}
ben() {
  b=$1
  ALL="C01 C02 C03 C04 C05 C06 C07 C08 C09 C10 C11 C12 C13 C14 C15 C16 C17 C18 C19 C20"
  out=$(tools/mutant.sh "$b" $ALL 2>&1)
  if echo "$out" | grep -q "CAUGHT"; then echo "FALSE-ALARM $(basename $b): $(echo "$out" | grep -A2 CAUGHT | head -3 | tr '\n' ' ' | cut -c1-300)"; else echo "ok   benign $(basename $b) silent on all checks"; fi
}
export -f mut ben
T=$(mktemp)
ls selftest/mutants/*.patch | xargs -P ${PAR:-4} -I{} bash -c 'mut {}' | sort -k2 | tee $T
ls selftest/benign/*.patch | xargs -P ${PAR:-4} -I{} bash -c 'ben {}' | sort -k2 | tee -a $T
if grep -q -E "^(MISS|FALSE-ALARM)" $T; then rm -f $T; exit 1; fi
rm -f $T; exit 0
