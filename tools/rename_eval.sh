#!/bin/bash
# robustness of the rules against private names: scratch copy of /repo, every unexported identifier renamed
# (midiverif renameall), must still build, pass the 66 baseline tests and keep all 20 checks silent.
set -u
export GOFLAGS=-mod=mod GOPROXY=off GOSUMDB=off GOTOOLCHAIN=local
S=/var/tmp/verif-rename.$$
rm -rf "$S"; mkdir -p "$S/repo" "$S/verif"
cp -a /repo/v2 "$S/repo/v2"
cp /verif/known_findings.json "$S/verif/"
# RENAME_EXPORTED=1 additionally renames exported-cased methods/fields of unexported types that no interface declares
/verif/bin/midiverif renameall --repo "$S/repo" ${SUFFIX:-Zq} || { rm -rf "$S"; exit 2; }
BO=$(cd "$S/repo/v2" && go build $(go list ./... 2>/dev/null | grep -v -e rtmididrv -e portmididrv) 2>&1 | tail -5)
if [ -n "$BO" ]; then echo "BUILD-FAILED: $BO"; rm -rf "$S"; exit 4; fi
if [ "${SKIP_TESTS:-0}" != 1 ]; then /verif/tools/baseline.sh "$S/repo" || { rm -rf "$S"; exit 5; }; fi
rc=0
IDS=${*:-C01 C02 C03 C04 C05 C06 C07 C08 C09 C10 C11 C12 C13 C14 C15 C16 C17 C18 C19 C20}
for id in $IDS; do
  out=$(/verif/bin/midiverif check "$id" --repo "$S/repo" --verif "$S/verif" --tier "${TIER:-quick}" 2>&1); r=$?
  if [ $r -ne 0 ]; then echo "FALSE-ALARM $id:"; echo "$out" | grep -A1 '^VIOLATION' | grep -v '^--' | cut -c1-400 | head -${LINES_MAX:-8}; rc=1; else echo "ok $id"; fi
done
[ "${KEEP:-0}" = 1 ] && echo "kept $S" || rm -rf "$S"
exit $rc
