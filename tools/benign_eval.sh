#!/bin/bash
# applies every behaviour-preserving refactoring of seeded/benign to a scratch copy and requires all 20 checks to stay
# silent (PAT=glob selects patches, PAR jobs in parallel, default 4)
cd /verif
one() {
  b=$1
  ALL="C01 C02 C03 C04 C05 C06 C07 C08 C09 C10 C11 C12 C13 C14 C15 C16 C17 C18 C19 C20"
  out=$(tools/mutant.sh "$b" $ALL 2>&1)
  if echo "$out" | grep -q "CAUGHT"; then echo "FALSE-ALARM $(basename $b): $(echo "$out" | grep -A2 CAUGHT | grep -E '^  C' | head -4 | cut -c1-260 | tr '\n' '|')"; elif echo "$out" | grep -q -E "PATCH-FAILED|BUILD-FAILED"; then echo "INVALID $(basename $b): $(echo "$out" | head -2 | tr '\n' ' ')"; else echo "ok   $(basename $b)"; fi
}
export -f one
ls ${PAT:-seeded/benign/*.diff} | xargs -P ${PAR:-4} -I{} bash -c 'one {}' | sort -k2
