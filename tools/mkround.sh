#!/bin/bash
# usage: mkround.sh <N>   — prepares /tmp/seed<N>: one scratch worktree of /repo HEAD per property (C01..C20) and per benign
# area (R..), the prompt files from tools/prompts/seed_round<N>.txt / benign_round<N>.txt, and baseline.sh. Sub-agents get
# only their own worktree and prompt; nothing of /verif is visible to them except the property text (and, from round 5
# on, one-line descriptions of the changes earlier rounds already seeded for that property).
set -eu
N=$1
ROOT=/tmp/seed$N
mkdir -p $ROOT
cp /verif/tools/baseline.sh $ROOT/baseline.sh
python3 - "$N" <<'PY'
import json,sys,glob,os
N=sys.argv[1]; ROOT='/tmp/seed'+N
tmpl=open('/verif/tools/prompts/seed_round%s.txt'%N).read()
props={}
for l in open('/verif/properties.jsonl'):
    d=json.loads(l); props[d['id']]=d
for pid,d in sorted(props.items()):
    earlier=[]
    for m in sorted(glob.glob('/verif/seeded/%s-*/meta.json'%pid)):
        try: earlier.append('  - '+json.load(open(m)).get('what_it_breaks','')[:300].replace('\n',' '))
        except Exception: pass
    t=tmpl.replace('__ID__',pid).replace('__PROP__',json.dumps(d,indent=1)).replace('__EARLIER__','\n'.join(earlier) or '  (none)')
    open('%s/%s.prompt.txt'%(ROOT,pid),'w').write(t)
    json.dump(d,open('%s/%s.property.json'%(ROOT,pid),'w'),indent=1)
PY
for id in C01 C02 C03 C04 C05 C06 C07 C08 C09 C10 C11 C12 C13 C14 C15 C16 C17 C18 C19 C20; do
  [ -d $ROOT/$id ] || git -C /repo worktree add -q --detach $ROOT/$id HEAD
done
