#!/bin/bash
# Runs the pinned baseline suite of /repo/v2 (guard off; static analysis needs no hooks) and
# checks that all 66 stable tests of /root/.vp/BASELINE.json pass.
export GOFLAGS=-mod=mod GOPROXY=off GOSUMDB=off GOTOOLCHAIN=local
REPO=${1:-/repo}
cd "$REPO/v2" || exit 2
go test -mod=mod -json -vet=off -count=1 -timeout 25m ./... 2>/dev/null > /tmp/baseline.$$.json
python3 - /tmp/baseline.$$.json <<'PY'
import json,sys
passed=set()
for l in open(sys.argv[1]):
    try: e=json.loads(l)
    except Exception: continue
    if e.get('Action')=='pass' and e.get('Test'):
        passed.add(e['Package']+'::'+e['Test'])
want=json.load(open('/root/.vp/BASELINE.json'))['stable_pass']
miss=[t for t in want if t not in passed]
print("baseline: %d/%d stable tests pass"%(len(want)-len(miss),len(want)))
for m in miss: print("MISSING", m)
sys.exit(1 if miss else 0)
PY
rc=$?
rm -f /tmp/baseline.$$.json
exit $rc
