#!/bin/bash
# usage: mutant.sh <patch.diff | -R commit> <ID...>   — applies a patch to a scratch copy of /repo (outside /repo and /verif),
# checks that it still builds, runs the named checks against the copy, prints their verdicts, removes the copy.
set -u
PATCH=$(readlink -f "$1"); shift
S=${VERIF_SCRATCH:-/var/tmp/verif-scratch.$$}
rm -rf "$S"; mkdir -p "$S/repo" "$S/verif"
cp -a /repo/v2 "$S/repo/v2"
cp /verif/known_findings.json "$S/verif/" 2>/dev/null
export GOFLAGS=-mod=mod GOPROXY=off GOSUMDB=off GOTOOLCHAIN=local
if ! (cd "$S/repo" && patch -p1 -s < "$PATCH"); then echo "PATCH-FAILED $PATCH"; rm -rf "$S"; exit 3; fi
BO=$(cd "$S/repo/v2" && go build $(go list ./... 2>/dev/null | grep -v -e rtmididrv -e portmididrv) 2>&1 | tail -5)
if [ -n "$BO" ]; then echo "BUILD-FAILED (invalid mutant): $BO"; rm -rf "$S"; exit 4; fi
if [ "${MUTANT_TESTS:-0}" = 1 ]; then /verif/tools/baseline.sh "$S/repo"; fi
rc=0
for id in "$@"; do
  out=$(${MIDIVERIF:-/verif/bin/midiverif} check "$id" --repo "$S/repo" --verif "$S/verif" --tier "${TIER:-quick}" 2>&1); r=$?
  if [ $r -ne 0 ]; then echo "CAUGHT by $id:"; echo "$out" | grep -A1 '^VIOLATION' | grep -v '^--' | head -${LINES_MAX:-6}; else echo "MISSED by $id"; rc=1; fi
done
rm -rf "$S"
exit $rc
