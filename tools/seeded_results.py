#!/usr/bin/env python3
# Summarises /verif/seeded/*/meta.json (verdict of all 20 checks when the change was first evaluated) and
# /verif/seeded/own_eval.log (current verdict of the change's OWN property check, written by tools/own_eval.sh)
# into /verif/seeded/RESULTS.md
import json,glob,os,re
own={}
p='/verif/seeded/own_eval.log'
if os.path.exists(p):
    for l in open(p):
        m=re.match(r'(ok|MISS)\s+(C\d\d-[A-Z])\s+\(valid=(\w+)\)\s*(.*)',l)
        if m: own[m.group(2)]=(m.group(1),m.group(4).strip()[:150].replace('|','/'))
rows=[]
for d in sorted(glob.glob('/verif/seeded/C*-*')):
    m=json.load(open(d+'/meta.json'))
    name=os.path.basename(d)
    first=', '.join(sorted(set(c.split(':')[0] for c in m.get('caught_by',[])))) or '**missed**'
    now=own.get(name,('?',''))
    rows.append((name, m.get('valid'), m.get('what_it_breaks','')[:140].replace('|','/'), m.get('needs_to_manifest','')[:120].replace('|','/'), first, 'caught' if now[0]=='ok' else ('**missed**' if now[0]=='MISS' else '?'), now[1]))
with open('/verif/seeded/RESULTS.md','w') as f:
    f.write('# Seeded changes written by independent sub-agents (given only the property text)\n\n')
    f.write('Each directory holds patch.diff, the demonstration and meta.json (incl. what was run to confirm it: build, 66/66 baseline, demo fails with / passes without the change, all 20 checks on a scratch worktree). Round 1: A,B; round 2: C,D,E; round 3: F,G.\n\n')
    f.write('"first evaluation" = checks that reported the change when it was first evaluated (before any rule was strengthened for it); "own check now" = verdict of the check of the change\'s own property on the current checker (tools/own_eval.sh).\n\n')
    f.write('| id | demo confirmed | breaks | needs | first evaluation | own check now | report |\n|---|---|---|---|---|---|---|\n')
    for r in rows: f.write('| %s | %s | %s | %s | %s | %s | %s |\n'%r)
    n=len(rows); c=sum(1 for r in rows if r[4]!='**missed**'); o=sum(1 for r in rows if r[5]=='caught')
    f.write('\n%d changes; %d reported by at least one check at first evaluation; %d reported by the check of their own property now.\n'%(n,c,o))
print(open('/verif/seeded/RESULTS.md').read()[-220:])
