#!/usr/bin/env python3
# Summarises /verif/seeded/*/meta.json into /verif/seeded/RESULTS.md
import json,glob,os
rows=[]
for d in sorted(glob.glob('/verif/seeded/C*-*')):
    m=json.load(open(d+'/meta.json'))
    rows.append((os.path.basename(d), m.get('valid'), m.get('what_it_breaks','')[:140].replace('|','/'), m.get('needs_to_manifest','')[:140].replace('|','/'), ', '.join(sorted(set(c.split(':')[0] for c in m.get('caught_by',[])))) or '**missed**', (m.get('caught_by') or [''])[0][:160].replace('|','/')))
with open('/verif/seeded/RESULTS.md','w') as f:
    f.write('# Seeded changes written by independent sub-agents (given only the property text)\n\n')
    f.write('Each directory holds patch.diff, the demonstration and meta.json (incl. what was run to confirm it: build, 66/66 baseline, demo fails with / passes without the change, all 20 checks on a scratch worktree).\n\n')
    f.write('| id | confirmed | breaks | needs | caught by | first report |\n|---|---|---|---|---|---|\n')
    for r in rows: f.write('| %s | %s | %s | %s | %s | %s |\n'%r)
    n=len(rows); c=sum(1 for r in rows if r[4]!='**missed**')
    f.write('\n%d confirmed changes, %d caught by at least one check.\n'%(n,c))
print(open('/verif/seeded/RESULTS.md').read()[-200:])
