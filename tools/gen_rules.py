#!/usr/bin/env python3
# writes /verif/RULES.md from the evidence files of the last run
import json,glob
out=['# Rules as built (generated from the evidence files of the last run by tools/gen_rules.py)\n',
     'One line per rule: id, instances on the current tree (floor confirmed by hand), text. Level and the list of what is *not* decided per property are in MANIFEST.json / evidence `coverage.explanation`.\n']
for f in sorted(glob.glob('/verif/evidence/C??.json')):
    e=json.load(open(f))
    cov=e['coverage']
    out.append('\n## %s — level %s\n'%(e['property_id'],e['level']))
    out.append(cov.get('explanation','')+'\n')
    for r in cov.get('rules',[]):
        out.append('* **%s** (%d instances, floor %d): %s'%(r['id'],r['instances'],r['floor'],r['text']))
open('/verif/RULES.md','w').write('\n'.join(out)+'\n')
