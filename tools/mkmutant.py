#!/usr/bin/env python3
# usage: mkmutant.py <name> <file relative to /repo> <old> <new> [count]
# writes /verif/selftest/mutants/<name>.patch (a unified diff applicable with patch -p1 in a copy of /repo)
import sys, difflib, os
name, rel, old, new = sys.argv[1:5]
occ = int(sys.argv[5]) if len(sys.argv) > 5 else 1
src = open('/repo/'+rel).read()
assert src.count(old) >= 1, "old text not found"
if occ == 0:
    dst = src.replace(old, new)
else:
    idx = -1
    for _ in range(occ):
        idx = src.index(old, idx+1)
    dst = src[:idx] + new + src[idx+len(old):]
d = difflib.unified_diff(src.splitlines(True), dst.splitlines(True), 'a/'+rel, 'b/'+rel)
os.makedirs('/verif/selftest/mutants', exist_ok=True)
open('/verif/selftest/mutants/%s.patch' % name, 'w').write(''.join(d))
print("wrote", name)
