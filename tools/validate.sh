#!/bin/bash
# validates MANIFEST.json and all evidence files against the schemas
python3-vt - <<'PY'
import json,jsonschema,glob,sys
ok=True
try:
    jsonschema.validate(json.load(open('/verif/MANIFEST.json')),json.load(open('/root/.vp/MANIFEST.schema.json')))
    print("MANIFEST valid")
except Exception as e:
    print("MANIFEST INVALID",e); ok=False
s=json.load(open('/root/.vp/EVIDENCE.schema.json'))
for f in sorted(glob.glob('/verif/evidence/C*.json')):
    try:
        jsonschema.validate(json.load(open(f)),s)
    except Exception as e:
        print("INVALID",f,str(e)[:300]); ok=False
print("evidence checked:",len(glob.glob('/verif/evidence/C*.json')))
sys.exit(0 if ok else 1)
PY
