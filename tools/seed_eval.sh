#!/bin/bash
# usage: seed_eval.sh <Cxx> <A|B>  — verifies a sub-agent's seeded change in a fresh scratch worktree and runs all checks on it.
# Prints a JSON line with the verdicts; copies the artefacts to /verif/seeded/<Cxx>-<A|B>/.
set -u
ID=$1; V=$2
ROOT=${SEEDROOT:-/tmp/seed}
SRC=$ROOT/$ID/out/$V
W=/tmp/seedeval/$ID-$V
export GOFLAGS=-mod=mod GOPROXY=off GOSUMDB=off GOTOOLCHAIN=local
rm -rf "$W" /tmp/seedeval/demo-$ID-$V /tmp/seedeval/verif-$ID-$V; mkdir -p /tmp/seedeval
git -C /repo worktree add -q --detach "$W" HEAD || exit 2
cp -r "$SRC/demo" /tmp/seedeval/demo-$ID-$V
D=/tmp/seedeval/demo-$ID-$V
sed -i "s|$ROOT/$ID/v2|$W/v2|g" $D/go.mod 2>/dev/null
RACE=""; [ -d $D/bin ] && { export PATH=$D/bin:$PATH; chmod +x $D/bin/* 2>/dev/null; RACE="-race"; }
# a stand-in helper binary shipped with the demo (any sub-directory holding a file named midicat)
for hb in $(find $D -name midicat -type f 2>/dev/null); do chmod +x $hb; export PATH=$(dirname $hb):$PATH; done
rundemo() {
  if [ ! -f $D/go.mod ]; then
    # test file meant to live inside a package of the module (C19): copy it next to the decoder package
    cp $D/*_test.go $W/v2/drivers/midicat/ && (cd $W/v2 && go test -count=1 ./drivers/midicat/ >/tmp/seedeval/demo-$ID-$V.out 2>&1); rc=$?; rm -f $W/v2/drivers/midicat/c19*_demo_test.go; echo $rc; return
  fi
  if ls $D/*_test.go >/dev/null 2>&1; then (cd $D && go test $RACE -count=1 ./... >/tmp/seedeval/demo-$ID-$V.out 2>&1); else (cd $D && go run . >/tmp/seedeval/demo-$ID-$V.out 2>&1); fi; echo $?; }
clean_rc=$(rundemo)
git -C "$W" apply "$SRC/patch.diff" || { echo "{\"id\":\"$ID-$V\",\"error\":\"patch does not apply\"}"; git -C /repo worktree remove --force "$W"; exit 3; }
build=$(cd $W/v2 && go build $(go list ./... | grep -v -e rtmididrv -e portmididrv) 2>&1 | head -3)
base=$(/verif/tools/baseline.sh $W | head -1)
mut_rc=$(rundemo)
tail -3 /tmp/seedeval/demo-$ID-$V.out > /tmp/seedeval/demo-$ID-$V.tail
mkdir -p /tmp/seedeval/verif-$ID-$V; cp /verif/known_findings.json /tmp/seedeval/verif-$ID-$V/
caught=""
for c in C01 C02 C03 C04 C05 C06 C07 C08 C09 C10 C11 C12 C13 C14 C15 C16 C17 C18 C19 C20; do
  out=$(${MIDIVERIF:-/verif/bin/midiverif} check $c --repo $W --verif /tmp/seedeval/verif-$ID-$V 2>&1); r=$?
  if [ $r -ne 0 ]; then rule=$(echo "$out" | grep -m1 -E "^  C[0-9]+\.[0-9]+" | cut -c1-220); caught="$caught$c: $rule\n"; fi
done
git -C /repo worktree remove --force "$W"; rm -rf /tmp/seedeval/verif-$ID-$V
mkdir -p /verif/seeded/$ID-$V; cp $SRC/patch.diff /verif/seeded/$ID-$V/; rm -rf /verif/seeded/$ID-$V/demo; cp -r $SRC/demo /verif/seeded/$ID-$V/demo
python3 - "$ID" "$V" "$clean_rc" "$mut_rc" "$build" "$base" "$caught" "$ROOT" <<'PY'
import json,sys
ID,V,clean,mut,build,base,caught,ROOT=sys.argv[1:9]
meta=json.load(open('%s/%s/out/%s/meta.json'%(ROOT,ID,V)))
meta.update({"verified_by_me":{"demo_exit_on_unchanged_tree":int(clean),"demo_exit_with_change":int(mut),"build_output":build,"baseline":base,
  "what_i_ran":"tools/seed_eval.sh %s %s: fresh scratch worktree of /repo HEAD under /tmp/seedeval; demo on clean tree; git apply patch; go build; baseline.sh; demo again; all 20 checks with --repo <worktree>; worktree removed"%(ID,V)},
  "caught_by":[l for l in caught.replace('\\n','\n').split('\n') if l.strip()]})
meta["valid"]= int(clean)==0 and int(mut)!=0 and build=="" and "66/66" in base
json.dump(meta,open('/verif/seeded/%s-%s/meta.json'%(ID,V),'w'),indent=1)
print(json.dumps({"id":ID+"-"+V,"valid":meta["valid"],"clean":clean,"mut":mut,"base":base,"caught":[c.split(':')[0] for c in meta["caught_by"]]}))
PY
