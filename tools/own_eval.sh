#!/bin/bash
# every confirmed seeded change must be reported by the check of ITS OWN property (PAR jobs in parallel, default 4)
cd /verif
one() {
  d=$1; id=$(basename $d); prop=${id%-*}
  [ -f $d/patch.diff ] || exit 0
  valid=$(python3 -c "import json;print(json.load(open('$d/meta.json')).get('valid'))" 2>/dev/null)
  out=$(tools/mutant.sh $d/patch.diff $prop 2>&1)
  if echo "$out" | grep -q "^CAUGHT"; then echo "ok   $id (valid=$valid) $(echo "$out" | grep -m1 -E '^  C[0-9]+\.' | cut -c1-160)"; else echo "MISS $id (valid=$valid) $(echo "$out" | head -1)"; fi
}
export -f one
ls -d seeded/C??-? | xargs -P ${PAR:-4} -I{} bash -c 'one {}' | sort -k2
