package main

// E-abs value domain: integers as (affine term over symbols) x (bit provenance) with
// per-state symbol ranges; pointers, slices with segment lists, structs, interfaces,
// closures. See DESIGN §3.4.

import (
	"fmt"
	"go/types"
	"math"
	"sort"
	"strings"

	"golang.org/x/tools/go/ssa"
)

// ---------------------------------------------------------------- symbols & terms

type Sym struct {
	ID      int
	Name    string // canonical: parameters "p:name", inputs "m[3]", derived "(def)"
	W       int
	Signed  bool
	Lo, Hi  int64 // base range
	Summary bool  // stands for many concrete values (no identity across reads)
	DefBits []Bit // for symbols defined by a bit pattern (derived from bit ops)
	DefTerm *Term // for symbols defined by a term
}

type SymTab struct {
	byName map[string]*Sym
	next   int
}

func NewSymTab() *SymTab { return &SymTab{byName: map[string]*Sym{}} }

func typeRange(w int, signed bool) (int64, int64) {
	if signed {
		if w >= 64 {
			return math.MinInt64, math.MaxInt64
		}
		return -(int64(1) << (w - 1)), (int64(1) << (w - 1)) - 1
	}
	if w >= 63 {
		return 0, math.MaxInt64 // uint64 saturated: values above MaxInt64 are treated as unknown-large
	}
	return 0, (int64(1) << w) - 1
}

func (t *SymTab) Get(name string, w int, signed bool) *Sym {
	if s, ok := t.byName[name]; ok {
		return s
	}
	lo, hi := typeRange(w, signed)
	s := &Sym{ID: t.next, Name: name, W: w, Signed: signed, Lo: lo, Hi: hi}
	t.next++
	t.byName[name] = s
	return s
}

func (t *SymTab) Fresh(prefix string, w int, signed bool) *Sym {
	name := fmt.Sprintf("%s#%d", prefix, t.next)
	s := t.Get(name, w, signed)
	return s
}

// Term: affine combination sum(coef*sym) + C over mathematical integers.
type Term struct {
	Syms  []*Sym
	Coefs []int64
	C     int64
}

func constTerm(c int64) *Term { return &Term{C: c} }
func symTerm(s *Sym) *Term    { return &Term{Syms: []*Sym{s}, Coefs: []int64{1}} }

func (t *Term) IsConst() bool { return len(t.Syms) == 0 }
func (t *Term) SingleSym() (*Sym, bool) {
	if len(t.Syms) == 1 && t.Coefs[0] == 1 && t.C == 0 {
		return t.Syms[0], true
	}
	return nil, false
}

func (t *Term) String() string {
	if t == nil {
		return "?"
	}
	var parts []string
	for i, s := range t.Syms {
		switch t.Coefs[i] {
		case 1:
			parts = append(parts, s.Name)
		case -1:
			parts = append(parts, "-"+s.Name)
		default:
			parts = append(parts, fmt.Sprintf("%d*%s", t.Coefs[i], s.Name))
		}
	}
	if t.C != 0 || len(parts) == 0 {
		parts = append(parts, fmt.Sprint(t.C))
	}
	return strings.Join(parts, "+")
}

func termAdd(a, b *Term, sb int64) *Term { // a + sb*b
	m := map[*Sym]int64{}
	var order []*Sym
	add := func(s *Sym, c int64) {
		if _, ok := m[s]; !ok {
			order = append(order, s)
		}
		m[s] += c
	}
	for i, s := range a.Syms {
		add(s, a.Coefs[i])
	}
	for i, s := range b.Syms {
		add(s, sb*b.Coefs[i])
	}
	sort.Slice(order, func(i, j int) bool { return order[i].ID < order[j].ID })
	r := &Term{C: a.C + sb*b.C}
	for _, s := range order {
		if m[s] != 0 {
			r.Syms = append(r.Syms, s)
			r.Coefs = append(r.Coefs, m[s])
		}
	}
	return r
}

func termScale(a *Term, k int64) *Term {
	r := &Term{C: a.C * k}
	if k == 0 {
		return r
	}
	for i, s := range a.Syms {
		r.Syms = append(r.Syms, s)
		r.Coefs = append(r.Coefs, a.Coefs[i]*k)
	}
	return r
}

func termEq(a, b *Term) bool {
	if a == nil || b == nil {
		return false
	}
	d := termAdd(a, b, -1)
	return d.IsConst() && d.C == 0
}

// ---------------------------------------------------------------- bits

type BitKind uint8

const (
	BTop BitKind = iota
	B0
	B1
	BSym
)

type Bit struct {
	K BitKind
	S *Sym
	J uint8
}

func (b Bit) String() string {
	switch b.K {
	case B0:
		return "0"
	case B1:
		return "1"
	case BSym:
		return fmt.Sprintf("%s.%d", b.S.Name, b.J)
	}
	return "?"
}

func bitsString(bs []Bit) string {
	var sb strings.Builder
	for i := len(bs) - 1; i >= 0; i-- {
		if i != len(bs)-1 {
			sb.WriteByte(' ')
		}
		sb.WriteString(bs[i].String())
	}
	return sb.String()
}

// ---------------------------------------------------------------- values

type Val interface{}

// IntV: an integer (or bool-free) value. At least one of T / Bits is set.
type IntV struct {
	W      int
	Signed bool
	T      *Term // exact mathematical value as affine term (nil if unknown)
	Bits   []Bit // len W, LSB first (nil if not tracked)
}

type BoolV struct {
	Known bool
	Val   bool
	// the comparison that produced it (for refinement)
	Op   string // "==","!=","<","<=",">",">=" or "" ; "!" prefix handled by swapping
	X, Y Val
	Not  *BoolV
}

type PathElem struct {
	Field int   // >=0 for struct field
	Index *IntV // non-nil for array element
}

type PtrV struct {
	Nil  bool
	Obj  int // heap object id
	Path []PathElem
	Unk  bool          // unknown pointer (may be nil or anything)
	Fn   *ssa.Function // pointer to global function? unused
}

// Seg: a piece of an array: known elements or an opaque run copied from a source.
type Seg struct {
	Elems []Val
	Run   *Run
}

type Run struct {
	Src  string // identity of the source sequence, e.g. "data"
	Off  *Term
	Len  *Term
	Elem Val // summary element (type carrier)
}

type ArrayV struct {
	Segs []Seg
	Elem types.Type
}

type SliceV struct {
	Nil      bool
	MaybeNil bool
	Obj      int        // array object id
	Path     []PathElem // field path from the object to the array (slices of arrays nested in structs); usually empty
	Off      *IntV
	Len      *IntV
	Cap      *IntV
	Unk      bool
}

type StructV struct {
	Fields []Val
	T      *types.Struct
}

type StrV struct {
	Known bool
	S     string
	Len   *IntV
	Bytes *SliceV      // string(b) of a tracked byte slice (for []byte(string(b)) round trips)
	Text  *textMeaning // abs_text.go: the string is the decimal / hex rendering of a value
}

type IfaceV struct {
	Nil      bool
	Unk      bool
	Dyn      types.Type
	V        Val
	NonNil   bool   // unknown but known non-nil (e.g. fmt.Errorf result)
	Sentinel string // "pkg.Name" when the value was loaded from a package-level sentinel error variable
}

type FuncV struct {
	Fn       *ssa.Function
	Bindings []Val
	Ext      string // external callback name (e.g. "OnMsg")
	Nil      bool
	Unk      bool
}

type TupleV struct{ Vs []Val }

// MapIterV: iterator over a tracked map (ssa.Range / ssa.Next).
type MapIterV struct {
	Keys []int64
	Vals []Val
	Pos  int
}

type MapV struct {
	Dyn   bool // made by the analysed code and tracked in the heap (Exec.MapModel); the heap object is the truth
	Const bool
	Keys  []int64
	Vals  []Val
	Unk   bool
	ElemT types.Type
	Obj   int
}

type FloatV struct {
	Known   bool
	F       float64
	Expr    string // canonical symbolic expression (for formula comparison), "" if unknown
	Mono    *Mono  // rational monomial normal form coef * prod(atom^exp), when the value is built by * and / only
	Rounded string // "Round"/"Floor"/... applied on top of Mono (opaque wrapper), "" if none
}

// Mono: coefficient times a product of atoms with integer exponents (normal form of straight-line * and /).
type Mono struct {
	Coef float64
	Pow  map[string]int
}

func monoOfAtom(name string) *Mono { return &Mono{Coef: 1, Pow: map[string]int{name: 1}} }
func monoConst(c float64) *Mono    { return &Mono{Coef: c, Pow: map[string]int{}} }

func monoMul(a, b *Mono, sign int) *Mono {
	r := &Mono{Coef: a.Coef, Pow: map[string]int{}}
	for k, v := range a.Pow {
		r.Pow[k] = v
	}
	if sign > 0 {
		r.Coef *= b.Coef
	} else {
		r.Coef /= b.Coef
	}
	for k, v := range b.Pow {
		r.Pow[k] += sign * v
		if r.Pow[k] == 0 {
			delete(r.Pow, k)
		}
	}
	return r
}

func (m *Mono) String() string {
	if m == nil {
		return "?"
	}
	var ks []string
	for k := range m.Pow {
		ks = append(ks, k)
	}
	sort.Strings(ks)
	s := fmt.Sprintf("%g", m.Coef)
	for _, k := range ks {
		s += fmt.Sprintf(" * %s^%d", k, m.Pow[k])
	}
	return s
}

func monoEq(a, b *Mono) bool {
	if a == nil || b == nil || len(a.Pow) != len(b.Pow) {
		return false
	}
	r := a.Coef / b.Coef
	if r < 1-1e-12 || r > 1+1e-12 {
		return false
	}
	for k, v := range a.Pow {
		if b.Pow[k] != v {
			return false
		}
	}
	return true
}

func (f *FloatV) mono() *Mono {
	if f.Known {
		return monoConst(f.F)
	}
	if f.Rounded != "" && f.Mono != nil {
		return monoOfAtom(f.Rounded + "(" + f.Mono.String() + ")")
	}
	return f.Mono
}

type TopV struct{ T types.Type }

type BufV struct { // bytes.Buffer model
	Data *ArrayV
	// Handed: the arrays given out by Bytes(). In the real type they alias the buffer's storage (a Reset followed by
	// writes overwrites them); here they are snapshots, but they count as reachable from the buffer, so that "who still
	// holds a reference to this message" sees the buffer and whoever owns it.
	Handed []int
}

type RdrV struct { // bytes.Reader model
	Src    SliceV
	Pos    *IntV
	Source bool // the reader a harness made to stand for the external source (failure / fragmentation are injected only there, not into in-memory readers the analysed code creates)
	Failed bool // Exec.ReaderMayFail: the source has failed (sticky): every further Read returns (0, the failure)
}

// ---------------------------------------------------------------- helpers on IntV

func intTypeInfo(t types.Type) (w int, signed bool, ok bool) {
	b, isB := t.Underlying().(*types.Basic)
	if !isB {
		return 0, false, false
	}
	switch b.Kind() {
	case types.Int8:
		return 8, true, true
	case types.Int16:
		return 16, true, true
	case types.Int32:
		return 32, true, true
	case types.Int64, types.Int:
		return 64, true, true
	case types.Uint8:
		return 8, false, true
	case types.Uint16:
		return 16, false, true
	case types.Uint32:
		return 32, false, true
	case types.Uint64, types.Uint, types.Uintptr:
		return 64, false, true
	case types.UntypedInt, types.UntypedRune:
		return 64, true, true
	}
	return 0, false, false
}

func mkConst(c int64, w int, signed bool) *IntV {
	return &IntV{W: w, Signed: signed, T: constTerm(c)}
}

func mkSym(s *Sym) *IntV {
	return &IntV{W: s.W, Signed: s.Signed, T: symTerm(s)}
}

func (v *IntV) Const() (int64, bool) {
	if v.T != nil && v.T.IsConst() {
		return v.T.C, true
	}
	if v.Bits != nil {
		var x uint64
		for i, b := range v.Bits {
			switch b.K {
			case B1:
				x |= 1 << uint(i)
			case B0:
			default:
				return 0, false
			}
		}
		return signExtend(x, v.W, v.Signed), true
	}
	return 0, false
}

func signExtend(x uint64, w int, signed bool) int64 {
	if w < 64 {
		x &= (1 << uint(w)) - 1
		if signed && x&(1<<uint(w-1)) != 0 {
			return int64(x) - (1 << uint(w))
		}
	}
	return int64(x)
}

func constBits(c int64, w int) []Bit {
	bs := make([]Bit, w)
	for i := 0; i < w; i++ {
		if (uint64(c)>>uint(i))&1 == 1 {
			bs[i] = Bit{K: B1}
		} else {
			bs[i] = Bit{K: B0}
		}
	}
	return bs
}

func (v *IntV) String() string {
	if c, ok := v.Const(); ok {
		return fmt.Sprint(c)
	}
	s := ""
	if v.T != nil {
		s = v.T.String()
	}
	if v.Bits != nil {
		s += "{" + bitsString(v.Bits) + "}"
	}
	return s
}

func valString(v Val) string {
	switch x := v.(type) {
	case nil:
		return "<nil>"
	case *IntV:
		return x.String()
	case *BoolV:
		if x.Known {
			return fmt.Sprint(x.Val)
		}
		return "bool?"
	case *SliceV:
		if x.Nil {
			return "nil-slice"
		}
		return fmt.Sprintf("slice(obj%d off=%s len=%s)", x.Obj, x.Off, x.Len)
	case *PtrV:
		if x.Nil {
			return "nil-ptr"
		}
		if x.Unk {
			return "ptr?"
		}
		return fmt.Sprintf("&obj%d%v", x.Obj, x.Path)
	case *StrV:
		if x.Known {
			return fmt.Sprintf("%q", x.S)
		}
		return "string?"
	case *TupleV:
		var p []string
		for _, e := range x.Vs {
			p = append(p, valString(e))
		}
		return "(" + strings.Join(p, ", ") + ")"
	case *IfaceV:
		if x.Nil {
			return "nil-iface"
		}
		if x.Unk {
			return "iface?"
		}
		return fmt.Sprintf("iface(%s:%s)", x.Dyn, valString(x.V))
	case *FuncV:
		if x.Ext != "" {
			return "ext:" + x.Ext
		}
		if x.Fn != nil {
			return "func " + x.Fn.Name()
		}
		return "func?"
	case *StructV:
		var p []string
		for _, e := range x.Fields {
			p = append(p, valString(e))
		}
		return "{" + strings.Join(p, ", ") + "}"
	case *ArrayV:
		return arrayString(x)
	case *FloatV:
		if x.Known {
			return fmt.Sprint(x.F)
		}
		if x.Expr != "" {
			return x.Expr
		}
		return "float?"
	case *TopV:
		return "top"
	}
	return fmt.Sprintf("%T", v)
}

func arrayString(a *ArrayV) string {
	var p []string
	for _, s := range a.Segs {
		if s.Run != nil {
			p = append(p, fmt.Sprintf("run(%s+%s,len=%s)", s.Run.Src, s.Run.Off, s.Run.Len))
		} else {
			for _, e := range s.Elems {
				p = append(p, valString(e))
			}
		}
	}
	return "[" + strings.Join(p, " ") + "]"
}
