package main

import (
	"fmt"
	"go/token"
	"go/types"
	"os"
	"sort"
	"strings"

	"golang.org/x/tools/go/ssa"
)

func init() { register("C19", checkC19) }

// parseFormat splits a Printf format into verbs and literal runs.
type fmtPart struct {
	verb string // e.g. "%d", "% X"; empty for literal
	lit  string
}

func parseFormat(f string) []fmtPart {
	var out []fmtPart
	for i := 0; i < len(f); {
		if f[i] != '%' {
			j := i
			for j < len(f) && f[j] != '%' {
				j++
			}
			out = append(out, fmtPart{lit: f[i:j]})
			i = j
			continue
		}
		j := i + 1
		for j < len(f) && strings.ContainsRune("+-# 0123456789.*[]", rune(f[j])) {
			j++
		}
		if j < len(f) {
			j++
		}
		out = append(out, fmtPart{verb: f[i:j]})
		i = j
	}
	return out
}

func checkC19(c *Ctx) {
	p := c.P
	c.Level = "other"
	c.Explain = "C19 decided on the structure that makes the line protocol lossless and self-framing: the encoder's format string (a typed constant) is <decimal integer><separator><upper-case hex of the byte slice><terminator> with exactly the separator/terminator bytes the decoder compares input bytes with; the verbs cannot emit either byte; the decoder reads only through one-byte reads whose count is checked, treats data+EOF correctly, returns at the first terminator without reading further; no reachable panic on malformed lines (site-directed abstract interpretation). Not decided: that fmt's %X / %d scanning inverts fmt's printing (library semantics)."
	c.Trusted = []string{"go/ssa", "fmt verb semantics (%d emits [-0-9], %X on []byte emits [0-9A-F])", "E-abs may-panic engine"}
	c.Rule("C19.1", "separator/terminator agreement: the encoder's format is <int verb><sep><hex verb><term> and sep/term are the two constants the decoder compares input bytes with, in that order", 1)
	c.Rule("C19.2", "self-framing alphabet: integer verb on an integer, upper-case hex verb without space/# flag on a byte slice; neither alphabet contains sep or term", 1)
	c.Rule("C19.3", "fragmentation-proof decoding: only one-byte reads with checked count; an error delivered together with the byte does not lose the byte; one record per call (return at the first terminator)", 3)
	c.Rule("C19.4", "no reachable panic on malformed lines in ReadAndConvert", 1)
	c.Rule("C19.6", "no artificial limit: the decoder does not give up on a line because an accumulated length reaches a constant below what a 2000-byte message needs (4000 hex digits)", 1)
	c.Rule("C19.7", "one line per call, whatever the line holds: ReadAndConvert is interpreted on a source holding a line of each shape (well-formed, odd number of hex digits, non-hex data, no separator, empty data, non-numeric time stamp, empty line, blank inside the data) followed by a second record; no outcome — with or without error — consumes a byte beyond the first terminator (the next record is never lost or merged), and every outcome that returns without error has consumed exactly the line", 8)
	c.Rule("C19.5", "the decoder's conversions invert the encoder's verbs: the decimal text of every int32 time stamp converts back to it and the upper-case hex text of every message converts back to its bytes, with a nil error, on every path", 2)

	read := p.Func("drivers/midicat", "Read")
	rac := p.Func("drivers/midicat", "ReadAndConvert")
	outT := p.roleT("drivers/midicatdrv.out")
	if read == nil || rac == nil || outT == nil {
		c.Unk("C19.1", "midicat.Read / ReadAndConvert / midicatdrv out port", "-", "not resolved")
		return
	}
	c.Fn(FuncName(read))
	c.Fn(FuncName(rac))
	// ---- decoder constants: the constants that a byte obtained from the source is compared with (==), anywhere in the
	// decoder (role based: the byte is the result of the module function that performs the one-byte read, or is loaded
	// from the one-byte buffer). The terminator is the constant of the encoder's format that ends the line; after its
	// comparison succeeds no further read may be reachable in that function (one record per call).
	decScope := p.Reachable(rac)
	byteReaders := map[*ssa.Function]bool{}
	for _, f := range decScope {
		for _, call := range calls(f) {
			if invokeIs(call, "Read") && call.Common().Value.Type().String() == "io.Reader" {
				byteReaders[f] = true
			}
		}
	}
	fromSource := func(v ssa.Value) bool {
		for d := 0; d < 4; d++ {
			switch x := v.(type) {
			case *ssa.Extract:
				v = x.Tuple
				continue
			case *ssa.Call:
				return byteReaders[x.Common().StaticCallee()]
			case *ssa.UnOp:
				if x.Op == token.MUL {
					if _, ok := x.X.(*ssa.IndexAddr); ok {
						return true
					}
				}
			}
			break
		}
		return false
	}
	type constCmp struct {
		k   int64
		iff *ssa.If
		fn  *ssa.Function
	}
	var cmps []constCmp
	for _, f := range decScope {
		for _, b := range f.Blocks {
			for _, in := range b.Instrs {
				cmp, ok := in.(*ssa.BinOp)
				if !ok || cmp.Op != token.EQL {
					continue
				}
				k, ok := constInt(cmp.Y)
				if !ok || !fromSource(cmp.X) {
					continue
				}
				for _, u := range liveRefs(cmp) {
					if iff, ok := u.(*ssa.If); ok {
						cmps = append(cmps, constCmp{k, iff, f})
					}
				}
			}
		}
	}
	decConsts := map[int64]bool{}
	for _, cc := range cmps {
		decConsts[cc.k] = true
	}
	sep, term := int64(-1), int64(-1)
	hexLower := false
	termReturns := true
	// ---- encoder: abstract run of the out port's Send (abs_fmt.go) on an open port with a symbolic message of 1..2000
	// bytes; what reaches the helper's pipe on the successful outcomes is the line. Independent of how the line is
	// produced (Fprintf, Sprintf + Write, strconv/hex + append, ...).
	send := p.MethodOf(typesPtr(outT), "Send")
	if send == nil {
		c.Unk("C19.1", "out port Send", "-", "not resolved")
	} else {
		c.Fn(FuncName(send))
		line, why := encoderLine(c, send, outT)
		okLine := line != nil
		if okLine {
			sep, term = line.sep, line.term
		}
		ok := okLine
		if ok {
			ok = len(decConsts) == 2 && decConsts[sep] && decConsts[term] && sep != term
			fieldsOK, fieldsWhy := false, ""
			if !ok && sep != term {
				// the same question asked of the behaviour instead of the comparisons' spelling
				fieldsOK, fieldsWhy = decoderFields(c, rac, sep, term)
			}
			var ks []string
			for k := range decConsts {
				ks = append(ks, fmt.Sprintf("%q", string(rune(k))))
			}
			sort.Strings(ks)
			why = fmt.Sprintf("encoder uses separator %q terminator %q; the decoder compares source bytes with %s; %s", string(rune(sep)), string(rune(term)), strings.Join(ks, ", "), fieldsWhy)
			if fieldsOK {
				ok = true
			}
			// one record per call: once the terminator comparison succeeds, no further read is reachable in that function
			for _, cc := range cmps {
				if cc.k != term {
					continue
				}
				te, _ := ifEdges(cc.iff)
				if len(te.to.Instrs) == 0 {
					continue
				}
				for _, call := range calls(cc.fn) {
					cal := call.Common().StaticCallee()
					isRead := (cal != nil && byteReaders[cal]) || (invokeIs(call, "Read") && call.Common().Value.Type().String() == "io.Reader")
					if !isRead {
						continue
					}
					ci := call.(ssa.Instruction)
					if te.to.Instrs[0] == ci || canReachAvoiding(te.to.Instrs[0], ci, nil) {
						termReturns = false
					}
				}
			}
		}
		desc := ""
		if okLine {
			desc = line.desc
		}
		c.Check(ok, "C19.1", "encoder line vs decoder constants", p.Pos(send.Pos()), fmt.Sprintf("Send writes %s; decoder separator %q terminator %q", desc, string(rune(sep)), string(rune(term))), why)
		ok2, why2 := okLine, why
		if ok2 && (strings.ContainsRune("-0123456789ABCDEFabcdef", rune(sep)) || strings.ContainsRune("-0123456789ABCDEFabcdef", rune(term))) {
			ok2 = false
			why2 = "separator or terminator is a character the time stamp / payload alphabet can contain"
		}
		c.Check(ok2, "C19.2", "texts and alphabets", p.Pos(send.Pos()), "the line is <decimal text><sep><hex text of the whole message><term>: the texts emit only [-0-9] and [0-9A-Fa-f]; neither contains the separator or the terminator", why2)
		hexLower = okLine && line.lower
	}
	// ---- C19.3 read discipline
	scope := p.Reachable(rac)
	nread := 0
	for _, fn := range scope {
		for _, call := range calls(fn) {
			if !invokeIs(call, "Read") || call.Common().Value.Type().String() != "io.Reader" {
				continue
			}
			nread++
			rs := analyseReadSite(call)
			key := "read-site " + FuncName(fn)
			if !rs.constL || rs.bufLen != 1 || rs.count == nil {
				c.Bad("C19.3", key, p.Pos(call.Pos()), "read that is not a one-byte read with a used count: a record could depend on fragmentation")
				continue
			}
			mis, _ := countMismatchEdges(rs.count, 1, true, nil)
			c.Check(len(mis) > 0, "C19.3", key, p.Pos(call.Pos()), "one-byte read, count compared", "count never compared")
			ok, why := errOnlyUnderMismatch(fn, rs.err, mis)
			c.Check(ok, "C19.3", key+" data+EOF", p.Pos(call.Pos()), why, "the error is consulted before the count: a byte delivered together with io.EOF (legal for io.Reader) is dropped and the last record is lost")
		}
	}
	if nread == 0 {
		c.Bad("C19.3", "read sites", "-", "decoder performs no read")
	}
	// who consumes the source: the source value (the decoder's io.Reader parameter, whatever it is asserted or converted
	// to, handed on to helpers) may only be consumed through the one-byte io.Reader.Read sites judged above. Any other
	// consumer (a buffered reader's ReadSlice/ReadLine/ReadString, io.ReadFull, io.Copy ...) brings its own buffer
	// limits and read-ahead: records then depend on line length or on what else is in the stream.
	{
		tainted := map[ssa.Value]bool{}
		for _, prm := range rac.Params {
			if prm.Type().String() == "io.Reader" {
				tainted[prm] = true
			}
		}
		inScope := map[*ssa.Function]bool{}
		for _, f := range scope {
			inScope[f] = true
		}
		for changed := true; changed; {
			changed = false
			mark := func(v ssa.Value) {
				if !tainted[v] {
					tainted[v] = true
					changed = true
				}
			}
			for _, fn := range scope {
				for _, b := range fn.Blocks {
					for _, in := range b.Instrs {
						switch x := in.(type) {
						case *ssa.TypeAssert:
							if tainted[x.X] {
								mark(x)
							}
						case *ssa.Extract:
							if tainted[x.Tuple] {
								if _, isTA := x.Tuple.(*ssa.TypeAssert); isTA && x.Index == 0 {
									mark(x)
								}
							}
						case *ssa.ChangeInterface:
							if tainted[x.X] {
								mark(x)
							}
						case *ssa.MakeInterface:
							if tainted[x.X] {
								mark(x)
							}
						case *ssa.Phi:
							for _, e := range x.Edges {
								if tainted[e] {
									mark(x)
								}
							}
						case ssa.CallInstruction:
							cal := x.Common().StaticCallee()
							if cal != nil && inScope[cal] && InModule(cal) {
								args := x.Common().Args
								for i, a := range args {
									if tainted[a] && i < len(cal.Params) {
										mark(cal.Params[i])
									}
								}
							}
						}
					}
				}
			}
		}
		for _, fn := range scope {
			if !InModule(fn) {
				continue
			}
			for _, call := range calls(fn) {
				cc := call.Common()
				if invokeIs(call, "Read") && cc.Value.Type().String() == "io.Reader" {
					continue
				}
				if cal := cc.StaticCallee(); cal != nil && InModule(cal) {
					continue
				}
				uses := cc.IsInvoke() && tainted[cc.Value]
				for _, a := range cc.Args {
					if tainted[a] {
						uses = true
					}
				}
				if uses {
					c.Bad("C19.3", "source consumed other than by the one-byte read in "+FuncName(fn), p.Pos(call.Pos()), "the source is handed to "+callName(call)+": only one-byte io.Reader.Read calls with a checked count keep a record independent of buffer sizes, line length and fragmentation")
				}
			}
		}
	}
	// one record per call: after the terminator branch no read is reachable -> terminator edge returns (found above)
	c.Check(term >= 0 && termReturns, "C19.3", "return at the first terminator", p.Pos(read.Pos()), "once a source byte equals the terminator no further read is reachable in that function", "after the terminator has been seen the decoder can read on: it may consume bytes of the next record")
	// ---- C19.4
	ps := NewPanicScan(p, scope)
	ps.Check(c, "C19.4", scope)
	// ---- C19.5 the decoder's conversions invert the encoder's verbs
	conversionsInvert(c, "C19.5", scope, hexLower)
	// ---- C19.6 no length limit inside the stated message sizes
	noSmallLimit(c, "C19.6", scope)
	// ---- C19.7 one line per call
	if term >= 0 && sep >= 0 {
		lineConsumption(c, "C19.7", rac, byte(sep), byte(term))
	} else {
		c.Unk("C19.7", "line consumption", "-", "separator / terminator of the line format not resolved (see C19.1)")
	}
}

// conversionsInvert: the two conversion helpers of the decoder — []byte -> (int32, error) for the text before the
// separator, []byte -> ([]byte, error) for the text after it — are interpreted abstractly on the decimal text of a
// symbolic int32 (whole range) and on the hex text of a symbolic payload of any length >= 1: every path must return the
// original value and a nil error.
// decoderConversions: the decoder's two conversion helpers by role: []byte -> (int32, error) and []byte -> ([]byte, error).
func decoderConversions(p *Program, scope []*ssa.Function) (convDelta, convHex []*ssa.Function) {
	for _, f := range scope {
		sig := f.Signature
		if sig.Recv() != nil || sig.Params().Len() != 1 || sig.Results().Len() != 2 || !isErrorType(sig.Results().At(1).Type()) {
			continue
		}
		if !tByteSlice(p, sig.Params().At(0).Type()) {
			continue
		}
		r0 := sig.Results().At(0).Type()
		if b, ok := r0.Underlying().(*types.Basic); ok && b.Kind() == types.Int32 {
			convDelta = append(convDelta, f)
		}
		if tByteSlice(p, r0) {
			convHex = append(convHex, f)
		}
	}
	return
}

// decoderFields: ReadAndConvert is interpreted on "<2 digits><sep><4 hex letters><term>" followed by a second record, with
// the two conversion helpers observed: the time-stamp conversion must be handed exactly the two digits and the data
// conversion exactly the four hex characters — the decoder splits the line at the encoder's separator and ends it at the
// encoder's terminator, however its scanning loop is written.
func decoderFields(c *Ctx, rac *ssa.Function, sep, term int64) (bool, string) {
	p := c.P
	convDelta, convHex := decoderConversions(p, p.Reachable(rac))
	if len(convDelta) != 1 || len(convHex) != 1 {
		return false, "conversion helpers of the decoder not uniquely resolved"
	}
	ex := NewExec(p)
	ex.Unroll = 16
	st := ex.NewState()
	var elems []Val
	var f1, f2 []Val
	for i := 0; i < 2; i++ {
		sy := ex.syms.Get(fmt.Sprintf("d%d", i), 8, false)
		st.refineSym(sy, '0', '9')
		f1 = append(f1, mkSym(sy))
	}
	for i := 0; i < 4; i++ {
		sy := ex.syms.Get(fmt.Sprintf("h%d", i), 8, false)
		st.refineSym(sy, 'A', 'F')
		f2 = append(f2, mkSym(sy))
	}
	elems = append(elems, f1...)
	elems = append(elems, mkConst(sep, 8, false))
	elems = append(elems, f2...)
	elems = append(elems, mkConst(term, 8, false))
	for _, ch := range []byte("7") {
		elems = append(elems, mkConst(int64(ch), 8, false))
	}
	elems = append(elems, mkConst(sep, 8, false))
	for _, ch := range []byte("903C40") {
		elems = append(elems, mkConst(int64(ch), 8, false))
	}
	elems = append(elems, mkConst(term, 8, false))
	nD, nH := 0, 0
	why := ""
	same := func(st *State, v Val, want []Val) bool {
		sl, _ := v.(*SliceV)
		if sl == nil {
			return false
		}
		got, ok := ex.sliceSegs(st, sl)
		return ok && segsEqual(st.dropEmptyRuns(got), []Seg{{Elems: want}}, st.sameVal)
	}
	ex.CallHook = func(ex *Exec, st *State, fr *Frame, call ssa.CallInstruction, callee *ssa.Function, args []Val) ([]callRes, bool) {
		if callee == convDelta[0] && len(args) == 1 {
			nD++
			if !same(st, args[0], f1) {
				why = "the time-stamp conversion is handed " + valString(args[0]) + " instead of the text before the separator"
			}
		}
		if callee == convHex[0] && len(args) == 1 {
			nH++
			if !same(st, args[0], f2) {
				why = "the data conversion is handed " + valString(args[0]) + " instead of the text between separator and terminator"
			}
		}
		return nil, false
	}
	src := ex.mkBytes(st, "src", elems, false, 0)
	outs := ex.Call(st, rac, []Val{ex.readerOver(st, src)}, nil)
	if ex.Budget || len(outs) == 0 {
		return false, "abstract interpretation of ReadAndConvert did not complete"
	}
	for u := range ex.Unsupported {
		return false, "unmodelled construct: " + u
	}
	if why != "" {
		return false, why
	}
	if nD == 0 || nH == 0 {
		return false, fmt.Sprintf("on a well-formed line the conversions are not both reached (time stamp: %d, data: %d)", nD, nH)
	}
	return true, ""
}

func conversionsInvert(c *Ctx, rule string, scope []*ssa.Function, hexLower bool) {
	p := c.P
	convDelta, convHex := decoderConversions(p, scope)
	if len(convDelta) != 1 || len(convHex) != 1 {
		c.Unk(rule, "conversion helpers of the decoder (roles: []byte -> (int32, error), []byte -> ([]byte, error))", "-", fmt.Sprintf("not uniquely resolved (%d / %d candidates)", len(convDelta), len(convHex)))
		return
	}
	{
		f := convDelta[0]
		c.Fn(FuncName(f))
		ex := NewExec(p)
		st := ex.NewState()
		t := mkSym(ex.syms.Get("t", 32, true))
		txt := ex.mkDecText(st, "t", t)
		ok, why, n := true, "", 0
		for _, o := range ex.Call(st, f, []Val{txt}, nil) {
			n++
			if o.Panic || len(problemEvents(o.St.Events)) > 0 {
				ok, why = false, "may panic on a well-formed time stamp: "+o.Msg+fmtEvents(problemEvents(o.St.Events))
				continue
			}
			ev, _ := o.Ret[1].(*IfaceV)
			if ev == nil || !ev.Nil {
				lo, hi := o.St.Range(t)
				ok, why = false, fmt.Sprintf("rejects (or may reject) the decimal text of a time stamp in [%d,%d] [%s]", lo, hi, outcomeWitness(o))
				continue
			}
			rv, _ := o.Ret[0].(*IntV)
			if rv == nil || !(o.St.sameInt(rv, t) || func() bool { eq, k := o.St.Decide("==", rv, t); return k && eq }()) {
				ok, why = false, fmt.Sprintf("returns %s for the text of t [%s]", valString(o.Ret[0]), outcomeWitness(o))
			}
		}
		for u := range ex.Unsupported {
			ok, why = false, "unmodelled construct: "+u
		}
		if ex.Budget {
			ok, why = false, "budget"
		}
		c.Check(ok && n > 0, rule, "time stamp text -> int32", p.Pos(f.Pos()), fmt.Sprintf("%d partition(s): the decimal text of every int32 converts back to it, error nil", n), why)
	}
	{
		f := convHex[0]
		c.Fn(FuncName(f))
		ex := NewExec(p)
		st := ex.NewState()
		payload := ex.unknownSlice(st, types.Typ[types.Uint8], "msg", 1)
		txt := ex.mkHexText(st, "msg", payload)
		if hexLower { // the case the encoder emits
			m := ex.texts["hex:msg"]
			m.lower = true
			ex.texts["hex:msg"] = m
		}
		wantSegs, _ := ex.sliceSegs(st, payload)
		ok, why, n := true, "", 0
		for _, o := range ex.Call(st, f, []Val{txt}, nil) {
			n++
			if o.Panic || len(problemEvents(o.St.Events)) > 0 {
				ok, why = false, "may panic on well-formed hex text: "+o.Msg+fmtEvents(problemEvents(o.St.Events))
				continue
			}
			ev, _ := o.Ret[1].(*IfaceV)
			if ev == nil || !ev.Nil {
				ok, why = false, "rejects (or may reject) the hex text of a message ["+outcomeWitness(o)+"]"
				continue
			}
			rs, _ := o.Ret[0].(*SliceV)
			if rs == nil || rs.Unk || rs.Nil {
				ok, why = false, "result not tracked"
				continue
			}
			got, okG := ex.sliceSegs(o.St, rs)
			if !okG || !o.St.sameInt(rs.Len, payload.Len) {
				ok, why = false, fmt.Sprintf("returns %s bytes for a %s-byte message", rs.Len, payload.Len)
				continue
			}
			if d := segsDiffer(o.St, got, wantSegs); d != "" {
				ok, why = false, "returns "+arrayStringIn(o.St, &ArrayV{Segs: got})+" for the hex text of the message ("+d+")"
			}
		}
		for u := range ex.Unsupported {
			ok, why = false, "unmodelled construct: "+u
		}
		if ex.Budget {
			ok, why = false, "budget"
		}
		c.Check(ok && n > 0, rule, "hex text -> message bytes", p.Pos(f.Pos()), fmt.Sprintf("%d partition(s): the hex text of every message (any length >= 1) converts back to its bytes, error nil", n), why)
	}
}

func variadicArgTypes(call ssa.CallInstruction) (string, string) {
	// the variadic slice is built by stores of MakeInterface values into a fresh array
	args := call.Common().Args
	if len(args) < 3 {
		return "", ""
	}
	sl, ok := args[2].(*ssa.Slice)
	if !ok {
		return "", ""
	}
	arr, ok := sl.X.(*ssa.Alloc)
	if !ok {
		return "", ""
	}
	res := map[int64]string{}
	for _, u := range liveRefs(arr) {
		ia, ok := u.(*ssa.IndexAddr)
		if !ok {
			continue
		}
		i, _ := constInt(ia.Index)
		for _, uu := range liveRefs(ia) {
			if st, ok := uu.(*ssa.Store); ok {
				if mi, ok := st.Val.(*ssa.MakeInterface); ok {
					res[i] = mi.X.Type().String()
				}
			}
		}
	}
	return res[0], res[1]
}

// noSmallLimit: an If that compares a length (len of an accumulating slice, or a counter) with a constant and whose
// taken edge leads only to error returns is a size limit; the property states messages up to 2000 bytes (4000 hex
// digits on the wire), so a limit below 4000 rejects well-formed lines.
func noSmallLimit(c *Ctx, rule string, scope []*ssa.Function) {
	p := c.P
	const need = 4000
	bad := ""
	var badPos token.Pos
	n := 0
	for _, fn := range scope {
		sig := fn.Signature
		nres := sig.Results().Len()
		if nres == 0 || !isErrorType(sig.Results().At(nres-1).Type()) {
			continue
		}
		for _, b := range fn.Blocks {
			if len(b.Instrs) == 0 {
				continue
			}
			iff, ok := b.Instrs[len(b.Instrs)-1].(*ssa.If)
			if !ok {
				continue
			}
			cmp, ok := iff.Cond.(*ssa.BinOp)
			if !ok {
				continue
			}
			k, isK := constInt(cmp.Y)
			x := cmp.X
			if !isK {
				if k2, ok2 := constInt(cmp.X); ok2 {
					k, isK, x = k2, true, cmp.Y
				}
			}
			if !isK || k < 8 {
				continue
			}
			isLen := false
			if call, ok := x.(*ssa.Call); ok {
				if bi, ok := call.Call.Value.(*ssa.Builtin); ok && (bi.Name() == "len" || bi.Name() == "cap") {
					isLen = true
				}
			}
			if _, ok := x.(*ssa.Phi); ok {
				isLen = true
			}
			if !isLen {
				continue
			}
			// which edge means "too long": the one taken when the length is >= / > / == the constant
			te, fe := ifEdges(iff)
			var big edge
			switch cmp.Op {
			case token.GEQ, token.GTR, token.EQL:
				big = te
			case token.LSS, token.LEQ, token.NEQ:
				big = fe
			default:
				continue
			}
			// does that edge lead only to returns with a non-nil error?
			reach := blockReach(big.to, nil, nil)
			onlyErr, nret := true, 0
			for _, r := range allReturns(fn) {
				if !reach[r.Block()] {
					continue
				}
				nret++
				if isNilConst(retVal(r, nres-1)) {
					onlyErr = false
				}
			}
			if nret == 0 || !onlyErr || reach[iff.Block()] {
				continue // not a bail-out (e.g. a loop bound)
			}
			n++
			// what is measured: the time-stamp text (it goes to the []byte -> int32 converter; the longest stamp,
			// "-2147483648", has 11 characters) or the message text
			limit := int64(need)
			if isStampBuffer(x, fn) {
				limit = 11
			}
			if k < limit {
				bad = fmt.Sprintf("%s gives up with an error when a length reaches %d: a well-formed line needs up to %d there (time stamps have up to 11 characters, a message of up to 2000 bytes carries 4000 hex digits)", FuncName(fn), k, limit)
				badPos = iff.Pos()
			}
		}
	}
	c.Check(bad == "", rule, "no size limit below the stated message sizes", p.Pos(badPos), fmt.Sprintf("%d length-limit bail-out(s) in the decoder, none below %d", n, need), bad)
}

// isStampBuffer: the measured value (len(v) or a counter) belongs to the slice that is handed to a callee whose result is
// (int32, error) — the time-stamp converter.
func isStampBuffer(x ssa.Value, fn *ssa.Function) bool {
	var root ssa.Value = x
	if call, ok := x.(*ssa.Call); ok && len(call.Call.Args) == 1 {
		root = call.Call.Args[0]
	}
	fam := map[ssa.Value]bool{}
	var grow func(v ssa.Value, d int)
	grow = func(v ssa.Value, d int) {
		if v == nil || fam[v] || d > 12 {
			return
		}
		fam[v] = true
		switch y := v.(type) {
		case *ssa.Phi:
			for _, e := range y.Edges {
				grow(e, d+1)
			}
		case *ssa.Call:
			if bi, ok := y.Call.Value.(*ssa.Builtin); ok && bi.Name() == "append" && len(y.Call.Args) > 0 {
				grow(y.Call.Args[0], d+1)
			}
		}
		if refs := v.Referrers(); refs != nil {
			for _, u := range *refs {
				switch z := u.(type) {
				case *ssa.Phi:
					grow(z, d+1)
				case *ssa.Call:
					if bi, ok := z.Call.Value.(*ssa.Builtin); ok && bi.Name() == "append" && len(z.Call.Args) > 0 && z.Call.Args[0] == v {
						grow(z, d+1)
					}
				}
			}
		}
	}
	grow(root, 0)
	for _, call := range calls(fn) {
		cal := call.Common().StaticCallee()
		if cal == nil || cal.Signature.Results().Len() != 2 {
			continue
		}
		if b, ok := cal.Signature.Results().At(0).Type().Underlying().(*types.Basic); !ok || b.Kind() != types.Int32 {
			continue
		}
		for _, a := range call.Common().Args {
			if fam[a] {
				return true
			}
		}
	}
	return false
}

// encLine: the line the encoder writes for one message, as decided by encoderLine.
type encLine struct {
	sep, term int64
	lower     bool
	desc      string
}

// encoderLine runs the out port's Send abstractly: the port is open (every pointer field of the port holds an object),
// the message is a symbolic byte slice of 1..2000 bytes, the pipe is a writer that is not analysed (its writes are
// recorded; each may succeed or fail). On every outcome that reports success the bytes handed to the pipe must be
//
//	<decimal text> <one constant byte> <hex text of exactly the message> <one constant byte>
//
// and every outcome that handed over fewer bytes must report an error.
func encoderLine(c *Ctx, send *ssa.Function, outT types.Type) (*encLine, string) {
	p := c.P
	ex := NewExec(p)
	ex.FmtModel = true
	ex.WriterContract = true
	ex.texts = map[string]textMeaning{}
	st := ex.NewState()
	op := ex.newZeroObject(st, outT)
	if sv, ok := st.heap[op.Obj].(*StructV); ok {
		for i := 0; i < sv.T.NumFields(); i++ {
			if pt, ok := sv.T.Field(i).Type().(*types.Pointer); ok {
				if _, isStruct := pt.Elem().Underlying().(*types.Struct); isStruct {
					sv.Fields[i] = ex.newZeroObject(st, pt.Elem())
				}
			}
			if b, ok := sv.T.Field(i).Type().Underlying().(*types.Basic); ok && b.Kind() == types.Bool {
				sv.Fields[i] = &BoolV{} // an "open" flag, if the port has one: either value, closed outcomes fail
			}
		}
	}
	payload := ex.unknownSlice(st, types.Typ[types.Uint8], "msg", 1)
	if s := payload.Len.T.Syms; len(s) == 1 {
		st.refineSym(s[0], 1, 2000)
	}
	outs := ex.Call(st, send, []Val{op, payload}, nil)
	if ex.Budget || len(outs) == 0 {
		return nil, "abstract run of Send did not complete"
	}
	for u := range ex.Unsupported {
		return nil, "unmodelled construct in Send: " + u
	}
	var res *encLine
	for _, o := range outs {
		if o.Panic || len(problemEvents(o.St.Events)) > 0 {
			return nil, "Send may panic: " + o.Msg + fmtEvents(problemEvents(o.St.Events))
		}
		ev, _ := o.Ret[0].(*IfaceV)
		if ev == nil || !ev.Nil {
			if ev != nil && ev.Unk && !ev.NonNil {
				// may be nil: treated as a success outcome below only if it wrote; an unknown error after a failed
				// write is the writer's error handed on
				continue
			}
			continue
		}
		var segs []Seg
		for _, w := range ex.writesOf(o) {
			if w == nil {
				return nil, "bytes handed to the pipe are not tracked"
			}
			segs = append(segs, w...)
		}
		segs = normSegs(o.St.dropEmptyRuns(segs))
		// tokens: constant bytes and runs
		type tok struct {
			k   int64
			run *Run
		}
		var toks []tok
		for _, sg := range segs {
			if sg.Run != nil {
				toks = append(toks, tok{run: sg.Run})
				continue
			}
			for _, e := range sg.Elems {
				iv, _ := e.(*IntV)
				k, isK := int64(0), false
				if iv != nil {
					k, isK = o.St.ConstOf(iv)
				}
				if !isK {
					return nil, "a byte of the line is neither a constant nor part of a decimal/hex text: " + arrayStringIn(o.St, &ArrayV{Segs: segs})
				}
				toks = append(toks, tok{k: k})
			}
		}
		i := 0
		// time stamp: constant digits or a decimal text
		ts := ""
		if i < len(toks) && toks[i].run != nil {
			if m, ok := ex.texts[toks[i].run.Src]; !ok || m.dec == nil {
				return nil, "the line does not start with a decimal time stamp: " + arrayStringIn(o.St, &ArrayV{Segs: segs})
			}
			ts = "<decimal text>"
			i++
		} else {
			for i < len(toks) && toks[i].run == nil && (toks[i].k == '-' && ts == "" || toks[i].k >= '0' && toks[i].k <= '9') {
				ts += string(rune(toks[i].k))
				i++
			}
			if ts == "" || ts == "-" {
				return nil, "the line does not start with a decimal time stamp: " + arrayStringIn(o.St, &ArrayV{Segs: segs})
			}
		}
		if i+2 >= len(toks) || toks[i].run != nil || toks[i+1].run == nil || toks[i+2].run != nil || i+3 != len(toks) {
			return nil, "the line is not <time stamp><one byte><hex text of the message><one byte>: " + arrayStringIn(o.St, &ArrayV{Segs: segs})
		}
		m, ok := ex.texts[toks[i+1].run.Src]
		if !ok || m.hex == nil {
			return nil, "the message is not written as hex text: " + arrayStringIn(o.St, &ArrayV{Segs: segs})
		}
		whole := m.hex.Obj == payload.Obj && len(m.hex.Path) == 0 && o.St.sameInt(m.hex.Off, payload.Off) && o.St.sameInt(m.hex.Len, payload.Len) &&
			termEq(toks[i+1].run.Off, constTerm(0)) && termEq(toks[i+1].run.Len, o.St.TermOf(o.St.Arith(token.MUL, payload.Len, mkConst(2, 64, true), "")))
		if !whole {
			return nil, "the hex text on the line does not cover exactly the message handed to Send"
		}
		l := &encLine{sep: toks[i].k, term: toks[i+2].k, lower: m.lower}
		l.desc = fmt.Sprintf("%q %q <hex of the message> %q", ts, string(rune(l.sep)), string(rune(l.term)))
		if res != nil && (res.sep != l.sep || res.term != l.term || res.lower != l.lower) {
			return nil, "the line format differs between paths of Send"
		}
		res = l
	}
	if res == nil {
		return nil, "no outcome of Send on an open port reports success"
	}
	return res, ""
}

// lineConsumption (C19.7): see the rule text. Characters of the first line are symbolic within a class ('0'..'9',
// 'A'..'F', 'G'..'Z'), so every comparison with the separator and the terminator is decided and the byte-wise reader is
// followed exactly; what the conversions make of the fields does not matter here (both results are explored).
func lineConsumption(c *Ctx, rule string, rac *ssa.Function, sep, term byte) {
	p := c.P
	type cell struct{ name, shape string }
	// d: digit, h: hex letter, g: other letter, s: separator
	cells := []cell{
		{"well-formed", "ddshhhh"}, {"odd number of hex digits", "ddshhh"}, {"non-hex data", "ddsgg"}, {"no separator", "ddhhhh"},
		{"empty data", "dds"}, {"non-numeric time stamp", "ggshhhh"}, {"empty line", ""}, {"blank inside the data", "ddshhshh"},
	}
	for _, cl := range cells {
		ex := NewExec(p)
		ex.Unroll = 16
		st := ex.NewState()
		var elems []Val
		for i, ch := range cl.shape {
			if ch == 's' {
				elems = append(elems, mkConst(int64(sep), 8, false))
				continue
			}
			sy := ex.syms.Get(fmt.Sprintf("c%d", i), 8, false)
			switch ch {
			case 'd':
				st.refineSym(sy, '0', '9')
			case 'h':
				st.refineSym(sy, 'A', 'F')
			default:
				st.refineSym(sy, 'G', 'Z')
			}
			elems = append(elems, mkSym(sy))
		}
		first := int64(len(elems) + 1)
		elems = append(elems, mkConst(int64(term), 8, false))
		for _, ch := range []byte("7") {
			elems = append(elems, mkConst(int64(ch), 8, false))
		}
		elems = append(elems, mkConst(int64(sep), 8, false))
		for _, ch := range []byte("903C40") {
			elems = append(elems, mkConst(int64(ch), 8, false))
		}
		elems = append(elems, mkConst(int64(term), 8, false))
		src := ex.mkBytes(st, "src", elems, false, 0)
		rd := ex.readerOver(st, src)
		outs := ex.Call(st, rac, []Val{rd}, nil)
		key := "line consumption: " + cl.name
		if ex.Budget || len(outs) == 0 {
			c.Unk(rule, key, p.Pos(rac.Pos()), "abstract interpretation did not complete")
			continue
		}
		bad := false
		for u := range ex.Unsupported {
			c.Unk(rule, key+": "+u, p.Pos(rac.Pos()), "unmodelled construct")
			bad = true
			break
		}
		if bad {
			continue
		}
		ok, why := true, ""
		for _, o := range outs {
			if o.Panic {
				ok, why = false, "may panic: "+o.Msg
				continue
			}
			found := false
			for _, v := range o.St.heap {
				rv, isR := v.(*RdrV)
				if !isR || rv.Src.Obj != src.Obj {
					continue
				}
				found = true
				pos64 := o.St.Convert(rv.Pos, 64, true)
				lo, hi := o.St.Range(pos64)
				var ev *IfaceV
				if len(o.Ret) > 0 {
					ev, _ = o.Ret[len(o.Ret)-1].(*IfaceV)
				}
				if hi > first {
					ok, why = false, fmt.Sprintf("the call returns (error: %s) with up to %d bytes of the source consumed; the first line ends after %d: bytes of the NEXT record have been consumed (a record is lost or merged)", valString(o.Ret[len(o.Ret)-1]), hi, first)
				} else if ev != nil && ev.Nil && lo < first {
					ok, why = false, fmt.Sprintf("the call returns a record without error after consuming only %d of the %d bytes of the line: the next call continues inside this line", lo, first)
				}
			}
			if !found {
				ok, why = false, "source reader not tracked"
			}
		}
		if os.Getenv("ABSDEBUG") != "" {
			for _, o := range outs {
				fmt.Fprintf(os.Stderr, "C19.7 %s: ret=%v panic=%v\n", cl.name, o.Ret, o.Panic)
			}
		}
		c.Check(ok, rule, key, p.Pos(rac.Pos()), fmt.Sprintf("%d outcome(s): nothing beyond the first line (%d bytes) consumed; the successful ones consumed exactly the line", len(outs), first), why)
	}
}
