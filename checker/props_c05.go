package main

import (
	"fmt"
	"go/token"
	"go/types"
	"strings"

	"golang.org/x/tools/go/ssa"
)

func init() { register("C05", checkC05) }

// allocBounds (C05.2): every make reachable from ReadFrom whose size is not a constant is bounded (<= 1 MiB) by
// what the enclosing function (or all its callers) establishes.
func allocBounds(c *Ctx, rule string, ps *PanicScan, fns []*ssa.Function) {
	const limit = 1 << 20
	n := 0
	for _, fn := range fns {
		seq := 0
		for _, b := range fn.Blocks {
			for _, in := range b.Instrs {
				ms, ok := in.(*ssa.MakeSlice)
				if !ok {
					continue
				}
				seq++
				n++
				key := fmt.Sprintf("make in %s #%d", FuncName(fn), seq)
				pos := c.P.Pos(ms.Pos())
				if k, ok := constInt(ms.Len); ok {
					c.Check(k <= limit, rule, key, pos, fmt.Sprintf("constant size %d", k), fmt.Sprintf("constant size %d exceeds 1 MiB", k))
					continue
				}
				var check func(f *ssa.Function, forced []*ssa.Function, depth int) (bool, string)
				check = func(f *ssa.Function, forced []*ssa.Function, depth int) (bool, string) {
					r := ps.runForced(f, forced)
					if r.failed == "" {
						if rg, seen := r.allocs[pos]; seen {
							if rg[1] <= limit {
								return true, fmt.Sprintf("size within [%d,%d] in %s", rg[0], rg[1], FuncName(f))
							}
						} else {
							return true, "allocation not reachable in " + FuncName(f)
						}
					}
					if depth >= 3 || len(ps.callers[f]) == 0 {
						if r.failed != "" {
							return false, "undecided: " + r.failed
						}
						rg := r.allocs[pos]
						return false, fmt.Sprintf("allocation sized by a value in [%d,%d] that derives from input bytes: a declared length is allocated before the data has arrived", rg[0], rg[1])
					}
					for _, cal := range ps.callers[f] {
						if ok, why := check(cal, append(append([]*ssa.Function{}, forced...), f), depth+1); !ok {
							return false, why + " (via " + FuncName(cal) + ")"
						}
					}
					return true, "bounded in every caller"
				}
				ok2, why := check(fn, nil, 0)
				c.Check(ok2, rule, key, pos, why, why)
			}
		}
	}
	if n == 0 {
		c.OK(rule, "no make on the read path", "-", "allocation only through growing buffers")
	}
}

// allocBudget (C05.2b): allocation that is not paid for by input. An allocation site inside a loop that does not
// consume input on every cycle is multiplied by the loop's trip bound (derived from the integer type / origin of the
// loop bound: a header-declared 16-bit count gives 65535); the product over all enclosing such loops must stay below
// 16 MiB. (On the unchanged tree the worst case is the track list: 65535 declared tracks x 24-byte slice headers, doubled
// for append growth, ~3 MiB.) Input-consuming loops count once: what they allocate per cycle is bounded by C05.2a.
func allocBudget(c *Ctx, rule string, scope []*ssa.Function) {
	const budget = 16 << 20
	p := c.P
	sizes := types.SizesFor("gc", "amd64")
	consuming := consumingFuncs(scope)
	inScope := map[*ssa.Function]bool{}
	for _, f := range scope {
		inScope[f] = true
	}
	sizeof := func(t types.Type) int64 {
		defer func() { recover() }()
		return sizes.Sizeof(t)
	}
	// upper bound of an integer value from its shape (-1: unknown)
	var valueBound func(v ssa.Value, depth int) int64
	typeMax := func(t types.Type) int64 {
		if w, signed, ok := intTypeInfo(t); ok && !signed && w <= 16 {
			return int64(1)<<uint(w) - 1
		}
		return -1
	}
	fieldLenBound := func(fv *types.Var) int64 {
		best := int64(-1)
		n := 0
		for _, st := range p.fieldUses(fv).stores {
			if !inScope[st.Parent()] {
				continue
			}
			n++
			ms, ok := st.Val.(*ssa.MakeSlice)
			if !ok {
				return -1
			}
			b := valueBound(ms.Len, 1)
			if b < 0 {
				return -1
			}
			if b > best {
				best = b
			}
		}
		if n == 0 {
			return -1
		}
		return best
	}
	valueBound = func(v ssa.Value, depth int) int64 {
		if depth > 6 {
			return -1
		}
		if k, ok := constInt(v); ok {
			return k
		}
		if m := typeMax(v.Type()); m >= 0 {
			return m
		}
		switch x := v.(type) {
		case *ssa.Convert:
			return valueBound(x.X, depth+1)
		case *ssa.ChangeType:
			return valueBound(x.X, depth+1)
		case *ssa.Call:
			if b, ok := x.Call.Value.(*ssa.Builtin); ok && (b.Name() == "len" || b.Name() == "cap") && len(x.Call.Args) == 1 {
				switch a := x.Call.Args[0].(type) {
				case *ssa.MakeSlice:
					return valueBound(a.Len, depth+1)
				case *ssa.UnOp:
					if a.Op == token.MUL {
						if fv := fieldVar(a.X); fv != nil {
							return fieldLenBound(fv)
						}
					}
				case *ssa.Slice:
					if al, ok := a.X.(*ssa.Alloc); ok {
						if at, ok := al.Type().Underlying().(*types.Pointer).Elem().Underlying().(*types.Array); ok {
							return at.Len()
						}
					}
				case *ssa.Parameter:
					// a slice parameter (variadic list): the longest list any caller in scope passes
					fn := a.Parent()
					idx := -1
					for i, prm := range fn.Params {
						if prm == a {
							idx = i
						}
					}
					best, ncall := int64(-1), 0
					for _, caller := range scope {
						for _, call := range calls(caller) {
							if call.Common().StaticCallee() != fn || idx < 0 || idx >= len(call.Common().Args) {
								continue
							}
							ncall++
							arg := call.Common().Args[idx]
							if isNilConst(arg) {
								if best < 0 {
									best = 0
								}
								continue
							}
							sl, ok := arg.(*ssa.Slice)
							if !ok {
								return -1
							}
							al, ok := sl.X.(*ssa.Alloc)
							if !ok {
								return -1
							}
							at, ok := al.Type().Underlying().(*types.Pointer).Elem().Underlying().(*types.Array)
							if !ok {
								return -1
							}
							if at.Len() > best {
								best = at.Len()
							}
						}
					}
					if ncall == 0 {
						return -1
					}
					return best
				}
			}
		}
		return -1
	}
	// trip bound of a counted loop (-1 unknown)
	tripBound := func(l *loopInfo) int64 {
		for b := range l.Body {
			if len(b.Instrs) == 0 {
				continue
			}
			iff, ok := b.Instrs[len(b.Instrs)-1].(*ssa.If)
			if !ok {
				continue
			}
			exits := false
			for _, s := range b.Succs {
				if !l.Body[s] {
					exits = true
				}
			}
			cmp, ok := iff.Cond.(*ssa.BinOp)
			if !exits || !ok {
				continue
			}
			// x = x / c or x >> k down to 0: at most one iteration per bit
			if phi, ok := cmp.X.(*ssa.Phi); ok && (cmp.Op == token.GTR || cmp.Op == token.NEQ) {
				if k, ok := constInt(cmp.Y); ok && k == 0 {
					for _, e := range phi.Edges {
						if bo, ok := e.(*ssa.BinOp); ok && bo.X == ssa.Value(phi) && (bo.Op == token.QUO || bo.Op == token.SHR) {
							if d, ok := constInt(bo.Y); ok && ((bo.Op == token.QUO && d >= 2) || (bo.Op == token.SHR && d >= 1)) {
								if w, _, ok := intTypeInfo(phi.Type()); ok {
									return int64(w)
								}
							}
						}
					}
				}
			}
			switch cmp.Op {
			case token.LSS, token.LEQ, token.NEQ:
				if bd := valueBound(cmp.Y, 0); bd >= 0 {
					return bd + 1
				}
			case token.GTR, token.GEQ:
				// counting down from an initial value: bound of the phi's initial edge
				if phi, ok := cmp.X.(*ssa.Phi); ok {
					for i, e := range phi.Edges {
						if !l.Body[phi.Block().Preds[i]] {
							if bd := valueBound(e, 0); bd >= 0 {
								return bd + 1
							}
						}
					}
				}
			}
		}
		return -1
	}
	// bytes allocated by one execution of an instruction (-1: unknown/unbounded, 0: none)
	var perCall func(f *ssa.Function, depth int, seen map[*ssa.Function]bool) int64
	siteBytes := func(in ssa.Instruction, depth int, seen map[*ssa.Function]bool) int64 {
		switch x := in.(type) {
		case *ssa.MakeSlice:
			n := valueBound(x.Cap, 0)
			if n < 0 {
				return -1
			}
			return n * sizeof(x.Type().Underlying().(*types.Slice).Elem())
		case *ssa.Alloc:
			if x.Heap {
				return sizeof(x.Type().Underlying().(*types.Pointer).Elem())
			}
		case *ssa.MakeMap, *ssa.MakeChan, *ssa.MakeClosure, *ssa.MakeInterface:
			return 64
		case *ssa.Call:
			if b, ok := x.Call.Value.(*ssa.Builtin); ok {
				if b.Name() == "append" && len(x.Call.Args) == 2 {
					// append(s, elems...) with a literal element list: the spread operand is a fresh array of known length
					if sl, ok := x.Call.Args[1].(*ssa.Slice); ok {
						if al, ok := sl.X.(*ssa.Alloc); ok {
							if at, ok := al.Type().Underlying().(*types.Pointer).Elem().Underlying().(*types.Array); ok {
								return 2 * at.Len() * sizeof(at.Elem())
							}
						}
					}
				}
				return 0
			}
			if cal := x.Call.StaticCallee(); cal != nil && InModule(cal) {
				return perCall(cal, depth+1, seen)
			}
		}
		return 0
	}
	memo := map[*ssa.Function]int64{}
	perCall = func(f *ssa.Function, depth int, seen map[*ssa.Function]bool) int64 {
		if v, ok := memo[f]; ok {
			return v
		}
		if depth > 4 || seen[f] || len(f.Blocks) == 0 {
			return 0
		}
		seen[f] = true
		defer delete(seen, f)
		if consuming[f] {
			return 0 // paid for by input (bounded per read by C05.2a)
		}
		loops := naturalLoops(f)
		var total int64
		for _, b := range f.Blocks {
			for _, in := range b.Instrs {
				by := siteBytes(in, depth, seen)
				if by == 0 {
					continue
				}
				mult := int64(1)
				for _, l := range loops {
					if l.Body[b] {
						tb := tripBound(l)
						if tb < 0 || by < 0 {
							memo[f] = -1
							return -1
						}
						mult *= tb
					}
				}
				if by < 0 {
					memo[f] = -1
					return -1
				}
				total += by * mult
				if total > 1<<40 {
					total = 1 << 40
				}
			}
		}
		memo[f] = total
		return total
	}
	n := 0
	for _, fn := range scope {
		loops := naturalLoops(fn)
		if len(loops) == 0 {
			continue
		}
		seq := 0
		for _, b := range fn.Blocks {
			var encl []*loopInfo
			for _, l := range loops {
				if l.Body[b] && !strings.HasPrefix(classifyLoop(fn, l, consuming), "input-consuming") {
					encl = append(encl, l)
				}
			}
			if len(encl) == 0 {
				continue
			}
			for _, in := range b.Instrs {
				by := siteBytes(in, 0, map[*ssa.Function]bool{fn: true})
				if by == 0 {
					continue
				}
				seq++
				n++
				key := fmt.Sprintf("allocation in a loop of %s #%d", FuncName(fn), seq)
				mult := int64(1)
				unknown := by < 0
				for _, l := range encl {
					tb := tripBound(l)
					if tb < 0 {
						unknown = true
					} else {
						mult *= tb
					}
				}
				pos := p.Pos(in.Pos())
				if unknown && by > 0 && by <= 4096 && len(encl) == 1 && overExistingSlice(encl[0]) {
					c.OK(rule, key, pos, fmt.Sprintf("at most %d bytes per element of a slice that is already in memory (the loop runs once per element): proportional to memory whose allocation is accounted for where it was made", by))
					continue
				}
				if unknown {
					c.Bad(rule, key, pos, "allocation inside a loop that does not consume input, and no bound for the size or the number of iterations can be derived from the types: memory is not tied to the input size")
					continue
				}
				c.Check(by*mult <= budget, rule, key, pos, fmt.Sprintf("at most %d bytes x %d iterations = %d bytes ahead of input", by, mult, by*mult), fmt.Sprintf("up to %d bytes x %d iterations = %d bytes (> 16 MiB) can be allocated for a declared count before any of the data has arrived: memory is not proportional to the input", by, mult, by*mult))
			}
		}
	}
	c.Extra["alloc_sites_in_unpaid_loops"] = n
}

// missingTracksRule (C05.5): every success return of ReadFrom is dominated by the false edge of the
// "declared tracks all seen" test.
func missingTracksRule(c *Ctx, rule string, readFrom *ssa.Function) {
	p := c.P
	// the test: a call to a method without parameters returning bool whose body loads the numTracks field
	var testCalls []*ssa.Call
	for _, call := range calls(readFrom) {
		f := call.Common().StaticCallee()
		cv, _ := call.(*ssa.Call)
		if f == nil || cv == nil || !InModule(f) || f.Signature.Results().Len() != 1 {
			continue
		}
		if b, ok := f.Signature.Results().At(0).Type().Underlying().(*types.Basic); !ok || b.Kind() != types.Bool {
			continue
		}
		uses := false
		for _, bb := range f.Blocks {
			for _, in := range bb.Instrs {
				if l, ok := in.(*ssa.UnOp); ok && l.Op == token.MUL {
					if fv := fieldVar(l.X); p.isRoleField(fv, "smf.SMF", "numTracks") {
						uses = true
					}
				}
			}
		}
		if uses {
			testCalls = append(testCalls, cv)
		}
	}
	if len(testCalls) == 0 {
		c.Bad(rule, "ReadFrom tests for missing tracks", p.Pos(readFrom.Pos()), "ReadFrom never compares the tracks seen with the declared count")
		return
	}
	n := 0
	for _, r := range allReturns(readFrom) {
		if !isNilConst(retVal(r, len(r.Results)-1)) {
			continue
		}
		n++
		ok := false
		for _, tc := range testCalls {
			for _, u := range liveRefs(tc) {
				if iff, ok2 := u.(*ssa.If); ok2 {
					_, fe := ifEdges(iff)
					if edgeDominates(readFrom, fe, r.Block()) || fe.to == r.Block() {
						ok = true
					}
				}
			}
		}
		c.Check(ok, rule, fmt.Sprintf("success return #%d dominated by the all-tracks-seen test", n), p.Pos(r.Pos()), "only reachable when no declared track is missing", "a file value can be returned although declared tracks are missing")
	}
	// the failing edge returns a non-nil error
	for _, tc := range testCalls {
		for _, u := range liveRefs(tc) {
			if iff, ok := u.(*ssa.If); ok {
				te, _ := ifEdges(iff)
				okE := false
				if len(te.to.Instrs) > 0 {
					if r, ok := te.to.Instrs[len(te.to.Instrs)-1].(*ssa.Return); ok {
						okE = definitelyNonNil(retVal(r, len(r.Results)-1), map[ssa.Value]bool{}, map[*ssa.BasicBlock]bool{te.to: true}, te, map[ssa.Value]bool{})
					}
				}
				c.Check(okE, rule, "missing tracks => error", p.Pos(iff.Pos()), "the tracks-missing edge returns a sentinel error", "the tracks-missing edge does not return an error")
			}
		}
	}
}

func checkC05(c *Ctx) {
	p := c.P
	c.Level = "other"
	c.Explain = "C05 decided on its structural clauses: (1) panic freedom — every potentially panicking construct (index, slice, single-result assertion, explicit panic, division) in every module function reachable from ReadFrom is an obligation discharged by abstract interpretation of its function (or of all its callers) with unknown inputs, plus the per-event decoder interpreted over all 256 first bytes x 8 running-status states; (2) bounded allocation — every make on the path is bounded by 1 MiB or replaced by a growing buffer; (3) no fabrication on short input — the read discipline of C09; (5) missing tracks are an error. Termination (4) by loop classification in the thorough tier. Not decided: that truncated files yield event-for-event prefixes beyond what (3) and sequential decoding imply."
	c.Trusted = []string{"go/ssa", "E-abs transfer functions and summaries", "io.ReadFull / io.CopyN contracts", "stdlib callees do not panic"}
	c.Rule("C05.1", "no reachable panic: every index/slice/assertion/explicit panic/division in functions reachable from ReadFrom is shown unreachable or in range for unknown inputs (locally or in all callers); the event decoder is panic-free in every (first byte, running status) cell", 15)
	c.Rule("C05.2", "bounded allocation: every make reachable from ReadFrom is bounded by a constant <= 1 MiB; declared lengths are not allocated up front", 1)
	c.Rule("C05.3", "no fabrication on short input: reads on the source are fill-or-fail or checked one-byte reads (= C09.1/2/3)", 3)
	c.Rule("C05.4", "termination: every loop reachable from ReadFrom is counted, input-consuming with exit on failure, strictly decreasing or a converging two-index loop", 3)
	c.Rule("C05.5", "missing tracks are an error: every success return of ReadFrom is dominated by the all-tracks-seen test whose failing edge returns an error", 2)

	readFrom := p.Func("smf", "ReadFrom")
	if readFrom == nil {
		c.Unk("C05.1", "anchor ReadFrom", "-", "not resolved")
		return
	}
	scope := minus(p.Reachable(readFrom), loggerFuncs(p))
	ps := NewPanicScan(p, scope)
	n := ps.Check(c, "C05.1", scope)
	c.Extra["panic_sites"] = n
	ruleEventDecode(c, "", "C05.1")
	noUnguardedAssert(c, "C05.1", readFrom)
	allocBounds(c, "C05.2", ps, scope)
	allocBudget(c, "C05.2", scope)
	readDiscipline(c, "C05.3", "C05.3", "C05.3")
	ruleVLQ(c, "", "C05.3", "")
	loopTermination(c, "C05.4", scope)
	missingTracksRule(c, "C05.5", readFrom)
	runReadFromSim(c, "", "C05.5")
}

// overExistingSlice: the loop is counted by the length of a slice value (for i := range s / for i := 0; i < len(s); i++):
// it runs once per element of something that already exists in memory.
func overExistingSlice(l *loopInfo) bool {
	for b := range l.Body {
		if len(b.Instrs) == 0 {
			continue
		}
		iff, ok := b.Instrs[len(b.Instrs)-1].(*ssa.If)
		if !ok {
			continue
		}
		exits := false
		for _, s := range b.Succs {
			if !l.Body[s] {
				exits = true
			}
		}
		cmp, ok := iff.Cond.(*ssa.BinOp)
		if !exits || !ok || cmp.Op != token.LSS {
			continue
		}
		if call, ok := cmp.Y.(*ssa.Call); ok {
			if bi, ok := call.Call.Value.(*ssa.Builtin); ok && bi.Name() == "len" && len(call.Call.Args) == 1 {
				if _, isSlice := call.Call.Args[0].Type().Underlying().(*types.Slice); isSlice {
					// the index must step by one
					if phi, ok := cmp.X.(*ssa.Phi); ok {
						if k, ok := phiStep(phi, l); ok && k == 1 {
							return true
						}
					}
					if bo, ok := cmp.X.(*ssa.BinOp); ok && bo.Op == token.ADD {
						if phi, ok := bo.X.(*ssa.Phi); ok {
							if k, ok := phiStep(phi, l); ok && k == 1 {
								return true
							}
						}
					}
				}
			}
		}
	}
	return false
}
