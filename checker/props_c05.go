package main

import (
	"fmt"
	"go/token"
	"go/types"

	"golang.org/x/tools/go/ssa"
)

func init() { register("C05", checkC05) }

// allocBounds (C05.2): every make reachable from ReadFrom whose size is not a constant is bounded (<= 1 MiB) by
// what the enclosing function (or all its callers) establishes.
func allocBounds(c *Ctx, rule string, ps *PanicScan, fns []*ssa.Function) {
	const limit = 1 << 20
	n := 0
	for _, fn := range fns {
		seq := 0
		for _, b := range fn.Blocks {
			for _, in := range b.Instrs {
				ms, ok := in.(*ssa.MakeSlice)
				if !ok {
					continue
				}
				seq++
				n++
				key := fmt.Sprintf("make in %s #%d", FuncName(fn), seq)
				pos := c.P.Pos(ms.Pos())
				if k, ok := constInt(ms.Len); ok {
					c.Check(k <= limit, rule, key, pos, fmt.Sprintf("constant size %d", k), fmt.Sprintf("constant size %d exceeds 1 MiB", k))
					continue
				}
				var check func(f *ssa.Function, forced []*ssa.Function, depth int) (bool, string)
				check = func(f *ssa.Function, forced []*ssa.Function, depth int) (bool, string) {
					r := ps.runForced(f, forced)
					if r.failed == "" {
						if rg, seen := r.allocs[pos]; seen {
							if rg[1] <= limit {
								return true, fmt.Sprintf("size within [%d,%d] in %s", rg[0], rg[1], FuncName(f))
							}
						} else {
							return true, "allocation not reachable in " + FuncName(f)
						}
					}
					if depth >= 3 || len(ps.callers[f]) == 0 {
						if r.failed != "" {
							return false, "undecided: " + r.failed
						}
						rg := r.allocs[pos]
						return false, fmt.Sprintf("allocation sized by a value in [%d,%d] that derives from input bytes: a declared length is allocated before the data has arrived", rg[0], rg[1])
					}
					for _, cal := range ps.callers[f] {
						if ok, why := check(cal, append(append([]*ssa.Function{}, forced...), f), depth+1); !ok {
							return false, why + " (via " + FuncName(cal) + ")"
						}
					}
					return true, "bounded in every caller"
				}
				ok2, why := check(fn, nil, 0)
				c.Check(ok2, rule, key, pos, why, why)
			}
		}
	}
	if n == 0 {
		c.OK(rule, "no make on the read path", "-", "allocation only through growing buffers")
	}
}

// missingTracksRule (C05.5): every success return of ReadFrom is dominated by the false edge of the
// "declared tracks all seen" test.
func missingTracksRule(c *Ctx, rule string, readFrom *ssa.Function) {
	p := c.P
	// the test: a call to a method without parameters returning bool whose body loads the numTracks field
	var testCalls []*ssa.Call
	for _, call := range calls(readFrom) {
		f := call.Common().StaticCallee()
		cv, _ := call.(*ssa.Call)
		if f == nil || cv == nil || !InModule(f) || f.Signature.Results().Len() != 1 {
			continue
		}
		if b, ok := f.Signature.Results().At(0).Type().Underlying().(*types.Basic); !ok || b.Kind() != types.Bool {
			continue
		}
		uses := false
		for _, bb := range f.Blocks {
			for _, in := range bb.Instrs {
				if l, ok := in.(*ssa.UnOp); ok && l.Op == token.MUL {
					if fv := fieldVar(l.X); p.isRoleField(fv, "smf.SMF", "numTracks") {
						uses = true
					}
				}
			}
		}
		if uses {
			testCalls = append(testCalls, cv)
		}
	}
	if len(testCalls) == 0 {
		c.Bad(rule, "ReadFrom tests for missing tracks", p.Pos(readFrom.Pos()), "ReadFrom never compares the tracks seen with the declared count")
		return
	}
	n := 0
	for _, r := range allReturns(readFrom) {
		if !isNilConst(retVal(r, len(r.Results)-1)) {
			continue
		}
		n++
		ok := false
		for _, tc := range testCalls {
			for _, u := range liveRefs(tc) {
				if iff, ok2 := u.(*ssa.If); ok2 {
					_, fe := ifEdges(iff)
					if edgeDominates(readFrom, fe, r.Block()) || fe.to == r.Block() {
						ok = true
					}
				}
			}
		}
		c.Check(ok, rule, fmt.Sprintf("success return #%d dominated by the all-tracks-seen test", n), p.Pos(r.Pos()), "only reachable when no declared track is missing", "a file value can be returned although declared tracks are missing")
	}
	// the failing edge returns a non-nil error
	for _, tc := range testCalls {
		for _, u := range liveRefs(tc) {
			if iff, ok := u.(*ssa.If); ok {
				te, _ := ifEdges(iff)
				okE := false
				if len(te.to.Instrs) > 0 {
					if r, ok := te.to.Instrs[len(te.to.Instrs)-1].(*ssa.Return); ok {
						okE = definitelyNonNil(retVal(r, len(r.Results)-1), map[ssa.Value]bool{}, map[*ssa.BasicBlock]bool{te.to: true}, te, map[ssa.Value]bool{})
					}
				}
				c.Check(okE, rule, "missing tracks => error", p.Pos(iff.Pos()), "the tracks-missing edge returns a sentinel error", "the tracks-missing edge does not return an error")
			}
		}
	}
}

func checkC05(c *Ctx) {
	p := c.P
	c.Level = "other"
	c.Explain = "C05 decided on its structural clauses: (1) panic freedom — every potentially panicking construct (index, slice, single-result assertion, explicit panic, division) in every module function reachable from ReadFrom is an obligation discharged by abstract interpretation of its function (or of all its callers) with unknown inputs, plus the per-event decoder interpreted over all 256 first bytes x 8 running-status states; (2) bounded allocation — every make on the path is bounded by 1 MiB or replaced by a growing buffer; (3) no fabrication on short input — the read discipline of C09; (5) missing tracks are an error. Termination (4) by loop classification in the thorough tier. Not decided: that truncated files yield event-for-event prefixes beyond what (3) and sequential decoding imply."
	c.Trusted = []string{"go/ssa", "E-abs transfer functions and summaries", "io.ReadFull / io.CopyN contracts", "stdlib callees do not panic"}
	c.Rule("C05.1", "no reachable panic: every index/slice/assertion/explicit panic/division in functions reachable from ReadFrom is shown unreachable or in range for unknown inputs (locally or in all callers); the event decoder is panic-free in every (first byte, running status) cell", 15)
	c.Rule("C05.2", "bounded allocation: every make reachable from ReadFrom is bounded by a constant <= 1 MiB; declared lengths are not allocated up front", 1)
	c.Rule("C05.3", "no fabrication on short input: reads on the source are fill-or-fail or checked one-byte reads (= C09.1/2/3)", 3)
	c.Rule("C05.4", "termination: every loop reachable from ReadFrom is counted, input-consuming with exit on failure, strictly decreasing or a converging two-index loop", 3)
	c.Rule("C05.5", "missing tracks are an error: every success return of ReadFrom is dominated by the all-tracks-seen test whose failing edge returns an error", 2)

	readFrom := p.Func("smf", "ReadFrom")
	if readFrom == nil {
		c.Unk("C05.1", "anchor ReadFrom", "-", "not resolved")
		return
	}
	scope := minus(p.Reachable(readFrom), loggerFuncs(p))
	ps := NewPanicScan(p, scope)
	n := ps.Check(c, "C05.1", scope)
	c.Extra["panic_sites"] = n
	ruleEventDecode(c, "", "C05.1")
	noUnguardedAssert(c, "C05.1", readFrom)
	allocBounds(c, "C05.2", ps, scope)
	readDiscipline(c, "C05.3", "C05.3", "C05.3")
	ruleVLQ(c, "", "C05.3", "")
	loopTermination(c, "C05.4", scope)
	missingTracksRule(c, "C05.5", readFrom)
}
