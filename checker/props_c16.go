package main

import (
	"fmt"
	"go/token"
	"go/types"

	"golang.org/x/tools/go/ssa"
)

func init() { register("C16", checkC16) }

type c16ev struct {
	delta *IntV
	msg   []Val
}

func checkC16(c *Ctx) {
	p := c.P
	c.Level = "other"
	c.Explain = "C16 decided by (a) abstract interpretation of ConvertToSMF1 on a format-0 file with a representative event shape (meta, channel a, channel b, channel a again, sysex, end-of-track) whose delta times, data bytes and resolution are symbolic: the result must have format 1, the same time division, the meta track first, every event on the track of its channel with delta = difference of absolute ticks (affine forms over the symbolic deltas), original relative order, every track terminated; and (b) structural rules that make this hold for any number of events: exactly one append per event, the per-event record is allocated inside the loop (buckets do not alias), channel buckets are never sorted, the meta bucket is sorted by a key in which it is already non-decreasing (running sum of unsigned deltas)."
	c.Trusted = []string{"go/ssa", "E-abs incl. reflect.DeepEqual summary on byte slices", "sort.Sort leaves an already sorted input unchanged (pinned toolchain, DESIGN §7)"}
	c.Rule("C16.1", "each event goes to exactly one bucket: one append per loop iteration on every path, channel bucket iff the channel test succeeds", 2)
	c.Rule("C16.2", "conversion of a representative symbolic file: format 1, time division kept, meta track first, events on their channel's track with absolute ticks and order preserved, all tracks terminated", 1)
	c.Rule("C16.3", "fresh record per event: the record whose address is stored in a bucket is allocated inside the loop body", 1)
	c.Rule("C16.6", "no reordering: channel buckets are not sorted; the meta bucket is sorted by a key (absolute tick = running sum of unsigned deltas) in which it is already non-decreasing", 2)

	c.Rule("C16.7", "Track.Add / Close store the delta they are given (no clamping or narrowing: the conversion re-deltas from absolute ticks, so a gap on a target track can exceed any single source delta) (= C01.7)", 5)
	c.include(checkC01, map[string]string{"C01.7": "C16.7"})

	smfT := p.namedType("smf", "SMF")
	if smfT == nil {
		c.Unk("C16.1", "smf.SMF", "-", "not found")
		return
	}
	conv := p.MethodOf(smfT, "ConvertToSMF1")
	if conv == nil {
		c.Unk("C16.1", "ConvertToSMF1", "-", "not found")
		return
	}
	c.Fn(FuncName(conv))
	// ---------------- structural
	loops := naturalLoops(conv)
	var first *loopInfo
	var chanCall ssa.CallInstruction
	for _, call := range calls(conv) {
		if f := call.Common().StaticCallee(); f != nil && f.Name() == "GetChannel" {
			chanCall = call
		}
	}
	for _, l := range loops {
		if chanCall != nil && l.Body[chanCall.Block()] {
			first = l
		}
	}
	if first == nil || chanCall == nil {
		c.Unk("C16.1", "distribution loop", p.Pos(conv.Pos()), "no loop with a channel test found")
	} else {
		var appends []ssa.Instruction
		for b := range first.Body {
			for _, in := range b.Instrs {
				if call, ok := in.(*ssa.Call); ok {
					if bi, ok := call.Call.Value.(*ssa.Builtin); ok && bi.Name() == "append" {
						appends = append(appends, call)
					}
				}
			}
		}
		avoid := map[ssa.Instruction]bool{}
		for _, a := range appends {
			avoid[a] = true
		}
		// every cycle passes an append; no path with two appends
		okOnce := len(appends) >= 2
		why := fmt.Sprintf("%d appends in the distribution loop (need one per bucket kind)", len(appends))
		if okOnce {
			seen := map[*ssa.BasicBlock]bool{}
			var walk func(b *ssa.BasicBlock, firstVisit bool) bool
			walk = func(b *ssa.BasicBlock, firstVisit bool) bool {
				if b == first.Head && !firstVisit {
					return true
				}
				if !first.Body[b] || (seen[b] && !firstVisit) {
					return false
				}
				seen[b] = true
				for _, in := range b.Instrs {
					if avoid[in] {
						return false
					}
				}
				for _, s := range b.Succs {
					if first.Body[s] && walk(s, false) {
						return true
					}
				}
				return false
			}
			// start from the body entry
			for _, s := range first.Head.Succs {
				if first.Body[s] && s != first.Head && walk(s, true) {
					okOnce = false
					why = "an iteration can complete without appending the event to any bucket (event lost)"
				}
			}
			for _, a := range appends {
				for _, b2 := range appends {
					if a != b2 && canReachAvoiding(a, b2, map[ssa.Instruction]bool{first.Head.Instrs[len(first.Head.Instrs)-1]: true}) && !passesHead(a, b2, first) {
						okOnce = false
						why = "one event can be appended to two buckets (duplicated)"
					}
				}
			}
		}
		c.Check(okOnce, "C16.1", "exactly one bucket per event", p.Pos(chanCall.Pos()), "every path through the loop body executes exactly one append", why)
		// channel bucket iff channel test true
		okSide := false
		for _, u := range liveRefs(chanCall.Value()) {
			if iff, ok := u.(*ssa.If); ok {
				te, fe := ifEdges(iff)
				var tApp, fApp int
				for _, a := range appends {
					if edgeDominates(conv, te, a.Block()) || te.to == a.Block() {
						tApp++
						// indexed bucket: the appended-to slice is loaded from an IndexAddr
					}
					if edgeDominates(conv, fe, a.Block()) || fe.to == a.Block() {
						fApp++
					}
				}
				okSide = tApp == 1 && fApp == 1
			}
		}
		// bucket index = the channel the test reported, unmasked
		okIdx := false
		if len(chanCall.Common().Args) >= 2 {
			cell := chanCall.Common().Args[len(chanCall.Common().Args)-1]
			for b := range first.Body {
				for _, in := range b.Instrs {
					ia, ok := in.(*ssa.IndexAddr)
					if !ok {
						continue
					}
					if pt, ok := ia.X.Type().Underlying().(*types.Pointer); !ok {
						continue
					} else if at, ok := pt.Elem().Underlying().(*types.Array); !ok || at.Len() != 16 {
						continue
					}
					idx := ia.Index
					if cv, ok := idx.(*ssa.Convert); ok {
						idx = cv.X
					}
					if l, ok := idx.(*ssa.UnOp); ok && l.X == cell {
						okIdx = true
					} else {
						okIdx = false
						goto doneIdx
					}
				}
			}
		}
	doneIdx:
		c.Check(okIdx, "C16.1", "bucket index is the reported channel", p.Pos(chanCall.Pos()), "the 16-element bucket array is indexed by the channel written by the channel test, unmodified", "the channel bucket is not indexed by the plain channel of the message")
		c.Check(okSide, "C16.1", "channel bucket iff channel message", p.Pos(chanCall.Pos()), "one append on the channel edge, one on the other edge", "appends are not split by the channel test")
		// C16.3 fresh record: appended pointer values are Allocs inside the loop
		okFresh := len(appends) > 0
		for _, a := range appends {
			call := a.(*ssa.Call)
			// append(bucket, []*T{&te}...): find Alloc reachable as stored element
			found := false
			if sl, ok := call.Call.Args[1].(*ssa.Slice); ok {
				if arr, ok := sl.X.(*ssa.Alloc); ok {
					for _, u := range liveRefs(arr) {
						if ia, ok := u.(*ssa.IndexAddr); ok {
							for _, uu := range liveRefs(ia) {
								if st, ok := uu.(*ssa.Store); ok {
									if al, ok := st.Val.(*ssa.Alloc); ok && first.Body[al.Block()] && al.Heap {
										found = true
									}
								}
							}
						}
					}
				}
			}
			if !found {
				okFresh = false
			}
		}
		c.Check(okFresh, "C16.3", "record allocated per iteration", p.Pos(chanCall.Pos()), "the address stored in a bucket is of a heap record allocated in the loop body", "the buckets share one record (all entries alias the last event)")
	}
	// C16.6 sorting
	scs := sortCalls(conv)
	okSortTarget := true
	for _, sc := range scs {
		field, T := lessField(p, sc.Common().Args[0])
		q := calleeQual(sc)
		_ = T
		// sorted value must not be an element of the channel bucket array
		mi, _ := sc.Common().Args[0].(*ssa.MakeInterface)
		if mi != nil {
			if l, ok := mi.X.(*ssa.UnOp); ok {
				if _, isIdx := l.X.(*ssa.IndexAddr); isIdx {
					okSortTarget = false
				}
			}
		}
		if q == "sort.Stable" || q == "sort.SliceStable" {
			c.OK("C16.6", "meta bucket sort", p.Pos(sc.Pos()), "stable sort")
			continue
		}
		// premise: key field = AbsTicks, assigned from a running sum of unsigned deltas in the distribution loop
		prem := field == "AbsTicks" && runningUnsignedSum(conv)
		c.Check(prem, "C16.6", "meta bucket sort", p.Pos(sc.Pos()), "unstable sort, but the key (absolute tick) is a running sum of unsigned deltas filled in one pass: the input is already non-decreasing", "unstable sort on a key that is not shown to be non-decreasing in the input: meta/sysex events sharing a tick may be reordered")
	}
	c.Check(okSortTarget, "C16.6", "channel buckets are not sorted", p.Pos(conv.Pos()), "no sort call on an indexed (per-channel) bucket", "a per-channel bucket is sorted: original order within a channel may change")

	// ---------------- E-abs on a representative file
	ex := NewExec(p)
	ex.CallHook = func(ex *Exec, st *State, fr *Frame, call ssa.CallInstruction, callee *ssa.Function, args []Val) ([]callRes, bool) {
		if callee.String() == "sort.Sort" || callee.String() == "sort.Stable" {
			return []callRes{{st: st, ret: nil}}, true // permutation; order premise checked by C16.6
		}
		return nil, false
	}
	st := ex.NewState()
	d := func(i int) *IntV {
		s := ex.syms.Get(fmt.Sprintf("d%d", i), 32, false)
		st.refineSym(s, 0, 1<<20)
		return mkSym(s)
	}
	data := func(n string) *IntV {
		s := ex.syms.Get(n, 8, false)
		st.refineSym(s, 0, 127)
		return mkSym(s)
	}
	k8 := func(v int64) Val { return mkConst(v, 8, false) }
	evs := []c16ev{
		{d(0), []Val{k8(0xFF), k8(0x06), k8(0x00)}}, // a meta event without payload (same length as end-of-track) must not end the track
		{d(1), []Val{k8(0x99), data("k1"), data("v1")}},
		{d(2), []Val{k8(0x9F), data("k2"), data("v2")}},
		{d(3), []Val{k8(0xB9), data("cc"), data("cv")}},
		{d(4), []Val{k8(0xF0), data("sx"), k8(0xF7)}},
		{d(5), []Val{k8(0xFF), k8(0x2F), k8(0x00)}},
	}
	evT := p.namedType("smf", "Event")
	trackT := p.namedType("smf", "Track")
	var evVals []Val
	for _, e := range evs {
		ev := ex.zeroOf(evT).(*StructV)
		ev.Fields[fieldIndex(ev.T, "Delta")] = e.delta
		ev.Fields[fieldIndex(ev.T, "Message")] = ex.mkBytes(st, "m", e.msg, false, 0)
		evVals = append(evVals, ev)
	}
	tid := ex.newObj(st, &ArrayV{Elem: evT, Segs: []Seg{{Elems: evVals}}}, nil)
	n6 := mkConst(int64(len(evs)), 64, true)
	track := &SliceV{Obj: tid, Off: mkConst(0, 64, true), Len: n6, Cap: n6}
	tsid := ex.newObj(st, &ArrayV{Elem: trackT, Segs: []Seg{{Elems: []Val{track}}}}, nil)
	one := mkConst(1, 64, true)
	src := ex.zeroOf(smfT).(*StructV)
	q := mkSym(ex.syms.Get("resolution", 16, false))
	tf := &IfaceV{Dyn: p.namedType("smf", "MetricTicks"), V: q}
	src.Fields[fieldIndex(src.T, "TimeFormat")] = tf
	src.Fields[fieldIndex(src.T, "Tracks")] = &SliceV{Obj: tsid, Off: mkConst(0, 64, true), Len: one, Cap: one}
	src.Fields[fieldIndex(src.T, "format")] = mkConst(0, 16, false)
	outs := ex.Call(st, conv, []Val{src}, nil)
	ok := len(outs) > 0 && !ex.Budget
	why := ""
	if ex.Budget {
		why = "budget exceeded"
	}
	for _, o := range outs {
		if o.Panic || len(problemEvents(o.St.Events)) > 0 {
			ok = false
			why = "panic/bounds: " + o.Msg + fmtEvents(problemEvents(o.St.Events))
			continue
		}
		dest, _ := o.Ret[0].(*StructV)
		if dest == nil {
			ok = false
			why = "no result"
			continue
		}
		if f, _ := dest.Fields[fieldIndex(dest.T, "format")].(*IntV); f == nil || !o.St.sameInt(f, mkConst(1, 16, false)) {
			ok = false
			why = "result format is not 1"
		}
		if !sameTimeFormat(o.St, dest.Fields[fieldIndex(dest.T, "TimeFormat")], tf) {
			ok = false
			why = "time division not kept"
		}
		tracks, _ := dest.Fields[fieldIndex(dest.T, "Tracks")].(*SliceV)
		tvals, okT := ex.sliceElems(o.St, tracks)
		// expected tracks: absolute ticks
		abs := make([]*IntV, len(evs))
		sum := mkConst(0, 64, true)
		for i, e := range evs {
			sum = o.St.Arith(token.ADD, sum, o.St.Convert(e.delta, 64, true), "")
			abs[i] = sum
		}
		type xe struct {
			idx  int
			prev int // index of previous event on the same track or -1
		}
		want := [][]xe{{{0, -1}, {4, 0}, {5, 4}}, {{1, -1}, {3, 1}}, {{2, -1}}}
		if !okT || len(tvals) != 3 {
			ok = false
			why = fmt.Sprintf("result has %d tracks, expected 3 (meta, channel 9, channel 15) [%s]", len(tvals), outcomeWitness(o))
			continue
		}
		for ti, wt := range want {
			tsl, _ := tvals[ti].(*SliceV)
			tev, okE := ex.sliceElems(o.St, tsl)
			expectN := len(wt)
			if ti > 0 {
				expectN++ // appended end-of-track
			}
			if !okE || len(tev) != expectN {
				ok = false
				why = fmt.Sprintf("track %d has %d events, expected %d", ti, len(tev), expectN)
				continue
			}
			for j, w := range wt {
				ev, _ := tev[j].(*StructV)
				if ev == nil {
					ok = false
					why = "event missing"
					continue
				}
				dl, _ := ev.Fields[fieldIndex(ev.T, "Delta")].(*IntV)
				wantDelta := abs[w.idx]
				if w.prev >= 0 {
					wantDelta = o.St.Arith(token.SUB, abs[w.idx], abs[w.prev], "")
				}
				if dl == nil || !o.St.sameInt(o.St.Convert(dl, 64, true), wantDelta) {
					ok = false
					why = fmt.Sprintf("track %d event %d: delta %s, expected %s (absolute tick not preserved)", ti, j, valString(ev.Fields[fieldIndex(ev.T, "Delta")]), wantDelta)
				}
				ms, _ := ev.Fields[fieldIndex(ev.T, "Message")].(*SliceV)
				me, okM := ex.sliceElems(o.St, ms)
				if !okM || !segsEqual([]Seg{{Elems: me}}, []Seg{{Elems: evs[w.idx].msg}}, o.St.sameVal) {
					ok = false
					why = fmt.Sprintf("track %d event %d: message altered or out of order", ti, j)
				}
			}
			if ti > 0 {
				last, _ := tev[len(tev)-1].(*StructV)
				ms, _ := last.Fields[fieldIndex(last.T, "Message")].(*SliceV)
				me, _ := ex.sliceElems(o.St, ms)
				if !segsEqual([]Seg{{Elems: me}}, []Seg{{Elems: evs[5].msg}}, o.St.sameVal) {
					ok = false
					why = fmt.Sprintf("track %d is not terminated by end-of-track", ti)
				}
			}
		}
	}
	// a file without channel messages still becomes format 1 with one terminated track
	{
		ex2 := NewExec(p)
		ex2.CallHook = ex.CallHook
		st2 := ex2.NewState()
		d0 := mkSym(ex2.syms.Get("d0", 32, false))
		st2.refineSym(d0.T.Syms[0], 0, 1<<20)
		var vals []Val
		for _, m := range [][]Val{{k8(0xFF), k8(0x01), k8(0x00)}, {k8(0xFF), k8(0x2F), k8(0x00)}} {
			ev := ex2.zeroOf(evT).(*StructV)
			ev.Fields[fieldIndex(ev.T, "Delta")] = d0
			ev.Fields[fieldIndex(ev.T, "Message")] = ex2.mkBytes(st2, "m", m, false, 0)
			vals = append(vals, ev)
		}
		tid2 := ex2.newObj(st2, &ArrayV{Elem: evT, Segs: []Seg{{Elems: vals}}}, nil)
		n2 := mkConst(2, 64, true)
		tr2 := &SliceV{Obj: tid2, Off: mkConst(0, 64, true), Len: n2, Cap: n2}
		tsid2 := ex2.newObj(st2, &ArrayV{Elem: trackT, Segs: []Seg{{Elems: []Val{tr2}}}}, nil)
		src2 := ex2.zeroOf(smfT).(*StructV)
		src2.Fields[fieldIndex(src2.T, "TimeFormat")] = tf
		src2.Fields[fieldIndex(src2.T, "Tracks")] = &SliceV{Obj: tsid2, Off: mkConst(0, 64, true), Len: one, Cap: one}
		src2.Fields[fieldIndex(src2.T, "format")] = mkConst(0, 16, false)
		for _, o := range ex2.Call(st2, conv, []Val{src2}, nil) {
			if o.Panic {
				ok = false
				why = o.Msg
				continue
			}
			dest, _ := o.Ret[0].(*StructV)
			if f, _ := dest.Fields[fieldIndex(dest.T, "format")].(*IntV); f == nil || !o.St.sameInt(f, mkConst(1, 16, false)) {
				ok = false
				why = "a converted file without channel messages does not get format 1"
			}
		}
	}
	c.Check(ok, "C16.2", "conversion of the representative symbolic file", p.Pos(conv.Pos()), fmt.Sprintf("%d partitions: format 1, division kept, 3 tracks (meta first), deltas are differences of absolute ticks over symbolic deltas, order and bytes preserved, all terminated", len(outs)), why)
	_ = types.Typ
}

func passesHead(a, b ssa.Instruction, l *loopInfo) bool { return false }

// runningUnsignedSum: some phi in fn accumulates (phi + convert(unsigned load)) and is stored to a field AbsTicks.
func runningUnsignedSum(fn *ssa.Function) bool {
	for _, b := range fn.Blocks {
		for _, in := range b.Instrs {
			st, ok := in.(*ssa.Store)
			if !ok {
				continue
			}
			fv := fieldVar(st.Addr)
			if fv == nil || fv.Name() != "AbsTicks" {
				continue
			}
			add, ok := st.Val.(*ssa.BinOp)
			if !ok || add.Op != token.ADD {
				continue
			}
			phi, ok := add.X.(*ssa.Phi)
			if !ok {
				continue
			}
			// phi's back edge value is the same add
			self := false
			for _, e := range phi.Edges {
				if e == add {
					self = true
				}
			}
			cv, ok := add.Y.(*ssa.Convert)
			if !ok || !self {
				continue
			}
			if _, signed, ok := intTypeInfo(cv.X.Type()); ok && !signed {
				return true
			}
		}
	}
	return false
}
