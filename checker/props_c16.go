package main

import (
	"fmt"
	"go/token"
	"go/types"

	"golang.org/x/tools/go/ssa"
)

func init() { register("C16", checkC16) }

type c16ev struct {
	delta *IntV
	msg   []Val
}

func checkC16(c *Ctx) {
	p := c.P
	c.Level = "other"
	c.Explain = "C16 decided by (a) abstract interpretation of ConvertToSMF1 on a format-0 file with a representative event shape (meta, channel a, channel b, channel a again, sysex, end-of-track) whose delta times, data bytes and resolution are symbolic: the result must have format 1, the same time division, the meta track first, every event on the track of its channel with delta = difference of absolute ticks (affine forms over the symbolic deltas), original relative order, every track terminated; and (b) structural rules that make this hold for any number of events: exactly one append per event, the per-event record is allocated inside the loop (buckets do not alias), channel buckets are never sorted, the meta bucket is sorted by a key in which it is already non-decreasing (running sum of unsigned deltas)."
	c.Trusted = []string{"go/ssa", "E-abs incl. reflect.DeepEqual summary on byte slices", "sort.Sort leaves an already sorted input unchanged (pinned toolchain, DESIGN §7)"}
	c.Rule("C16.2", "conversion of a representative symbolic file: format 1, time division kept, meta track first, events on their channel's track with absolute ticks and order preserved, all tracks terminated", 1)
	c.Rule("C16.6", "no unspecified reordering: sorts are interpreted with the code's own comparison — stable, or on input already in order, or without possibly-equal neighbours (until round 5: syntactic rules on the distribution loop and on which sort is called on which bucket — C16.1, C16.3, C16.6 — now all decided by the conversion simulation C16.2/C16.6)", 1)

	c.Rule("C16.7", "Track.Add / Close store the delta they are given (no clamping or narrowing: the conversion re-deltas from absolute ticks, so a gap on a target track can exceed any single source delta) (= C01.7)", 5)
	c.include(checkC01, map[string]string{"C01.7": "C16.7"})
	c.Rule("C16.8", "SMF.Add stores the track it is given, whole: a track of any length (symbolic, up to 2^40 events) is appended to Tracks as the very same slice — same storage, same length — with and without a logger set (the conversion hands every result track to Add; a logger-only shortcut that re-slices the parameter would cut long tracks)", 2)
	smfAddCells(c, "C16.8")

	smfT := p.namedType("smf", "SMF")
	if smfT == nil {
		c.Unk("C16.1", "smf.SMF", "-", "not found")
		return
	}
	conv := p.MethodOf(smfT, "ConvertToSMF1")
	if conv == nil {
		c.Unk("C16.1", "ConvertToSMF1", "-", "not found")
		return
	}
	c.Fn(FuncName(conv))
	// ---------------- E-abs on representative files (symbolic deltas >= 0 and data bytes; concrete status bytes)
	// Expected result, computed here from the statement: format 1, division kept; first track = every event that is not a
	// channel message, in source order; then one track per channel that occurs, ascending, with that channel's messages in
	// source order; every delta = difference of absolute ticks to the previous event on the same target track; every
	// track terminated by exactly one end-of-track (the source's own on the first track, if it has one).
	evT := p.namedType("smf", "Event")
	trackT := p.namedType("smf", "Track")
	type srcEv struct {
		status []int64 // concrete leading bytes
		nData  int     // symbolic data bytes after them
		tail   []int64 // concrete trailing bytes
		target int     // -1: first track, 0..15: channel
	}
	ch := func(st int64) srcEv { return srcEv{status: []int64{st}, nData: 2, target: int(st & 0x0F)} }
	meta := func(bs ...int64) srcEv { return srcEv{status: bs, target: -1} }
	eot := meta(0xFF, 0x2F, 0x00)
	files := []struct {
		name string
		evs  []srcEv
	}{
		{"meta without payload, channels 9/15/0/1, channel prefix, sysex, closed source", []srcEv{
			meta(0xFF, 0x06, 0x00), // same length as end-of-track: must not end the track
			ch(0x99), ch(0x9F), ch(0xB9),
			meta(0xFF, 0x20, 0x01, 0x09), // MIDI channel prefix for channel 9: a meta event, stays on the first track
			meta(0xFF, 0x01, 0x00),
			ch(0x80), ch(0xE1),
			{status: []int64{0xF0}, nData: 1, tail: []int64{0xF7}, target: -1},
			eot,
		}},
		{"source track left open (no end-of-track)", []srcEv{meta(0xFF, 0x03, 0x00), ch(0x92), ch(0x82)}},
		{"no channel messages", []srcEv{meta(0xFF, 0x01, 0x00), eot}},
		{"only channel messages, source track left open: the first track of the result holds nothing but its end-of-track", []srcEv{ch(0x93), ch(0x83)}},
	}
	okAll, whyAll := true, ""
	okSort, whySort := true, ""
	nOuts := 0
	for fi, file := range files {
		ex := NewExec(p)
		// sorting is interpreted with the code's own comparison (abs_sort.go): a stable sort gives the stable permutation;
		// an unstable one is the identity on input that is already in order and otherwise leaves the order of
		// possibly-equal neighbours unspecified (reported under C16.6)
		ex.SortModel = true
		st := ex.NewState()
		k8 := func(v int64) Val { return mkConst(v, 8, false) }
		var evs []c16ev
		var evVals []Val
		for i, se := range file.evs {
			ds := ex.syms.Get(fmt.Sprintf("d%d", i), 32, false)
			st.refineSym(ds, 0, 1<<20)
			var msg []Val
			for _, b := range se.status {
				msg = append(msg, k8(b))
			}
			for j := 0; j < se.nData; j++ {
				sy := ex.syms.Get(fmt.Sprintf("x%d_%d", i, j), 8, false)
				st.refineSym(sy, 0, 127)
				msg = append(msg, mkSym(sy))
			}
			for _, b := range se.tail {
				msg = append(msg, k8(b))
			}
			evs = append(evs, c16ev{mkSym(ds), msg})
			ev := ex.zeroOf(evT).(*StructV)
			ev.Fields[fieldIndex(ev.T, "Delta")] = mkSym(ds)
			ev.Fields[fieldIndex(ev.T, "Message")] = ex.mkBytes(st, "m", msg, false, 0)
			evVals = append(evVals, ev)
		}
		tid := ex.newObj(st, &ArrayV{Elem: evT, Segs: []Seg{{Elems: evVals}}}, nil)
		nEv := mkConst(int64(len(evs)), 64, true)
		track := &SliceV{Obj: tid, Off: mkConst(0, 64, true), Len: nEv, Cap: nEv}
		tsid := ex.newObj(st, &ArrayV{Elem: trackT, Segs: []Seg{{Elems: []Val{track}}}}, nil)
		one := mkConst(1, 64, true)
		src := ex.zeroOf(smfT).(*StructV)
		q := mkSym(ex.syms.Get("resolution", 16, false))
		st.refineSym(q.T.Syms[0], 1, 32767) // 0 stands for the default resolution; a conversion may or may not spell it out
		tf := &IfaceV{Dyn: p.namedType("smf", "MetricTicks"), V: q}
		if tcT := p.namedType("smf", "TimeCode"); fi == 1 && tcT != nil {
			// the second file counts time in frames (SMPTE 25 fps, any subframe resolution): the conversion keeps the time format
			tc := ex.zeroOf(tcT).(*StructV)
			tc.Fields[fieldIndex(tc.T, "FramesPerSecond")] = mkConst(25, 8, false)
			tc.Fields[fieldIndex(tc.T, "SubFrames")] = mkSym(ex.syms.Get("subframes", 8, false))
			tf = &IfaceV{Dyn: tcT, V: tc}
		}
		src.Fields[fieldIndex(src.T, "TimeFormat")] = tf
		src.Fields[fieldIndex(src.T, "Tracks")] = &SliceV{Obj: tsid, Off: mkConst(0, 64, true), Len: one, Cap: one}
		src.Fields[fieldIndex(src.T, "format")] = mkConst(0, 16, false)
		// expected tracks: indices into evs; -1 = an appended end-of-track with delta 0
		var want [][]int
		var first []int
		for i, se := range file.evs {
			if se.target < 0 {
				first = append(first, i)
			}
		}
		last := file.evs[len(file.evs)-1]
		if !(last.target < 0 && len(last.status) == 3 && last.status[1] == 0x2F) {
			first = append(first, -1)
		}
		want = append(want, first)
		for cn := 0; cn < 16; cn++ {
			var tr []int
			for i, se := range file.evs {
				if se.target == cn {
					tr = append(tr, i)
				}
			}
			if len(tr) > 0 {
				want = append(want, append(tr, -1))
			}
		}
		outs := ex.Call(st, conv, []Val{src}, nil)
		nOuts += len(outs)
		fail := func(format string, a ...interface{}) {
			okAll, whyAll = false, file.name+": "+fmt.Sprintf(format, a...)
		}
		if len(outs) == 0 || ex.Budget {
			fail("abstract interpretation did not complete")
			continue
		}
		for u := range ex.Unsupported {
			fail("unmodelled construct: %s", u)
		}
		for _, o := range outs {
			if o.Panic || len(problemEvents(o.St.Events)) > 0 {
				fail("panic/bounds: %s%s", o.Msg, fmtEvents(problemEvents(o.St.Events)))
				continue
			}
			for _, e := range o.St.Events {
				if e.Kind == "sim:unstable-sort-equal-keys" {
					okSort, whySort = false, e.Msg+" @ "+e.Pos+" — events sharing a tick on one target track (chords, several meta events on one beat) can change their order"
				}
			}
			dest, _ := o.Ret[0].(*StructV)
			if dest == nil {
				fail("no result")
				continue
			}
			if f, _ := dest.Fields[fieldIndex(dest.T, "format")].(*IntV); f == nil || !o.St.sameInt(f, mkConst(1, 16, false)) {
				fail("result format is not 1")
			}
			if !sameTimeFormat(o.St, dest.Fields[fieldIndex(dest.T, "TimeFormat")], tf) {
				fail("time division not kept")
			}
			tracks, _ := dest.Fields[fieldIndex(dest.T, "Tracks")].(*SliceV)
			tvals, okT := ex.sliceElems(o.St, tracks)
			abs := make([]*IntV, len(evs))
			sum := mkConst(0, 64, true)
			for i, e := range evs {
				sum = o.St.Arith(token.ADD, sum, o.St.Convert(e.delta, 64, true), "")
				abs[i] = sum
			}
			if !okT || len(tvals) != len(want) {
				fail("result has %d tracks, expected %d (the first track plus one per channel that occurs) [%s]", len(tvals), len(want), outcomeWitness(o))
				continue
			}
			for ti, wt := range want {
				tsl, _ := tvals[ti].(*SliceV)
				tev, okE := ex.sliceElems(o.St, tsl)
				if !okE || len(tev) != len(wt) {
					fail("track %d has %d events, expected %d", ti, len(tev), len(wt))
					continue
				}
				prev := -1
				for j, wi := range wt {
					ev, _ := tev[j].(*StructV)
					if ev == nil {
						fail("event missing")
						continue
					}
					dl, _ := ev.Fields[fieldIndex(ev.T, "Delta")].(*IntV)
					ms, _ := ev.Fields[fieldIndex(ev.T, "Message")].(*SliceV)
					me, okM := ex.sliceElems(o.St, ms)
					if wi < 0 {
						if !okM || !segsEqual([]Seg{{Elems: me}}, []Seg{{Elems: []Val{k8(0xFF), k8(0x2F), k8(0x00)}}}, o.St.sameVal) {
							fail("track %d is not terminated by end-of-track (its last event is something else: a message was overwritten or the track left open)", ti)
						} else if dl == nil || !o.St.sameInt(o.St.Convert(dl, 64, true), mkConst(0, 64, true)) {
							fail("track %d: the appended end-of-track has delta %s, expected 0", ti, valString(ev.Fields[fieldIndex(ev.T, "Delta")]))
						}
						continue
					}
					wantDelta := abs[wi]
					if prev >= 0 {
						wantDelta = o.St.Arith(token.SUB, abs[wi], abs[prev], "")
					}
					if dl == nil || !o.St.sameInt(o.St.Convert(dl, 64, true), wantDelta) {
						fail("track %d event %d: delta %s, expected %s (absolute tick not preserved)", ti, j, valString(ev.Fields[fieldIndex(ev.T, "Delta")]), wantDelta)
					}
					if !okM || !segsEqual([]Seg{{Elems: me}}, []Seg{{Elems: evs[wi].msg}}, o.St.sameVal) {
						fail("track %d event %d is not source event %d: a message is on the wrong track, altered, duplicated or out of order", ti, j, wi)
					}
					prev = wi
				}
			}
		}
	}
	c.Check(okSort && nOuts > 0, "C16.6", "no unspecified reordering", p.Pos(conv.Pos()), "every sort in the conversion is stable, or runs on input that is already in order, or has no equal keys (interpreted with the code's own comparison on the representative files, whose deltas may be 0)", whySort)
	c.Check(okAll && nOuts > 0, "C16.2", "conversion of the representative symbolic files", p.Pos(conv.Pos()), fmt.Sprintf("%d files, %d partitions: format 1, division kept, first track = all non-channel events (incl. a channel-prefix meta event and sysex), one track per channel 0/1/9/15 ascending, deltas are differences of absolute ticks over symbolic deltas, order and bytes preserved, every track terminated once — also for a source track left open", len(files), nOuts), whyAll)
	_ = types.Typ
}

func passesHead(a, b ssa.Instruction, l *loopInfo) bool { return false }

// runningUnsignedSum: some phi in fn accumulates (phi + convert(unsigned load)) and is stored to a field AbsTicks.
func runningUnsignedSum(fn *ssa.Function) bool {
	for _, b := range fn.Blocks {
		for _, in := range b.Instrs {
			st, ok := in.(*ssa.Store)
			if !ok {
				continue
			}
			fv := fieldVar(st.Addr)
			if fv == nil || fv.Name() != "AbsTicks" {
				continue
			}
			add, ok := st.Val.(*ssa.BinOp)
			if !ok || add.Op != token.ADD {
				continue
			}
			phi, ok := add.X.(*ssa.Phi)
			if !ok {
				continue
			}
			// phi's back edge value is the same add
			self := false
			for _, e := range phi.Edges {
				if e == add {
					self = true
				}
			}
			cv, ok := add.Y.(*ssa.Convert)
			if !ok || !self {
				continue
			}
			if _, signed, ok := intTypeInfo(cv.X.Type()); ok && !signed {
				return true
			}
		}
	}
	return false
}

// smfAddCells: (*SMF).Add on a track of symbolic length, logger nil / non-nil.
func smfAddCells(c *Ctx, rule string) {
	p := c.P
	smfT := p.namedType("smf", "SMF")
	evT := p.namedType("smf", "Event")
	var add *ssa.Function
	if smfT != nil {
		add = p.MethodOf(types.NewPointer(smfT), "Add")
	}
	if smfT == nil || evT == nil || add == nil || len(add.Params) != 2 {
		c.Unk(rule, "SMF.Add", "-", "not resolved")
		return
	}
	c.Fn(FuncName(add))
	for _, withLogger := range []bool{false, true} {
		key := "SMF.Add keeps the whole track (logger set: " + fmt.Sprint(withLogger) + ")"
		ex := NewExec(p)
		ex.WidenAtEntry = true
		st := ex.NewState()
		sp := ex.newZeroObject(st, smfT)
		if withLogger && !ex.setField(st, sp, "Logger", &IfaceV{Unk: true, NonNil: true}) {
			c.Unk(rule, key, "-", "SMF.Logger not found")
			continue
		}
		tr := ex.unknownSlice(st, evT, "track", 0)
		tr.MaybeNil = false
		outs := ex.Call(st, add, []Val{sp, tr}, nil)
		if ex.Budget || len(outs) == 0 {
			c.Unk(rule, key, p.Pos(add.Pos()), "abstract interpretation did not complete")
			continue
		}
		ok, why := true, ""
		for u := range ex.Unsupported {
			ok, why = false, "unmodelled construct: "+u
		}
		for _, o := range outs {
			if o.Panic {
				ok, why = false, "may panic: "+o.Msg
				continue
			}
			tv, okT := ex.getField(o.St, sp, "Tracks")
			tsl, _ := tv.(*SliceV)
			els, okE := ex.sliceElems(o.St, tsl)
			if !okT || !okE || len(els) != 1 {
				ok, why = false, fmt.Sprintf("after Add the file value holds %d tracks", len(els))
				continue
			}
			got, _ := els[0].(*SliceV)
			if got == nil || got.Obj != tr.Obj || !o.St.sameInt(got.Off, tr.Off) || !o.St.sameInt(got.Len, tr.Len) {
				ok, why = false, "the stored track is not the slice that was handed in ("+valString(els[0])+" instead of "+valString(tr)+"): events are lost or copied"
			}
		}
		c.Check(ok, rule, key, p.Pos(add.Pos()), "track of symbolic length: stored as the same slice, same length", why)
	}
}
