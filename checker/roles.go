package main

// Roles: the rules name the library's unexported types and struct fields by a LOGICAL name (the name they had when the
// rule was written). When the current tree has no such name (a private rename is behaviour preserving and must not
// raise an alarm), the logical name is resolved by the role the type/field plays: its type when that is unique in the
// struct, otherwise a structural signature of how the code uses it (what is stored into it, what its value guards).
// Exported names are API and are addressed directly.
//
// A role that cannot be resolved uniquely resolves to nothing; the rule that needs it then reports "not resolved"
// (undecided, i.e. a failing check) instead of guessing.

import (
	"fmt"
	"go/token"
	"go/types"
	"sort"
	"strings"
	"sync"

	"golang.org/x/tools/go/ssa"
)

type ownerInfo struct {
	p *Program
	n *types.Named
}

var (
	rolesMu      sync.Mutex
	structOwners = map[*types.Struct]ownerInfo{}
)

// registerOwners records the named struct types of the module (called by Load).
func (p *Program) registerOwners() {
	rolesMu.Lock()
	defer rolesMu.Unlock()
	for _, sp := range p.SSAPkg {
		sc := sp.Pkg.Scope()
		for _, name := range sc.Names() {
			tn, ok := sc.Lookup(name).(*types.TypeName)
			if !ok || tn.IsAlias() {
				continue
			}
			n, ok := tn.Type().(*types.Named)
			if !ok {
				continue
			}
			if st, ok := n.Underlying().(*types.Struct); ok {
				structOwners[st] = ownerInfo{p, n}
			}
		}
	}
}

// ---- type predicates

type typePred func(p *Program, t types.Type) bool

func tNamed(pkgRel, name string) typePred {
	return func(p *Program, t types.Type) bool {
		n, ok := t.(*types.Named)
		if !ok || n.Obj().Pkg() == nil {
			return false
		}
		want := modPath
		if pkgRel != "" {
			want += "/" + pkgRel
		}
		return n.Obj().Name() == name && n.Obj().Pkg().Path() == want
	}
}

func tStd(path, name string) typePred {
	return func(p *Program, t types.Type) bool {
		n, ok := t.(*types.Named)
		return ok && n.Obj().Pkg() != nil && n.Obj().Pkg().Path() == path && n.Obj().Name() == name
	}
}

func tBasic(k types.BasicKind) typePred {
	return func(p *Program, t types.Type) bool {
		b, ok := t.(*types.Basic)
		return ok && b.Kind() == k
	}
}

func tErr(p *Program, t types.Type) bool { return t.String() == "error" }

func tByteSlice(p *Program, t types.Type) bool {
	s, ok := t.(*types.Slice)
	if !ok {
		return false
	}
	b, ok := s.Elem().Underlying().(*types.Basic)
	return ok && b.Kind() == types.Uint8
}

func tPtr(inner typePred) typePred {
	return func(p *Program, t types.Type) bool {
		pt, ok := t.(*types.Pointer)
		return ok && inner(p, pt.Elem())
	}
}

func tRole(key string) typePred {
	return func(p *Program, t types.Type) bool {
		r := p.roleType(key)
		return r != nil && types.Identical(t, r)
	}
}

func tFunc(p *Program, t types.Type) bool {
	_, ok := t.Underlying().(*types.Signature)
	return ok
}

// tNamedInt: a named type of the module with an integer underlying type (enumerations such as the decoder mode).
func tNamedInt(p *Program, t types.Type) bool {
	n, ok := t.(*types.Named)
	if !ok || n.Obj().Pkg() == nil || !strings.HasPrefix(n.Obj().Pkg().Path(), modPath) {
		return false
	}
	b, ok := n.Underlying().(*types.Basic)
	return ok && b.Info()&types.IsInteger != 0
}

func tStructVal(p *Program, t types.Type) bool {
	_, ok := t.Underlying().(*types.Struct)
	return ok
}

func tSliceOfAny(p *Program, t types.Type) bool {
	_, ok := t.Underlying().(*types.Slice)
	return ok && !tByteSlice(p, t)
}

// ---- role types

// roleType resolves a logical type key ("smf.reader", "smf.writer", "smf.chunk", "testdrv.in", ...) on the current tree.
func (p *Program) roleType(key string) *types.Named {
	rolesMu.Lock()
	if p.roleTypes == nil {
		p.roleTypes = map[string]*types.Named{}
	}
	if n, ok := p.roleTypes[key]; ok {
		rolesMu.Unlock()
		return n
	}
	rolesMu.Unlock()
	n := p.resolveRoleType(key)
	rolesMu.Lock()
	p.roleTypes[key] = n
	rolesMu.Unlock()
	return n
}

func (p *Program) structsOf(rel string) []*types.Named {
	tp := p.TPkg(rel)
	if tp == nil {
		return nil
	}
	var out []*types.Named
	sc := tp.Scope()
	for _, name := range sc.Names() {
		if tn, ok := sc.Lookup(name).(*types.TypeName); ok && !tn.IsAlias() {
			if n, ok := tn.Type().(*types.Named); ok {
				if _, ok := n.Underlying().(*types.Struct); ok {
					out = append(out, n)
				}
			}
		}
	}
	return out
}

func hasFieldOf(p *Program, n *types.Named, pred typePred) bool {
	st := n.Underlying().(*types.Struct)
	for i := 0; i < st.NumFields(); i++ {
		if pred(p, st.Field(i).Type()) {
			return true
		}
	}
	return false
}

func (p *Program) resolveRoleType(key string) *types.Named {
	i := strings.LastIndex(key, ".")
	rel, name := key[:i], key[i+1:]
	// exported names are API
	if token.IsExported(name) {
		if t, ok := p.namedType(rel, name).(*types.Named); ok {
			return t
		}
		return nil
	}
	pick := func(pred func(n *types.Named) bool) *types.Named {
		var got []*types.Named
		for _, n := range p.structsOf(rel) {
			if pred(n) {
				got = append(got, n)
			}
		}
		if len(got) == 1 {
			return got[0]
		}
		return nil
	}
	switch key {
	case "smf.reader": // the struct holding the running-status reader of the SMF decoder
		return pick(func(n *types.Named) bool { return hasFieldOf(p, n, tNamed("internal/runningstatus", "Reader")) })
	case "smf.writer":
		return pick(func(n *types.Named) bool { return hasFieldOf(p, n, tNamed("internal/runningstatus", "SMFWriter")) })
	case "smf.chunk": // the struct-valued field of the writer that is a struct of the same package
		w := p.roleType("smf.writer")
		if w == nil {
			return nil
		}
		st := w.Underlying().(*types.Struct)
		var got []*types.Named
		for i := 0; i < st.NumFields(); i++ {
			if n, ok := st.Field(i).Type().(*types.Named); ok && n.Obj().Pkg() == w.Obj().Pkg() {
				if _, ok := n.Underlying().(*types.Struct); ok {
					got = append(got, n)
				}
			}
		}
		if len(got) == 1 {
			return got[0]
		}
		return nil
	case "smf.playEvent":
		return pick(func(n *types.Named) bool { return hasFieldOf(p, n, tNamed("drivers", "Out")) })
	}
	// driver port types: "<pkg>.in" / "<pkg>.out" = the struct of the package implementing drivers.In / drivers.Out
	if name == "in" || name == "out" {
		ifn := "In"
		if name == "out" {
			ifn = "Out"
		}
		iface := p.IfaceType("drivers", ifn)
		if iface == nil {
			return nil
		}
		return pick(func(n *types.Named) bool {
			return types.Implements(types.NewPointer(n), iface) || types.Implements(n, iface)
		})
	}
	// last resort: the logical name itself
	if t, ok := p.namedType(rel, name).(*types.Named); ok {
		return t
	}
	return nil
}

// roleKeysOf: logical keys of a named struct type ("smf.reader", ...).
func (p *Program) roleKeysOf(n *types.Named) []string {
	if n.Obj().Pkg() == nil {
		return nil
	}
	rel := strings.TrimPrefix(strings.TrimPrefix(n.Obj().Pkg().Path(), modPath), "/")
	var keys []string
	if token.IsExported(n.Obj().Name()) {
		keys = append(keys, rel+"."+n.Obj().Name())
	}
	for _, k := range []string{"reader", "writer", "chunk", "playEvent", "in", "out"} {
		key := rel + "." + k
		if _, ok := fieldRoles[key]; !ok && k != "in" && k != "out" {
			continue
		}
		if r := p.roleType(key); r != nil && r == n {
			keys = append(keys, key)
		}
	}
	if rel == "internal/runningstatus" {
		keys = append(keys, "internal/runningstatus.*")
	}
	return keys
}

// ---- field usage index

type fieldUse struct {
	stores []*ssa.Store
	loads  []*ssa.UnOp
}

func (p *Program) fieldUses(fv *types.Var) *fieldUse {
	rolesMu.Lock()
	defer rolesMu.Unlock()
	if p.fuse == nil {
		p.fuse = map[*types.Var]*fieldUse{}
		get := func(v *types.Var) *fieldUse {
			u := p.fuse[v]
			if u == nil {
				u = &fieldUse{}
				p.fuse[v] = u
			}
			return u
		}
		for _, fn := range p.ModuleFuncs() {
			for _, b := range fn.Blocks {
				for _, in := range b.Instrs {
					switch x := in.(type) {
					case *ssa.Store:
						if v := fieldVar(x.Addr); v != nil {
							get(v).stores = append(get(v).stores, x)
						}
					case *ssa.UnOp:
						if x.Op == token.MUL {
							if v := fieldVar(x.X); v != nil {
								get(v).loads = append(get(v).loads, x)
							}
						}
					}
				}
			}
		}
	}
	if u := p.fuse[fv]; u != nil {
		return u
	}
	return &fieldUse{}
}

// ---- field roles

type fieldResolver func(p *Program, st *types.Struct) int

// uniq: the only field whose type satisfies pred; when several do, the only unexported one.
func uniq(pred typePred) fieldResolver {
	return func(p *Program, st *types.Struct) int {
		var all, priv []int
		for i := 0; i < st.NumFields(); i++ {
			if pred(p, st.Field(i).Type()) {
				all = append(all, i)
				if !st.Field(i).Exported() {
					priv = append(priv, i)
				}
			}
		}
		if len(all) == 1 {
			return all[0]
		}
		if len(priv) == 1 {
			return priv[0]
		}
		return -1
	}
}

// among: fields of the given type that satisfy a usage signature; must be unique.
func among(pred typePred, sig func(p *Program, fv *types.Var) bool) fieldResolver {
	return func(p *Program, st *types.Struct) int {
		got := -1
		for i := 0; i < st.NumFields(); i++ {
			if pred(p, st.Field(i).Type()) && !st.Field(i).Exported() && sig(p, st.Field(i)) {
				if got >= 0 {
					return -1
				}
				got = i
			}
		}
		return got
	}
}

// rest: the only unexported field of the type that none of the other logical names of the same owner resolves to.
func rest(owner string, pred typePred, others ...string) fieldResolver {
	return func(p *Program, st *types.Struct) int {
		taken := map[int]bool{}
		for _, o := range others {
			if r := fieldRoles[owner][o]; r != nil {
				if i := r(p, st); i >= 0 {
					taken[i] = true
				}
			}
		}
		got := -1
		for i := 0; i < st.NumFields(); i++ {
			if pred(p, st.Field(i).Type()) && !st.Field(i).Exported() && !taken[i] {
				if got >= 0 {
					return -1
				}
				got = i
			}
		}
		return got
	}
}

// usage signatures

// storedFromCall: some store into the field takes its value (through conversions / tuple extraction) from a call of pkg.name.
func storedFromCall(pkgRel, name string) func(p *Program, fv *types.Var) bool {
	return func(p *Program, fv *types.Var) bool {
		for _, s := range p.fieldUses(fv).stores {
			v := s.Val
			for k := 0; k < 6; k++ {
				switch x := v.(type) {
				case *ssa.Convert:
					v = x.X
					continue
				case *ssa.ChangeType:
					v = x.X
					continue
				case *ssa.Extract:
					v = x.Tuple
					continue
				}
				break
			}
			if c, ok := v.(*ssa.Call); ok && calleeIs(c, modPath+"/"+pkgRel, name) {
				return true
			}
		}
		return false
	}
}

// guardsReturnOfGlobal: a load of the field is an if-condition whose true branch returns the package-level value name.
func guardsReturnOfGlobal(name string) func(p *Program, fv *types.Var) bool {
	return func(p *Program, fv *types.Var) bool {
		for _, l := range p.fieldUses(fv).loads {
			for _, r := range *l.Referrers() {
				iff, ok := r.(*ssa.If)
				if !ok {
					continue
				}
				tb := iff.Block().Succs[0]
				if len(tb.Instrs) == 0 {
					continue
				}
				ret, ok := tb.Instrs[len(tb.Instrs)-1].(*ssa.Return)
				if !ok {
					continue
				}
				for i := range ret.Results {
					if u, ok := retVal(ret, i).(*ssa.UnOp); ok && u.Op == token.MUL {
						if g, ok := u.X.(*ssa.Global); ok && g.Name() == name {
							return true
						}
					}
				}
			}
		}
		return false
	}
}

// storedWhereFieldStored: the field is stored in a function that also stores the (exported) field other.
func storedTrueWhereFieldStored(other string) func(p *Program, fv *types.Var) bool {
	return func(p *Program, fv *types.Var) bool {
		for _, s := range p.fieldUses(fv).stores {
			c, ok := s.Val.(*ssa.Const)
			if !ok || c.Value == nil || c.Value.String() != "true" {
				continue
			}
			for _, b := range s.Parent().Blocks {
				for _, in := range b.Instrs {
					if s2, ok := in.(*ssa.Store); ok {
						if v := fieldVar(s2.Addr); v != nil && v.Name() == other {
							return true
						}
					}
				}
			}
		}
		return false
	}
}

// loadedInMethod: the field is loaded in the exported method name (of any receiver in its package).
func loadedInMethod(name string) func(p *Program, fv *types.Var) bool {
	return func(p *Program, fv *types.Var) bool {
		for _, l := range p.fieldUses(fv).loads {
			if f := l.Parent(); f != nil && f.Name() == name && f.Signature.Recv() != nil {
				return true
			}
		}
		return false
	}
}

func storedInMethod(name string) func(p *Program, fv *types.Var) bool {
	return func(p *Program, fv *types.Var) bool {
		for _, s := range p.fieldUses(fv).stores {
			if f := s.Parent(); f != nil && f.Name() == name && f.Signature.Recv() != nil {
				return true
			}
		}
		return false
	}
}

// storedWhereRoleLoaded: the field is stored in a function that loads the field playing another role.
func storedWhereRoleLoaded(owner, logical string) func(p *Program, fv *types.Var) bool {
	return func(p *Program, fv *types.Var) bool {
		other := p.roleField(owner, logical)
		if other == nil {
			return false
		}
		for _, s := range p.fieldUses(fv).stores {
			for _, l := range p.fieldUses(other).loads {
				if l.Parent() == s.Parent() {
					return true
				}
			}
		}
		return false
	}
}

// selfAppended: the field is stored from append(load of the same field, ...).
func selfAppended(p *Program, fv *types.Var) bool {
	for _, s := range p.fieldUses(fv).stores {
		if c, ok := s.Val.(*ssa.Call); ok {
			if b, ok := c.Call.Value.(*ssa.Builtin); ok && b.Name() == "append" && len(c.Call.Args) > 0 {
				if l, ok := c.Call.Args[0].(*ssa.UnOp); ok && l.Op == token.MUL && fieldVar(l.X) == fv {
					return true
				}
			}
		}
	}
	return false
}

// secondOfThree: a load of the field is stored at index 1 of a 3-byte array (the pending first data byte of a
// two-data-byte message when the message is assembled for delivery).
func secondOfThree(p *Program, fv *types.Var) bool {
	for _, l := range p.fieldUses(fv).loads {
		for _, r := range *l.Referrers() {
			st, ok := r.(*ssa.Store)
			if !ok || st.Val != ssa.Value(l) {
				continue
			}
			if ia, ok := st.Addr.(*ssa.IndexAddr); ok {
				if k, ok := constInt(ia.Index); ok && k == 1 {
					return true
				}
			}
		}
	}
	return false
}

func not(f func(p *Program, fv *types.Var) bool) func(p *Program, fv *types.Var) bool {
	return func(p *Program, fv *types.Var) bool { return !f(p, fv) }
}

func both(f, g func(p *Program, fv *types.Var) bool) func(p *Program, fv *types.Var) bool {
	return func(p *Program, fv *types.Var) bool { return f(p, fv) && g(p, fv) }
}

var fieldRoles map[string]map[string]fieldResolver

func init() {
	u8, u16, u32, i16, i32, i64, in, bl := tBasic(types.Uint8), tBasic(types.Uint16), tBasic(types.Uint32), tBasic(types.Int16), tBasic(types.Int32), tBasic(types.Int64), tBasic(types.Int), tBasic(types.Bool)
	fieldRoles = map[string]map[string]fieldResolver{
		"smf.reader": {
			"input":           uniq(tStd("io", "Reader")),
			"runningStatus":   uniq(tNamed("internal/runningstatus", "Reader")),
			"error":           uniq(tErr),
			"processedTracks": uniq(i16),
			"deltatime":       among(u32, storedFromCall("internal/utils", "ReadVarLength")),
			"isDone":          among(bl, guardsReturnOfGlobal("ErrFinished")),
			"headerIsRead":    among(bl, both(storedTrueWhereFieldStored("Tracks"), not(guardsReturnOfGlobal("ErrFinished")))),
		},
		"smf.SMF": {
			"format":               among(u16, loadedInMethod("Format")),
			"tempoChanges":         uniq(tNamed("smf", "TempoChanges")),
			"tempoChangesFinished": among(bl, storedWhereRoleLoaded("smf.SMF", "tempoChanges")),
		},
		"smf.writer": {
			"currentChunk":    uniq(tRole("smf.chunk")),
			"runningWriter":   uniq(tNamed("internal/runningstatus", "SMFWriter")),
			"deltatime":       uniq(u32),
			"tracksProcessed": uniq(u16),
			"headerWritten":   uniq(bl),
			"error":           uniq(tErr),
		},
		"smf.chunk": {
			"data": among(tByteSlice, selfAppended),
			"typ":  among(tByteSlice, not(selfAppended)),
		},
		"smf.playEvent": {
			"absTime": uniq(i64),
			"out":     uniq(tNamed("drivers", "Out")),
			"data":    uniq(tByteSlice),
		},
		"internal/runningstatus.*": {
			"status": uniq(u8),
			"reader": uniq(tStructVal),
		},
		"drivers.Reader": {
			"sysexBf":    uniq(tByteSlice),
			"sysexlen":   uniq(in),
			"state":      uniq(tNamedInt),
			"issetBf":    uniq(bl),
			"ts_ms":      among(i32, storedInMethod("Reset")),
			"sysexTS":    among(i32, not(storedInMethod("Reset"))),
			"statusByte": among(u8, storedInMethod("Reset")),
			"bf":         among(u8, both(secondOfThree, not(storedInMethod("Reset")))),
			"typ":        among(u8, both(not(secondOfThree), not(storedInMethod("Reset")))),
		},
		"drivers/midicatdrv.in": {
			"hasProc":  uniq(bl),
			"listener": uniq(tFunc),
		},
		"drivers/midicatdrv.out": {
			"cmd": uniq(tPtr(tStd("os/exec", "Cmd"))),
			"wr":  uniq(tPtr(tStd("io", "PipeWriter"))),
			"rd":  uniq(tPtr(tStd("io", "PipeReader"))),
		},
		"drivers/midicatdrv.Driver": {
			"opened": uniq(tSliceOfAny),
		},
		"sequencer.Song": {
			"lastTick": uniq(i64),
			"bars":     uniq(tSliceOfAny),
		},
	}
	fieldRoles["smf.reader"]["expectChunk"] = rest("smf.reader", bl, "isDone", "headerIsRead")
	fieldRoles["smf.SMF"]["numTracks"] = rest("smf.SMF", u16, "format")
}

var roleFieldCache = map[*types.Struct]map[string]int{}

// roleFieldIndex resolves a logical field name of struct st by role (-1: not resolved).
func roleFieldIndex(st *types.Struct, logical string) int {
	rolesMu.Lock()
	if m := roleFieldCache[st]; m != nil {
		if i, ok := m[logical]; ok {
			rolesMu.Unlock()
			return i
		}
	}
	oi, ok := structOwners[st]
	rolesMu.Unlock()
	if !ok {
		return -1
	}
	idx := -1
	for _, key := range oi.p.roleKeysOf(oi.n) {
		if r := fieldRoles[key][logical]; r != nil {
			if i := r(oi.p, st); i >= 0 {
				idx = i
				break
			}
		}
	}
	rolesMu.Lock()
	if roleFieldCache[st] == nil {
		roleFieldCache[st] = map[string]int{}
	}
	roleFieldCache[st][logical] = idx
	rolesMu.Unlock()
	return idx
}

// roleField: the field variable playing the logical role (owner key, logical name) on the current tree.
func (p *Program) roleField(owner, logical string) *types.Var {
	n := p.roleType(owner)
	if n == nil {
		return nil
	}
	st, ok := n.Underlying().(*types.Struct)
	if !ok {
		return nil
	}
	if i := fieldIndex(st, logical); i >= 0 {
		return st.Field(i)
	}
	return nil
}

// isRoleField: fv is the field playing the logical role.
func (p *Program) isRoleField(fv *types.Var, owner, logical string) bool {
	return fv != nil && fv == p.roleField(owner, logical)
}

// logicalFieldName: the logical name of a field (for rules keyed by logical names); the actual name when no role matches.
func (p *Program) logicalFieldName(fv *types.Var) string {
	if fv == nil {
		return ""
	}
	rolesMu.Lock()
	if p.logicalNames == nil {
		p.logicalNames = map[*types.Var]string{}
		rolesMu.Unlock()
		var keys []string
		for k := range fieldRoles {
			keys = append(keys, k)
		}
		sort.Strings(keys)
		tmp := map[*types.Var]string{}
		for _, k := range keys {
			if strings.HasSuffix(k, ".*") {
				continue
			}
			for logical := range fieldRoles[k] {
				if v := p.roleField(k, logical); v != nil {
					tmp[v] = logical
				}
			}
		}
		rolesMu.Lock()
		p.logicalNames = tmp
	}
	defer rolesMu.Unlock()
	if n, ok := p.logicalNames[fv]; ok {
		return n
	}
	return fv.Name()
}

func dumpRoles(p *Program) int {
	rc := 0
	var keys []string
	for k := range fieldRoles {
		keys = append(keys, k)
	}
	sort.Strings(keys)
	for _, k := range keys {
		if strings.HasSuffix(k, ".*") {
			continue
		}
		n := p.roleType(k)
		if n == nil {
			fmt.Printf("%-24s NOT RESOLVED\n", k)
			rc = 1
			continue
		}
		fmt.Printf("%-24s -> %s\n", k, n.Obj().Name())
		var ls []string
		for l := range fieldRoles[k] {
			ls = append(ls, l)
		}
		sort.Strings(ls)
		st := n.Underlying().(*types.Struct)
		for _, l := range ls {
			i := fieldRoles[k][l](p, st)
			if i < 0 {
				fmt.Printf("    %-22s NOT RESOLVED\n", l)
				rc = 1
				continue
			}
			mark := ""
			if d := directIndex(st, l); d >= 0 && d != i {
				mark = "   !! differs from the field of that name"
				rc = 1
			}
			fmt.Printf("    %-22s -> %s%s\n", l, st.Field(i).Name(), mark)
		}
	}
	return rc
}

func directIndex(t *types.Struct, name string) int {
	for i := 0; i < t.NumFields(); i++ {
		if t.Field(i).Name() == name {
			return i
		}
	}
	return -1
}

// roleT: roleType as a types.Type (nil interface when not resolved).
func (p *Program) roleT(key string) types.Type {
	if n := p.roleType(key); n != nil {
		return n
	}
	return nil
}

// roleFunc resolves a logical function key on the current tree.
func (p *Program) roleFunc(key string) *ssa.Function {
	i := strings.LastIndex(key, ".")
	rel, name := key[:i], key[i+1:]
	if strings.HasPrefix(key, "smf.writer.") {
		rel = "smf"
		if w := p.roleT("smf.writer"); w != nil {
			if f := p.MethodOf(types.NewPointer(w), name); f != nil {
				return f
			}
		}
	} else if f := p.Func(rel, name); f != nil {
		return f
	}
	sp := p.Pkg(rel)
	if sp == nil {
		return nil
	}
	var got []*ssa.Function
	switch key {
	case "smf.writer.SetDelta", "smf.writer.Write":
		// the methods of the writer that WriteTo calls per event: the one handed the event's Delta, the one handed its Message
		field := "Delta"
		if name == "Write" {
			field = "Message"
		}
		w := p.roleType("smf.writer")
		wt := p.Method("smf", "SMF", "WriteTo")
		if w == nil || wt == nil {
			return nil
		}
		seen := map[*ssa.Function]bool{}
		for _, c := range calls(wt) {
			cal := c.Common().StaticCallee()
			if cal == nil || cal.Signature.Recv() == nil || namedOf(cal.Signature.Recv().Type()) != w || seen[cal] {
				continue
			}
			for _, a := range c.Common().Args[1:] {
				var fv *types.Var
				switch x := a.(type) {
				case *ssa.UnOp:
					fv = fieldVar(x.X)
				case *ssa.Field:
					fv = fieldVar(x)
				}
				if fv != nil && fv.Name() == field && fv.Exported() {
					seen[cal] = true
					got = append(got, cal)
				}
			}
		}
		if len(got) == 1 {
			return got[0]
		}
		return nil
	case "smf.newWriter": // the constructor of the SMF writer: package-level function returning *writer
		w := p.roleType("smf.writer")
		if w == nil {
			return nil
		}
		for _, m := range sp.Members {
			f, ok := m.(*ssa.Function)
			if !ok || f.Signature.Recv() != nil || f.Signature.Results().Len() != 1 {
				continue
			}
			if pt, ok := f.Signature.Results().At(0).Type().(*types.Pointer); ok && types.Identical(pt.Elem(), w) {
				got = append(got, f)
			}
		}
	}
	if len(got) == 1 {
		return got[0]
	}
	return nil
}

// logicalTypeName: the logical (role) name of a named struct type; its own name when it plays no listed role.
func (p *Program) logicalTypeName(t types.Type) string {
	if pt, ok := t.(*types.Pointer); ok {
		t = pt.Elem()
	}
	n, ok := t.(*types.Named)
	if !ok {
		return ""
	}
	for _, k := range p.roleKeysOf(n) {
		if i := strings.LastIndex(k, "."); i >= 0 && !strings.HasSuffix(k, ".*") {
			return k[i+1:]
		}
	}
	return n.Obj().Name()
}

func namedOf(t types.Type) *types.Named {
	if pt, ok := t.(*types.Pointer); ok {
		t = pt.Elem()
	}
	n, _ := t.(*types.Named)
	return n
}
