package main

import (
	"fmt"
	"go/token"
	"go/types"
	"sort"
	"strings"

	"golang.org/x/tools/go/ssa"
)

// sameInt: are two abstract integers equal for every concrete state described by st?
func (st *State) sameInt(a, b *IntV) bool {
	if ca, ok := st.ConstOf(a); ok {
		if cb, ok := st.ConstOf(b); ok {
			return ca == cb
		}
	}
	if a.W == b.W {
		ba, bb := st.BitsOf(a), st.BitsOf(b)
		eq := true
		for i := range ba {
			if ba[i].K == BTop || bb[i].K == BTop || ba[i] != bb[i] {
				eq = false
				break
			}
		}
		if eq {
			return true
		}
	}
	la, ha := st.Range(a)
	lb, hb := st.Range(b)
	if la >= 0 && lb >= 0 || (a.Signed == b.Signed && a.W == b.W) {
		_ = ha
		_ = hb
		return termEq(st.TermOf(a), st.TermOf(b))
	}
	return false
}

func (st *State) sameVal(a, b Val) bool {
	switch x := a.(type) {
	case *IntV:
		y, ok := b.(*IntV)
		return ok && st.sameInt(x, y)
	case *BoolV:
		y, ok := b.(*BoolV)
		if !ok {
			return false
		}
		xv, xk := st.boolOf(x)
		yv, yk := st.boolOf(y)
		return xk && yk && xv == yv
	}
	return false
}

// mkBytes builds a byte slice: known prefix elems, optionally followed by an unknown rest of length >= restMin.
func (ex *Exec) mkBytes(st *State, name string, elems []Val, rest bool, restMin int64) *SliceV {
	segs := []Seg{{Elems: append([]Val{}, elems...)}}
	lenT := constTerm(int64(len(elems)))
	if rest {
		L := ex.syms.Get("len("+name+".rest)", 64, true)
		L.Lo, L.Hi = restMin, 1<<40
		segs = append(segs, Seg{Run: &Run{Src: name, Off: constTerm(int64(len(elems))), Len: symTerm(L)}})
		lenT = termAdd(lenT, symTerm(L), 1)
	}
	id := ex.newObj(st, &ArrayV{Elem: types.Typ[types.Uint8], Segs: normSegs(segs)}, nil)
	n := &IntV{W: 64, Signed: true, T: lenT}
	return &SliceV{Obj: id, Off: mkConst(0, 64, true), Len: n, Cap: n}
}

func (ex *Exec) byteSym(name string) *IntV { return mkSym(ex.syms.Get(name, 8, false)) }

// allocCell allocates a zeroed cell of type t and returns a pointer to it.
// allocCell: an out-parameter cell. It holds an arbitrary STALE value (what the caller's variable held before: the result
// of an earlier call, say), not the zero value: an accessor that reports success without storing to the cell is then seen
// to hand back something other than what was encoded.
func (ex *Exec) allocCell(st *State, t types.Type) *PtrV {
	var v Val
	switch u := t.Underlying().(type) {
	case *types.Basic:
		v = ex.topOf(st, t, "stale")
	case *types.Slice:
		v = ex.unknownSlice(st, u.Elem(), "stale", 0)
	default:
		v = ex.zeroOf(t)
	}
	id := ex.newObj(st, v, t)
	return &PtrV{Obj: id}
}

// sliceElems returns the concrete elements of a slice of concrete length.
func (ex *Exec) sliceElems(st *State, s *SliceV) ([]Val, bool) {
	if s == nil || s.Unk {
		return nil, false
	}
	if s.Nil {
		return nil, true
	}
	segs, ok := ex.sliceSegs(st, s)
	if !ok {
		return nil, false
	}
	var out []Val
	for _, sg := range segs {
		if sg.Run != nil {
			return nil, false
		}
		out = append(out, sg.Elems...)
	}
	return out, true
}

// describe outcome for witnesses
func outcomeWitness(o Outcome) string {
	tr := o.St.Trace
	if len(tr) > 8 {
		tr = tr[len(tr)-8:]
	}
	return strings.Join(tr, " ; ")
}

// exportedFuncs lists exported package-level functions of a package (sorted).
func exportedFuncs(sp *ssa.Package) []*ssa.Function {
	var out []*ssa.Function
	for _, m := range sp.Members {
		if f, ok := m.(*ssa.Function); ok && f.Object() != nil && f.Object().Exported() {
			out = append(out, f)
		}
	}
	sort.Slice(out, func(i, j int) bool { return out[i].Name() < out[j].Name() })
	return out
}

// methodsOf lists the declared methods of a named type (value receiver set), sorted by name.
func (p *Program) methodsOf(rel, typ string) []*ssa.Function {
	sp := p.Pkg(rel)
	if sp == nil {
		return nil
	}
	obj := sp.Pkg.Scope().Lookup(typ)
	if obj == nil {
		return nil
	}
	var out []*ssa.Function
	seen := map[string]bool{}
	for _, T := range []types.Type{obj.Type(), types.NewPointer(obj.Type())} {
		ms := p.Prog.MethodSets.MethodSet(T)
		for i := 0; i < ms.Len(); i++ {
			fo := ms.At(i).Obj().(*types.Func)
			if seen[fo.Name()] {
				continue
			}
			if f := p.Prog.FuncValue(fo); f != nil {
				seen[fo.Name()] = true
				out = append(out, f)
			}
		}
	}
	sort.Slice(out, func(i, j int) bool { return out[i].Name() < out[j].Name() })
	return out
}

func fmtEvents(evs []Event) string {
	var p []string
	for _, e := range evs {
		p = append(p, fmt.Sprintf("%s@%s %s", e.Kind, e.Pos, e.Msg))
	}
	return strings.Join(p, " | ")
}

// problemEvents filters events that indicate a possible run-time panic.
func problemEvents(evs []Event) []Event {
	var out []Event
	for _, e := range evs {
		switch e.Kind {
		case "oob", "div0", "assert", "nilderef?", "makeslice-neg":
			out = append(out, e)
		default:
			if e.Kind == "call:unknown-func" {
				out = append(out, e)
			}
		}
	}
	return out
}

// fieldIndex finds a field by name in a struct type (no embedding traversal).
func fieldIndex(t *types.Struct, name string) int {
	for i := 0; i < t.NumFields(); i++ {
		if t.Field(i).Name() == name {
			return i
		}
	}
	// the logical name of a renamed unexported field: resolve by role (roles.go)
	return roleFieldIndex(t, name)
}

// newTopObject allocates an object of named struct type with unknown fields and returns a pointer to it.
func (ex *Exec) newTopObject(st *State, t types.Type, name string) *PtrV {
	v := ex.topOf(st, t, name)
	id := ex.newObj(st, v, t)
	return &PtrV{Obj: id}
}

func (ex *Exec) newZeroObject(st *State, t types.Type) *PtrV {
	id := ex.newObj(st, ex.zeroOf(t), t)
	return &PtrV{Obj: id}
}

// setField sets a (possibly nested, dot separated) field of the struct object p points to.
func (ex *Exec) setField(st *State, p *PtrV, path string, v Val) bool {
	cur, ok := st.heap[p.Obj].(*StructV)
	if !ok {
		return false
	}
	parts := strings.Split(path, ".")
	for i, name := range parts {
		idx := fieldIndex(cur.T, name)
		if idx < 0 {
			return false
		}
		if i == len(parts)-1 {
			cur.Fields[idx] = v
			return true
		}
		switch nx := cur.Fields[idx].(type) {
		case *StructV:
			cur = nx
		case *PtrV:
			if nx.Unk || nx.Nil {
				return false
			}
			c2, ok := st.heap[nx.Obj].(*StructV)
			if !ok {
				return false
			}
			cur = c2
		default:
			return false
		}
	}
	return false
}

func (ex *Exec) getField(st *State, p *PtrV, path string) (Val, bool) {
	cur, ok := st.heap[p.Obj].(*StructV)
	if !ok {
		return nil, false
	}
	parts := strings.Split(path, ".")
	for i, name := range parts {
		idx := fieldIndex(cur.T, name)
		if idx < 0 {
			return nil, false
		}
		if i == len(parts)-1 {
			return cur.Fields[idx], true
		}
		switch nx := cur.Fields[idx].(type) {
		case *StructV:
			cur = nx
		case *PtrV:
			if nx.Unk || nx.Nil {
				return nil, false
			}
			c2, ok := st.heap[nx.Obj].(*StructV)
			if !ok {
				return nil, false
			}
			cur = c2
		default:
			return nil, false
		}
	}
	return nil, false
}

// namedType looks up a named type of a package of the module.
func (p *Program) namedType(rel, name string) types.Type {
	tp := p.TPkg(rel)
	if tp == nil {
		return nil
	}
	o := tp.Scope().Lookup(name)
	if o == nil {
		return nil
	}
	return o.Type()
}

// writesOf collects the byte content of every Write on an unknown writer along an outcome (events "call:invoke Write").
func (ex *Exec) writesOf(o Outcome) [][]Seg {
	var out [][]Seg
	for _, e := range o.St.Events {
		if e.Kind == "call:invoke Write" && len(e.Args) == 1 {
			if sl, ok := e.Args[0].(*SliceV); ok {
				segs, ok := ex.sliceSegs(o.St, sl)
				if ok {
					out = append(out, segs)
				} else {
					out = append(out, nil)
				}
			}
		}
	}
	return out
}

func flatElems(segs []Seg) ([]Val, bool) {
	var out []Val
	for _, s := range segs {
		if s.Run != nil {
			return nil, false
		}
		out = append(out, s.Elems...)
	}
	return out, true
}

// beBytes: expected big-endian bytes of an integer value (spec side).
func (st *State) beBytes(v *IntV, n int) []*IntV {
	out := make([]*IntV, n)
	for i := 0; i < n; i++ {
		sh := uint(8 * (n - 1 - i))
		x := st.Shift(token.SHR, v, int(sh))
		x = st.Arith(token.AND, x, mkConst(0xFF, v.W, v.Signed), "")
		out[i] = st.Convert(x, 8, false)
	}
	return out
}

// newStaleObject: a receiver for a Parse-like method that has been used before — every field holds an arbitrary value
// (what an earlier Parse left there), not the zero value: a parser that does not set a field on some path is seen to hand
// back stale state.
func (ex *Exec) newStaleObject(st *State, t types.Type) *PtrV {
	p := ex.newZeroObject(st, t)
	if sv, ok := st.heap[p.Obj].(*StructV); ok {
		for i := 0; i < sv.T.NumFields(); i++ {
			sv.Fields[i] = ex.topOf(st, sv.T.Field(i).Type(), "stale:"+sv.T.Field(i).Name())
		}
	}
	return p
}
