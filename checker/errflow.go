package main

// E-err: error-flow rules (DESIGN §3.3).

import (
	"fmt"
	"go/token"
	"go/types"

	"golang.org/x/tools/go/ssa"
)

var errorType = types.Universe.Lookup("error").Type()

func isErrorType(t types.Type) bool { return types.Identical(t, errorType) }

type errSite struct {
	call ssa.CallInstruction
	fn   *ssa.Function
	errV ssa.Value // the SSA value carrying the error (nil if not extracted)
	idx  int       // index in result tuple (-1 single)
	name string
}

func callName(c ssa.CallInstruction) string {
	cc := c.Common()
	if cc.IsInvoke() {
		return "invoke " + namedOrString(cc.Value.Type()) + "." + cc.Method.Name()
	}
	if f := cc.StaticCallee(); f != nil {
		return FuncName(f)
	}
	return "dynamic call"
}

func namedOrString(t types.Type) string {
	if n := namedTypeName(t); n != "" {
		if pk := namedTypePkg(t); pk != "" {
			if i := lastSlash(pk); i >= 0 {
				pk = pk[i+1:]
			}
			return pk + "." + n
		}
		return n
	}
	return t.String()
}

func lastSlash(s string) int {
	for i := len(s) - 1; i >= 0; i-- {
		if s[i] == '/' {
			return i
		}
	}
	return -1
}

// errorSites lists calls in fn whose last result is an error.
func errorSites(fn *ssa.Function) []errSite {
	var out []errSite
	for _, c := range calls(fn) {
		if _, isGo := c.(*ssa.Go); isGo {
			continue
		}
		sig := c.Common().Signature()
		n := sig.Results().Len()
		if n == 0 || !isErrorType(sig.Results().At(n-1).Type()) {
			continue
		}
		s := errSite{call: c, fn: fn, idx: -1, name: callName(c)}
		v := c.Value()
		if v != nil {
			if n == 1 {
				s.errV = v
			} else {
				s.idx = n - 1
				if v.Referrers() != nil {
					for _, u := range *v.Referrers() {
						if ex, ok := u.(*ssa.Extract); ok && ex.Index == n-1 {
							s.errV = ex
						}
					}
				}
			}
		}
		out = append(out, s)
	}
	return out
}

func liveRefs(v ssa.Value) []ssa.Instruction {
	var out []ssa.Instruction
	if v == nil || v.Referrers() == nil {
		return nil
	}
	for _, u := range *v.Referrers() {
		if _, ok := u.(*ssa.DebugRef); ok {
			continue
		}
		out = append(out, u)
	}
	return out
}

// neverFails: module function all of whose returns carry a nil-constant error.
func neverFails(f *ssa.Function) bool {
	if f == nil || f.Blocks == nil {
		return false
	}
	rets := allReturns(f)
	if len(rets) == 0 {
		return false
	}
	for _, r := range rets {
		if len(r.Results) == 0 {
			return false
		}
		if !isNilConst(retVal(r, len(r.Results)-1)) {
			return false
		}
	}
	return true
}

// errEq computes the values of fn that are equal to e: e itself and loads of an
// error-typed field after a dominating store of an equal value (no other store between).
func errEq(fn *ssa.Function, e ssa.Value) map[ssa.Value]bool {
	eq := map[ssa.Value]bool{e: true}
	type st struct {
		s *ssa.Store
		f *types.Var
	}
	var stores []st
	var loads []*ssa.UnOp
	for _, b := range fn.Blocks {
		for _, in := range b.Instrs {
			switch x := in.(type) {
			case *ssa.Store:
				if fv := fieldVar(x.Addr); fv != nil && isErrorType(fv.Type()) {
					stores = append(stores, st{x, fv})
				}
			case *ssa.UnOp:
				if x.Op == token.MUL {
					if fv := fieldVar(x.X); fv != nil && isErrorType(fv.Type()) {
						loads = append(loads, x)
					}
				}
			}
		}
	}
	changed := true
	for changed {
		changed = false
		for _, s := range stores {
			if !eq[s.s.Val] {
				continue
			}
			others := map[ssa.Instruction]bool{}
			for _, o := range stores {
				if o.f == s.f && o.s != s.s {
					others[o.s] = true
				}
			}
			for _, l := range loads {
				if eq[l] || fieldVar(l.X) != s.f {
					continue
				}
				if instrDominates(s.s, l) && canReachAvoiding(s.s, l, others) {
					// all paths from store to load avoiding other stores? require: not reachable THROUGH another store
					throughOther := false
					for o := range others {
						if canReachAvoiding(s.s, o, nil) && canReachAvoiding(o, l, map[ssa.Instruction]bool{s.s: true}) {
							throughOther = true
						}
					}
					if !throughOther {
						eq[l] = true
						changed = true
					}
				}
			}
		}
	}
	return eq
}

// nonNilEdges: for every If on (v ⋚ nil) with v in eq, the edge on which the error is non-nil.
func nonNilEdges(eq map[ssa.Value]bool) (nn []edge, nilE []edge) {
	for v := range eq {
		for _, u := range liveRefs(v) {
			cmp, ok := u.(*ssa.BinOp)
			if !ok || (cmp.Op != token.EQL && cmp.Op != token.NEQ) {
				continue
			}
			other := cmp.Y
			if other == v {
				other = cmp.X
			}
			if !isNilConst(other) {
				continue
			}
			for _, uu := range liveRefs(cmp) {
				iff, ok := uu.(*ssa.If)
				if !ok {
					continue
				}
				te, fe := ifEdges(iff)
				if cmp.Op == token.NEQ {
					nn, nilE = append(nn, te), append(nilE, fe)
				} else {
					nn, nilE = append(nn, fe), append(nilE, te)
				}
			}
		}
	}
	return
}

var nonNilCtors = map[string]bool{"fmt.Errorf": true, "errors.New": true}

// definitelyNonNil: operand o is non-nil whenever control arrives via the given region.
func definitelyNonNil(o ssa.Value, eq map[ssa.Value]bool, region map[*ssa.BasicBlock]bool, via edge, seen map[ssa.Value]bool) bool {
	if eq[o] {
		return true
	}
	if seen[o] {
		return true
	}
	seen[o] = true
	switch x := o.(type) {
	case *ssa.Call:
		if nonNilCtors[calleeQual(x)] {
			return true
		}
		// a module helper whose every return carries a definitely non-nil error (a wrap-and-log helper)
		if cal := x.Common().StaticCallee(); cal != nil && InModule(cal) && alwaysNonNilError(cal, 0) {
			return true
		}
	case *ssa.UnOp:
		if x.Op == token.MUL {
			if g, ok := x.X.(*ssa.Global); ok && isErrorType(g.Type().(*types.Pointer).Elem()) {
				return true // package-level sentinel error variable
			}
		}
	case *ssa.Phi:
		any := false
		for i, e := range x.Edges {
			pred := x.Block().Preds[i]
			inRegion := region[pred] || (edge{pred, x.Block()} == via)
			if !inRegion {
				continue
			}
			any = true
			if !definitelyNonNil(e, eq, region, via, seen) {
				return false
			}
		}
		return any
	case *ssa.MakeInterface:
		return true // a concrete error value wrapped into the interface
	}
	return false
}

// nonNilRegion: blocks reachable from the edge on which the error is known non-nil,
// pruning the nil-edges of later nil-tests on values that are definitely non-nil there.
func nonNilRegion(ne edge, eq map[ssa.Value]bool, initialCut ...edge) map[*ssa.BasicBlock]bool {
	cut := map[edge]bool{}
	for _, e := range initialCut {
		cut[e] = true
	}
	for {
		region := blockReach(ne.to, cut, nil)
		changed := false
		for b := range region {
			if len(b.Instrs) == 0 {
				continue
			}
			iff, ok := b.Instrs[len(b.Instrs)-1].(*ssa.If)
			if !ok {
				continue
			}
			cmp, ok := iff.Cond.(*ssa.BinOp)
			if !ok || (cmp.Op != token.EQL && cmp.Op != token.NEQ) {
				continue
			}
			x := cmp.X
			if isNilConst(x) {
				x = cmp.Y
			} else if !isNilConst(cmp.Y) {
				continue
			}
			if !isErrorType(x.Type()) {
				continue
			}
			if definitelyNonNil(x, eq, region, ne, map[ssa.Value]bool{}) {
				te, fe := ifEdges(iff)
				nilEdge := te
				if cmp.Op == token.NEQ {
					nilEdge = fe
				}
				if !cut[nilEdge] {
					cut[nilEdge] = true
					changed = true
				}
			}
		}
		if !changed {
			return region
		}
	}
}

// swallowCheck: for error value e (with equals eq) in fn, check every non-nil edge.
func swallowCheck(fn *ssa.Function, e ssa.Value) (nEdges int, problems []string, eq map[ssa.Value]bool) {
	eq = errEq(fn, e)
	nn, _ := nonNilEdges(eq)
	sig := fn.Signature
	nres := sig.Results().Len()
	hasErrRes := nres > 0 && isErrorType(sig.Results().At(nres-1).Type())
	hasBoolRes := nres > 0 && !hasErrRes && types.Identical(sig.Results().At(nres-1).Type().Underlying(), types.Typ[types.Bool])
	for _, ne := range nn {
		nEdges++
		if !hasErrRes && !hasBoolRes {
			continue
		}
		// edges on which the error equals a sentinel are conversions: judged on their own (errConversions: only the
		// end-of-input sentinels in ReadFrom may become success), not as swallowing
		var convEdges []edge
		for _, b := range fn.Blocks {
			for _, in := range b.Instrs {
				if ev, _, eqEdges, ok := sentinelTest(in); ok && eq[ev] {
					convEdges = append(convEdges, eqEdges...)
				}
			}
		}
		region := nonNilRegion(ne, eq, convEdges...)
		for _, r := range allReturns(fn) {
			if !region[r.Block()] {
				continue
			}
			o := retVal(r, len(r.Results)-1)
			if hasBoolRes {
				if c, ok := o.(*ssa.Const); !ok || c.Value == nil || c.Value.String() != "false" {
					problems = append(problems, fmt.Sprintf("return in block %d (reachable from the non-nil edge %d->%d) does not report rejection (false)", r.Block().Index, ne.from.Index, ne.to.Index))
				}
				continue
			}
			if !definitelyNonNil(o, eq, region, ne, map[ssa.Value]bool{}) {
				problems = append(problems, fmt.Sprintf("return in block %d (reachable from the edge %d->%d on which the error is known non-nil) may return a nil error (operand %s)", r.Block().Index, ne.from.Index, ne.to.Index, o.Name()))
			}
		}
	}
	return
}

// errDisposition classifies what happens to an error value in its function.
type errDisp struct {
	discarded bool
	returned  bool
	rejects   bool // reported through a bool result
	compared  int
	latched   []*types.Var
	passedOn  bool // passed to another call (wrap helper, callback)
	problems  []string
}

func classifyErr(fn *ssa.Function, s errSite) errDisp {
	var d errDisp
	if s.errV == nil || len(liveRefs(s.errV)) == 0 {
		d.discarded = true
		return d
	}
	sig := fn.Signature
	nres := sig.Results().Len()
	d.rejects = nres > 0 && types.Identical(sig.Results().At(nres-1).Type().Underlying(), types.Typ[types.Bool])
	visited := map[ssa.Value]bool{}
	var visit func(v ssa.Value)
	visit = func(v ssa.Value) {
		if visited[v] {
			return
		}
		visited[v] = true
		n, probs, eq := swallowCheck(fn, v)
		d.compared += n
		d.problems = append(d.problems, probs...)
		for w := range eq {
			visited[w] = true
			for _, u := range liveRefs(w) {
				switch x := u.(type) {
				case *ssa.Return:
					d.returned = true
				case *ssa.Store:
					if fv := fieldVar(x.Addr); fv != nil && x.Val == w {
						d.latched = append(d.latched, fv)
					} else if x.Val == w {
						d.passedOn = true // stored to a local / result cell
					}
				case *ssa.Phi:
					// the merged value is an error value of its own: same obligations
					visit(x)
				case ssa.CallInstruction:
					d.passedOn = true
				case *ssa.MakeInterface:
					d.passedOn = true
				}
			}
		}
	}
	visit(s.errV)
	return d
}

func phiReachesReturn(v ssa.Value, seen map[ssa.Value]bool) bool {
	if seen[v] {
		return false
	}
	seen[v] = true
	for _, u := range liveRefs(v) {
		switch x := u.(type) {
		case *ssa.Return:
			return true
		case *ssa.Phi:
			if phiReachesReturn(x, seen) {
				return true
			}
		case *ssa.Store:
			if fieldVar(x.Addr) != nil {
				return true
			}
		}
	}
	return false
}

var alwaysNonNilCache = map[*ssa.Function]int{}

// alwaysNonNilError: every return of fn yields, as its last result, a value built by fmt.Errorf / errors.New, a
// package-level sentinel, a concrete error value, or the result of another such helper.
func alwaysNonNilError(fn *ssa.Function, depth int) bool {
	if v, ok := alwaysNonNilCache[fn]; ok {
		return v == 1
	}
	if depth > 3 || fn.Blocks == nil {
		return false
	}
	res := fn.Signature.Results()
	if res.Len() == 0 || !isErrorType(res.At(res.Len()-1).Type()) {
		return false
	}
	alwaysNonNilCache[fn] = 2
	ok := len(allReturns(fn)) > 0
	for _, r := range allReturns(fn) {
		o := retVal(r, len(r.Results)-1)
		good := false
		switch x := o.(type) {
		case *ssa.Call:
			if nonNilCtors[calleeQual(x)] {
				good = true
			} else if cal := x.Common().StaticCallee(); cal != nil && InModule(cal) && cal != fn && alwaysNonNilError(cal, depth+1) {
				good = true
			}
		case *ssa.MakeInterface:
			good = true
		case *ssa.UnOp:
			if x.Op == token.MUL {
				if g, isG := x.X.(*ssa.Global); isG && isErrorType(g.Type().(*types.Pointer).Elem()) {
					good = true
				}
			}
		}
		if !good {
			ok = false
		}
	}
	if ok {
		alwaysNonNilCache[fn] = 1
	} else {
		alwaysNonNilCache[fn] = 2
	}
	return ok
}
