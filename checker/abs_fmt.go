package main

// Text producers: what fmt / strconv / encoding/hex / strings WRITE for tracked values, as segments of the text domain
// (abs_text.go). Switched on per run with Exec.FmtModel (C19's encoder simulation); without it these calls keep their
// generic summaries.
//
//   fmt.Fprintf/Fprint/Fprintln/Sprintf/Sprint/Sprintln/Appendf   constant format; verbs %d %v %s %x %X on tracked
//                                                                 integers, strings and byte slices (no width/flags)
//   strconv.Itoa/FormatInt/AppendInt (base 10)                    decimal text of the integer
//   hex.EncodeToString/Encode/AppendEncode                        lower-case hex text of the bytes
//   strings.ToUpper / bytes.ToUpper                               of a hex text (and of constants)
//   string concatenation, io.WriteString, Write on a writer that is not analysed (recorded as a write event,
//   split per io.Writer contract when Exec.WriterContract is set)
//
// Anything outside this list keeps its unknown result, which the rule that looks at the output reports as undecided.

import (
	"go/token"
	"go/types"
	"strconv"
	"strings"

	"golang.org/x/tools/go/ssa"
)

func constSegs(s string) []Seg {
	if len(s) == 0 {
		return nil
	}
	es := make([]Val, len(s))
	for i := range es {
		es[i] = mkConst(int64(s[i]), 8, false)
	}
	return []Seg{{Elems: es}}
}

// strSegs: the content of a string value as segments.
func (ex *Exec) strSegs(st *State, s *StrV) ([]Seg, bool) {
	if s == nil {
		return nil, false
	}
	if s.Known {
		return constSegs(s.S), true
	}
	if s.Bytes != nil {
		return ex.sliceSegs(st, s.Bytes)
	}
	return nil, false
}

// sliceOfSegs: a fresh byte array holding segs.
func (ex *Exec) sliceOfSegs(st *State, segs []Seg) *SliceV {
	arr := &ArrayV{Elem: types.Typ[types.Uint8], Segs: normSegs(segs)}
	id := ex.newObj(st, arr, nil)
	L := &IntV{W: 64, Signed: true, T: arrLen(arr)}
	return &SliceV{Obj: id, Off: mkConst(0, 64, true), Len: L, Cap: L}
}

func (ex *Exec) strOfSegs(st *State, segs []Seg) *StrV {
	if el, ok := flatElems(segs); ok {
		var sb strings.Builder
		all := true
		for _, e := range el {
			iv, _ := e.(*IntV)
			c, k := int64(0), false
			if iv != nil {
				c, k = st.ConstOf(iv)
			}
			if !k {
				all = false
				break
			}
			sb.WriteByte(byte(c))
		}
		if all {
			return &StrV{Known: true, S: sb.String()}
		}
	}
	sl := ex.sliceOfSegs(st, segs)
	return &StrV{Bytes: sl, Len: sl.Len}
}

// decSegs: decimal text of an integer value.
func (ex *Exec) decSegs(st *State, v *IntV) []Seg {
	if c, ok := st.ConstOf(v); ok {
		if !v.Signed && c < 0 {
			return constSegs(strconv.FormatUint(uint64(c), 10))
		}
		return constSegs(strconv.FormatInt(c, 10))
	}
	t := ex.mkDecText(st, ex.syms.Fresh("fmtd", 8, false).Name, v)
	segs, _ := ex.sliceSegs(st, t)
	return segs
}

// hexSegs: hex text of a byte slice (whole slice), lower or upper case.
func (ex *Exec) hexSegs(st *State, payload *SliceV, lower bool) ([]Seg, bool) {
	if payload == nil || payload.Unk {
		return nil, false
	}
	if payload.Nil || isZeroLen(st, payload) {
		return nil, true
	}
	t := ex.mkHexText(st, ex.syms.Fresh("fmtx", 8, false).Name, payload)
	segs, ok := ex.sliceSegs(st, t)
	if ok && lower && len(segs) == 1 && segs[0].Run != nil {
		m := ex.texts[segs[0].Run.Src]
		m.lower = true
		ex.texts[segs[0].Run.Src] = m
	}
	return segs, ok
}

// fmtRender: the bytes fmt produces for a constant format and tracked operands.
func (ex *Exec) fmtRender(st *State, format string, va []Val) ([]Seg, bool) {
	var out []Seg
	ai := 0
	for _, part := range parseFormat(format) {
		if part.verb == "" {
			out = append(out, constSegs(part.lit)...)
			continue
		}
		if part.verb == "%%" {
			out = append(out, constSegs("%")...)
			continue
		}
		if ai >= len(va) {
			return nil, false
		}
		a := va[ai]
		ai++
		if iv, ok := a.(*IfaceV); ok {
			if iv.Unk || iv.Nil {
				return nil, false
			}
			a = iv.V
		}
		switch part.verb {
		case "%d", "%v", "%s":
			switch v := a.(type) {
			case *IntV:
				if part.verb == "%s" {
					return nil, false
				}
				out = append(out, ex.decSegs(st, v)...)
			case *StrV:
				if part.verb == "%d" {
					return nil, false
				}
				segs, ok := ex.strSegs(st, v)
				if !ok {
					return nil, false
				}
				out = append(out, segs...)
			case *SliceV:
				if part.verb != "%s" {
					return nil, false
				}
				segs, ok := ex.sliceSegs(st, v)
				if !ok {
					return nil, false
				}
				out = append(out, segs...)
			default:
				return nil, false
			}
		case "%x", "%X":
			sl, ok := a.(*SliceV)
			if !ok {
				return nil, false
			}
			segs, ok := ex.hexSegs(st, sl, part.verb == "%x")
			if !ok {
				return nil, false
			}
			out = append(out, segs...)
		default:
			return nil, false
		}
	}
	if ai != len(va) {
		return nil, false
	}
	return out, true
}

// printRender: Sprint/Sprintln semantics for tracked operands (space between operands only for Sprintln; Sprint adds
// spaces between operands when neither is a string — not modelled: only string / single operands accepted there).
func (ex *Exec) printRender(st *State, va []Val, ln bool) ([]Seg, bool) {
	var out []Seg
	for i, a := range va {
		if iv, ok := a.(*IfaceV); ok {
			if iv.Unk || iv.Nil {
				return nil, false
			}
			a = iv.V
		}
		if i > 0 {
			if !ln {
				if _, isStr := a.(*StrV); !isStr {
					return nil, false
				}
				if iv, ok := va[i-1].(*IfaceV); ok {
					if _, isStr := iv.V.(*StrV); !isStr {
						return nil, false
					}
				}
			} else {
				out = append(out, constSegs(" ")...)
			}
		}
		switch v := a.(type) {
		case *IntV:
			out = append(out, ex.decSegs(st, v)...)
		case *StrV:
			segs, ok := ex.strSegs(st, v)
			if !ok {
				return nil, false
			}
			out = append(out, segs...)
		default:
			return nil, false
		}
	}
	if ln {
		out = append(out, constSegs("\n")...)
	}
	return out, true
}

// writeTo hands bytes to a writer value: a tracked *bytes.Buffer is appended to; any other writer records a write
// event (same shape as a dynamic Write on an unknown io.Writer) and answers per io.Writer contract.
func (ex *Exec) writeTo(st *State, w Val, data *SliceV, pos string) []callRes {
	if iv, ok := w.(*IfaceV); ok && !iv.Unk && !iv.Nil {
		if iv.Dyn != nil && iv.Dyn.String() == "*bytes.Buffer" {
			if b, _ := ex.bufOf(st, iv.V); b != nil {
				if segs, ok := ex.sliceSegs(st, data); ok {
					ex.bufAppendSegs(st, b, segs)
					return []callRes{{st: st, ret: &TupleV{Vs: []Val{data.Len, nilErr()}}}}
				}
			}
		}
	}
	st.Events = append(st.Events, Event{Kind: "call:invoke Write", Args: []Val{data}, Pos: pos})
	if ex.WriterContract {
		okSt, badSt := st, st.Clone()
		n := badSt.freshInt("n", 64, true)
		_, hi := badSt.Range(data.Len)
		badSt.refineSym(n.T.Syms[0], 0, hi)
		badSt.Events = append(badSt.Events, Event{Kind: "sim:write-failed", Pos: pos, Args: []Val{n}})
		return []callRes{
			{st: okSt, ret: &TupleV{Vs: []Val{data.Len, nilErr()}}},
			{st: badSt, ret: &TupleV{Vs: []Val{n, &IfaceV{Unk: true, NonNil: true}}}},
		}
	}
	n := st.freshInt("n", 64, true)
	_, hi := st.Range(data.Len)
	st.refineSym(n.T.Syms[0], 0, hi)
	return []callRes{{st: st, ret: &TupleV{Vs: []Val{n, &IfaceV{Unk: true}}}}}
}

func (ex *Exec) variadic(st *State, v Val) ([]Val, bool) {
	sl, _ := v.(*SliceV)
	if sl == nil || sl.Unk {
		return nil, false
	}
	if sl.Nil {
		return nil, true
	}
	return ex.sliceElems(st, sl)
}

// fmtSummary: see the head of this file. ok=false: not modelled here.
func (ex *Exec) fmtSummary(fr *Frame, st *State, fn *ssa.Function, args []Val, x ssa.CallInstruction, resT types.Type) ([]callRes, bool) {
	if !ex.FmtModel {
		return nil, false
	}
	name := fn.String()
	one := func(v Val) ([]callRes, bool) { return []callRes{{st: st, ret: v}}, true }
	constStr := func(v Val) (string, bool) {
		s, _ := v.(*StrV)
		if s == nil || !s.Known {
			return "", false
		}
		return s.S, true
	}
	switch name {
	case "fmt.Sprintf", "fmt.Fprintf", "fmt.Appendf":
		fi := 0
		if name != "fmt.Sprintf" {
			fi = 1
		}
		if len(args) != fi+2 {
			return nil, false
		}
		format, ok := constStr(args[fi])
		va, ok2 := ex.variadic(st, args[fi+1])
		if !ok || !ok2 {
			return nil, false
		}
		segs, ok := ex.fmtRender(st, format, va)
		if !ok {
			return nil, false
		}
		switch name {
		case "fmt.Sprintf":
			return one(ex.strOfSegs(st, segs))
		case "fmt.Appendf":
			dst, _ := args[0].(*SliceV)
			if dst == nil {
				return nil, false
			}
			return one(ex.appendOp(st, []Val{dst, ex.sliceOfSegs(st, segs)}, x))
		}
		return ex.writeTo(st, args[0], ex.sliceOfSegs(st, segs), ex.pos(x)), true
	case "fmt.Sprint", "fmt.Sprintln", "fmt.Fprint", "fmt.Fprintln":
		fi := 0
		if strings.HasPrefix(name, "fmt.F") {
			fi = 1
		}
		if len(args) != fi+1 {
			return nil, false
		}
		va, ok := ex.variadic(st, args[fi])
		if !ok {
			return nil, false
		}
		segs, ok := ex.printRender(st, va, strings.HasSuffix(name, "ln"))
		if !ok {
			return nil, false
		}
		if fi == 0 {
			return one(ex.strOfSegs(st, segs))
		}
		return ex.writeTo(st, args[0], ex.sliceOfSegs(st, segs), ex.pos(x)), true
	case "strconv.Itoa", "strconv.FormatInt", "strconv.AppendInt":
		vi := 0
		if name == "strconv.AppendInt" {
			vi = 1
		}
		v, _ := args[vi].(*IntV)
		if v == nil {
			return nil, false
		}
		if name != "strconv.Itoa" {
			b, _ := args[vi+1].(*IntV)
			if b == nil {
				return nil, false
			}
			if c, k := st.ConstOf(b); !k || c != 10 {
				return nil, false
			}
		}
		segs := ex.decSegs(st, v)
		if name == "strconv.AppendInt" {
			dst, _ := args[0].(*SliceV)
			if dst == nil {
				return nil, false
			}
			return one(ex.appendOp(st, []Val{dst, ex.sliceOfSegs(st, segs)}, x))
		}
		return one(ex.strOfSegs(st, segs))
	case "encoding/hex.EncodeToString":
		sl, _ := args[0].(*SliceV)
		segs, ok := ex.hexSegs(st, sl, true)
		if !ok {
			return nil, false
		}
		return one(ex.strOfSegs(st, segs))
	case "encoding/hex.AppendEncode":
		dst, _ := args[0].(*SliceV)
		sl, _ := args[1].(*SliceV)
		segs, ok := ex.hexSegs(st, sl, true)
		if !ok || dst == nil {
			return nil, false
		}
		return one(ex.appendOp(st, []Val{dst, ex.sliceOfSegs(st, segs)}, x))
	case "encoding/hex.Encode":
		dst, _ := args[0].(*SliceV)
		sl, _ := args[1].(*SliceV)
		segs, ok := ex.hexSegs(st, sl, true)
		if !ok || dst == nil || dst.Unk || dst.Nil {
			return nil, false
		}
		src := ex.sliceOfSegs(st, segs)
		if le, k := st.Decide("<=", src.Len, dst.Len); !(k && le) {
			return nil, false // may panic in the real function: not modelled, the generic summary reports it
		}
		ex.copyOp(st, []Val{dst, src}, x)
		return one(src.Len)
	case "encoding/hex.EncodedLen":
		n, _ := args[0].(*IntV)
		if n == nil {
			return nil, false
		}
		return one(st.Arith(token.MUL, st.Convert(n, 64, true), mkConst(2, 64, true), ""))
	case "strings.ToUpper", "bytes.ToUpper":
		var segs []Seg
		var ok bool
		switch a := args[0].(type) {
		case *StrV:
			if a.Known {
				return one(&StrV{Known: true, S: strings.ToUpper(a.S)})
			}
			segs, ok = ex.strSegs(st, a)
		case *SliceV:
			segs, ok = ex.sliceSegs(st, a)
		}
		if !ok {
			return nil, false
		}
		up, ok := ex.upperSegs(st, segs)
		if !ok {
			return nil, false
		}
		if name == "bytes.ToUpper" {
			return one(ex.sliceOfSegs(st, up))
		}
		return one(ex.strOfSegs(st, up))
	case "io.WriteString":
		s, _ := args[1].(*StrV)
		segs, ok := ex.strSegs(st, s)
		if !ok {
			return nil, false
		}
		return ex.writeTo(st, args[0], ex.sliceOfSegs(st, segs), ex.pos(x)), true
	}
	// Write / WriteString methods of writers whose code is not analysed (pipes, files, sockets): a write event
	if !InModule(fn) && fn.Signature.Recv() != nil && len(args) == 2 && fn.Signature.Results().Len() == 2 && !strings.Contains(name, "bytes.Buffer") && !strings.Contains(name, "strings.Builder") && !strings.Contains(name, "bufio.") {
		switch fn.Name() {
		case "Write":
			if sl, ok := args[1].(*SliceV); ok && !sl.Unk {
				return ex.writeTo(st, &IfaceV{Unk: true, NonNil: true}, sl, ex.pos(x)), true
			}
		case "WriteString":
			if s, ok := args[1].(*StrV); ok {
				if segs, ok := ex.strSegs(st, s); ok {
					return ex.writeTo(st, &IfaceV{Unk: true, NonNil: true}, ex.sliceOfSegs(st, segs), ex.pos(x)), true
				}
			}
		}
	}
	return nil, false
}

// upperSegs: ASCII upper-casing of constants and of hex texts (decimal texts have no letters).
func (ex *Exec) upperSegs(st *State, segs []Seg) ([]Seg, bool) {
	var out []Seg
	for _, s := range segs {
		if s.Run == nil {
			es := make([]Val, len(s.Elems))
			for i, e := range s.Elems {
				iv, _ := e.(*IntV)
				if iv == nil {
					return nil, false
				}
				c, k := st.ConstOf(iv)
				if !k {
					return nil, false
				}
				if c >= 'a' && c <= 'z' {
					c -= 'a' - 'A'
				}
				es[i] = mkConst(c, 8, false)
			}
			out = append(out, Seg{Elems: es})
			continue
		}
		m, ok := ex.texts[s.Run.Src]
		if !ok {
			return nil, false
		}
		if m.dec != nil || !m.lower {
			out = append(out, s)
			continue
		}
		// whole lower-case hex text -> the upper-case text of the same bytes
		if !termEq(s.Run.Off, constTerm(0)) || !termEq(s.Run.Len, st.TermOf(st.Arith(token.MUL, m.hex.Len, mkConst(2, 64, true), ""))) {
			return nil, false
		}
		up, ok := ex.hexSegs(st, m.hex, false)
		if !ok {
			return nil, false
		}
		out = append(out, up...)
	}
	return out, true
}
