package main

// Whole-file simulation of smf.ReadFrom (E-abs) on a representative symbolic file held in a bytes.Reader:
//
//   MThd 6 | format 1 | ntracks N | 480
//   "XFIH" L  <L unknown bytes>                     an alien chunk of ANY declared length L in front of the first track
//   MTrk .. | 00 91 k1 v1 | 10 FF 2F 00
//   "MTrK" 0                                         an alien chunk whose type differs from MTrk only by case
//   "Cdat" 2 j0 j1                                   two alien chunks in a row
//   MTrk .. | 05 C2 p | 00 FF 2F 00
//
// With N = 2 the call must succeed and return exactly the two tracks with their events and deltas (hence every alien
// chunk was skipped by exactly its declared length and a chunk header was looked for again afterwards); with N = 3 it
// must fail (a declared track is missing). Calls are inlined by the interpreter, so it does not matter how the reader
// is split into helpers.

import (
	"fmt"
	"go/token"
	"go/types"
	"os"
)

const addTok = token.ADD

func runReadFromSim(c *Ctx, ruleAlien, ruleMissing string, ruleSrcFailOpt ...string) {
	ruleSrcFail, ruleFrag := "", ""
	if len(ruleSrcFailOpt) > 0 {
		ruleSrcFail = ruleSrcFailOpt[0]
	}
	if len(ruleSrcFailOpt) > 1 {
		ruleFrag = ruleSrcFailOpt[1]
	}
	p := c.P
	rf := p.Func("smf", "ReadFrom")
	smfT := p.namedType("smf", "SMF")
	first := ruleAlien
	if first == "" {
		first = ruleMissing
	}
	if first == "" {
		first = ruleSrcFail
	}
	if first == "" {
		first = ruleFrag
	}
	if rf == nil || smfT == nil {
		c.Unk(first, "ReadFrom simulation anchors", "-", "not resolved")
		return
	}
	c.Fn(FuncName(rf))
	for _, declared := range []int64{2, 3, -2, -3, -4} {
		rule := ruleAlien
		if declared == 3 {
			rule = ruleMissing
		}
		frag := declared == -4
		if frag {
			// the same file through a source that fragments arbitrarily: the result must be the same (C09)
			rule, declared = ruleFrag, 2
			if rule == "" {
				continue
			}
		}
		srcFail := declared < 0
		failWith := ""
		if declared == -3 {
			// a source may report its own breakage with io.ErrUnexpectedEOF (cut-off compressed streams, short HTTP
			// bodies): still a failure of the source, not the end of the file
			failWith = "io.ErrUnexpectedEOF"
		}
		if srcFail {
			rule, declared = ruleSrcFail, 2
		}
		if rule == "" {
			continue
		}
		ex := NewExec(p)
		ex.Unroll = 12
		ex.ReaderMayFail = srcFail
		ex.ReaderFrag = frag
		ex.StrictHeap = true // the file is fully known: a run that has to forget the heap is undecided at once
		ex.ReaderFailSentinel = failWith
		st := ex.NewState()
		k8 := func(v int64) Val { return mkConst(v, 8, false) }
		str := func(s string) []Val {
			var out []Val
			for _, ch := range []byte(s) {
				out = append(out, k8(int64(ch)))
			}
			return out
		}
		data := func(n string) *IntV {
			s := ex.syms.Get(n, 8, false)
			st.refineSym(s, 0, 127)
			return mkSym(s)
		}
		Ls := ex.syms.Get("alienLen", 32, false)
		st.refineSym(Ls, 0, 1<<20)
		L := mkSym(Ls)
		k1, v1, pp := data("k1"), data("v1"), data("p")
		var head []Val
		head = append(head, str("MThd")...)
		head = append(head, k8(0), k8(0), k8(0), k8(6), k8(0), k8(1), k8(0), k8(declared), k8(0x01), k8(0xE0))
		head = append(head, str("XFIH")...)
		head = append(head, intVals(st.beBytes(L, 4))...)
		var tail []Val
		tail = append(tail, str("MTrk")...)
		tail = append(tail, k8(0), k8(0), k8(0), k8(8), k8(0x00), k8(0x91), k1, v1, k8(0x10), k8(0xFF), k8(0x2F), k8(0x00))
		tail = append(tail, str("MTrK")...)
		tail = append(tail, k8(0), k8(0), k8(0), k8(0))
		tail = append(tail, str("Cdat")...)
		tail = append(tail, k8(0), k8(0), k8(0), k8(2), ex.byteSym("j0"), ex.byteSym("j1"))
		tail = append(tail, str("MTrk")...)
		// the second track starts with a sysex (whatever the reader remembers of the end of the previous track must not
		// be applied to it), then a channel message under an explicit status
		sx := data("s0")
		tail = append(tail, k8(0), k8(0), k8(0), k8(12), k8(0x02), k8(0xF0), k8(0x02), sx, k8(0xF7), k8(0x05), k8(0xC2), pp, k8(0x00), k8(0xFF), k8(0x2F), k8(0x00))
		segs := normSegs([]Seg{{Elems: head}, {Run: &Run{Src: "alienbody", Off: constTerm(0), Len: symTerm(Ls)}}, {Elems: tail}})
		id := ex.newObj(st, &ArrayV{Elem: types.Typ[types.Uint8], Segs: segs}, nil)
		total := st.Arith(addTok, st.Convert(L, 64, true), mkConst(int64(len(head)+len(tail)), 64, true), "")
		src := &SliceV{Obj: id, Off: mkConst(0, 64, true), Len: total, Cap: total}
		rd := ex.readerOver(st, src)
		if os.Getenv("ABSDEBUG") != "" && frag {
			forkProfile = map[string]int{}
		}
		outs := ex.Call(st, rf, []Val{rd, &SliceV{Nil: true, Off: mkConst(0, 64, true), Len: mkConst(0, 64, true), Cap: mkConst(0, 64, true)}}, nil)
		if forkProfile != nil {
			for k, v := range forkProfile {
				if v > 100 {
					fmt.Fprintf(os.Stderr, "fork %6d %s\n", v, k)
				}
			}
			forkProfile = nil
		}
		key := fmt.Sprintf("whole-file read simulation (header declares %d tracks, file holds 2)", declared)
		if frag {
			key = "whole-file read simulation through a fragmenting source (every Read delivers an arbitrary positive count; the last data may come together with io.EOF)"
		}
		if srcFail {
			key = "whole-file read simulation with a failing source"
			if failWith != "" {
				key += " (the source reports " + failWith + ")"
			}
		}
		if ex.Budget || len(outs) == 0 {
			why := fmt.Sprintf("abstract interpretation did not complete (budget=%v, stats=%+v)", ex.Budget, ex.Stats)
			for u := range ex.Unsupported {
				why += "; " + u
			}
			c.Unk(rule, key, p.Pos(rf.Pos()), why)
			continue
		}
		bad := false
		for u := range ex.Unsupported {
			c.Unk(rule, key+": "+u, p.Pos(rf.Pos()), "unmodelled construct on the read path")
			bad = true
			break
		}
		if bad {
			continue
		}
		if srcFail {
			// C10: the source fails (sticky, non-EOF) at some Read -> the call must end in a definite error
			okF, whyF, nF, nOK := true, "", 0, 0
			for _, o := range outs {
				if o.Panic {
					continue
				}
				ev, _ := o.Ret[1].(*IfaceV)
				failedAt := ""
				for _, e := range o.St.Events {
					if e.Kind == "sim:read-failed" {
						failedAt = e.Pos
					}
				}
				if failedAt == "" {
					if ev != nil && ev.Nil {
						nOK++
					}
					continue
				}
				nF++
				if ev == nil || ev.Nil || (ev.Unk && !ev.NonNil) {
					okF, whyF = false, "the source failed at the Read issued from "+failedAt+" (a non-EOF error, nothing delivered, sticky) and ReadFrom returns "+valString(o.Ret[1])+": a silently shortened file ["+outcomeWitness(o)+"]"
				}
			}
			c.Check(okF && nF > 0 && nOK > 0, rule, key+": a source failure at any Read ends in an error", p.Pos(rf.Pos()), fmt.Sprintf("%d outcomes in which some Read of the source failed: all return a definite error; %d outcomes without failure return nil", nF, nOK), whyF)
			continue
		}
		ok, why := true, ""
		for _, o := range outs {
			if o.Panic || len(problemEvents(o.St.Events)) > 0 {
				ok, why = false, "ReadFrom may panic on the representative file: "+o.Msg+fmtEvents(problemEvents(o.St.Events))
				continue
			}
			ev, _ := o.Ret[1].(*IfaceV)
			if declared == 3 {
				if ev == nil || ev.Nil || (ev.Unk && !ev.NonNil) {
					ok, why = false, "a file with fewer track chunks than its header declares is (or may be) accepted without error ["+outcomeWitness(o)+"]"
				}
				continue
			}
			if ev == nil || !ev.Nil {
				ok, why = false, "a valid file with alien chunks before and between its tracks is (or may be) rejected: "+valString(o.Ret[1])+" ["+outcomeWitness(o)+"] — unknown chunks must be skipped by exactly their declared length, wherever they appear"
				continue
			}
			sp, _ := o.Ret[0].(*PtrV)
			if sp == nil || sp.Nil || sp.Unk {
				ok, why = false, "no file value returned"
				continue
			}
			tv, okT := ex.getField(o.St, sp, "Tracks")
			tsl, _ := tv.(*SliceV)
			tracks, okE := ex.sliceElems(o.St, tsl)
			if !okT || !okE || len(tracks) != 2 {
				ok, why = false, fmt.Sprintf("the file value holds %d tracks, the file has 2", len(tracks))
				continue
			}
			want := [][]struct {
				delta int64
				msg   []Val
			}{
				{{0, []Val{k8(0x91), k1, v1}}, {0x10, []Val{k8(0xFF), k8(0x2F), k8(0x00)}}},
				{{2, []Val{k8(0xF0), sx, k8(0xF7)}}, {5, []Val{k8(0xC2), pp}}, {0, []Val{k8(0xFF), k8(0x2F), k8(0x00)}}},
			}
			for ti, t := range tracks {
				ts, _ := t.(*SliceV)
				evs, okV := ex.sliceElems(o.St, ts)
				if !okV || len(evs) != len(want[ti]) {
					ok, why = false, fmt.Sprintf("track %d holds %d events, the file has %d there", ti, len(evs), len(want[ti]))
					break
				}
				for ei, e := range evs {
					es, _ := e.(*StructV)
					if es == nil {
						ok, why = false, "event not tracked"
						break
					}
					d, _ := es.Fields[fieldIndex(es.T, "Delta")].(*IntV)
					m, _ := es.Fields[fieldIndex(es.T, "Message")].(*SliceV)
					got, okM := ex.sliceElems(o.St, m)
					w := want[ti][ei]
					if d == nil || !o.St.sameInt(d, mkConst(w.delta, 32, false)) {
						ok, why = false, fmt.Sprintf("event %d of track %d has delta %s, the file says %d", ei, ti, valString(es.Fields[fieldIndex(es.T, "Delta")]), w.delta)
					}
					same := okM && len(got) == len(w.msg)
					for i := 0; same && i < len(got); i++ {
						gi, _ := got[i].(*IntV)
						same = gi != nil && o.St.sameInt(gi, w.msg[i].(*IntV))
					}
					if !same {
						ok, why = false, fmt.Sprintf("event %d of track %d decoded as %s, the file holds %s", ei, ti, arrayStringIn(o.St, &ArrayV{Segs: []Seg{{Elems: got}}}), arrayStringIn(o.St, &ArrayV{Segs: []Seg{{Elems: w.msg}}}))
					}
				}
			}
			if fv, okF := ex.getField(o.St, sp, "format"); okF {
				if fi, _ := fv.(*IntV); fi == nil || !o.St.sameInt(fi, mkConst(1, 16, false)) {
					ok, why = false, "format of the file value is not the header's"
				}
			}
		}
		okText := "symbolic alien chunk of any length 0..2^20 in front of the first track, two more (one named MTrK) between the tracks: both tracks come back with their events and deltas"
		if declared == 3 {
			okText = "every outcome returns a non-nil error"
		}
		c.Check(ok, rule, key, p.Pos(rf.Pos()), okText, why)
	}
}
