package main

// E-cfg lock state (DESIGN §3.2 / C17.1-2): forward dataflow of held mutexes per function.

import (
	"fmt"
	"go/token"
	"sort"
	"strings"

	"golang.org/x/tools/go/ssa"
)

// accessPath: canonical path of a pointer-valued SSA expression ("o.RWMutex", "i.driver.RWMutex").
func accessPath(v ssa.Value) string {
	switch x := v.(type) {
	case *ssa.Parameter:
		return x.Name()
	case *ssa.FreeVar:
		return x.Name()
	case *ssa.Alloc:
		return "local:" + x.Name()
	case *ssa.FieldAddr:
		n, base, _ := fieldOf(x)
		return accessPath(base) + "." + n
	case *ssa.UnOp:
		if x.Op == token.MUL {
			return accessPath(x.X)
		}
	case *ssa.Phi:
		// all edges must agree
		p := ""
		for i, e := range x.Edges {
			q := accessPath(e)
			if i > 0 && q != p {
				return "?"
			}
			p = q
		}
		return p
	case *ssa.ChangeType:
		return accessPath(x.X)
	}
	return "?"
}

type lockOp struct {
	key  string
	kind string // Lock, Unlock, RLock, RUnlock
}

func mutexOp(call ssa.CallInstruction) (lockOp, bool) {
	f := call.Common().StaticCallee()
	if f == nil || f.Signature.Recv() == nil {
		return lockOp{}, false
	}
	rt := f.Signature.Recv().Type().String()
	if rt != "*sync.RWMutex" && rt != "*sync.Mutex" {
		return lockOp{}, false
	}
	switch f.Name() {
	case "Lock", "Unlock", "RLock", "RUnlock":
		return lockOp{accessPath(call.Common().Args[0]), f.Name()}, true
	}
	return lockOp{}, false
}

type lstate struct {
	held     map[string]int // 1 = R, 2 = W
	deferred map[string]string
	conflict bool
}

func (s lstate) clone() lstate {
	n := lstate{held: map[string]int{}, deferred: map[string]string{}, conflict: s.conflict}
	for k, v := range s.held {
		n.held[k] = v
	}
	for k, v := range s.deferred {
		n.deferred[k] = v
	}
	return n
}

func (s lstate) equal(o lstate) bool {
	if len(s.held) != len(o.held) || len(s.deferred) != len(o.deferred) || s.conflict != o.conflict {
		return false
	}
	for k, v := range s.held {
		if o.held[k] != v {
			return false
		}
	}
	for k, v := range s.deferred {
		if o.deferred[k] != v {
			return false
		}
	}
	return true
}

func (s lstate) String() string {
	var p []string
	for k, v := range s.held {
		p = append(p, fmt.Sprintf("%s:%s", k, map[int]string{1: "R", 2: "W"}[v]))
	}
	sort.Strings(p)
	return "{" + strings.Join(p, ",") + "}"
}

type lockFinding struct {
	kind string // double-acquire, release-not-held, exit-held, inconsistent-join, call-while-holding
	key  string
	pos  token.Pos
	msg  string
}

type LockAnalysis struct {
	p        *Program
	acquires map[*ssa.Function]map[string]int // relative to receiver "recv.X" -> mode
	in       map[*ssa.Function]map[*ssa.BasicBlock]lstate
}

func NewLockAnalysis(p *Program, fns []*ssa.Function) *LockAnalysis {
	la := &LockAnalysis{p: p, acquires: map[*ssa.Function]map[string]int{}, in: map[*ssa.Function]map[*ssa.BasicBlock]lstate{}}
	// direct acquires relative to the receiver parameter
	for _, f := range fns {
		if len(f.Params) == 0 || f.Signature.Recv() == nil {
			continue
		}
		recv := f.Params[0].Name()
		for _, call := range calls(f) {
			if op, ok := mutexOp(call); ok && (op.kind == "Lock" || op.kind == "RLock") && strings.HasPrefix(op.key, recv+".") {
				if la.acquires[f] == nil {
					la.acquires[f] = map[string]int{}
				}
				m := 1
				if op.kind == "Lock" {
					m = 2
				}
				rel := "recv." + strings.TrimPrefix(op.key, recv+".")
				if la.acquires[f][rel] < m {
					la.acquires[f][rel] = m
				}
			}
		}
	}
	// transitive through calls on the same receiver
	changed := true
	for changed {
		changed = false
		for _, f := range fns {
			if len(f.Params) == 0 || f.Signature.Recv() == nil {
				continue
			}
			for _, call := range calls(f) {
				cal := call.Common().StaticCallee()
				if cal == nil || la.acquires[cal] == nil || len(call.Common().Args) == 0 || call.Common().Args[0] != ssa.Value(f.Params[0]) {
					continue
				}
				if _, isGo := call.(*ssa.Go); isGo {
					continue
				}
				for rel, m := range la.acquires[cal] {
					if la.acquires[f] == nil {
						la.acquires[f] = map[string]int{}
					}
					if la.acquires[f][rel] < m {
						la.acquires[f][rel] = m
						changed = true
					}
				}
			}
		}
	}
	return la
}

// Run computes the lock state at every block entry of fn and returns the findings.
func (la *LockAnalysis) Run(fn *ssa.Function) []lockFinding {
	var findings []lockFinding
	seenF := map[string]bool{}
	report := func(kind, key string, pos token.Pos, msg string) {
		id := kind + "|" + key + "|" + fmt.Sprint(pos)
		if !seenF[id] {
			seenF[id] = true
			findings = append(findings, lockFinding{kind, key, pos, msg})
		}
	}
	if len(fn.Blocks) == 0 {
		return nil
	}
	in := map[*ssa.BasicBlock]lstate{fn.Blocks[0]: {held: map[string]int{}, deferred: map[string]string{}}}
	work := []*ssa.BasicBlock{fn.Blocks[0]}
	iter := 0
	for len(work) > 0 && iter < 10000 {
		iter++
		b := work[0]
		work = work[1:]
		st := in[b].clone()
		for _, instr := range b.Instrs {
			switch x := instr.(type) {
			case *ssa.Defer:
				if op, ok := mutexOp(x); ok && (op.kind == "Unlock" || op.kind == "RUnlock") {
					st.deferred[op.key] = op.kind
				}
			case *ssa.Call:
				if op, ok := mutexOp(x); ok {
					switch op.kind {
					case "Lock":
						if st.held[op.key] != 0 {
							report("double-acquire", op.key, x.Pos(), fmt.Sprintf("Lock() on %s while it is already held (%s) on some path: self-deadlock", op.key, map[int]string{1: "read", 2: "write"}[st.held[op.key]]))
						}
						st.held[op.key] = 2
					case "RLock":
						if st.held[op.key] == 2 {
							report("double-acquire", op.key, x.Pos(), "RLock() on "+op.key+" while the write lock is held: self-deadlock")
						}
						if st.held[op.key] == 0 {
							st.held[op.key] = 1
						}
					case "Unlock":
						if st.held[op.key] != 2 {
							report("release-not-held", op.key, x.Pos(), "Unlock() on "+op.key+" which is not write-locked on some path")
						}
						delete(st.held, op.key)
					case "RUnlock":
						if st.held[op.key] != 1 {
							report("release-not-held", op.key, x.Pos(), "RUnlock() on "+op.key+" which is not read-locked on some path")
						}
						delete(st.held, op.key)
					}
					continue
				}
				// calls of module functions that acquire a lock of their receiver
				if cal := x.Common().StaticCallee(); cal != nil && la.acquires[cal] != nil && len(x.Common().Args) > 0 {
					base := accessPath(x.Common().Args[0])
					for rel, m := range la.acquires[cal] {
						key := base + strings.TrimPrefix(rel, "recv")
						if h := st.held[key]; h != 0 && (m == 2 || h == 2) {
							report("call-while-holding", key, x.Pos(), fmt.Sprintf("call of %s, which acquires %s, while %s is held: self-deadlock", FuncName(cal), key, key))
						}
					}
				}
			case *ssa.RunDefers:
				for k, kind := range st.deferred {
					want := 2
					if kind == "RUnlock" {
						want = 1
					}
					if st.held[k] != want {
						report("release-not-held", k, x.Pos(), "deferred "+kind+"() on "+k+" runs although the lock is not held on some path")
					}
					delete(st.held, k)
				}
			case *ssa.Return:
				for k := range st.held {
					report("exit-held", k, x.Pos(), "function returns while "+k+" is still held on some path")
				}
			}
		}
		for _, s := range b.Succs {
			old, ok := in[s]
			if !ok {
				in[s] = st.clone()
				work = append(work, s)
				continue
			}
			// meet: must agree
			merged := old.clone()
			diff := false
			for k, v := range st.held {
				if old.held[k] != v {
					diff = true
					if old.held[k] == 0 || v > old.held[k] {
						merged.held[k] = v // keep the stronger to find double acquires; flag below
					}
				}
			}
			for k := range old.held {
				if st.held[k] == 0 {
					diff = true
				}
			}
			for k, v := range st.deferred {
				merged.deferred[k] = v
			}
			if diff {
				for k := range merged.held {
					if st.held[k] != old.held[k] {
						var pos token.Pos
						if len(s.Instrs) > 0 {
							pos = s.Instrs[0].Pos()
						}
						report("inconsistent-join", k, pos, fmt.Sprintf("paths join with different lock states for %s (%s vs %s)", k, st, old))
					}
				}
			}
			if !merged.equal(old) {
				in[s] = merged
				work = append(work, s)
			}
		}
	}
	la.in[fn] = in
	return findings
}

// stateAt: lock state just before instruction target in fn (requires Run(fn) first).
func (la *LockAnalysis) stateAt(fn *ssa.Function, target ssa.Instruction) lstate {
	in := la.in[fn]
	st, ok := in[target.Block()]
	if !ok {
		return lstate{held: map[string]int{}, deferred: map[string]string{}}
	}
	st = st.clone()
	for _, instr := range target.Block().Instrs {
		if instr == target {
			break
		}
		if call, ok := instr.(*ssa.Call); ok {
			if op, ok := mutexOp(call); ok {
				switch op.kind {
				case "Lock":
					st.held[op.key] = 2
				case "RLock":
					if st.held[op.key] == 0 {
						st.held[op.key] = 1
					}
				case "Unlock", "RUnlock":
					delete(st.held, op.key)
				}
			}
		}
	}
	return st
}
