package main

// heap objects, arrays with segments, slices, tops of types

import (
	"fmt"
	"go/types"
)

func (ex *Exec) newObj(st *State, v Val, t types.Type) int {
	ex.nextObj++
	id := ex.nextObj
	st.heap[id] = v
	if t != nil {
		ex.objType[id] = t
	}
	return id
}

func (st *State) intConst(c int64) *IntV { return mkConst(c, 64, true) }

// zeroOf returns the zero value of a type.
func (ex *Exec) zeroOf(t types.Type) Val {
	switch u := t.Underlying().(type) {
	case *types.Basic:
		if w, s, ok := intTypeInfo(t); ok {
			return mkConst(0, w, s)
		}
		switch u.Kind() {
		case types.Bool, types.UntypedBool:
			return &BoolV{Known: true, Val: false}
		case types.String, types.UntypedString:
			return &StrV{Known: true, S: ""}
		case types.Float32, types.Float64, types.UntypedFloat:
			return &FloatV{Known: true, F: 0}
		}
		return &TopV{T: t}
	case *types.Pointer:
		return &PtrV{Nil: true}
	case *types.Slice:
		return &SliceV{Nil: true, Obj: -1, Off: mkConst(0, 64, true), Len: mkConst(0, 64, true), Cap: mkConst(0, 64, true)}
	case *types.Struct:
		sv := &StructV{T: u, Fields: make([]Val, u.NumFields())}
		for i := 0; i < u.NumFields(); i++ {
			sv.Fields[i] = ex.zeroOf(u.Field(i).Type())
		}
		return sv
	case *types.Array:
		n := int(u.Len())
		if n > 4096 {
			return &ArrayV{Elem: u.Elem(), Segs: []Seg{{Run: &Run{Src: "0", Off: constTerm(0), Len: constTerm(int64(n)), Elem: ex.zeroOf(u.Elem())}}}}
		}
		es := make([]Val, n)
		for i := range es {
			es[i] = ex.zeroOf(u.Elem())
		}
		return &ArrayV{Elem: u.Elem(), Segs: []Seg{{Elems: es}}}
	case *types.Interface:
		return &IfaceV{Nil: true}
	case *types.Signature:
		return &FuncV{Nil: true}
	case *types.Map:
		return &MapV{Unk: false, Const: true, ElemT: u.Elem()} // nil map: empty
	case *types.Chan:
		return &TopV{T: t}
	}
	return &TopV{T: t}
}

// topOf returns an unknown value of a type; name seeds symbol names.
func (ex *Exec) topOf(st *State, t types.Type, name string) Val {
	switch u := t.Underlying().(type) {
	case *types.Basic:
		if w, s, ok := intTypeInfo(t); ok {
			return mkSym(ex.syms.Fresh(name, w, s))
		}
		switch u.Kind() {
		case types.Bool, types.UntypedBool:
			return &BoolV{}
		case types.String, types.UntypedString:
			return ex.unknownString(st, name)
		case types.Float32, types.Float64, types.UntypedFloat:
			return &FloatV{}
		}
		return &TopV{T: t}
	case *types.Pointer:
		return &PtrV{Unk: true}
	case *types.Slice:
		return ex.unknownSlice(st, u.Elem(), name, 0)
	case *types.Struct:
		sv := &StructV{T: u, Fields: make([]Val, u.NumFields())}
		for i := 0; i < u.NumFields(); i++ {
			sv.Fields[i] = ex.topOf(st, u.Field(i).Type(), name+"."+u.Field(i).Name())
		}
		return sv
	case *types.Array:
		n := int(u.Len())
		if n > 64 {
			return &ArrayV{Elem: u.Elem(), Segs: []Seg{{Run: &Run{Src: ex.syms.Fresh(name, 8, false).Name, Off: constTerm(0), Len: constTerm(int64(n)), Elem: ex.topOf(st, u.Elem(), name)}}}}
		}
		es := make([]Val, n)
		for i := range es {
			es[i] = ex.topOf(st, u.Elem(), fmt.Sprintf("%s[%d]", name, i))
		}
		return &ArrayV{Elem: u.Elem(), Segs: []Seg{{Elems: es}}}
	case *types.Interface:
		return &IfaceV{Unk: true}
	case *types.Signature:
		return &FuncV{Unk: true}
	case *types.Map:
		return &MapV{Unk: true, ElemT: u.Elem()}
	}
	return &TopV{T: t}
}

// unknownSlice: a slice of unknown content and length >= minLen (may be nil if minLen==0).
func (ex *Exec) unknownSlice(st *State, elem types.Type, name string, minLen int64) *SliceV {
	src := ex.syms.Fresh(name, 8, false).Name
	L := ex.syms.Get("len("+src+")", 64, true)
	L.Lo, L.Hi = minLen, 1<<40
	arr := &ArrayV{Elem: elem, Segs: []Seg{{Run: &Run{Src: src, Off: constTerm(0), Len: symTerm(L), Elem: nil}}}}
	id := ex.newObj(st, arr, nil)
	return &SliceV{Obj: id, Off: mkConst(0, 64, true), Len: mkSym(L), Cap: mkSym(L), MaybeNil: minLen == 0}
}

func (ex *Exec) unknownString(st *State, name string) *StrV {
	sl := ex.unknownSlice(st, types.Typ[types.Uint8], name, 0)
	return &StrV{Bytes: sl, Len: sl.Len}
}

// elemOfRun: the element of a run at absolute source position t.
func (ex *Exec) elemOfRun(st *State, r *Run, pos *Term, elemT types.Type) Val {
	if r.Src == "0" {
		if r.Elem != nil {
			return r.Elem
		}
		return ex.zeroOf(elemT)
	}
	w, s, ok := intTypeInfo(elemT)
	if !ok {
		return ex.topOf(st, elemT, r.Src+"[]")
	}
	return mkSym(ex.syms.Get(r.Src+"["+pos.String()+"]", w, s))
}

// arrLen: total length term of an array.
func arrLen(a *ArrayV) *Term {
	t := constTerm(0)
	for _, s := range a.Segs {
		if s.Run != nil {
			t = termAdd(t, s.Run.Len, 1)
		} else {
			t.C += int64(len(s.Elems))
		}
	}
	return t
}

func (st *State) termIntV(t *Term) *IntV { return &IntV{W: 64, Signed: true, T: t} }

// le decides a <= b on terms (known, value)
func (st *State) termLE(a, b *Term) (bool, bool) {
	return st.Decide("<=", st.termIntV(a), st.termIntV(b))
}
func (st *State) termLT(a, b *Term) (bool, bool) {
	return st.Decide("<", st.termIntV(a), st.termIntV(b))
}

// arrIndex reads element at index idx (absolute within the array). ok=false when position unresolved.
func (ex *Exec) arrIndex(st *State, a *ArrayV, idx *Term) (Val, bool) {
	base := constTerm(0)
	for _, s := range a.Segs {
		var segLen *Term
		if s.Run != nil {
			segLen = s.Run.Len
		} else {
			segLen = constTerm(int64(len(s.Elems)))
		}
		end := termAdd(base, segLen, 1)
		lt, known := st.termLT(idx, end)
		if !known {
			return nil, false
		}
		if lt {
			rel := termAdd(idx, base, -1)
			if s.Run != nil {
				return ex.elemOfRun(st, s.Run, termAdd(s.Run.Off, rel, 1), a.Elem), true
			}
			if rel.IsConst() && rel.C >= 0 && rel.C < int64(len(s.Elems)) {
				return s.Elems[rel.C], true
			}
			return nil, false
		}
		base = end
	}
	return nil, false
}

// arrStore writes element at idx; returns false if unresolved (caller havocs).
func (ex *Exec) arrStore(st *State, a *ArrayV, idx *Term, v Val) bool {
	base := constTerm(0)
	for i, s := range a.Segs {
		var segLen *Term
		if s.Run != nil {
			segLen = s.Run.Len
		} else {
			segLen = constTerm(int64(len(s.Elems)))
		}
		end := termAdd(base, segLen, 1)
		lt, known := st.termLT(idx, end)
		if !known {
			return false
		}
		if lt {
			rel := termAdd(idx, base, -1)
			if s.Run == nil {
				if rel.IsConst() && rel.C >= 0 && rel.C < int64(len(s.Elems)) {
					s.Elems[rel.C] = v
					return true
				}
				return false
			}
			// split the run
			r := s.Run
			var segs []Seg
			segs = append(segs, a.Segs[:i]...)
			if !(rel.IsConst() && rel.C == 0) {
				segs = append(segs, Seg{Run: &Run{Src: r.Src, Off: r.Off, Len: rel, Elem: r.Elem}})
			}
			segs = append(segs, Seg{Elems: []Val{v}})
			restLen := termAdd(termAdd(r.Len, rel, -1), constTerm(1), -1)
			if !(restLen.IsConst() && restLen.C == 0) {
				segs = append(segs, Seg{Run: &Run{Src: r.Src, Off: termAdd(termAdd(r.Off, rel, 1), constTerm(1), 1), Len: restLen, Elem: r.Elem}})
			}
			segs = append(segs, a.Segs[i+1:]...)
			a.Segs = normSegs(segs)
			return true
		}
		base = end
	}
	return false
}

func normSegs(segs []Seg) []Seg {
	var out []Seg
	for _, s := range segs {
		if s.Run == nil && len(s.Elems) == 0 {
			continue
		}
		if s.Run != nil && s.Run.Len.IsConst() && s.Run.Len.C == 0 {
			continue
		}
		if s.Run == nil && len(out) > 0 && out[len(out)-1].Run == nil {
			out[len(out)-1].Elems = append(append([]Val{}, out[len(out)-1].Elems...), s.Elems...)
			continue
		}
		if s.Run != nil && len(out) > 0 && out[len(out)-1].Run != nil {
			p := out[len(out)-1].Run
			if p.Src == s.Run.Src && termEq(termAdd(p.Off, p.Len, 1), s.Run.Off) {
				out[len(out)-1] = Seg{Run: &Run{Src: p.Src, Off: p.Off, Len: termAdd(p.Len, s.Run.Len, 1), Elem: p.Elem}}
				continue
			}
		}
		out = append(out, s)
	}
	return out
}

// arrSub extracts [lo,hi) as a list of segments (copies). ok=false if cut points are unresolved.
func (ex *Exec) arrSub(st *State, a *ArrayV, lo, hi *Term) ([]Seg, bool) {
	// fast path: both cut points are exact segment boundaries
	{
		bi, bj := -1, -1
		b := constTerm(0)
		for i := 0; i <= len(a.Segs); i++ {
			if bi < 0 && termEq(b, lo) {
				bi = i
			}
			if bi >= 0 && termEq(b, hi) {
				bj = i // keep the last boundary equal to hi (zero-length runs in between are harmless)
			}
			if i < len(a.Segs) {
				if a.Segs[i].Run != nil {
					b = termAdd(b, a.Segs[i].Run.Len, 1)
				} else {
					b = termAdd(b, constTerm(int64(len(a.Segs[i].Elems))), 1)
				}
			}
		}
		if bi >= 0 && bj >= bi {
			var out []Seg
			for _, s := range a.Segs[bi:bj] {
				if s.Run != nil {
					out = append(out, Seg{Run: s.Run})
				} else {
					out = append(out, Seg{Elems: append([]Val{}, s.Elems...)})
				}
			}
			return normSegs(out), true
		}
	}
	var out []Seg
	base := constTerm(0)
	for _, s := range a.Segs {
		var segLen *Term
		if s.Run != nil {
			segLen = s.Run.Len
		} else {
			segLen = constTerm(int64(len(s.Elems)))
		}
		end := termAdd(base, segLen, 1)
		// overlap of [base,end) with [lo,hi)
		// skip if end <= lo
		if le, k := st.termLE(end, lo); k && le {
			base = end
			continue
		} else if !k {
			// the segment may be empty; that is harmless when the requested range starts at or before it
			if ge, k2 := st.termLE(lo, base); !(k2 && ge) {
				return nil, false
			}
		}
		// stop if base >= hi (when undecided the remaining piece may be empty, which is harmless)
		if le, k := st.termLE(hi, base); k && le {
			break
		}
		// start = max(lo, base), stop = min(hi,end)
		start := base
		if le, k := st.termLE(base, lo); k && le {
			start = lo
		} else if !k {
			return nil, false
		}
		stop := end
		if le, k := st.termLE(hi, end); k && le {
			stop = hi
		} else if !k {
			return nil, false
		}
		relS := termAdd(start, base, -1)
		n := termAdd(stop, start, -1)
		if s.Run != nil {
			out = append(out, Seg{Run: &Run{Src: s.Run.Src, Off: termAdd(s.Run.Off, relS, 1), Len: n, Elem: s.Run.Elem}})
		} else {
			if !relS.IsConst() || !n.IsConst() {
				return nil, false
			}
			es := make([]Val, n.C)
			copy(es, s.Elems[relS.C:relS.C+n.C])
			out = append(out, Seg{Elems: es})
		}
		base = end
	}
	return normSegs(out), true
}

// arrReplace overwrites [lo, lo+len(segs)) with segs.
func (ex *Exec) arrReplace(st *State, a *ArrayV, lo *Term, segs []Seg, n *Term) bool {
	total := arrLen(a)
	head, ok1 := ex.arrSub(st, a, constTerm(0), lo)
	tail, ok2 := ex.arrSub(st, a, termAdd(lo, n, 1), total)
	if !ok1 || !ok2 {
		return false
	}
	var all []Seg
	all = append(all, head...)
	all = append(all, segs...)
	all = append(all, tail...)
	a.Segs = normSegs(all)
	return true
}

func segsEqual(a, b []Seg, eqv func(x, y Val) bool) bool {
	a, b = normSegs(a), normSegs(b)
	if len(a) != len(b) {
		return false
	}
	for i := range a {
		if (a[i].Run == nil) != (b[i].Run == nil) {
			return false
		}
		if a[i].Run != nil {
			if a[i].Run.Src != b[i].Run.Src || !termEq(a[i].Run.Off, b[i].Run.Off) || !termEq(a[i].Run.Len, b[i].Run.Len) {
				return false
			}
			continue
		}
		if len(a[i].Elems) != len(b[i].Elems) {
			return false
		}
		for j := range a[i].Elems {
			if !eqv(a[i].Elems[j], b[i].Elems[j]) {
				return false
			}
		}
	}
	return true
}

// sliceSegs returns the content of a slice as segments.
func (ex *Exec) sliceSegs(st *State, s *SliceV) ([]Seg, bool) {
	if s.Nil || s.Obj < 0 {
		return nil, true
	}
	arr, ok := ex.arrOf(st, s)
	if !ok {
		return nil, false
	}
	lo := st.TermOf(s.Off)
	hi := termAdd(lo, st.TermOf(s.Len), 1)
	return ex.arrSub(st, arr, lo, hi)
}

// havocAll replaces every mutable heap object by an unknown of its type.
func (ex *Exec) havocAll(st *State, why string) {
	if ex.StrictHeap {
		// a simulation on a fully known heap: once everything is forgotten its verdict can only be "undecided" — stop
		// at once instead of dragging an unknown heap through the rest of the run
		ex.unsupported("whole heap forgotten (" + why + ")")
		ex.Budget = true
		return
	}
	st.note("havoc heap: %s", why)
	for id, v := range st.heap {
		if ex.constObj[id] {
			continue
		}
		t := ex.objType[id]
		switch x := v.(type) {
		case *ArrayV:
			n := arrLen(x)
			src := ex.syms.Fresh("havoc", 8, false).Name
			st.heap[id] = &ArrayV{Elem: x.Elem, Segs: []Seg{{Run: &Run{Src: src, Off: constTerm(0), Len: n}}}}
		case *BufV:
			src := ex.syms.Fresh("havocbuf", 8, false).Name
			L := ex.syms.Fresh("len", 64, true)
			L.Lo = 0
			st.heap[id] = &BufV{Data: &ArrayV{Elem: types.Typ[types.Uint8], Segs: []Seg{{Run: &Run{Src: src, Off: constTerm(0), Len: symTerm(L)}}}}}
		default:
			if t != nil {
				st.heap[id] = ex.topOf(st, t, "havoc")
			} else {
				st.heap[id] = &TopV{}
			}
		}
	}
}

// navigate follows a pointer path to the addressed value; set!=nil stores.
func (ex *Exec) loadPath(st *State, root Val, path []PathElem) (Val, bool) {
	cur := root
	for _, pe := range path {
		switch c := cur.(type) {
		case *StructV:
			if pe.Index != nil || pe.Field >= len(c.Fields) {
				return nil, false
			}
			cur = c.Fields[pe.Field]
		case *ArrayV:
			if pe.Index == nil {
				return nil, false
			}
			v, ok := ex.arrIndex(st, c, st.TermOf(pe.Index))
			if !ok {
				return nil, false
			}
			cur = v
		default:
			return nil, false
		}
	}
	return cur, true
}

func (ex *Exec) storePath(st *State, obj int, path []PathElem, v Val) bool {
	if len(path) == 0 {
		st.heap[obj] = v
		return true
	}
	cur := st.heap[obj]
	for i, pe := range path {
		last := i == len(path)-1
		switch c := cur.(type) {
		case *StructV:
			if pe.Index != nil || pe.Field >= len(c.Fields) {
				return false
			}
			if last {
				c.Fields[pe.Field] = v
				return true
			}
			cur = c.Fields[pe.Field]
		case *ArrayV:
			if pe.Index == nil {
				return false
			}
			if last {
				return ex.arrStore(st, c, st.TermOf(pe.Index), v)
			}
			nv, ok := ex.arrIndex(st, c, st.TermOf(pe.Index))
			if !ok {
				return false
			}
			cur = nv
		default:
			return false
		}
	}
	return false
}

// dropEmptyRuns removes runs whose length is known to be 0 in this state.
func (st *State) dropEmptyRuns(segs []Seg) []Seg {
	var out []Seg
	for _, s := range segs {
		if s.Run != nil {
			if _, hi, ok := st.termRange(s.Run.Len); ok && hi <= 0 {
				continue
			}
		}
		out = append(out, s)
	}
	return normSegs(out)
}

// havocReachable forgets every heap object reachable from the given values and all global objects
// (effect of an opaque call).
func (ex *Exec) havocReachable(st *State, why string, roots []Val) {
	st.note("havoc reachable: %s", why)
	seen := map[int]bool{}
	var work []int
	var visit func(v Val)
	visit = func(v Val) {
		switch x := v.(type) {
		case *PtrV:
			if !x.Nil && !x.Unk && !seen[x.Obj] {
				seen[x.Obj] = true
				work = append(work, x.Obj)
			}
		case *SliceV:
			if !x.Nil && !x.Unk && x.Obj >= 0 && !seen[x.Obj] {
				seen[x.Obj] = true
				work = append(work, x.Obj)
			}
		case *IfaceV:
			if x.V != nil {
				visit(x.V)
			}
		case *FuncV:
			for _, b := range x.Bindings {
				visit(b)
			}
		case *StructV:
			for _, f := range x.Fields {
				visit(f)
			}
		case *ArrayV:
			for _, sg := range x.Segs {
				for _, e := range sg.Elems {
					visit(e)
				}
			}
		case *TupleV:
			for _, e := range x.Vs {
				visit(e)
			}
		case *StrV:
			if x.Bytes != nil {
				visit(x.Bytes)
			}
		case *MapV:
			if x.Obj != 0 && !seen[x.Obj] {
				seen[x.Obj] = true
				work = append(work, x.Obj)
			}
		}
	}
	for _, r := range roots {
		visit(r)
	}
	for _, id := range ex.globals {
		if !seen[id] {
			seen[id] = true
			work = append(work, id)
		}
	}
	for len(work) > 0 {
		id := work[len(work)-1]
		work = work[:len(work)-1]
		if v, ok := st.heap[id]; ok {
			visit(v)
		}
	}
	for id := range seen {
		v, ok := st.heap[id]
		if !ok || ex.constObj[id] {
			continue
		}
		t := ex.objType[id]
		switch x := v.(type) {
		case *ArrayV:
			src := ex.syms.Fresh("havoc", 8, false).Name
			st.heap[id] = &ArrayV{Elem: x.Elem, Segs: []Seg{{Run: &Run{Src: src, Off: constTerm(0), Len: arrLen(x)}}}}
		case *BufV:
			src := ex.syms.Fresh("havocbuf", 8, false).Name
			L := ex.syms.Fresh("len", 64, true)
			L.Lo = 0
			st.heap[id] = &BufV{Data: &ArrayV{Elem: types.Typ[types.Uint8], Segs: []Seg{{Run: &Run{Src: src, Off: constTerm(0), Len: symTerm(L)}}}}}
		default:
			if t != nil {
				st.heap[id] = ex.topOf(st, t, "havoc")
			} else {
				st.heap[id] = &TopV{}
			}
		}
	}
}

// arrOf: the array a slice views (the heap object itself, or an array nested in a struct through s.Path).
func (ex *Exec) arrOf(st *State, s *SliceV) (*ArrayV, bool) {
	cur := st.heap[s.Obj]
	for _, pe := range s.Path {
		sv, ok := cur.(*StructV)
		if !ok || pe.Index != nil || pe.Field < 0 || pe.Field >= len(sv.Fields) {
			return nil, false
		}
		cur = sv.Fields[pe.Field]
	}
	a, ok := cur.(*ArrayV)
	return a, ok
}

// setArrOf replaces the array a slice views.
func (ex *Exec) setArrOf(st *State, s *SliceV, a *ArrayV) {
	if len(s.Path) == 0 {
		st.heap[s.Obj] = a
		return
	}
	ex.storePath(st, s.Obj, s.Path, a)
}

// reachableFrom: the heap objects reachable from a value (through pointers, slices, interfaces, closures, structs).
func (ex *Exec) reachableFrom(st *State, root Val) map[int]bool {
	seen := map[int]bool{}
	var work []int
	var visit func(v Val)
	visit = func(v Val) {
		switch x := v.(type) {
		case *PtrV:
			if !x.Nil && !x.Unk && !seen[x.Obj] {
				seen[x.Obj] = true
				work = append(work, x.Obj)
			}
		case *SliceV:
			if !x.Nil && !x.Unk && x.Obj >= 0 && !seen[x.Obj] {
				seen[x.Obj] = true
				work = append(work, x.Obj)
			}
		case *IfaceV:
			if x.V != nil {
				visit(x.V)
			}
		case *FuncV:
			for _, b := range x.Bindings {
				visit(b)
			}
		case *StructV:
			for _, f := range x.Fields {
				visit(f)
			}
		case *ArrayV:
			for _, sg := range x.Segs {
				for _, e := range sg.Elems {
					visit(e)
				}
			}
		case *TupleV:
			for _, e := range x.Vs {
				visit(e)
			}
		case *StrV:
			if x.Bytes != nil {
				visit(x.Bytes)
			}
		case *BufV:
			if x.Data != nil {
				visit(x.Data)
			}
			for _, id := range x.Handed {
				if !seen[id] {
					seen[id] = true
					work = append(work, id)
				}
			}
		case *RdrV:
			visit(&x.Src)
		case *MapV:
			if x.Obj != 0 && !seen[x.Obj] {
				seen[x.Obj] = true
				work = append(work, x.Obj)
			}
			for _, e := range x.Vals {
				visit(e)
			}
		}
	}
	visit(root)
	for len(work) > 0 {
		id := work[len(work)-1]
		work = work[:len(work)-1]
		if v, ok := st.heap[id]; ok {
			visit(v)
		}
	}
	return seen
}
