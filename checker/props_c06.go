package main

import (
	"fmt"
	"go/token"
	"go/types"
	"strings"

	"golang.org/x/tools/go/ssa"
)

func init() {
	register("C06", checkC06)
	register("C04", checkC04)
}

// listenClosure: the re-typing closure of ListenTo (func([]byte, int32) nested in ListenTo).
func listenClosure(p *Program) (*ssa.Function, *ssa.Function) {
	lt := p.Func("", "ListenTo")
	if lt == nil {
		return nil, nil
	}
	// role: the function handed to the port's Listen as message callback — a closure made in ListenTo itself or in a
	// helper that returns it
	var closureOf func(v ssa.Value, depth int) *ssa.Function
	closureOf = func(v ssa.Value, depth int) *ssa.Function {
		if depth > 3 {
			return nil
		}
		switch x := v.(type) {
		case *ssa.MakeClosure:
			f, _ := x.Fn.(*ssa.Function)
			return f
		case *ssa.ChangeType:
			return closureOf(x.X, depth+1)
		case *ssa.Phi:
			for _, e := range x.Edges {
				if f := closureOf(e, depth+1); f != nil {
					return f
				}
			}
		case *ssa.UnOp:
			if al, ok := x.X.(*ssa.Alloc); ok && x.Op == token.MUL {
				for _, u := range liveRefs(al) {
					if st, ok := u.(*ssa.Store); ok && st.Addr == ssa.Value(al) {
						if f := closureOf(st.Val, depth+1); f != nil {
							return f
						}
					}
				}
			}
		case *ssa.Call:
			if g := x.Common().StaticCallee(); g != nil && InModule(g) {
				for _, r := range allReturns(g) {
					for i := range r.Results {
						if f := closureOf(retVal(r, i), depth+1); f != nil {
							return f
						}
					}
				}
			}
		}
		return nil
	}
	for _, call := range calls(lt) {
		if invokeIs(call, "Listen") && len(call.Common().Args) >= 1 {
			if f := closureOf(call.Common().Args[0], 0); f != nil {
				return lt, f
			}
		}
	}
	for _, af := range lt.AnonFuncs {
		sig := af.Signature
		if sig.Params().Len() == 2 && sig.Params().At(0).Type().String() == "[]byte" {
			return lt, af
		}
	}
	return lt, nil
}

type readerShape struct {
	name string
	mk   func(ex *Exec, st *State) ([]Val, []Val) // reader output bytes, canonical wire bytes expected at the listener
}

func dataTok(ex *Exec, st *State, n string) *IntV {
	s := ex.syms.Get(n, 8, false)
	st.refineSym(s, 0, 127)
	return mkSym(s)
}

func readerShapes() []readerShape {
	var out []readerShape
	for _, k := range []int64{8, 9, 0xA, 0xB, 0xE} {
		k := k
		out = append(out, readerShape{fmt.Sprintf("channel %Xn (2 data bytes)", k), func(ex *Exec, st *State) ([]Val, []Val) {
			s := ex.syms.Get("S", 8, false)
			st.refineSym(s, k<<4, k<<4|15)
			S := mkSym(s)
			d1, d2 := dataTok(ex, st, "d1"), dataTok(ex, st, "d2")
			return []Val{S, d1, d2}, []Val{S, d1, d2}
		}})
	}
	for _, k := range []int64{0xC, 0xD} {
		k := k
		out = append(out, readerShape{fmt.Sprintf("channel %Xn (1 data byte)", k), func(ex *Exec, st *State) ([]Val, []Val) {
			s := ex.syms.Get("S", 8, false)
			st.refineSym(s, k<<4, k<<4|15)
			S := mkSym(s)
			d1 := dataTok(ex, st, "d1")
			return []Val{S, d1, mkConst(0, 8, false)}, []Val{S, d1}
		}})
	}
	k8 := func(v int64) Val { return mkConst(v, 8, false) }
	out = append(out,
		readerShape{"F1 quarter frame", func(ex *Exec, st *State) ([]Val, []Val) {
			d := dataTok(ex, st, "d1")
			return []Val{k8(0xF1), d, k8(0)}, []Val{k8(0xF1), d}
		}},
		readerShape{"F2 song position", func(ex *Exec, st *State) ([]Val, []Val) {
			d1, d2 := dataTok(ex, st, "d1"), dataTok(ex, st, "d2")
			return []Val{k8(0xF2), d1, d2}, []Val{k8(0xF2), d1, d2}
		}},
		readerShape{"F3 song select", func(ex *Exec, st *State) ([]Val, []Val) {
			d := dataTok(ex, st, "d1")
			return []Val{k8(0xF3), d, k8(0)}, []Val{k8(0xF3), d}
		}},
		readerShape{"F6 tune request", func(ex *Exec, st *State) ([]Val, []Val) {
			return []Val{k8(0xF6), k8(0), k8(0)}, []Val{k8(0xF6)}
		}},
	)
	for _, b := range []int64{0xF8, 0xF9, 0xFA, 0xFB, 0xFC, 0xFE, 0xFF} {
		b := b
		out = append(out, readerShape{fmt.Sprintf("real-time %02X", b), func(ex *Exec, st *State) ([]Val, []Val) {
			return []Val{k8(b)}, []Val{k8(b)}
		}})
	}
	return out
}

// retypingRule (C04.5 / C06.4b): the message handed to the user equals the canonical wire bytes of the decoded message
// and the user callback is never invoked with an empty message.
func retypingRule(c *Ctx, ruleIdent, ruleNonEmpty string) {
	p := c.P
	lt, cl := listenClosure(p)
	if lt == nil || cl == nil {
		c.Unk(ruleIdent, "re-typing closure of ListenTo", "-", "not found")
		return
	}
	c.Fn(FuncName(cl))
	firstFresh := 0 // objects allocated by the closure itself have larger ids than this (set by call)
	call := func(ex *Exec, st *State, data *SliceV, isStatusSet bool) []callRes {
		var binds []Val
		for _, fv := range cl.FreeVars {
			et := fv.Type()
			isPtr := false
			if pt, ok := et.(*types.Pointer); ok {
				et = pt.Elem()
				isPtr = true
			}
			// captured state by type: the receiver callback, the "status seen" flag, everything else unknown; a captured
			// struct (the callback may be a method value of a small dispatcher object) is filled in the same way
			var mkBind func(t types.Type, name string, depth int) Val
			mkBind = func(t types.Type, name string, depth int) Val {
				if t.String() == "bool" {
					return &BoolV{Known: true, Val: isStatusSet}
				}
				if _, isSig := t.Underlying().(*types.Signature); isSig {
					return &FuncV{Ext: "recv"}
				}
				if stt, ok := t.Underlying().(*types.Struct); ok && depth < 2 && InModuleType(t) {
					sv := ex.zeroOf(t).(*StructV)
					for i := 0; i < stt.NumFields(); i++ {
						sv.Fields[i] = mkBind(stt.Field(i).Type(), name+"."+stt.Field(i).Name(), depth+1)
					}
					return sv
				}
				if pt, ok := t.(*types.Pointer); ok && depth < 2 {
					if _, ok := pt.Elem().Underlying().(*types.Struct); ok && InModuleType(pt.Elem()) {
						id := ex.newObj(st, mkBind(pt.Elem(), name, depth+1), pt.Elem())
						return &PtrV{Obj: id}
					}
				}
				return ex.topArg(st, t, name)
			}
			v := mkBind(et, fv.Name(), 0)
			if isPtr {
				id := ex.newObj(st, v, et)
				binds = append(binds, &PtrV{Obj: id})
			} else {
				binds = append(binds, v)
			}
		}
		fr := &Frame{fn: cl, regs: map[ssa.Value]Val{}, visits: map[*ssa.BasicBlock]int{}, widened: map[*ssa.BasicBlock]bool{}, phiHist: map[*ssa.Phi]Val{}, kept: map[*ssa.Phi]keptInv{}}
		firstFresh = ex.nextObj
		return ex.callValue(fr, st, &FuncV{Fn: cl, Bindings: binds}, []Val{data, mkSym(ex.syms.Get("ms", 32, true))}, nil, nil)
	}
	for _, sh := range readerShapes() {
		ex := NewExec(p)
		st := ex.NewState()
		in, want := sh.mk(ex, st)
		data := ex.mkBytes(st, "data", in, false, 0)
		ok := true
		why := ""
		n := 1
		for _, r := range call(ex, st, data, false) {
			if r.panic {
				ok = false
				why = "panic: " + r.msg
				continue
			}
			if pe := problemEvents(r.st.Events); len(pe) > 0 {
				ok = false
				why = fmtEvents(pe)
				continue
			}
			// every outcome (whatever the captured configuration holds) delivers the message exactly once
			k := 0
			for _, e := range r.st.Events {
				if e.Kind != "call:recv" {
					continue
				}
				k++
				msg, _ := e.Args[0].(*SliceV)
				elems, okE := ex.sliceElems(r.st, msg)
				if !okE || !segsEqual([]Seg{{Elems: elems}}, []Seg{{Elems: want}}, r.st.sameVal) {
					ok = false
					why = fmt.Sprintf("listener receives %s, the wire message was %s", arrayStringIn(r.st, &ArrayV{Segs: []Seg{{Elems: elems}}}), arrayStringIn(r.st, &ArrayV{Segs: []Seg{{Elems: want}}}))
				} else if len(msg.Path) > 0 || ex.isGlobalObj(msg.Obj) || (msg.Obj != data.Obj && !ex.allocatedSince(firstFresh, msg.Obj)) {
					// the receiver may keep the message: it must not share storage with the decoder's slice or with
					// anything that outlives the call (a buffer captured by the closure is rewritten by the next message)
					ok = false
					why = "the message handed to the listener shares storage that outlives the callback (the decoder's slice or a captured buffer): a retained message is overwritten by a later one"
				}
			}
			if k != 1 {
				n = k
				if why == "" {
					why = "on some path (depending on captured configuration or state) the decoder's message is not handed to the listener exactly once"
				}
			}
		}
		if ruleIdent == "" {
			continue
		}
		c.Check(ok && n == 1, ruleIdent, "re-typing of "+sh.name, p.Pos(cl.Pos()), "the listener receives exactly the canonical wire bytes (symbolic channel/data)", fmt.Sprintf("%s (deliveries: %d)", why, n))
	}
	// sysex: same bytes
	if ruleIdent != "" {
		ex := NewExec(p)
		st := ex.NewState()
		data := ex.mkBytes(st, "sx", []Val{mkConst(0xF0, 8, false)}, true, 1)
		ok := true
		n := 0
		for _, r := range call(ex, st, data, false) {
			for _, e := range r.st.Events {
				if e.Kind == "call:recv" {
					n++
					msg, _ := e.Args[0].(*SliceV)
					if msg == nil || msg.Obj != data.Obj || !r.st.sameInt(msg.Len, data.Len) {
						ok = false
					}
				}
			}
		}
		c.Check(ok && n == 1, ruleIdent, "re-typing of sysex", p.Pos(cl.Pos()), "the assembled sysex bytes are handed on unchanged", "sysex altered by the listener stage")
	}
	// never an empty message: every first byte the decoder can or cannot deliver
	if ruleNonEmpty != "" {
		bad := ""
		for b0 := 0x80; b0 < 256 && bad == ""; b0++ { // first bytes the decoder can deliver (C06.4: always a status byte)
			for _, set := range []bool{false, true} {
				ex := NewExec(p)
				st := ex.NewState()
				data := ex.mkBytes(st, "data", []Val{mkConst(int64(b0), 8, false), ex.byteSym("x1"), ex.byteSym("x2")}, false, 0)
				for _, r := range call(ex, st, data, set) {
					if r.panic {
						bad = fmt.Sprintf("first byte %02X: panic %s", b0, r.msg)
						continue
					}
					for _, e := range r.st.Events {
						if e.Kind != "call:recv" {
							continue
						}
						msg, _ := e.Args[0].(*SliceV)
						if msg == nil || msg.Nil || isZeroLen(r.st, msg) {
							bad = fmt.Sprintf("a decoder output starting with %02X makes ListenTo call the user with an empty message", b0)
						} else if lo, _ := r.st.Range(msg.Len); lo < 1 {
							bad = fmt.Sprintf("first byte %02X: possibly empty message handed to the user", b0)
						}
					}
				}
			}
		}
		c.Check(bad == "", ruleNonEmpty, "the user callback never receives an empty message", p.Pos(cl.Pos()), "128 status first bytes x running-status flag: every invocation of the user callback carries at least one byte", bad)
	}
}

func checkC06(c *Ctx) {
	c.Level = "model_checking"
	c.Explain = "C06 decided by a one-step simulation between the live decoder and the MIDI 1.0 receiver model: for each of the reference receiver's states (running status none / 7 channel kinds x pending message: none, channel with 0/1 data bytes, F1/F2/F3 with 0/1 data bytes, sysex with room >= 2 / room = 1 / full, ignoring) and each input class (data, 7 channel status kinds, F0..F7 and F8..FF singly) and both values of the sysex option, the decoder's step function is interpreted abstractly (symbolic channel nibble, data tokens, buffer size N, fill level, clocks) from the corresponding decoder state; delivered messages, time stamps and the successor state must equal the reference transition. With the initial state corresponding, induction over the byte stream gives equality on ALL byte streams and chunkings (the step's only inputs are the decoder object and the byte). The same runs give panic freedom (every index into the sysex buffer proven below its symbolic length) and well-formedness of every delivery; the ListenTo stage is interpreted for all 256 first bytes."
	c.Trusted = []string{"go/ssa", "E-abs transfer functions", "the reference receiver model refTransition() in props_live.go (written from MIDI 1.0, DESIGN appendix A.1)", "sysex content is tracked in step with the buffer (length, time stamp), not element-wise"}
	c.Rule("C06.1", "no panic: in every (receiver state, input class, sysex option) cell the step has no reachable panic and every buffer index is proven in range for symbolic buffer size", 20)
	c.Rule("C06.3", "receiver model: delivered messages, their time stamps and the successor state equal the MIDI 1.0 receiver transition in every cell (status abandons an incomplete message; data without status ignored; F4/F5/FD skipped; stray F7 delivers nothing; oversized sysex dropped)", 20)
	c.Rule("C06.4", "well-formed outputs: every delivered message is non-empty, starts with a status byte and carries only data bytes; the user callback never receives an empty message", 21)
	c.Rule("C06.5", "initial state and chunking: the constructor's state corresponds to the receiver's initial state; EachMessage adds the delta once and applies the step to each byte in order", 2)
	liveSimulation(c, "C06.3", "C06.1", "C06.4", false)
	retypingRule(c, "C06.4", "C06.4")
	initialAndChunking(c, "C06.5")
	c.Rule("C06.6", "the buffer size and sysex options given to ListenTo reach the decoder unchanged, whatever the order of the options (= C14.1): the size decides which sysex messages are dropped as oversized", 4)
	c.include(checkC14, map[string]string{"C14.1": "C06.6"})
}

func checkC04(c *Ctx) {
	c.Level = "model_checking"
	c.Explain = "C04 decided by the same one-step simulation as C06 (the well-formed input language is a subset of all byte streams): in every reference state x input class cell the decoder delivers exactly the receiver model's messages, complete and with explicit status, with the clock of the completing chunk (sysex: the clock captured at its first byte); real-time bytes deliver and change nothing, so interleaving is transparent; chunking independence is structural (EachMessage adds the delta once, then applies the step byte by byte; the step reads only the decoder and the byte). The listener stage is the identity on every decoder output shape (symbolic channel/data; song position through pack/unpack), and the loopback driver forwards the caller's bytes and the elapsed virtual time unchanged."
	c.Trusted = []string{"go/ssa", "E-abs", "reference receiver model (props_live.go)", "sysex content in step, not element-wise"}
	c.Rule("C04.1", "chunking independence: EachMessage adds the delta to the clock exactly once and applies the step to each byte in order; the step's only inputs are the decoder and the byte", 2)
	c.Rule("C04.4", "decoder = receiver model in every (state, input class, sysex option) cell: same messages, complete, explicit status, time stamp of the completing chunk (sysex: captured at F0)", 20)
	c.Rule("C04.5", "re-typing is the identity: the message handed to the user equals the canonical wire bytes for every decoder output shape", 17)
	c.Rule("C04.6", "loopback is a pipe: the test driver's Send hands the caller's bytes and the elapsed virtual milliseconds to the decoder unchanged", 1)
	initialAndChunking(c, "C04.1")
	liveSimulation(c, "C04.4", "", "", true)
	retypingRule(c, "C04.5", "")
	loopbackRule(c, "C04.6")
	c.Rule("C04.7", "the loopback port decodes with a decoder built from the options and callback of the current Listen (= C17.4): a reused decoder would apply an earlier listener's buffer size / sysex option to this stream", 6)
	c.include(checkC17, map[string]string{"C17.4": "C04.7"})
	c.Rule("C04.8", "the buffer size and sysex options given to ListenTo reach the decoder unchanged, whatever the order of the options (= C14.1): a sysex message that fits the configured buffer is decoded, not dropped against a default size", 4)
	c.include(checkC14, map[string]string{"C14.1": "C04.8"})
}

// initialAndChunking: NewReader's state = initial receiver state; EachMessage structure.
func initialAndChunking(c *Ctx, rule string) {
	p := c.P
	em, step := findLiveStep(p)
	nr := p.Func("drivers", "NewReader")
	if em == nil || step == nil || nr == nil {
		c.Unk(rule, "EachMessage / step / NewReader", "-", "not resolved")
		return
	}
	// initial state
	{
		ex := NewExec(p)
		st := ex.NewState()
		confT := p.namedType("drivers", "ListenConfig")
		conf := ex.topOf(st, confT, "conf")
		ok := true
		why := ""
		n := 0
		for _, o := range ex.Call(st, nr, []Val{conf, &FuncV{Ext: "OnMsg"}}, nil) {
			n++
			if o.Panic {
				ok = false
				why = o.Msg
				continue
			}
			rp, _ := o.Ret[0].(*PtrV)
			chkI := func(f string, want int64) {
				v, _ := ex.getField(o.St, rp, f)
				iv, _ := v.(*IntV)
				if iv == nil || !o.St.sameInt(iv, mkConst(want, iv.W, iv.Signed)) {
					ok = false
					why = fmt.Sprintf("initial %s = %s, must be %d", f, valString(v), want)
				}
			}
			chkI("state", 0)
			chkI("statusByte", 0)
			chkI("ts_ms", 0)
			v, _ := ex.getField(o.St, rp, "issetBf")
			if bv, _ := v.(*BoolV); bv == nil {
				ok = false
			} else if b, k := o.St.boolOf(bv); !k || b {
				ok = false
				why = "initial first-data-byte flag set"
			}
			bs, _ := ex.getField(o.St, rp, "SysExBufferSize")
			if bi, _ := bs.(*IntV); bi != nil {
				if lo, _ := o.St.Range(bi); lo < 1 {
					ok = false
					why = "a decoder with a zero-byte sysex buffer can be constructed (index 0 would be out of range)"
				}
			}
		}
		c.Check(ok && n > 0, rule, "constructor state = initial receiver state", p.Pos(nr.Pos()), "clean state, no running status, clock 0, buffer size >= 1", why)
	}
	// EachMessage, decided on an abstract run with the step function observed (not interpreted): for a chunk of three
	// arbitrary bytes and any delta the clock is advanced by the delta exactly once, before the first step, and the step
	// is applied to byte 0, 1, 2 in that order and nothing else happens to the decoder; for an empty chunk only the clock
	// moves. A fast path, a second clock update, a skipped or reordered byte all show up as a different call sequence.
	{
		rT := p.namedType("drivers", "Reader")
		ok, why, nOut := true, "", 0
		for _, nbytes := range []int{3, 0} {
			ex := NewExec(p)
			ex.Unroll = 8
			st := ex.NewState()
			rp := ex.newZeroObject(st, rT)
			now := mkSym(ex.syms.Get("now", 32, true))
			st.refineSym(now.T.Syms[0], 0, 1<<29)
			dl := mkSym(ex.syms.Get("delta", 32, true))
			st.refineSym(dl.T.Syms[0], 0, 1<<29)
			ex.setField(st, rp, "ts_ms", now)
			var bs []Val
			for i := 0; i < nbytes; i++ {
				bs = append(bs, ex.byteSym(fmt.Sprintf("b%d", i)))
			}
			chunk := ex.mkBytes(st, "chunk", bs, false, 0)
			ex.CallHook = func(ex *Exec, st *State, fr *Frame, call ssa.CallInstruction, callee *ssa.Function, args []Val) ([]callRes, bool) {
				if callee != step {
					return nil, false
				}
				clk, _ := ex.getField(st, rp, "ts_ms")
				ev := Event{Kind: "sim:step", Pos: ex.pos(call)}
				if len(args) >= 2 {
					ev.Args = []Val{args[len(args)-1], clk}
					if pv, isP := args[0].(*PtrV); !isP || pv.Obj != rp.Obj {
						ev.Msg = "step applied to another decoder object"
					}
				}
				st.Events = append(st.Events, ev)
				return []callRes{{st: st}}, true
			}
			var initFields []Val
			if sv, isS := st.heap[rp.Obj].(*StructV); isS {
				initFields = append([]Val{}, sv.Fields...)
			}
			outs := ex.Call(st, em, []Val{rp, chunk, dl}, nil)
			if ex.Budget || len(outs) == 0 {
				ok, why = false, "abstract interpretation of EachMessage did not complete"
				continue
			}
			for u := range ex.Unsupported {
				ok, why = false, "unmodelled construct in EachMessage: "+u
			}
			want := st.Arith(token.ADD, now, dl, "")
			for _, o := range outs {
				nOut++
				if o.Panic || len(problemEvents(o.St.Events)) > 0 {
					ok, why = false, "EachMessage may panic: "+o.Msg+fmtEvents(problemEvents(o.St.Events))
					continue
				}
				var steps []Event
				for _, e := range o.St.Events {
					if e.Kind == "sim:step" {
						steps = append(steps, e)
					} else if strings.HasPrefix(e.Kind, "call:") && !strings.HasPrefix(e.Kind, "call:opaque runtime.") {
						ok, why = false, "EachMessage does something besides the clock update and the per-byte step: "+e.Kind+" (e.g. delivers a message on a fast path) ["+outcomeWitness(o)+"]"
					}
				}
				if len(steps) != nbytes {
					ok, why = false, fmt.Sprintf("a chunk of %d bytes leads to %d applications of the step function [%s]: a byte is skipped or handled outside the step (chunking independence rests on one step per byte)", nbytes, len(steps), outcomeWitness(o))
					continue
				}
				for i, e := range steps {
					if e.Msg != "" {
						ok, why = false, e.Msg
					}
					bv, _ := e.Args[0].(*IntV)
					if bv == nil || !o.St.sameInt(bv, bs[i].(*IntV)) {
						ok, why = false, fmt.Sprintf("step no. %d is applied to %s, expected byte %d of the chunk", i, valString(e.Args[0]), i)
					}
					cv, _ := e.Args[1].(*IntV)
					if cv == nil || !o.St.sameInt(cv, want) {
						ok, why = false, fmt.Sprintf("at step no. %d the clock is %s, expected clock + delta (added once, before the first byte)", i, valString(e.Args[1]))
					}
				}
				fin, _ := ex.getField(o.St, rp, "ts_ms")
				if fv, _ := fin.(*IntV); fv == nil || !o.St.sameInt(fv, want) {
					ok, why = false, "after EachMessage the clock is "+valString(fin)+", expected clock + delta (the delta is added exactly once)"
				}
				// nothing else in the decoder moves (the step is only observed here)
				if sv, isS := o.St.heap[rp.Obj].(*StructV); isS && initFields != nil {
					for i := 0; i < sv.T.NumFields(); i++ {
						if p.isRoleField(sv.T.Field(i), "drivers.Reader", "ts_ms") {
							continue
						}
						if sv.Fields[i] != initFields[i] && !o.St.sameVal(sv.Fields[i], initFields[i]) {
							ok, why = false, "EachMessage itself changes the decoder field "+sv.T.Field(i).Name()+" (state outside the step function)"
						}
					}
				}
			}
		}
		// the step reads no mutable package-level state
		globals := 0
		for _, f := range p.Reachable(step) {
			for _, b := range f.Blocks {
				for _, in := range b.Instrs {
					for _, op := range in.Operands(nil) {
						if g, isG := (*op).(*ssa.Global); isG && g.Pkg != nil && g.Pkg.Pkg.Path() == modPath+"/drivers" && !p.immutableGlobal(g) {
							globals++
						}
					}
				}
			}
		}
		if globals > 0 {
			ok, why = false, fmt.Sprintf("the step function touches mutable package-level state (%d uses): its only inputs must be the decoder and the byte", globals)
		}
		c.Check(ok && nOut > 0, rule, "EachMessage: delta once, step per byte, no other state", p.Pos(em.Pos()), "abstract run on a chunk of three arbitrary bytes and on the empty chunk: clock + delta before the first byte, one step per byte in order, nothing else; the step touches no mutable package-level state", why)
	}
}

func loopbackRule(c *Ctx, rule string) {
	p := c.P
	tout := p.roleT("drivers/testdrv.out")
	rT := p.namedType("drivers", "Reader")
	if tout == nil || rT == nil {
		c.Unk(rule, "testdrv out port", "-", "not found")
		return
	}
	send := p.MethodOf(types.NewPointer(tout), "Send")
	if send == nil {
		c.Unk(rule, "testdrv out.Send", "-", "not found")
		return
	}
	c.Fn(FuncName(send))
	// abstract run of Send: the port open, a listener active (decoder present, not stopped); the elapsed virtual time is
	// the value of (time.Time).Sub, the decoder's EachMessage is observed
	ex := NewExec(p)
	elapsed := mkSym(ex.syms.Get("elapsed", 64, true))
	type feed struct {
		st   *State
		args []Val
	}
	ex.CallHook = func(ex *Exec, st *State, fr *Frame, call ssa.CallInstruction, callee *ssa.Function, args []Val) ([]callRes, bool) {
		switch callee.String() {
		case "(time.Time).Sub":
			return []callRes{{st: st, ret: elapsed}}, true
		}
		if callee.Name() == "EachMessage" && callee.Signature.Recv() != nil && namedOf(callee.Signature.Recv().Type()) == namedOf(rT) {
			st.Events = append(st.Events, Event{Kind: "feed", Args: args})
			return []callRes{{st: st, ret: nil}}, true
		}
		return nil, false
	}
	st := ex.NewState()
	op := ex.newZeroObject(st, tout)
	// fill the port: its open flag true; the driver it points to gets a decoder and is not stopped
	var fill func(obj int, depth int)
	fill = func(obj int, depth int) {
		sv, ok := st.heap[obj].(*StructV)
		if !ok || depth > 2 {
			return
		}
		for i := 0; i < sv.T.NumFields(); i++ {
			ft := sv.T.Field(i).Type()
			switch {
			case ft.String() == "bool" && depth == 0:
				sv.Fields[i] = &BoolV{Known: true, Val: true} // the port's open flag
			case tPtr(tNamed("drivers", "Reader"))(p, ft):
				sv.Fields[i] = ex.newZeroObject(st, rT)
			default:
				if pt, ok := ft.(*types.Pointer); ok && InModuleType(pt.Elem()) && !types.Identical(pt.Elem(), tout) {
					if _, isS := pt.Elem().Underlying().(*types.Struct); isS {
						if cur, _ := sv.Fields[i].(*PtrV); cur == nil || cur.Nil {
							np := ex.newZeroObject(st, pt.Elem())
							sv.Fields[i] = np
							fill(np.Obj, depth+1)
						}
					}
				}
			}
		}
	}
	fill(op.Obj, 0)
	bt := ex.unknownSlice(st, types.Typ[types.Uint8], "bytes", 1)
	ok, why, nfeed := true, "", 0
	for _, o := range ex.Call(st, send, []Val{op, bt}, nil) {
		if o.Panic || len(problemEvents(o.St.Events)) > 0 {
			ok, why = false, "Send may panic with an open port and an active listener: "+o.Msg+fmtEvents(problemEvents(o.St.Events))
			continue
		}
		k := 0
		for _, e := range o.St.Events {
			if e.Kind != "feed" {
				continue
			}
			k++
			nfeed++
			if len(e.Args) != 3 {
				ok, why = false, "unexpected decoder call"
				continue
			}
			got, _ := e.Args[1].(*SliceV)
			if got == nil || got.Obj != bt.Obj || !o.St.sameInt(got.Off, bt.Off) || !o.St.sameInt(got.Len, bt.Len) {
				ok, why = false, "the decoder is not fed the caller's bytes (all of them, unchanged)"
			}
			ms, _ := e.Args[2].(*IntV)
			want := o.St.Convert(o.St.Arith(token.QUO, elapsed, mkConst(1000000, 64, true), ""), 32, true)
			if ms == nil || !o.St.sameInt(ms, want) {
				ok, why = false, fmt.Sprintf("the time handed to the decoder is %s, expected the elapsed virtual time in whole milliseconds %s", valString(e.Args[2]), want)
			}
		}
		if k != 1 {
			ok, why = false, fmt.Sprintf("with the port open and a listener active Send feeds the decoder %d times", k)
		}
	}
	for u := range ex.Unsupported {
		ok, why = false, "unmodelled construct: "+u
	}
	c.Check(ok && nfeed > 0, rule, "loopback Send forwards bytes and elapsed time", p.Pos(send.Pos()), "abstract run of Send (port open, listener active): EachMessage(caller's bytes, int32(elapsed/1ms)) exactly once", why)
}
