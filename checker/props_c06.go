package main

import (
	"fmt"
	"go/token"
	"go/types"

	"golang.org/x/tools/go/ssa"
)

func init() {
	register("C06", checkC06)
	register("C04", checkC04)
}

// listenClosure: the re-typing closure of ListenTo (func([]byte, int32) nested in ListenTo).
func listenClosure(p *Program) (*ssa.Function, *ssa.Function) {
	lt := p.Func("", "ListenTo")
	if lt == nil {
		return nil, nil
	}
	// role: the function handed to the port's Listen as message callback — a closure made in ListenTo itself or in a
	// helper that returns it
	var closureOf func(v ssa.Value, depth int) *ssa.Function
	closureOf = func(v ssa.Value, depth int) *ssa.Function {
		if depth > 3 {
			return nil
		}
		switch x := v.(type) {
		case *ssa.MakeClosure:
			f, _ := x.Fn.(*ssa.Function)
			return f
		case *ssa.ChangeType:
			return closureOf(x.X, depth+1)
		case *ssa.Phi:
			for _, e := range x.Edges {
				if f := closureOf(e, depth+1); f != nil {
					return f
				}
			}
		case *ssa.UnOp:
			if al, ok := x.X.(*ssa.Alloc); ok && x.Op == token.MUL {
				for _, u := range liveRefs(al) {
					if st, ok := u.(*ssa.Store); ok && st.Addr == ssa.Value(al) {
						if f := closureOf(st.Val, depth+1); f != nil {
							return f
						}
					}
				}
			}
		case *ssa.Call:
			if g := x.Common().StaticCallee(); g != nil && InModule(g) {
				for _, r := range allReturns(g) {
					for i := range r.Results {
						if f := closureOf(retVal(r, i), depth+1); f != nil {
							return f
						}
					}
				}
			}
		}
		return nil
	}
	for _, call := range calls(lt) {
		if invokeIs(call, "Listen") && len(call.Common().Args) >= 1 {
			if f := closureOf(call.Common().Args[0], 0); f != nil {
				return lt, f
			}
		}
	}
	for _, af := range lt.AnonFuncs {
		sig := af.Signature
		if sig.Params().Len() == 2 && sig.Params().At(0).Type().String() == "[]byte" {
			return lt, af
		}
	}
	return lt, nil
}

type readerShape struct {
	name string
	mk   func(ex *Exec, st *State) ([]Val, []Val) // reader output bytes, canonical wire bytes expected at the listener
}

func dataTok(ex *Exec, st *State, n string) *IntV {
	s := ex.syms.Get(n, 8, false)
	st.refineSym(s, 0, 127)
	return mkSym(s)
}

func readerShapes() []readerShape {
	var out []readerShape
	for _, k := range []int64{8, 9, 0xA, 0xB, 0xE} {
		k := k
		out = append(out, readerShape{fmt.Sprintf("channel %Xn (2 data bytes)", k), func(ex *Exec, st *State) ([]Val, []Val) {
			s := ex.syms.Get("S", 8, false)
			st.refineSym(s, k<<4, k<<4|15)
			S := mkSym(s)
			d1, d2 := dataTok(ex, st, "d1"), dataTok(ex, st, "d2")
			return []Val{S, d1, d2}, []Val{S, d1, d2}
		}})
	}
	for _, k := range []int64{0xC, 0xD} {
		k := k
		out = append(out, readerShape{fmt.Sprintf("channel %Xn (1 data byte)", k), func(ex *Exec, st *State) ([]Val, []Val) {
			s := ex.syms.Get("S", 8, false)
			st.refineSym(s, k<<4, k<<4|15)
			S := mkSym(s)
			d1 := dataTok(ex, st, "d1")
			return []Val{S, d1, mkConst(0, 8, false)}, []Val{S, d1}
		}})
	}
	k8 := func(v int64) Val { return mkConst(v, 8, false) }
	out = append(out,
		readerShape{"F1 quarter frame", func(ex *Exec, st *State) ([]Val, []Val) {
			d := dataTok(ex, st, "d1")
			return []Val{k8(0xF1), d, k8(0)}, []Val{k8(0xF1), d}
		}},
		readerShape{"F2 song position", func(ex *Exec, st *State) ([]Val, []Val) {
			d1, d2 := dataTok(ex, st, "d1"), dataTok(ex, st, "d2")
			return []Val{k8(0xF2), d1, d2}, []Val{k8(0xF2), d1, d2}
		}},
		readerShape{"F3 song select", func(ex *Exec, st *State) ([]Val, []Val) {
			d := dataTok(ex, st, "d1")
			return []Val{k8(0xF3), d, k8(0)}, []Val{k8(0xF3), d}
		}},
		readerShape{"F6 tune request", func(ex *Exec, st *State) ([]Val, []Val) {
			return []Val{k8(0xF6), k8(0), k8(0)}, []Val{k8(0xF6)}
		}},
	)
	for _, b := range []int64{0xF8, 0xF9, 0xFA, 0xFB, 0xFC, 0xFE, 0xFF} {
		b := b
		out = append(out, readerShape{fmt.Sprintf("real-time %02X", b), func(ex *Exec, st *State) ([]Val, []Val) {
			return []Val{k8(b)}, []Val{k8(b)}
		}})
	}
	return out
}

// retypingRule (C04.5 / C06.4b): the message handed to the user equals the canonical wire bytes of the decoded message
// and the user callback is never invoked with an empty message.
func retypingRule(c *Ctx, ruleIdent, ruleNonEmpty string) {
	p := c.P
	lt, cl := listenClosure(p)
	if lt == nil || cl == nil {
		c.Unk(ruleIdent, "re-typing closure of ListenTo", "-", "not found")
		return
	}
	c.Fn(FuncName(cl))
	firstFresh := 0 // objects allocated by the closure itself have larger ids than this (set by call)
	call := func(ex *Exec, st *State, data *SliceV, isStatusSet bool) []callRes {
		var binds []Val
		for _, fv := range cl.FreeVars {
			et := fv.Type()
			isPtr := false
			if pt, ok := et.(*types.Pointer); ok {
				et = pt.Elem()
				isPtr = true
			}
			// captured state by type: the receiver callback, the "status seen" flag, everything else unknown; a captured
			// struct (the callback may be a method value of a small dispatcher object) is filled in the same way
			var mkBind func(t types.Type, name string, depth int) Val
			mkBind = func(t types.Type, name string, depth int) Val {
				if t.String() == "bool" {
					return &BoolV{Known: true, Val: isStatusSet}
				}
				if _, isSig := t.Underlying().(*types.Signature); isSig {
					return &FuncV{Ext: "recv"}
				}
				if stt, ok := t.Underlying().(*types.Struct); ok && depth < 2 && InModuleType(t) {
					sv := ex.zeroOf(t).(*StructV)
					for i := 0; i < stt.NumFields(); i++ {
						sv.Fields[i] = mkBind(stt.Field(i).Type(), name+"."+stt.Field(i).Name(), depth+1)
					}
					return sv
				}
				if pt, ok := t.(*types.Pointer); ok && depth < 2 {
					if _, ok := pt.Elem().Underlying().(*types.Struct); ok && InModuleType(pt.Elem()) {
						id := ex.newObj(st, mkBind(pt.Elem(), name, depth+1), pt.Elem())
						return &PtrV{Obj: id}
					}
				}
				return ex.topArg(st, t, name)
			}
			v := mkBind(et, fv.Name(), 0)
			if isPtr {
				id := ex.newObj(st, v, et)
				binds = append(binds, &PtrV{Obj: id})
			} else {
				binds = append(binds, v)
			}
		}
		fr := &Frame{fn: cl, regs: map[ssa.Value]Val{}, visits: map[*ssa.BasicBlock]int{}, widened: map[*ssa.BasicBlock]bool{}, phiHist: map[*ssa.Phi]Val{}, kept: map[*ssa.Phi]keptInv{}}
		firstFresh = ex.nextObj
		return ex.callValue(fr, st, &FuncV{Fn: cl, Bindings: binds}, []Val{data, mkSym(ex.syms.Get("ms", 32, true))}, nil, nil)
	}
	for _, sh := range readerShapes() {
		ex := NewExec(p)
		st := ex.NewState()
		in, want := sh.mk(ex, st)
		data := ex.mkBytes(st, "data", in, false, 0)
		ok := true
		why := ""
		n := 1
		for _, r := range call(ex, st, data, false) {
			if r.panic {
				ok = false
				why = "panic: " + r.msg
				continue
			}
			if pe := problemEvents(r.st.Events); len(pe) > 0 {
				ok = false
				why = fmtEvents(pe)
				continue
			}
			// every outcome (whatever the captured configuration holds) delivers the message exactly once
			k := 0
			for _, e := range r.st.Events {
				if e.Kind != "call:recv" {
					continue
				}
				k++
				msg, _ := e.Args[0].(*SliceV)
				elems, okE := ex.sliceElems(r.st, msg)
				if !okE || !segsEqual([]Seg{{Elems: elems}}, []Seg{{Elems: want}}, r.st.sameVal) {
					ok = false
					why = fmt.Sprintf("listener receives %s, the wire message was %s", arrayStringIn(r.st, &ArrayV{Segs: []Seg{{Elems: elems}}}), arrayStringIn(r.st, &ArrayV{Segs: []Seg{{Elems: want}}}))
				} else if len(msg.Path) > 0 || ex.isGlobalObj(msg.Obj) || (msg.Obj != data.Obj && !ex.allocatedSince(firstFresh, msg.Obj)) {
					// the receiver may keep the message: it must not share storage with the decoder's slice or with
					// anything that outlives the call (a buffer captured by the closure is rewritten by the next message)
					ok = false
					why = "the message handed to the listener shares storage that outlives the callback (the decoder's slice or a captured buffer): a retained message is overwritten by a later one"
				}
			}
			if k != 1 {
				n = k
				if why == "" {
					why = "on some path (depending on captured configuration or state) the decoder's message is not handed to the listener exactly once"
				}
			}
		}
		if ruleIdent == "" {
			continue
		}
		c.Check(ok && n == 1, ruleIdent, "re-typing of "+sh.name, p.Pos(cl.Pos()), "the listener receives exactly the canonical wire bytes (symbolic channel/data)", fmt.Sprintf("%s (deliveries: %d)", why, n))
	}
	// sysex: same bytes
	if ruleIdent != "" {
		ex := NewExec(p)
		st := ex.NewState()
		data := ex.mkBytes(st, "sx", []Val{mkConst(0xF0, 8, false)}, true, 1)
		ok := true
		n := 0
		for _, r := range call(ex, st, data, false) {
			for _, e := range r.st.Events {
				if e.Kind == "call:recv" {
					n++
					msg, _ := e.Args[0].(*SliceV)
					if msg == nil || msg.Obj != data.Obj || !r.st.sameInt(msg.Len, data.Len) {
						ok = false
					}
				}
			}
		}
		c.Check(ok && n == 1, ruleIdent, "re-typing of sysex", p.Pos(cl.Pos()), "the assembled sysex bytes are handed on unchanged", "sysex altered by the listener stage")
	}
	// never an empty message: every first byte the decoder can or cannot deliver
	if ruleNonEmpty != "" {
		bad := ""
		for b0 := 0x80; b0 < 256 && bad == ""; b0++ { // first bytes the decoder can deliver (C06.4: always a status byte)
			for _, set := range []bool{false, true} {
				ex := NewExec(p)
				st := ex.NewState()
				data := ex.mkBytes(st, "data", []Val{mkConst(int64(b0), 8, false), ex.byteSym("x1"), ex.byteSym("x2")}, false, 0)
				for _, r := range call(ex, st, data, set) {
					if r.panic {
						bad = fmt.Sprintf("first byte %02X: panic %s", b0, r.msg)
						continue
					}
					for _, e := range r.st.Events {
						if e.Kind != "call:recv" {
							continue
						}
						msg, _ := e.Args[0].(*SliceV)
						if msg == nil || msg.Nil || isZeroLen(r.st, msg) {
							bad = fmt.Sprintf("a decoder output starting with %02X makes ListenTo call the user with an empty message", b0)
						} else if lo, _ := r.st.Range(msg.Len); lo < 1 {
							bad = fmt.Sprintf("first byte %02X: possibly empty message handed to the user", b0)
						}
					}
				}
			}
		}
		c.Check(bad == "", ruleNonEmpty, "the user callback never receives an empty message", p.Pos(cl.Pos()), "128 status first bytes x running-status flag: every invocation of the user callback carries at least one byte", bad)
	}
}

func checkC06(c *Ctx) {
	c.Level = "model_checking"
	c.Explain = "C06 decided by a one-step simulation between the live decoder and the MIDI 1.0 receiver model: for each of the reference receiver's states (running status none / 7 channel kinds x pending message: none, channel with 0/1 data bytes, F1/F2/F3 with 0/1 data bytes, sysex with room >= 2 / room = 1 / full, ignoring) and each input class (data, 7 channel status kinds, F0..F7 and F8..FF singly) and both values of the sysex option, the decoder's step function is interpreted abstractly (symbolic channel nibble, data tokens, buffer size N, fill level, clocks) from the corresponding decoder state; delivered messages, time stamps and the successor state must equal the reference transition. With the initial state corresponding, induction over the byte stream gives equality on ALL byte streams and chunkings (the step's only inputs are the decoder object and the byte). The same runs give panic freedom (every index into the sysex buffer proven below its symbolic length) and well-formedness of every delivery; the ListenTo stage is interpreted for all 256 first bytes."
	c.Trusted = []string{"go/ssa", "E-abs transfer functions", "the reference receiver model refTransition() in props_live.go (written from MIDI 1.0, DESIGN appendix A.1)", "sysex content is tracked in step with the buffer (length, time stamp), not element-wise"}
	c.Rule("C06.1", "no panic: in every (receiver state, input class, sysex option) cell the step has no reachable panic and every buffer index is proven in range for symbolic buffer size", 20)
	c.Rule("C06.3", "receiver model: delivered messages, their time stamps and the successor state equal the MIDI 1.0 receiver transition in every cell (status abandons an incomplete message; data without status ignored; F4/F5/FD skipped; stray F7 delivers nothing; oversized sysex dropped)", 20)
	c.Rule("C06.4", "well-formed outputs: every delivered message is non-empty, starts with a status byte and carries only data bytes; the user callback never receives an empty message", 21)
	c.Rule("C06.5", "initial state and chunking: the constructor's state corresponds to the receiver's initial state; EachMessage adds the delta once and applies the step to each byte in order", 2)
	liveSimulation(c, "C06.3", "C06.1", "C06.4", false)
	retypingRule(c, "C06.4", "C06.4")
	initialAndChunking(c, "C06.5")
	c.Rule("C06.6", "the buffer size and sysex options given to ListenTo reach the decoder unchanged, whatever the order of the options (= C14.1): the size decides which sysex messages are dropped as oversized", 4)
	c.include(checkC14, map[string]string{"C14.1": "C06.6"})
}

func checkC04(c *Ctx) {
	c.Level = "model_checking"
	c.Explain = "C04 decided by the same one-step simulation as C06 (the well-formed input language is a subset of all byte streams): in every reference state x input class cell the decoder delivers exactly the receiver model's messages, complete and with explicit status, with the clock of the completing chunk (sysex: the clock captured at its first byte); real-time bytes deliver and change nothing, so interleaving is transparent; chunking independence is structural (EachMessage adds the delta once, then applies the step byte by byte; the step reads only the decoder and the byte). The listener stage is the identity on every decoder output shape (symbolic channel/data; song position through pack/unpack), and the loopback driver forwards the caller's bytes and the elapsed virtual time unchanged."
	c.Trusted = []string{"go/ssa", "E-abs", "reference receiver model (props_live.go)", "sysex content in step, not element-wise"}
	c.Rule("C04.1", "chunking independence: EachMessage adds the delta to the clock exactly once and applies the step to each byte in order; the step's only inputs are the decoder and the byte", 2)
	c.Rule("C04.4", "decoder = receiver model in every (state, input class, sysex option) cell: same messages, complete, explicit status, time stamp of the completing chunk (sysex: captured at F0)", 20)
	c.Rule("C04.5", "re-typing is the identity: the message handed to the user equals the canonical wire bytes for every decoder output shape", 17)
	c.Rule("C04.6", "loopback is a pipe: the test driver's Send hands the caller's bytes and the elapsed virtual milliseconds to the decoder unchanged", 1)
	initialAndChunking(c, "C04.1")
	liveSimulation(c, "C04.4", "", "", true)
	retypingRule(c, "C04.5", "")
	loopbackRule(c, "C04.6")
	c.Rule("C04.7", "the loopback port decodes with a decoder built from the options and callback of the current Listen (= C17.4): a reused decoder would apply an earlier listener's buffer size / sysex option to this stream", 6)
	c.include(checkC17, map[string]string{"C17.4": "C04.7"})
	c.Rule("C04.8", "the buffer size and sysex options given to ListenTo reach the decoder unchanged, whatever the order of the options (= C14.1): a sysex message that fits the configured buffer is decoded, not dropped against a default size", 4)
	c.include(checkC14, map[string]string{"C14.1": "C04.8"})
}

// initialAndChunking: NewReader's state = initial receiver state; EachMessage structure.
func initialAndChunking(c *Ctx, rule string) {
	p := c.P
	em, step := findLiveStep(p)
	nr := p.Func("drivers", "NewReader")
	if em == nil || step == nil || nr == nil {
		c.Unk(rule, "EachMessage / step / NewReader", "-", "not resolved")
		return
	}
	// initial state
	{
		ex := NewExec(p)
		st := ex.NewState()
		confT := p.namedType("drivers", "ListenConfig")
		conf := ex.topOf(st, confT, "conf")
		ok := true
		why := ""
		n := 0
		for _, o := range ex.Call(st, nr, []Val{conf, &FuncV{Ext: "OnMsg"}}, nil) {
			n++
			if o.Panic {
				ok = false
				why = o.Msg
				continue
			}
			rp, _ := o.Ret[0].(*PtrV)
			chkI := func(f string, want int64) {
				v, _ := ex.getField(o.St, rp, f)
				iv, _ := v.(*IntV)
				if iv == nil || !o.St.sameInt(iv, mkConst(want, iv.W, iv.Signed)) {
					ok = false
					why = fmt.Sprintf("initial %s = %s, must be %d", f, valString(v), want)
				}
			}
			chkI("state", 0)
			chkI("statusByte", 0)
			chkI("ts_ms", 0)
			v, _ := ex.getField(o.St, rp, "issetBf")
			if bv, _ := v.(*BoolV); bv == nil {
				ok = false
			} else if b, k := o.St.boolOf(bv); !k || b {
				ok = false
				why = "initial first-data-byte flag set"
			}
			bs, _ := ex.getField(o.St, rp, "SysExBufferSize")
			if bi, _ := bs.(*IntV); bi != nil {
				if lo, _ := o.St.Range(bi); lo < 1 {
					ok = false
					why = "a decoder with a zero-byte sysex buffer can be constructed (index 0 would be out of range)"
				}
			}
		}
		c.Check(ok && n > 0, rule, "constructor state = initial receiver state", p.Pos(nr.Pos()), "clean state, no running status, clock 0, buffer size >= 1", why)
	}
	// EachMessage: one add of the delta to the clock before the loop; step called once per iteration with (receiver, element)
	{
		okAdd := 0
		for _, f := range p.Reachable(em) {
			if f == step {
				continue
			}
			reach := false
			for _, g := range p.Reachable(f) {
				if g == step {
					reach = true
				}
			}
			if reach && f != em {
				continue
			}
			for _, b := range f.Blocks {
				for _, in := range b.Instrs {
					if st, ok := in.(*ssa.Store); ok {
						if fv := fieldVar(st.Addr); p.isRoleField(fv, "drivers.Reader", "ts_ms") {
							if add, ok := st.Val.(*ssa.BinOp); ok && add.Op.String() == "+" {
								okAdd++
							}
						}
					}
				}
			}
		}
		nCalls, inLoop := 0, false
		for _, call := range calls(em) {
			if call.Common().StaticCallee() == step {
				nCalls++
				for _, l := range naturalLoops(em) {
					if l.Body[call.Block()] && classifyLoop(em, l, nil) != "" {
						inLoop = true
					}
				}
				// second argument: the ranged element
			}
		}
		// the step reads no package-level state
		globals := 0
		for _, f := range p.Reachable(step) {
			for _, b := range f.Blocks {
				for _, in := range b.Instrs {
					for _, op := range in.Operands(nil) {
						if g, ok := (*op).(*ssa.Global); ok && g.Pkg != nil && g.Pkg.Pkg.Path() == modPath+"/drivers" && !p.immutableGlobal(g) {
							globals++
						}
					}
				}
			}
		}
		// the clock after EachMessage(empty chunk, delta) is clock + delta (abstract interpretation; catches a second update)
		{
			rT := p.namedType("drivers", "Reader")
			ex := NewExec(p)
			st := ex.NewState()
			rp := ex.newZeroObject(st, rT)
			now := mkSym(ex.syms.Get("now", 32, true))
			st.refineSym(now.T.Syms[0], 0, 1<<29)
			dl := mkSym(ex.syms.Get("delta", 32, true))
			st.refineSym(dl.T.Syms[0], 0, 1<<29)
			ex.setField(st, rp, "ts_ms", now)
			empty := ex.mkBytes(st, "chunk", nil, false, 0)
			for _, o := range ex.Call(st, em, []Val{rp, empty, dl}, nil) {
				v, _ := ex.getField(o.St, rp, "ts_ms")
				iv, _ := v.(*IntV)
				if o.Panic || iv == nil || !o.St.sameInt(iv, o.St.Arith(token.ADD, now, dl, "")) {
					okAdd = -1
				}
			}
		}
		// EachMessage itself is nothing but: clock update; for each byte: step. Any other effect or any branch that is not
		// the loop condition (a "fast path") would bypass the simulated step function.
		extra := ""
		nIf := 0
		for _, b := range em.Blocks {
			for _, in := range b.Instrs {
				switch x := in.(type) {
				case *ssa.If:
					nIf++
				case *ssa.Store:
					if _, local := x.Addr.(*ssa.Alloc); !local {
						if fv := fieldVar(x.Addr); !p.isRoleField(fv, "drivers.Reader", "ts_ms") {
							extra = "EachMessage stores to decoder state outside the step function"
						}
					}
				case *ssa.Go, *ssa.Defer, *ssa.MakeClosure, *ssa.Send:
					extra = "EachMessage starts goroutines / closures"
				case *ssa.Call:
					cal := x.Common().StaticCallee()
					if _, isB := x.Common().Value.(*ssa.Builtin); isB {
						continue
					}
					if cal == step {
						continue
					}
					if cal != nil && InModule(cal) {
						// allowed: a helper whose only effect is the clock update
						onlyClock := true
						for _, g := range p.Reachable(cal) {
							for _, gb := range g.Blocks {
								for _, gi := range gb.Instrs {
									switch y := gi.(type) {
									case *ssa.Store:
										if _, local := y.Addr.(*ssa.Alloc); !local {
											if fv := fieldVar(y.Addr); !p.isRoleField(fv, "drivers.Reader", "ts_ms") {
												onlyClock = false
											}
										}
									case *ssa.Call:
										if _, isB := y.Common().Value.(*ssa.Builtin); !isB && y.Common().StaticCallee() == nil {
											onlyClock = false
										}
									}
								}
							}
						}
						if onlyClock {
							continue
						}
					}
					extra = "EachMessage calls something other than the clock update and the step function (e.g. delivers a message on a fast path): " + callName(x)
				}
			}
		}
		if nIf > len(naturalLoops(em)) {
			extra = fmt.Sprintf("EachMessage has %d branches but only %d loops: a special case outside the byte-wise step breaks chunking independence", nIf, len(naturalLoops(em)))
		}
		if extra != "" {
			okAdd = -2
		}
		c.Check(okAdd == 1 && nCalls == 1 && inLoop && globals == 0, rule, "EachMessage: delta once, step per byte, no other state", p.Pos(em.Pos()), "one clock update, one step call inside a counted range loop over the chunk, the step touches no package-level state", fmt.Sprintf("clock updates=%d step calls=%d inside counted loop=%v package-level state touched=%d %s", okAdd, nCalls, inLoop, globals, extra))
	}
}

func loopbackRule(c *Ctx, rule string) {
	p := c.P
	tout := p.roleT("drivers/testdrv.out")
	rT := p.namedType("drivers", "Reader")
	if tout == nil || rT == nil {
		c.Unk(rule, "testdrv out port", "-", "not found")
		return
	}
	send := p.MethodOf(types.NewPointer(tout), "Send")
	if send == nil {
		c.Unk(rule, "testdrv out.Send", "-", "not found")
		return
	}
	c.Fn(FuncName(send))
	// abstract run of Send: the port open, a listener active (decoder present, not stopped); the elapsed virtual time is
	// the value of (time.Time).Sub, the decoder's EachMessage is observed
	ex := NewExec(p)
	elapsed := mkSym(ex.syms.Get("elapsed", 64, true))
	type feed struct {
		st   *State
		args []Val
	}
	ex.CallHook = func(ex *Exec, st *State, fr *Frame, call ssa.CallInstruction, callee *ssa.Function, args []Val) ([]callRes, bool) {
		switch callee.String() {
		case "(time.Time).Sub":
			return []callRes{{st: st, ret: elapsed}}, true
		}
		if callee.Name() == "EachMessage" && callee.Signature.Recv() != nil && namedOf(callee.Signature.Recv().Type()) == namedOf(rT) {
			st.Events = append(st.Events, Event{Kind: "feed", Args: args})
			return []callRes{{st: st, ret: nil}}, true
		}
		return nil, false
	}
	st := ex.NewState()
	op := ex.newZeroObject(st, tout)
	// fill the port: its open flag true; the driver it points to gets a decoder and is not stopped
	var fill func(obj int, depth int)
	fill = func(obj int, depth int) {
		sv, ok := st.heap[obj].(*StructV)
		if !ok || depth > 2 {
			return
		}
		for i := 0; i < sv.T.NumFields(); i++ {
			ft := sv.T.Field(i).Type()
			switch {
			case ft.String() == "bool" && depth == 0:
				sv.Fields[i] = &BoolV{Known: true, Val: true} // the port's open flag
			case tPtr(tNamed("drivers", "Reader"))(p, ft):
				sv.Fields[i] = ex.newZeroObject(st, rT)
			default:
				if pt, ok := ft.(*types.Pointer); ok && InModuleType(pt.Elem()) && !types.Identical(pt.Elem(), tout) {
					if _, isS := pt.Elem().Underlying().(*types.Struct); isS {
						if cur, _ := sv.Fields[i].(*PtrV); cur == nil || cur.Nil {
							np := ex.newZeroObject(st, pt.Elem())
							sv.Fields[i] = np
							fill(np.Obj, depth+1)
						}
					}
				}
			}
		}
	}
	fill(op.Obj, 0)
	bt := ex.unknownSlice(st, types.Typ[types.Uint8], "bytes", 1)
	ok, why, nfeed := true, "", 0
	for _, o := range ex.Call(st, send, []Val{op, bt}, nil) {
		if o.Panic || len(problemEvents(o.St.Events)) > 0 {
			ok, why = false, "Send may panic with an open port and an active listener: "+o.Msg+fmtEvents(problemEvents(o.St.Events))
			continue
		}
		k := 0
		for _, e := range o.St.Events {
			if e.Kind != "feed" {
				continue
			}
			k++
			nfeed++
			if len(e.Args) != 3 {
				ok, why = false, "unexpected decoder call"
				continue
			}
			got, _ := e.Args[1].(*SliceV)
			if got == nil || got.Obj != bt.Obj || !o.St.sameInt(got.Off, bt.Off) || !o.St.sameInt(got.Len, bt.Len) {
				ok, why = false, "the decoder is not fed the caller's bytes (all of them, unchanged)"
			}
			ms, _ := e.Args[2].(*IntV)
			want := o.St.Convert(o.St.Arith(token.QUO, elapsed, mkConst(1000000, 64, true), ""), 32, true)
			if ms == nil || !o.St.sameInt(ms, want) {
				ok, why = false, fmt.Sprintf("the time handed to the decoder is %s, expected the elapsed virtual time in whole milliseconds %s", valString(e.Args[2]), want)
			}
		}
		if k != 1 {
			ok, why = false, fmt.Sprintf("with the port open and a listener active Send feeds the decoder %d times", k)
		}
	}
	for u := range ex.Unsupported {
		ok, why = false, "unmodelled construct: "+u
	}
	c.Check(ok && nfeed > 0, rule, "loopback Send forwards bytes and elapsed time", p.Pos(send.Pos()), "abstract run of Send (port open, listener active): EachMessage(caller's bytes, int32(elapsed/1ms)) exactly once", why)
}
