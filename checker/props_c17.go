package main

import (
	"fmt"
	"go/token"
	"go/types"
	"sort"
	"strings"

	"golang.org/x/tools/go/ssa"
)

func init() { register("C17", checkC17) }

// guarded-by table (frozen after reading the code; DESIGN §4 C17.2): type -> field -> mutex field of the same struct
var guardedBy = map[string]map[string]string{
	"in":     {"hasProc": "RWMutex", "listener": "RWMutex"},
	"out":    {"cmd": "RWMutex", "wr": "RWMutex", "rd": "RWMutex"},
	"Driver": {"opened": "RWMutex"},
}

func pkgFuncsWithClosures(sp *ssa.Package, p *Program) []*ssa.Function {
	var out []*ssa.Function
	for f := range p.All {
		if f.Blocks == nil || f.Synthetic != "" {
			continue
		}
		root := f
		for root.Parent() != nil {
			root = root.Parent()
		}
		if root.Pkg == sp {
			out = append(out, f)
		}
	}
	sort.Slice(out, func(i, j int) bool { return out[i].String() < out[j].String() })
	return out
}

func lockRules(c *Ctx, p *Program, label string) {
	sp := p.Pkg("drivers/midicatdrv")
	if sp == nil {
		c.Unk("C17.1", "package midicatdrv ("+label+")", "-", "not loaded")
		return
	}
	fns := pkgFuncsWithClosures(sp, p)
	la := NewLockAnalysis(p, fns)
	nlock := 0
	for _, fn := range fns {
		hasLock := false
		for _, call := range calls(fn) {
			if _, ok := mutexOp(call); ok {
				hasLock = true
			}
			if cal := call.Common().StaticCallee(); cal != nil && la.acquires[cal] != nil {
				hasLock = true
			}
		}
		findings := la.Run(fn)
		if !hasLock {
			continue
		}
		nlock++
		c.Fn(FuncName(fn) + " [" + label + "]")
		if len(findings) == 0 {
			c.OK("C17.1", "lock pairing in "+FuncName(fn)+" ["+label+"]", p.Pos(fn.Pos()), "on all paths: no acquire of a held mutex, no release without hold, no exit while held (defer counted), no call that re-acquires a held lock")
		}
		for _, f := range findings {
			c.Bad("C17.1", fmt.Sprintf("%s %s in %s [%s]", f.kind, f.key, FuncName(fn), label), p.Pos(f.pos), f.msg)
		}
	}
	c.Extra["functions_with_locks_"+label] = nlock
	// guarded-by
	for _, fn := range fns {
		// constructors: functions that return a freshly allocated value of the guarded type (before publication)
		seq := map[string]int{}
		for _, b := range fn.Blocks {
			for _, in := range b.Instrs {
				var fa *ssa.FieldAddr
				write := false
				switch x := in.(type) {
				case *ssa.Store:
					fa, _ = x.Addr.(*ssa.FieldAddr)
					write = true
				case *ssa.UnOp:
					if x.Op == token.MUL {
						fa, _ = x.X.(*ssa.FieldAddr)
					}
				}
				if fa == nil {
					continue
				}
				_, base, _ := fieldOf(fa)
				fname := p.logicalFieldName(fieldVar(fa))
				tname := p.logicalTypeName(base.Type())
				// constructor: the object is allocated in this function (not yet published)
				_, isCtor := base.(*ssa.Alloc)
				mu, guarded := guardedBy[tname][fname]
				if !guarded && write && namedTypePkg(base.Type()) == sp.Pkg.Path() && len(guardedBy[tname]) > 0 {
					// a field outside the table (e.g. a scratch buffer added later): whatever it is, storing to it while the
					// object's lock is held for READING only is a race between the readers themselves
					if _, isCtor := base.(*ssa.Alloc); !isCtor {
						for _, m := range guardedBy[tname] {
							lk := accessPath(base) + "." + m
							if st := la.stateAt(fn, in); st.held[lk] == 1 {
								c.Bad("C17.2", fmt.Sprintf("write of %s.%s in %s [%s] under the read lock", tname, fname, FuncName(fn), label), p.Pos(in.Pos()), fmt.Sprintf("%s.%s is stored to while %s is held for reading only: concurrent holders of the read lock (e.g. two Sends) race on it", tname, fname, lk))
							}
							break
						}
					}
				}
				if !guarded || namedTypePkg(base.Type()) != sp.Pkg.Path() {
					continue
				}
				kind := "read"
				if write {
					kind = "write"
				}
				base0 := fmt.Sprintf("%s of %s.%s in %s [%s]", kind, tname, fname, FuncName(fn), label)
				seq[base0]++
				key := fmt.Sprintf("%s #%d", base0, seq[base0])
				if isCtor {
					c.OK("C17.2", key, p.Pos(in.Pos()), "constructor: before publication")
					continue
				}
				st := la.stateAt(fn, in)
				lk := accessPath(base) + "." + mu
				h := st.held[lk]
				need := 1
				if write {
					need = 2
				}
				c.Check(h >= need, "C17.2", key, p.Pos(in.Pos()), fmt.Sprintf("%s held (%s)", lk, map[int]string{1: "read", 2: "write"}[h]), fmt.Sprintf("%s of %s.%s without holding %s in the required mode (lock state %s): data race with the port's goroutines", kind, tname, fname, lk, st))
			}
		}
	}
}

func checkC17(c *Ctx) {
	p := c.P
	c.Level = "other"
	c.Explain = "C17 (lifecycle histories and schedules) is decided on the lock, typestate and sibling structure every history relies on, not by enumerating histories: all-paths lock state of every function and goroutine closure of the process-backed driver (no re-acquire of a held mutex — the source of 'Open blocks forever', no release without hold, no exit while held, no call that re-acquires); a frozen guarded-by table for the fields shared with the driver's goroutines; stop acknowledged only after the listener is cleared under the write lock, listener invoked only under the read lock, stop returns only after the acknowledgement; in-memory driver: everything the stop closure writes is re-initialised by Listen, pointer fields the constructor leaves nil are dereferenced only under a nil test, Send consults the stop flag; all Port implementations: Open/Close are no-ops in the target state, Send is guarded by the open test returning ErrPortClosed. Not decided: exactly-once/in-order delivery across goroutines, races outside the table, liveness — that Close / stop return at all (e.g. a Close that waits for the helper process while nobody drains its output pipe any more), the busy-wait loop."
	c.Trusted = []string{"go/ssa", "sync.(RW)Mutex semantics (non-reentrant)", "frozen guarded-by table in props_c17.go"}
	c.Rule("C17.1", "lock pairing on all paths in every function and goroutine closure of the process-backed driver (linux and windows file sets)", 8)
	c.Rule("C17.2", "guarded-by: hasProc/listener (in), cmd/wr/rd (out), opened (Driver) are read with the owner's mutex held and written with it write-held", 15)
	c.Rule("C17.3", "stop is acknowledged after the listener is cleared under the write lock; the listener is invoked only under the read lock; the stop function returns only after the acknowledgement; when the helper process cannot be started, every state field the start routine had set is reset before it returns the error (otherwise Close waits for goroutines that were never started)", 5)
	c.Rule("C17.6", "the process-backed in port delivers what the helper writes: its reader goroutine hands every line to the line decoder, whose read discipline and size limits are C19.3 / C19.6 (one-byte reads with checked count, one record per call, no line-length limit below a 2000-byte message)", 4)
	c.include(checkC19, map[string]string{"C19.3": "C17.6", "C19.6": "C17.6"})
	c.Rule("C17.7", "the sending wrapper (midi.SendTo) keeps no verdict of its own: the function it returns is called three times in a row on an arbitrary port, whatever the port's Send returned before; every call hands its message to the port exactly once (\"sending on a closed port reports the error\" and \"sent while open reaches the listener\" are the port's decisions at the time of each call)", 1)
	sendToRule(c, "C17.7", 3)
	c.Rule("C17.4", "in-memory driver: three lifecycle histories (Open/Listen/Send/stop/Close in different orders, incl. Send on an open port before any Listen and Listen again after stop) are interpreted from the real constructor and every Send is compared with the lifecycle model — closed: ErrPortClosed; open with an active listener: the decoder built by THAT Listen is fed exactly once; otherwise dropped, no panic; the decoder is fed outside the driver's locks; a dominating nil test of a late-initialised pointer is recorded where present", 3)
	c.Rule("C17.5", "siblings: every Port implementation's Open (Close) returns nil without effects when already open (closed); every Out.Send reaches the transport only through the open test whose failing edge returns ErrPortClosed", 10)

	lockRules(c, p, "linux")
	if pw, err := Load(p.RepoDir, "windows", []string{"drivers/midicatdrv"}); err != nil {
		c.Unk("C17.1", "windows file set of midicatdrv", "-", "cannot load with GOOS=windows: "+err.Error())
	} else {
		// only the functions that differ (exec_windows.go) matter, but the whole package is cheap
		sub := NewCtx(c.Prop, c.Tier, pw)
		sub.Rules = c.Rules
		sub.ruleOrder = c.ruleOrder
		lockRules(sub, pw, "windows")
		c.Obls = append(c.Obls, sub.Obls...)
		for k := range sub.Analysed {
			c.Analysed[k] = true
		}
	}

	// ---------------- C17.3
	inT := p.roleT("drivers/midicatdrv.in")
	if inT == nil {
		c.Unk("C17.3", "midicatdrv in port", "-", "not found")
	} else {
		sp := p.Pkg("drivers/midicatdrv")
		fns := pkgFuncsWithClosures(sp, p)
		la := NewLockAnalysis(p, fns)
		for _, f := range fns {
			la.Run(f)
		}
		// (a) store nil -> listener under W, followed by a channel send (the acknowledgement)
		okAck, whyAck := false, "no goroutine clears the listener and then acknowledges"
		for _, fn := range fns {
			for _, b := range fn.Blocks {
				for _, in := range b.Instrs {
					st, ok := in.(*ssa.Store)
					if !ok || !isNilConst(st.Val) {
						continue
					}
					if !p.isRoleField(fieldVar(st.Addr), "drivers/midicatdrv.in", "listener") {
						continue
					}
					held := la.stateAt(fn, st)
					w := false
					for _, m := range held.held {
						if m == 2 {
							w = true
						}
					}
					// a Send dominated by this store
					for _, b2 := range fn.Blocks {
						for _, in2 := range b2.Instrs {
							if snd, ok := in2.(*ssa.Send); ok && instrDominates(st, snd) {
								// no other send between: the first send after the store is the ack
								if w {
									okAck = true
								} else {
									whyAck = "listener cleared without the write lock"
								}
								// every Send on that channel in the function must be dominated by a listener clear
								for _, b3 := range fn.Blocks {
									for _, in3 := range b3.Instrs {
										if s3, ok := in3.(*ssa.Send); ok && s3.Chan == snd.Chan && !instrDominates(st, s3) {
											okAck = false
											whyAck = "the stop acknowledgement can be sent on a path that did not clear the listener"
										}
									}
								}
							}
						}
					}
				}
			}
		}
		c.Check(okAck, "C17.3", "acknowledge stop only after clearing the listener", "-", "the send on the acknowledge channel is dominated by the store of nil to the listener inside a write-locked region", whyAck)
		// (b) listener invoked only under the read lock
		okInv, nInv := true, 0
		for _, fn := range fns {
			for _, call := range calls(fn) {
				l, ok := call.Common().Value.(*ssa.UnOp)
				if !ok || l.Op != token.MUL {
					continue
				}
				if !p.isRoleField(fieldVar(l.X), "drivers/midicatdrv.in", "listener") {
					continue
				}
				nInv++
				if held := la.stateAt(fn, call.(ssa.Instruction)); len(held.held) == 0 {
					okInv = false
				}
			}
		}
		c.Check(okInv && nInv > 0, "C17.3", "listener invoked only inside a locked region", "-", fmt.Sprintf("%d invocation sites, all under the port's lock (so a stop that has been acknowledged excludes a running callback)", nInv), "the listener is called without holding the port's lock: it may run after stop returned")
		// (c) stop function: after the request is sent, every return is preceded by the receive of the acknowledgement
		listen := p.MethodOf(types.NewPointer(inT), "Listen")
		okStop, whyStop := false, "stop closure not found"
		if listen != nil {
			for _, sf := range stopFunctions(p, listen) {
				for _, af := range p.Reachable(sf) {
					if !InModule(af) {
						continue
					}
					var snd *ssa.Send
					var rcv *ssa.UnOp
					for _, b := range af.Blocks {
						for _, in := range b.Instrs {
							if s, ok := in.(*ssa.Send); ok {
								snd = s
							}
							if u, ok := in.(*ssa.UnOp); ok && u.Op == token.ARROW {
								rcv = u
							}
						}
					}
					if snd == nil {
						continue
					}
					okStop = rcv != nil && instrDominates(snd, rcv)
					whyStop = "the stop function does not wait for the acknowledgement after requesting the stop"
					if okStop {
						for _, r := range allReturns(af) {
							if canReachAvoiding(snd, r, map[ssa.Instruction]bool{rcv: true}) {
								okStop = false
							}
						}
					}
				}
			}
		}
		c.Check(okStop, "C17.3", "stop returns only after the acknowledgement", "-", "send of the stop request is followed by the receive of the acknowledgement on every path to return", whyStop)
	}

	// ---------------- C17.3d start failure rolls the port state back
	startRollback(c, p)

	// ---------------- C17.4 in-memory driver
	tin := p.roleT("drivers/testdrv.in")
	tout := p.roleT("drivers/testdrv.out")
	tdrv := p.namedType("drivers/testdrv", "Driver")
	if tin == nil || tout == nil || tdrv == nil {
		c.Unk("C17.4", "testdrv types", "-", "not found")
	} else {
		listen := p.MethodOf(types.NewPointer(tin), "Listen")
		send := p.MethodOf(types.NewPointer(tout), "Send")
		ctor := p.Func("drivers/testdrv", "New")
		c.Fn(FuncName(listen))
		c.Fn(FuncName(send))
		// (a), (c): what Listen re-initialises and what Send consults is decided on lifecycle histories run on the
		// abstract machine (testdrvHistories below); until round 5 two syntactic rules stood here ("fields written by the
		// stop closure are stored by Listen", "Send branches on such a field before feeding the decoder")
		testdrvHistories(c, "C17.4")
		// the listener runs inside the decoder call, on the sender's goroutine: whatever lock of the driver is held at that
		// call is held while user code runs, and a listener that calls back into the driver (MIDI thru: Send from the
		// callback; stopping from the callback) would wait for itself
		if sp := p.Pkg("drivers/testdrv"); sp != nil {
			tfns := pkgFuncsWithClosures(sp, p)
			tla := NewLockAnalysis(p, tfns)
			nFeed := 0
			for _, fn := range tfns {
				for _, call := range calls(fn) {
					cal := call.Common().StaticCallee()
					if cal == nil || cal.Name() != "EachMessage" || cal.Signature.Recv() == nil {
						continue
					}
					nFeed++
					tla.Run(fn)
					held := tla.stateAt(fn, call.(ssa.Instruction))
					var hs []string
					for k, v := range held.held {
						if v > 0 {
							hs = append(hs, k)
						}
					}
					sort.Strings(hs)
					c.Check(len(hs) == 0, "C17.4", "decoder fed outside the driver's locks in "+FuncName(fn), p.Pos(call.Pos()), "no lock held while the listener may run", "the decoder (and with it the listener callback) runs while "+strings.Join(hs, ", ")+" is held: a listener that sends or stops from inside the callback deadlocks on it")
				}
			}
			if nFeed == 0 {
				c.Unk("C17.4", "decoder feed site of the in-memory driver", "-", "no EachMessage call found in package testdrv")
			}
		}
		// (b) pointer fields of Driver not initialised by the constructor
		initd := map[*types.Var]bool{}
		if ctor != nil {
			collectStores(ctor, initd)
		}
		st := tdrv.Underlying().(*types.Struct)
		for i := 0; i < st.NumFields(); i++ {
			fv := st.Field(i)
			if _, isPtr := fv.Type().Underlying().(*types.Pointer); !isPtr || initd[fv] {
				continue
			}
			// every use of a load of this field as call receiver / deref must be nil-guarded
			sp := p.Pkg("drivers/testdrv")
			n := 0
			for _, fn := range pkgFuncsWithClosures(sp, p) {
				for _, b := range fn.Blocks {
					for _, in := range b.Instrs {
						l, ok := in.(*ssa.UnOp)
						if !ok || l.Op != token.MUL || fieldVar(l.X) != fv {
							continue
						}
						for _, u := range liveRefs(l) {
							deref := false
							switch x := u.(type) {
							case ssa.CallInstruction:
								if len(x.Common().Args) > 0 && x.Common().Args[0] == ssa.Value(l) {
									deref = true
								}
							case *ssa.FieldAddr:
								deref = true
							}
							if !deref {
								continue
							}
							n++
							guarded := false
							for _, bb := range fn.Blocks {
								if len(bb.Instrs) == 0 {
									continue
								}
								iff, ok := bb.Instrs[len(bb.Instrs)-1].(*ssa.If)
								if !ok {
									continue
								}
								f, okf := condFact(iff.Cond, true)
								if !okf || !(isNilConst(f.Y) || isNilConst(f.X)) {
									continue
								}
								v := f.X
								if isNilConst(v) {
									v = f.Y
								}
								ld, okl := v.(*ssa.UnOp)
								if !okl || fieldVar(ld.X) != fv {
									continue
								}
								te, fe := ifEdges(iff)
								nn := te
								if f.Op == token.EQL {
									nn = fe
								}
								if edgeDominates(fn, nn, u.Block()) || nn.to == u.Block() {
									guarded = true
								}
							}
							for _, b2 := range fn.Blocks {
								for _, in2 := range b2.Instrs {
									if st2, ok := in2.(*ssa.Store); ok && fieldVar(st2.Addr) == fv && instrDominates(st2, u) {
										switch st2.Val.(type) {
										case *ssa.Call, *ssa.Alloc:
											guarded = true // freshly assigned in this function before the use
										}
									}
								}
							}
							// a dominating nil test in the same function is recorded when it is there; when the test lives elsewhere
							// (a helper such as listening()) the lifecycle histories below decide: history 2 sends on an open port
							// before any Listen, and a reachable nil dereference there is reported as "may panic"
							if guarded {
								c.OK("C17.4", fmt.Sprintf("nil-able %s dereferenced in %s", fv.Name(), FuncName(fn)), p.Pos(u.Pos()), "dominated by a non-nil test of the field")
							}
						}
					}
				}
			}
			_ = n
		}
	}

	// ---------------- C17.4d: every successful Listen installs the NEW callback (all drivers.In implementations)
	if inI := p.IfaceType("drivers", "In"); inI != nil {
		for _, T := range p.Implementers(inI) {
			m := p.MethodOf(T, "Listen")
			if m == nil || m.Blocks == nil || len(m.Params) < 2 {
				continue
			}
			c.Fn(FuncName(m))
			onMsg := m.Params[1]
			// forward slice of values that carry the callback
			carry := map[ssa.Value]bool{onMsg: true}
			changed := true
			for changed {
				changed = false
				for _, b := range m.Blocks {
					for _, in := range b.Instrs {
						v, isVal := in.(ssa.Value)
						if !isVal || carry[v] {
							continue
						}
						switch x := in.(type) {
						case *ssa.MakeClosure:
							for _, bd := range x.Bindings {
								if carry[bd] {
									carry[v] = true
									changed = true
								}
							}
						case *ssa.Call:
							for _, a := range x.Common().Args {
								if carry[a] {
									carry[v] = true
									changed = true
								}
							}
						case *ssa.MakeInterface:
							if carry[x.X] {
								carry[v] = true
								changed = true
							}
						case *ssa.Phi:
							for _, e := range x.Edges {
								if carry[e] {
									carry[v] = true
									changed = true
								}
							}
						}
					}
				}
				// a local cell holding the callback (parameter captured by a closure)
				for _, b := range m.Blocks {
					for _, in := range b.Instrs {
						if st, ok := in.(*ssa.Store); ok && carry[st.Val] {
							if al, ok := st.Addr.(*ssa.Alloc); ok && !carry[al] {
								carry[al] = true
								changed = true
							}
						}
					}
				}
			}
			installs := map[ssa.Instruction]bool{}
			for _, b := range m.Blocks {
				for _, in := range b.Instrs {
					if st, ok := in.(*ssa.Store); ok && carry[st.Val] {
						if _, isField := st.Addr.(*ssa.FieldAddr); isField {
							installs[st] = true
						}
					}
					// handed to a setter: a module function that stores that parameter into a field
					if call, ok := in.(ssa.CallInstruction); ok {
						if cal := call.Common().StaticCallee(); cal != nil && InModule(cal) {
							for ai, a := range call.Common().Args {
								if carry[a] && storesParamToField(cal, ai, 0) {
									installs[in] = true
								}
							}
						}
					}
				}
			}
			ok := len(installs) > 0
			for _, r := range allReturns(m) {
				if !isNilConst(retVal(r, len(r.Results)-1)) {
					continue
				}
				if canReachFromEntryAvoiding(m, r, installs) {
					ok = false
				}
			}
			if why := configInstalled(p, m); why != "" {
				c.Bad("C17.4", namedOrString(T)+".Listen configures the decoder from this call's options", p.Pos(m.Pos()), why)
			} else {
				c.OK("C17.4", namedOrString(T)+".Listen configures the decoder from this call's options", p.Pos(m.Pos()), "on every successful path the whole configuration (or every field the decoder constructor consumes) is installed")
			}
			c.Check(ok, "C17.4", namedOrString(T)+".Listen installs the new callback on every successful path", p.Pos(m.Pos()), "a value carrying the onMsg parameter is stored into the port's state before every successful return", "Listen can succeed without installing the new callback (e.g. it reuses the decoder of a previous Listen): messages keep going to the old listener, whose stop function has already returned")
		}
	}

	// ---------------- C17.5 siblings
	portI := p.IfaceType("drivers", "Port")
	outI := p.IfaceType("drivers", "Out")
	if portI == nil || outI == nil {
		c.Unk("C17.5", "drivers.Port / drivers.Out", "-", "not found")
		return
	}
	for _, T := range p.Implementers(portI) {
		for _, name := range []string{"Open", "Close"} {
			m := p.MethodOf(T, name)
			if m == nil || m.Blocks == nil {
				continue
			}
			c.Fn(FuncName(m))
			ok, why := idempotentGuard(p, m, name == "Open")
			c.Check(ok, "C17.5", namedOrString(T)+"."+name+" is a no-op in the target state", p.Pos(m.Pos()), why, why)
		}
	}
	errClosed := p.Pkg("drivers").Var("ErrPortClosed")
	for _, T := range p.Implementers(outI) {
		m := p.MethodOf(T, "Send")
		if m == nil || m.Blocks == nil {
			continue
		}
		c.Fn(FuncName(m))
		ok, why := sendGuard(p, m, errClosed)
		c.Check(ok, "C17.5", namedOrString(T)+".Send guarded by the open test", p.Pos(m.Pos()), why, why)
	}
}

func collectStores(fn *ssa.Function, into map[*types.Var]bool) {
	for _, b := range fn.Blocks {
		for _, in := range b.Instrs {
			if st, ok := in.(*ssa.Store); ok {
				if fv := fieldVar(st.Addr); fv != nil {
					into[fv] = true
				}
			}
		}
	}
}

// stateTest: does cond derive from IsOpen() on the receiver or from a load of a bool/pointer field of the receiver?
func isStateTest(fn *ssa.Function, v ssa.Value, depth int) bool {
	if depth > 4 {
		return false
	}
	switch x := v.(type) {
	case *ssa.Call:
		if f := x.Common().StaticCallee(); f != nil && f.Name() == "IsOpen" {
			return true
		}
	case *ssa.UnOp:
		if x.Op == token.NOT {
			return isStateTest(fn, x.X, depth+1)
		}
		if x.Op == token.MUL {
			return fieldVar(x.X) != nil
		}
	case *ssa.BinOp:
		return isStateTest(fn, x.X, depth+1) || isStateTest(fn, x.Y, depth+1)
	}
	return false
}

func effectful(in ssa.Instruction) bool {
	switch x := in.(type) {
	case *ssa.Store:
		if _, local := x.Addr.(*ssa.Alloc); local {
			return false // parameter / result spill into a local cell
		}
		return true
	case *ssa.Defer:
		// a deferred release of a lock taken in this function is part of the lock bracket, not an effect on the port
		if f := x.Common().StaticCallee(); f != nil && f.Pkg != nil && f.Pkg.Pkg.Path() == "sync" && (f.Name() == "Unlock" || f.Name() == "RUnlock") {
			return false
		}
		return true
	case *ssa.Go, *ssa.Send, *ssa.MapUpdate:
		return true
	case *ssa.Call:
		if f := x.Common().StaticCallee(); f != nil && (f.Name() == "IsOpen" || f.Name() == "RLock" || f.Name() == "RUnlock") {
			return false
		}
		// taking and releasing a mutex around the state test changes nothing about the port
		if f := x.Common().StaticCallee(); f != nil && f.Pkg != nil && f.Pkg.Pkg.Path() == "sync" && (f.Name() == "Lock" || f.Name() == "Unlock") {
			return false
		}
		if _, ok := x.Common().Value.(*ssa.Builtin); ok {
			return false
		}
		return true
	}
	return false
}

// idempotentGuard: there is a state test whose one edge goes straight to "return nil" without effects and
// whose other edge dominates every effect of the function.
func idempotentGuard(p *Program, fn *ssa.Function, open bool) (bool, string) {
	for _, b := range fn.Blocks {
		if len(b.Instrs) == 0 {
			continue
		}
		iff, ok := b.Instrs[len(b.Instrs)-1].(*ssa.If)
		if !ok || !isStateTest(fn, iff.Cond, 0) {
			continue
		}
		te, fe := ifEdges(iff)
		for _, pair := range [][2]edge{{te, fe}, {fe, te}} {
			quiet, work := pair[0], pair[1]
			// quiet edge: block returns nil error with no effects
			if len(quiet.to.Instrs) == 0 {
				continue
			}
			r, isRet := quiet.to.Instrs[len(quiet.to.Instrs)-1].(*ssa.Return)
			if !isRet || len(r.Results) == 0 || !isNilConst(retVal(r, len(r.Results)-1)) {
				continue
			}
			clean := true
			for _, in := range quiet.to.Instrs {
				if effectful(in) {
					clean = false
				}
			}
			if !clean {
				continue
			}
			// all effects dominated by the work edge
			all := true
			for _, bb := range fn.Blocks {
				for _, in := range bb.Instrs {
					if effectful(in) && !(edgeDominates(fn, work, bb) || work.to == bb) {
						all = false
					}
				}
			}
			if all {
				return true, "state test first; the already-in-target-state edge returns nil without effects, every effect is on the other edge"
			}
		}
	}
	if open {
		return false, "Open has effects that are not guarded by the already-open test (calling Open twice is not a no-op)"
	}
	return false, "Close has effects that are not guarded by the already-closed test (calling Close twice is not a no-op)"
}

// sendGuard: every effectful instruction of Send is dominated by the open edge of a state test whose other edge returns ErrPortClosed.
func sendGuard(p *Program, fn *ssa.Function, errClosed *ssa.Global) (bool, string) {
	for _, b := range fn.Blocks {
		if len(b.Instrs) == 0 {
			continue
		}
		iff, ok := b.Instrs[len(b.Instrs)-1].(*ssa.If)
		if !ok || !isStateTest(fn, iff.Cond, 0) {
			continue
		}
		te, fe := ifEdges(iff)
		for _, pair := range [][2]edge{{te, fe}, {fe, te}} {
			closed, open := pair[0], pair[1]
			// closed edge: reaches only returns of ErrPortClosed
			okClosed := false
			reach := blockReach(closed.to, nil, nil)
			nret := 0
			allErr := true
			for _, r := range allReturns(fn) {
				if !reach[r.Block()] {
					continue
				}
				nret++
				l, ok := retVal(r, len(r.Results)-1).(*ssa.UnOp)
				if !ok || l.X != ssa.Value(errClosed) {
					allErr = false
				}
			}
			okClosed = nret > 0 && allErr && !reach[open.to]
			if !okClosed {
				continue
			}
			// transport: any invoke/call with effects other than lock ops and printing must be dominated by the open edge
			all := true
			for _, bb := range fn.Blocks {
				for _, in := range bb.Instrs {
					call, isCall := in.(*ssa.Call)
					if !isCall {
						continue
					}
					q := calleeQual(call)
					if _, isLock := mutexOp(call); isLock || q == "fmt.Println" {
						continue
					}
					if f := call.Common().StaticCallee(); f != nil && f.Name() == "IsOpen" {
						continue
					}
					if _, isB := call.Common().Value.(*ssa.Builtin); isB {
						continue
					}
					if f := call.Common().StaticCallee(); f != nil && strings.HasPrefix(f.String(), "(time.") {
						continue
					}
					if !(edgeDominates(fn, open, bb) || open.to == bb) {
						all = false
					}
				}
			}
			if all {
				// a port with a lock: test and transport use must sit in one continuous hold of the lock (a test made in a
				// helper that releases the lock again is stale when the transport is used: a concurrent Close wins the race)
				if why := sendAtomic(fn, iff); why != "" {
					return false, why
				}
				return true, "the closed edge of the open test returns ErrPortClosed; the transport is only reached on the open edge (and, where the port has a lock, inside the same hold of it)"
			}
		}
	}
	return false, "Send can reach the transport without passing the open test, or the closed edge does not return ErrPortClosed"
}

// sendAtomic: "" when fn takes no lock, or when the state test of iff reads the state directly while a lock acquired
// in fn is held and that lock is not released before the calls that follow on the open edge.
func sendAtomic(fn *ssa.Function, iff *ssa.If) string {
	var acquires, releases []ssa.Instruction
	for _, call := range calls(fn) {
		if op, ok := mutexOp(call); ok {
			_, deferred := call.(*ssa.Defer)
			switch op.kind {
			case "Lock", "RLock":
				acquires = append(acquires, call.(ssa.Instruction))
			case "Unlock", "RUnlock":
				if !deferred {
					releases = append(releases, call.(ssa.Instruction))
				}
			}
		}
	}
	if len(acquires) == 0 {
		return ""
	}
	// the loads the condition is made of
	var loads []ssa.Instruction
	viaCall := false
	var walk func(v ssa.Value, d int)
	walk = func(v ssa.Value, d int) {
		if d > 4 {
			return
		}
		switch x := v.(type) {
		case *ssa.Call:
			viaCall = true
		case *ssa.UnOp:
			if x.Op == token.MUL && fieldVar(x.X) != nil {
				loads = append(loads, x)
				return
			}
			walk(x.X, d+1)
		case *ssa.BinOp:
			walk(x.X, d+1)
			walk(x.Y, d+1)
		}
	}
	walk(iff.Cond, 0)
	if viaCall || len(loads) == 0 {
		return "Send takes the port's lock, but the open test is made through a helper (outside that hold of the lock): between the test and the use of the transport a concurrent Close can reset the transport — Send then fails on a nil transport instead of reporting ErrPortClosed"
	}
	for _, l := range loads {
		held := false
		for _, a := range acquires {
			if instrDominates(a, l) {
				held = true
			}
		}
		if !held {
			return "the open test of Send reads the port state before the lock is taken"
		}
		for _, u := range releases {
			if canReachAvoiding(l, u, nil) {
				for _, call := range calls(fn) {
					ci := call.(ssa.Instruction)
					if _, isLock := mutexOp(call); isLock {
						continue
					}
					if canReachAvoiding(u, ci, nil) && instrDominates(iff, ci) {
						return "the lock is released between the open test and the use of the transport in Send"
					}
				}
			}
		}
	}
	return ""
}

// startRollback (C17.3d): in every function of the process-backed driver that starts the helper ((*exec.Cmd).Start), each
// guarded state field that the function sets to its "open" value (true / non-nil) before the start is reset to its zero
// value on every path from the failing edge of the start to a return.
func startRollback(c *Ctx, p *Program) {
	sp := p.Pkg("drivers/midicatdrv")
	if sp == nil {
		c.Unk("C17.3", "package midicatdrv", "-", "not loaded")
		return
	}
	n := 0
	for _, fn := range pkgFuncsWithClosures(sp, p) {
		for _, s := range errorSites(fn) {
			if calleeQual(s.call) != "exec.Start" || s.errV == nil {
				continue
			}
			n++
			start := s.call.(ssa.Instruction)
			nn, _ := nonNilEdges(errEq(fn, s.errV))
			if len(nn) == 0 {
				c.Bad("C17.3", "start failure tested in "+FuncName(fn), p.Pos(start.Pos()), "the error of starting the helper process is never tested")
				continue
			}
			// state fields set before the start
			set := map[*types.Var]ssa.Instruction{}
			for _, b := range fn.Blocks {
				for _, in := range b.Instrs {
					st, ok := in.(*ssa.Store)
					if !ok {
						continue
					}
					fv := fieldVar(st.Addr)
					if fv == nil {
						continue
					}
					tn := p.logicalTypeName(st.Addr.(*ssa.FieldAddr).X.Type())
					if _, guarded := guardedBy[tn][p.logicalFieldName(fv)]; !guarded {
						continue
					}
					if k, isC := st.Val.(*ssa.Const); isC && (k.Value == nil || k.Value.String() == "false") {
						continue // a reset
					}
					if canReachAvoiding(st, start, nil) {
						set[fv] = st
					}
				}
			}
			isReset := func(in ssa.Instruction, fv *types.Var) bool {
				st, ok := in.(*ssa.Store)
				if !ok || fieldVar(st.Addr) != fv {
					return false
				}
				k, isC := st.Val.(*ssa.Const)
				return isC && (k.Value == nil || k.Value.String() == "false")
			}
			// one obligation per start routine whatever it sets (a routine that commits its state only after a successful
			// start has nothing to roll back): the instance count does not depend on how many fields are set early
			c.OK("C17.3", "start failure tested in "+FuncName(fn), p.Pos(start.Pos()), fmt.Sprintf("the error of starting the helper is tested; %d guarded field(s) are set before the start and examined one by one", len(set)))
			for fv := range set {
				avoid := map[ssa.Instruction]bool{}
				for _, b := range fn.Blocks {
					for _, in := range b.Instrs {
						if isReset(in, fv) {
							avoid[in] = true
						}
					}
				}
				ok := true
				for _, e := range nn {
					if len(e.to.Instrs) == 0 {
						continue
					}
					first := e.to.Instrs[0]
					for _, r := range allReturns(fn) {
						if avoid[first] {
							continue
						}
						if ssa.Instruction(r) == first || canReachAvoiding(first, r, avoid) {
							ok = false
						}
					}
				}
				key := fmt.Sprintf("start failure resets %s.%s in %s", p.logicalTypeName(fn.Params[0].Type()), p.logicalFieldName(fv), FuncName(fn))
				c.Check(ok, "C17.3", key, p.Pos(start.Pos()), "every path from the failing start to a return resets the field", "a failing start returns with "+p.logicalFieldName(fv)+" still in its open value: the port looks open although nothing was started, and Close waits for an acknowledgement that never comes")
			}
		}
	}
	if n == 0 {
		c.Unk("C17.3", "helper process start sites", "-", "no call of (*exec.Cmd).Start found in the process-backed driver")
	}
}

// configInstalled: on every successful path of an In.Listen implementation the listen configuration of THIS call reaches
// the port's state: either as a whole (handed to a constructor / captured by the installed closure) or field by field for
// every field the decoder constructor drivers.NewReader consumes. "" = holds.
func configInstalled(p *Program, m *ssa.Function) string {
	if len(m.Params) < 3 {
		return ""
	}
	conf := m.Params[2]
	cst, ok := conf.Type().Underlying().(*types.Struct)
	if !ok {
		return ""
	}
	// fields the decoder constructor reads
	required := map[string]bool{}
	if nr := p.Func("drivers", "NewReader"); nr != nil && len(nr.Params) > 0 {
		cp := nr.Params[0]
		cells := map[ssa.Value]bool{cp: true}
		for _, b := range nr.Blocks {
			for _, in := range b.Instrs {
				if st, ok := in.(*ssa.Store); ok && st.Val == ssa.Value(cp) {
					cells[st.Addr] = true
				}
			}
		}
		for _, b := range nr.Blocks {
			for _, in := range b.Instrs {
				switch x := in.(type) {
				case *ssa.Field:
					if cells[x.X] {
						required[x.X.Type().Underlying().(*types.Struct).Field(x.Field).Name()] = true
					}
				case *ssa.FieldAddr:
					if cells[x.X] {
						required[cst.Field(x.Field).Name()] = true
					}
				}
			}
		}
	}
	// does the port own a decoder (a field of type *drivers.Reader)?
	hasDecoder := false
	var scan func(t types.Type, depth int)
	scan = func(t types.Type, depth int) {
		n := namedOf(t)
		if n == nil || depth > 2 {
			return
		}
		st, ok := n.Underlying().(*types.Struct)
		if !ok {
			return
		}
		for i := 0; i < st.NumFields(); i++ {
			ft := st.Field(i).Type()
			if tPtr(tNamed("drivers", "Reader"))(p, ft) {
				hasDecoder = true
			} else if fn := namedOf(ft); fn != nil && fn.Obj().Pkg() == n.Obj().Pkg() {
				scan(ft, depth+1)
			}
		}
	}
	if rt := m.Signature.Recv(); rt != nil {
		scan(rt.Type(), 0)
	}
	if !hasDecoder {
		required = map[string]bool{}
	}
	whole := map[ssa.Value]bool{conf: true}
	part := map[ssa.Value]string{}
	for changed := true; changed; {
		changed = false
		mark := func(v ssa.Value) {
			if !whole[v] {
				whole[v] = true
				changed = true
			}
		}
		markP := func(v ssa.Value, n string) {
			if _, ok := part[v]; !ok {
				part[v] = n
				changed = true
			}
		}
		for _, b := range m.Blocks {
			for _, in := range b.Instrs {
				switch x := in.(type) {
				case *ssa.Store:
					if whole[x.Val] {
						if al, ok := x.Addr.(*ssa.Alloc); ok {
							mark(al)
						}
					}
				case *ssa.UnOp:
					if x.Op == token.MUL {
						if whole[x.X] {
							mark(x)
						}
						if fa, ok := x.X.(*ssa.FieldAddr); ok && whole[fa.X] {
							markP(x, cst.Field(fa.Field).Name())
						}
					}
				case *ssa.Field:
					if whole[x.X] {
						markP(x, cst.Field(x.Field).Name())
					}
				case *ssa.MakeClosure:
					// a closure capturing the configuration carries it only for ports without a byte decoder of their own:
					// the decoder's options are set by its constructor, not by what the callback closes over
					for _, bd := range x.Bindings {
						if whole[bd] && !hasDecoder {
							mark(x)
						}
					}
				case *ssa.Call:
					for _, a := range x.Common().Args {
						if whole[a] {
							mark(x)
						}
					}
				case *ssa.MakeInterface:
					if whole[x.X] {
						mark(x)
					}
					if n, ok := part[x.X]; ok {
						markP(x, n)
					}
				case *ssa.Convert:
					if n, ok := part[x.X]; ok {
						markP(x, n)
					}
				case *ssa.ChangeType:
					if n, ok := part[x.X]; ok {
						markP(x, n)
					}
				case *ssa.Phi:
					for _, e := range x.Edges {
						if whole[e] {
							mark(x)
						}
					}
				}
			}
		}
	}
	all := map[ssa.Instruction]bool{}
	per := map[string]map[ssa.Instruction]bool{}
	for _, b := range m.Blocks {
		for _, in := range b.Instrs {
			if call, ok := in.(ssa.CallInstruction); ok {
				if cal := call.Common().StaticCallee(); cal != nil && InModule(cal) {
					for ai, a := range call.Common().Args {
						if !storesParamToField(cal, ai, 0) {
							continue
						}
						if whole[a] {
							all[in] = true
						}
						if n, ok := part[a]; ok {
							if per[n] == nil {
								per[n] = map[ssa.Instruction]bool{}
							}
							per[n][in] = true
						}
					}
				}
			}
			st, ok := in.(*ssa.Store)
			if !ok {
				continue
			}
			if _, isField := st.Addr.(*ssa.FieldAddr); !isField {
				continue
			}
			if whole[st.Val] {
				all[st] = true
			}
			if n, ok := part[st.Val]; ok {
				if per[n] == nil {
					per[n] = map[ssa.Instruction]bool{}
				}
				per[n][st] = true
			}
		}
	}
	var names []string
	for n := range required {
		names = append(names, n)
	}
	sort.Strings(names)
	for _, r := range allReturns(m) {
		if !isNilConst(retVal(r, len(r.Results)-1)) {
			continue
		}
		if len(names) == 0 {
			if canReachFromEntryAvoiding(m, r, all) {
				return "Listen can succeed without handing this call's configuration to the port"
			}
			continue
		}
		for _, n := range names {
			avoid := map[ssa.Instruction]bool{}
			for k := range all {
				avoid[k] = true
			}
			for k := range per[n] {
				avoid[k] = true
			}
			if canReachFromEntryAvoiding(m, r, avoid) {
				return fmt.Sprintf("Listen can succeed with the option %s of an earlier Listen still in force (the decoder is reused and this field of the new configuration is not installed): the options of this call do not select what is delivered", n)
			}
		}
	}
	return ""
}

// stopFunctions: the functions Listen may hand back as its stop function (first result): closures made in Listen or in
// a module function whose result it returns, method values (the method behind the bound-method wrapper), plain
// functions. Found by following the returned value through phis, result cells and calls of module functions.
func stopFunctions(p *Program, listen *ssa.Function) []*ssa.Function {
	seen := map[*ssa.Function]bool{}
	var out []*ssa.Function
	add := func(f *ssa.Function) {
		if f == nil {
			return
		}
		// bound method wrapper: the method it calls
		if f.Synthetic != "" && strings.Contains(f.Synthetic, "bound") {
			for _, call := range calls(f) {
				if cal := call.Common().StaticCallee(); cal != nil {
					f = cal
					break
				}
			}
		}
		if !seen[f] {
			seen[f] = true
			out = append(out, f)
		}
	}
	visited := map[ssa.Value]bool{}
	var follow func(v ssa.Value, fn *ssa.Function, d int)
	follow = func(v ssa.Value, fn *ssa.Function, d int) {
		if v == nil || visited[v] || d > 6 {
			return
		}
		visited[v] = true
		switch x := v.(type) {
		case *ssa.MakeClosure:
			add(x.Fn.(*ssa.Function))
		case *ssa.Function:
			add(x)
		case *ssa.Phi:
			for _, e := range x.Edges {
				follow(e, fn, d+1)
			}
		case *ssa.ChangeType:
			follow(x.X, fn, d+1)
		case *ssa.UnOp:
			if x.Op == token.MUL {
				if a, ok := x.X.(*ssa.Alloc); ok {
					for _, u := range *a.Referrers() {
						if st, ok := u.(*ssa.Store); ok && st.Addr == ssa.Value(a) {
							follow(st.Val, fn, d+1)
						}
					}
				}
			}
		case *ssa.Extract:
			if call, ok := x.Tuple.(*ssa.Call); ok {
				if cal := call.Common().StaticCallee(); cal != nil && InModule(cal) {
					for _, r := range allReturns(cal) {
						follow(retVal(r, x.Index), cal, d+1)
					}
				}
			}
		case *ssa.Call:
			if cal := x.Common().StaticCallee(); cal != nil && InModule(cal) {
				for _, r := range allReturns(cal) {
					follow(retVal(r, 0), cal, d+1)
				}
			}
		}
	}
	for _, r := range allReturns(listen) {
		follow(retVal(r, 0), listen, 0)
	}
	return out
}

// storesParamToField: on EVERY path from entry to a return, the function stores its parameter no. idx (possibly wrapped:
// interface, closure binding, phi) into a struct field, itself or through a module function it hands it to — a setter.
func storesParamToField(fn *ssa.Function, idx int, depth int) bool {
	if fn == nil || fn.Blocks == nil || idx >= len(fn.Params) || depth > 3 {
		return false
	}
	carry := map[ssa.Value]bool{fn.Params[idx]: true}
	for changed := true; changed; {
		changed = false
		for _, b := range fn.Blocks {
			for _, in := range b.Instrs {
				v, isVal := in.(ssa.Value)
				if isVal && !carry[v] {
					switch x := in.(type) {
					case *ssa.MakeInterface:
						if carry[x.X] {
							carry[v], changed = true, true
						}
					case *ssa.ChangeType:
						if carry[x.X] {
							carry[v], changed = true, true
						}
					case *ssa.MakeClosure:
						for _, bd := range x.Bindings {
							if carry[bd] {
								carry[v], changed = true, true
							}
						}
					case *ssa.Phi:
						for _, e := range x.Edges {
							if carry[e] {
								carry[v], changed = true, true
							}
						}
					case *ssa.UnOp:
						if x.Op == token.MUL && carry[x.X] {
							carry[v], changed = true, true
						}
					}
				}
				if st, ok := in.(*ssa.Store); ok && carry[st.Val] {
					if al, ok := st.Addr.(*ssa.Alloc); ok && !carry[al] {
						carry[al], changed = true, true
					}
				}
			}
		}
	}
	installs := map[ssa.Instruction]bool{}
	for _, b := range fn.Blocks {
		for _, in := range b.Instrs {
			if st, ok := in.(*ssa.Store); ok && carry[st.Val] {
				if _, isField := st.Addr.(*ssa.FieldAddr); isField {
					installs[in] = true
				}
			}
			if call, ok := in.(ssa.CallInstruction); ok {
				if cal := call.Common().StaticCallee(); cal != nil && InModule(cal) && cal != fn {
					for ai, a := range call.Common().Args {
						if carry[a] && storesParamToField(cal, ai, depth+1) {
							installs[in] = true
						}
					}
				}
			}
		}
	}
	if len(installs) == 0 {
		return false
	}
	for _, r := range allReturns(fn) {
		if canReachFromEntryAvoiding(fn, r, installs) {
			return false
		}
	}
	return true
}

// testdrvHistories (C17.4): lifecycle histories of the in-memory driver, run on the abstract machine from the real
// constructor: each history is a sequence of Open/Close of the out port, Listen / stop on the in port and Send, with the
// decoder's EachMessage observed (a "feed"). Reference model (the statement of C17): a Send on a closed out port returns
// ErrPortClosed and feeds nothing; on an open out port it feeds the decoder exactly once iff a listener is active
// (Listen succeeded and its stop function has not been called since), with the decoder built by THAT Listen; stop is
// idempotent; listening again after a stop delivers again. Independent of how "stopped" is represented (a flag, a nil
// decoder, a generation counter) and of where Listen / stop / Send keep their code.
func testdrvHistories(c *Ctx, rule string) {
	p := c.P
	tin := p.roleT("drivers/testdrv.in")
	tout := p.roleT("drivers/testdrv.out")
	rT := p.namedType("drivers", "Reader")
	ctor := p.Func("drivers/testdrv", "New")
	confT := p.namedType("drivers", "ListenConfig")
	if tin == nil || tout == nil || rT == nil || ctor == nil || confT == nil {
		c.Unk(rule, "testdrv lifecycle anchors", "-", "not resolved")
		return
	}
	meth := func(t types.Type, n string) *ssa.Function { return p.MethodOf(types.NewPointer(t), n) }
	listen, send := meth(tin, "Listen"), meth(tout, "Send")
	openOut, closeOut, openIn := meth(tout, "Open"), meth(tout, "Close"), meth(tin, "Open")
	newReader := p.Func("drivers", "NewReader")
	if listen == nil || send == nil || openOut == nil || closeOut == nil || openIn == nil || newReader == nil {
		c.Unk(rule, "testdrv lifecycle methods", "-", "not resolved")
		return
	}
	type op int
	const (
		oOpenOut op = iota
		oCloseOut
		oOpenIn
		oListen
		oStop
		oSend
	)
	opName := map[op]string{oOpenOut: "out.Open", oCloseOut: "out.Close", oOpenIn: "in.Open", oListen: "Listen", oStop: "stop", oSend: "Send"}
	histories := [][]op{
		{oOpenOut, oOpenIn, oListen, oSend, oStop, oSend, oListen, oSend, oStop, oStop, oSend},
		{oOpenOut, oSend, oOpenIn, oListen, oCloseOut, oSend, oOpenOut, oSend},
		{oOpenIn, oListen, oSend, oOpenOut, oSend, oStop, oListen, oStop, oSend, oListen, oSend},
	}
	for hi, h := range histories {
		var names []string
		for _, o := range h {
			names = append(names, opName[o])
		}
		key := fmt.Sprintf("in-memory driver history %d: %s", hi+1, strings.Join(names, ", "))
		ex := NewExec(p)
		readerOf := map[int]int{} // decoder object -> number of the Listen that built it
		listenNo := 0
		ex.CallHook = func(ex *Exec, st *State, fr *Frame, call ssa.CallInstruction, callee *ssa.Function, args []Val) ([]callRes, bool) {
			if callee.Name() == "EachMessage" && callee.Signature.Recv() != nil && namedOf(callee.Signature.Recv().Type()) == namedOf(rT) {
				ev := Event{Kind: "feed", Args: args}
				st.Events = append(st.Events, ev)
				return []callRes{{st: st, ret: nil}}, true
			}
			return nil, false
		}
		st := ex.NewState()
		type world struct {
			st      *State
			stop    Val
			outOpen bool
			active  bool
			gen     int // number of the Listen whose decoder must be fed
		}
		outs := ex.Call(st, ctor, []Val{&StrV{Known: true, S: "t"}}, nil)
		if len(outs) != 1 || outs[0].Panic {
			c.Unk(rule, key, p.Pos(ctor.Pos()), "constructor not interpretable on a single path")
			continue
		}
		dp, _ := outs[0].Ret[0].(*PtrV)
		var inP, outP *PtrV
		if dp != nil {
			if dv, okD := outs[0].St.heap[dp.Obj].(*StructV); okD {
				for i := 0; i < dv.T.NumFields(); i++ {
					if pt, okP := dv.T.Field(i).Type().(*types.Pointer); okP {
						if types.Identical(pt.Elem(), tin) {
							inP, _ = dv.Fields[i].(*PtrV)
						}
						if types.Identical(pt.Elem(), tout) {
							outP, _ = dv.Fields[i].(*PtrV)
						}
					}
				}
			}
		}
		if inP == nil || outP == nil {
			c.Unk(rule, key, p.Pos(ctor.Pos()), "ports of the constructed driver not found")
			continue
		}
		worlds := []world{{st: outs[0].St}}
		ok, why := true, ""
		fail := func(step int, format string, a ...interface{}) {
			if ok {
				ok, why = false, fmt.Sprintf("step %d (%s): ", step+1, opName[h[step]])+fmt.Sprintf(format, a...)
			}
		}
		for si, o := range h {
			var next []world
			for _, w := range worlds {
				w.st.Events = nil
				var res []Outcome
				switch o {
				case oOpenOut:
					res = ex.Call(w.st, openOut, []Val{outP}, nil)
				case oCloseOut:
					res = ex.Call(w.st, closeOut, []Val{outP}, nil)
				case oOpenIn:
					res = ex.Call(w.st, openIn, []Val{inP}, nil)
				case oListen:
					listenNo++
					conf := ex.topOf(w.st, confT, fmt.Sprintf("conf%d", listenNo))
					res = ex.Call(w.st, listen, []Val{inP, &FuncV{Ext: fmt.Sprintf("cb%d", listenNo)}, conf}, nil)
				case oStop:
					if w.stop == nil {
						fail(si, "no stop function available")
						continue
					}
					fr := &Frame{fn: listen, regs: map[ssa.Value]Val{}, visits: map[*ssa.BasicBlock]int{}, widened: map[*ssa.BasicBlock]bool{}, phiHist: map[*ssa.Phi]Val{}, kept: map[*ssa.Phi]keptInv{}}
					s2 := w.st.Clone()
					for _, r := range ex.callValue(fr, s2, w.stop, nil, nil, nil) {
						res = append(res, Outcome{St: r.st, Panic: r.panic, Msg: r.msg})
					}
				case oSend:
					bt := ex.unknownSlice(w.st, types.Typ[types.Uint8], fmt.Sprintf("bytes%d", si), 1)
					res = ex.Call(w.st, send, []Val{outP, bt}, nil)
				}
				if len(res) == 0 {
					fail(si, "abstract interpretation did not complete")
				}
				for _, r := range res {
					if r.Panic || len(problemEvents(r.St.Events)) > 0 {
						fail(si, "may panic: %s%s", r.Msg, fmtEvents(problemEvents(r.St.Events)))
						continue
					}
					nw := w
					nw.st = r.St
					switch o {
					case oOpenOut:
						nw.outOpen = true
					case oCloseOut:
						nw.outOpen = false
					case oListen:
						ev, _ := r.Ret[len(r.Ret)-1].(*IfaceV)
						if ev == nil || !ev.Nil {
							fail(si, "Listen may fail on this history (%s)", valString(r.Ret[len(r.Ret)-1]))
							continue
						}
						nw.stop = r.Ret[0]
						nw.active = true
						nw.gen = listenNo
						// the decoder(s) allocated by this Listen
						for id, v := range r.St.heap {
							if sv, isS := v.(*StructV); isS && ex.objType[id] != nil && types.Identical(ex.objType[id], rT) {
								if _, seen := readerOf[id]; !seen {
									readerOf[id] = listenNo
								}
								_ = sv
							}
						}
					case oStop:
						nw.active = false
					case oSend:
						ev, _ := r.Ret[0].(*IfaceV)
						feeds := 0
						for _, e := range r.St.Events {
							if e.Kind != "feed" {
								continue
							}
							feeds++
							if rp, isP := e.Args[0].(*PtrV); isP && readerOf[rp.Obj] != nw.gen {
								fail(si, "the bytes go to the decoder built by Listen no. %d, the active listener is no. %d", readerOf[rp.Obj], nw.gen)
							}
						}
						switch {
						case !nw.outOpen:
							if ev == nil || ev.Nil || ev.Sentinel == "" || !strings.HasSuffix(ev.Sentinel, "ErrPortClosed") {
								fail(si, "Send on a closed out port returns %s, expected ErrPortClosed", valString(r.Ret[0]))
							}
							if feeds != 0 {
								fail(si, "Send on a closed out port still feeds the decoder")
							}
						case nw.active:
							if ev == nil || !ev.Nil {
								fail(si, "Send on an open port with an active listener returns %s", valString(r.Ret[0]))
							}
							if feeds != 1 {
								fail(si, "out port open, listener active: the decoder is fed %d times, expected exactly once", feeds)
							}
						default:
							if feeds != 0 {
								fail(si, "no active listener (never started, or stopped): the decoder is still fed %d time(s) — messages are delivered after stop", feeds)
							}
							if ev == nil || !ev.Nil {
								fail(si, "Send without an active listener returns %s, expected nil (the message is dropped)", valString(r.Ret[0]))
							}
						}
					}
					next = append(next, nw)
				}
			}
			worlds = next
			if len(worlds) > 64 {
				fail(si, "too many partitions (%d)", len(worlds))
				break
			}
			if len(worlds) == 0 {
				break
			}
		}
		for u := range ex.Unsupported {
			ok, why = false, "unmodelled construct: "+u
		}
		if ex.Budget {
			ok, why = false, "budget exceeded"
		}
		c.Check(ok, rule, key, p.Pos(send.Pos()), "every Send agrees with the reference model (closed port: ErrPortClosed; open + active listener: fed once to the active listener's decoder; otherwise dropped)", why)
	}
}
