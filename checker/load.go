package main

// E-load / E-cg: loads the module under analysis from the current working tree,
// builds SSA and the VTA call graph, and resolves anchors through types and
// exported names only.

import (
	"fmt"
	"go/token"
	"go/types"
	"os"
	"sort"
	"strings"

	"golang.org/x/tools/go/callgraph"
	"golang.org/x/tools/go/callgraph/cha"
	"golang.org/x/tools/go/callgraph/vta"
	"golang.org/x/tools/go/packages"
	"golang.org/x/tools/go/ssa"
	"golang.org/x/tools/go/ssa/ssautil"
)

const modPath = "gitlab.com/gomidi/midi/v2"

// packages analysed (DESIGN §2). Explicit list: the cgo drivers do not type-check here.
var pkgList = []string{
	"", "smf", "drivers", "drivers/testdrv", "drivers/midicat", "drivers/midicatdrv",
	"internal/utils", "internal/runningstatus", "sysex", "mmc", "sequencer",
	"gm", "rpn", "nrpn", "drivers/internal/version",
}

type Program struct {
	RepoDir string
	Fset    *token.FileSet
	Pkgs    map[string]*packages.Package // by import path
	Prog    *ssa.Program
	SSAPkg  map[string]*ssa.Package
	All     map[*ssa.Function]bool
	cg      *callgraph.Graph
	goos    string
	// roles.go
	roleTypes    map[string]*types.Named
	fuse         map[*types.Var]*fieldUse
	logicalNames map[*types.Var]string
}

func loadEnv(goos string) []string {
	env := os.Environ()
	out := env[:0:0]
	for _, e := range env {
		if strings.HasPrefix(e, "GOWORK=") || strings.HasPrefix(e, "GOFLAGS=") || strings.HasPrefix(e, "GOOS=") ||
			strings.HasPrefix(e, "GOARCH=") || strings.HasPrefix(e, "CGO_ENABLED=") || strings.HasPrefix(e, "GOPROXY=") ||
			strings.HasPrefix(e, "GOSUMDB=") || strings.HasPrefix(e, "GOTOOLCHAIN=") {
			continue
		}
		out = append(out, e)
	}
	return append(out, "GOFLAGS=-mod=mod", "GOPROXY=off", "GOSUMDB=off", "GOTOOLCHAIN=local",
		"GOWORK=off", "CGO_ENABLED=0", "GOOS="+goos, "GOARCH=amd64")
}

// Load loads the explicit package list from repo/v2. full=true loads all syntax
// (needed for SSA bodies of dependencies); subset restricts the packages.
func Load(repo string, goos string, subset []string) (*Program, error) {
	dir := repo + "/v2"
	if _, err := os.Stat(dir + "/go.mod"); err != nil {
		return nil, fmt.Errorf("module not found at %s: %v", dir, err)
	}
	list := pkgList
	if subset != nil {
		list = subset
	}
	var patterns []string
	for _, p := range list {
		if p == "" {
			patterns = append(patterns, modPath)
		} else {
			patterns = append(patterns, modPath+"/"+p)
		}
	}
	fset := token.NewFileSet()
	cfg := &packages.Config{
		Mode:  packages.LoadAllSyntax,
		Dir:   dir,
		Fset:  fset,
		Env:   loadEnv(goos),
		Tests: false,
	}
	pkgs, err := packages.Load(cfg, patterns...)
	if err != nil {
		return nil, err
	}
	if len(pkgs) == 0 {
		return nil, fmt.Errorf("no packages loaded from %s", dir)
	}
	p := &Program{RepoDir: repo, Fset: fset, Pkgs: map[string]*packages.Package{}, SSAPkg: map[string]*ssa.Package{}, goos: goos}
	var errs []string
	for _, pk := range pkgs {
		p.Pkgs[pk.PkgPath] = pk
		for _, e := range pk.Errors {
			errs = append(errs, e.Error())
		}
		if len(pk.GoFiles) == 0 {
			errs = append(errs, "package "+pk.PkgPath+" has no Go files")
		}
	}
	if len(errs) > 0 {
		return nil, fmt.Errorf("load errors (type-check failures are fatal): %s", strings.Join(errs, "; "))
	}
	if len(p.Pkgs) != len(patterns) {
		return nil, fmt.Errorf("expected %d packages, loaded %d", len(patterns), len(p.Pkgs))
	}
	prog, spkgs := ssautil.AllPackages(pkgs, ssa.InstantiateGenerics)
	prog.Build()
	p.Prog = prog
	for i, sp := range spkgs {
		if sp == nil {
			return nil, fmt.Errorf("no SSA for %s", pkgs[i].PkgPath)
		}
		p.SSAPkg[pkgs[i].PkgPath] = sp
	}
	p.All = ssautil.AllFunctions(prog)
	p.registerOwners()
	return p, nil
}

func (p *Program) CG() *callgraph.Graph {
	if p.cg == nil {
		p.cg = vta.CallGraph(p.All, cha.CallGraph(p.Prog))
	}
	return p.cg
}

func (p *Program) Pkg(rel string) *ssa.Package {
	path := modPath
	if rel != "" {
		path += "/" + rel
	}
	return p.SSAPkg[path]
}

func (p *Program) TPkg(rel string) *types.Package {
	sp := p.Pkg(rel)
	if sp == nil {
		return nil
	}
	return sp.Pkg
}

// InModule reports whether fn belongs to the analysed module.
func InModule(fn *ssa.Function) bool {
	if fn == nil {
		return false
	}
	pk := fn.Pkg
	if pk == nil && fn.Parent() != nil {
		return InModule(fn.Parent())
	}
	if pk == nil {
		// instantiated generic or synthetic wrapper: use origin
		if o := fn.Origin(); o != nil && o != fn {
			return InModule(o)
		}
		if fn.Object() != nil && fn.Object().Pkg() != nil {
			return strings.HasPrefix(fn.Object().Pkg().Path(), modPath)
		}
		return false
	}
	return strings.HasPrefix(pk.Pkg.Path(), modPath)
}

// Func resolves an exported (or package-level) function by package and name.
func (p *Program) Func(rel, name string) *ssa.Function {
	sp := p.Pkg(rel)
	if sp == nil {
		return nil
	}
	return sp.Func(name)
}

// Method resolves a method of named type T (value or pointer receiver).
func (p *Program) Method(rel, typ, name string) *ssa.Function {
	sp := p.Pkg(rel)
	if sp == nil {
		return nil
	}
	obj := sp.Pkg.Scope().Lookup(typ)
	if obj == nil {
		return nil
	}
	T := obj.Type()
	for _, t := range []types.Type{T, types.NewPointer(T)} {
		ms := p.Prog.MethodSets.MethodSet(t)
		for i := 0; i < ms.Len(); i++ {
			sel := ms.At(i)
			if sel.Obj().Name() == name {
				fn := p.Prog.MethodValue(sel)
				if fn != nil {
					// unwrap synthetic pointer-receiver wrappers to the declared method
					if fn.Synthetic != "" {
						if decl := p.Prog.FuncValue(sel.Obj().(*types.Func)); decl != nil {
							return decl
						}
					}
					return fn
				}
			}
		}
	}
	return nil
}

// Reachable returns module functions reachable from the roots through the VTA
// call graph (closures included via their parents' MakeClosure edges and,
// conservatively, every anonymous function syntactically nested in a reachable one).
func (p *Program) Reachable(roots ...*ssa.Function) []*ssa.Function {
	cg := p.CG()
	seen := map[*ssa.Function]bool{}
	var work []*ssa.Function
	push := func(f *ssa.Function) {
		if f == nil || seen[f] || !InModule(f) {
			return
		}
		seen[f] = true
		work = append(work, f)
	}
	for _, r := range roots {
		push(r)
	}
	for len(work) > 0 {
		f := work[len(work)-1]
		work = work[:len(work)-1]
		if n := cg.Nodes[f]; n != nil {
			for _, e := range n.Out {
				push(e.Callee.Func)
			}
		}
		for _, af := range f.AnonFuncs {
			push(af)
		}
	}
	var out []*ssa.Function
	for f := range seen {
		out = append(out, f)
	}
	sort.Slice(out, func(i, j int) bool { return out[i].String() < out[j].String() })
	return out
}

// Callees resolves the possible callees of a call instruction (static or via VTA).
func (p *Program) Callees(call ssa.CallInstruction) []*ssa.Function {
	if f := call.Common().StaticCallee(); f != nil {
		return []*ssa.Function{f}
	}
	n := p.CG().Nodes[call.Parent()]
	var out []*ssa.Function
	if n == nil {
		return nil
	}
	for _, e := range n.Out {
		if e.Site == call {
			out = append(out, e.Callee.Func)
		}
	}
	return out
}

func (p *Program) Pos(pos token.Pos) string {
	if !pos.IsValid() {
		return "-"
	}
	ps := p.Fset.Position(pos)
	f := ps.Filename
	if i := strings.Index(f, "/v2/"); i >= 0 {
		f = "v2/" + f[i+4:]
	}
	return fmt.Sprintf("%s:%d", f, ps.Line)
}

// FuncName gives a stable, human-readable name (no positions).
func FuncName(f *ssa.Function) string {
	if f == nil {
		return "<nil>"
	}
	s := f.String()
	return strings.ReplaceAll(s, modPath, "midi")
}

// ModuleFuncs returns all functions with bodies that belong to the module (incl. closures).
func (p *Program) ModuleFuncs() []*ssa.Function {
	var out []*ssa.Function
	for f := range p.All {
		if InModule(f) && f.Blocks != nil && f.Synthetic == "" {
			out = append(out, f)
		}
	}
	sort.Slice(out, func(i, j int) bool { return out[i].String() < out[j].String() })
	return out
}

// implementers returns the named types of the module whose (pointer) method set implements iface.
func (p *Program) Implementers(iface *types.Interface) []types.Type {
	var out []types.Type
	for _, sp := range p.SSAPkg {
		sc := sp.Pkg.Scope()
		for _, n := range sc.Names() {
			tn, ok := sc.Lookup(n).(*types.TypeName)
			if !ok || tn.IsAlias() {
				continue
			}
			T := tn.Type()
			if types.IsInterface(T) {
				continue
			}
			if types.Implements(T, iface) {
				out = append(out, T)
			} else if types.Implements(types.NewPointer(T), iface) {
				out = append(out, types.NewPointer(T))
			}
		}
	}
	sort.Slice(out, func(i, j int) bool { return out[i].String() < out[j].String() })
	return out
}

func (p *Program) IfaceType(rel, name string) *types.Interface {
	tp := p.TPkg(rel)
	if tp == nil {
		return nil
	}
	o := tp.Scope().Lookup(name)
	if o == nil {
		return nil
	}
	i, _ := o.Type().Underlying().(*types.Interface)
	return i
}

// MethodOf returns the declared ssa function for method name of type T.
func (p *Program) MethodOf(T types.Type, name string) *ssa.Function {
	ms := p.Prog.MethodSets.MethodSet(T)
	for i := 0; i < ms.Len(); i++ {
		sel := ms.At(i)
		if sel.Obj().Name() == name {
			if decl := p.Prog.FuncValue(sel.Obj().(*types.Func)); decl != nil {
				return decl
			}
			return p.Prog.MethodValue(sel)
		}
	}
	return nil
}

// InModuleType: a named type declared in the analysed module.
func InModuleType(t types.Type) bool {
	n, ok := t.(*types.Named)
	return ok && n.Obj().Pkg() != nil && strings.HasPrefix(n.Obj().Pkg().Path(), modPath)
}
