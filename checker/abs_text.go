package main

// Text domain: byte strings that are the decimal rendering of a (symbolic) integer or the hex rendering of a
// (symbolic) byte slice, and the standard-library conversions that invert them. Used by C19 to decide that the
// decoder's conversions are the inverses of the encoder's verbs for ALL time stamps and payloads.
//
// A text is an opaque run in an array (Run.Src = "dec:<id>" / "hex:<id>", registered in Exec.texts); string(bytes) of
// exactly such a run yields a StrV carrying the meaning; the summaries below consume it. Anything the domain does not
// model (digit loops, partial slices) degrades to an unknown value, which the rule reports as undecided.

import (
	"fmt"
	"go/constant"
	"go/token"
	"go/types"
	"strings"

	"golang.org/x/tools/go/ssa"
)

type textMeaning struct {
	dec   *IntV   // decimal text of this signed integer
	hex   *SliceV // hex text of these bytes (upper case unless lower)
	lower bool
}

// mkDecText creates a byte slice holding the decimal text of v (v ranges over its type / refined range).
func (ex *Exec) mkDecText(st *State, name string, v *IntV) *SliceV {
	if ex.texts == nil {
		ex.texts = map[string]textMeaning{}
	}
	src := "dec:" + name
	ex.texts[src] = textMeaning{dec: v}
	L := ex.syms.Get("len("+src+")", 64, true)
	st.refineSym(L, 1, 20)
	arr := &ArrayV{Elem: types.Typ[types.Uint8], Segs: []Seg{{Run: &Run{Src: src, Off: constTerm(0), Len: symTerm(L)}}}}
	id := ex.newObj(st, arr, nil)
	return &SliceV{Obj: id, Off: mkConst(0, 64, true), Len: mkSym(L), Cap: mkSym(L)}
}

// mkHexText creates a byte slice holding the hex text of the bytes of payload (twice its length).
func (ex *Exec) mkHexText(st *State, name string, payload *SliceV) *SliceV {
	if ex.texts == nil {
		ex.texts = map[string]textMeaning{}
	}
	src := "hex:" + name
	ex.texts[src] = textMeaning{hex: payload}
	L := st.Arith(token.MUL, payload.Len, mkConst(2, 64, true), "")
	arr := &ArrayV{Elem: types.Typ[types.Uint8], Segs: []Seg{{Run: &Run{Src: src, Off: constTerm(0), Len: st.TermOf(L)}}}}
	id := ex.newObj(st, arr, nil)
	return &SliceV{Obj: id, Off: mkConst(0, 64, true), Len: L, Cap: L}
}

// textOfSlice: the meaning of a byte slice that is exactly one whole text run.
func (ex *Exec) textOfSlice(st *State, s *SliceV) (textMeaning, bool) {
	if ex.texts == nil || s == nil || s.Unk || s.Nil {
		return textMeaning{}, false
	}
	segs, ok := ex.sliceSegs(st, s)
	if !ok {
		return textMeaning{}, false
	}
	segs = st.dropEmptyRuns(segs)
	if len(segs) != 1 || segs[0].Run == nil {
		return textMeaning{}, false
	}
	r := segs[0].Run
	m, ok := ex.texts[r.Src]
	if !ok || !termEq(r.Off, constTerm(0)) {
		return textMeaning{}, false
	}
	// whole run: its length is the registered one
	if m.dec != nil {
		L := ex.syms.Get("len("+r.Src+")", 64, true)
		if !termEq(r.Len, symTerm(L)) {
			return textMeaning{}, false
		}
	}
	if m.hex != nil {
		if !termEq(r.Len, st.TermOf(st.Arith(token.MUL, m.hex.Len, mkConst(2, 64, true), ""))) {
			return textMeaning{}, false
		}
	}
	return m, true
}

func (ex *Exec) textOfStr(st *State, s *StrV) (textMeaning, bool) {
	if s == nil {
		return textMeaning{}, false
	}
	if s.Text != nil {
		return *s.Text, true
	}
	if s.Bytes != nil {
		return ex.textOfSlice(st, s.Bytes)
	}
	return textMeaning{}, false
}

func intRangeOfBits(bits int64, signed bool) (int64, int64) {
	if bits <= 0 || bits > 63 {
		if signed {
			return -1 << 63, 1<<63 - 1
		}
		return 0, 1<<63 - 1
	}
	if signed {
		return -(int64(1) << uint(bits-1)), int64(1)<<uint(bits-1) - 1
	}
	return 0, int64(1)<<uint(bits) - 1
}

// parseFits forks on "the value fits [lo,hi]": returns (state where it fits or nil, state where it does not or nil).
func (ex *Exec) parseFits(st *State, v *IntV, lo, hi int64) (fit, nofit *State) {
	v64 := st.Convert(v, 64, true)
	l, h := st.Range(v64)
	if l >= lo && h <= hi {
		return st, nil
	}
	if h < lo || l > hi {
		return nil, st
	}
	// fits: lo <= v <= hi
	a := st.Clone()
	okA := a.Assume(">=", v64, mkConst(lo, 64, true)) && a.Assume("<=", v64, mkConst(hi, 64, true))
	if !okA {
		a = nil
	}
	// does not fit: v < lo or v > hi (two states collapse into one over-approximation: no refinement)
	b := st.Clone()
	if l >= lo { // only the upper side can fail
		if !b.Assume(">", v64, mkConst(hi, 64, true)) {
			b = nil
		}
	} else if h <= hi {
		if !b.Assume("<", v64, mkConst(lo, 64, true)) {
			b = nil
		}
	}
	return a, b
}

// textSummary handles the standard-library conversions on texts. ok=false: not a text call (or not modelled).
func (ex *Exec) textSummary(fr *Frame, st *State, fn *ssa.Function, args []Val, x ssa.CallInstruction, resT types.Type) ([]callRes, bool) {
	if ex.texts == nil {
		return nil, false
	}
	name := fn.String()
	errV := func() Val { return &IfaceV{Unk: true, NonNil: true} }
	switch name {
	case "strconv.ParseInt", "strconv.ParseUint", "strconv.Atoi":
		s, _ := args[0].(*StrV)
		m, ok := ex.textOfStr(st, s)
		if !ok || m.dec == nil {
			return nil, false
		}
		bits, signed := int64(64), name != "strconv.ParseUint"
		if name != "strconv.Atoi" {
			base, okb := st.ConstOf(args[1].(*IntV))
			bs, okc := st.ConstOf(args[2].(*IntV))
			if !okb || !okc || (base != 10 && base != 0) {
				return nil, false
			}
			if bs != 0 {
				bits = bs
			}
		}
		lo, hi := intRangeOfBits(bits, signed)
		fit, nofit := ex.parseFits(st, m.dec, lo, hi)
		var out []callRes
		if fit != nil {
			var rv Val = fit.Convert(m.dec, 64, signed)
			out = append(out, callRes{st: fit, ret: &TupleV{Vs: []Val{rv, nilErr()}}})
		}
		if nofit != nil {
			out = append(out, callRes{st: nofit, ret: &TupleV{Vs: []Val{nofit.freshInt("parsefail", 64, signed), errV()}}})
		}
		return out, true
	case "fmt.Sscanf", "fmt.Sscan":
		s, _ := args[0].(*StrV)
		m, ok := ex.textOfStr(st, s)
		if !ok {
			return nil, false
		}
		verb := "%v"
		ai := 1
		if name == "fmt.Sscanf" {
			f, _ := args[1].(*StrV)
			if f == nil || !f.Known {
				return nil, false
			}
			verb = f.S
			ai = 2
		}
		vs, _ := args[ai].(*SliceV)
		elems, okE := ex.sliceElems(st, vs)
		if !okE || len(elems) != 1 {
			return nil, false
		}
		iv, _ := elems[0].(*IfaceV)
		if iv == nil || iv.Unk || iv.Nil {
			return nil, false
		}
		ptr, _ := iv.V.(*PtrV)
		pt, _ := iv.Dyn.(*types.Pointer)
		if ptr == nil || pt == nil || ptr.Unk || ptr.Nil {
			return nil, false
		}
		one := mkConst(1, 64, true)
		zero := mkConst(0, 64, true)
		switch {
		case m.dec != nil && (verb == "%d" || verb == "%v"):
			w, signed, okT := intTypeInfo(pt.Elem())
			if !okT {
				return nil, false
			}
			lo, hi := intRangeOfBits(int64(w), signed)
			fit, nofit := ex.parseFits(st, m.dec, lo, hi)
			var out []callRes
			if fit != nil {
				ex.store(fit, ptr, fit.Convert(m.dec, w, signed))
				out = append(out, callRes{st: fit, ret: &TupleV{Vs: []Val{one, nilErr()}}})
			}
			if nofit != nil {
				out = append(out, callRes{st: nofit, ret: &TupleV{Vs: []Val{zero, errV()}}})
			}
			return out, true
		case m.hex != nil && (verb == "%X" || verb == "%x"):
			sl, okS := pt.Elem().Underlying().(*types.Slice)
			if !okS {
				return nil, false
			}
			if b, okB := sl.Elem().Underlying().(*types.Basic); !okB || b.Kind() != types.Uint8 {
				return nil, false
			}
			// the scanner stores a freshly allocated slice with the decoded bytes
			segs, okG := ex.sliceSegs(st, m.hex)
			if !okG {
				return nil, false
			}
			id := ex.newObj(st, &ArrayV{Elem: types.Typ[types.Uint8], Segs: segs}, nil)
			ex.store(st, ptr, &SliceV{Obj: id, Off: zero, Len: m.hex.Len, Cap: m.hex.Len})
			return []callRes{{st: st, ret: &TupleV{Vs: []Val{one, nilErr()}}}}, true
		}
		// a text scanned with a verb of another alphabet: the outcome is not modelled
		return nil, false
	case "encoding/hex.DecodeString":
		s, _ := args[0].(*StrV)
		m, ok := ex.textOfStr(st, s)
		if !ok || m.hex == nil {
			return nil, false
		}
		segs, okG := ex.sliceSegs(st, m.hex)
		if !okG {
			return nil, false
		}
		id := ex.newObj(st, &ArrayV{Elem: types.Typ[types.Uint8], Segs: segs}, nil)
		return []callRes{{st: st, ret: &TupleV{Vs: []Val{&SliceV{Obj: id, Off: mkConst(0, 64, true), Len: m.hex.Len, Cap: m.hex.Len}, nilErr()}}}}, true
	case "encoding/hex.Decode":
		dst, _ := args[0].(*SliceV)
		src, _ := args[1].(*SliceV)
		m, ok := ex.textOfSlice(st, src)
		if !ok || m.hex == nil || dst == nil || dst.Unk {
			return nil, false
		}
		if le, k := st.Decide("<=", m.hex.Len, dst.Len); !(k && le) {
			return nil, false
		}
		d := &SliceV{Obj: dst.Obj, Path: dst.Path, Off: dst.Off, Len: m.hex.Len, Cap: m.hex.Len}
		ex.copyOp(st, []Val{d, m.hex}, nil)
		return []callRes{{st: st, ret: &TupleV{Vs: []Val{m.hex.Len, nilErr()}}}}, true
	case "encoding/hex.DecodedLen":
		if n, ok := args[0].(*IntV); ok {
			return []callRes{{st: st, ret: st.Arith(token.QUO, n, mkConst(2, 64, true), "")}}, true
		}
	}
	_ = fmt.Sprint
	_ = constant.MakeBool
	_ = strings.Contains
	return nil, false
}
