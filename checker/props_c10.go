package main

import (
	"fmt"
	"go/token"
	"go/types"
	"sort"
	"strings"

	"golang.org/x/tools/go/ssa"
)

func init() { register("C10", checkC10) }

// loggerFuncs: implementations of smf.Logger.Printf in the module (external-callback class).
func loggerFuncs(p *Program) map[*ssa.Function]bool {
	out := map[*ssa.Function]bool{}
	li := p.IfaceType("smf", "Logger")
	if li == nil {
		return out
	}
	for _, T := range p.Implementers(li) {
		if f := p.MethodOf(T, "Printf"); f != nil {
			out[f] = true
		}
	}
	return out
}

func minus(fs []*ssa.Function, drop map[*ssa.Function]bool) []*ssa.Function {
	var out []*ssa.Function
	for _, f := range fs {
		if !drop[f] {
			out = append(out, f)
		}
	}
	return out
}

// inMemoryDiscardOK: discarding the error of this call is harmless because the destination
// cannot fail. Matched by resolved callee AND static destination type.
func inMemoryDiscardOK(c ssa.CallInstruction) (bool, string) {
	cc := c.Common()
	q := calleeQual(c)
	isBuf := func(v ssa.Value) bool {
		t := strip(v).Type()
		return t.String() == "*bytes.Buffer"
	}
	if f := cc.StaticCallee(); f != nil {
		if recv := f.Signature.Recv(); recv != nil && recv.Type().String() == "*bytes.Buffer" {
			return true, "(*bytes.Buffer)." + f.Name() + " never returns a non-nil error"
		}
		if InModule(f) && neverFails(f) {
			return true, FuncName(f) + ": every return carries a nil error (derived from its SSA)"
		}
	}
	switch q {
	case "binary.Write":
		if len(cc.Args) > 0 && isBuf(cc.Args[0]) {
			return true, "binary.Write of a fixed-size value into a *bytes.Buffer"
		}
	case "fmt.Fprintf", "fmt.Fprint", "fmt.Fprintln":
		if len(cc.Args) > 0 && isBuf(cc.Args[0]) {
			return true, "fmt.Fprint* into a *bytes.Buffer"
		}
	}
	return false, ""
}

// errFlowScope runs rules a (discard) and b (swallow) on a set of functions.
func errFlowScope(c *Ctx, rule string, scope []*ssa.Function, latchUsers map[*types.Var]bool) (sites int) {
	p := c.P
	for _, fn := range scope {
		c.Fn(FuncName(fn))
		seq := map[string]int{}
		for _, s := range errorSites(fn) {
			sites++
			base := FuncName(fn) + " <- " + s.name
			seq[base]++
			key := fmt.Sprintf("%s #%d", base, seq[base])
			pos := p.Pos(s.call.Pos())
			if _, isDefer := s.call.(*ssa.Defer); isDefer {
				c.OK(rule, key, pos, "deferred call: result unobservable by language rule; not on the data path")
				continue
			}
			d := classifyErr(fn, s)
			if d.discarded {
				if ok, why := inMemoryDiscardOK(s.call); ok {
					c.OK(rule, key, pos, "error discarded, allowed: "+why)
				} else if ok, why := countedReadDiscardOK(p, fn, s.call); ok {
					c.OK(rule, key, pos, "error discarded, allowed: "+why)
				} else {
					c.Bad(rule, key, pos, "error result of "+s.name+" is discarded (never extracted or never used)")
				}
				continue
			}
			if len(d.problems) > 0 {
				c.Bad(rule, key, pos, "error swallowed: "+strings.Join(d.problems, "; "))
				continue
			}
			switch {
			case d.returned:
				c.OK(rule, key, pos, fmt.Sprintf("propagated (returned; %d nil-tests, all non-nil edges lead only to non-nil returns)", d.compared))
			case len(d.latched) > 0:
				for _, fv := range d.latched {
					latchUsers[fv] = true
				}
				c.OK(rule, key, pos, "latched into error field "+d.latched[0].Name()+" (latch discipline checked separately)")
			case d.compared > 0 && d.passedOn:
				c.OK(rule, key, pos, "tested and passed on (wrapped/forwarded); all non-nil edges lead only to non-nil returns")
			case d.compared > 0:
				sig := fn.Signature
				if sig.Results().Len() > 0 && isErrorType(sig.Results().At(sig.Results().Len()-1).Type()) {
					c.OK(rule, key, pos, "tested; every return reachable from the non-nil edge carries a definitely non-nil error")
				} else if d.rejects {
					c.OK(rule, key, pos, "tested; every return reachable from the non-nil edge reports rejection (false)")
				} else {
					c.Bad(rule, key, pos, "error tested in a function without error result and neither latched nor forwarded")
				}
			case d.passedOn:
				c.Bad(rule, key, pos, "error only passed to another call (e.g. logged) but neither returned, tested nor latched")
			default:
				c.Bad(rule, key, pos, "error value has uses but none of them reports it")
			}
		}
	}
	return
}

// latchDiscipline: an error latch field is never reset to nil, and every function in scope
// that calls a latch-writing function without error result tests the latch before returning.
func latchDiscipline(c *Ctx, rule string, scope []*ssa.Function, latches map[*types.Var]bool) {
	p := c.P
	writers := map[*ssa.Function]map[*types.Var]bool{}
	for _, fn := range scope {
		for _, b := range fn.Blocks {
			for _, in := range b.Instrs {
				st, ok := in.(*ssa.Store)
				if !ok {
					continue
				}
				fv := fieldVar(st.Addr)
				if fv == nil || !latches[fv] {
					continue
				}
				if isNilConst(st.Val) && onlyOnFreshObjects(p, fn, st) {
					// initialisation of an object that was allocated by the caller just for this call (a constructor's
					// "init" half): there is no earlier failure to forget
					c.OK(rule, "latch-init "+fv.Name()+" in "+FuncName(fn), p.Pos(st.Pos()), "nil stored into the latch of a freshly allocated object at every call site")
					continue
				}
				if isNilConst(st.Val) {
					c.Bad(rule, "latch-reset "+fv.Name()+" in "+FuncName(fn), p.Pos(st.Pos()), "error latch is reset to nil: an earlier failure would be forgotten")
					continue
				}
				if writers[fn] == nil {
					writers[fn] = map[*types.Var]bool{}
				}
				writers[fn][fv] = true
			}
		}
	}
	inScope := map[*ssa.Function]bool{}
	for _, f := range scope {
		inScope[f] = true
	}
	hasErrResult := func(f *ssa.Function) bool {
		r := f.Signature.Results()
		return r.Len() > 0 && isErrorType(r.At(r.Len()-1).Type())
	}
	// a function without error result that calls a latch writer (without error result) hands the obligation on to ITS
	// callers: it is itself a (transitive) latch writer. The latch must be looked at by the first function up the call
	// chain that can report an error.
	for changed := true; changed; {
		changed = false
		for _, fn := range scope {
			if hasErrResult(fn) {
				continue
			}
			for _, call := range calls(fn) {
				callee := call.Common().StaticCallee()
				if callee == nil || writers[callee] == nil || hasErrResult(callee) {
					continue
				}
				for fv := range writers[callee] {
					if writers[fn] == nil {
						writers[fn] = map[*types.Var]bool{}
					}
					if !writers[fn][fv] {
						writers[fn][fv] = true
						changed = true
					}
				}
			}
		}
	}
	for _, fn := range scope {
		if !hasErrResult(fn) {
			continue // transitive writer: its callers are checked
		}
		for _, call := range calls(fn) {
			callee := call.Common().StaticCallee()
			if callee == nil || writers[callee] == nil {
				continue
			}
			sig := callee.Signature
			if sig.Results().Len() > 0 && isErrorType(sig.Results().At(sig.Results().Len()-1).Type()) {
				continue // reports through its result; covered by the flow rule
			}
			for fv := range writers[callee] {
				// loads of fv in fn that are nil-tested or returned
				tests := map[ssa.Instruction]bool{}
				for _, b := range fn.Blocks {
					for _, in := range b.Instrs {
						l, ok := in.(*ssa.UnOp)
						if !ok || l.Op != token.MUL || fieldVar(l.X) != fv {
							continue
						}
						for _, u := range liveRefs(l) {
							switch x := u.(type) {
							case *ssa.BinOp:
								if isNilConst(x.X) || isNilConst(x.Y) {
									tests[l] = true
								}
							case *ssa.Return:
								tests[l] = true
							}
						}
					}
				}
				ok := true
				for _, r := range allReturns(fn) {
					if canReachAvoiding(call, r, tests) {
						ok = false
					}
				}
				// the callee may report the latch through a boolean result computed from it ("ok := r.error == nil"):
				// a caller that branches on (or hands on) that result has looked at the latch
				if !ok && sig.Results().Len() == 1 {
					reflects := len(allReturns(callee)) > 0
					for _, r := range allReturns(callee) {
						bo, isB := retVal(r, 0).(*ssa.BinOp)
						if !isB || (bo.Op != token.EQL && bo.Op != token.NEQ) {
							reflects = false
							break
						}
						l, _ := bo.X.(*ssa.UnOp)
						other := bo.Y
						if l == nil || fieldVar(l.X) != fv {
							l, _ = bo.Y.(*ssa.UnOp)
							other = bo.X
						}
						if l == nil || l.Op != token.MUL || fieldVar(l.X) != fv || !isNilConst(other) {
							reflects = false
							break
						}
					}
					if cv, isV := call.(ssa.Value); reflects && isV {
						used := false
						for _, u := range liveRefs(cv) {
							switch u.(type) {
							case *ssa.If, *ssa.Return:
								used = true
							}
						}
						ok = used
					}
				}
				key := "latch-check " + fv.Name() + " after " + FuncName(callee) + " in " + FuncName(fn)
				c.Check(ok, rule, key, p.Pos(call.Pos()), "every path from the call to a return tests or returns the latch", "a path from the call to a return never looks at the error latch the callee may have set")
			}
		}
	}
}

// sentinelTest recognises "err == Sentinel" / "err != Sentinel" and errors.Is(err, Sentinel): the error value tested,
// the sentinel variable, and the If edges on which the error IS the sentinel.
func sentinelTest(in ssa.Instruction) (ev ssa.Value, sentinel *ssa.Global, eqEdges []edge, ok bool) {
	globalOf := func(v ssa.Value) *ssa.Global {
		if l, ok := v.(*ssa.UnOp); ok && l.Op == token.MUL {
			if g, ok := l.X.(*ssa.Global); ok {
				return g
			}
		}
		return nil
	}
	var res ssa.Value
	neg := false
	switch x := in.(type) {
	case *ssa.BinOp:
		if (x.Op != token.EQL && x.Op != token.NEQ) || !isErrorType(x.X.Type()) {
			return nil, nil, nil, false
		}
		if g := globalOf(x.Y); g != nil {
			ev, sentinel = x.X, g
		} else if g := globalOf(x.X); g != nil {
			ev, sentinel = x.Y, g
		} else {
			return nil, nil, nil, false
		}
		res, neg = x, x.Op == token.NEQ
	case *ssa.Call:
		if calleeQual(x) != "errors.Is" || len(x.Call.Args) != 2 {
			return nil, nil, nil, false
		}
		g := globalOf(x.Call.Args[1])
		if g == nil {
			return nil, nil, nil, false
		}
		ev, sentinel, res = x.Call.Args[0], g, x
	default:
		return nil, nil, nil, false
	}
	var walk func(v ssa.Value, neg bool, d int)
	walk = func(v ssa.Value, neg bool, d int) {
		if d > 3 {
			return
		}
		for _, u := range liveRefs(v) {
			switch y := u.(type) {
			case *ssa.If:
				te, fe := ifEdges(y)
				if neg {
					eqEdges = append(eqEdges, fe)
				} else {
					eqEdges = append(eqEdges, te)
				}
			case *ssa.UnOp:
				if y.Op == token.NOT {
					walk(y, !neg, d+1)
				}
			}
		}
	}
	walk(res, neg, 0)
	return ev, sentinel, eqEdges, true
}

// conversions: tests of an error against a non-nil sentinel whose "is the sentinel" edge can reach a nil-error return.
func errConversions(p *Program, fn *ssa.Function) map[string]string {
	out := map[string]string{}
	for _, b := range fn.Blocks {
		for _, in := range b.Instrs {
			ev, sentinel, eqEdges, ok := sentinelTest(in)
			if !ok {
				continue
			}
			for _, eqEdge := range eqEdges {
				eq := errEq(fn, ev)
				region := nonNilRegion(eqEdge, eq)
				for _, r := range allReturns(fn) {
					if region[r.Block()] && len(r.Results) > 0 && isErrorType(retVal(r, len(r.Results)-1).Type()) &&
						!definitelyNonNil(retVal(r, len(r.Results)-1), eq, region, eqEdge, map[ssa.Value]bool{}) {
						out[sentinel.Pkg.Pkg.Name()+"."+sentinel.Name()] = p.Pos(in.Pos())
					}
				}
			}
		}
	}
	return out
}

func checkC10(c *Ctx) {
	p := c.P
	c.Level = "proof"
	c.Explain = "C10 decided by an all-paths error-flow analysis (E-err): every fallible call reachable from (*SMF).WriteTo / smf.ReadFrom either propagates its error, or is tested and every return reachable from the edge on which the error is known non-nil carries a definitely non-nil error, or is latched into an error field that every caller tests; discards are allowed only into in-memory destinations. By induction up the call graph a failing Write/Read makes the entry point return non-nil. Size accounting: the user's io.Writer flows only into the counting wrapper."
	c.Trusted = []string{"io.Writer / io.Reader contracts", "bytes.Buffer never fails", "fmt.Errorf / errors.New return non-nil", "go/ssa + VTA call graph"}
	c.Rule("C10.1", "write path: no fallible call reachable from (*SMF).WriteTo drops or swallows its error (discard only into in-memory destinations; every return reachable from a non-nil edge is definitely non-nil; latches are tested)", 8)
	c.Rule("C10.2", "size accounting: in the whole-file simulation of WriteTo every outcome that returns nil reports as size exactly the number of bytes the destination accepted (nil only if every Write was accepted: C10.5)", 1)
	c.Rule("C10.3", "read path: same two sub-rules for everything reachable from smf.ReadFrom; conversions of a non-nil error to success are confined to {io.EOF, ErrFinished} in ReadFrom", 10)
	c.Rule("C10.4", "WriteFile: abstract run with creation, WriteTo and closing each succeeding or failing — a failed WriteTo always ends in a non-nil error with the partial file removed; a nil result only after a successful WriteTo, and then the file is not removed", 1)
	c.Rule("C10.6", "whole-file read simulation with a source that may fail at EVERY Read (sticky non-EOF error, nothing delivered): every outcome in which some Read failed returns a definite error — never a silently shortened file; the outcomes without failure return nil", 1)
	c.Rule("C10.5", "whole-file write simulation with a destination that may fail at EVERY Write (error or short count): every outcome in which some Write failed returns a definite error, however the error travels (result, latch, deferred assignment); the outcomes without failure return nil", 1)

	writeTo := p.Method("smf", "SMF", "WriteTo")
	readFrom := p.Func("smf", "ReadFrom")
	writeFile := p.Method("smf", "SMF", "WriteFile")
	if writeTo == nil || readFrom == nil || writeFile == nil {
		c.Unk("C10.1", "anchors", "-", "WriteTo/ReadFrom/WriteFile not resolved")
		return
	}
	loggers := loggerFuncs(p)
	// ---- write path
	wscope := minus(p.Reachable(writeTo), loggers)
	latches := map[*types.Var]bool{}
	n := errFlowScope(c, "C10.1", wscope, latches)
	latchDiscipline(c, "C10.1", wscope, latches)
	c.Extra["write_path_fallible_sites"] = n

	// ---- C10.2 size accounting
	runWriteToSim(c, "", "", "", "C10.2", "")

	// ---- read path
	rscope := minus(p.Reachable(readFrom), loggers)
	rl := map[*types.Var]bool{}
	n = errFlowScope(c, "C10.3", rscope, rl)
	latchDiscipline(c, "C10.3", rscope, rl)
	c.Extra["read_path_fallible_sites"] = n
	allowed := map[string]map[string]bool{FuncName(readFrom): {"io.EOF": true, "smf.ErrFinished": true}}
	for _, fn := range rscope {
		conv := errConversions(p, fn)
		var names []string
		for k := range conv {
			names = append(names, k)
		}
		sort.Strings(names)
		for _, k := range names {
			ok := allowed[FuncName(fn)][k]
			c.Check(ok, "C10.3", "conversion "+k+" in "+FuncName(fn), conv[k], "allowed end-of-input conversion", "a non-nil error ("+k+") is converted to success here; only io.EOF and ErrFinished in ReadFrom may be")
		}
	}

	// success sentinels must not be manufactured on a failure edge: io.EOF / ErrFinished are what ReadFrom turns into success,
	// so producing one of them where another error is known non-nil launders that error (possibly a real I/O failure,
	// since the VLQ reader reports every failed read as ErrUnexpectedEOF)
	for _, fn := range rscope {
		// non-nil edges of all call-produced errors of fn
		var nnEdges []edge
		for _, s := range errorSites(fn) {
			if s.errV == nil {
				continue
			}
			visited := map[ssa.Value]bool{}
			var visit func(v ssa.Value)
			visit = func(v ssa.Value) {
				if visited[v] {
					return
				}
				visited[v] = true
				eq := errEq(fn, v)
				nn, _ := nonNilEdges(eq)
				nnEdges = append(nnEdges, nn...)
				for w := range eq {
					for _, u := range liveRefs(w) {
						if phi, ok := u.(*ssa.Phi); ok {
							visit(phi)
						}
					}
				}
			}
			visit(s.errV)
		}
		if len(nnEdges) == 0 {
			continue
		}
		for _, b := range fn.Blocks {
			for _, in := range b.Instrs {
				l, ok := in.(*ssa.UnOp)
				if !ok || l.Op != token.MUL {
					continue
				}
				g, ok := l.X.(*ssa.Global)
				if !ok || !isErrorType(g.Type().(*types.Pointer).Elem()) {
					continue
				}
				name := g.Pkg.Pkg.Name() + "." + g.Name()
				if name != "io.EOF" && name != "smf.ErrFinished" {
					continue
				}
				// used as a value (not only compared)?
				produced := false
				for _, u := range liveRefs(l) {
					switch u.(type) {
					case *ssa.Return, *ssa.Store, *ssa.Phi:
						produced = true
					}
				}
				if !produced {
					continue
				}
				under := false
				for _, e := range nnEdges {
					if edgeDominates(fn, e, b) || e.to == b {
						under = true
					}
				}
				c.Check(!under, "C10.3", "success sentinel "+name+" produced in "+FuncName(fn), p.Pos(l.Pos()), "produced outside any failure edge (genuine end of input)", name+" (which ReadFrom turns into success) is produced on an edge where another error is known non-nil: that error — possibly a source failure — is laundered into success")
			}
		}
	}

	// ---- C10.5 / C10.6
	runWriteToSim(c, "", "", "", "", "", "C10.5")
	runReadFromSim(c, "", "", "C10.6")
	// ---- C10.4
	c.Fn(FuncName(writeFile))
	found := false
	for _, s := range errorSites(writeFile) {
		if s.call.Common().StaticCallee() != writeTo {
			continue
		}
		found = true
		d := classifyErr(writeFile, s)
		ok := !d.discarded && len(d.problems) == 0 && d.compared > 0
		// os.Remove must be on the non-nil edge
		rm := false
		if s.errV != nil {
			eq := errEq(writeFile, s.errV)
			nn, _ := nonNilEdges(eq)
			for _, call := range calls(writeFile) {
				if calleeQual(call) == "os.Remove" {
					for _, e := range nn {
						if edgeDominates(writeFile, e, call.Block()) || e.to == call.Block() {
							rm = true
						}
					}
				}
			}
		}
		// the destination handed to WriteTo is the created file itself; if a layer stands in between (buffering),
		// every fallible call on that layer (Flush) must be reported like WriteTo's own error
		if dst := strip(s.call.Common().Args[1]); dst != nil {
			isFile := false
			if ex, okx := dst.(*ssa.Extract); okx {
				if cc, okc := ex.Tuple.(*ssa.Call); okc {
					q := calleeQual(cc)
					isFile = q == "os.Create" || q == "os.OpenFile"
				}
			}
			if !isFile {
				nLayer := 0
				for _, s2 := range errorSites(writeFile) {
					cc := s2.call.Common()
					if s2.call == s.call || len(cc.Args) == 0 || strip(cc.Args[0]) != dst {
						continue
					}
					nLayer++
					d2 := classifyErr(writeFile, s2)
					key := "WriteFile: " + calleeQual(s2.call) + " on the layer between WriteTo and the file"
					c.Check(!d2.discarded && len(d2.problems) == 0 && d2.compared > 0, "C10.4", key, p.Pos(s2.call.Pos()), "error tested and reported", fmt.Sprintf("the error of %s is not reported (discarded=%v problems=%v): bytes still buffered when WriteTo returned can be lost silently", calleeQual(s2.call), d2.discarded, d2.problems))
				}
				if nLayer == 0 {
					c.Bad("C10.4", "WriteFile: destination of WriteTo", p.Pos(s.call.Pos()), "WriteTo writes into something that is not the created file and whose completion (flush) is never checked")
				}
			}
		}
		_, _ = ok, rm
		okSim, whySim := writeFileSim(p, writeFile, writeTo)
		c.Check(okSim, "C10.4", "WriteFile <- WriteTo", p.Pos(s.call.Pos()), "abstract run of WriteFile (creation may fail, WriteTo may fail, closing may fail): a failed WriteTo always ends in a non-nil error with the partial file removed; a nil result only after a successful WriteTo, and then the file is not removed", whySim)
	}
	if !found {
		c.Unk("C10.4", "WriteFile <- WriteTo", "-", "WriteFile does not call WriteTo")
	}
}

func checkSizeAccounting(c *Ctx, rule string, writeTo *ssa.Function, scope []*ssa.Function) {
	p := c.P
	dst := writeTo.Params[1]
	fl := NewFlow(p, scope, dst)
	// every dynamic Write on the destination must be in a method named Write of a type implementing io.Writer
	// that adds the returned count to a field, and that field is what WriteTo returns.
	var counter *types.Var
	nw := 0
	for _, call := range fl.Invokes {
		m := call.Common().Method.Name()
		fn := call.Parent()
		key := "dst." + m + " in " + FuncName(fn)
		if m == "Close" {
			continue
		}
		if m != "Write" {
			c.Bad(rule, key, p.Pos(call.Pos()), "method other than Write invoked on the destination")
			continue
		}
		nw++
		// wrapper shape: fn is a Write method; count result flows (via convert) into an add that is stored into a field
		okShape := fn.Name() == "Write" && fn.Signature.Recv() != nil
		var cnt ssa.Value
		if v := call.Value(); v != nil {
			for _, u := range liveRefs(v) {
				if ex, ok := u.(*ssa.Extract); ok && ex.Index == 0 {
					cnt = ex
				}
			}
		}
		added := false
		if cnt != nil {
			var follow func(v ssa.Value, d int)
			follow = func(v ssa.Value, d int) {
				if d > 4 {
					return
				}
				for _, u := range liveRefs(v) {
					switch x := u.(type) {
					case *ssa.Convert:
						follow(x, d+1)
					case *ssa.BinOp:
						if x.Op == token.ADD {
							for _, uu := range liveRefs(x) {
								if st, ok := uu.(*ssa.Store); ok {
									if fv := fieldVar(st.Addr); fv != nil {
										// other operand must be a load of the same field
										o := x.X
										if o == v {
											o = x.Y
										}
										if l, ok := o.(*ssa.UnOp); ok && fieldVar(l.X) == fv {
											added = true
											counter = fv
										}
									}
								}
							}
						}
					}
				}
			}
			follow(cnt, 0)
		}
		// the count must also be returned unchanged
		c.Check(okShape && added, rule, key, p.Pos(call.Pos()), "counting wrapper: accepted count is added to the size field", "a Write on the destination outside a counting wrapper, or the accepted count is not accumulated")
	}
	if nw == 0 {
		c.Unk(rule, "dst.Write", "-", "no Write on the destination found")
	}
	for _, call := range fl.Escapes {
		c.Bad(rule, "escape to "+calleeQual(call)+" in "+FuncName(call.Parent()), p.Pos(call.Pos()), "the destination writer is handed to a callee outside the module: bytes written there are not counted")
	}
	// WriteTo's size results
	for _, r := range allReturns(writeTo) {
		sz := retVal(r, 0)
		errOp := retVal(r, 1)
		key := fmt.Sprintf("WriteTo return (nil-error=%v)", isNilConst(errOp))
		if k, ok := constInt(sz); ok && k == 0 {
			// allowed before anything was written: must not be reachable after a wrapper Write... header failure returns 0
			c.OK(rule, key+" const0 @"+fmt.Sprint(r.Block().Index), p.Pos(r.Pos()), "constant 0 with an error (nothing reported as written)")
			if isNilConst(errOp) {
				c.Bad(rule, key+" const0-nil", p.Pos(r.Pos()), "returns size 0 with nil error")
			}
			continue
		}
		l, ok := sz.(*ssa.UnOp)
		okLoad := ok && counter != nil && fieldVar(l.X) == counter
		c.Check(okLoad, rule, key+" @"+fmt.Sprint(r.Block().Index), p.Pos(r.Pos()), "size is a load of the wrapper's counter", "returned size is not the counting wrapper's counter")
	}
	// a nil-error return must only be reachable via the normal exit of the outer track loop
	loops := naturalLoops(writeTo)
	for _, r := range allReturns(writeTo) {
		if !isNilConst(retVal(r, 1)) {
			continue
		}
		// find the outermost loop that contains a call into the chunk flush (any call) - use the last top-level loop
		var outer *loopInfo
		for _, l := range loops {
			inner := false
			for _, o := range loops {
				if o != l && o.Body[l.Head] {
					inner = true
				}
			}
			if !inner {
				outer = l // last top-level loop in block order
			}
		}
		if outer == nil {
			c.Unk(rule, "nil-return via loop exit", p.Pos(r.Pos()), "no track loop found in WriteTo")
			continue
		}
		// every pred path into r.Block from inside the loop must come from the loop head (normal exit), not from a body block
		ok := true
		var bad string
		reach := func(from *ssa.BasicBlock) bool {
			return blockReach(from, nil, nil)[r.Block()]
		}
		for b := range outer.Body {
			if b == outer.Head {
				continue
			}
			for _, s := range b.Succs {
				if !outer.Body[s] && reach(s) {
					ok = false
					bad = fmt.Sprintf("block %d leaves the track loop early and reaches the nil-error return", b.Index)
				}
			}
		}
		c.Check(ok, rule, "nil-return only via normal loop exit", p.Pos(r.Pos()), "the only way from inside the track loop to the nil-error return is the loop's own exit test", bad)
	}
}

// countedReadDiscardOK: the error of a one-byte Read may be dropped when the count decides:
// every abstract path of the enclosing function that leaves through a short-count edge
// returns a definitely non-nil error (E-abs with the short-count edges watched).
func countedReadDiscardOK(p *Program, fn *ssa.Function, call ssa.CallInstruction) (bool, string) {
	if !invokeIs(call, "Read") {
		return false, ""
	}
	rs := analyseReadSite(call)
	if !rs.constL || rs.bufLen != 1 || rs.count == nil {
		return false, ""
	}
	mis, _ := countMismatchEdges(rs.count, 1, true, nil)
	if len(mis) == 0 {
		return false, ""
	}
	sig := fn.Signature
	n := sig.Results().Len()
	if n == 0 || !isErrorType(sig.Results().At(n-1).Type()) {
		return false, ""
	}
	ex := NewExec(p)
	ex.WatchEdges = map[edge]bool{}
	for _, e := range mis {
		ex.WatchEdges[e] = true
	}
	st := ex.NewState()
	outs := ex.Call(st, fn, nil, nil)
	if ex.Budget || len(outs) == 0 || len(ex.Unsupported) > 0 {
		return false, ""
	}
	short := 0
	for _, o := range outs {
		took := false
		for _, e := range o.St.Events {
			if e.Kind == "edge" {
				took = true
			}
		}
		if !took {
			continue
		}
		short++
		if o.Panic {
			continue
		}
		ev, _ := o.Ret[n-1].(*IfaceV)
		if ev == nil || ev.Nil || (ev.Unk && !ev.NonNil) {
			return false, ""
		}
		// the error of the read was thrown away, so nothing is known about WHY the byte is missing: reporting the
		// end-of-input sentinel here would present a failing source as a regular end of the stream
		if ev.Sentinel == "io.EOF" || ev.Sentinel == "smf.ErrFinished" {
			return false, ""
		}
	}
	if short == 0 {
		return false, ""
	}
	return true, fmt.Sprintf("one-byte Read whose count is tested; on all %d abstract paths through a short-count edge (%d paths total, loop widened with inductive invariants) the function returns a non-nil error", short, len(outs))
}

// writeFileSim: abstract run of WriteFile. The calls that create the file, WriteTo and the calls that close / remove
// are not analysed here: creation yields (file, nil) or (nil, error); WriteTo yields (n, nil) or (n, error); everything
// else on the file yields an unknown error. Decided on the outcomes, so it does not matter how the error travels
// (one variable re-used for the close error, early returns, a deferred close, helpers).
func writeFileSim(p *Program, writeFile, writeTo *ssa.Function) (bool, string) {
	ex := NewExec(p)
	ex.CallHook = func(ex *Exec, st *State, fr *Frame, call ssa.CallInstruction, callee *ssa.Function, args []Val) ([]callRes, bool) {
		if callee == writeTo {
			okSt, badSt := st, st.Clone()
			okSt.Events = append(okSt.Events, Event{Kind: "sim:writeto-ok"})
			badSt.Events = append(badSt.Events, Event{Kind: "sim:writeto-failed"})
			n1 := okSt.freshInt("n", 64, true)
			n2 := badSt.freshInt("n", 64, true)
			return []callRes{
				{st: okSt, ret: &TupleV{Vs: []Val{n1, nilErr()}}},
				{st: badSt, ret: &TupleV{Vs: []Val{n2, &IfaceV{Unk: true, NonNil: true}}}},
			}, true
		}
		switch callee.String() {
		case "os.Create", "os.OpenFile", "os.CreateTemp":
			okSt, badSt := st, st.Clone()
			var ft types.Type
			if res := callee.Signature.Results(); res.Len() == 2 {
				if pt, ok := res.At(0).Type().(*types.Pointer); ok {
					ft = pt.Elem()
				}
			}
			if ft == nil {
				return nil, false
			}
			f := ex.newZeroObject(okSt, ft)
			return []callRes{
				{st: okSt, ret: &TupleV{Vs: []Val{f, nilErr()}}},
				{st: badSt, ret: &TupleV{Vs: []Val{&PtrV{Nil: true}, &IfaceV{Unk: true, NonNil: true}}}},
			}, true
		case "os.Remove":
			st.Events = append(st.Events, Event{Kind: "sim:remove"})
			return []callRes{{st: st, ret: &IfaceV{Unk: true}}}, true
		}
		return nil, false
	}
	st := ex.NewState()
	recvT := writeFile.Signature.Recv()
	if recvT == nil {
		return false, "WriteFile is not a method"
	}
	pt, _ := recvT.Type().(*types.Pointer)
	if pt == nil {
		return false, "WriteFile receiver is not a pointer"
	}
	sp := ex.newZeroObject(st, pt.Elem())
	if sv, ok := st.heap[sp.Obj].(*StructV); ok {
		for i := 0; i < sv.T.NumFields(); i++ {
			sv.Fields[i] = ex.topOf(st, sv.T.Field(i).Type(), "smf."+sv.T.Field(i).Name())
		}
	}
	outs := ex.Call(st, writeFile, []Val{sp, ex.unknownString(st, "path")}, nil)
	if ex.Budget || len(outs) == 0 {
		return false, "abstract run of WriteFile did not complete"
	}
	nFail, nOK := 0, 0
	for _, o := range outs {
		if o.Panic {
			continue // C05 / C01.8 territory; not this rule
		}
		wrote, failed, removed := false, false, false
		for _, e := range o.St.Events {
			switch e.Kind {
			case "sim:writeto-ok":
				wrote = true
			case "sim:writeto-failed":
				failed = true
			case "sim:remove":
				removed = true
			}
		}
		ev, _ := o.Ret[len(o.Ret)-1].(*IfaceV)
		isNil := ev != nil && ev.Nil
		nonNil := ev != nil && !ev.Nil && (!ev.Unk || ev.NonNil)
		switch {
		case failed:
			nFail++
			if !nonNil {
				return false, "WriteTo failed and WriteFile returns " + valString(o.Ret[len(o.Ret)-1]) + " (not a definite error) [" + outcomeWitness(o) + "]"
			}
			if !removed {
				return false, "WriteTo failed and the partial file is left in place (no os.Remove on that path)"
			}
		case wrote:
			nOK++
			if isNil && removed {
				return false, "WriteFile reports success but has removed the file"
			}
			if removed && !nonNil {
				return false, "the file is removed on a path where WriteTo succeeded and no definite error is returned"
			}
		default:
			if !nonNil && !isNil {
				continue // e.g. a pre-check of the value; neither file nor write involved
			}
			if isNil {
				return false, "WriteFile reports success on a path that never called WriteTo [" + outcomeWitness(o) + "]"
			}
		}
	}
	if nFail == 0 || nOK == 0 {
		return false, fmt.Sprintf("WriteTo is not reached on both outcomes (failed=%d ok=%d)", nFail, nOK)
	}
	return true, ""
}

// onlyOnFreshObjects: the store goes through the function's receiver / first parameter, and at every static call site of
// the function in the module that argument is an object allocated in the calling function (new / &T{}) that has not been
// handed to anything else before the call.
func onlyOnFreshObjects(p *Program, fn *ssa.Function, st *ssa.Store) bool {
	if len(fn.Params) == 0 {
		return false
	}
	base := st.Addr
	for i := 0; i < 6; i++ {
		if fa, ok := base.(*ssa.FieldAddr); ok {
			base = fa.X
			continue
		}
		break
	}
	if base != ssa.Value(fn.Params[0]) {
		return false
	}
	sites := 0
	for caller := range p.All {
		if !InModule(caller) {
			continue
		}
		for _, call := range calls(caller) {
			cc := call.Common()
			if cc.StaticCallee() != fn {
				// the function used as a value (method value, interface dispatch) cannot be followed
				for _, a := range cc.Args {
					if a == ssa.Value(fn) {
						return false
					}
				}
				continue
			}
			sites++
			if len(cc.Args) == 0 {
				return false
			}
			al, ok := cc.Args[0].(*ssa.Alloc)
			if !ok || al.Parent() != caller {
				return false
			}
			ci := call.(ssa.Instruction)
			// before the call the fresh object is used for nothing but field initialisation
			for _, r := range *al.Referrers() {
				if r == ci {
					continue
				}
				switch x := r.(type) {
				case *ssa.FieldAddr, *ssa.DebugRef:
				case *ssa.Store:
					if x.Addr != ssa.Value(al) {
						if r.Block() == ci.Block() && instrIndex(r) < instrIndex(ci) || r.Block() != ci.Block() && instrDominates(r, ci) {
							return false // escaped before the call
						}
					}
				default:
					if ri, ok := r.(ssa.Instruction); ok && (ri.Block() == ci.Block() && instrIndex(ri) < instrIndex(ci) || ri.Block() != ci.Block() && instrDominates(ri, ci)) {
						return false
					}
				}
			}
		}
	}
	if fn.Referrers() != nil && len(*fn.Referrers()) > sites {
		// referenced somewhere other than as a static callee
	}
	return sites > 0
}
