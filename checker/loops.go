package main

import (
	"fmt"
	"go/token"
	"go/types"
	"strings"

	"golang.org/x/tools/go/ssa"
)

// loopTermination (C05.4): classify every natural loop of the scope.
func loopTermination(c *Ctx, rule string, scope []*ssa.Function) {
	p := c.P
	inScope := map[*ssa.Function]bool{}
	for _, f := range scope {
		inScope[f] = true
	}
	consuming := consumingFuncs(scope)
	n := 0
	for _, fn := range scope {
		for li, l := range naturalLoops(fn) {
			n++
			key := fmt.Sprintf("loop #%d in %s", li+1, FuncName(fn))
			pos := p.Pos(fn.Pos())
			for _, in := range l.Head.Instrs {
				if in.Pos().IsValid() {
					pos = p.Pos(in.Pos())
					break
				}
			}
			if why := classifyLoop(fn, l, consuming); why != "" {
				c.OK(rule, key, pos, why)
			} else {
				c.Bad(rule, key, pos, "loop is neither counted, input-consuming with exit on failure, strictly decreasing nor a converging two-index loop: termination on arbitrary input is not evident")
			}
		}
	}
	if n == 0 {
		c.Unk(rule, "loops", "-", "no loop found on the read path")
	}
}

func definedOutside(v ssa.Value, l *loopInfo) bool {
	switch x := v.(type) {
	case *ssa.Const, *ssa.Parameter, *ssa.Global, *ssa.FreeVar:
		return true
	case *ssa.Convert:
		return definedOutside(x.X, l)
	case *ssa.ChangeType:
		return definedOutside(x.X, l)
	case *ssa.Call:
		// len/cap of a loop-invariant value, re-evaluated in the loop
		if bi, ok := x.Call.Value.(*ssa.Builtin); ok && (bi.Name() == "len" || bi.Name() == "cap") && len(x.Call.Args) == 1 {
			return definedOutside(x.Call.Args[0], l)
		}
	case *ssa.UnOp:
		if x.Op == token.MUL && l.Body[x.Block()] {
			// a field re-loaded in the loop is invariant if the loop neither stores that field nor calls module code
			fv := fieldVar(x.X)
			if fv == nil {
				return false
			}
			for b := range l.Body {
				for _, in := range b.Instrs {
					switch y := in.(type) {
					case *ssa.Store:
						if fieldVar(y.Addr) == fv {
							return false
						}
					case ssa.CallInstruction:
						if !callCannotStore(y, fv, 0, map[*ssa.Function]bool{}) {
							return false
						}
					}
				}
			}
			return true
		}
	}
	if in, ok := v.(ssa.Instruction); ok {
		return !l.Body[in.Block()]
	}
	return false
}

func classifyLoop(fn *ssa.Function, l *loopInfo, consuming map[*ssa.Function]bool) string {
	// exits: Ifs inside the loop with a successor outside
	type exit struct {
		iff *ssa.If
	}
	var exits []*ssa.If
	for b := range l.Body {
		if len(b.Instrs) == 0 {
			continue
		}
		if iff, ok := b.Instrs[len(b.Instrs)-1].(*ssa.If); ok {
			for _, s := range b.Succs {
				if !l.Body[s] {
					exits = append(exits, iff)
					break
				}
			}
		}
	}
	// (a) counted / (c) decreasing / (d) two-index: an exit condition compares a loop phi
	for _, iff := range exits {
		cmp, ok := iff.Cond.(*ssa.BinOp)
		if !ok {
			continue
		}
		isStep := func(phi *ssa.Phi) (string, bool) {
			for _, e := range phi.Edges {
				bo, ok := e.(*ssa.BinOp)
				if !ok || !l.Body[bo.Block()] {
					continue
				}
				k, isC := constInt(bo.Y)
				if bo.X != phi || !isC {
					continue
				}
				switch bo.Op {
				case token.ADD:
					if k > 0 {
						return "up", true
					}
				case token.SUB:
					if k > 0 {
						return "down", true
					}
				case token.QUO:
					if k >= 2 {
						return "div", true
					}
				case token.SHR:
					if k >= 1 {
						return "div", true
					}
				}
			}
			return "", false
		}
		px, okx := cmp.X.(*ssa.Phi)
		py, oky := cmp.Y.(*ssa.Phi)
		if okx && px.Block() == l.Head {
			if dir, ok := isStep(px); ok {
				switch {
				case dir == "up" && (cmp.Op == token.LSS || cmp.Op == token.LEQ || cmp.Op == token.NEQ) && definedOutside(cmp.Y, l):
					return "counted: induction variable stepping up to a loop-invariant bound"
				case dir == "up" && oky && py.Block() == l.Head:
					if d2, ok := isStep(py); ok && d2 == "down" {
						return "converging two-index loop (i up, j down, exit when they meet)"
					}
				case dir == "down" && (cmp.Op == token.GTR || cmp.Op == token.GEQ || cmp.Op == token.NEQ) && definedOutside(cmp.Y, l):
					return "counted: induction variable stepping down to a loop-invariant bound"
				case dir == "div" && (cmp.Op == token.GTR || cmp.Op == token.NEQ):
					if k, ok := constInt(cmp.Y); ok && k == 0 {
						return "strictly decreasing: x = x / c (c >= 2), exit at 0"
					}
				}
			}
		}
	}
	// range loops over slices appear as rangeindex with (index+1 < len): index phi compared with len(...) computed outside or in head
	for _, iff := range exits {
		cmp, ok := iff.Cond.(*ssa.BinOp)
		if !ok || cmp.Op != token.LSS {
			continue
		}
		// t = phi + 1 ; t < len
		if add, ok := cmp.X.(*ssa.BinOp); ok && add.Op == token.ADD {
			if phi, ok := add.X.(*ssa.Phi); ok && phi.Block() == l.Head {
				if k, ok := constInt(add.Y); ok && k == 1 {
					if call, ok := cmp.Y.(*ssa.Call); ok {
						if bi, ok := call.Call.Value.(*ssa.Builtin); ok && bi.Name() == "len" && definedOutside(call.Call.Args[0], l) {
							return "counted: range over a slice (index < len of a loop-invariant slice)"
						}
					}
					if definedOutside(cmp.Y, l) {
						return "counted: range loop with loop-invariant bound"
					}
				}
			}
		}
	}
	// (b) input consuming: every cycle passes a consuming call, and some exit depends on a result of such a call
	var ccalls []ssa.Instruction
	for b := range l.Body {
		for _, in := range b.Instrs {
			if call, ok := in.(*ssa.Call); ok {
				cc := call.Common()
				isC := false
				if cc.IsInvoke() && cc.Method.Name() == "Read" && cc.Value.Type().String() == "io.Reader" {
					isC = true
				}
				if cal := cc.StaticCallee(); cal != nil && consuming[cal] {
					isC = true
				}
				if isC {
					ccalls = append(ccalls, call)
				}
			}
		}
	}
	if len(ccalls) > 0 {
		avoid := map[ssa.Instruction]bool{}
		for _, x := range ccalls {
			avoid[x] = true
		}
		// cycle without consuming call?
		seen := map[*ssa.BasicBlock]bool{}
		var walk func(b *ssa.BasicBlock, first bool) bool
		walk = func(b *ssa.BasicBlock, first bool) bool {
			if b == l.Head && !first {
				return true
			}
			if !l.Body[b] || (seen[b] && !first) {
				return false
			}
			seen[b] = true
			for _, in := range b.Instrs {
				if avoid[in] {
					return false
				}
			}
			for _, s := range b.Succs {
				if walk(s, false) {
					return true
				}
			}
			return false
		}
		if !walk(l.Head, true) {
			// an exit must be data-dependent on a consuming call's result
			dep := false
			for _, iff := range exits {
				if dependsOn(iff.Cond, avoid, 0, map[ssa.Value]bool{}) {
					dep = true
				}
			}
			// or on a field that the consuming callee sets (error / mode latch of the receiver)
			if !dep {
				latched := map[*types.Var]bool{}
				for _, x := range ccalls {
					if cal := x.(*ssa.Call).Common().StaticCallee(); cal != nil {
						for _, b := range cal.Blocks {
							for _, in := range b.Instrs {
								if st, ok := in.(*ssa.Store); ok {
									if fv := fieldVar(st.Addr); fv != nil {
										latched[fv] = true
									}
								}
							}
						}
					}
				}
				// ... or a field that the loop itself stores from the result of a consuming call (r.err = read(...); if r.err != nil)
				for b := range l.Body {
					for _, in := range b.Instrs {
						if st, ok := in.(*ssa.Store); ok {
							if fv := fieldVar(st.Addr); fv != nil && dependsOn(st.Val, avoid, 0, map[ssa.Value]bool{}) {
								latched[fv] = true
							}
						}
					}
				}
				for _, iff := range exits {
					if loadsLatched(iff.Cond, latched, 0) {
						dep = true
					}
				}
			}
			if dep {
				return "input-consuming: every cycle performs a read on the source and an exit test depends on its result"
			}
		}
	}
	return ""
}

func dependsOn(v ssa.Value, calls map[ssa.Instruction]bool, depth int, seen map[ssa.Value]bool) bool {
	if depth > 8 || seen[v] {
		return false
	}
	seen[v] = true
	if in, ok := v.(ssa.Instruction); ok && calls[in] {
		return true
	}
	switch x := v.(type) {
	case *ssa.BinOp:
		return dependsOn(x.X, calls, depth+1, seen) || dependsOn(x.Y, calls, depth+1, seen)
	case *ssa.UnOp:
		return dependsOn(x.X, calls, depth+1, seen)
	case *ssa.Extract:
		return dependsOn(x.Tuple, calls, depth+1, seen)
	case *ssa.Phi:
		for _, e := range x.Edges {
			if dependsOn(e, calls, depth+1, seen) {
				return true
			}
		}
	case *ssa.Convert:
		return dependsOn(x.X, calls, depth+1, seen)
	case *ssa.ChangeType:
		return dependsOn(x.X, calls, depth+1, seen)
	}
	return false
}

func loadsLatched(v ssa.Value, latched map[*types.Var]bool, depth int) bool {
	if depth > 6 {
		return false
	}
	switch x := v.(type) {
	case *ssa.UnOp:
		if x.Op == token.MUL {
			if fv := fieldVar(x.X); fv != nil && latched[fv] {
				return true
			}
			return false
		}
		return loadsLatched(x.X, latched, depth+1)
	case *ssa.BinOp:
		return loadsLatched(x.X, latched, depth+1) || loadsLatched(x.Y, latched, depth+1)
	case *ssa.Phi:
		for _, e := range x.Edges {
			if loadsLatched(e, latched, depth+1) {
				return true
			}
		}
	}
	return false
}

// callCannotStore: the call cannot modify field fv: builtins; standard-library callees receiving only scalars, strings or
// byte slices (no way back into module state); module callees whose static call closure contains no store to fv and no
// dynamic call.
func callCannotStore(call ssa.CallInstruction, fv *types.Var, depth int, seen map[*ssa.Function]bool) bool {
	cc := call.Common()
	if _, isB := cc.Value.(*ssa.Builtin); isB {
		return true
	}
	cal := cc.StaticCallee()
	if cal == nil || depth > 6 {
		return false
	}
	if seen[cal] {
		return true
	}
	seen[cal] = true
	inModule := cal.Pkg != nil && strings.HasPrefix(cal.Pkg.Pkg.Path(), modPath)
	if o := cal.Object(); !inModule && o != nil && o.Pkg() != nil {
		inModule = strings.HasPrefix(o.Pkg().Path(), modPath)
	}
	if !inModule {
		for _, a := range cc.Args {
			switch t := a.Type().Underlying().(type) {
			case *types.Basic:
			case *types.Slice:
				if b, ok := t.Elem().Underlying().(*types.Basic); !ok || b.Kind() != types.Uint8 {
					return false
				}
			default:
				return false
			}
		}
		return true
	}
	if len(cal.Blocks) == 0 {
		return false
	}
	for _, b := range cal.Blocks {
		for _, in := range b.Instrs {
			switch y := in.(type) {
			case *ssa.Store:
				if fieldVar(y.Addr) == fv {
					return false
				}
			case ssa.CallInstruction:
				if !callCannotStore(y, fv, depth+1, seen) {
					return false
				}
			}
		}
	}
	return true
}

// consumingFuncs: functions that (transitively) perform a read on an io.Reader.
func consumingFuncs(scope []*ssa.Function) map[*ssa.Function]bool {
	consuming := map[*ssa.Function]bool{}
	changed := true
	for changed {
		changed = false
		for _, f := range scope {
			if consuming[f] {
				continue
			}
			for _, call := range calls(f) {
				cc := call.Common()
				if cc.IsInvoke() && cc.Method.Name() == "Read" && cc.Value.Type().String() == "io.Reader" {
					consuming[f] = true
				}
				if q := calleeQual(call); q == "io.ReadFull" || q == "io.CopyN" || q == "io.ReadAtLeast" {
					consuming[f] = true
				}
				if cal := cc.StaticCallee(); cal != nil && consuming[cal] {
					consuming[f] = true
				}
			}
			if consuming[f] {
				changed = true
			}
		}
	}
	return consuming
}
