package main

import (
	"fmt"
	"go/token"
)

// selfcheck: cheap sanity tests of the abstract domain itself (run by setup_cmd). The checker's behaviour on
// seeded violations is exercised by tools/selftest.sh over selftest/mutants and selftest/benign.
func selfcheck(verif string) int {
	fails := 0
	expect := func(name string, ok bool) {
		if !ok {
			fails++
			fmt.Println("SELFCHECK FAIL:", name)
		}
	}
	ex := &Exec{syms: NewSymTab()}
	st := ex.NewState()
	x := mkSym(ex.syms.Get("x", 8, false))
	// bit provenance through mask/shift/or
	lo := st.Arith(token.AND, x, mkConst(0x0F, 8, false), "")
	hi := st.Shift(token.SHR, x, 4)
	back := st.Arith(token.OR, st.Shift(token.SHL, hi, 4), lo, "")
	expect("(x>>4)<<4 | x&0x0F == x", st.sameInt(back, x))
	expect("x&0x0F != x in general", !st.sameInt(lo, x))
	// interval refinement and decision
	st2 := st.Clone()
	expect("assume x > 15", st2.Assume(">", x, mkConst(15, 8, false)))
	v, k := st2.Decide("<=", x, mkConst(15, 8, false))
	expect("x <= 15 decided false under x > 15", k && !v)
	_, k = st.Decide("<=", x, mkConst(15, 8, false))
	expect("x <= 15 undecided without assumption", !k)
	// affine cancellation
	y := mkSym(ex.syms.Get("y", 16, true))
	st.refineSym(y.T.Syms[0], -8192, 8191)
	u := st.Arith(token.ADD, y, mkConst(8192, 16, true), "")
	expect("(y+8192)-8192 == y", st.sameInt(st.Arith(token.SUB, u, mkConst(8192, 16, true), ""), y))
	// wrap detection
	z := mkSym(ex.syms.Get("z", 8, false))
	n := len(st.Events)
	st.Arith(token.MUL, z, mkConst(32, 8, false), "")
	expect("z*32 in uint8 flagged as possible wrap", len(st.Events) > n && st.Events[len(st.Events)-1].Kind == "wrap")
	// disequality facts
	st3 := st.Clone()
	st3.Assume("!=", x, mkConst(0x80, 8, false))
	v, k = st3.Decide("==", x, mkConst(0x80, 8, false))
	expect("x == 0x80 decided false under x != 0x80", k && !v)
	// spec helpers
	nn := mkSym(ex.syms.Get("n", 32, false))
	st.refineSym(nn.T.Syms[0], 128, 16383)
	bs := vlqSpecBytes(st, nn, 2)
	l0, h0 := st.Range(bs[0])
	expect("first VLQ byte of a 2-byte quantity has the continuation bit", l0 >= 0x80 && h0 <= 0xFF)
	_, h1 := st.Range(bs[1])
	expect("last VLQ byte has no continuation bit", h1 <= 0x7F)
	// reference receiver model sanity
	r := refTransition(refState{9, "chan1", 0}, liveInput{"data", 0, 0x7F}, true)
	expect("receiver model completes a note-on on the second data byte", len(r.outs) == 1 && r.post.pend == "none" && r.post.rs == 9)
	r = refTransition(refState{9, "chan1", 0}, liveInput{"status 8n", 0x80, 0x8F}, true)
	expect("receiver model abandons an incomplete message on a status byte", len(r.outs) == 0 && r.post.pend == "chan0" && r.post.rs == 8)
	if fails == 0 {
		fmt.Println("selfcheck: abstract domain and specification helpers OK")
		return 0
	}
	return 1
}
