package main

func selfcheck(verif string) int { return 0 }
