package main

import (
	"encoding/json"
	"fmt"
	"os"
	"runtime/debug"
	"sort"
	"strconv"
	"time"
)

type propFn func(c *Ctx)

var registry = map[string]propFn{}

func register(id string, f propFn) { registry[id] = f }

func usage() {
	fmt.Fprintln(os.Stderr, "usage: midiverif check <ID> [--tier quick|thorough] [--repo DIR] [--verif DIR] | all [--tier T] | selfcheck | explain <replay.json> | list")
	os.Exit(2)
}

func runCheck(id, tier, repo, verif string) (code int) {
	fn, ok := registry[id]
	if !ok {
		fmt.Printf("unknown property %s\n", id)
		return 2
	}
	seed := 0
	if s := os.Getenv("VERIF_SEED"); s != "" {
		seed, _ = strconv.Atoi(s)
	}
	p, err := Load(repo, "linux", nil)
	if err != nil {
		// undecided: cannot analyse => failure with a VIOLATION line so that it is never silently green
		os.MkdirAll(verif+"/evidence/replay", 0o755)
		path := verif + "/evidence/replay/" + id + "-load.json"
		b, _ := json.MarshalIndent(map[string]string{"property": id, "status": "undecided", "detail": "cannot load/type-check the module: " + err.Error()}, "", " ")
		os.WriteFile(path, b, 0o644)
		fmt.Printf("VIOLATION property=%s replay=%s\n  load error: %v\n", id, path, err)
		return 1
	}
	// a check that does not converge must still end with a verdict: 10 minutes by default (the slowest check takes
	// under a minute on the unchanged tree), MIDIVERIF_DEADLINE=<seconds> overrides
	limit := 600
	if s := os.Getenv("MIDIVERIF_DEADLINE"); s != "" {
		if v, err := strconv.Atoi(s); err == nil && v > 0 {
			limit = v
		}
	}
	checkDeadline = time.Now().Add(time.Duration(limit) * time.Second)
	c := NewCtx(id, tier, p)
	func() {
		defer func() {
			if r := recover(); r != nil {
				c.Rule("internal", "the checker itself must not fail (panic inside the checker = undecided)", 0)
				c.Unk("internal", "checker-panic", "-", fmt.Sprintf("%v\n%s", r, debug.Stack()))
			}
		}()
		fn(c)
	}()
	return c.Finish(verif, seed)
}

func main() {
	if len(os.Args) < 2 {
		usage()
	}
	tier := os.Getenv("VERIF_TIER")
	if tier == "" {
		tier = "quick"
	}
	repo := "/repo"
	verif := "/verif"
	var pos []string
	args := os.Args[2:]
	for i := 0; i < len(args); i++ {
		switch args[i] {
		case "--tier":
			i++
			tier = args[i]
		case "--repo":
			i++
			repo = args[i]
		case "--verif":
			i++
			verif = args[i]
		default:
			pos = append(pos, args[i])
		}
	}
	if tier != "quick" && tier != "thorough" {
		usage()
	}
	switch os.Args[1] {
	case "check":
		if len(pos) != 1 {
			usage()
		}
		os.Exit(runCheck(pos[0], tier, repo, verif))
	case "all":
		var ids []string
		for id := range registry {
			ids = append(ids, id)
		}
		sort.Strings(ids)
		rc := 0
		for _, id := range ids {
			if r := runCheck(id, tier, repo, verif); r != 0 {
				rc = 1
			}
		}
		os.Exit(rc)
	case "list":
		var ids []string
		for id := range registry {
			ids = append(ids, id)
		}
		sort.Strings(ids)
		for _, id := range ids {
			fmt.Println(id)
		}
	case "absdump":
		// absdump <pkg-rel> <recv|-> <func>
		r := pos[1]
		if r == "-" {
			r = ""
		}
		absdump(repo, pos[0], r, pos[2])
	case "selfcheck":
		os.Exit(selfcheck(verif))
	case "renameall":
		// renameall --repo <scratch copy> [suffix] : rename every unexported identifier (checker robustness test)
		suffix := "Zq"
		if len(pos) > 0 {
			suffix = pos[0]
		}
		os.Exit(renameAll(repo, suffix, false))
	case "roles":
		// prints how every logical (role) name resolves on the tree
		p, err := Load(repo, "linux", nil)
		if err != nil {
			fmt.Println(err)
			os.Exit(2)
		}
		os.Exit(dumpRoles(p))
	case "privnames":
		os.Exit(renameAll(repo, "", true))
	case "explain":
		if len(pos) != 1 {
			usage()
		}
		b, err := os.ReadFile(pos[0])
		if err != nil {
			fmt.Println(err)
			os.Exit(2)
		}
		var rep map[string]interface{}
		json.Unmarshal(b, &rep)
		fmt.Printf("property %v, rule %v\n  rule: %v\n  instance: %v\n  at: %v\n  status: %v\n  detail: %v\n", rep["property"], rep["rule"], rep["rule_text"], rep["instance"], rep["pos"], rep["status"], rep["detail"])
		if id, ok := rep["property"].(string); ok {
			fmt.Println("re-running the check on the current tree:")
			t, _ := rep["tier"].(string)
			if t == "" {
				t = tier
			}
			os.Exit(runCheck(id, t, repo, verif))
		}
	default:
		usage()
	}
}
