package main

import (
	"go/types"

	"golang.org/x/tools/go/ssa"
)

func init() { register("C01", checkC01) }

// noUnguardedAssert (C01.3 / C05.1 part): single-result type assertions on a sealed interface with several
// implementers, reachable from the roots, must be dominated by a successful comma-ok assertion / type switch
// on the same value to the same type.
func noUnguardedAssert(c *Ctx, rule string, roots ...*ssa.Function) {
	p := c.P
	scope := minus(p.Reachable(roots...), loggerFuncs(p))
	n := 0
	for _, fn := range scope {
		c.Fn(FuncName(fn))
		for _, b := range fn.Blocks {
			for _, in := range b.Instrs {
				ta, ok := in.(*ssa.TypeAssert)
				if !ok || ta.CommaOk {
					continue
				}
				n++
				it, isI := ta.X.Type().Underlying().(*types.Interface)
				key := "assert " + namedOrString(ta.X.Type()) + " -> " + namedOrString(ta.AssertedType) + " in " + FuncName(fn)
				if !isI {
					continue
				}
				impl := p.Implementers(it)
				if it.NumMethods() > 0 && len(impl) == 1 && types.Identical(impl[0], ta.AssertedType) {
					c.OK(rule, key, p.Pos(ta.Pos()), "the interface has exactly one implementer in the module")
					continue
				}
				// guarded by comma-ok on the same operand?
				guarded := false
				for _, u := range liveRefs(ta.X) {
					g, ok := u.(*ssa.TypeAssert)
					if !ok || !g.CommaOk || !types.Identical(g.AssertedType, ta.AssertedType) {
						continue
					}
					for _, ex := range liveRefs(g) {
						e, ok := ex.(*ssa.Extract)
						if !ok || e.Index != 1 {
							continue
						}
						for _, uu := range liveRefs(e) {
							if iff, ok := uu.(*ssa.If); ok {
								te, _ := ifEdges(iff)
								if edgeDominates(fn, te, b) || te.to == b {
									guarded = true
								}
							}
						}
					}
				}
				c.Check(guarded, rule, key, p.Pos(ta.Pos()), "dominated by a successful comma-ok assertion to the same type", "single-result type assertion whose operand can hold another dynamic type ("+typeList(impl)+"): panics for the other time format")
			}
		}
	}
	if n == 0 {
		c.OK(rule, "no single-result assertion on the path", "-", "none found")
	}
}

func typeList(ts []types.Type) string {
	s := ""
	for i, t := range ts {
		if i > 0 {
			s += ", "
		}
		s += namedOrString(t)
	}
	return s
}

// autoCloseBeforeWrite (C01.5): in WriteTo the loop closing open tracks precedes the construction of the writer.
func autoCloseBeforeWrite(c *Ctx, rule string, writeTo *ssa.Function) {
	p := c.P
	tt := p.namedType("smf", "Track")
	if tt == nil {
		c.Unk(rule, "Track", "-", "not found")
		return
	}
	closeM := p.MethodOf(types.NewPointer(tt), "Close")
	isClosed := p.MethodOf(tt, "IsClosed")
	var closeCall ssa.Instruction
	var closeLoop *loopInfo
	for _, call := range calls(writeTo) {
		if call.Common().StaticCallee() == closeM {
			closeCall = call
		}
	}
	if closeCall == nil {
		c.Bad(rule, "WriteTo closes open tracks", p.Pos(writeTo.Pos()), "WriteTo never calls Track.Close: a track left open is written without end-of-track")
		return
	}
	for _, l := range naturalLoops(writeTo) {
		if l.Body[closeCall.Block()] {
			closeLoop = l
		}
	}
	// guarded by !IsClosed, inside a loop over Tracks
	guard := false
	for _, call := range calls(writeTo) {
		if call.Common().StaticCallee() == isClosed && call.Value() != nil {
			for _, u := range liveRefs(call.Value()) {
				if iff, ok := u.(*ssa.If); ok {
					_, fe := ifEdges(iff)
					if edgeDominates(writeTo, fe, closeCall.Block()) || fe.to == closeCall.Block() {
						guard = true
					}
				}
			}
		}
	}
	c.Check(closeLoop != nil && guard, rule, "WriteTo closes every open track", p.Pos(closeCall.Pos()), "Close is called in a loop over the tracks on the not-closed edge", "the auto-close is not in a loop over all tracks / not guarded by IsClosed")
	if closeLoop == nil {
		return
	}
	// every write to the destination (any call reaching a Write on it) must come after the loop: the loop head dominates them
	// and they are not in the loop
	hw := findHeaderWriter(p)
	for _, call := range calls(writeTo) {
		f := call.Common().StaticCallee()
		if f == nil || !InModule(f) {
			continue
		}
		reachesHW := false
		for _, g := range p.Reachable(f) {
			if g == hw {
				reachesHW = true
			}
		}
		if !reachesHW {
			continue
		}
		okOrder := closeLoop.Head.Dominates(call.Block()) && !closeLoop.Body[call.Block()]
		c.Check(okOrder, rule, "auto-close precedes "+FuncName(f), p.Pos(call.Pos()), "the closing loop dominates the first serialisation step", "serialisation can start before all tracks are closed")
	}
}

func checkC01(c *Ctx) {
	p := c.P
	c.Level = "other"
	c.Explain = "C01 (round trip) is decided clause by clause on structure that every round trip relies on: (1) the writer's per-event encoder and the reader's per-event decoder are extracted by abstract interpretation over all 256 first bytes x length classes x running-status states and must both equal the SMF 1.0 event grammar (hence agree with each other); (2) the running-status protocol (writer elides only an equal channel status, resets on sysex and per track; reader clears on FF/F0/F7, sets on 80-EF); (3) no type assertion on the path can fail for SMPTE files; (4) reader(writer(header)) = header for symbolic format/count/division; (5) open tracks are closed before serialisation; VLQ codec composition decode(encode(n)) = n. Not decided: equality of whole event sequences (needs induction over events and tracks; the per-event lemma is what is mechanised)."
	c.Trusted = []string{"go/ssa", "E-abs transfer functions and summaries", "SMF 1.0 grammar tables in the checker"}
	c.Rule("C01.1", "status-set agreement: writer frames exactly F0/F7 with a length prefix and passes everything else verbatim/elided; reader routes exactly F0/F7 to length+payload, FF to type+length+payload, 80-EF to the channel branch (both compared with the SMF 1.0 table)", 8)
	c.Rule("C01.2", "running-status protocol: writer elides only an equal channel status, stores/clears as required, resets on the sysex path and after every track flush; reader clears on exactly FF/F0/F7 and sets on exactly 80-EF", 3)
	c.Rule("C01.3", "no single-result type assertion reachable from ReadFrom/WriteTo whose operand can hold a second dynamic type", 1)
	c.Rule("C01.4", "reader(writer(header)) = header for every format 0..2, track count, metric resolution 1..32767 and the four time-code rates with any subframes", 15)
	c.Rule("C01.5", "auto-close before serialisation: in the whole-file simulation of WriteTo (4 tracks: closed, open, closed, closed) the open track is written with a final end-of-track and the closed ones are written as they are", 1)
	c.Rule("C01.6", "VLQ composition: decode(encode(n)) = n in every magnitude cell (delta times and lengths)", 5)
	c.Rule("C01.7", "delta / option plumbing: in the whole-file simulation of WriteTo every event goes out as VLQ(its own delta) followed by its bytes, once; NoRunningStatus selects the running-status stage; the decoded delta reaches Track.Add/Close; a multi-message Add gives the delta to the first message only; Add stores any event bytes unchanged", 5)

	writeTo := p.Method("smf", "SMF", "WriteTo")
	readFrom := p.Func("smf", "ReadFrom")
	if writeTo == nil || readFrom == nil {
		c.Unk("C01.1", "anchors", "-", "WriteTo/ReadFrom not resolved")
		return
	}
	ruleEventEncode(c, "C01.1")
	ruleEventDecode(c, "C01.1", "")
	ruleTrackFlush(c, "C01.2")
	ruleRSReader(c, "C01.2")
	noUnguardedAssert(c, "C01.3", readFrom, writeTo)
	ruleHeaderRead(c, "", "C01.4")
	runWriteToSim(c, "C01.5", "", "", "", "")
	runWriteToSimRS(c, "C01.2")
	ruleVLQ(c, "", "", "C01.6")
	rulePlumbing(c, "C01.7")
	c.Rule("C01.8", "reading back cannot panic: every potentially panicking construct reachable from ReadFrom (incl. the tempo post-processing that runs on every read) is discharged for unknown inputs (= C05.1)", 15)
	c.include(checkC05, map[string]string{"C05.1": "C01.8"})
	c.Rule("C01.9", "what was written is read back however the file delivers it: the read discipline of C09 (one-byte reads with a checked count or fill-or-fail primitives on the source, data together with io.EOF, no escape of the source) — a file on disk or behind a buffer hands out short counts that a memory reader never does", 3)
	c.include(checkC09, map[string]string{"C09.1": "C01.9", "C09.2": "C01.9", "C09.3": "C01.9"})
}
