package main

import (
	"fmt"
	"os"
	"sort"
)

// absdump: developer aid — run E-abs on one function with unknown parameters and print the outcomes.
func absdump(repo, rel, recv, name string) {
	p, err := Load(repo, "linux", nil)
	if err != nil {
		fmt.Println(err)
		os.Exit(2)
	}
	fn := p.Func(rel, name)
	if recv != "" {
		fn = p.Method(rel, recv, name)
	}
	if fn == nil {
		fmt.Println("not found")
		os.Exit(2)
	}
	ex := NewExec(p)
	st := ex.NewState()
	outs := ex.Call(st, fn, nil, nil)
	fmt.Printf("outcomes=%d budget=%v stats=%+v\n", len(outs), ex.Budget, ex.Stats)
	var us []string
	for u, n := range ex.Unsupported {
		us = append(us, fmt.Sprintf("%s x%d", u, n))
	}
	sort.Strings(us)
	fmt.Println("unsupported:", us)
	for i, o := range outs {
		if i > 60 {
			break
		}
		fmt.Printf("--- outcome %d panic=%v %s %s\n", i, o.Panic, o.Msg, o.Pos)
		for _, r := range o.Ret {
			fmt.Printf("   ret %s\n", valString(r))
		}
		for _, e := range o.St.Events {
			fmt.Printf("   event %s %s %s\n", e.Kind, e.Pos, e.Msg)
		}
		tr := o.St.Trace
		if len(tr) > 12 {
			tr = tr[len(tr)-12:]
		}
		for _, t := range tr {
			fmt.Printf("   trace %s\n", t)
		}
	}
}
