package main

import (
	"fmt"
	"go/token"
	"go/types"

	"golang.org/x/tools/go/ssa"
)

func init() { register("C13", checkC13) }

func checkC13(c *Ctx) {
	p := c.P
	c.Level = "other"
	c.Explain = "C13 decided on the recording callback and its wrappers: the tempo event built from the recording tempo is added before listening starts; the callback is interpreted abstractly over all 256 first bytes x 5 length classes (incl. the empty message): a message is stored only if it is a channel message or a complete F0 sysex (everything the writer can frame), every channel message is stored exactly once, unchanged, with delta = Ticks(tempo, (arrival - previous arrival) ms) where the previous arrival only advances when a message is stored; the file-level stop function stops listening, closes the track and adds it. Not decided: 'to within one tick' (float rounding; formula under C11), the one-second sleep, messages in flight at stop."
	c.Trusted = []string{"go/ssa", "E-abs", "the class table of what ListenTo can deliver (C04/C06)", "Ticks treated as uninterpreted (its formula: C11.1)"}
	c.Rule("C13.1", "tempo first: the tempo meta event built from the recording tempo is added before listening starts", 1)
	c.Rule("C13.2", "only file-legal messages are stored: the append is taken only for channel messages and complete F0 sysex; never for real-time, system-common, stray or empty messages", 1)
	c.Rule("C13.3", "delta provenance: delta = Ticks(bpm, (t - prev) ms), prev' = t when stored, prev unchanged when dropped", 1)
	c.Rule("C13.6", "delta conversion formula: Ticks(bpm, d) = Round(d[ns] * resolution * bpm / 6e10) computed in floating point from the full nanosecond value (no integer narrowing of the duration or of intermediate products)", 1)
	c.Rule("C13.4", "unchanged, in order: the stored bytes are the callback's message, one append per delivered channel message", 1)
	c.Rule("C13.5", "close and add: the file-level stop function stops listening, closes the track and adds it to the file; the record-to-file wrapper finishes the recording before it writes the file and reports the write error", 2)

	c.Rule("C13.7", "the recorded track is written as a valid file: per-event encoder table and running-status protocol of the writer (= C01.1, C01.2), deltas stored unchanged by Track.Add (= C01.7)", 10)
	c.include(checkC01, map[string]string{"C01.1": "C13.7", "C01.2": "C13.7", "C01.7": "C13.7"})
	c.Rule("C13.8", "what the recording callback is handed is the wire message: the conversion stage of ListenTo is the identity on every decoder output shape (= C04.5) — a padded or re-encoded message would be stored, written and read back as different events", 17)
	c.include(checkC04, map[string]string{"C04.5": "C13.8"})
	c.Rule("C13.9", "the arrival time the recording callback computes deltas from is the decoder's time stamp of the completing chunk (= C04.4: decoder equals the receiver model in every state x input cell, time stamps included — also for messages under running status)", 20)
	c.include(checkC04, map[string]string{"C04.4": "C13.9"})

	trackT := p.namedType("smf", "Track")
	mtT := p.namedType("smf", "MetricTicks")
	smfT := p.namedType("smf", "SMF")
	if trackT == nil || mtT == nil || smfT == nil {
		c.Unk("C13.1", "smf types", "-", "not found")
		return
	}
	rec := p.MethodOf(types.NewPointer(trackT), "RecordFrom")
	ticksFn := p.MethodOf(mtT, "Ticks")
	if rec == nil || ticksFn == nil {
		c.Unk("C13.1", "Track.RecordFrom / MetricTicks.Ticks", "-", "not found")
		return
	}
	c.Fn(FuncName(rec))
	// ---- C13.1
	var addCall, listenCall ssa.Instruction
	okTempoArg := false
	for _, call := range calls(rec) {
		f := call.Common().StaticCallee()
		if f == nil {
			continue
		}
		switch f.Name() {
		case "ListenTo":
			listenCall = call
		case "Add":
			addCall = call
		case "MetaTempo":
			for _, a := range call.Common().Args {
				if l, ok := a.(*ssa.UnOp); ok {
					a = l.X
				}
				// the recording tempo: the float64 parameter of RecordFrom (possibly spilled into a cell because the callback captures it)
				if prm, ok := a.(*ssa.Parameter); ok && prm.Type().String() == "float64" {
					okTempoArg = true
				}
				if al, ok := a.(*ssa.Alloc); ok {
					for _, u := range liveRefs(al) {
						if st, ok := u.(*ssa.Store); ok && st.Addr == ssa.Value(al) {
							if prm, ok := st.Val.(*ssa.Parameter); ok && prm.Type().String() == "float64" {
								okTempoArg = true
							}
						}
					}
				}
			}
		}
	}
	ok1 := addCall != nil && listenCall != nil && instrDominates(addCall, listenCall) && okTempoArg
	c.Check(ok1, "C13.1", "tempo event before listening", p.Pos(rec.Pos()), "Add(0, MetaTempo(bpm)) dominates ListenTo", fmt.Sprintf("the tempo event is not added before listening starts (add=%v listen=%v tempo from bpm=%v)", addCall != nil, listenCall != nil, okTempoArg))

	// ---- callback
	var cb *ssa.Function
	for _, af := range rec.AnonFuncs {
		if af.Signature.Params().Len() == 2 && namedTypeName(af.Signature.Params().At(0).Type()) == "Message" {
			cb = af
		}
	}
	if cb == nil {
		c.Unk("C13.2", "recording callback", "-", "not found")
		return
	}
	c.Fn(FuncName(cb))
	badLegal, badDelta, badBytes := "", "", ""
	cells := 0
	for b0 := 0; b0 < 256; b0++ {
		for _, lc := range []int{0, 1, 2, 3, 9} {
			if lc == 0 && b0 != 0 {
				continue
			}
			cells++
			ex := NewExec(p)
			var durs []string
			ex.CallHook = func(ex *Exec, st *State, fr *Frame, call ssa.CallInstruction, callee *ssa.Function, args []Val) ([]callRes, bool) {
				if callee != ticksFn {
					return nil, false
				}
				d := "?"
				if iv, ok := args[2].(*IntV); ok {
					d = st.ident(iv)
				}
				b := "?"
				if f, ok := args[1].(*FloatV); ok {
					b = f.Expr
				}
				durs = append(durs, b+"|"+d)
				s := ex.syms.Get("Ticks("+b+","+d+")", 32, false)
				return []callRes{{st: st, ret: mkSym(s)}}, true
			}
			st := ex.NewState()
			// the track so far: the tempo event
			evT := p.namedType("smf", "Event")
			tev := ex.zeroOf(evT).(*StructV)
			k8 := func(v int64) Val { return mkConst(v, 8, false) }
			tev.Fields[fieldIndex(tev.T, "Message")] = ex.mkBytes(st, "tempo", []Val{k8(0xFF), k8(0x51), k8(3), ex.byteSym("t0"), ex.byteSym("t1"), ex.byteSym("t2")}, false, 0)
			aid := ex.newObj(st, &ArrayV{Elem: evT, Segs: []Seg{{Elems: []Val{tev}}}}, nil)
			one := mkConst(1, 64, true)
			trackObj := ex.newObj(st, &SliceV{Obj: aid, Off: mkConst(0, 64, true), Len: one, Cap: one}, trackT)
			msg := mkCellMsg(ex, st, c08cell{lc, b0, -1})
			if lc == 0 {
				msg = ex.mkBytes(st, "m", nil, false, 0)
			}
			absms := mkSym(ex.syms.Get("absms", 32, true))
			st.refineSym(absms.T.Syms[0], 0, 1<<30)
			prev := mkSym(ex.syms.Get("prev", 32, true))
			st.refineSym(prev.T.Syms[0], 0, 1<<30)
			st.Assume("<=", prev, absms)
			var prevCell *PtrV
			var binds []Val
			for _, fv := range cb.FreeVars {
				et := fv.Type()
				isPtr := false
				if pt, ok := et.(*types.Pointer); ok {
					et = pt.Elem()
					isPtr = true
				}
				var v Val
				switch {
				case types.Identical(et, types.NewPointer(trackT)):
					v = &PtrV{Obj: trackObj}
				case types.Identical(et, trackT):
					// captured directly as *Track
					binds = append(binds, &PtrV{Obj: trackObj})
					continue
				case types.Identical(et, mtT):
					q := mkSym(ex.syms.Get("q", 16, false))
					st.refineSym(q.T.Syms[0], 24, 15360)
					v = q
				case et.String() == "float64":
					v = &FloatV{Expr: "bpm", Mono: monoOfAtom("bpm")}
				case et.String() == "int32":
					v = prev
				default:
					v = ex.topArg(st, et, fv.Name())
				}
				if isPtr {
					id := ex.newObj(st, v, et)
					pc := &PtrV{Obj: id}
					if et.String() == "int32" {
						prevCell = pc
					}
					binds = append(binds, pc)
				} else {
					binds = append(binds, v)
				}
			}
			fr := &Frame{fn: cb, regs: map[ssa.Value]Val{}, visits: map[*ssa.BasicBlock]int{}, widened: map[*ssa.BasicBlock]bool{}, phiHist: map[*ssa.Phi]Val{}, kept: map[*ssa.Phi]keptInv{}}
			res := ex.callValue(fr, st, &FuncV{Fn: cb, Bindings: binds}, []Val{msg, absms}, nil, nil)
			isChan := lc > 0 && b0 >= 0x80 && b0 <= 0xEF
			legal := isChan || (lc > 0 && b0 == 0xF0)
			for _, r := range res {
				if r.panic {
					badLegal = fmt.Sprintf("first byte %02X length class %d: callback panics: %s", b0, lc, r.msg)
					continue
				}
				tsl, _ := r.st.heap[trackObj].(*SliceV)
				evs, okE := ex.sliceElems(r.st, tsl)
				if !okE {
					badLegal = "track content lost"
					continue
				}
				stored := len(evs) - 1
				if stored > 0 && !legal {
					if badLegal == "" {
						what := fmt.Sprintf("a message starting with %02X (length class %d)", b0, lc)
						if lc == 0 {
							what = "an empty message"
						}
						badLegal = what + " is appended to the recorded track; the SMF writer frames only channel messages and F0/F7 sysex, so the written track is not a valid file"
					}
					continue
				}
				if isChan && stored != 1 {
					badBytes = fmt.Sprintf("channel message %02X is stored %d times", b0, stored)
					continue
				}
				var pv Val
				if prevCell != nil {
					pv = r.st.heap[prevCell.Obj]
				}
				pi, _ := pv.(*IntV)
				if stored == 0 {
					if pi == nil || !r.st.sameInt(pi, prev) {
						badDelta = fmt.Sprintf("a dropped message (first byte %02X) advances the previous-arrival time stamp: the next stored delta is measured from a message that is not in the file", b0)
					}
					continue
				}
				ev, _ := evs[1].(*StructV)
				ms, _ := ev.Fields[fieldIndex(ev.T, "Message")].(*SliceV)
				me, okM := ex.sliceSegs(r.st, ms)
				we, _ := ex.sliceSegs(r.st, msg)
				if !okM || !segsEqual(r.st.dropEmptyRuns(me), r.st.dropEmptyRuns(we), r.st.sameVal) {
					badBytes = fmt.Sprintf("first byte %02X: the stored bytes differ from the delivered message", b0)
				}
				dl, _ := ev.Fields[fieldIndex(ev.T, "Delta")].(*IntV)
				wantDur := r.st.Arith(token.MUL, r.st.Convert(r.st.Arith(token.SUB, absms, prev, ""), 64, true), mkConst(1000000, 64, true), "")
				want := ex.syms.byName["Ticks(bpm,"+r.st.ident(wantDur)+")"]
				if dl == nil || want == nil || !r.st.sameInt(dl, mkSym(want)) {
					badDelta = fmt.Sprintf("first byte %02X: delta %s is not Ticks(bpm, (arrival - previous arrival) in ms) [Ticks calls: %v]", b0, valString(ev.Fields[fieldIndex(ev.T, "Delta")]), durs)
				}
				if pi == nil || !r.st.sameInt(pi, absms) {
					badDelta = "the previous-arrival time stamp is not advanced to the arrival of the stored message"
				}
			}
		}
	}
	c.Check(badLegal == "", "C13.2", "only channel / sysex messages are stored", p.Pos(cb.Pos()), fmt.Sprintf("%d cells: append only for 80-EF and F0", cells), badLegal)
	c.Check(badDelta == "", "C13.3", "delta = Ticks(bpm, arrival difference); previous arrival follows stored messages only", p.Pos(cb.Pos()), "affine provenance of the Ticks argument and of the stored previous arrival", badDelta)
	c.Check(badBytes == "", "C13.4", "stored bytes = delivered message, once", p.Pos(cb.Pos()), "identity of the message segments; one append per channel message", badBytes)

	ticksFormulaRule(c, "C13.6")
	// ---- C13.5
	srec := p.MethodOf(types.NewPointer(smfT), "RecordFrom")
	ok5 := false
	why5 := "SMF.RecordFrom not found"
	if srec != nil {
		c.Fn(FuncName(srec))
		closeM := p.MethodOf(types.NewPointer(trackT), "Close")
		addM := p.MethodOf(types.NewPointer(smfT), "Add")
		why5 = "the stop function returned by SMF.RecordFrom does not stop, close and add on every path"
		for _, af := range srec.AnonFuncs {
			var stopC, closeC, addC ssa.Instruction
			for _, call := range calls(af) {
				switch call.Common().StaticCallee() {
				case closeM:
					closeC = call
				case addM:
					addC = call
				case nil:
					if stopC == nil {
						stopC = call // the captured stop function
					}
				}
			}
			if stopC != nil && closeC != nil && addC != nil && instrDominates(stopC, closeC) && instrDominates(closeC, addC) {
				okAll := true
				for _, r := range allReturns(af) {
					if canReachFromEntryAvoiding(af, r, map[ssa.Instruction]bool{addC: true}) {
						okAll = false
					}
				}
				if okAll {
					ok5 = true
				}
			}
		}
	}
	c.Check(ok5, "C13.5", "file-level stop: stop listening, close, add", "-", "stop -> Close -> Add on every path of the returned stop function", why5)
	// the convenience wrapper that records straight into a file: its stop function finishes the recording (inner stop)
	// BEFORE the file is written, and reports the write's error
	if rt := p.Func("smf", "RecordTo"); rt == nil {
		c.Unk("C13.5", "smf.RecordTo", "-", "not found")
	} else {
		c.Fn(FuncName(rt))
		wf := p.Method("smf", "SMF", "WriteFile")
		okW, whyW := false, "RecordTo returns no stop function that writes the file"
		for _, af := range rt.AnonFuncs {
			var stopC, writeC ssa.CallInstruction
			for _, call := range calls(af) {
				switch call.Common().StaticCallee() {
				case wf:
					writeC = call
				case nil:
					if stopC == nil && !call.Common().IsInvoke() {
						stopC = call
					}
				}
			}
			if writeC == nil {
				continue
			}
			okW = stopC != nil && instrDominates(stopC.(ssa.Instruction), writeC.(ssa.Instruction))
			whyW = "the file is written before (or without) the recording being finished: the track is not closed and added yet"
			if okW {
				for _, r := range allReturns(af) {
					if len(r.Results) == 1 && retVal(r, 0) != writeC.Value() && !isNilConst(retVal(r, 0)) {
						continue
					}
					if len(r.Results) == 1 && isNilConst(retVal(r, 0)) && instrDominates(writeC.(ssa.Instruction), r) {
						okW, whyW = false, "the error of writing the file is not returned by the stop function"
					}
				}
			}
		}
		c.Check(okW, "C13.5", "RecordTo: stop finishes the recording, then writes the file and reports its error", p.Pos(rt.Pos()), "inner stop dominates WriteFile; WriteFile's result is returned", whyW)
	}
}
