package main

import (
	"fmt"
	"go/token"
	"go/types"
	"os"

	"golang.org/x/tools/go/ssa"
)

func init() { register("C13", checkC13) }

func checkC13(c *Ctx) {
	p := c.P
	c.Level = "other"
	c.Explain = "C13 decided by a recording simulation: Track.RecordFrom itself is interpreted on an empty track with an arbitrary port, midi.ListenTo replaced by 'remember the receiver function' and MetaTempo/Ticks uninterpreted. When listening starts the track holds exactly (delta 0, MetaTempo(recording tempo)). The remembered receiver (closure or method value, no private state is preset or inspected) is then called three times per cell — a channel message at a1, the cell's message (256 first bytes x 5 length classes incl. the empty message) at a2 >= a1, a channel message at a3 >= a2: a message is stored only if it is a channel message or a complete F0 sysex (everything the writer can frame), once, unchanged and in order, with delta = Ticks(tempo, time since the previous STORED message); a message delivered after the track was closed is not stored behind the end of track. Ticks is Round(d[ns]*resolution*bpm/6e10) without integer narrowing; the file-level stop function stops listening, closes the track and adds it. Not decided: 'to within one tick' (float rounding; formula under C11), the one-second sleep, messages in flight at stop."
	c.Trusted = []string{"go/ssa", "E-abs", "the class table of what ListenTo can deliver (C04/C06)", "Ticks treated as uninterpreted (its formula: C11.1)"}
	c.Rule("C13.1", "tempo first: the tempo meta event built from the recording tempo is added before listening starts", 1)
	c.Rule("C13.2", "only file-legal messages are stored: the append is taken only for channel messages and complete F0 sysex; never for real-time, system-common, stray or empty messages", 1)
	c.Rule("C13.3", "delta provenance: delta = Ticks(bpm, (t - prev) ms), prev' = t when stored, prev unchanged when dropped", 1)
	c.Rule("C13.6", "delta conversion formula: Ticks(bpm, d) = Round(d[ns] * resolution * bpm / 6e10) computed in floating point from the full nanosecond value (no integer narrowing of the duration or of intermediate products)", 1)
	c.Rule("C13.4", "unchanged, in order: the stored bytes are the callback's message, one append per delivered channel message", 1)
	c.Rule("C13.5", "close and add: the file-level stop function stops listening, closes the track and adds it to the file; the record-to-file wrapper finishes the recording before it writes the file and reports the write error", 2)

	c.Rule("C13.7", "the recorded track is written as a valid file: per-event encoder table and running-status protocol of the writer (= C01.1, C01.2), deltas stored unchanged by Track.Add (= C01.7)", 10)
	c.include(checkC01, map[string]string{"C01.1": "C13.7", "C01.2": "C13.7", "C01.7": "C13.7"})
	c.Rule("C13.8", "what the recording callback is handed is the wire message: the conversion stage of ListenTo is the identity on every decoder output shape (= C04.5) — a padded or re-encoded message would be stored, written and read back as different events", 17)
	c.include(checkC04, map[string]string{"C04.5": "C13.8"})
	c.Rule("C13.9", "the arrival time the recording callback computes deltas from is the decoder's time stamp of the completing chunk (= C04.4: decoder equals the receiver model in every state x input cell, time stamps included — also for messages under running status)", 20)
	c.include(checkC04, map[string]string{"C04.4": "C13.9"})

	trackT := p.namedType("smf", "Track")
	mtT := p.namedType("smf", "MetricTicks")
	smfT := p.namedType("smf", "SMF")
	if trackT == nil || mtT == nil || smfT == nil {
		c.Unk("C13.1", "smf types", "-", "not found")
		return
	}
	rec := p.MethodOf(types.NewPointer(trackT), "RecordFrom")
	ticksFn := p.MethodOf(mtT, "Ticks")
	if rec == nil || ticksFn == nil {
		c.Unk("C13.1", "Track.RecordFrom / MetricTicks.Ticks", "-", "not found")
		return
	}
	c.Fn(FuncName(rec))
	// ---- C13.1 .. C13.4: recording simulation. Track.RecordFrom itself is interpreted on an empty track with an arbitrary
	// in port; midi.ListenTo is replaced by "remember the receiver function, return a stop function" and MetaTempo / Ticks
	// are uninterpreted. The remembered receiver — closure, method value, whatever the code hands over — is then called
	// three times: a channel message at time a1, the cell's message at a2 >= a1, a channel message at a3 >= a2. What the
	// track holds afterwards is compared with the statement. No private state is preset or inspected.
	listenTo := p.Func("", "ListenTo")
	metaTempo := p.Func("smf", "MetaTempo")
	if listenTo == nil || metaTempo == nil {
		c.Unk("C13.1", "midi.ListenTo / smf.MetaTempo", "-", "not found")
		return
	}
	bad1, badLegal, badDelta, badBytes := "", "", "", ""
	cells := 0
	evT := p.namedType("smf", "Event")
	for b0 := 0; b0 < 256; b0++ {
		for _, lc := range []int{0, 1, 2, 3, 9, -1} {
			if (lc == 0 && b0 != 0) || (lc == -1 && b0 != 0x93) {
				continue
			}
			// lc == -1: instead of a second message the track is closed (Track.Close) while the port is still listened to;
			// the channel message delivered afterwards must not end up behind the end-of-track event
			closeCell := lc == -1
			if closeCell {
				lc = 3
			}
			cells++
			ex := NewExec(p)
			var durs []string
			var recv *FuncV
			tempoFrom := ""
			var tempoMsg *SliceV
			trackLenAtListen := -1
			var trackObj int
			k8 := func(v int64) Val { return mkConst(v, 8, false) }
			ex.CallHook = func(ex *Exec, st *State, fr *Frame, call ssa.CallInstruction, callee *ssa.Function, args []Val) ([]callRes, bool) {
				switch callee {
				case ticksFn:
					d := "?"
					if iv, ok := args[2].(*IntV); ok {
						d = st.ident(iv)
					}
					b := "?"
					if f, ok := args[1].(*FloatV); ok {
						b = f.Expr
					}
					durs = append(durs, b+"|"+d)
					s := ex.syms.Get("Ticks("+b+","+d+")", 32, false)
					return []callRes{{st: st, ret: mkSym(s)}}, true
				case metaTempo:
					if f, ok := args[0].(*FloatV); ok {
						tempoFrom = f.Expr
					}
					tempoMsg = ex.mkBytes(st, "tempo", []Val{k8(0xFF), k8(0x51), k8(3), ex.byteSym("t0"), ex.byteSym("t1"), ex.byteSym("t2")}, false, 0)
					return []callRes{{st: st, ret: tempoMsg}}, true
				case listenTo:
					// remembered per path (each path has its own heap): an event of the state carries the receiver
					var rf *FuncV
					if len(args) >= 2 {
						rf, _ = args[1].(*FuncV)
					}
					n := -1
					if tsl, ok := st.heap[trackObj].(*SliceV); ok {
						if evs, okE := ex.sliceElems(st, tsl); okE {
							n = len(evs)
						}
					}
					if rf != nil {
						st.Events = append(st.Events, Event{Kind: "sim:listen-start", Args: []Val{rf, mkConst(int64(n), 64, true)}})
					}
					return []callRes{{st: st, ret: &TupleV{Vs: []Val{&FuncV{Ext: "stop"}, nilErr()}}}}, true
				}
				return nil, false
			}
			st := ex.NewState()
			zero := mkConst(0, 64, true)
			trackObj = ex.newObj(st, &SliceV{Nil: true, Off: zero, Len: zero, Cap: zero}, trackT)
			q := mkSym(ex.syms.Get("q", 16, false))
			st.refineSym(q.T.Syms[0], 24, 15360)
			var args []Val
			for _, prm := range rec.Params {
				switch {
				case types.Identical(prm.Type(), types.NewPointer(trackT)):
					args = append(args, &PtrV{Obj: trackObj})
				case types.Identical(prm.Type(), mtT):
					args = append(args, q)
				case prm.Type().String() == "float64":
					args = append(args, &FloatV{Expr: "bpm", Mono: monoOfAtom("bpm")})
				default:
					args = append(args, &IfaceV{Unk: true, NonNil: true})
				}
			}
			var started []*State
			for _, o := range ex.Call(st, rec, args, nil) {
				if o.Panic {
					bad1 = "Track.RecordFrom may panic: " + o.Msg
					continue
				}
				if ev, _ := o.Ret[len(o.Ret)-1].(*IfaceV); ev == nil || !ev.Nil {
					continue // the port could not be opened
				}
				started = append(started, o.St)
			}
			if len(started) == 0 {
				bad1 = "Track.RecordFrom does not start listening on the representative port"
				continue
			}
			msg0 := func(st *State, name string) *SliceV {
				k, v := ex.syms.Get(name+"k", 8, false), ex.syms.Get(name+"v", 8, false)
				st.refineSym(k, 0, 127)
				st.refineSym(v, 0, 127)
				return ex.mkBytes(st, name, []Val{k8(0x93), mkSym(k), mkSym(v)}, false, 0)
			}
			isChan := lc > 0 && b0 >= 0x80 && b0 <= 0xEF
			legal := isChan || (lc > 0 && b0 == 0xF0)
			for _, s0 := range started {
				recv, trackLenAtListen = nil, -1
				for _, e := range s0.Events {
					if e.Kind == "sim:listen-start" && len(e.Args) == 2 {
						recv, _ = e.Args[0].(*FuncV)
						if n, ok := e.Args[1].(*IntV); ok {
							trackLenAtListen = int(n.T.C)
						}
					}
				}
				if recv == nil || recv.Fn == nil {
					bad1 = "Track.RecordFrom returns without error but has not handed a receiver function to ListenTo"
					continue
				}
				// C13.1: when listening starts the track holds exactly the tempo event built from the recording tempo
				if tsl, ok := s0.heap[trackObj].(*SliceV); ok {
					evs, okE := ex.sliceElems(s0, tsl)
					okT := okE && len(evs) == 1 && trackLenAtListen == 1 && tempoFrom == "bpm" && tempoMsg != nil
					if okT {
						ev, _ := evs[0].(*StructV)
						ms, _ := ev.Fields[fieldIndex(ev.T, "Message")].(*SliceV)
						dl, _ := ev.Fields[fieldIndex(ev.T, "Delta")].(*IntV)
						me, okM := ex.sliceSegs(s0, ms)
						we := []Seg{{Elems: []Val{k8(0xFF), k8(0x51), k8(3), ex.byteSym("t0"), ex.byteSym("t1"), ex.byteSym("t2")}}} // what the MetaTempo stand-in returned
						if os.Getenv("ABSDEBUG") != "" && b0 == 0 {
							fmt.Fprintf(os.Stderr, "C13.1 debug: ms=%v okM=%v me=%v we=%v dl=%v\n", ms != nil, okM, me, we, valString(dl))
						}
						okT = ms != nil && okM && segsEqual(s0.dropEmptyRuns(me), s0.dropEmptyRuns(we), s0.sameVal) && dl != nil && s0.sameInt(dl, mkConst(0, 32, false))
					}
					if !okT {
						bad1 = fmt.Sprintf("when listening starts the track does not hold exactly one event (delta 0, MetaTempo(recording tempo)): events=%d at the time of ListenTo=%d, tempo argument %q", len(evs), trackLenAtListen, tempoFrom)
						continue
					}
				}
				a1 := mkSym(ex.syms.Get("a1", 32, true))
				a2 := mkSym(ex.syms.Get("a2", 32, true))
				a3 := mkSym(ex.syms.Get("a3", 32, true))
				for _, a := range []*IntV{a1, a2, a3} {
					s0.refineSym(a.T.Syms[0], 0, 1<<30)
				}
				s0.Assume("<=", a1, a2)
				s0.Assume("<=", a2, a3)
				s0.Assume("<=", a1, a3)
				m1, m3 := msg0(s0, "first"), msg0(s0, "third")
				msg := mkCellMsg(ex, s0, c08cell{lc, b0, -1})
				if lc == 0 {
					msg = ex.mkBytes(s0, "m", nil, false, 0)
				}
				fr := &Frame{fn: recv.Fn, regs: map[ssa.Value]Val{}, visits: map[*ssa.BasicBlock]int{}, widened: map[*ssa.BasicBlock]bool{}, phiHist: map[*ssa.Phi]Val{}, kept: map[*ssa.Phi]keptInv{}}
				states := []*State{s0}
				panicked := false
				for si, step := range []struct {
					m *SliceV
					t *IntV
				}{{m1, a1}, {msg, a2}, {m3, a3}} {
					var next []*State
					for _, s1 := range states {
						if closeCell && si == 1 {
							closeM := p.MethodOf(types.NewPointer(trackT), "Close")
							if closeM == nil {
								badBytes = "Track.Close not found"
								continue
							}
							for _, o := range ex.Call(s1, closeM, []Val{&PtrV{Obj: trackObj}, mkConst(0, 32, false)}, nil) {
								if !o.Panic {
									next = append(next, o.St)
								}
							}
							continue
						}
						for _, r := range ex.callValue(fr, s1, recv, []Val{step.m, step.t}, nil, nil) {
							if r.panic {
								badLegal = fmt.Sprintf("first byte %02X length class %d: the receiver panics: %s", b0, lc, r.msg)
								panicked = true
								continue
							}
							next = append(next, r.st)
						}
					}
					states = next
				}
				if panicked {
					continue
				}
				for _, s3 := range states {
					tsl, _ := s3.heap[trackObj].(*SliceV)
					evs, okE := ex.sliceElems(s3, tsl)
					if closeCell {
						okEnd := okE && len(evs) >= 1
						if okEnd {
							ev, _ := evs[len(evs)-1].(*StructV)
							var ms *SliceV
							if ev != nil {
								ms, _ = ev.Fields[fieldIndex(ev.T, "Message")].(*SliceV)
							}
							me, okM := ex.sliceSegs(s3, ms)
							okEnd = ms != nil && okM && segsEqual(s3.dropEmptyRuns(me), []Seg{{Elems: []Val{k8(0xFF), k8(0x2F), k8(0)}}}, s3.sameVal)
						}
						if !okEnd {
							badBytes = fmt.Sprintf("a channel message delivered after the track was closed (while the port is still listened to) is stored behind the end-of-track event (%d events): the written track is not a valid track chunk", len(evs))
						}
						continue
					}
					if !okE || len(evs) < 3 {
						badBytes = fmt.Sprintf("first byte %02X length class %d: after three deliveries (channel message, the cell's message, channel message) the track holds %d events; the two channel messages alone make 3 with the tempo event", b0, lc, len(evs))
						continue
					}
					stored := len(evs) - 3
					if stored > 0 && !legal {
						if badLegal == "" {
							what := fmt.Sprintf("a message starting with %02X (length class %d)", b0, lc)
							if lc == 0 {
								what = "an empty message"
							}
							badLegal = what + " is appended to the recorded track; the SMF writer frames only channel messages and F0/F7 sysex, so the written track is not a valid file"
						}
						continue
					}
					if stored > 1 || (isChan && stored != 1) {
						badBytes = fmt.Sprintf("message %02X (length class %d) is stored %d times", b0, lc, stored)
						continue
					}
					evAt := func(i int) (*SliceV, *IntV) {
						ev, _ := evs[i].(*StructV)
						if ev == nil {
							return nil, nil
						}
						ms, _ := ev.Fields[fieldIndex(ev.T, "Message")].(*SliceV)
						dl, _ := ev.Fields[fieldIndex(ev.T, "Delta")].(*IntV)
						return ms, dl
					}
					same := func(ms, want *SliceV) bool {
						me, okM := ex.sliceSegs(s3, ms)
						we, _ := ex.sliceSegs(s3, want)
						return ms != nil && okM && segsEqual(s3.dropEmptyRuns(me), s3.dropEmptyRuns(we), s3.sameVal)
					}
					ticksOf := func(from, to *IntV) *Sym {
						d := s3.Arith(token.MUL, s3.Convert(s3.Arith(token.SUB, to, from, ""), 64, true), mkConst(1000000, 64, true), "")
						return ex.syms.byName["Ticks(bpm,"+s3.ident(d)+")"]
					}
					ms1, _ := evAt(1)
					if !same(ms1, m1) {
						badBytes = "the first delivered channel message is not stored unchanged as the event after the tempo event"
						continue
					}
					prev := a1
					last := 2
					if stored == 1 {
						ms2, dl2 := evAt(2)
						if !same(ms2, msg) {
							badBytes = fmt.Sprintf("first byte %02X: the stored bytes differ from the delivered message", b0)
						}
						if w := ticksOf(a1, a2); dl2 == nil || w == nil || !s3.sameInt(dl2, mkSym(w)) {
							badDelta = fmt.Sprintf("first byte %02X: delta %s is not Ticks(bpm, (arrival - previous arrival) in ms) [Ticks calls: %v]", b0, valString(dl2), durs)
						}
						prev = a2
						last = 3
					}
					ms3, dl3 := evAt(last)
					if !same(ms3, m3) {
						badBytes = "the channel message delivered after the cell's message is not stored unchanged, in order"
						continue
					}
					if w := ticksOf(prev, a3); dl3 == nil || w == nil || !s3.sameInt(dl3, mkSym(w)) {
						if stored == 0 {
							badDelta = fmt.Sprintf("after a dropped message (first byte %02X, length class %d) the next stored delta is %s, not Ticks(bpm, time since the previous STORED message): a dropped message advances the previous-arrival time stamp, or the delta is measured from somewhere else [Ticks calls: %v]", b0, lc, valString(dl3), durs)
						} else {
							badDelta = fmt.Sprintf("the delta of the message after a stored one (first byte %02X) is %s, not Ticks(bpm, time since that message) [Ticks calls: %v]", b0, valString(dl3), durs)
						}
					}
				}
			}
		}
	}
	c.Check(bad1 == "", "C13.1", "tempo event before listening", p.Pos(rec.Pos()), "recording simulation: when ListenTo is reached the track holds exactly (delta 0, MetaTempo(bpm))", bad1)
	c.Check(badLegal == "", "C13.2", "only channel / sysex messages are stored", p.Pos(rec.Pos()), fmt.Sprintf("%d cells (first byte x length class), three deliveries each: append only for 80-EF and F0", cells), badLegal)
	c.Check(badDelta == "", "C13.3", "delta = Ticks(bpm, arrival difference); previous arrival follows stored messages only", p.Pos(rec.Pos()), "deltas of the second and third delivery against Ticks(bpm, difference to the previous stored arrival)", badDelta)
	c.Check(badBytes == "", "C13.4", "stored bytes = delivered message, once", p.Pos(rec.Pos()), "identity of the message segments; one append per channel message, in order", badBytes)
	_ = evT

	ticksFormulaRule(c, "C13.6")
	// ---- C13.5
	srec := p.MethodOf(types.NewPointer(smfT), "RecordFrom")
	ok5 := false
	why5 := "SMF.RecordFrom not found"
	if srec != nil {
		c.Fn(FuncName(srec))
		closeM := p.MethodOf(types.NewPointer(trackT), "Close")
		addM := p.MethodOf(types.NewPointer(smfT), "Add")
		why5 = "the stop function returned by SMF.RecordFrom does not stop, close and add on every path"
		for _, af := range srec.AnonFuncs {
			var stopC, closeC, addC ssa.Instruction
			for _, call := range calls(af) {
				switch call.Common().StaticCallee() {
				case closeM:
					closeC = call
				case addM:
					addC = call
				case nil:
					if stopC == nil {
						stopC = call // the captured stop function
					}
				}
			}
			if stopC != nil && closeC != nil && addC != nil && instrDominates(stopC, closeC) && instrDominates(closeC, addC) {
				okAll := true
				for _, r := range allReturns(af) {
					if canReachFromEntryAvoiding(af, r, map[ssa.Instruction]bool{addC: true}) {
						okAll = false
					}
				}
				if okAll {
					ok5 = true
				}
			}
		}
	}
	c.Check(ok5, "C13.5", "file-level stop: stop listening, close, add", "-", "stop -> Close -> Add on every path of the returned stop function", why5)
	// the convenience wrapper that records straight into a file: its stop function finishes the recording (inner stop)
	// BEFORE the file is written, and reports the write's error
	if rt := p.Func("smf", "RecordTo"); rt == nil {
		c.Unk("C13.5", "smf.RecordTo", "-", "not found")
	} else {
		c.Fn(FuncName(rt))
		wf := p.Method("smf", "SMF", "WriteFile")
		okW, whyW := false, "RecordTo returns no stop function that writes the file"
		for _, af := range rt.AnonFuncs {
			var stopC, writeC ssa.CallInstruction
			for _, call := range calls(af) {
				switch call.Common().StaticCallee() {
				case wf:
					writeC = call
				case nil:
					if stopC == nil && !call.Common().IsInvoke() {
						stopC = call
					}
				}
			}
			if writeC == nil {
				continue
			}
			okW = stopC != nil && instrDominates(stopC.(ssa.Instruction), writeC.(ssa.Instruction))
			whyW = "the file is written before (or without) the recording being finished: the track is not closed and added yet"
			if okW {
				for _, r := range allReturns(af) {
					if len(r.Results) == 1 && retVal(r, 0) != writeC.Value() && !isNilConst(retVal(r, 0)) {
						continue
					}
					if len(r.Results) == 1 && isNilConst(retVal(r, 0)) && instrDominates(writeC.(ssa.Instruction), r) {
						okW, whyW = false, "the error of writing the file is not returned by the stop function"
					}
				}
			}
		}
		c.Check(okW, "C13.5", "RecordTo: stop finishes the recording, then writes the file and reports its error", p.Pos(rt.Pos()), "inner stop dominates WriteFile; WriteFile's result is returned", whyW)
	}
}
