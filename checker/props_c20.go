package main

import (
	"fmt"
	"go/token"
	"go/types"

	"golang.org/x/tools/go/ssa"
)

func init() { register("C20", checkC20) }

func checkC20(c *Ctx) {
	p := c.P
	c.Level = "other"
	c.Explain = "C20 decided clause by clause: the bar-length function is interpreted abstractly for every denominator with a symbolic numerator (no intermediate may leave its integer type when the result fits in 255); bar starts are the running sum of length x ticks-per-32nd (three symbolic bars, lengths and resolution uninterpreted); event placement on = bar start + ticks32 x pos, off = on + ticks32 x duration, note-off emitted iff note start with non-zero duration on the same channel/key; closing deltas, the default 4/4 constant and the producer agreement of the two exports by path/dataflow rules. Not decided: equality of the two exports as multisets; order among equal ticks; events ending outside the song."
	c.Trusted = []string{"go/ssa", "E-abs", "sort.Sort treated as a permutation"}
	c.Rule("C20.1", "bar length without wrap: for numerators 1..24 over denominators 1,2,4,8,16,32 the result is num*32/den and no intermediate leaves its integer type whenever the result fits in 255", 6)
	c.Rule("C20.2", "bars end to end: start(0)=0, start(k+1)=start(k)+len(k)*ticks32, song end = final sum", 1)
	c.Rule("C20.3", "event placement: on = bar.start + ticks32*pos; off = on + ticks32*duration (the note-off itself — iff note start with duration, same channel and key — is decided in the export simulation, C20.4)", 2)
	c.Rule("C20.4", "export simulation: both exports interpreted end to end on three representative songs (a note held across a bar line, a 12/8 and a 5/32 bar, six signature changes, arbitrary stale private state) hold exactly the prescribed events at bar start + ticks32*position, note-offs at + ticks32*duration, time signatures where they change, deltas = tick differences, every track ending at the song end", 6)
	c.Rule("C20.7", "grid unit: the tick count of a 32nd note used for bar lengths and event positions is resolution/8", 1)
	c.Rule("C20.5", "time-signature default: the 4/4 default of bar insertion and of the bar-line pass are the same constant", 1)

	barT := p.namedType("sequencer", "Bar")
	songT := p.namedType("sequencer", "Song")
	evT := p.namedType("sequencer", "Event")
	mtT := p.namedType("smf", "MetricTicks")
	if barT == nil || songT == nil || evT == nil || mtT == nil {
		c.Unk("C20.1", "sequencer types", "-", "not found")
		return
	}
	barLen := p.MethodOf(barT, "Len")
	t32 := p.MethodOf(mtT, "Ticks32th")
	setAbs := p.MethodOf(types.NewPointer(songT), "SetBarAbsTicks")
	evAbs := p.MethodOf(types.NewPointer(evT), "AbsTicks")
	toSMF0 := p.MethodOf(types.NewPointer(songT), "ToSMF0")
	toSMF1 := p.MethodOf(songT, "ToSMF1")
	if toSMF1 == nil {
		toSMF1 = p.MethodOf(types.NewPointer(songT), "ToSMF1")
	}
	if barLen == nil || t32 == nil || setAbs == nil || evAbs == nil || toSMF0 == nil || toSMF1 == nil {
		c.Unk("C20.1", "sequencer anchors (Bar.Len, Ticks32th, SetBarAbsTicks, Event.AbsTicks, ToSMF0/1)", "-", "not resolved")
		return
	}
	// ---- C20.7 the grid unit: ticks of a 32nd note = Round(resolution / 8) (exact for resolutions divisible by 8)
	{
		c.Fn(FuncName(t32))
		ex := NewExec(p)
		st := ex.NewState()
		q := mkSym(ex.syms.Get("q", 16, false))
		st.refineSym(q.T.Syms[0], 1, 65535)
		ok, why, n := true, "", 0
		for _, o := range ex.Call(st, t32, []Val{q}, nil) {
			n++
			if o.Panic {
				ok, why = false, o.Msg
				continue
			}
			iv, _ := o.Ret[0].(*IntV)
			if iv == nil {
				ok, why = false, "no integer result"
				continue
			}
			// either an exact integer quotient q/8, or the rounded float monomial 0.125*q
			want := o.St.Arith(token.QUO, o.St.Convert(q, 32, false), mkConst(8, 32, false), "")
			if o.St.sameInt(iv, want) {
				continue
			}
			sy, single := o.St.TermOf(iv).SingleSym()
			if !single || ex.MonoOf[sy] == nil {
				ok, why = false, "the ticks of a 32nd note are not resolution/8: "+iv.String()
				continue
			}
			fv := ex.MonoOf[sy]
			if fv.Rounded != "Round" && fv.Rounded != "" {
				ok, why = false, "resolution/8 is not rounded to nearest: "+fv.Rounded
			}
			if !monoEq(fv.Mono, monoWant(0.125, map[string]int{"q": 1})) {
				ok, why = false, fmt.Sprintf("the ticks of a 32nd note are computed as %s, a 32nd note is resolution/8 ticks", fv.Mono)
			}
		}
		okDetail := "symbolic resolution: Round(resolution/8)"
		if !ok || n == 0 {
			// second form of the same question, on the domain the property states ("all resolutions divisible by 8"):
			// resolution = 8k with k symbolic, the result must be k — whatever integer or floating-point route is taken
			ex2 := NewExec(p)
			st2 := ex2.NewState()
			k := mkSym(ex2.syms.Get("k", 16, false))
			st2.refineSym(k.T.Syms[0], 1, 8191)
			q8 := st2.Arith(token.MUL, k, mkConst(8, 16, false), "")
			ok2, n2, why2 := true, 0, ""
			for _, o := range ex2.Call(st2, t32, []Val{q8}, nil) {
				n2++
				if o.Panic {
					ok2, why2 = false, o.Msg
					continue
				}
				iv, _ := o.Ret[0].(*IntV)
				if iv == nil || !o.St.sameInt(iv, o.St.Convert(k, iv.W, iv.Signed)) {
					ok2, why2 = false, "resolution = 8k: the ticks of a 32nd note are "+valString(o.Ret[0])+", not k"
				}
			}
			for u := range ex2.Unsupported {
				ok2, why2 = false, "unmodelled construct: "+u
			}
			if ok2 && n2 > 0 && !ex2.Budget {
				ok, n, okDetail = true, n2, "resolution = 8k with k symbolic in 1..8191: the result is k"
			} else {
				why += "; " + why2
			}
		}
		c.Check(ok && n > 0, "C20.7", "ticks of a 32nd note = resolution / 8", p.Pos(t32.Pos()), okDetail, why)
	}
	// ---- C20.1
	c.Fn(FuncName(barLen))
	for _, den := range []int64{1, 2, 4, 8, 16, 32} {
		maxNum := int64(24)
		if 255*den/32 < maxNum {
			maxNum = 255 * den / 32
		}
		ex := NewExec(p)
		st := ex.NewState()
		num := mkSym(ex.syms.Get("numerator", 8, false))
		st.refineSym(num.T.Syms[0], 1, maxNum)
		bv := ex.zeroOf(barT).(*StructV)
		bv.Fields[fieldIndex(bv.T, "TimeSig")] = &ArrayV{Elem: types.Typ[types.Uint8], Segs: []Seg{{Elems: []Val{num, mkConst(den, 8, false)}}}}
		ok := true
		why := ""
		n := 0
		for _, o := range ex.Call(st, barLen, []Val{bv}, nil) {
			n++
			if o.Panic || len(problemEvents(o.St.Events)) > 0 {
				ok = false
				why = "panic/division: " + o.Msg + fmtEvents(problemEvents(o.St.Events))
				continue
			}
			for _, e := range o.St.Events {
				if e.Kind == "wrap" {
					ok = false
					why = fmt.Sprintf("denominator %d, numerator in [1,%d]: %s although the bar length fits in 255 (e.g. 12/8 must give 48)", den, maxNum, e.Msg)
				}
			}
			got, _ := o.Ret[0].(*IntV)
			// expected value range check: num*32/den
			wide := o.St.Arith(token.QUO, o.St.Arith(token.MUL, o.St.Convert(num, 32, false), mkConst(32, 32, false), ""), mkConst(den, 32, false), "")
			if got == nil || !o.St.sameInt(o.St.Convert(got, 32, false), wide) {
				gl, gh := int64(0), int64(0)
				if got != nil {
					gl, gh = o.St.Range(got)
				}
				wl, wh := o.St.Range(wide)
				if ok && (gl != wl || gh != wh) {
					ok = false
					why = fmt.Sprintf("denominator %d: result in [%d,%d], num*32/den is in [%d,%d]", den, gl, gh, wl, wh)
				} else if ok && got != nil && !o.St.sameInt(o.St.Convert(got, 32, false), wide) {
					ok = false
					why = fmt.Sprintf("denominator %d: result %s is not num*32/den (%s)", den, got, wide)
				}
			}
		}
		c.Check(ok && n > 0, "C20.1", fmt.Sprintf("bar length for x/%d", den), p.Pos(barLen.Pos()), fmt.Sprintf("numerator symbolic in [1,%d]: num*32/%d without leaving the integer type", maxNum, den), why)
	}
	// ---- C20.2
	{
		c.Fn(FuncName(setAbs))
		ex := NewExec(p)
		lens := map[int]*IntV{}
		tk := mkSym(ex.syms.Get("ticks32", 32, false))
		ex.CallHook = func(ex *Exec, st *State, fr *Frame, call ssa.CallInstruction, callee *ssa.Function, args []Val) ([]callRes, bool) {
			switch callee {
			case barLen:
				// identify the bar by its Number field
				if sv, ok := args[0].(*StructV); ok {
					if nv, ok := sv.Fields[fieldIndex(sv.T, "Number")].(*IntV); ok {
						if k, ok := st.ConstOf(nv); ok {
							return []callRes{{st: st, ret: lens[int(k)]}}, true
						}
					}
				}
			case t32:
				return []callRes{{st: st, ret: tk}}, true
			}
			return nil, false
		}
		st := ex.NewState()
		st.refineSym(tk.T.Syms[0], 1, 8192)
		sp := ex.newZeroObject(st, songT)
		var barPtrs []Val
		var bars []*PtrV
		for i := 0; i < 3; i++ {
			l := mkSym(ex.syms.Get(fmt.Sprintf("len%d", i), 8, false))
			st.refineSym(l.T.Syms[0], 1, 255)
			lens[i] = l
			bp := ex.newZeroObject(st, barT)
			ex.setField(st, bp, "Number", mkConst(int64(i), 64, false))
			ex.setField(st, bp, "AbsTicks", mkSym(ex.syms.Get(fmt.Sprintf("stale%d", i), 64, true)))
			bars = append(bars, bp)
			barPtrs = append(barPtrs, bp)
		}
		// the song end left over from an earlier export must not leak into the new bar starts
		stale := mkSym(ex.syms.Get("staleSongEnd", 64, true))
		st.refineSym(stale.T.Syms[0], 0, 1<<40)
		ex.setField(st, sp, "lastTick", stale)
		id := ex.newObj(st, &ArrayV{Elem: types.NewPointer(barT), Segs: []Seg{{Elems: barPtrs}}}, nil)
		n3 := mkConst(3, 64, true)
		ex.setField(st, sp, "bars", &SliceV{Obj: id, Off: mkConst(0, 64, true), Len: n3, Cap: n3})
		ok := true
		why := ""
		n := 0
		for _, o := range ex.Call(st, setAbs, []Val{sp}, nil) {
			n++
			if o.Panic || len(problemEvents(o.St.Events)) > 0 {
				ok = false
				why = o.Msg + fmtEvents(problemEvents(o.St.Events))
				continue
			}
			sum := mkConst(0, 64, true)
			for i := 0; i < 3; i++ {
				got, _ := ex.getField(o.St, bars[i], "AbsTicks")
				gi, _ := got.(*IntV)
				if gi == nil || !o.St.sameInt(gi, sum) {
					ok = false
					why = fmt.Sprintf("bar %d starts at %s, must start where bar %d ends (%s)", i, valString(got), i-1, sum)
				}
				prod := o.St.Arith(token.MUL, o.St.Convert(lens[i], 64, true), o.St.Convert(tk, 64, true), "")
				sum = o.St.Arith(token.ADD, sum, prod, "")
			}
			lt, _ := ex.getField(o.St, sp, "lastTick")
			if li, _ := lt.(*IntV); li == nil || !o.St.sameInt(li, sum) {
				ok = false
				why = "song end " + valString(lt) + " is not the end of the last bar " + sum.String()
			}
		}
		c.Check(ok && n > 0, "C20.2", "bars laid end to end", p.Pos(setAbs.Pos()), "three bars with symbolic lengths/resolution: start(k+1) = start(k) + len(k)*ticks32, song end = total", why)
	}
	// ---- C20.3 placement
	{
		c.Fn(FuncName(evAbs))
		for _, zeroDur := range []bool{false, true} {
			ex := NewExec(p)
			tk := mkSym(ex.syms.Get("ticks32", 32, false))
			ex.CallHook = func(ex *Exec, st *State, fr *Frame, call ssa.CallInstruction, callee *ssa.Function, args []Val) ([]callRes, bool) {
				if callee == t32 {
					return []callRes{{st: st, ret: tk}}, true
				}
				return nil, false
			}
			st := ex.NewState()
			st.refineSym(tk.T.Syms[0], 1, 8192)
			bp := ex.newZeroObject(st, barT)
			start := mkSym(ex.syms.Get("barStart", 64, true))
			st.refineSym(start.T.Syms[0], 0, 1<<40)
			ex.setField(st, bp, "AbsTicks", start)
			ep := ex.newZeroObject(st, evT)
			pos := mkSym(ex.syms.Get("pos", 8, false))
			dur := mkSym(ex.syms.Get("duration", 8, false))
			if zeroDur {
				dur = mkConst(0, 8, false)
			} else {
				st.refineSym(dur.T.Syms[0], 1, 255)
			}
			ex.setField(st, ep, "Pos", pos)
			ex.setField(st, ep, "Duration", dur)
			ok := true
			why := ""
			n := 0
			for _, o := range ex.Call(st, evAbs, []Val{ep, bp, mkSym(ex.syms.Get("resolution", 16, false))}, nil) {
				n++
				if o.Panic {
					ok = false
					why = o.Msg
					continue
				}
				on, _ := o.Ret[0].(*IntV)
				off, _ := o.Ret[1].(*IntV)
				wOn := o.St.Arith(token.ADD, start, o.St.Arith(token.MUL, o.St.Convert(tk, 64, true), o.St.Convert(pos, 64, true), ""), "")
				wOff := mkConst(0, 64, true)
				if !zeroDur {
					wOff = o.St.Arith(token.ADD, wOn, o.St.Arith(token.MUL, o.St.Convert(tk, 64, true), o.St.Convert(dur, 64, true), ""), "")
				}
				if on == nil || !o.St.sameInt(on, wOn) {
					ok = false
					why = fmt.Sprintf("event starts at %s, must be bar start + ticks32*pos = %s", valString(o.Ret[0]), wOn)
				}
				if off == nil || !o.St.sameInt(off, wOff) {
					ok = false
					why = fmt.Sprintf("event ends at %s, must be %s", valString(o.Ret[1]), wOff)
				}
			}
			c.Check(ok && n > 0, "C20.3", fmt.Sprintf("event placement (zero duration=%v)", zeroDur), p.Pos(evAbs.Pos()), "on = start + ticks32*pos; off = on + ticks32*duration (0 when no duration)", why)
		}
	}
	// note-off emission (iff note start with non-zero duration, same channel and key), the deltas and the closing of
	// every track are decided by the export simulation below; until round 5 three syntactic rules stood here (a NoteOff
	// call guarded by GetNoteStart && end != 0 in the function that calls Event.AbsTicks; delta loops dominated by a
	// sort in the same function; Close(songEnd - last)), and a fourth compared which producers both exports call.
	// ---- C20.5 defaults
	{
		addBar := p.MethodOf(types.NewPointer(songT), "AddBar")
		var mk *ssa.Function
		for _, f := range p.Reachable(toSMF0) {
			if f != toSMF0 && f != toSMF1 {
				for _, call := range calls(f) {
					if call.Common().StaticCallee() == setAbs {
						mk = f
					}
				}
			}
		}
		d1, ok1 := arrayDefault(addBar)
		d2, ok2 := arrayDefault(mk)
		c.Check(ok1 && ok2 && d1 == d2 && d1 == [2]int64{4, 4}, "C20.5", "4/4 default agrees", "-", "bar insertion and bar-line pass both default to 4/4", fmt.Sprintf("defaults differ or are not 4/4: insertion %v (found %v), bar-line pass %v (found %v)", d1, ok1, d2, ok2))
	}
	// ---- C20.6 producers
	// ---- both exports end to end on representative songs
	exportSimulation(c, toSMF0, toSMF1)
}

// followsAbsTicks: v is (a phi over) loads of a field named AbsTicks, or constant 0 initial value.
func followsAbsTicks(v ssa.Value, depth int, seen map[ssa.Value]bool) bool {
	if depth > 6 || seen[v] {
		return true
	}
	seen[v] = true
	switch x := v.(type) {
	case *ssa.Const:
		k, ok := constInt(x)
		return ok && k == 0
	case *ssa.UnOp:
		if fv := fieldVar(x.X); fv != nil {
			return fv.Name() == "AbsTicks"
		}
		// load of a local cell: all stores into it must follow
		if a, ok := x.X.(*ssa.Alloc); ok {
			okAll := true
			for _, u := range liveRefs(a) {
				if st, ok := u.(*ssa.Store); ok && st.Addr == a {
					if !followsAbsTicks(st.Val, depth+1, seen) {
						okAll = false
					}
				}
			}
			return okAll
		}
	case *ssa.Phi:
		for _, e := range x.Edges {
			if !followsAbsTicks(e, depth+1, seen) {
				return false
			}
		}
		return true
	}
	return false
}

// arrayDefault: the constants stored into a local [2]uint8 in f (the default time signature).
func arrayDefault(f *ssa.Function) ([2]int64, bool) {
	var out [2]int64
	if f == nil {
		return out, false
	}
	found := map[int64]bool{}
	for _, b := range f.Blocks {
		for _, in := range b.Instrs {
			st, ok := in.(*ssa.Store)
			if !ok {
				continue
			}
			ia, ok := st.Addr.(*ssa.IndexAddr)
			if !ok {
				continue
			}
			if at, ok := ia.X.Type().Underlying().(*types.Pointer); ok {
				if arr, ok := at.Elem().Underlying().(*types.Array); ok && arr.Len() == 2 {
					i, ok1 := constInt(ia.Index)
					v, ok2 := constInt(st.Val)
					if ok1 && ok2 && (i == 0 || i == 1) && v != 0 {
						if !found[i] {
							out[i] = v
							found[i] = true
						}
					}
				}
			}
		}
	}
	return out, found[0] && found[1]
}
