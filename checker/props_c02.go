package main

func init() { register("C02", checkC02) }

func checkC02(c *Ctx) {
	p := c.P
	c.Level = "other"
	c.Explain = "C02 (conformance of decoding) is decided on the reader's grammar tables, extracted by abstract interpretation and compared with the SMF 1.0 specification compiled into the checker: per-event grammar over all first bytes x running-status states x (for meta) all 256 type bytes, incl. end-of-track bookkeeping and pass-through of unknown meta types; running-status table; header semantics over 6 symbolic bytes; alien chunks skipped by exactly their declared length; VLQ decoding incl. non-minimal encodings; no reachable panic in the decoder. Not decided: event-for-event equality with an independent decoder over whole files (interplay of many events), files with more than 32767 tracks."
	c.Trusted = []string{"go/ssa", "E-abs transfer functions and summaries (bytes.Reader, io.ReadFull, io.CopyN)", "SMF 1.0 grammar tables in the checker (codec.go)"}
	c.Rule("C02.1", "event grammar table: per (first byte, running status) cell the bytes consumed after the first byte, the message built and the running status afterwards equal SMF 1.0 (8n,9n,An,Bn,En: 2 data; Cn,Dn: 1; F0/F7: VLQ L then L bytes; FF: type, VLQ L, L bytes; running status: first byte is data 1); unknown meta types pass through; end-of-track bookkeeping", 5)
	c.Rule("C02.2", "running-status table: cleared by exactly FF/F0/F7, set by exactly 80-EF, kept otherwise", 1)
	c.Rule("C02.3", "header semantics: formats {0,1,2}; bit 15 of division selects time code; metric = bits 0-14; fps = two's-complement negation of the high byte; subframes = low byte", 1)
	c.Rule("C02.4", "alien chunks skipped by length: whole-file simulation of ReadFrom — an unknown chunk of any declared length before the first track, one named MTrK and two in a row between the tracks; the call succeeds and returns exactly the two tracks with their events and deltas", 1)
	c.Rule("C02.7", "no reachable panic in the event decoder for any (first byte, running status) cell", 5)
	c.Rule("C02.8", "VLQ decoding: value = concatenation of the 7-bit groups for 1..5-byte encodings incl. non-minimal ones; truncated quantity is an error", 6)
	if p.Func("smf", "ReadFrom") == nil {
		c.Unk("C02.1", "anchor ReadFrom", "-", "not resolved")
		return
	}
	ruleEventDecode(c, "C02.1", "C02.7")
	ruleRSReader(c, "C02.2")
	ruleHeaderRead(c, "C02.3", "")
	runReadFromSim(c, "C02.4", "")
	ruleVLQ(c, "", "C02.8", "")
	c.Rule("C02.9", "every decoded event reaches the caller: the decoded delta goes to Track.Add/Close and Track.Add stores any event bytes it is given (incomplete sysex, F7 packets, any meta) unchanged (= C01.7)", 5)
	c.include(checkC01, map[string]string{"C01.7": "C02.9"})
}
