package main

import (
	"fmt"
	"go/constant"
	"go/types"
	"os"
	"sort"
	"strings"
	"sync"

	"golang.org/x/tools/go/ssa"
)

func init() { register("C08", checkC08) }

type c08cell struct {
	lenClass int // 0..8 exact, 9 = ">=9"
	b0       int
	b1       int // -1 = symbolic
}

func (c c08cell) String() string {
	l := fmt.Sprint(c.lenClass)
	if c.lenClass == 9 {
		l = ">=9"
	}
	s := fmt.Sprintf("len=%s", l)
	if c.lenClass > 0 {
		s += fmt.Sprintf(" b0=%02X", c.b0)
	}
	if c.b1 >= 0 {
		s += fmt.Sprintf(" b1=%02X", c.b1)
	}
	return s
}

type c08result struct {
	cell     c08cell
	typ      int64
	typOK    bool
	problems []string // op: problem
	accepts  []string // accessors that may return true
	runs     int
	isCat    map[int64]int // Message.Is(category constant): 1 true, 0 false, -1 undecided / differs between paths
}

// mkCellMsg builds the abstract message of a cell.
func mkCellMsg(ex *Exec, st *State, c c08cell) *SliceV {
	n := c.lenClass
	if n == 9 {
		n = 9
	}
	var elems []Val
	for i := 0; i < n; i++ {
		switch {
		case i == 0:
			elems = append(elems, mkConst(int64(c.b0), 8, false))
		case i == 1 && c.b1 >= 0:
			elems = append(elems, mkConst(int64(c.b1), 8, false))
		default:
			elems = append(elems, ex.byteSym(fmt.Sprintf("m[%d]", i)))
		}
	}
	return ex.mkBytes(st, "m", elems, c.lenClass == 9, 0)
}

func checkC08(c *Ctx) {
	p := c.P
	c.Level = "proof"
	c.Explain = "C08 decided by abstract interpretation under a trace partition that covers every byte string: (length 0..8 or >=9) x (first byte, all 256 values singly) x (for file messages with leading FF: second byte, all 256 values singly); all other bytes are symbolic. In every cell Type, Is (symbolic checker), IsOneOf, IsPlayable, String and every Get* accessor (non-nil out-parameters) are interpreted: no reachable panic / out-of-range index / failing assertion; Type() is a single constant; exactly one category holds; every accepting type-specific accessor belongs to the reported type."
	c.Trusted = []string{"go/ssa translation", "E-abs transfer functions and stdlib summaries (fmt, bytes.Buffer, bytes.Reader do not panic)", "typed constants of midi.Type from go/types"}
	c.Rule("C08.1", "totality: in every cell no operation has a reachable panic, possibly out-of-range index/slice, failing single-result assertion, nil dereference or division by zero", 2)
	c.Rule("C08.2", "one type, one category: Type() evaluates to a single constant per cell and exactly one of channel / system common / real-time / sysex / unknown (/ meta for file messages) holds for it", 2)
	c.Rule("C08.3", "accessor => type: every type-specific accessor that may accept in a cell accepts only cells whose Type() is one fixed type (its type), so at most one type's accessors accept a message; derived views (accessors built on another accessor of the same receiver, and GetChannel) exempt", 10)
	c.Rule("C08.4", "FF is meta in files: for smf.Message cells with leading FF the type is decided by the meta table (never the wire Reset), and Type() of FF-cells never equals a wire type", 1)

	c.Rule("C08.5", "playability follows the classification: every FF-leading file message is reported not playable, every channel message playable, over 256 first bytes x length classes (= C12.2)", 3)
	c.include(checkC12, map[string]string{"C12.2": "C08.5"})

	maxLen := 9 // length classes 0..8 and ">=9" (class 9); the thorough tier also runs exact lengths 9..16 before the open class
	extraLens := []int{}
	if c.Tier == "thorough" {
		extraLens = []int{10, 11, 12, 13, 14, 15, 16}
	}
	_ = extraLens
	totalCells, totalRuns := 0, 0
	for _, tgt := range []struct{ rel, label string }{{"", "midi.Message"}, {"smf", "smf.Message"}} {
		sp := p.Pkg(tgt.rel)
		if sp == nil {
			c.Unk("C08.1", tgt.label, "-", "package not loaded")
			continue
		}
		methods := p.methodsOf(tgt.rel, "Message")
		byName := map[string]*ssa.Function{}
		for _, m := range methods {
			byName[m.Name()] = m
			c.Fn(FuncName(m))
		}
		for _, need := range []string{"Type", "Is", "IsOneOf", "IsPlayable", "String"} {
			if byName[need] == nil {
				c.Unk("C08.1", tgt.label+"."+need, "-", "method not found")
			}
		}
		var getters []*ssa.Function
		// derived views: GetChannel (named in the statement) and accessors built on another accessor of the same
		// receiver type; an accessor that merely delegates to another Message type's accessor inherits its status.
		var isDerived func(m *ssa.Function, depth int) bool
		isDerived = func(m *ssa.Function, depth int) bool {
			// documented views over several message types (exported API, named here with the reason): GetChannel — every
			// channel message has a channel; GetNoteStart / GetNoteEnd — "a note begins / ends", i.e. note-on with velocity
			// > 0 resp. note-off or note-on with velocity 0. Further views are recognised by being built on another accessor.
			switch m.Name() {
			case "GetChannel", "GetNoteStart", "GetNoteEnd":
				return true
			}
			if depth > 4 {
				return false
			}
			for _, call := range calls(m) {
				cal := call.Common().StaticCallee()
				if cal == nil || cal == m || !strings.HasPrefix(cal.Name(), "Get") || cal.Signature.Recv() == nil || namedTypeName(cal.Signature.Recv().Type()) != "Message" {
					continue
				}
				if types.Identical(cal.Signature.Recv().Type(), m.Signature.Recv().Type()) {
					return true
				}
				if isDerived(cal, depth+1) {
					return true
				}
			}
			return false
		}
		derived := map[string]bool{}
		for _, m := range methods {
			if !strings.HasPrefix(m.Name(), "Get") || !m.Object().Exported() {
				continue
			}
			getters = append(getters, m)
			if isDerived(m, 0) {
				derived[m.Name()] = true
			}
		}
		// category constants
		midiPkg := p.TPkg("")
		cat := map[string]int64{}
		for _, n := range []string{"UnknownMsg", "RealTimeMsg", "SysCommonMsg", "ChannelMsg", "SysExMsg"} {
			if k, ok := midiPkg.Scope().Lookup(n).(*types.Const); ok {
				v, _ := constant.Int64Val(k.Val())
				cat[n] = v
			} else {
				c.Unk("C08.2", "constant "+n, "-", "not found")
			}
		}
		if tgt.rel == "smf" {
			if k, ok := sp.Pkg.Scope().Lookup("MetaMsg").(*types.Const); ok {
				v, _ := constant.Int64Val(k.Val())
				cat["MetaMsg"] = v
			}
		}
		typeIs := p.Method("", "Type", "Is")
		if typeIs == nil {
			c.Unk("C08.2", "midi.Type.Is", "-", "not found")
			continue
		}
		// cells
		var cells []c08cell
		for l := 0; l <= maxLen; l++ {
			if l == 0 {
				cells = append(cells, c08cell{0, 0, -1})
				continue
			}
			for b0 := 0; b0 < 256; b0++ {
				if tgt.rel == "smf" && b0 == 0xFF && l >= 2 {
					for b1 := 0; b1 < 256; b1++ {
						cells = append(cells, c08cell{l, b0, b1})
					}
				} else {
					cells = append(cells, c08cell{l, b0, -1})
				}
			}
		}
		results := make([]c08result, len(cells))
		var wg sync.WaitGroup
		nPar := 16
		if os.Getenv("ABSDEBUG") != "" {
			nPar = 1 // the debugging profiles are global
		}
		sem := make(chan bool, nPar)
		for ci := range cells {
			wg.Add(1)
			sem <- true
			go func(ci int) {
				defer wg.Done()
				defer func() { <-sem }()
				defer func() {
					if r := recover(); r != nil {
						results[ci].problems = append(results[ci].problems, fmt.Sprintf("checker panic: %v", r))
					}
				}()
				results[ci] = runC08Cell(p, cells[ci], byName, getters, cat)
			}(ci)
		}
		wg.Wait()
		// category per type value (cached)
		catCache := map[int64][]string{}
		categories := func(t int64) []string {
			if r, ok := catCache[t]; ok {
				return r
			}
			var holds []string
			if t == cat["UnknownMsg"] {
				holds = append(holds, "unknown")
			}
			for _, n := range []string{"RealTimeMsg", "SysCommonMsg", "ChannelMsg", "SysExMsg", "MetaMsg"} {
				cv, ok := cat[n]
				if !ok {
					continue
				}
				ex := NewExec(p)
				st := ex.NewState()
				outs := ex.Call(st, typeIs, []Val{mkConst(t, 8, true), mkConst(cv, 8, true)}, nil)
				for _, o := range outs {
					if o.Panic {
						holds = append(holds, "panic:"+n)
						continue
					}
					if bv, ok := o.Ret[0].(*BoolV); ok {
						if v, k := o.St.boolOf(bv); !k || v {
							holds = append(holds, n)
						}
					}
				}
			}
			catCache[t] = holds
			return holds
		}
		accTypes := map[string]map[int64]bool{}
		nProblems := 0
		nIsBad := 0
		okCells := 0
		for _, r := range results {
			totalCells++
			totalRuns += r.runs
			cellKey := tgt.label + " cell " + r.cell.String()
			for _, pr := range r.problems {
				nProblems++
				if nProblems <= 25 {
					c.Bad("C08.1", cellKey+" :: "+pr[:strings.Index(pr+"|", "|")], "-", pr)
				}
			}
			if !r.typOK {
				c.Bad("C08.2", cellKey+" Type()", "-", "Type() does not evaluate to a single constant in this cell")
				continue
			}
			h := categories(r.typ)
			if len(h) != 1 {
				c.Bad("C08.2", fmt.Sprintf("%s type %d categories", tgt.label, r.typ), "-", fmt.Sprintf("type value %d (cell %s) belongs to %v: not exactly one category", r.typ, r.cell, h))
			}
			if tgt.rel == "smf" && r.cell.lenClass >= 1 && r.cell.b0 == 0xFF {
				// must not be a wire type
				if len(h) == 1 && h[0] != "MetaMsg" && h[0] != "unknown" {
					c.Bad("C08.4", "FF-cell "+r.cell.String(), "-", fmt.Sprintf("file message with leading FF is classified as wire category %s (type %d)", h[0], r.typ))
				}
			}
			// the message-level membership test agrees with the type-level one for every category
			for n, cv := range cat {
				label := n
				if n == "UnknownMsg" {
					label = "unknown"
				}
				want := 0
				for _, x := range h {
					if x == label {
						want = 1
					}
				}
				if got, ok := r.isCat[cv]; ok && got != want {
					nIsBad++
					if nIsBad <= 10 {
						c.Bad("C08.2", fmt.Sprintf("%s.Is(%s) in cell %s", tgt.label, n, r.cell), "-", fmt.Sprintf("Message.Is / IsOneOf(%s) gives %s for a message whose Type() is %d, for which Type.Is(%s) is %v: the message belongs to no category (or to two) depending on which of the two questions is asked", n, map[int]string{1: "true", 0: "false", -1: "no single answer"}[got], r.typ, n, want == 1))
					}
				}
			}
			for _, a := range r.accepts {
				if accTypes[a] == nil {
					accTypes[a] = map[int64]bool{}
				}
				accTypes[a][r.typ] = true
			}
			if len(r.problems) == 0 {
				okCells++
			}
		}
		if nIsBad == 0 {
			c.OK("C08.2", tgt.label+" Is/IsOneOf agree with Type().Is", "-", fmt.Sprintf("%d cells x %d category constants", len(cells), len(cat)))
		}
		if nProblems == 0 {
			c.OK("C08.1", tgt.label+" totality", "-", fmt.Sprintf("%d cells x %d operations: no reachable panic or unproven bound", len(cells), len(getters)+5))
		} else if nProblems > 25 {
			c.Bad("C08.1", tgt.label+" more", "-", fmt.Sprintf("%d further problems suppressed", nProblems-25))
		}
		var tvals []int64
		for t := range catCache {
			tvals = append(tvals, t)
		}
		sort.Slice(tvals, func(i, j int) bool { return tvals[i] < tvals[j] })
		for _, t := range tvals {
			if h := catCache[t]; len(h) == 1 {
				c.OK("C08.2", fmt.Sprintf("%s type %d", tgt.label, t), "-", "exactly one category: "+h[0])
			}
		}
		if tgt.rel == "smf" {
			c.OK("C08.4", "FF cells", "-", "every cell with leading FF is meta or unknown")
		}
		for _, g := range getters {
			ts := accTypes[g.Name()]
			key := tgt.label + "." + g.Name()
			if derived[g.Name()] {
				c.OK("C08.3", key+" (derived view)", p.Pos(g.Pos()), fmt.Sprintf("exempt; accepts %d types", len(ts)))
				continue
			}
			var l []string
			for t := range ts {
				l = append(l, fmt.Sprint(t))
			}
			sort.Strings(l)
			switch len(ts) {
			case 1:
				c.OK("C08.3", key, p.Pos(g.Pos()), "accepts only cells of type "+l[0])
			case 0:
				c.Bad("C08.3", key, p.Pos(g.Pos()), "accessor accepts no cell at all (vacuous accessor)")
			default:
				c.Bad("C08.3", key, p.Pos(g.Pos()), "accessor may accept messages of several reported types: "+strings.Join(l, ","))
			}
		}
		// a view accepts only messages of types that some type-specific accessor describes
		specific := map[int64]bool{}
		for _, g := range getters {
			if !derived[g.Name()] {
				for t := range accTypes[g.Name()] {
					specific[t] = true
				}
			}
		}
		for _, g := range getters {
			if !derived[g.Name()] {
				continue
			}
			for t := range accTypes[g.Name()] {
				if !specific[t] {
					c.Bad("C08.3", tgt.label+"."+g.Name()+" (derived view) accepts an undescribed type", p.Pos(g.Pos()), fmt.Sprintf("the view accepts messages of type %d, which no type-specific accessor accepts", t))
				}
			}
		}
		// distinct accessors (non-derived) must have distinct types unless one wraps the other
		byType := map[int64][]string{}
		for _, g := range getters {
			if derived[g.Name()] {
				continue
			}
			for t := range accTypes[g.Name()] {
				byType[t] = append(byType[t], g.Name())
			}
		}
		for t, as := range byType {
			if len(as) > 1 {
				sort.Strings(as)
				c.Bad("C08.3", fmt.Sprintf("%s type %d accepted by several accessors", tgt.label, t), "-", "more than one non-derived type-specific accessor accepts type "+fmt.Sprint(t)+": "+strings.Join(as, ","))
			}
		}
	}
	c.Extra["cells"] = totalCells
	c.Extra["abstract_runs"] = totalRuns
}

func runC08Cell(p *Program, cell c08cell, byName map[string]*ssa.Function, getters []*ssa.Function, cat map[string]int64) c08result {
	res := c08result{cell: cell, isCat: map[int64]int{}}
	ex := NewExec(p)
	ex.Unroll = 8
	ex.MaxPaths = 200000 // per query; the meta cell with an unbounded length prefix (FF 7F, len >= 9) needs ~12500 on the unchanged tree
	base := ex.NewState()
	msg := mkCellMsg(ex, base, cell)
	run := func(op string, fn *ssa.Function, mk func(st *State) []Val) []Outcome {
		st := base.Clone()
		args := append([]Val{msg}, mk(st)...)
		ex.paths = 0 // the path budget is per query, not per cell
		outs := ex.Call(st, fn, args, nil)
		res.runs++
		if os.Getenv("ABSDEBUG") != "" && ex.paths > 1000 {
			fmt.Fprintf(os.Stderr, "c08 paths %6d %s %s\n", ex.paths, op, cell.String())
		}
		if (ex.Budget || ex.paths > 5000) && os.Getenv("ABSDEBUG") != "" {
			forkProfile = map[string]int{}
			ex.Budget = false
			ex.paths = 0
			ex.Call(base.Clone(), fn, append([]Val{msg}, mk(base.Clone())...), nil)
			for k, v := range forkProfile {
				if v > 20 {
					fmt.Fprintf(os.Stderr, "fork %6d %s\n", v, k)
				}
			}
			forkProfile = nil
		}
		if ex.Budget {
			res.problems = append(res.problems, op+"| abstract interpretation exceeded its budget")
			ex.Budget = false
			ex.paths = 0
		}
		for _, o := range outs {
			if o.Panic {
				res.problems = append(res.problems, op+"| reachable panic: "+o.Msg+" @"+o.Pos+" ["+outcomeWitness(o)+"]")
			} else if pe := problemEvents(o.St.Events); len(pe) > 0 {
				res.problems = append(res.problems, op+"| "+fmtEvents(pe))
			}
		}
		return outs
	}
	none := func(st *State) []Val { return nil }
	// Type
	if fn := byName["Type"]; fn != nil {
		outs := run("Type", fn, none)
		res.typOK = len(outs) > 0
		for i, o := range outs {
			if o.Panic {
				res.typOK = false
				continue
			}
			iv, _ := o.Ret[0].(*IntV)
			if iv == nil {
				res.typOK = false
				continue
			}
			cv, ok := o.St.ConstOf(iv)
			if !ok || (i > 0 && cv != res.typ) {
				res.typOK = false
			}
			res.typ = cv
		}
	}
	if fn := byName["IsPlayable"]; fn != nil {
		run("IsPlayable", fn, none)
	}
	// String chains every accessor: with full unrolling the partitions of a length prefix of unknown size multiply
	// through the chain (12500 paths on the unchanged tree, beyond any budget after a harmless restructuring). Only
	// totality is asked of String, so it is run with one generic iteration per loop (inductive invariants) instead.
	if fn := byName["String"]; fn != nil {
		ex2 := NewExec(p)
		ex2.Unroll = 1
		ex2.WidenAtEntry = true
		ex2.MaxPaths = 200000
		base2 := ex2.NewState()
		msg2 := mkCellMsg(ex2, base2, cell)
		if os.Getenv("ABSDEBUG") != "" && cell.lenClass == 9 && cell.b0 == 0xFF && cell.b1 == 0x7F && fn.Pkg.Pkg.Name() == "smf" {
			callProfile = map[string]int{}
			forkProfile = map[string]int{}
		}
		outs := ex2.Call(base2, fn, []Val{msg2}, nil)
		if callProfile != nil {
			for k, v := range callProfile {
				fmt.Fprintf(os.Stderr, "calls %6d %s\n", v, k)
			}
			tot := 0
			for k, v := range forkProfile {
				tot += v
				if v > 5 {
					fmt.Fprintf(os.Stderr, "fork %6d %s\n", v, k)
				}
			}
			fmt.Fprintf(os.Stderr, "fork-total %d paths %d\n", tot, ex2.paths)
			callProfile, forkProfile = nil, nil
		}
		res.runs++
		if os.Getenv("ABSDEBUG") != "" && ex2.paths > 1000 {
			fmt.Fprintf(os.Stderr, "c08 paths %6d String %s\n", ex2.paths, cell.String())
		}
		if ex2.Budget {
			res.problems = append(res.problems, "String| abstract interpretation exceeded its budget")
		}
		for u := range ex2.Unsupported {
			if !strings.HasPrefix(u, "recursion-or-depth") {
				res.problems = append(res.problems, "String| unmodelled construct: "+u)
			}
		}
		for _, o := range outs {
			if o.Panic {
				res.problems = append(res.problems, "String| reachable panic: "+o.Msg+" @"+o.Pos+" ["+outcomeWitness(o)+"]")
			} else if pe := problemEvents(o.St.Events); len(pe) > 0 {
				res.problems = append(res.problems, "String| "+fmtEvents(pe))
			}
		}
	}
	if fn := byName["Is"]; fn != nil {
		run("Is", fn, func(st *State) []Val { return []Val{mkSym(ex.syms.Get("checker", 8, true))} })
	}
	// Message.Is / IsOneOf for each category constant: must be decided and (checked by the caller) agree with Type().Is
	for _, cv := range cat {
		cv := cv
		verdict := func(outs []Outcome) int {
			r := -2
			for _, o := range outs {
				if o.Panic || len(o.Ret) == 0 {
					continue
				}
				v := -1
				if bv, ok := o.Ret[0].(*BoolV); ok {
					if b, k := o.St.boolOf(bv); k {
						v = 0
						if b {
							v = 1
						}
					}
				}
				if r == -2 {
					r = v
				} else if r != v {
					r = -1
				}
			}
			if r == -2 {
				r = -1
			}
			return r
		}
		if fn := byName["Is"]; fn != nil {
			res.isCat[cv] = verdict(run("Is", fn, func(st *State) []Val { return []Val{mkConst(cv, 8, true)} }))
		}
		if fn := byName["IsOneOf"]; fn != nil {
			one := verdict(run("IsOneOf", fn, func(st *State) []Val {
				es := []Val{mkConst(cv, 8, true)}
				id := ex.newObj(st, &ArrayV{Elem: fn.Params[1].Type().Underlying().(*types.Slice).Elem(), Segs: []Seg{{Elems: es}}}, nil)
				n := mkConst(1, 64, true)
				return []Val{&SliceV{Obj: id, Off: mkConst(0, 64, true), Len: n, Cap: n}}
			}))
			if v, ok := res.isCat[cv]; ok && v != one {
				res.isCat[cv] = -1
			}
		}
	}
	if fn := byName["IsOneOf"]; fn != nil {
		run("IsOneOf", fn, func(st *State) []Val {
			es := []Val{mkSym(ex.syms.Get("checker0", 8, true)), mkSym(ex.syms.Get("checker1", 8, true))}
			id := ex.newObj(st, &ArrayV{Elem: fn.Params[1].Type().Underlying().(*types.Slice).Elem(), Segs: []Seg{{Elems: es}}}, nil)
			n := mkConst(2, 64, true)
			return []Val{&SliceV{Obj: id, Off: mkConst(0, 64, true), Len: n, Cap: n}}
		})
	}
	for _, g := range getters {
		outs := run(g.Name(), g, func(st *State) []Val {
			var a []Val
			for _, prm := range g.Params[1:] {
				if pt, ok := prm.Type().(*types.Pointer); ok {
					a = append(a, ex.allocCell(st, pt.Elem()))
				} else {
					a = append(a, ex.topOf(st, prm.Type(), prm.Name()))
				}
			}
			return a
		})
		acc := false
		for _, o := range outs {
			if o.Panic || len(o.Ret) == 0 {
				continue
			}
			if bv, ok := o.Ret[0].(*BoolV); ok {
				if v, k := o.St.boolOf(bv); !k || v {
					acc = true
				}
			}
		}
		if acc {
			res.accepts = append(res.accepts, g.Name())
		}
	}
	for u := range ex.Unsupported {
		res.problems = append(res.problems, "unsupported| "+u)
	}
	return res
}
