package main

import (
	"fmt"
	"go/token"
	"go/types"
	"math"
	"sort"

	"golang.org/x/tools/go/ssa"
)

func init() { register("C11", checkC11) }

func monoWant(coef float64, pow map[string]int) *Mono { return &Mono{Coef: coef, Pow: pow} }

func checkC11(c *Ctx) {
	p := c.P
	c.Level = "other"
	c.Explain = "C11's core is numerical (piecewise integration in float64 with rounding, monotonicity, a rounding-exact inverse) and is NOT decided: no sound static argument in reach bounds float rounding. Decided are the necessary conditions visible in the code: the conversion formulas as rational-monomial normal forms (tick->duration = round(6e10*ticks/(bpm*resolution)) ns, duration->tick = round(ns*resolution*bpm/6e10), mutually inverse monomials; tempo decode 6e7/us), the 120 BPM default, the segment rule of the cumulative pass and of the time query (time and tempo from the same looked-up record; the tempo in force before the event), per-event times = time query of the running absolute tick, and tempo collection with the running tick of its track."
	c.Trusted = []string{"go/ssa", "E-abs incl. float monomial normal form", "math.Round treated as an opaque wrapper"}
	c.Rule("C11.1", "formulas as normal forms: Duration = Round(6e10 * ticks / (bpm * resolution)) ns; Ticks = Round(ns * resolution * bpm / 6e10); the two monomials are mutual inverses; a zero resolution means 960", 3)
	c.Rule("C11.2", "default tempo: with no tempo event the tempo lookup and the time query use 120 BPM", 2)
	c.Rule("C11.3", "segment rule: cumulative pass: time(k) = time(prev) + D(tempo in force before tick(k), tick(k) - tick(prev)); time query: time(prev) + D(prev.bpm, x - prev.tick), prev = last change before x; repeated ticks", 4)
	c.Rule("C11.4", "per-event times: the iterator hands out TimeAt(absolute tick) with the absolute tick a running sum of deltas, reset per track", 1)
	c.Rule("C11.5", "tempo collection: while reading, each tempo event is recorded with the running absolute tick of its track (reset at end-of-track) and the decoded tempo; the map is finalised (sorted, timed, latched) only after the last event is recorded; the records are written by nobody outside the smf package", 3)

	mtT := p.namedType("smf", "MetricTicks")
	smfT := p.namedType("smf", "SMF")
	tcT := p.namedType("smf", "TempoChange")
	tcsT := p.namedType("smf", "TempoChanges")
	if mtT == nil || smfT == nil || tcT == nil || tcsT == nil {
		c.Unk("C11.1", "smf types", "-", "not found")
		return
	}
	dur := p.MethodOf(mtT, "Duration")
	tks := p.MethodOf(mtT, "Ticks")
	tempoAt := p.MethodOf(tcsT, "TempoAt")
	timeAt := p.MethodOf(types.NewPointer(smfT), "TimeAt")
	if dur == nil || tks == nil || tempoAt == nil || timeAt == nil {
		c.Unk("C11.1", "Duration/Ticks/TempoAt/TimeAt", "-", "not found")
		return
	}
	c.Fn(FuncName(dur))
	c.Fn(FuncName(tks))
	// ---- C11.1
	formula := func(fn *ssa.Function, qv int64, name string, want *Mono, third Val) (*Mono, bool, string) {
		ex := NewExec(p)
		st := ex.NewState()
		var q *IntV
		if qv == 0 {
			q = mkConst(0, 16, false)
		} else {
			q = mkSym(ex.syms.Get("q", 16, false))
			st.refineSym(q.T.Syms[0], 1, 65535)
		}
		bpm := &FloatV{Expr: "bpm", Mono: monoOfAtom("bpm")}
		outs := ex.Call(st, fn, []Val{q, bpm, third}, nil)
		if len(outs) == 0 {
			return nil, false, "not interpretable"
		}
		var got *Mono
		for _, o := range outs {
			if o.Panic {
				return nil, false, o.Msg
			}
			iv, _ := o.Ret[0].(*IntV)
			if iv == nil {
				return nil, false, "no integer result"
			}
			t := o.St.TermOf(iv)
			sy, single := t.SingleSym()
			if !single || ex.MonoOf[sy] == nil {
				return nil, false, "result is not a conversion of a float formula: " + iv.String()
			}
			fv := ex.MonoOf[sy]
			if fv.Rounded != "Round" {
				return nil, false, "result is not rounded to nearest (math.Round) before conversion: " + fv.Rounded
			}
			got = fv.Mono
			if !monoEq(got, want) {
				return got, false, fmt.Sprintf("%s computes %s, the conversion formula is %s", name, got, want)
			}
		}
		return got, true, ""
	}
	{
		ex0 := NewExec(p)
		ticks := mkSym(ex0.syms.Get("deltaTicks", 32, false))
		d := mkSym(ex0.syms.Get("d", 64, true))
		wantD := monoWant(6e10, map[string]int{"deltaTicks": 1, "bpm": -1, "q": -1})
		wantT := monoWant(1/6e10, map[string]int{"d": 1, "bpm": 1, "q": 1})
		gd, ok1, why1 := formula(dur, 1, "Duration", wantD, ticks)
		c.Check(ok1, "C11.1", "tick -> duration formula", p.Pos(dur.Pos()), "Round(6e10 * ticks / (bpm * resolution)) nanoseconds", why1)
		gt, ok2, why2 := formula(tks, 1, "Ticks", wantT, d)
		c.Check(ok2, "C11.1", "duration -> tick formula", p.Pos(tks.Pos()), "Round(ns * resolution * bpm / 6e10)", why2)
		inv := ok1 && ok2 && gd != nil && gt != nil && math.Abs(gd.Coef*gt.Coef-1) < 1e-12 && gd.Pow["bpm"] == -gt.Pow["bpm"] && gd.Pow["q"] == -gt.Pow["q"]
		c.Check(inv, "C11.1", "the two conversions are mutually inverse monomials", p.Pos(dur.Pos()), "coefficients multiply to 1, tempo and resolution exponents are opposite", "the two conversion formulas are not inverse to each other")
		// zero resolution = 960
		wantD0 := monoWant(6e10/960, map[string]int{"deltaTicks": 1, "bpm": -1})
		_, ok3, why3 := formula(dur, 0, "Duration", wantD0, ticks)
		c.Check(ok3, "C11.1", "zero resolution means 960", p.Pos(dur.Pos()), "MetricTicks(0) is treated as 960", why3)
	}
	// ---- C11.2 / C11.3 via E-abs with Duration uninterpreted
	type durCall struct {
		bpm   string
		ticks string
	}
	mkHook := func(ex *Exec, log *[]durCall) {
		ex.CallHook = func(ex *Exec, st *State, fr *Frame, call ssa.CallInstruction, callee *ssa.Function, args []Val) ([]callRes, bool) {
			// the tempo events of the harness are already in tick order: sorting them is the identity (pinned
			// toolchain: pattern-defeating quicksort leaves a sorted input unchanged, DESIGN §7)
			if q := callee.String(); q == "sort.Sort" || q == "sort.Stable" {
				return []callRes{{st: st, ret: nil}}, true
			}
			if callee != dur {
				return nil, false
			}
			b := "?"
			if f, ok := args[1].(*FloatV); ok {
				if f.Known {
					b = fmt.Sprint(f.F)
				} else {
					b = f.Expr
				}
			}
			t := "?"
			if iv, ok := args[2].(*IntV); ok {
				t = st.ident(st.Convert(iv, 64, true))
			}
			*log = append(*log, durCall{b, t})
			s := ex.syms.Get("D("+b+","+t+")", 64, true)
			st.refineSym(s, 0, 1<<50)
			return []callRes{{st: st, ret: mkSym(s)}}, true
		}
	}
	c.Fn(FuncName(tempoAt))
	c.Fn(FuncName(timeAt))
	{
		// TempoAt on an empty map
		ex := NewExec(p)
		st := ex.NewState()
		empty := &SliceV{Nil: true, Obj: -1, Off: mkConst(0, 64, true), Len: mkConst(0, 64, true), Cap: mkConst(0, 64, true)}
		ok := true
		for _, o := range ex.Call(st, tempoAt, []Val{empty, mkSym(ex.syms.Get("x", 64, true))}, nil) {
			f, _ := o.Ret[0].(*FloatV)
			if o.Panic || f == nil || !f.Known || f.F != 120 {
				ok = false
			}
		}
		c.Check(ok, "C11.2", "tempo lookup default", p.Pos(tempoAt.Pos()), "120 BPM when no tempo event precedes the tick", "the default tempo is not 120 BPM")
	}
	// build an SMF with two tempo changes at ticks a and a+cc
	build := func(ex *Exec, st *State, finished bool) (*PtrV, []*PtrV, *IntV, *IntV) {
		sp := ex.newZeroObject(st, smfT)
		q := mkSym(ex.syms.Get("q", 16, false))
		st.refineSym(q.T.Syms[0], 1, 32767)
		ex.setField(st, sp, "TimeFormat", &IfaceV{Dyn: mtT, V: q})
		a := mkSym(ex.syms.Get("a", 64, true))
		st.refineSym(a.T.Syms[0], 1, 1<<30)
		cc := mkSym(ex.syms.Get("c", 64, true))
		st.refineSym(cc.T.Syms[0], 1, 1<<30)
		var ptrs []Val
		var tcs []*PtrV
		for i := 0; i < 2; i++ {
			tp := ex.newZeroObject(st, tcT)
			tick := a
			if i == 1 {
				tick = st.Arith(token.ADD, a, cc, "")
			}
			ex.setField(st, tp, "AbsTicks", tick)
			ex.setField(st, tp, "BPM", &FloatV{Expr: fmt.Sprintf("b%d", i), Mono: monoOfAtom(fmt.Sprintf("b%d", i))})
			ts := ex.syms.Get(fmt.Sprintf("T%d", i), 64, true)
			st.refineSym(ts, 0, 1<<50)
			ex.setField(st, tp, "AbsTimeMicroSec", mkSym(ts))
			ptrs = append(ptrs, tp)
			tcs = append(tcs, tp)
		}
		id := ex.newObj(st, &ArrayV{Elem: types.NewPointer(tcT), Segs: []Seg{{Elems: ptrs}}}, nil)
		two := mkConst(2, 64, true)
		ex.setField(st, sp, "tempoChanges", &SliceV{Obj: id, Off: mkConst(0, 64, true), Len: two, Cap: two})
		ex.setField(st, sp, "tempoChangesFinished", &BoolV{Known: true, Val: finished})
		return sp, tcs, a, cc
	}
	// cumulative pass: find it as the function reachable from TimeAt that stores AbsTimeMicroSec
	var cum *ssa.Function
	for _, f := range p.Reachable(timeAt) {
		for _, b := range f.Blocks {
			for _, in := range b.Instrs {
				if st, ok := in.(*ssa.Store); ok {
					if fv := fieldVar(st.Addr); fv != nil && fv.Name() == "AbsTimeMicroSec" {
						cum = f
					}
				}
			}
		}
	}
	// the harnesses below run the cumulative pass on a file value: if the function that stores the times does not take
	// the file itself (e.g. it became a method of the tempo list with the resolution as argument), they run the
	// finalisation entry that calls it (the function that sets the "finished" latch) — sorting is the identity there
	if cum != nil && !(len(cum.Params) == 1 && types.Identical(cum.Params[0].Type(), types.NewPointer(smfT))) {
		if flag := p.roleField("smf.SMF", "tempoChangesFinished"); flag != nil {
			if sp := p.Pkg("smf"); sp != nil {
				for _, f := range pkgFuncsWithClosures(sp, p) {
					if len(f.Params) != 1 || !types.Identical(f.Params[0].Type(), types.NewPointer(smfT)) {
						continue
					}
					setsLatch, reaches := false, false
					for _, b := range f.Blocks {
						for _, in := range b.Instrs {
							if st, ok := in.(*ssa.Store); ok && fieldVar(st.Addr) == flag {
								setsLatch = true
							}
						}
					}
					for _, g := range p.Reachable(f) {
						if g == cum {
							reaches = true
						}
					}
					if setsLatch && reaches {
						cum = f
					}
				}
			}
		}
	}
	if cum == nil {
		c.Unk("C11.3", "cumulative pass (stores AbsTimeMicroSec)", "-", "not found")
	} else {
		c.Fn(FuncName(cum))
		ex := NewExec(p)
		var log []durCall
		mkHook(ex, &log)
		st := ex.NewState()
		sp, tcs, _, _ := build(ex, st, false)
		ok := true
		why := ""
		n := 0
		for _, o := range ex.Call(st, cum, []Val{sp}, nil) {
			n++
			if o.Panic || len(problemEvents(o.St.Events)) > 0 {
				ok = false
				why = o.Msg + fmtEvents(problemEvents(o.St.Events))
				continue
			}
			t0, _ := ex.getField(o.St, tcs[0], "AbsTimeMicroSec")
			t1, _ := ex.getField(o.St, tcs[1], "AbsTimeMicroSec")
			w0 := o.St.Arith(token.QUO, mkSym(ex.syms.Get("D(120,a)", 64, true)), mkConst(1000, 64, true), "")
			w1 := o.St.Arith(token.ADD, w0, o.St.Arith(token.QUO, mkSym(ex.syms.Get("D(b0,c)", 64, true)), mkConst(1000, 64, true), ""), "")
			if i0, _ := t0.(*IntV); i0 == nil || !o.St.sameInt(i0, w0) {
				ok = false
				why = fmt.Sprintf("first tempo change at tick a: time %s, expected us(D(120 BPM, a)) — the default tempo up to the first event [calls %v]", valString(t0), log)
			}
			if i1, _ := t1.(*IntV); i1 == nil || !o.St.sameInt(i1, w1) {
				ok = false
				why = fmt.Sprintf("second tempo change at tick a+c: time %s, expected time(first) + us(D(first tempo, c)) [calls %v]", valString(t1), log)
			}
		}
		c.Check(ok && n > 0, "C11.3", "cumulative pass over tempo events", p.Pos(cum.Pos()), "two symbolic tempo changes: each segment is integrated with the tempo in force before the event, from the previous event's time", why)
	}
	// finalisation keeps every tempo record: whatever the read path runs to finish the tempo map (the functions that set
	// the "finished" latch) must leave the list holding exactly the records collected, in tick order — a tempo event that
	// is dropped (de-duplication, tolerance-based compaction) changes the integral from that tick on
	{
		flag := p.roleField("smf.SMF", "tempoChangesFinished")
		var fins []*ssa.Function
		if flag != nil {
			if sp := p.Pkg("smf"); sp != nil {
				for _, f := range pkgFuncsWithClosures(sp, p) {
					for _, b := range f.Blocks {
						for _, in := range b.Instrs {
							if st, ok := in.(*ssa.Store); ok && fieldVar(st.Addr) == flag {
								if k, ok := st.Val.(*ssa.Const); ok && k.Value != nil && k.Value.String() == "true" {
									fins = append(fins, f)
								}
							}
						}
					}
				}
			}
		}
		if len(fins) == 0 {
			c.Unk("C11.3", "tempo map finalisation (sets the finished latch)", "-", "not found")
		}
		done := map[*ssa.Function]bool{}
		for _, fin := range fins {
			if done[fin] || len(fin.Params) != 1 {
				continue
			}
			done[fin] = true
			c.Fn(FuncName(fin))
			ex := NewExec(p)
			var log []durCall
			mkHook(ex, &log)
			st := ex.NewState()
			sp, tcs, _, _ := build(ex, st, false)
			// two tempi that differ by one unit in the last place: dropping an event whose tempo EQUALS the one in force
			// would not change any time and is left alone; anything coarser (a tolerance) is reported
			bpms := []float64{100, math.Nextafter(100, 101)}
			for i, tp := range tcs {
				ex.setField(st, tp, "BPM", &FloatV{Known: true, F: bpms[i]})
			}
			ok, why, n := true, "", 0
			for _, o := range ex.Call(st, fin, []Val{sp}, nil) {
				n++
				if o.Panic || len(problemEvents(o.St.Events)) > 0 {
					ok, why = false, o.Msg+fmtEvents(problemEvents(o.St.Events))
					continue
				}
				lv, okL := ex.getField(o.St, sp, "tempoChanges")
				lst, _ := lv.(*SliceV)
				recs, okE := ex.sliceElems(o.St, lst)
				if !okL || !okE || lst == nil {
					ok, why = false, "tempo list not tracked after finalisation"
					continue
				}
				if len(recs) != len(tcs) {
					ok, why = false, fmt.Sprintf("after finalisation the tempo map holds %d of the %d tempo events collected (two events with distinct ticks whose tempi differ in the last place): a dropped tempo event changes every later time [%s]", len(recs), len(tcs), outcomeWitness(o))
					continue
				}
				for i, r := range recs {
					rp, _ := r.(*PtrV)
					if rp == nil || rp.Obj != tcs[i].Obj {
						ok, why = false, fmt.Sprintf("record %d of the finished tempo map is not the %d. collected event", i, i)
						break
					}
					bv, _ := ex.getField(o.St, rp, "BPM")
					if f, _ := bv.(*FloatV); f == nil || !f.Known || f.F != bpms[i] {
						ok, why = false, fmt.Sprintf("the tempo of record %d is altered by finalisation (%s)", i, valString(bv))
						break
					}
				}
			}
			c.Check(ok && n > 0, "C11.3", "finalisation keeps every tempo record ("+FuncName(fin)+")", p.Pos(fin.Pos()), "two collected events with symbolic ticks a < a+c and tempi 100 and nextafter(100): both still in the map, in order, tempi unchanged", why)
		}
	}
	// repeated ticks: two tempo events at the same tick, then a later one — the segment after the shared tick runs
	// with the LAST tempo set at that tick
	if cum != nil {
		ex := NewExec(p)
		var log []durCall
		mkHook(ex, &log)
		st := ex.NewState()
		sp := ex.newZeroObject(st, smfT)
		q := mkSym(ex.syms.Get("q", 16, false))
		st.refineSym(q.T.Syms[0], 1, 32767)
		ex.setField(st, sp, "TimeFormat", &IfaceV{Dyn: mtT, V: q})
		a := mkSym(ex.syms.Get("a", 64, true))
		st.refineSym(a.T.Syms[0], 1, 1<<30)
		cc := mkSym(ex.syms.Get("c", 64, true))
		st.refineSym(cc.T.Syms[0], 1, 1<<30)
		var ptrs []Val
		var tcs []*PtrV
		for i := 0; i < 3; i++ {
			tp := ex.newZeroObject(st, tcT)
			tick := a
			if i == 2 {
				tick = st.Arith(token.ADD, a, cc, "")
			}
			ex.setField(st, tp, "AbsTicks", tick)
			ex.setField(st, tp, "BPM", &FloatV{Expr: fmt.Sprintf("b%d", i), Mono: monoOfAtom(fmt.Sprintf("b%d", i))})
			ptrs = append(ptrs, tp)
			tcs = append(tcs, tp)
		}
		id := ex.newObj(st, &ArrayV{Elem: types.NewPointer(tcT), Segs: []Seg{{Elems: ptrs}}}, nil)
		three := mkConst(3, 64, true)
		ex.setField(st, sp, "tempoChanges", &SliceV{Obj: id, Off: mkConst(0, 64, true), Len: three, Cap: three})
		ok := true
		why := ""
		n := 0
		for _, o := range ex.Call(st, cum, []Val{sp}, nil) {
			n++
			if o.Panic || len(problemEvents(o.St.Events)) > 0 {
				ok = false
				why = o.Msg + fmtEvents(problemEvents(o.St.Events))
				continue
			}
			w0 := o.St.Arith(token.QUO, mkSym(ex.syms.Get("D(120,a)", 64, true)), mkConst(1000, 64, true), "")
			w2 := o.St.Arith(token.ADD, w0, o.St.Arith(token.QUO, mkSym(ex.syms.Get("D(b1,c)", 64, true)), mkConst(1000, 64, true), ""), "")
			for i, w := range []*IntV{w0, w0, w2} {
				t, _ := ex.getField(o.St, tcs[i], "AbsTimeMicroSec")
				if ti, _ := t.(*IntV); ti == nil || !o.St.sameInt(ti, w) {
					ok = false
					why = fmt.Sprintf("tempo events at ticks (a, a, a+c): event %d gets time %s, expected %s — after two tempo events on one tick the following segment runs with the last of them [Duration calls %v]", i, valString(t), w, log)
				}
			}
		}
		c.Check(ok && n > 0, "C11.3", "cumulative pass with repeated ticks", p.Pos(cum.Pos()), "events (a,b0) (a,b1) (a+c,b2): both events at a get the same time; the third is integrated with b1", why)
	}
	{
		ex := NewExec(p)
		var log []durCall
		mkHook(ex, &log)
		st := ex.NewState()
		sp, _, a, cc := build(ex, st, true)
		// query strictly after the second change
		x := mkSym(ex.syms.Get("x", 64, true))
		end := st.Arith(token.ADD, a, cc, "")
		st.Assume(">", x, end)
		st.refineSym(x.T.Syms[0], 3, 1<<31)
		ok := true
		why := ""
		n := 0
		for _, o := range ex.Call(st, timeAt, []Val{sp, x}, nil) {
			n++
			if o.Panic || len(problemEvents(o.St.Events)) > 0 {
				ok = false
				why = o.Msg + fmtEvents(problemEvents(o.St.Events))
				continue
			}
			got, _ := o.Ret[0].(*IntV)
			// expected: T1 + us(D(b1, x - (a+c)))
			dd := ex.syms.byName["D(b1,x+-1*a+-1*c)"]
			var want *IntV
			for name, s := range ex.syms.byName {
				if len(name) > 5 && name[:5] == "D(b1," {
					dd = s
				}
			}
			if dd != nil {
				want = o.St.Arith(token.ADD, mkSym(ex.syms.Get("T1", 64, true)), o.St.Arith(token.QUO, mkSym(dd), mkConst(1000, 64, true), ""), "")
			}
			if got == nil || want == nil || !o.St.sameInt(got, want) {
				ok = false
				why = fmt.Sprintf("time query after the second change returns %s; expected time(second) + us(D(second tempo, x - tick(second))) [Duration calls: %v]", valString(o.Ret[0]), log)
			}
			// ticks argument must be x - (a+c)
			okArg := false
			for _, dc := range log {
				if dc.bpm == "b1" {
					okArg = true
				}
			}
			if !okArg {
				ok = false
				why = fmt.Sprintf("the time query does not integrate with the tempo of the last change before the tick [calls %v]", log)
			}
		}
		c.Check(ok && n > 0, "C11.3", "time query segment rule", p.Pos(timeAt.Pos()), "time and tempo come from the same looked-up record (last change before the tick)", why)
		// query exactly at the tick of the second change: the segment before it still runs with the first tempo
		{
			ex3 := NewExec(p)
			var log3 []durCall
			mkHook(ex3, &log3)
			st3 := ex3.NewState()
			sp3, _, a3, c3 := build(ex3, st3, true)
			x3 := st3.Arith(token.ADD, a3, c3, "")
			ok3 := true
			why3 := ""
			n3 := 0
			for _, o := range ex3.Call(st3, timeAt, []Val{sp3, x3}, nil) {
				n3++
				if o.Panic {
					ok3 = false
					why3 = o.Msg
					continue
				}
				got, _ := o.Ret[0].(*IntV)
				want := o.St.Arith(token.ADD, mkSym(ex3.syms.Get("T0", 64, true)), o.St.Arith(token.QUO, mkSym(ex3.syms.Get("D(b0,c)", 64, true)), mkConst(1000, 64, true), ""), "")
				if got == nil || !o.St.sameInt(got, want) {
					ok3 = false
					why3 = fmt.Sprintf("time query at the tick of the second change returns %s; the segment before it runs with the first tempo: expected time(first) + us(D(first tempo, c)) [calls %v]", valString(o.Ret[0]), log3)
				}
			}
			c.Check(ok3 && n3 > 0, "C11.3", "time query at a tempo-change tick", p.Pos(timeAt.Pos()), "a tempo is valid from its tick on: the time of that tick is integrated with the previous tempo", why3)
		}
		// default for queries before the first change
		ex2 := NewExec(p)
		var log2 []durCall
		mkHook(ex2, &log2)
		st2 := ex2.NewState()
		sp2, _, a2, _ := build(ex2, st2, true)
		x2 := mkSym(ex2.syms.Get("x", 64, true))
		st2.refineSym(x2.T.Syms[0], 0, 1<<31)
		st2.Assume("<=", x2, a2)
		ok2 := true
		for _, o := range ex2.Call(st2, timeAt, []Val{sp2, x2}, nil) {
			if o.Panic {
				ok2 = false
			}
		}
		for _, dc := range log2 {
			if dc.bpm != "120" {
				ok2 = false
			}
		}
		c.Check(ok2 && len(log2) > 0, "C11.2", "time query default tempo", p.Pos(timeAt.Pos()), "queries up to the first tempo event integrate with 120 BPM", fmt.Sprintf("queries before the first tempo event do not use 120 BPM: %v", log2))
	}
	// ---- C11.4 iterator
	trT := p.namedType("smf", "TracksReader")
	if do := p.MethodOf(types.NewPointer(trT), "Do"); do == nil {
		c.Unk("C11.4", "TracksReader.Do", "-", "not found")
	} else {
		c.Fn(FuncName(do))
		iteratorSimulation(c, "C11.4", do, timeAt)
	}
	// ---- C11.5 collection while reading
	if rf := p.Func("smf", "ReadFrom"); rf != nil {
		tempoCollectionSim(c, "C11.5", rf)
		tempoFinalisedAfterCollection(c, "C11.5", rf)
	}
	// the tempo map handed out by SMF.TempoChanges() shares its records with the file value: nobody outside the smf
	// package may write them (a moved tick with a stale cached time makes TimeAt wrong and non-monotonic)
	{
		tcT := p.namedType("smf", "TempoChange")
		n, bad, badPos := 0, "", token.NoPos
		for _, fn := range p.ModuleFuncs() {
			inSmf := fn.Pkg != nil && fn.Pkg.Pkg.Path() == modPath+"/smf"
			if fn.Pkg == nil && fn.Parent() != nil && fn.Parent().Pkg != nil {
				inSmf = fn.Parent().Pkg.Pkg.Path() == modPath+"/smf"
			}
			for _, b := range fn.Blocks {
				for _, in := range b.Instrs {
					st, ok := in.(*ssa.Store)
					if !ok {
						continue
					}
					fa, ok := st.Addr.(*ssa.FieldAddr)
					if !ok || tcT == nil {
						continue
					}
					pt, ok := fa.X.Type().Underlying().(*types.Pointer)
					if !ok || !types.Identical(pt.Elem(), tcT) {
						continue
					}
					n++
					if _, fresh := fa.X.(*ssa.Alloc); !inSmf && !fresh {
						bad = fmt.Sprintf("%s writes field %s of a tempo-change record it did not create: records obtained from SMF.TempoChanges() are the file's own", FuncName(fn), fieldVar(fa).Name())
						badPos = st.Pos()
					}
				}
			}
		}
		c.Check(bad == "" && n > 0, "C11.5", "tempo-change records are written only by the smf package", p.Pos(badPos), fmt.Sprintf("%d stores to tempo-change records in the module, all inside package smf (or into a record the function allocated itself)", n), bad)
	}
}

// tempoFinalisedAfterCollection: the tempo map is sorted/timed once (a latch marks it finished); tempo events recorded
// after that point would never be timed. So on the read path no finalisation may be followed by a further recording:
// in every function, no path leads from an instruction that may set the finished latch to one that may append a record.
func tempoFinalisedAfterCollection(c *Ctx, rule string, rf *ssa.Function) {
	p := c.P
	flag := p.roleField("smf.SMF", "tempoChangesFinished")
	list := p.roleField("smf.SMF", "tempoChanges")
	if flag == nil || list == nil {
		c.Unk(rule, "tempo map latch / list (roles)", "-", "not resolved")
		return
	}
	scope := p.Reachable(rf)
	direct := func(f *ssa.Function, in ssa.Instruction) (fin, coll bool) {
		if st, ok := in.(*ssa.Store); ok {
			fv := fieldVar(st.Addr)
			if fv == flag {
				if k, ok := st.Val.(*ssa.Const); ok && k.Value != nil && k.Value.String() == "true" {
					fin = true
				}
			}
			if fv == list {
				if call, ok := st.Val.(*ssa.Call); ok {
					if b, ok := call.Call.Value.(*ssa.Builtin); ok && b.Name() == "append" {
						coll = true
					}
				}
			}
		}
		return
	}
	mayFin, mayColl := map[*ssa.Function]bool{}, map[*ssa.Function]bool{}
	for changed := true; changed; {
		changed = false
		for _, f := range scope {
			for _, b := range f.Blocks {
				for _, in := range b.Instrs {
					fin, coll := direct(f, in)
					if call, ok := in.(ssa.CallInstruction); ok {
						for _, cal := range p.Callees(call) {
							fin = fin || mayFin[cal]
							coll = coll || mayColl[cal]
						}
					}
					if fin && !mayFin[f] {
						mayFin[f] = true
						changed = true
					}
					if coll && !mayColl[f] {
						mayColl[f] = true
						changed = true
					}
				}
			}
		}
	}
	nColl := 0
	bad := ""
	var badPos token.Pos
	for _, f := range scope {
		var fins, colls []ssa.Instruction
		for _, b := range f.Blocks {
			for _, in := range b.Instrs {
				fin, coll := direct(f, in)
				if call, ok := in.(ssa.CallInstruction); ok {
					for _, cal := range p.Callees(call) {
						fin = fin || mayFin[cal]
						coll = coll || mayColl[cal]
					}
				}
				if fin {
					fins = append(fins, in)
				}
				if coll {
					colls = append(colls, in)
					nColl++
				}
			}
		}
		for _, x := range fins {
			for _, y := range colls {
				if x != y && canReachAvoiding(x, y, nil) {
					bad = fmt.Sprintf("in %s the tempo map can be finalised (%s) and a tempo event recorded afterwards (%s): that event is never sorted in or timed", FuncName(f), p.Pos(x.Pos()), p.Pos(y.Pos()))
					badPos = x.Pos()
				}
				if x == y {
					// one call that does both: the callee is checked on its own
				}
			}
		}
	}
	if nColl == 0 {
		c.Unk(rule, "tempo collection sites", "-", "no append to the tempo list on the read path")
		return
	}
	c.Check(bad == "", rule, "tempo map finalised only after the last tempo event is recorded", p.Pos(badPos), "on the read path no finalisation (sort + cumulative times, latched) can be followed by the recording of a further tempo event", bad)
}

// ticksFormulaRule: duration -> tick conversion equals Round(ns * resolution * bpm / 6e10) and raises no integer wrap.
func ticksFormulaRule(c *Ctx, rule string) {
	p := c.P
	mtT := p.namedType("smf", "MetricTicks")
	if mtT == nil {
		c.Unk(rule, "smf.MetricTicks", "-", "not found")
		return
	}
	tks := p.MethodOf(mtT, "Ticks")
	if tks == nil {
		c.Unk(rule, "MetricTicks.Ticks", "-", "not found")
		return
	}
	c.Fn(FuncName(tks))
	ex := NewExec(p)
	st := ex.NewState()
	q := mkSym(ex.syms.Get("q", 16, false))
	st.refineSym(q.T.Syms[0], 1, 65535)
	d := mkSym(ex.syms.Get("d", 64, true))
	st.refineSym(d.T.Syms[0], 0, 1<<50)
	want := monoWant(1/6e10, map[string]int{"d": 1, "bpm": 1, "q": 1})
	ok := true
	why := ""
	n := 0
	for _, o := range ex.Call(st, tks, []Val{q, &FloatV{Expr: "bpm", Mono: monoOfAtom("bpm")}, d}, nil) {
		n++
		if o.Panic {
			ok = false
			why = o.Msg
			continue
		}
		for _, e := range o.St.Events {
			if e.Kind == "wrap" {
				ok = false
				why = "integer wrap-around inside the conversion: " + e.Msg + " (a long pause between two messages yields a far too small delta)"
			}
		}
		iv, _ := o.Ret[0].(*IntV)
		var fv *FloatV
		if iv != nil {
			if sy, single := o.St.TermOf(iv).SingleSym(); single {
				fv = ex.MonoOf[sy]
			}
		}
		if fv == nil || fv.Rounded != "Round" || !monoEq(fv.Mono, want) {
			ok = false
			got := "?"
			if fv != nil {
				got = fv.Rounded + "(" + fv.Mono.String() + ")"
			}
			if why == "" {
				why = "Ticks computes " + got + ", the conversion is Round(" + want.String() + ") — a narrowed or truncated duration (e.g. whole micro/milliseconds, 32-bit product) changes the normal form"
			}
		}
	}
	if ex.noteWrapConv > 0 && ok {
		ok = false
		why = "the duration or an intermediate product is narrowed to a smaller integer type before the floating point conversion"
	}
	c.Check(ok && n > 0, rule, "duration -> tick conversion formula", p.Pos(tks.Pos()), "Round(ns * resolution * bpm / 6e10), no integer narrowing or wrap", why)
}

// iteratorSimulation (C11.4): TracksReader.Do is interpreted on a file of two tracks with two events each (symbolic
// deltas), no track selection and no filter; the time query is an uninterpreted function T. The callback must be
// invoked once per event, in file order, with AbsTicks = running sum of the deltas of that track (restarting at 0 for
// the second track) and AbsMicroSeconds = T(AbsTicks).
func iteratorSimulation(c *Ctx, rule string, do, timeAt *ssa.Function) {
	iteratorSimulationSel(c, rule, do, timeAt, nil)
}

// iteratorSimulationSel: sel == nil: no track selection; otherwise the set of selected track numbers (the reader's
// map[int]bool holds exactly these keys with value true).
func iteratorSimulationSel(c *Ctx, rule string, do, timeAt *ssa.Function, sel []int64) {
	p := c.P
	smfT := p.namedType("smf", "SMF")
	evT := p.namedType("smf", "Event")
	trackT := p.namedType("smf", "Track")
	_ = p.namedType("smf", "TracksReader")
	ex := NewExec(p)
	ex.Unroll = 6
	ex.MapModel = true // the selection set is a map the constructor fills
	ex.CallHook = func(ex *Exec, st *State, fr *Frame, call ssa.CallInstruction, callee *ssa.Function, args []Val) ([]callRes, bool) {
		if callee != timeAt || len(args) < 2 {
			return nil, false
		}
		a, _ := args[1].(*IntV)
		if a == nil {
			return nil, false
		}
		s := ex.syms.Get("T("+st.TermOf(a).String()+")", 64, true)
		return []callRes{{st: st, ret: mkSym(s)}}, true
	}
	st := ex.NewState()
	k8 := func(v int64) Val { return mkConst(v, 8, false) }
	var ds []*IntV
	var tvals []Val
	for ti := 0; ti < 2; ti++ {
		var evVals []Val
		for ei := 0; ei < 2; ei++ {
			s := ex.syms.Get(fmt.Sprintf("d%d", ti*2+ei), 32, false)
			d := mkSym(s)
			ds = append(ds, d)
			ev := ex.zeroOf(evT).(*StructV)
			ev.Fields[fieldIndex(ev.T, "Delta")] = d
			ev.Fields[fieldIndex(ev.T, "Message")] = ex.mkBytes(st, "m", []Val{k8(0x90 + int64(ti)), k8(int64(60 + ei)), k8(100)}, false, 0)
			evVals = append(evVals, ev)
		}
		tid := ex.newObj(st, &ArrayV{Elem: evT, Segs: []Seg{{Elems: evVals}}}, nil)
		two := mkConst(2, 64, true)
		tvals = append(tvals, &SliceV{Obj: tid, Off: mkConst(0, 64, true), Len: two, Cap: two})
	}
	tsid := ex.newObj(st, &ArrayV{Elem: trackT, Segs: []Seg{{Elems: tvals}}}, nil)
	two := mkConst(2, 64, true)
	sp := ex.newZeroObject(st, smfT)
	ex.setField(st, sp, "Tracks", &SliceV{Obj: tsid, Off: mkConst(0, 64, true), Len: two, Cap: two})
	selected := map[int]bool{0: true, 1: true}
	label := "per-event time = TimeAt(running absolute tick)"
	if rule != "C11.4" {
		label = "no selection: every event of every track once, tracks then events in file order"
	}
	if sel != nil {
		selected = map[int]bool{}
		for _, k := range sel {
			selected[int(k)] = true
		}
		label = fmt.Sprintf("track selection %v: exactly the events of the selected tracks, once each, in file order", sel)
	}
	// The reader is made by the package's own constructor ReadTracksFrom(source, selection...), with the file parser
	// (ReadFrom) replaced by "returns the prepared two-track file": whatever the constructor does with the selection
	// (copy, normalise, validate against the file) is part of what is judged.
	var rp *PtrV
	ctor, rf := p.Func("smf", "ReadTracksFrom"), p.Func("smf", "ReadFrom")
	if ctor == nil || rf == nil || len(ctor.Params) != 2 {
		c.Unk(rule, "iterator simulation: constructor ReadTracksFrom / ReadFrom", "-", "not found")
		return
	}
	ex.setField(st, sp, "TimeFormat", &IfaceV{Dyn: p.namedType("smf", "MetricTicks"), V: mkConst(960, 16, false)})
	prevHook := ex.CallHook
	parsed := 0
	ex.CallHook = func(ex *Exec, st *State, fr *Frame, call ssa.CallInstruction, callee *ssa.Function, args []Val) ([]callRes, bool) {
		if callee == rf {
			parsed++
			return []callRes{{st: st, ret: &TupleV{Vs: []Val{sp, nilErr()}}}}, true
		}
		return prevHook(ex, st, fr, call, callee, args)
	}
	var selArg Val = &SliceV{Nil: true, Off: mkConst(0, 64, true), Len: mkConst(0, 64, true), Cap: mkConst(0, 64, true)}
	if len(sel) > 0 {
		var els []Val
		for _, k := range sel {
			els = append(els, mkConst(k, 64, true))
		}
		aid := ex.newObj(st, &ArrayV{Elem: types.Typ[types.Int], Segs: []Seg{{Elems: els}}}, nil)
		n := mkConst(int64(len(sel)), 64, true)
		selArg = &SliceV{Obj: aid, Off: mkConst(0, 64, true), Len: n, Cap: n}
	}
	co := ex.Call(st, ctor, []Val{&IfaceV{Unk: true, NonNil: true}, selArg}, nil)
	if len(co) != 1 || co[0].Panic || parsed == 0 {
		c.Unk(rule, "iterator simulation: "+label, p.Pos(ctor.Pos()), fmt.Sprintf("the constructor ReadTracksFrom did not yield one reader on the prepared file (outcomes=%d, file parser reached %d times)", len(co), parsed))
		return
	}
	rp, _ = co[0].Ret[0].(*PtrV)
	if rp == nil || rp.Nil || rp.Unk {
		c.Unk(rule, "iterator simulation: "+label, p.Pos(ctor.Pos()), "the constructor does not return a tracked reader")
		return
	}
	st = co[0].St
	st.Events = nil
	outs := ex.Call(st, do, []Val{rp, &FuncV{Ext: "cb"}}, nil)
	if ex.Budget || len(outs) == 0 {
		c.Unk(rule, "iterator simulation", p.Pos(do.Pos()), "abstract interpretation did not complete")
		return
	}
	for u := range ex.Unsupported {
		c.Unk(rule, "iterator simulation: "+u, p.Pos(do.Pos()), "unmodelled construct")
		return
	}
	ok, why := true, ""
	for _, o := range outs {
		if o.Panic || len(problemEvents(o.St.Events)) > 0 {
			ok, why = false, "Do may panic: "+o.Msg+fmtEvents(problemEvents(o.St.Events))
			continue
		}
		var got []*StructV
		for _, e := range o.St.Events {
			if e.Kind == "call:cb" && len(e.Args) == 1 {
				sv, _ := e.Args[0].(*StructV)
				got = append(got, sv)
			}
		}
		var wantIdx []int
		for i := 0; i < 4; i++ {
			if selected[i/2] {
				wantIdx = append(wantIdx, i)
			}
		}
		if len(got) != len(wantIdx) {
			ok, why = false, fmt.Sprintf("the callback is invoked %d times, the selected tracks hold %d events", len(got), len(wantIdx))
			continue
		}
		if rule == "C11.4" {
			// the time rule does not care in which order the tracks are visited: group by reported track number
			sort.SliceStable(got, func(a, b int) bool {
				ta, tb := int64(-1), int64(-1)
				if got[a] != nil {
					if v, _ := got[a].Fields[fieldIndex(got[a].T, "TrackNo")].(*IntV); v != nil {
						if k, isK := o.St.ConstOf(v); isK {
							ta = k
						}
					}
				}
				if got[b] != nil {
					if v, _ := got[b].Fields[fieldIndex(got[b].T, "TrackNo")].(*IntV); v != nil {
						if k, isK := o.St.ConstOf(v); isK {
							tb = k
						}
					}
				}
				return ta < tb
			})
		}
		for gi, sv := range got {
			i := wantIdx[gi]
			if sv == nil {
				ok, why = false, "callback argument not tracked"
				break
			}
			want := ds[i]
			var wantAbs *IntV = o.St.Convert(want, 64, true)
			if i%2 == 1 {
				wantAbs = o.St.Arith(token.ADD, o.St.Convert(ds[i-1], 64, true), o.St.Convert(want, 64, true), "")
			}
			abs, _ := sv.Fields[fieldIndex(sv.T, "AbsTicks")].(*IntV)
			us, _ := sv.Fields[fieldIndex(sv.T, "AbsMicroSeconds")].(*IntV)
			tn, _ := sv.Fields[fieldIndex(sv.T, "TrackNo")].(*IntV)
			if tn == nil || !o.St.sameInt(tn, mkConst(int64(i/2), 64, true)) {
				ok, why = false, fmt.Sprintf("callback no. %d (expected: event %d of track %d) reports track %s", gi, i%2, i/2, valString(sv.Fields[fieldIndex(sv.T, "TrackNo")]))
				break
			}
			if abs == nil || !o.St.sameInt(abs, wantAbs) {
				ok, why = false, fmt.Sprintf("event %d of track %d gets absolute tick %s, expected the running sum of that track's deltas %s (restarting at 0 per track)", i%2, i/2, valString(sv.Fields[fieldIndex(sv.T, "AbsTicks")]), wantAbs)
				break
			}
			wantT := mkSym(ex.syms.Get("T("+o.St.TermOf(wantAbs).String()+")", 64, true))
			if us == nil || !o.St.sameInt(us, wantT) {
				ok, why = false, fmt.Sprintf("event %d of track %d gets time %s, expected TimeAt(its absolute tick) = %s", i%2, i/2, valString(sv.Fields[fieldIndex(sv.T, "AbsMicroSeconds")]), wantT)
				break
			}
			evs, _ := sv.Fields[fieldIndex(sv.T, "Event")].(*StructV)
			if evs == nil {
				ok, why = false, "event record not tracked"
				break
			}
			if dv, _ := evs.Fields[fieldIndex(evs.T, "Delta")].(*IntV); dv == nil || !o.St.sameInt(dv, want) {
				ok, why = false, "the event's delta is altered"
				break
			}
		}
	}
	c.Check(ok, rule, label, p.Pos(do.Pos()), "2 tracks x 2 events, symbolic deltas: callback once per event in file order, AbsTicks = running sum per track, AbsMicroSeconds = TimeAt(AbsTicks)", why)
}

// tempoCollectionSim (C11.5): ReadFrom is interpreted on a two-track file whose tracks hold tempo events — track 0: tempo
// 120 BPM after 16 ticks, tempo 60 BPM 32 ticks later; track 1: tempo 240 BPM after 5 ticks, and 30 BPM after two
// five-byte deltas that carry the running tick beyond 32 bits — and the tempo map the file hands out afterwards
// (TempoChanges()) must be, in tick order, (5, 240), (16, 120), (48, 60), (4563402757, 30): every tempo event is
// recorded with the running tick of ITS track (restarting at 0 in the next track) and the tempo decoded from its three
// bytes. Replaces a rule that looked for "store of phi + delta into AbsTicks" and "GetMetaTempo writes the BPM field"
// in the collecting function.
func tempoCollectionSim(c *Ctx, rule string, rf *ssa.Function) {
	p := c.P
	smfT := p.namedType("smf", "SMF")
	if smfT == nil {
		c.Unk(rule, "tempo collection simulation", "-", "smf.SMF not found")
		return
	}
	tcM := p.MethodOf(types.NewPointer(smfT), "TempoChanges")
	if tcM == nil {
		tcM = p.MethodOf(smfT, "TempoChanges")
	}
	if tcM == nil {
		c.Unk(rule, "tempo collection simulation", "-", "SMF.TempoChanges not found")
		return
	}
	key := "tempo events are recorded with the running tick of their track and their decoded tempo (whole-file read simulation)"
	ex := NewExec(p)
	ex.Unroll = 16
	ex.SortModel = true
	st := ex.NewState()
	k8 := func(v int64) Val { return mkConst(v, 8, false) }
	var file []Val
	add := func(bs ...int64) {
		for _, b := range bs {
			file = append(file, k8(b))
		}
	}
	str := func(s string) {
		for _, ch := range []byte(s) {
			file = append(file, k8(int64(ch)))
		}
	}
	str("MThd")
	add(0, 0, 0, 6, 0, 1, 0, 2, 0x01, 0xE0)
	str("MTrk")
	add(0, 0, 0, 18)
	add(0x10, 0xFF, 0x51, 0x03, 0x07, 0xA1, 0x20) // 500000 us per quarter = 120 BPM at tick 16
	add(0x20, 0xFF, 0x51, 0x03, 0x0F, 0x42, 0x40) // 1000000 us = 60 BPM at tick 48
	add(0x00, 0xFF, 0x2F, 0x00)
	str("MTrk")
	add(0, 0, 0, 30)
	add(0x05, 0xFF, 0x51, 0x03, 0x03, 0xD0, 0x90)                         // 250000 us = 240 BPM at tick 5 of the second track
	add(0x8F, 0x80, 0x80, 0x80, 0x00, 0x90, 0x3C, 0x40)                   // a note 0xF0000000 ticks later (five-byte delta)
	add(0x82, 0x80, 0x80, 0x80, 0x00, 0xFF, 0x51, 0x03, 0x1E, 0x84, 0x80) // 2000000 us = 30 BPM another 0x20000000 ticks later: tick 4563402757, beyond 32 bits
	add(0x00, 0xFF, 0x2F, 0x00)
	src := ex.mkBytes(st, "file", file, false, 0)
	rd := ex.readerOver(st, src)
	outs := ex.Call(st, rf, []Val{rd, &SliceV{Nil: true, Off: mkConst(0, 64, true), Len: mkConst(0, 64, true), Cap: mkConst(0, 64, true)}}, nil)
	if ex.Budget || len(outs) == 0 {
		c.Unk(rule, key, p.Pos(rf.Pos()), fmt.Sprintf("abstract interpretation did not complete (budget=%v)", ex.Budget))
		return
	}
	for u := range ex.Unsupported {
		c.Unk(rule, key, p.Pos(rf.Pos()), "unmodelled construct: "+u)
		return
	}
	type rec struct {
		tick int64
		bpm  float64
	}
	want := []rec{{5, 240}, {16, 120}, {48, 60}, {4563402757, 30}}
	ok, why, n := true, "", 0
	for _, o := range outs {
		if o.Panic {
			ok, why = false, "ReadFrom may panic on the representative file: "+o.Msg
			continue
		}
		if ev, _ := o.Ret[len(o.Ret)-1].(*IfaceV); ev == nil || !ev.Nil {
			ok, why = false, "ReadFrom may fail on the representative file ["+outcomeWitness(o)+"]"
			continue
		}
		sp, _ := o.Ret[0].(*PtrV)
		if sp == nil || sp.Nil || sp.Unk {
			ok, why = false, "no file value returned"
			continue
		}
		var recv Val = sp
		if _, isPtr := tcM.Params[0].Type().(*types.Pointer); !isPtr {
			recv = o.St.heap[sp.Obj]
		}
		for _, r := range ex.Call(o.St, tcM, []Val{recv}, nil) {
			n++
			if r.Panic {
				ok, why = false, "TempoChanges may panic"
				continue
			}
			sl, _ := r.Ret[0].(*SliceV)
			els, okE := ex.sliceElems(r.St, sl)
			if sl == nil || !okE {
				ok, why = false, "the tempo map is not tracked after reading"
				continue
			}
			if len(els) != len(want) {
				ok, why = false, fmt.Sprintf("the tempo map holds %d records after reading a file with %d tempo events", len(els), len(want))
				continue
			}
			for i, e := range els {
				var tv *StructV
				switch x := e.(type) {
				case *PtrV:
					tv, _ = r.St.heap[x.Obj].(*StructV)
				case *StructV:
					tv = x
				}
				if tv == nil {
					ok, why = false, "tempo record not tracked"
					break
				}
				at, _ := tv.Fields[fieldIndex(tv.T, "AbsTicks")].(*IntV)
				bpm, _ := tv.Fields[fieldIndex(tv.T, "BPM")].(*FloatV)
				if at == nil || !r.St.sameInt(at, mkConst(want[i].tick, 64, true)) {
					ok, why = false, fmt.Sprintf("tempo record %d has tick %s, expected %d: in tick order the file's tempo events sit at 5 (second track), 16, 48 (first track) and 4563402757 (second track, beyond 32 bits) — the running tick is a 64-bit sum per track and restarts at 0 with each track", i, valString(tv.Fields[fieldIndex(tv.T, "AbsTicks")]), want[i].tick)
					break
				}
				if bpm == nil || !bpm.Known || bpm.F != want[i].bpm {
					ok, why = false, fmt.Sprintf("tempo record at tick %d carries %s, the event says %v BPM (60000000 / microseconds per quarter)", want[i].tick, valString(tv.Fields[fieldIndex(tv.T, "BPM")]), want[i].bpm)
					break
				}
			}
		}
	}
	c.Check(ok && n > 0, rule, key, p.Pos(rf.Pos()), "two tracks, four tempo events: the map is (5, 240 BPM), (16, 120 BPM), (48, 60 BPM), (4563402757, 30 BPM) — ticks are 64-bit sums", why)
}
