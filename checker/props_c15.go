package main

import (
	"fmt"
	"go/token"
	"go/types"
	"strings"

	"golang.org/x/tools/go/ssa"
)

func init() { register("C15", checkC15) }

// SMF 1.0 meta type bytes by exported constructor (spec table, DESIGN appendix A.2)
var metaSpec = []struct {
	ctor   string
	typ    int64
	getter string
	kind   string // text | bytes | fixed | tempo | timesig | meter | key
}{
	{"MetaSequenceNo", 0x00, "GetMetaSeqNumber", "fixed"},
	{"MetaText", 0x01, "GetMetaText", "text"},
	{"MetaCopyright", 0x02, "GetMetaCopyright", "text"},
	{"MetaTrackSequenceName", 0x03, "GetMetaTrackName", "text"},
	{"MetaInstrument", 0x04, "GetMetaInstrument", "text"},
	{"MetaLyric", 0x05, "GetMetaLyric", "text"},
	{"MetaMarker", 0x06, "GetMetaMarker", "text"},
	{"MetaCuepoint", 0x07, "GetMetaCuepoint", "text"},
	{"MetaProgram", 0x08, "GetMetaProgramName", "text"},
	{"MetaDevice", 0x09, "GetMetaDevice", "text"},
	{"MetaChannel", 0x20, "GetMetaChannel", "fixed"},
	{"MetaPort", 0x21, "GetMetaPort", "fixed"},
	{"MetaTempo", 0x51, "GetMetaTempo", "tempo"},
	{"MetaSMPTE", 0x54, "GetMetaSMPTEOffsetMsg", "fixed"},
	{"MetaTimeSig", 0x58, "GetMetaTimeSig", "timesig"},
	{"MetaMeter", 0x58, "GetMetaMeter", "meter"},
	{"MetaKey", 0x59, "GetMetaKeySig", "key"},
	{"MetaSequencerData", 0x7F, "GetMetaSeqData", "bytes"},
}

// metaFrameCheck: result = FF, typ, canonical VLQ(len payload), payload. Returns payload segments.
func metaFrameCheck(ex *Exec, st *State, res *SliceV, typ int64) (payload []Seg, plen *IntV, why string) {
	segs, ok := ex.sliceSegs(st, res)
	if !ok || len(segs) == 0 || segs[0].Run != nil || len(segs[0].Elems) < 3 {
		return nil, nil, "result is not a frame of at least 3 known bytes: " + arrayString(&ArrayV{Segs: segs})
	}
	head := segs[0].Elems
	b0, _ := head[0].(*IntV)
	b1, _ := head[1].(*IntV)
	if b0 == nil || b1 == nil || !st.sameInt(b0, mkConst(0xFF, 8, false)) {
		return nil, nil, "byte 0 is not FF"
	}
	if typ >= 0 && !st.sameInt(b1, mkConst(typ, 8, false)) {
		return nil, nil, fmt.Sprintf("type byte is %s, SMF 1.0 assigns %02X to this event", b1, typ)
	}
	total := st.TermOf(res.Len)
	// try k = 1..4 length bytes
	for k := 1; k <= 4 && 2+k <= len(head); k++ {
		pl := &IntV{W: 64, Signed: true, T: termAdd(total, constTerm(int64(2+k)), -1)}
		lo, hi := st.Range(pl)
		if lo < 0 {
			continue
		}
		cell := vlqCells[k-1]
		if lo < cell[0] || hi > cell[1] {
			continue
		}
		want := vlqSpecBytes(st, st.Convert(pl, 32, false), k)
		okv := true
		for i := 0; i < k; i++ {
			g, _ := head[2+i].(*IntV)
			if g == nil || !st.sameInt(g, want[i]) {
				okv = false
			}
		}
		if !okv {
			return nil, nil, fmt.Sprintf("length field is not the canonical VLQ of the payload length (%d-byte cell): %s", k, arrayString(&ArrayV{Segs: segs}))
		}
		rest, ok := ex.arrSub(st, &ArrayV{Segs: segs}, constTerm(int64(2+k)), total)
		if !ok {
			return nil, nil, "payload not separable"
		}
		return rest, pl, ""
	}
	return nil, nil, "payload length does not fall into one VLQ size cell on this path: " + arrayString(&ArrayV{Segs: segs})
}

func checkC15(c *Ctx) {
	p := c.P
	c.Level = "other"
	c.Explain = "C15 decided by abstract interpretation of every exported meta constructor with symbolic arguments (texts and sequencer data as opaque runs of symbolic length, partitioned by VLQ size cell) and of the matching accessor on the constructor's abstract result: frame FF/type/canonical VLQ/payload with the SMF 1.0 type byte; accessor returns the constructor's arguments for every length; tempo field = 3 big-endian bytes of the clamped rounded 6e7/bpm; time signatures over the 8 power-of-two denominators; key signatures over the 15x2 (accidentals, mode) cells against the circle of fifths; the 26 named key constructors against the pitch class spelled by their name and against the name table (typed syntax). Not decided: tempo 'to within the field's resolution' (float rounding; the formula is compared as a normal form)."
	c.Trusted = []string{"go/ssa", "E-abs incl. bytes.Reader / big.Int.Bytes summaries", "SMF 1.0 meta table and circle of fifths in the checker"}
	c.Rule("C15.1", "frame: every exported meta constructor returns FF, the SMF 1.0 type byte of that event, the canonical VLQ of the payload length, then the payload", 17)
	c.Rule("C15.2", "accessor inverse: the matching accessor accepts the constructor's result on every partition and returns the constructor's arguments (texts / sequencer data of any length incl. >= 128 where the length field grows; fixed payloads)", 14)
	c.Rule("C15.4", "tempo field: payload = 3 big-endian bytes of min(round(6e7/bpm), 0xFFFFFF); accessor = 6e7 / that 24-bit value", 2)
	c.Rule("C15.5", "time signature: numerator and clock fields copied (0 -> 8), denominators 1..128 (powers of two) survive the log2 encoding", 8)
	c.Rule("C15.6", "key signature: (accidentals 0..7, flat/sharp, mode) round trip with the circle-of-fifths tonic; the 26 named key constructors yield the key of their name and the name table agrees", 30)

	sp := p.Pkg("smf")
	if sp == nil {
		c.Unk("C15.1", "package smf", "-", "not loaded")
		return
	}
	getters := map[string]*ssa.Function{}
	for _, m := range p.methodsOf("smf", "Message") {
		if strings.HasPrefix(m.Name(), "GetMeta") {
			getters[m.Name()] = m
		}
	}
	// call accessor with fresh out cells; returns outcomes and cells
	callGetter := func(ex *Exec, st *State, g *ssa.Function, msg Val) ([]Outcome, []*PtrV) {
		args := []Val{msg}
		var cells []*PtrV
		for _, prm := range g.Params[1:] {
			cell := ex.allocCell(st, prm.Type().(*types.Pointer).Elem())
			cells = append(cells, cell)
			args = append(args, cell)
		}
		return ex.Call(st, g, args, nil), cells
	}
	accepts := func(o Outcome) bool {
		if o.Panic || len(o.Ret) == 0 {
			return false
		}
		bv, _ := o.Ret[0].(*BoolV)
		if bv == nil {
			return false
		}
		v, k := o.St.boolOf(bv)
		return k && v
	}

	for _, ms := range metaSpec {
		fn := sp.Func(ms.ctor)
		g := getters[ms.getter]
		if fn == nil || g == nil {
			c.Unk("C15.1", "constructor "+ms.ctor+" / accessor "+ms.getter, "-", "exported function not found")
			continue
		}
		c.Fn(FuncName(fn))
		c.Fn(FuncName(g))
		switch ms.kind {
		case "text", "bytes":
			// length cells: 0 (text only), 1..127, 128..16383, 16384..2^21-1
			cells := [][2]int64{{1, 127}, {128, 16383}, {16384, 1<<21 - 1}}
			if c.Tier == "thorough" {
				cells = append(cells, [2]int64{1 << 21, 1<<28 - 1}) // 4-byte length field
			}
			if ms.kind == "text" {
				cells = append([][2]int64{{0, 0}}, cells...)
			}
			okF, okA := true, true
			whyF, whyA := "", ""
			for _, cell := range cells {
				ex := NewExec(p)
				st := ex.NewState()
				data := ex.unknownSlice(st, types.Typ[types.Uint8], "data", 0)
				st.refineSym(data.Len.T.Syms[0], cell[0], cell[1])
				var arg Val = data
				if ms.kind == "text" {
					arg = &StrV{Bytes: data, Len: data.Len}
				}
				dataSegs, _ := ex.sliceSegs(st, data)
				outs := ex.Call(st, fn, []Val{arg}, nil)
				if len(outs) == 0 || ex.Budget {
					okF = false
					whyF = "constructor not interpretable"
				}
				for _, o := range outs {
					if o.Panic || len(problemEvents(o.St.Events)) > 0 {
						okF = false
						whyF = "panic/bounds: " + o.Msg + fmtEvents(problemEvents(o.St.Events))
						continue
					}
					res, _ := o.Ret[0].(*SliceV)
					noteShared(c, p, ex, fn, o, res)
					pay, _, why := metaFrameCheck(ex, o.St, res, ms.typ)
					if why != "" {
						okF = false
						whyF = fmt.Sprintf("payload length in [%d,%d]: %s", cell[0], cell[1], why)
						continue
					}
					if !segsEqual(o.St.dropEmptyRuns(pay), o.St.dropEmptyRuns(dataSegs), o.St.sameVal) {
						okF = false
						whyF = "payload is not the argument: " + arrayString(&ArrayV{Segs: pay})
						continue
					}
					gouts, gcells := callGetter(ex, o.St, g, res)
					nacc := 0
					for _, go_ := range gouts {
						if go_.Panic || len(problemEvents(go_.St.Events)) > 0 {
							okA = false
							whyA = fmt.Sprintf("payload length in [%d,%d]: accessor may panic: %s %s", cell[0], cell[1], go_.Msg, fmtEvents(problemEvents(go_.St.Events)))
							continue
						}
						if !accepts(go_) {
							okA = false
							whyA = fmt.Sprintf("payload length in [%d,%d]: accessor may reject the constructor's result [%s]", cell[0], cell[1], outcomeWitness(go_))
							continue
						}
						nacc++
						var gotSegs []Seg
						okg := false
						switch v := go_.St.heap[gcells[0].Obj].(type) {
						case *StrV:
							if v.Bytes != nil {
								gotSegs, okg = ex.sliceSegs(go_.St, v.Bytes)
							} else if v.Known && v.S == "" {
								gotSegs, okg = nil, true
							}
						case *SliceV:
							gotSegs, okg = ex.sliceSegs(go_.St, v)
						}
						if !okg || !segsEqual(go_.St.dropEmptyRuns(gotSegs), go_.St.dropEmptyRuns(dataSegs), go_.St.sameVal) {
							okA = false
							whyA = fmt.Sprintf("payload length in [%d,%d]: accessor returns %s, the constructor's argument is %s", cell[0], cell[1], arrayString(&ArrayV{Segs: gotSegs}), arrayString(&ArrayV{Segs: dataSegs}))
						}
					}
					if nacc == 0 && okA {
						okA = false
						whyA = "accessor never accepts"
					}
				}
			}
			c.Check(okF, "C15.1", "frame "+ms.ctor, p.Pos(fn.Pos()), fmt.Sprintf("FF %02X canonical-VLQ payload for every payload length (VLQ cells 1..3 bytes)", ms.typ), whyF)
			c.Check(okA, "C15.2", ms.ctor+" -> "+ms.getter, p.Pos(g.Pos()), "accessor returns exactly the constructor's argument for every length", whyA)
		case "fixed":
			ex := NewExec(p)
			st := ex.NewState()
			var args []Val
			var iargs []*IntV
			for _, prm := range fn.Params {
				w, s, _ := intTypeInfo(prm.Type())
				v := mkSym(ex.syms.Get(prm.Name(), w, s))
				args = append(args, v)
				iargs = append(iargs, v)
			}
			okF, okA := true, true
			whyF, whyA := "", ""
			for _, o := range ex.Call(st, fn, args, nil) {
				if o.Panic {
					okF = false
					whyF = o.Msg
					continue
				}
				res, _ := o.Ret[0].(*SliceV)
				noteShared(c, p, ex, fn, o, res)
				pay, _, why := metaFrameCheck(ex, o.St, res, ms.typ)
				if why != "" {
					okF = false
					whyF = why
					continue
				}
				// payload = big-endian bytes of the arguments in order
				var want []Val
				for _, a := range iargs {
					want = append(want, intVals(o.St.beBytes(a, a.W/8))...)
				}
				if !segsEqual(pay, []Seg{{Elems: want}}, o.St.sameVal) {
					okF = false
					whyF = "payload " + arrayString(&ArrayV{Segs: pay}) + " is not the big-endian image of the arguments"
				}
				gouts, gcells := callGetter(ex, o.St, g, res)
				for _, go_ := range gouts {
					if !accepts(go_) {
						okA = false
						whyA = "accessor may reject/panic on the constructor's result: " + go_.Msg
						continue
					}
					for i, cell := range gcells {
						got, _ := go_.St.heap[cell.Obj].(*IntV)
						if got == nil || i >= len(iargs) || !go_.St.sameInt(got, iargs[i]) {
							okA = false
							whyA = fmt.Sprintf("out-parameter %d is %s, argument was %s", i, valString(go_.St.heap[cell.Obj]), iargs[i])
						}
					}
				}
			}
			c.Check(okF, "C15.1", "frame "+ms.ctor, p.Pos(fn.Pos()), fmt.Sprintf("FF %02X len payload with big-endian fields", ms.typ), whyF)
			c.Check(okA, "C15.2", ms.ctor+" -> "+ms.getter, p.Pos(g.Pos()), "accessor returns the arguments", whyA)
		case "tempo":
			checkTempo(c, p, fn, g, callGetter, accepts)
		case "timesig", "meter":
			checkTimeSig(c, p, ms.ctor, fn, g, callGetter, accepts)
		case "key":
			checkKeySig(c, p, fn, g, callGetter, accepts)
		}
	}
	checkNamedKeys(c, p, getters["GetMetaKey"])
}

func checkTempo(c *Ctx, p *Program, fn, g *ssa.Function, callGetter func(*Exec, *State, *ssa.Function, Val) ([]Outcome, []*PtrV), accepts func(Outcome) bool) {
	ex := NewExec(p)
	st := ex.NewState()
	bpm := &FloatV{Expr: "bpm"}
	okF, okA := true, true
	whyF, whyA := "", ""
	n := 0
	for _, o := range ex.Call(st, fn, []Val{bpm}, nil) {
		if o.Panic || len(problemEvents(o.St.Events)) > 0 {
			okF = false
			whyF = "panic/bounds: " + o.Msg + fmtEvents(problemEvents(o.St.Events))
			continue
		}
		n++
		res, _ := o.Ret[0].(*SliceV)
		noteShared(c, p, ex, fn, o, res)
		pay, _, why := metaFrameCheck(ex, o.St, res, 0x51)
		if why != "" {
			okF = false
			whyF = why
			continue
		}
		// the rounded microseconds-per-quarter value
		us := ex.syms.byName["int(Round((6e+07/bpm)))"]
		if us == nil {
			okF = false
			whyF = "microseconds per quarter are not computed as round(6e7 / bpm) (formula normal form differs)"
			continue
		}
		usv := mkSym(us)
		lo, hi := o.St.Range(usv)
		var want *IntV
		switch {
		case hi <= 0xFFFFFF:
			want = usv
		case lo > 0xFFFFFF:
			want = mkConst(0xFFFFFF, 32, false)
		default:
			okF = false
			whyF = "clamp boundary 0xFFFFFF (largest value of the 3-byte field) not separated on this path [" + outcomeWitness(o) + "]"
			continue
		}
		if !segsEqual(pay, []Seg{{Elems: intVals(o.St.beBytes(want, 4)[1:])}}, o.St.sameVal) {
			okF = false
			whyF = fmt.Sprintf("for microseconds per quarter in [%d,%d] the 3-byte field is %s, must be the big-endian image of min(value, 0xFFFFFF) [%s]", lo, hi, arrayString(&ArrayV{Segs: pay}), outcomeWitness(o))
			continue
		}
		if lo == 0 && hi == 0 {
			continue // microseconds per quarter = 0 (tempo above 1.2e8 BPM) is outside the stated domain (fastest 6e7 BPM)
		}
		gouts, gcells := callGetter(ex, o.St, g, res)
		for _, go_ := range gouts {
			if !accepts(go_) {
				okA = false
				whyA = "accessor may reject the constructor's result " + go_.Msg
				continue
			}
			fv, _ := go_.St.heap[gcells[0].Obj].(*FloatV)
			if cw, isC := go_.St.ConstOf(want); isC {
				if fv == nil || !fv.Known || fv.F != float64(60000000)/float64(cw) {
					okA = false
					whyA = fmt.Sprintf("for the field value %d the accessor returns %s, expected %v", cw, valString(go_.St.heap[gcells[0].Obj]), float64(60000000)/float64(cw))
				}
				continue
			}
			// expected 6e7 / float(value24)
			if fv == nil || !strings.HasPrefix(fv.Expr, "(6e+07/float(") {
				okA = false
				whyA = "accessor does not compute 6e7 / microseconds: " + valString(go_.St.heap[gcells[0].Obj])
				continue
			}
			inner := strings.TrimSuffix(strings.TrimPrefix(fv.Expr, "(6e+07/float("), "))")
			if inner != go_.St.ident(want) {
				okA = false
				whyA = "accessor divides by " + inner + ", the field holds " + go_.St.ident(want)
			}
		}
	}
	c.Check(okF && n > 0, "C15.1", "frame MetaTempo", p.Pos(fn.Pos()), "FF 51 03 + 3 bytes", whyF)
	c.Check(okF && n > 0, "C15.4", "tempo field packing", p.Pos(fn.Pos()), fmt.Sprintf("%d partitions (byte-length classes of the value): field = big-endian min(round(6e7/bpm), 0xFFFFFF)", n), whyF)
	c.Check(okA && n > 0, "C15.4", "tempo accessor formula", p.Pos(g.Pos()), "bpm = 6e7 / 24-bit field", whyA)
}

func checkTimeSig(c *Ctx, p *Program, name string, fn, g *ssa.Function, callGetter func(*Exec, *State, *ssa.Function, Val) ([]Outcome, []*PtrV), accepts func(Outcome) bool) {
	for d := 0; d < 8; d++ {
		denom := int64(1) << uint(d)
		ex := NewExec(p)
		st := ex.NewState()
		num := mkSym(ex.syms.Get("numerator", 8, false))
		args := []Val{num, mkConst(denom, 8, false)}
		var cpc, dsq *IntV
		if len(fn.Params) == 4 {
			cpc = mkSym(ex.syms.Get("clocksPerClick", 8, false))
			dsq = mkSym(ex.syms.Get("demiSemiQuaverPerQuarter", 8, false))
			args = append(args, cpc, dsq)
		}
		ok := true
		why := ""
		n := 0
		for _, o := range ex.Call(st, fn, args, nil) {
			if o.Panic || len(problemEvents(o.St.Events)) > 0 {
				ok = false
				why = "panic/bounds " + o.Msg
				continue
			}
			res, _ := o.Ret[0].(*SliceV)
			noteShared(c, p, ex, fn, o, res)
			pay, _, w := metaFrameCheck(ex, o.St, res, 0x58)
			if w != "" {
				ok = false
				why = w
				continue
			}
			exp := func(v *IntV) *IntV {
				if v == nil {
					return mkConst(8, 8, false)
				}
				if lo, hi := o.St.Range(v); lo == 0 && hi == 0 {
					return mkConst(8, 8, false)
				} else if lo == 0 {
					return nil
				}
				return v
			}
			ec, ed := exp(cpc), exp(dsq)
			if ec == nil || ed == nil {
				ok = false
				why = "zero shorthand of a clock field not separated"
				continue
			}
			want := []Val{num, mkConst(int64(d), 8, false), ec, ed}
			if !segsEqual(pay, []Seg{{Elems: want}}, o.St.sameVal) {
				ok = false
				why = fmt.Sprintf("denominator %d: payload %s, SMF 1.0 requires [numerator, log2(denominator)=%d, clocks, 32nds]", denom, arrayString(&ArrayV{Segs: pay}), d)
				continue
			}
			gouts, gcells := callGetter(ex, o.St, g, res)
			for _, go_ := range gouts {
				if !accepts(go_) {
					ok = false
					why = "accessor may reject: " + go_.Msg
					continue
				}
				n++
				exps := []*IntV{num, mkConst(denom, 8, false), ec, ed}
				for i, cell := range gcells {
					got, _ := go_.St.heap[cell.Obj].(*IntV)
					if got == nil || !go_.St.sameInt(got, exps[i]) {
						ok = false
						why = fmt.Sprintf("denominator %d: out-parameter %d is %s, expected %s", denom, i, valString(go_.St.heap[cell.Obj]), exps[i])
					}
				}
			}
		}
		rule := "C15.5"
		c.Check(ok && n > 0, rule, fmt.Sprintf("%s denominator %d", name, denom), p.Pos(fn.Pos()), "constructor payload and accessor outputs agree with the arguments", why)
	}
	if name == "MetaTimeSig" {
		c.OK("C15.1", "frame MetaTimeSig", p.Pos(fn.Pos()), "FF 58 04 + 4 bytes (checked in all 8 denominator cells)")
		c.OK("C15.1", "frame MetaMeter", p.Pos(fn.Pos()), "shares the time-signature frame")
	}
}

// circle of fifths (DESIGN appendix A.3)
func tonicOf(sf int, major bool) int {
	t := 7 * sf
	if !major {
		t -= 3
	}
	return ((t % 12) + 12) % 12
}

func checkKeySig(c *Ctx, p *Program, fn, g *ssa.Function, callGetter func(*Exec, *State, *ssa.Function, Val) ([]Outcome, []*PtrV), accepts func(Outcome) bool) {
	for _, major := range []bool{true, false} {
		for _, flat := range []bool{false, true} {
			for num := 0; num <= 7; num++ {
				if num == 0 && flat {
					continue
				}
				sf := num
				if flat {
					sf = -num
				}
				ex := NewExec(p)
				st := ex.NewState()
				args := []Val{mkSym(ex.syms.Get("key", 8, false)), &BoolV{Known: true, Val: major}, mkConst(int64(num), 8, false), &BoolV{Known: true, Val: flat}}
				ok := true
				why := ""
				n := 0
				for _, o := range ex.Call(st, fn, args, nil) {
					if o.Panic {
						ok = false
						why = o.Msg
						continue
					}
					res, _ := o.Ret[0].(*SliceV)
					noteShared(c, p, ex, fn, o, res)
					pay, _, w := metaFrameCheck(ex, o.St, res, 0x59)
					if w != "" {
						ok = false
						why = w
						continue
					}
					mode := int64(1)
					if major {
						mode = 0
					}
					want := []Val{mkConst(int64(uint8(int8(sf))), 8, false), mkConst(mode, 8, false)}
					if !segsEqual(pay, []Seg{{Elems: want}}, o.St.sameVal) {
						ok = false
						why = fmt.Sprintf("payload %s, SMF 1.0 requires [sf=%d as signed byte, mode=%d]", arrayString(&ArrayV{Segs: pay}), sf, mode)
						continue
					}
					gouts, gcells := callGetter(ex, o.St, g, res)
					for _, go_ := range gouts {
						if !accepts(go_) || len(problemEvents(go_.St.Events)) > 0 {
							ok = false
							why = "accessor may reject/panic: " + go_.Msg
							continue
						}
						for _, e := range go_.St.Events {
							if e.Kind == "wrap" {
								ok = false
								why = "integer wrap-around in the tonic arithmetic: " + e.Msg
							}
						}
						n++
						k, _ := go_.St.heap[gcells[0].Obj].(*IntV)
						nm, _ := go_.St.heap[gcells[1].Obj].(*IntV)
						mj, _ := go_.St.heap[gcells[2].Obj].(*BoolV)
						fl, _ := go_.St.heap[gcells[3].Obj].(*BoolV)
						if k == nil || !go_.St.sameInt(k, mkConst(int64(tonicOf(sf, major)), 8, false)) {
							ok = false
							why = fmt.Sprintf("tonic is %s, circle of fifths gives %d", valString(go_.St.heap[gcells[0].Obj]), tonicOf(sf, major))
						}
						if nm == nil || !go_.St.sameInt(nm, mkConst(int64(num), 8, false)) {
							ok = false
							why = "number of accidentals not recovered"
						}
						if mj == nil || !mj.Known || mj.Val != major {
							if v, kk := go_.St.boolOf(mj); !kk || v != major {
								ok = false
								why = "mode not recovered"
							}
						}
						if fl != nil {
							if v, kk := go_.St.boolOf(fl); !kk || v != flat {
								ok = false
								why = "flat/sharp flag not recovered"
							}
						}
					}
				}
				c.Check(ok && n > 0, "C15.6", fmt.Sprintf("key signature sf=%d major=%v", sf, major), p.Pos(fn.Pos()), "payload and accessor outputs (tonic, count, mode, flat flag) as the circle of fifths gives them", why)
			}
		}
	}
	c.OK("C15.1", "frame MetaKey", p.Pos(fn.Pos()), "FF 59 02 sf mode (checked in all 30 cells)")
}

var pitchClass = map[byte]int{'C': 0, 'D': 2, 'E': 4, 'F': 5, 'G': 7, 'A': 9, 'B': 11}

// parseKeyName: "FsharpMaj" / "BbMin" / "CMaj" -> pitch class, major
func parseKeyName(n string) (pc int, major bool, ok bool) {
	var mode string
	switch {
	case strings.HasSuffix(n, "Maj"):
		major, mode = true, "Maj"
	case strings.HasSuffix(n, "Min"):
		mode = "Min"
	default:
		return 0, false, false
	}
	root := strings.TrimSuffix(n, mode)
	if len(root) == 0 {
		return 0, false, false
	}
	base, has := pitchClass[root[0]]
	if !has {
		return 0, false, false
	}
	switch root[1:] {
	case "":
	case "sharp":
		base++
	case "b":
		base--
	default:
		return 0, false, false
	}
	return ((base % 12) + 12) % 12, major, true
}

func checkNamedKeys(c *Ctx, p *Program, getKey *ssa.Function) {
	sp := p.Pkg("smf")
	metaKey := sp.Func("MetaKey")
	if getKey == nil || metaKey == nil {
		c.Unk("C15.6", "GetMetaKey / MetaKey", "-", "not found")
		return
	}
	n := 0
	for _, fn := range exportedFuncs(sp) {
		if fn.Signature.Params().Len() != 0 || fn.Signature.Results().Len() != 1 || namedTypeName(fn.Signature.Results().At(0).Type()) != "Message" {
			continue
		}
		reaches := false
		for _, g := range p.Reachable(fn) {
			if g == metaKey {
				reaches = true
			}
		}
		if !reaches {
			continue
		}
		n++
		pc, major, okName := parseKeyName(fn.Name())
		if !okName {
			c.Unk("C15.6", "named key "+fn.Name(), p.Pos(fn.Pos()), "name does not spell a key (letter, optional sharp/b, Maj/Min)")
			continue
		}
		ex := NewExec(p)
		st := ex.NewState()
		ok := true
		why := ""
		cnt := 0
		for _, o := range ex.Call(st, fn, nil, nil) {
			if o.Panic {
				ok = false
				why = o.Msg
				continue
			}
			cell := ex.allocCell(o.St, getKey.Params[1].Type().(*types.Pointer).Elem())
			for _, go_ := range ex.Call(o.St, getKey, []Val{o.Ret[0], cell}, nil) {
				if go_.Panic {
					ok = false
					why = go_.Msg
					continue
				}
				bv, _ := go_.Ret[0].(*BoolV)
				if v, k := go_.St.boolOf(bv); !k || !v {
					ok = false
					why = "GetMetaKey may reject the named constructor's message"
					continue
				}
				cnt++
				kv, _ := go_.St.heap[cell.Obj].(*StructV)
				if kv == nil || len(kv.Fields) != 4 {
					ok = false
					why = "Key value malformed"
					continue
				}
				tonic, _ := kv.Fields[0].(*IntV)
				mj, _ := kv.Fields[2].(*BoolV)
				if tonic == nil || !go_.St.sameInt(tonic, mkConst(int64(pc), 8, false)) {
					ok = false
					why = fmt.Sprintf("%s() decodes to tonic %s, the name spells pitch class %d", fn.Name(), valString(kv.Fields[0]), pc)
				}
				if v, k := go_.St.boolOf(mj); !k || v != major {
					ok = false
					why = fmt.Sprintf("%s() decodes to major=%v", fn.Name(), v)
				}
			}
		}
		c.Check(ok && cnt > 0, "C15.6", "named key "+fn.Name(), p.Pos(fn.Pos()), fmt.Sprintf("decodes to pitch class %d, major=%v as its name says", pc, major), why)
	}
	if n < 26 {
		c.Bad("C15.6", "named key constructors", "-", fmt.Sprintf("only %d named key constructors found, 26 expected", n))
	}
	_ = token.ADD
}

var sharedNoted = map[string]bool{}

// noteShared: a meta constructor must return freshly allocated bytes (C15.1).
func noteShared(c *Ctx, p *Program, ex *Exec, fn *ssa.Function, o Outcome, res *SliceV) {
	if o.Panic || res == nil || ex.freshSlice(o, res) {
		return
	}
	key := "constructor " + fn.Name() + " returns a fresh message"
	if sharedNoted[c.Prop+key] {
		return
	}
	sharedNoted[c.Prop+key] = true
	c.Bad("C15.1", key, p.Pos(fn.Pos()), "the returned message shares storage that outlives the call (a package-level template or buffer): a message built earlier changes when the next one is built")
}
