package main

import (
	"fmt"
	"go/token"
	"go/types"

	"golang.org/x/tools/go/ssa"
)

func init() { register("C12", checkC12) }

// sortCalls lists calls to the sort package's sorting entry points in fn.
func sortCalls(fn *ssa.Function) []ssa.CallInstruction {
	var out []ssa.CallInstruction
	for _, call := range calls(fn) {
		switch calleeQual(call) {
		case "sort.Sort", "sort.Stable", "sort.Slice", "sort.SliceStable":
			out = append(out, call)
		}
	}
	return out
}

// lessField: for a sort.Interface argument, the single field its Less compares (by <), or "".
func lessField(p *Program, arg ssa.Value) (string, types.Type) {
	mi, ok := arg.(*ssa.MakeInterface)
	if !ok {
		return "", nil
	}
	T := mi.X.Type()
	less := p.MethodOf(T, "Less")
	if less == nil || less.Blocks == nil {
		return "", T
	}
	rets := allReturns(less)
	if len(rets) != 1 {
		return "", T
	}
	cmp, ok := rets[0].Results[0].(*ssa.BinOp)
	if !ok || cmp.Op != token.LSS {
		return "", T
	}
	fx := loadedFieldName(cmp.X)
	fy := loadedFieldName(cmp.Y)
	if fx != "" && fx == fy {
		return fx, T
	}
	return "", T
}

func loadedFieldName(v ssa.Value) string {
	switch x := v.(type) {
	case *ssa.UnOp:
		if n, _, ok := fieldOf(x.X); ok {
			return n
		}
	case *ssa.Field:
		n, _, _ := fieldOf(x)
		return n
	}
	return ""
}

func checkC12(c *Ctx) {
	p := c.P
	c.Level = "other"
	c.Explain = "C12 decided on the structure every playback relies on: the merge of the per-track play lists uses a key that is only the absolute time, so it must be a stable sort (file order among equal times); only messages that pass the playability test are queued, each once, and the test rejects every FF-leading message and accepts every channel message (abstract interpretation over all 256 first bytes); port selection is track's port, else port -1, else skip; every Send is preceded in the same call by Sleep(scheduled - last) and the schedule is absTime in microseconds (abstract interpretation of the play step); the track iterator calls the callback in track order then event order. Not decided: wall-clock instants, merge order across tracks at equal time."
	c.Trusted = []string{"go/ssa", "sort.Stable keeps equal keys in input order", "time.Sleep(d) sleeps at least d", "E-abs"}
	c.Rule("C12.1", "stable merge: in the MultiPlay simulation with a feed that is not in time order (two events of track 0 at one time, an earlier event on track 1) the events are played in time order, the two same-time events in file order, and the merge leaves no order unspecified (the sort is interpreted with the code's own comparison: stable, or without possibly-equal keys)", 1)
	c.Rule("C12.2", "only playable, each once: in the MultiPlay simulation every channel message of a mapped track is sent exactly once and a meta event never; the playability test rejects FF-leading messages and accepts channel messages (256 first bytes x 4 length classes)", 3)
	c.Rule("C12.3", "port mapping (MultiPlay simulation, also for a second playback on the same reader with another map): port of the track if mapped, else port -1 if mapped, else the event is skipped", 3)
	c.Rule("C12.4", "never early (MultiPlay simulation): every Send is preceded by exactly one Sleep(1000*absTime[us] - time of the previous sent event)", 1)
	c.Rule("C12.5", "file order in: simulated on two tracks of two events, the track iterator hands the callback every event once, tracks then events in file order", 1)

	c.Rule("C12.7", "selection: a reader made by the constructor ReadTracksFrom (file parser replaced by a prepared two-track file) with the selections {0}, {1}, {0,1}, {5}, {-3,2}, {1,7} hands over exactly the events of the selected tracks the file has, once each, in file order — nothing at all when no selected track exists; Play(out) plays every track on the given port (map key -1)", 4)
	c.Rule("C12.6", "the schedule is the tempo map: the times the play list is built from follow the segment rule of the tick-to-time conversion, also with repeated tempo ticks (= C11.3)", 4)
	c.include(checkC11, map[string]string{"C11.3": "C12.6"})

	trT := p.namedType("smf", "TracksReader")
	if trT == nil {
		c.Unk("C12.1", "smf.TracksReader", "-", "not found")
		return
	}
	multi := p.MethodOf(types.NewPointer(trT), "MultiPlay")
	do := p.MethodOf(types.NewPointer(trT), "Do")
	if multi == nil || do == nil {
		c.Unk("C12.1", "MultiPlay / Do", "-", "not found")
		return
	}
	c.Fn(FuncName(multi))
	c.Fn(FuncName(do))
	// ---- C12.1 is decided by the merge cell of the MultiPlay simulation below (the sort is interpreted with the code's own
	// comparison); until round 5 a rule read off which sort function is called and which field Less compares
	// ---- C12.2 / C12.3 / C12.4: MultiPlay itself, interpreted on concrete port maps and event lists
	multiPlaySimulation(c, multi, do)
	// ---- C12.7 track selection and the single-port wrapper
	{
		smfT2 := p.namedType("smf", "SMF")
		timeAt := p.MethodOf(types.NewPointer(smfT2), "TimeAt")
		if timeAt != nil {
			for _, sel := range [][]int64{{0}, {1}, {0, 1}, {5}, {-3, 2}, {1, 7}} { // {5}, {-3, 2}: nothing selected that the file has -> nothing delivered
				iteratorSimulationSel(c, "C12.7", do, timeAt, sel)
			}
		} else {
			c.Unk("C12.7", "SMF.TimeAt", "-", "not found")
		}
		// Play(out) = MultiPlay({-1: out}): the map handed on is a fresh map with the single key -1 holding the port
		if play := p.MethodOf(types.NewPointer(trT), "Play"); play == nil {
			c.Unk("C12.7", "TracksReader.Play", "-", "not found")
		} else {
			c.Fn(FuncName(play))
			ok, why := false, "Play does not hand its port to MultiPlay"
			for _, call := range calls(play) {
				if call.Common().StaticCallee() != multi || len(call.Common().Args) < 2 {
					continue
				}
				mm, isMk := call.Common().Args[1].(*ssa.MakeMap)
				if !isMk {
					why = "the port map handed to MultiPlay is not built in Play"
					continue
				}
				n, good := 0, true
				for _, u := range liveRefs(mm) {
					if mu, isU := u.(*ssa.MapUpdate); isU {
						n++
						k, okk := constInt(mu.Key)
						if !okk || k != -1 || strip(mu.Value) != ssa.Value(play.Params[1]) {
							good = false
						}
					}
				}
				ok = good && n == 1
				why = "Play maps its port to a key other than -1 (the default for every track): tracks without that number are not played"
			}
			c.Check(ok, "C12.7", "Play(out) = MultiPlay({-1: out})", p.Pos(play.Pos()), "one entry, key -1, the port given", why)
		}
	}
	// playability table by abstract interpretation
	if ip := func() *ssa.Function {
		for _, m := range p.methodsOf("smf", "Message") {
			if m.Name() == "IsPlayable" {
				return m
			}
		}
		return nil
	}(); ip == nil {
		c.Unk("C12.2", "smf.Message.IsPlayable", "-", "not found")
	} else {
		c.Fn(FuncName(ip))
		bad := ""
		for b0 := 0; b0 < 256; b0++ {
			for _, ln := range []int{1, 2, 3, 9} {
				ex := NewExec(p)
				st := ex.NewState()
				msg := mkCellMsg(ex, st, c08cell{ln, b0, -1})
				for _, o := range ex.Call(st, ip, []Val{msg}, nil) {
					if o.Panic {
						bad = fmt.Sprintf("first byte %02X: panic %s", b0, o.Msg)
						continue
					}
					bv, _ := o.Ret[0].(*BoolV)
					v, k := o.St.boolOf(bv)
					if b0 == 0xFF && (!k || v) {
						bad = fmt.Sprintf("a message starting with FF (meta event) of length class %d may be reported playable", ln)
					}
					if b0 >= 0x80 && b0 <= 0xEF && (!k || !v) {
						bad = fmt.Sprintf("channel message with status %02X may be reported not playable", b0)
					}
				}
			}
		}
		c.Check(bad == "", "C12.2", "playability table", p.Pos(ip.Pos()), "256 first bytes x 4 length classes: every FF-leading message is rejected, every channel message accepted", bad)
	}
	// ---- C12.5 iteration order: decided by the iterator simulation (two tracks of two events, no selection): the
	// callback sees every event once, tracks then events in file order, however Do is split into helpers
	{
		smfT2 := p.namedType("smf", "SMF")
		if timeAt := p.MethodOf(types.NewPointer(smfT2), "TimeAt"); timeAt != nil {
			iteratorSimulationSel(c, "C12.5", do, timeAt, nil)
		} else {
			c.Unk("C12.5", "SMF.TimeAt", "-", "not found")
		}
		if len(sortCalls(do)) > 0 {
			c.Check(false, "C12.5", "iterator does not reorder events", p.Pos(do.Pos()), "", "the iterator sorts events")
		}
	}
}

// multiPlaySimulation (C12.2 / C12.3 / C12.4): MultiPlay is interpreted end to end with the track iterator replaced by a
// feeder (the callback it is given is called with a prepared list of events whose times do not decrease, so that the
// sort of the play list is the identity — the sort itself is C12.1) and out ports that record what they are sent.
// Expected on every outcome, in this order: for each playable event whose track has a port (its own, else the default
// -1): Sleep(1000*absTime - 1000*absTime of the previous sent event), then exactly one Send of the event's bytes on
// that port; nothing for meta events and for tracks without a port. Independent of how collecting, sorting and sending
// are split into closures and helpers.
func multiPlaySimulation(c *Ctx, multi, do *ssa.Function) {
	p := c.P
	trT := p.namedType("smf", "TracksReader")
	teT := p.namedType("smf", "TrackEvent")
	outI := p.namedType("drivers", "Out")
	if trT == nil || teT == nil || outI == nil || len(multi.Params) < 2 {
		c.Unk("C12.2", "MultiPlay simulation anchors", "-", "not resolved")
		return
	}
	mt, _ := multi.Params[1].Type().Underlying().(*types.Map)
	if mt == nil {
		c.Unk("C12.2", "MultiPlay simulation: port map parameter", "-", "not a map")
		return
	}
	type evt struct {
		track int64
		meta  bool
	}
	type cell struct {
		name   string
		keys   []int64
		evs    []evt
		want   []int // per event: index into keys of the expected port, -1 = not sent
		rule   string
		okText string
		// merge: events are fed track by track (as the iterator does), so the feed is NOT in time order: events 0 and 1
		// (track 0) share one time u, event 2 (track 1) has a strictly earlier time v < u. Expected play order: 2, 0, 1.
		merge bool
		// firstKeys: the same reader has already played once with THIS port map (other ports); the judged call is the
		// second one, with keys — whatever the first call left in the reader must not decide where messages go now
		firstKeys []int64
	}
	cells := []cell{
		{"track mapped, default mapped", []int64{2, -1}, []evt{{2, false}}, []int{0}, "C12.3", "sent once on the track's own port", false, nil},
		{"only the default (-1) mapped", []int64{-1}, []evt{{2, false}}, []int{0}, "C12.3", "sent once on the default port", false, nil},
		{"another track mapped, no default", []int64{5}, []evt{{2, false}}, []int{-1}, "C12.3", "skipped", false, nil},
		{"meta event, track mapped", []int64{2, -1}, []evt{{2, true}}, []int{-1}, "C12.2", "never sent", false, nil},
		{"channel message, track mapped", []int64{2}, []evt{{2, false}}, []int{0}, "C12.2", "sent exactly once", false, nil},
		{"two tracks, two ports", []int64{2, 0}, []evt{{2, false}, {0, false}}, []int{0, 1}, "C12.4", "each sent once on its port, in time order, each after sleeping up to its own time", false, nil},
		{"channel, meta, channel on the default port", []int64{-1}, []evt{{2, false}, {2, true}, {0, false}}, []int{0, -1, 0}, "C12.2", "the two channel messages sent once each, the meta event skipped, sleeps measured between the sent events", false, nil},
		{"second playback on the same reader: first {2: X}, now only the default", []int64{-1}, []evt{{2, false}, {0, false}}, []int{0, 0}, "C12.3", "both messages on the default port of THIS call", false, []int64{2}},
		{"second playback on the same reader: first only the default, now {0: A, 2: B}", []int64{2, 0}, []evt{{2, false}, {0, false}}, []int{0, 1}, "C12.3", "each message on the port this call maps its track to", false, []int64{-1}},
		{"merge: two events of track 0 at one time, an earlier event on track 1", []int64{0, 1}, []evt{{0, false}, {0, false}, {1, false}}, []int{0, 0, 1}, "C12.1", "played in time order (the track-1 event first), the two same-time events of track 0 in file order; the sort is stable or has no equal keys", true, nil},
	}
	for _, cl := range cells {
		ex := NewExec(p)
		ex.SortModel = true // the merge is interpreted with the code's own comparison (abs_sort.go)
		st := ex.NewState()
		var ports []Val
		for range cl.keys {
			id := ex.newObj(st, &TopV{}, nil)
			ports = append(ports, &IfaceV{Dyn: types.NewPointer(outI), V: &PtrV{Obj: id}})
		}
		k8 := func(v int64) Val { return mkConst(v, 8, false) }
		var tes []Val
		var msgs []*SliceV
		var whens []*IntV
		for i, e := range cl.evs {
			var msg *SliceV
			if e.meta {
				msg = ex.mkBytes(st, fmt.Sprintf("m%d", i), []Val{k8(0xFF), k8(0x51), k8(3), ex.byteSym("t0"), ex.byteSym("t1"), ex.byteSym("t2")}, false, 0)
			} else {
				msg = ex.mkBytes(st, fmt.Sprintf("m%d", i), []Val{k8(0x92), dataTok(ex, st, fmt.Sprintf("k%d", i)), dataTok(ex, st, fmt.Sprintf("v%d", i))}, false, 0)
			}
			when := mkSym(ex.syms.Get(fmt.Sprintf("when%d", i), 64, true))
			st.refineSym(when.T.Syms[0], 0, 1<<40)
			if cl.merge {
				switch i {
				case 1:
					when = whens[0]
				case 2:
					st.Assume("<", when, whens[0])
				}
			} else {
				for j := 0; j < i; j++ {
					st.Assume("<=", whens[j], when) // stated pairwise: the fact base does not chain inequalities
				}
			}
			te := ex.zeroOf(teT).(*StructV)
			te.Fields[fieldIndex(te.T, "TrackNo")] = mkConst(e.track, 64, true)
			te.Fields[fieldIndex(te.T, "AbsMicroSeconds")] = when
			if evs, ok := te.Fields[fieldIndex(te.T, "Event")].(*StructV); ok {
				evs.Fields[fieldIndex(evs.T, "Message")] = msg
			}
			tes = append(tes, te)
			msgs = append(msgs, msg)
			whens = append(whens, when)
		}
		ex.CallHook = func(ex *Exec, st *State, fr *Frame, call ssa.CallInstruction, callee *ssa.Function, args []Val) ([]callRes, bool) {
			if callee != do || len(args) < 2 {
				return nil, false
			}
			states := []*State{st}
			for _, te := range tes {
				var next []*State
				for _, s := range states {
					for _, r := range ex.callValue(fr, s, args[1], []Val{te}, call, nil) {
						if r.panic {
							return []callRes{r}, true
						}
						next = append(next, r.st)
					}
				}
				states = next
			}
			var out []callRes
			for _, s := range states {
				out = append(out, callRes{st: s, ret: args[0]})
			}
			return out, true
		}
		tp := ex.newZeroObject(st, trT)
		if sv, ok := st.heap[tp.Obj].(*StructV); ok {
			for i := 0; i < sv.T.NumFields(); i++ {
				if pt, ok := sv.T.Field(i).Type().(*types.Pointer); ok {
					if _, isS := pt.Elem().Underlying().(*types.Struct); isS {
						sv.Fields[i] = ex.newZeroObject(st, pt.Elem())
					}
				}
			}
		}
		var outs []Outcome
		if cl.firstKeys == nil {
			outs = ex.Call(st, multi, []Val{tp, &MapV{Const: true, Keys: cl.keys, Vals: ports, ElemT: mt.Elem()}}, nil)
		} else {
			var firstPorts []Val
			for range cl.firstKeys {
				id := ex.newObj(st, &TopV{}, nil)
				firstPorts = append(firstPorts, &IfaceV{Dyn: types.NewPointer(outI), V: &PtrV{Obj: id}})
			}
			for _, o1 := range ex.Call(st, multi, []Val{tp, &MapV{Const: true, Keys: cl.firstKeys, Vals: firstPorts, ElemT: mt.Elem()}}, nil) {
				if o1.Panic {
					outs = append(outs, o1)
					continue
				}
				o1.St.Events = nil // only the second call is judged
				outs = append(outs, ex.Call(o1.St, multi, []Val{tp, &MapV{Const: true, Keys: cl.keys, Vals: ports, ElemT: mt.Elem()}}, nil)...)
			}
		}
		key := "MultiPlay simulation: " + cl.name
		if ex.Budget || len(outs) == 0 {
			c.Unk(cl.rule, key, p.Pos(multi.Pos()), "abstract interpretation did not complete")
			continue
		}
		bad := false
		for u := range ex.Unsupported {
			c.Unk(cl.rule, key+": "+u, p.Pos(multi.Pos()), "unmodelled construct")
			bad = true
			break
		}
		if bad {
			continue
		}
		ok, why := true, ""
		for _, o := range outs {
			if o.Panic || len(problemEvents(o.St.Events)) > 0 {
				ok, why = false, "MultiPlay may panic: "+o.Msg+fmtEvents(problemEvents(o.St.Events))
				continue
			}
			type act struct {
				sleep *IntV
				recv  Val
				data  *SliceV
			}
			var acts []act
			var pendingSleep *IntV
			nSleepPending := 0
			for _, e := range o.St.Events {
				switch e.Kind {
				case "call:time.Sleep":
					if len(e.Args) == 1 {
						pendingSleep, _ = e.Args[0].(*IntV)
					}
					nSleepPending++
				case "call:invoke Send":
					var d *SliceV
					if len(e.Args) == 1 {
						d, _ = e.Args[0].(*SliceV)
					}
					a := act{recv: e.Recv, data: d}
					if nSleepPending == 1 {
						a.sleep = pendingSleep
					}
					acts = append(acts, a)
					pendingSleep, nSleepPending = nil, 0
				}
			}
			for _, e := range o.St.Events {
				if e.Kind == "sim:unstable-sort-equal-keys" {
					ok, why = false, e.Msg+" @ "+e.Pos+" — events of one track that share a tick can be played out of file order"
				}
			}
			var wantIdx []int
			for i, w := range cl.want {
				if w >= 0 {
					wantIdx = append(wantIdx, i)
				}
			}
			if cl.merge {
				wantIdx = []int{2, 0, 1}
			}
			if len(acts) != len(wantIdx) {
				ok, why = false, fmt.Sprintf("%d message(s) sent, expected %d", len(acts), len(wantIdx))
				continue
			}
			last := mkConst(0, 64, true)
			for ai, a := range acts {
				ei := wantIdx[ai]
				wp := ports[cl.want[ei]].(*IfaceV).V.(*PtrV)
				rv, _ := a.recv.(*IfaceV)
				var gp *PtrV
				if rv != nil && !rv.Unk && !rv.Nil {
					gp, _ = rv.V.(*PtrV)
				}
				if gp == nil || gp.Obj != wp.Obj {
					ok, why = false, fmt.Sprintf("message %d (track %d) is sent on a port other than expected (%s)", ai, cl.evs[ei].track, cl.okText)
					break
				}
				if a.data == nil || a.data.Obj != msgs[ei].Obj || !o.St.sameInt(a.data.Len, msgs[ei].Len) {
					ok, why = false, fmt.Sprintf("message %d: the bytes sent are not the event's message", ai)
					break
				}
				sched := o.St.Arith(token.MUL, whens[ei], mkConst(1000, 64, true), "")
				wantSleep := o.St.Arith(token.SUB, sched, last, "")
				if a.sleep == nil {
					ok, why = false, fmt.Sprintf("message %d is not preceded by exactly one Sleep since the previous Send: it can leave before its scheduled time", ai)
					break
				}
				if !o.St.sameInt(a.sleep, wantSleep) {
					ok, why = false, fmt.Sprintf("message %d: Sleep(%s) instead of Sleep(1000*absTime - time of the previous sent event) = %s", ai, valString(a.sleep), wantSleep)
					break
				}
				last = sched
			}
		}
		c.Check(ok, cl.rule, key, p.Pos(multi.Pos()), cl.okText, why)
	}
}
