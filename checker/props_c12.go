package main

import (
	"fmt"
	"go/token"
	"go/types"

	"golang.org/x/tools/go/ssa"
)

func init() { register("C12", checkC12) }

// sortCalls lists calls to the sort package's sorting entry points in fn.
func sortCalls(fn *ssa.Function) []ssa.CallInstruction {
	var out []ssa.CallInstruction
	for _, call := range calls(fn) {
		switch calleeQual(call) {
		case "sort.Sort", "sort.Stable", "sort.Slice", "sort.SliceStable":
			out = append(out, call)
		}
	}
	return out
}

// lessField: for a sort.Interface argument, the single field its Less compares (by <), or "".
func lessField(p *Program, arg ssa.Value) (string, types.Type) {
	mi, ok := arg.(*ssa.MakeInterface)
	if !ok {
		return "", nil
	}
	T := mi.X.Type()
	less := p.MethodOf(T, "Less")
	if less == nil || less.Blocks == nil {
		return "", T
	}
	rets := allReturns(less)
	if len(rets) != 1 {
		return "", T
	}
	cmp, ok := rets[0].Results[0].(*ssa.BinOp)
	if !ok || cmp.Op != token.LSS {
		return "", T
	}
	fx := loadedFieldName(cmp.X)
	fy := loadedFieldName(cmp.Y)
	if fx != "" && fx == fy {
		return fx, T
	}
	return "", T
}

func loadedFieldName(v ssa.Value) string {
	switch x := v.(type) {
	case *ssa.UnOp:
		if n, _, ok := fieldOf(x.X); ok {
			return n
		}
	case *ssa.Field:
		n, _, _ := fieldOf(x)
		return n
	}
	return ""
}

func checkC12(c *Ctx) {
	p := c.P
	c.Level = "other"
	c.Explain = "C12 decided on the structure every playback relies on: the merge of the per-track play lists uses a key that is only the absolute time, so it must be a stable sort (file order among equal times); only messages that pass the playability test are queued, each once, and the test rejects every FF-leading message and accepts every channel message (abstract interpretation over all 256 first bytes); port selection is track's port, else port -1, else skip; every Send is preceded in the same call by Sleep(scheduled - last) and the schedule is absTime in microseconds (abstract interpretation of the play step); the track iterator calls the callback in track order then event order. Not decided: wall-clock instants, merge order across tracks at equal time."
	c.Trusted = []string{"go/ssa", "sort.Stable keeps equal keys in input order", "time.Sleep(d) sleeps at least d", "E-abs"}
	c.Rule("C12.1", "stable merge: the play list is sorted by a key that is only the scheduled time and is the concatenation of per-track runs, hence the sort must be sort.Stable / sort.SliceStable", 1)
	c.Rule("C12.2", "only playable, each once: the append to the play list is dominated by the playability test and is not in a loop of the callback; the test rejects FF-leading messages and accepts channel messages; the send loop calls the play step once per element; the play step calls Send exactly once", 3)
	c.Rule("C12.3", "port mapping: port of the track if mapped, else port -1 if mapped, else the event is skipped", 3)
	c.Rule("C12.4", "never early: Send is preceded by Sleep(1us*absTime - last) in the same call and the step returns 1us*absTime", 1)
	c.Rule("C12.5", "file order in: the track iterator invokes the callback inside nested range loops over tracks then events", 1)

	c.Rule("C12.6", "the schedule is the tempo map: the times the play list is built from follow the segment rule of the tick-to-time conversion, also with repeated tempo ticks (= C11.3)", 4)
	c.include(checkC11, map[string]string{"C11.3": "C12.6"})

	trT := p.namedType("smf", "TracksReader")
	if trT == nil {
		c.Unk("C12.1", "smf.TracksReader", "-", "not found")
		return
	}
	multi := p.MethodOf(types.NewPointer(trT), "MultiPlay")
	do := p.MethodOf(types.NewPointer(trT), "Do")
	if multi == nil || do == nil {
		c.Unk("C12.1", "MultiPlay / Do", "-", "not found")
		return
	}
	c.Fn(FuncName(multi))
	c.Fn(FuncName(do))
	// ---- C12.1
	scs := sortCalls(multi)
	if len(scs) == 0 {
		c.Bad("C12.1", "merge in MultiPlay", p.Pos(multi.Pos()), "the play list is never sorted: events of different tracks are not merged by time")
	}
	var playerT types.Type
	for _, sc := range scs {
		q := calleeQual(sc)
		field, T := lessField(p, sc.Common().Args[0])
		playerT = T
		key := "sort of the play list in MultiPlay"
		switch {
		case q == "sort.Slice" || q == "sort.SliceStable":
			c.Check(q == "sort.SliceStable", "C12.1", key, p.Pos(sc.Pos()), "stable", "sort.Slice is not stable: events of one track sharing a tick can leave out of file order")
		case field == "":
			c.Unk("C12.1", key, p.Pos(sc.Pos()), "Less of the sorted type is not a single-field comparison; cannot decide whether equal keys exist")
		default:
			c.Check(q == "sort.Stable", "C12.1", key, p.Pos(sc.Pos()), "Less compares only "+field+"; input is a concatenation of per-track runs; sort.Stable keeps file order among equal times", "Less compares only "+field+" and the input is a concatenation of per-track runs, but "+q+" is not stable: events of one track sharing a tick can leave out of file order")
		}
	}
	// ---- C12.2 / C12.3: the collection callback, interpreted on concrete port maps
	var cb *ssa.Function
	for _, call := range calls(multi) {
		if call.Common().StaticCallee() != do || len(call.Common().Args) < 2 {
			continue
		}
		if mc, ok := call.Common().Args[1].(*ssa.MakeClosure); ok {
			cb, _ = mc.Fn.(*ssa.Function)
		}
	}
	if cb == nil {
		for _, af := range multi.AnonFuncs {
			if af.Signature.Params().Len() == 1 && namedTypeName(af.Signature.Params().At(0).Type()) == "TrackEvent" {
				cb = af
			}
		}
	}
	if cb == nil {
		c.Unk("C12.2", "collection callback of MultiPlay", "-", "not found")
	} else {
		c.Fn(FuncName(cb))
		collectionSimulation(c, cb)
	}
	// playability table by abstract interpretation
	if ip := func() *ssa.Function {
		for _, m := range p.methodsOf("smf", "Message") {
			if m.Name() == "IsPlayable" {
				return m
			}
		}
		return nil
	}(); ip == nil {
		c.Unk("C12.2", "smf.Message.IsPlayable", "-", "not found")
	} else {
		c.Fn(FuncName(ip))
		bad := ""
		for b0 := 0; b0 < 256; b0++ {
			for _, ln := range []int{1, 2, 3, 9} {
				ex := NewExec(p)
				st := ex.NewState()
				msg := mkCellMsg(ex, st, c08cell{ln, b0, -1})
				for _, o := range ex.Call(st, ip, []Val{msg}, nil) {
					if o.Panic {
						bad = fmt.Sprintf("first byte %02X: panic %s", b0, o.Msg)
						continue
					}
					bv, _ := o.Ret[0].(*BoolV)
					v, k := o.St.boolOf(bv)
					if b0 == 0xFF && (!k || v) {
						bad = fmt.Sprintf("a message starting with FF (meta event) of length class %d may be reported playable", ln)
					}
					if b0 >= 0x80 && b0 <= 0xEF && (!k || !v) {
						bad = fmt.Sprintf("channel message with status %02X may be reported not playable", b0)
					}
				}
			}
		}
		c.Check(bad == "", "C12.2", "playability table", p.Pos(ip.Pos()), "256 first bytes x 4 length classes: every FF-leading message is rejected, every channel message accepted", bad)
	}
	// send loop and play step
	play := p.MethodOf(types.NewPointer(trT), "play")
	var step *ssa.Function
	for _, call := range calls(multi) {
		f := call.Common().StaticCallee()
		if f == nil || !InModule(f) || f == do {
			continue
		}
		for _, g := range p.Reachable(f) {
			for _, cc := range calls(g) {
				if cc.Common().IsInvoke() && cc.Common().Method.Name() == "Send" {
					step = f
				}
			}
		}
	}
	_ = play
	if step == nil {
		c.Bad("C12.2", "play step", p.Pos(multi.Pos()), "MultiPlay never reaches a Send on an out port")
	} else {
		c.Fn(FuncName(step))
		// called exactly once per iteration of a range loop over the play list
		var stepCall ssa.Instruction
		n := 0
		for _, call := range calls(multi) {
			if call.Common().StaticCallee() == step {
				stepCall = call
				n++
			}
		}
		inLoop := false
		for _, l := range naturalLoops(multi) {
			if stepCall != nil && l.Body[stepCall.Block()] {
				inLoop = true
				if why := classifyLoop(multi, l, nil); why == "" {
					inLoop = false
				}
			}
		}
		c.Check(n == 1 && inLoop, "C12.2", "send loop visits each queued event once", p.Pos(multi.Pos()), "one call of the play step inside a counted range loop over the play list", fmt.Sprintf("play step called %d times / not inside a counted loop", n))
		// E-abs of the step
		ex := NewExec(p)
		st := ex.NewState()
		last := mkSym(ex.syms.Get("last", 64, true))
		st.refineSym(last.T.Syms[0], 0, 1<<60)
		abs := mkSym(ex.syms.Get("absTime", 64, true))
		st.refineSym(abs.T.Syms[0], 0, 1<<50)
		var args []Val
		okArgs := true
		for _, prm := range step.Params {
			switch {
			case namedTypeName(prm.Type()) == "TracksReader":
				args = append(args, ex.newTopObject(st, trT, "t"))
			case prm.Type().String() == "time.Duration":
				args = append(args, last)
			default:
				if sv, ok := ex.zeroOf(prm.Type()).(*StructV); ok {
					if i := fieldIndex(sv.T, "absTime"); i >= 0 {
						sv.Fields[i] = abs
					}
					if i := fieldIndex(sv.T, "out"); i >= 0 {
						sv.Fields[i] = &IfaceV{Unk: true, NonNil: true}
					}
					if i := fieldIndex(sv.T, "data"); i >= 0 {
						sv.Fields[i] = ex.unknownSlice(st, types.Typ[types.Uint8], "data", 1)
					}
					args = append(args, sv)
				} else {
					okArgs = false
				}
			}
		}
		ok := okArgs
		why := "play step has an unexpected signature"
		nsend := 0
		if okArgs {
			for _, o := range ex.Call(st, step, args, nil) {
				if o.Panic {
					ok = false
					why = o.Msg
					continue
				}
				sleepIdx, sendIdx, sends := -1, -1, 0
				var sleepArg *IntV
				for i, e := range o.St.Events {
					if e.Kind == "call:time.Sleep" {
						sleepIdx = i
						if len(e.Args) == 1 {
							sleepArg, _ = e.Args[0].(*IntV)
						}
					}
					if e.Kind == "call:invoke Send" {
						sendIdx = i
						sends++
					}
				}
				nsend += sends
				sched := o.St.Arith(token.MUL, abs, mkConst(1000, 64, true), "")
				want := o.St.Arith(token.SUB, sched, last, "")
				switch {
				case sends != 1:
					ok = false
					why = fmt.Sprintf("the play step sends %d times", sends)
				case sleepIdx < 0 || sleepIdx > sendIdx:
					ok = false
					why = "Send is not preceded by a Sleep in the same call: a message can leave before its scheduled time"
				case sleepArg == nil || !o.St.sameInt(sleepArg, want):
					ok = false
					why = fmt.Sprintf("Sleep(%s) instead of Sleep(1us*absTime - last) = %s", valString(sleepArg), want)
				}
				if r, _ := o.Ret[0].(*IntV); r == nil || !o.St.sameInt(r, sched) {
					ok = false
					why = "the step does not return the scheduled time (1us*absTime) as the new 'last'"
				}
			}
		}
		c.Check(ok && nsend > 0, "C12.4", "sleep before send, schedule in microseconds", p.Pos(step.Pos()), "Sleep(1000*absTime - last) precedes the single Send; returns 1000*absTime", why)
		c.Check(ok && nsend > 0, "C12.2", "play step sends exactly once", p.Pos(step.Pos()), "one Send per call on every path", why)
	}
	// ---- C12.5 iteration order
	{
		var fnParam *ssa.Parameter
		for _, prm := range do.Params {
			if _, ok := prm.Type().Underlying().(*types.Signature); ok {
				fnParam = prm
			}
		}
		ok := fnParam != nil
		why := "Do has no callback parameter"
		if ok {
			n := 0
			for _, call := range calls(do) {
				if call.Common().Value != fnParam {
					continue
				}
				n++
				depth := 0
				for _, l := range naturalLoops(do) {
					if l.Body[call.Block()] {
						if w := classifyLoop(do, l, nil); w != "" {
							depth++
						}
					}
				}
				if depth < 2 {
					ok = false
					why = "the callback is not invoked inside two nested counted range loops (tracks, then events)"
				}
			}
			if n == 0 {
				ok = false
				why = "callback never invoked"
			}
			if len(sortCalls(do)) > 0 {
				ok = false
				why = "the iterator reorders events"
			}
		}
		c.Check(ok, "C12.5", "iterator visits tracks then events in file order", p.Pos(do.Pos()), "callback invoked in nested range loops, no sorting", why)
	}
	_ = playerT
}

// collectionSimulation (C12.2 / C12.3): the callback that MultiPlay hands to the track iterator is interpreted on one
// event of track 2 with concrete port maps. A channel message is queued exactly once, with the port of its track if
// the map has one, else with the port mapped to -1, else not at all; a meta event is never queued. The queued record
// carries the event's bytes and its time.
func collectionSimulation(c *Ctx, cb *ssa.Function) {
	p := c.P
	teT := cb.Signature.Params().At(0).Type()
	outI := p.namedType("drivers", "Out")
	type cell struct {
		name   string
		keys   []int64
		meta   bool
		want   int // index into keys of the expected port, -1 = not queued
		rule   string
		okText string
	}
	cells := []cell{
		{"track mapped, default mapped", []int64{2, -1}, false, 0, "C12.3", "the track's own port"},
		{"only the default (-1) mapped", []int64{-1}, false, 0, "C12.3", "the default port"},
		{"another track mapped, no default", []int64{5}, false, -1, "C12.3", "skipped"},
		{"meta event, track mapped", []int64{2, -1}, true, -1, "C12.2", "never queued"},
		{"channel message, track mapped", []int64{2}, false, 0, "C12.2", "queued exactly once"},
	}
	for _, cl := range cells {
		ex := NewExec(p)
		st := ex.NewState()
		var ports []Val
		for range cl.keys {
			id := ex.newObj(st, &TopV{}, nil)
			ports = append(ports, &IfaceV{Dyn: types.NewPointer(outI), V: &PtrV{Obj: id}})
		}
		k8 := func(v int64) Val { return mkConst(v, 8, false) }
		var msg *SliceV
		if cl.meta {
			msg = ex.mkBytes(st, "m", []Val{k8(0xFF), k8(0x51), k8(3), ex.byteSym("t0"), ex.byteSym("t1"), ex.byteSym("t2")}, false, 0)
		} else {
			msg = ex.mkBytes(st, "m", []Val{k8(0x92), dataTok(ex, st, "k"), dataTok(ex, st, "v")}, false, 0)
		}
		te := ex.zeroOf(teT).(*StructV)
		when := mkSym(ex.syms.Get("when", 64, true))
		te.Fields[fieldIndex(te.T, "TrackNo")] = mkConst(2, 64, true)
		te.Fields[fieldIndex(te.T, "AbsMicroSeconds")] = when
		if evs, ok := te.Fields[fieldIndex(te.T, "Event")].(*StructV); ok {
			evs.Fields[fieldIndex(evs.T, "Message")] = msg
		}
		// captured variables by type: the port map, the play list (pointer to a slice of records), the rest unknown
		var binds []Val
		var listCell *PtrV
		okB := true
		for _, fv := range cb.FreeVars {
			et := fv.Type()
			isPtr := false
			if pt, ok := et.(*types.Pointer); ok {
				et, isPtr = pt.Elem(), true
			}
			var v Val
			switch u := et.Underlying().(type) {
			case *types.Map:
				v = &MapV{Const: true, Keys: cl.keys, Vals: ports, ElemT: u.Elem()}
			case *types.Slice:
				if _, isS := u.Elem().Underlying().(*types.Struct); isS {
					v = &SliceV{Nil: true, Off: mkConst(0, 64, true), Len: mkConst(0, 64, true), Cap: mkConst(0, 64, true)}
				} else {
					v = ex.topArg(st, et, fv.Name())
				}
			default:
				v = ex.topArg(st, et, fv.Name())
			}
			if isPtr {
				id := ex.newObj(st, v, et)
				pv := &PtrV{Obj: id}
				if _, isSl := v.(*SliceV); isSl {
					listCell = pv
				}
				binds = append(binds, pv)
			} else {
				binds = append(binds, v)
			}
		}
		if listCell == nil {
			okB = false
		}
		key := "collection callback: " + cl.name
		if !okB {
			c.Unk(cl.rule, key, p.Pos(cb.Pos()), "the callback does not capture a play list (pointer to a slice of records)")
			continue
		}
		fr := &Frame{fn: cb, regs: map[ssa.Value]Val{}, visits: map[*ssa.BasicBlock]int{}, widened: map[*ssa.BasicBlock]bool{}, phiHist: map[*ssa.Phi]Val{}, kept: map[*ssa.Phi]keptInv{}}
		res := ex.callValue(fr, st, &FuncV{Fn: cb, Bindings: binds}, []Val{te}, nil, nil)
		ok, why := len(res) > 0, ""
		for _, r := range res {
			if r.panic {
				ok, why = false, "panic: "+r.msg
				continue
			}
			if pe := problemEvents(r.st.Events); len(pe) > 0 {
				ok, why = false, fmtEvents(pe)
				continue
			}
			lst, _ := r.st.heap[listCell.Obj].(*SliceV)
			recs, okR := ex.sliceElems(r.st, lst)
			if !okR {
				ok, why = false, "play list not tracked"
				continue
			}
			wantN := 1
			if cl.want < 0 {
				wantN = 0
			}
			if len(recs) != wantN {
				ok, why = false, fmt.Sprintf("%d record(s) queued, expected %d", len(recs), wantN)
				continue
			}
			if wantN == 0 {
				continue
			}
			rec, _ := recs[0].(*StructV)
			if rec == nil {
				ok, why = false, "queued record not tracked"
				continue
			}
			var gotOut *IfaceV
			var gotData *SliceV
			var gotTime *IntV
			if i := fieldIndex(rec.T, "out"); i >= 0 {
				gotOut, _ = rec.Fields[i].(*IfaceV)
			}
			if i := fieldIndex(rec.T, "data"); i >= 0 {
				gotData, _ = rec.Fields[i].(*SliceV)
			}
			if i := fieldIndex(rec.T, "absTime"); i >= 0 {
				gotTime, _ = rec.Fields[i].(*IntV)
			}
			wp := ports[cl.want].(*IfaceV).V.(*PtrV)
			if gp, _ := func() (*PtrV, bool) {
				if gotOut == nil || gotOut.Unk || gotOut.Nil {
					return nil, false
				}
				pv, ok := gotOut.V.(*PtrV)
				return pv, ok
			}(); gp == nil || gp.Obj != wp.Obj {
				ok, why = false, "the event is queued for a port other than "+cl.okText
			}
			if gotData == nil || gotData.Obj != msg.Obj {
				ok, why = false, "the queued bytes are not the event's message"
			}
			if gotTime == nil || !r.st.sameInt(gotTime, when) {
				ok, why = false, "the queued time is not the event's absolute time"
			}
		}
		c.Check(ok, cl.rule, key, p.Pos(cb.Pos()), cl.okText, why)
	}
}
