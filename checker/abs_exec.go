package main

// E-abs: path-partitioned abstract interpreter over go/ssa (DESIGN §3.4).
// Undecided branches split the trace partition; loops are unrolled while the budget
// lasts and then widened by havoc (phi nodes and heap become unknown).

import (
	"fmt"
	"go/constant"
	"go/token"
	"go/types"
	"os"
	"sort"
	"strings"
	"sync/atomic"
	"time"

	"golang.org/x/tools/go/ssa"
)

type Exec struct {
	effFree  map[*ssa.Function]int // effectFree memo: 1 yes, 2 no, 3 in progress
	P        *Program
	syms     *SymTab
	nextObj  int
	objType  map[int]types.Type
	constObj map[int]bool
	globals  map[*ssa.Global]int
	loops    map[*ssa.Function]map[*ssa.BasicBlock]*loopInfo

	MaxPaths int
	paths    int
	MaxDepth int
	Unroll   int
	Budget   bool // exceeded
	// external callbacks (func values with Ext set) are reported as events
	Unsupported  map[string]int
	noteWrapConv int
	// hook for call summaries supplied by a rule (return handled=true to override)
	CallHook func(ex *Exec, st *State, fr *Frame, call ssa.CallInstruction, callee *ssa.Function, args []Val) ([]callRes, bool)
	// inline policy: functions that must not be inlined (treated as unknown)
	NoInline   map[*ssa.Function]bool
	NoInlineFn func(*ssa.Function) bool // lazily decided variant of NoInline (maypanic.go)
	// PanicIsEvent: record panics as events and stop the path
	WatchEdges   map[edge]bool
	inInitGlobal bool
	MonoOf       map[*Sym]*FloatV // integer symbols that are conversions of a float value (keeps its normal form)
	LazyPtr      bool             // materialise unknown pointer fields on first load
	// WidenAtEntry: explore, at every loop entry, one generic iteration (heap forgotten, loop phis unknown) that
	// subsumes all iterations; concrete unrolling beyond Unroll visits is then simply cut. Keeps path counts linear.
	WidenAtEntry       bool
	texts              map[string]textMeaning // abs_text.go
	WriterContract     bool                   // unknown io.Writer: split each Write into (all accepted, nil) / (short, error)
	FmtModel           bool                   // abs_fmt.go: model what fmt/strconv/hex produce as texts
	StrictHeap         bool                   // give up (Budget) as soon as the whole heap would have to be forgotten
	MaxTime            time.Duration          // wall-clock limit per Exec (same effect as MaxInstrs)
	started            time.Time
	MaxInstrs          int    // interpreted instructions per Exec before the run is given up as undecided (Budget)
	MapModel           bool   // maps made by the analysed code with constant integer keys are tracked (update, lookup, range, len)
	SortModel          bool   // abs_sort.go: interpret sort.Sort/Stable/Slice/SliceStable on small slices
	ReaderFailSentinel string // the error a failing source returns (default: an error of its own); e.g. "io.ErrUnexpectedEOF"
	ReaderFrag         bool   // every Read of a modelled bytes.Reader delivers an arbitrary positive count (C09.4)
	ReaderMayFail      bool   // every Read of a modelled bytes.Reader may instead fail with a sticky non-EOF error (C10.6)
	Stats              struct{ Instrs, Calls, Forks, Widen, CopyLoops int }
}

type Frame struct {
	fn      *ssa.Function
	regs    map[ssa.Value]Val
	visits  map[*ssa.BasicBlock]int
	widened map[*ssa.BasicBlock]bool
	phiHist map[*ssa.Phi]Val     // value at the previous visit of the loop head
	kept    map[*ssa.Phi]keptInv // invariants kept at widening (checked inductively)
	wctx    map[*ssa.BasicBlock]*widenCtx
	generic map[*ssa.BasicBlock]bool
	capture map[*ssa.BasicBlock]*capCtx // abs_maploop.go: arrivals over a back edge are recorded instead of continued
	defers  []deferred
	depth   int
	stack   []*ssa.Function
}

type widenCtx struct{ failed map[*ssa.Phi]bool }

// keptInv: a loop invariant candidate frozen at widening time.
type keptInv struct {
	isBool bool
	b      bool
	lo, hi int64
	le     *IntV // relational candidate: the value stays <= le (a loop-invariant bound taken from the loop's guard)
}

func (st *State) freeze(v Val) keptInv {
	switch x := v.(type) {
	case *BoolV:
		b, _ := st.boolOf(x)
		return keptInv{isBool: true, b: b}
	case *IntV:
		l, h := st.Range(x)
		return keptInv{lo: l, hi: h}
	}
	return keptInv{}
}

func (st *State) subsumedBy(v Val, k keptInv) bool {
	switch x := v.(type) {
	case *BoolV:
		b, known := st.boolOf(x)
		return k.isBool && known && b == k.b
	case *IntV:
		if k.isBool {
			return false
		}
		l, h := st.Range(x)
		if l >= k.lo && h <= k.hi {
			return true
		}
		ge, k1 := st.Decide(">=", x, mkConst(k.lo, x.W, x.Signed))
		le, k2 := st.Decide("<=", x, mkConst(k.hi, x.W, x.Signed))
		return k1 && k2 && ge && le
	}
	return false
}

type deferred struct {
	fn   Val
	args []Val
	call *ssa.Defer
}

type Outcome struct {
	St    *State
	Start int // object counter when the (top-level) call began: objects with larger ids were allocated by the call
	Ret   []Val
	Panic bool
	Msg   string
	Pos   string
}

type callRes struct {
	st    *State
	ret   Val // single value or *TupleV
	panic bool
	msg   string
	pos   string
}

func NewExec(p *Program) *Exec {
	return &Exec{P: p, syms: NewSymTab(), objType: map[int]types.Type{}, constObj: map[int]bool{}, globals: map[*ssa.Global]int{},
		loops: map[*ssa.Function]map[*ssa.BasicBlock]*loopInfo{}, MaxPaths: 20000, MaxInstrs: 5000000, MaxTime: 120 * time.Second, MaxDepth: 24, Unroll: 40, Unsupported: map[string]int{}, NoInline: map[*ssa.Function]bool{}}
}

func (ex *Exec) NewState() *State {
	return &State{ex: ex, rng: map[*Sym][2]int64{}, kb: map[*Sym][2]uint64{}, heap: map[int]Val{}}
}

func (fr *Frame) clone() *Frame {
	n := &Frame{fn: fr.fn, regs: make(map[ssa.Value]Val, len(fr.regs)), visits: make(map[*ssa.BasicBlock]int, len(fr.visits)), widened: make(map[*ssa.BasicBlock]bool, len(fr.widened)), depth: fr.depth, stack: fr.stack,
		phiHist: make(map[*ssa.Phi]Val, len(fr.phiHist)), kept: make(map[*ssa.Phi]keptInv, len(fr.kept))}
	for k, v := range fr.phiHist {
		n.phiHist[k] = v
	}
	for k, v := range fr.kept {
		n.kept[k] = v
	}
	if fr.generic != nil {
		n.generic = make(map[*ssa.BasicBlock]bool, len(fr.generic))
		for k, v := range fr.generic {
			n.generic[k] = v
		}
	}
	if fr.capture != nil {
		n.capture = make(map[*ssa.BasicBlock]*capCtx, len(fr.capture))
		for k, v := range fr.capture {
			n.capture[k] = v
		}
	}
	if fr.wctx != nil {
		n.wctx = make(map[*ssa.BasicBlock]*widenCtx, len(fr.wctx))
		for k, v := range fr.wctx {
			n.wctx[k] = v
		}
	}
	for k, v := range fr.regs {
		n.regs[k] = v
	}
	for k, v := range fr.visits {
		n.visits[k] = v
	}
	for k, v := range fr.widened {
		n.widened[k] = v
	}
	n.defers = append([]deferred(nil), fr.defers...)
	return n
}

func (ex *Exec) loopHeads(fn *ssa.Function) map[*ssa.BasicBlock]*loopInfo {
	if m, ok := ex.loops[fn]; ok {
		return m
	}
	m := map[*ssa.BasicBlock]*loopInfo{}
	for _, l := range naturalLoops(fn) {
		m[l.Head] = l
	}
	ex.loops[fn] = m
	return m
}

// Call runs fn on args in state st and returns all outcomes (one per trace partition).
func (ex *Exec) Call(st *State, fn *ssa.Function, args []Val, parent *Frame) []Outcome {
	ex.Stats.Calls++
	fr := &Frame{fn: fn, regs: map[ssa.Value]Val{}, visits: map[*ssa.BasicBlock]int{}, widened: map[*ssa.BasicBlock]bool{}, phiHist: map[*ssa.Phi]Val{}, kept: map[*ssa.Phi]keptInv{}}
	if parent != nil {
		fr.depth = parent.depth + 1
		fr.stack = append(append([]*ssa.Function{}, parent.stack...), fn)
	} else {
		fr.stack = []*ssa.Function{fn}
		if !ex.inInitGlobal { // (the evaluation of a global's initialiser materialises objects in the caller's state)
			st = st.Clone() // a harness may run several calls from one prepared state: never refine it in place
		}
	}
	// a harness hands objects by pointer; a method declared with a value receiver gets a copy of the object
	if parent == nil && fn.Signature.Recv() != nil && len(args) > 0 {
		if _, isPtr := fn.Signature.Recv().Type().(*types.Pointer); !isPtr {
			if pv, ok := args[0].(*PtrV); ok && !pv.Unk && !pv.Nil && len(pv.Path) == 0 {
				if sv, ok := st.heap[pv.Obj].(*StructV); ok {
					args = append([]Val{cloneVal(sv)}, args[1:]...)
				}
			}
		}
	}
	for i, p := range fn.Params {
		if i < len(args) {
			fr.regs[p] = args[i]
		} else {
			fr.regs[p] = ex.topOf(st, p.Type(), "p:"+p.Name())
		}
	}
	if len(fn.Blocks) == 0 {
		return []Outcome{{St: st, Ret: nil}}
	}
	start := ex.nextObj
	outs := ex.enter(fr, st, fn.Blocks[0], nil)
	if parent == nil {
		for i := range outs {
			outs[i].Start = start
		}
	}
	return outs
}

func (ex *Exec) isGlobalObj(obj int) bool {
	for _, id := range ex.globals {
		if id == obj {
			return true
		}
	}
	return false
}

// allocatedSince: the object was allocated after the object counter stood at start and is not a package-level
// variable (those are materialised lazily, so their ids say nothing).
func (ex *Exec) allocatedSince(start, obj int) bool {
	if obj <= start {
		return false
	}
	for _, id := range ex.globals {
		if id == obj {
			return false
		}
	}
	return true
}

// freshSlice: the slice was allocated by the call that produced outcome o (it does not share storage with anything that
// existed before: a package-level template or scratch buffer, a buffer of the receiver, an argument).
func (ex *Exec) freshSlice(o Outcome, s *SliceV) bool {
	return s != nil && !s.Unk && (s.Nil || (len(s.Path) == 0 && ex.allocatedSince(o.Start, s.Obj)))
}

func (ex *Exec) enter(fr *Frame, st *State, b *ssa.BasicBlock, prev *ssa.BasicBlock) []Outcome {
	if ex.Budget {
		return nil
	}
	if prev != nil && ex.WatchEdges != nil && ex.WatchEdges[edge{prev, b}] {
		st.Events = append(st.Events, Event{Kind: "edge", Msg: fmt.Sprintf("%s:%d->%d", fr.fn.Name(), prev.Index, b.Index)})
	}
	isHead := ex.loopHeads(fr.fn)[b] != nil
	// incoming phi values (simultaneous assignment)
	var phis []*ssa.Phi
	var vals []Val
	if prev != nil {
		idx := -1
		for i, p := range b.Preds {
			if p == prev {
				idx = i
			}
		}
		for _, in := range b.Instrs {
			phi, ok := in.(*ssa.Phi)
			if !ok {
				break
			}
			phis = append(phis, phi)
			vals = append(vals, ex.eval(fr, st, phi.Edges[idx]))
		}
	}
	if isHead && prev != nil && fr.capture != nil {
		if cc := fr.capture[b]; cc != nil && ex.loopHeads(fr.fn)[b].Body[prev] {
			cc.arrivals = append(cc.arrivals, capArrival{st: st, vals: vals})
			return nil
		}
	}
	if isHead && prev != nil {
		if li := ex.loopHeads(fr.fn)[b]; !li.Body[prev] {
			if outs, ok := ex.copyLoop(fr, st, li, phis, vals); ok {
				return outs
			}
			if outs, ok := ex.sumLoop(fr, st, li, phis, vals); ok {
				return outs
			}
			if outs, ok := ex.mapLoop(fr, st, li, phis, vals, prev); ok {
				return outs
			}
		}
	}
	if isHead && prev != nil && ex.WidenAtEntry {
		li := ex.loopHeads(fr.fn)[b]
		if tb := shiftDownBound(li); tb > 0 {
			// a loop that shifts / divides a counter down to zero runs at most once per bit: it is unrolled completely
			// (no generic iteration, nothing forgotten); a path that would need more iterations does not exist
			if !li.Body[prev] {
				fr.visits[b] = 0
			} else {
				fr.visits[b]++
				if fr.visits[b] > tb+1 {
					return nil
				}
			}
			for i, phi := range phis {
				fr.regs[phi] = vals[i]
			}
			return ex.execFrom(fr, st, b, firstNonPhi(b), prev)
		}
		if !li.Body[prev] {
			// loop entry: generic iteration first, then the concrete prefix
			st2, fr2 := st.Clone(), fr.clone()
			if fr2.generic == nil {
				fr2.generic = map[*ssa.BasicBlock]bool{}
			}
			fr2.generic[b] = true
			ex.Stats.Widen++
			ex.havocLoop(fr2, st2, li)
			if fr2.kept == nil {
				fr2.kept = map[*ssa.Phi]keptInv{}
			}
			for i, phi := range phis {
				// monotone induction variables keep their starting bound as a candidate invariant
				// (checked to be inductive when the generic iteration comes back to the head)
				if iv, ok := vals[i].(*IntV); ok {
					if c0, ok := st.ConstOf(iv); ok {
						if k, ok := phiStep(phi, li); ok && k != 0 {
							r := st2.freshInt("ind:"+phi.Name(), iv.W, iv.Signed)
							lo, hi := typeRange(iv.W, iv.Signed)
							if k > 0 {
								lo, hi = c0, hi-k
							} else {
								lo, hi = lo-k, c0
							}
							st2.refineSym(r.T.Syms[0], lo, hi)
							fr2.regs[phi] = r
							ki := keptInv{lo: lo, hi: hi}
							// counting up by one under a guard "phi < B" (B fixed in the loop): phi <= B is a candidate
							// invariant (true at entry if init <= B; each increment happens under phi < B)
							if k == 1 {
								if bnd := ex.guardBound(fr2, st2, li, phi); bnd != nil {
									b64 := st2.Convert(bnd, 64, true)
									if le, kk := st.Decide("<=", st.Convert(iv, 64, true), b64); kk && le {
										if st2.Assume("<=", st2.Convert(r, 64, true), b64) {
											ki.le = b64
										}
									}
								}
							}
							fr2.kept[phi] = ki
							continue
						}
					}
				}
				fr2.regs[phi] = ex.topOf(st2, phi.Type(), "loop:"+phi.Name())
			}
			outs := ex.execFrom(fr2, st2, b, firstNonPhi(b), prev)
			fr.visits[b] = 0
			if fr.generic != nil {
				delete(fr.generic, b)
			}
			for i, phi := range phis {
				fr.regs[phi] = vals[i]
			}
			return append(outs, ex.execFrom(fr, st, b, firstNonPhi(b), prev)...)
		}
		// back edge
		if fr.generic[b] {
			for i, phi := range phis {
				if kv, ok := fr.kept[phi]; ok && !st.subsumedBy(vals[i], kv) {
					ex.unsupported("loop invariant of " + fr.fn.Name() + ":" + phi.Name() + " not inductive")
				} else if ok && kv.le != nil {
					iv, _ := vals[i].(*IntV)
					if iv == nil {
						ex.unsupported("relational loop invariant of " + fr.fn.Name() + ":" + phi.Name() + " not inductive")
					} else if le, k := st.Decide("<=", st.Convert(iv, 64, true), kv.le); !(k && le) {
						ex.unsupported("relational loop invariant of " + fr.fn.Name() + ":" + phi.Name() + " not inductive")
					}
				}
			}
			return nil
		}
		fr.visits[b]++
		if fr.visits[b] > ex.Unroll {
			return nil // subsumed by the generic iteration explored at loop entry
		}
		for i, phi := range phis {
			fr.regs[phi] = vals[i]
		}
		return ex.execFrom(fr, st, b, firstNonPhi(b), prev)
	}
	if isHead && prev != nil {
		if li := ex.loopHeads(fr.fn)[b]; li != nil && !li.Body[prev] {
			// a fresh entry of the loop (first, or again from an enclosing loop): unroll budget, widening state and the
			// kept invariants are per entry — "arrival at a widened head" below means arrival over a back edge
			fr.visits[b] = 0
			delete(fr.widened, b)
			for _, phi := range phis {
				delete(fr.phiHist, phi)
				delete(fr.kept, phi)
			}
		}
		fr.visits[b]++
		if fr.widened[b] {
			// second arrival at a widened head: the kept invariants must be inductive, then the path is subsumed
			for i, phi := range phis {
				if kv, ok := fr.kept[phi]; ok && !st.subsumedBy(vals[i], kv) {
					if wc := fr.wctx[b]; wc != nil {
						if os.Getenv("ABSDEBUG") != "" {
							fmt.Fprintf(os.Stderr, "widen fail %s: incoming %s kept %+v\n", phi.Name(), valString(vals[i]), kv)
						}
						wc.failed[phi] = true
					} else {
						ex.unsupported("widening invariant not inductive at " + fr.fn.Name() + ":" + phi.Name())
					}
				}
			}
			return nil
		}
		if fr.visits[b] > ex.Unroll {
			ex.Stats.Widen++
			forget := map[*ssa.Phi]bool{}
			forgetAll := map[*ssa.Phi]bool{}
			for {
				st2, fr2 := st.Clone(), fr.clone()
				wc := &widenCtx{failed: map[*ssa.Phi]bool{}}
				if fr2.wctx == nil {
					fr2.wctx = map[*ssa.BasicBlock]*widenCtx{}
				}
				fr2.wctx[b] = wc
				fr2.widened[b] = true
				ex.havocAll(st2, "loop widening in "+fr.fn.Name())
				for i, phi := range phis {
					if hv, ok := fr.phiHist[phi]; ok && !forget[phi] {
						if kv, ok := st2.widenVal(hv, vals[i]); ok {
							fr2.regs[phi] = kv
							fr2.kept[phi] = st2.freeze(kv)
							continue
						}
					}
					// second candidate for a counter (constant step): it never passes its starting side — everything from
					// the smaller of the two last values upwards (step > 0) / from the larger downwards (step < 0)
					if hv, ok := fr.phiHist[phi]; ok && forget[phi] && !forgetAll[phi] {
						if li := ex.loopHeads(fr.fn)[b]; li != nil {
							pi, okP := hv.(*IntV)
							ci, okC := vals[i].(*IntV)
							if k, okS := phiStep(phi, li); okS && k != 0 && okP && okC {
								pl, ph := st.Range(pi)
								cl, ch := st.Range(ci)
								lo, hi := typeRange(ci.W, ci.Signed)
								if k > 0 {
									lo, hi = min64(pl, cl), hi-k
								} else {
									lo, hi = lo-k, max64(ph, ch)
								}
								r := st2.freshInt("cnt:"+phi.Name(), ci.W, ci.Signed)
								st2.refineSym(r.T.Syms[0], lo, hi)
								fr2.regs[phi] = r
								fr2.kept[phi] = keptInv{lo: lo, hi: hi}
								continue
							}
						}
					}
					fr2.regs[phi] = ex.topOf(st2, phi.Type(), "widen:"+phi.Name())
				}
				outs := ex.execFrom(fr2, st2, b, firstNonPhi(b), prev)
				if len(wc.failed) == 0 {
					return outs
				}
				for phi := range wc.failed {
					if forget[phi] {
						forgetAll[phi] = true
					}
					forget[phi] = true
				}
			}
		}
		for i, phi := range phis {
			fr.phiHist[phi] = vals[i]
		}
	}
	for i, phi := range phis {
		fr.regs[phi] = vals[i]
	}
	return ex.execFrom(fr, st, b, firstNonPhi(b), prev)
}

// forkProfile (debugging, ABSDEBUG): where the partitions split.
var forkProfile map[string]int

// checkDeadline: wall-clock limit of the running check (set by runCheck; zero = none).
var checkDeadline time.Time

// timeBudgetHit: some abstract run of this check was cut off by a wall-clock limit. Whatever the rule that started the run
// made of it, the check as a whole is then undecided (Ctx.Finish) — a cut-off run must never read as "nothing found".
var timeBudgetHit atomic.Bool

func firstNonPhi(b *ssa.BasicBlock) int {
	for i, in := range b.Instrs {
		if _, ok := in.(*ssa.Phi); !ok {
			return i
		}
	}
	return len(b.Instrs)
}

func (ex *Exec) pos(in ssa.Instruction) string {
	p := in.Pos()
	if !p.IsValid() {
		// fall back to the enclosing function
		return ex.P.Pos(in.Parent().Pos())
	}
	return ex.P.Pos(p)
}

// eval an operand.
func (ex *Exec) eval(fr *Frame, st *State, v ssa.Value) Val {
	switch x := v.(type) {
	case *ssa.Const:
		return ex.constVal(x)
	case *ssa.Function:
		return &FuncV{Fn: x}
	case *ssa.Global:
		return &PtrV{Obj: ex.globalObj(st, x)}
	case *ssa.Builtin:
		return &FuncV{Ext: "builtin:" + x.Name()}
	}
	if r, ok := fr.regs[v]; ok {
		return r
	}
	// free variable or unset register
	r := ex.topOf(st, v.Type(), "reg:"+v.Name())
	fr.regs[v] = r
	return r
}

func (ex *Exec) constVal(c *ssa.Const) Val {
	t := c.Type()
	if c.Value == nil {
		return ex.zeroOf(t)
	}
	switch c.Value.Kind() {
	case constant.Int:
		if w, s, ok := intTypeInfo(t); ok {
			if n, exact := constant.Int64Val(c.Value); exact {
				return mkConst(n, w, s)
			}
			u, _ := constant.Uint64Val(c.Value)
			return mkConst(int64(u), w, s)
		}
		if b, ok := t.Underlying().(*types.Basic); ok && b.Info()&types.IsFloat != 0 {
			f, _ := constant.Float64Val(c.Value)
			return &FloatV{Known: true, F: f}
		}
	case constant.Bool:
		return &BoolV{Known: true, Val: constant.BoolVal(c.Value)}
	case constant.String:
		return &StrV{Known: true, S: constant.StringVal(c.Value)}
	case constant.Float:
		f, _ := constant.Float64Val(c.Value)
		return &FloatV{Known: true, F: f}
	}
	return &TopV{T: t}
}

func (ex *Exec) globalObj(st *State, g *ssa.Global) int {
	id, ok := ex.globals[g]
	if !ok {
		ex.nextObj++
		id = ex.nextObj
		ex.globals[g] = id
		ex.objType[id] = g.Type().(*types.Pointer).Elem()
	}
	if _, ok := st.heap[id]; !ok {
		if cv := ex.constGlobal(g); cv != nil {
			st.heap[id] = cv
			ex.constObj[id] = true
		} else if cv := ex.constTableGlobal(g); cv != nil {
			st.heap[id] = cv
			ex.constObj[id] = true
		} else if ex.sentinelErr(g) {
			name := g.Name()
			if g.Pkg != nil {
				name = g.Pkg.Pkg.Name() + "." + name
			}
			st.heap[id] = &IfaceV{Unk: true, NonNil: true, Sentinel: name}
			ex.constObj[id] = true
		} else if v, ok := ex.sliceLiteralGlobal(st, g); ok {
			st.heap[id] = v
			ex.constObj[id] = true
		} else if v, ok := ex.initGlobal(st, g); ok {
			st.heap[id] = v
			ex.constObj[id] = true
			// the value is never reassigned and (checked by initGlobal) its address never escapes: what it refers to
			// is constant as well (e.g. the backing array of a package-level message)
			var mark func(v Val, d int)
			mark = func(v Val, d int) {
				if d > 4 {
					return
				}
				switch x := v.(type) {
				case *SliceV:
					if !x.Nil && !x.Unk {
						ex.constObj[x.Obj] = true
						mark(st.heap[x.Obj], d+1)
					}
				case *PtrV:
					if !x.Nil && !x.Unk {
						ex.constObj[x.Obj] = true
						mark(st.heap[x.Obj], d+1)
					}
				case *StructV:
					for _, f := range x.Fields {
						mark(f, d+1)
					}
				case *ArrayV:
					for _, sg := range x.Segs {
						for _, e := range sg.Elems {
							mark(e, d+1)
						}
					}
				}
			}
			mark(v, 0)
		} else {
			st.heap[id] = ex.topOf(st, g.Type().(*types.Pointer).Elem(), "g:"+g.Name())
		}
	}
	return id
}

func (ex *Exec) unsupported(what string) {
	ex.Unsupported[what]++
}

// boolOf evaluates a BoolV in the state.
func (st *State) boolOf(b *BoolV) (val, known bool) {
	if b.Known {
		return b.Val, true
	}
	if v, ok := st.boolF[b]; ok {
		return v, true
	}
	if b.Op == "isnil" {
		if isNil, ok := st.nilF[b.X]; ok {
			return isNil, true
		}
		return false, false
	}
	if b.Not != nil {
		v, k := st.boolOf(b.Not)
		return !v, k
	}
	if b.Op != "" {
		if x, ok := b.X.(*IntV); ok {
			if y, ok := b.Y.(*IntV); ok {
				return st.Decide(b.Op, x, y)
			}
		}
	}
	return false, false
}

// assumeBool constrains b to want; false if contradictory.
func (st *State) assumeBool(b *BoolV, want bool) bool {
	if v, k := st.boolOf(b); k {
		return v == want
	}
	if b.Not != nil {
		return st.assumeBool(b.Not, !want)
	}
	if b.Op == "isnil" {
		if st.nilF == nil {
			st.nilF = map[Val]bool{}
		}
		st.nilF[b.X] = want
		return true
	}
	if b.Op == "" {
		if st.boolF == nil {
			st.boolF = map[*BoolV]bool{}
		}
		st.boolF[b] = want
		return true
	}
	if b.Op != "" {
		x, ok1 := b.X.(*IntV)
		y, ok2 := b.Y.(*IntV)
		if ok1 && ok2 {
			op := b.Op
			if !want {
				op = negOp(op)
			}
			return st.Assume(op, x, y)
		}
	}
	return true
}

func (ex *Exec) execFrom(fr *Frame, st *State, b *ssa.BasicBlock, idx int, prev *ssa.BasicBlock) []Outcome {
	for i := idx; i < len(b.Instrs); i++ {
		if ex.Budget {
			return nil
		}
		in := b.Instrs[i]
		ex.Stats.Instrs++
		if ex.Stats.Instrs&1023 == 0 && ex.MaxTime > 0 {
			now := time.Now()
			if ex.started.IsZero() {
				ex.started = now
			} else if now.Sub(ex.started) > ex.MaxTime {
				ex.Budget = true
				timeBudgetHit.Store(true)
				return nil
			}
			if !checkDeadline.IsZero() && now.After(checkDeadline) {
				// the whole check is over its time budget: every further run gives up at once (undecided), so that the
				// check ends with a verdict and evidence instead of running on
				ex.Budget = true
				timeBudgetHit.Store(true)
				ex.unsupported("time budget of the check exceeded")
				return nil
			}
		}
		if ex.MaxInstrs > 0 && ex.Stats.Instrs > ex.MaxInstrs {
			// a run that does not converge is an undecided obligation, never a hanging check
			ex.Budget = true
			return nil
		}
		switch x := in.(type) {
		case *ssa.DebugRef:
		case *ssa.If:
			cv := ex.eval(fr, st, x.Cond)
			bv, _ := cv.(*BoolV)
			if bv == nil {
				bv = &BoolV{}
			}
			if v, known := st.boolOf(bv); known {
				if v {
					return ex.enter(fr, st, b.Succs[0], b)
				}
				return ex.enter(fr, st, b.Succs[1], b)
			}
			ex.Stats.Forks++
			if forkProfile != nil {
				forkProfile[ex.pos(x)+" "+condString(x.Cond)]++
			}
			ex.paths++
			if ex.paths > ex.MaxPaths {
				ex.Budget = true
				return nil
			}
			var out []Outcome
			st2, fr2 := st.Clone(), fr.clone()
			if st.assumeBool(bv, true) {
				st.note("%s: %s true", ex.pos(x), condString(x.Cond))
				out = append(out, ex.enter(fr, st, b.Succs[0], b)...)
			}
			if st2.assumeBool(bv, false) {
				st2.note("%s: %s false", ex.pos(x), condString(x.Cond))
				out = append(out, ex.enter(fr2, st2, b.Succs[1], b)...)
			}
			return out
		case *ssa.Jump:
			return ex.enter(fr, st, b.Succs[0], b)
		case *ssa.Return:
			var rets []Val
			for _, r := range x.Results {
				rets = append(rets, ex.eval(fr, st, r))
			}
			return []Outcome{{St: st, Ret: rets}}
		case *ssa.Panic:
			msg := valString(ex.eval(fr, st, x.X))
			return []Outcome{{St: st, Panic: true, Msg: "explicit panic: " + msg, Pos: ex.pos(x)}}
		case *ssa.RunDefers:
			// execute deferred calls in reverse order on this path
			states := []*State{st}
			for k := len(fr.defers) - 1; k >= 0; k-- {
				d := fr.defers[k]
				var next []*State
				for _, s := range states {
					for _, r := range ex.callValue(fr, s, d.fn, d.args, d.call, nil) {
						if !r.panic {
							next = append(next, r.st)
						}
					}
				}
				states = next
			}
			fr.defers = nil
			if len(states) == 0 {
				return nil
			}
			if len(states) > 1 {
				var out []Outcome
				for _, s := range states {
					out = append(out, ex.execFrom(fr.clone(), s, b, i+1, prev)...)
				}
				return out
			}
			st = states[0]
		case *ssa.Defer:
			var args []Val
			cc := x.Common()
			var fv Val
			if cc.IsInvoke() {
				fv = &FuncV{Unk: true}
			} else {
				fv = ex.eval(fr, st, cc.Value)
			}
			for _, a := range cc.Args {
				args = append(args, ex.eval(fr, st, a))
			}
			fr.defers = append(fr.defers, deferred{fn: fv, args: args, call: x})
		case *ssa.Go:
			st.Events = append(st.Events, Event{Kind: "go", Pos: ex.pos(x)})
		case *ssa.Call:
			res := ex.doCall(fr, st, x)
			if len(res) == 0 {
				return nil
			}
			if len(res) == 1 && !res[0].panic {
				st = res[0].st
				fr.regs[x] = res[0].ret
				continue
			}
			var out []Outcome
			for _, r := range res {
				if r.panic {
					out = append(out, Outcome{St: r.st, Panic: true, Msg: r.msg, Pos: r.pos})
					continue
				}
				f2 := fr.clone()
				f2.regs[x] = r.ret
				out = append(out, ex.execFrom(f2, r.st, b, i+1, prev)...)
			}
			return out
		default:
			if res := ex.textStep(fr, st, in); res != nil {
				// a text operation that splits on the sign of the rendered number
				v := in.(ssa.Value)
				var out []Outcome
				for _, r := range res {
					f2 := fr.clone()
					f2.regs[v] = r.ret
					out = append(out, ex.execFrom(f2, r.st, b, i+1, prev)...)
				}
				return out
			}
			outc, stop := ex.step(fr, st, in)
			if stop {
				return outc
			}
		}
	}
	return nil
}

// textStep: indexing / slicing of a decimal text (abs_text.go). s[0] splits on the sign: '-' for negative numbers, a
// digit otherwise; s[1:] of a negative number's text is the text of its magnitude.
func (ex *Exec) textStep(fr *Frame, st *State, in ssa.Instruction) []callRes {
	if ex.texts == nil {
		return nil
	}
	switch x := in.(type) {
	case *ssa.Index:
		s, _ := ex.eval(fr, st, x.X).(*StrV)
		m, ok := ex.textOfStr(st, s)
		if !ok || m.dec == nil {
			return nil
		}
		idx, _ := ex.eval(fr, st, x.Index).(*IntV)
		if idx == nil {
			return nil
		}
		if c, okc := st.ConstOf(idx); !okc || c != 0 {
			return nil
		}
		v64 := st.Convert(m.dec, 64, true)
		var out []callRes
		neg := st.Clone()
		if neg.Assume("<", v64, mkConst(0, 64, true)) {
			out = append(out, callRes{st: neg, ret: mkConst('-', 8, false)})
		}
		pos := st.Clone()
		if pos.Assume(">=", v64, mkConst(0, 64, true)) {
			d := pos.freshInt("digit", 8, false)
			pos.refineSym(d.T.Syms[0], '0', '9')
			out = append(out, callRes{st: pos, ret: d})
		}
		return out
	case *ssa.Slice:
		s, _ := ex.eval(fr, st, x.X).(*StrV)
		m, ok := ex.textOfStr(st, s)
		if !ok || m.dec == nil || x.Low == nil || x.High != nil {
			return nil
		}
		lo, _ := ex.eval(fr, st, x.Low).(*IntV)
		if lo == nil {
			return nil
		}
		if c, okc := st.ConstOf(lo); !okc || c != 1 {
			return nil
		}
		v64 := st.Convert(m.dec, 64, true)
		if isNeg, k := st.Decide("<", v64, mkConst(0, 64, true)); k && isNeg {
			mag := st.Arith(token.SUB, mkConst(0, 64, true), v64, "")
			return []callRes{{st: st, ret: &StrV{Text: &textMeaning{dec: mag}}}}
		}
		return nil
	}
	return nil
}

func condString(v ssa.Value) string {
	if b, ok := v.(*ssa.BinOp); ok {
		return fmt.Sprintf("%s %s %s", b.X.Name(), b.Op, b.Y.Name())
	}
	return v.Name()
}

// step executes a non-control instruction. Returns (outcomes, stop=true) when the path ends here (panic).
func (ex *Exec) step(fr *Frame, st *State, in ssa.Instruction) ([]Outcome, bool) {
	panicOut := func(msg string) ([]Outcome, bool) {
		return []Outcome{{St: st, Panic: true, Msg: msg, Pos: ex.pos(in)}}, true
	}
	switch x := in.(type) {
	case *ssa.Alloc:
		t := x.Type().(*types.Pointer).Elem()
		id := ex.newObj(st, ex.zeroOf(t), t)
		fr.regs[x] = &PtrV{Obj: id}
	case *ssa.BinOp:
		fr.regs[x] = ex.binop(fr, st, x)
	case *ssa.UnOp:
		switch x.Op {
		case token.MUL:
			p := ex.eval(fr, st, x.X)
			v, why := ex.load(st, p, x.Type())
			if why != "" {
				return panicOut(why)
			}
			fr.regs[x] = v
		case token.NOT:
			b, _ := ex.eval(fr, st, x.X).(*BoolV)
			if b == nil {
				b = &BoolV{}
			}
			if v, k := st.boolOf(b); k {
				fr.regs[x] = &BoolV{Known: true, Val: !v}
			} else {
				fr.regs[x] = &BoolV{Not: b}
			}
		case token.SUB:
			switch v := ex.eval(fr, st, x.X).(type) {
			case *IntV:
				fr.regs[x] = st.Neg(v, ex.pos(x))
			case *FloatV:
				if v.Known {
					fr.regs[x] = &FloatV{Known: true, F: -v.F}
				} else {
					fr.regs[x] = &FloatV{}
				}
			default:
				fr.regs[x] = ex.topOf(st, x.Type(), "neg")
			}
		case token.XOR:
			if v, ok := ex.eval(fr, st, x.X).(*IntV); ok {
				fr.regs[x] = st.Compl(v)
			} else {
				fr.regs[x] = ex.topOf(st, x.Type(), "compl")
			}
		case token.ARROW:
			fr.regs[x] = ex.topOf(st, x.Type(), "recv")
		default:
			fr.regs[x] = ex.topOf(st, x.Type(), "unop")
		}
	case *ssa.ChangeType:
		fr.regs[x] = ex.eval(fr, st, x.X)
	case *ssa.Convert:
		fr.regs[x] = ex.convert(fr, st, x)
	case *ssa.MultiConvert:
		fr.regs[x] = ex.topOf(st, x.Type(), "multiconvert")
	case *ssa.ChangeInterface:
		fr.regs[x] = ex.eval(fr, st, x.X)
	case *ssa.MakeInterface:
		fr.regs[x] = &IfaceV{Dyn: x.X.Type(), V: ex.eval(fr, st, x.X)}
	case *ssa.MakeClosure:
		fv := &FuncV{Fn: x.Fn.(*ssa.Function)}
		for _, b := range x.Bindings {
			fv.Bindings = append(fv.Bindings, ex.eval(fr, st, b))
		}
		fr.regs[x] = fv
	case *ssa.MakeSlice:
		ln, _ := ex.eval(fr, st, x.Len).(*IntV)
		if ln == nil {
			ln = mkSym(ex.syms.Fresh("makelen", 64, true))
		}
		ln = st.Convert(ln, 64, true)
		lo, _ := st.Range(ln)
		if lo < 0 {
			st.Events = append(st.Events, Event{Kind: "makeslice-neg", Pos: ex.pos(x), Msg: "make with a possibly negative length"})
		}
		elem := x.Type().Underlying().(*types.Slice).Elem()
		st.Events = append(st.Events, Event{Kind: "alloc", Pos: ex.pos(x), Args: []Val{ln}})
		var arr *ArrayV
		if c, ok := st.ConstOf(ln); ok && c >= 0 && c <= 4096 {
			es := make([]Val, c)
			for i := range es {
				es[i] = ex.zeroOf(elem)
			}
			arr = &ArrayV{Elem: elem, Segs: []Seg{{Elems: es}}}
		} else {
			arr = &ArrayV{Elem: elem, Segs: []Seg{{Run: &Run{Src: "0", Off: constTerm(0), Len: st.TermOf(ln), Elem: ex.zeroOf(elem)}}}}
		}
		arr.Segs = normSegs(arr.Segs)
		id := ex.newObj(st, arr, nil)
		fr.regs[x] = &SliceV{Obj: id, Off: mkConst(0, 64, true), Len: ln, Cap: ln}
	case *ssa.MakeMap:
		mt := x.Type().Underlying().(*types.Map)
		if _, _, intKey := intTypeInfo(mt.Key()); ex.MapModel && intKey {
			// a map made by the analysed code, with integer keys: tracked while all its updates use constant keys
			id := ex.newObj(st, &MapV{ElemT: mt.Elem(), Dyn: true}, nil)
			fr.regs[x] = &MapV{ElemT: mt.Elem(), Obj: id, Dyn: true}
			break
		}
		id := ex.newObj(st, &MapV{Unk: true, ElemT: x.Type().Underlying().(*types.Map).Elem()}, nil)
		fr.regs[x] = &MapV{Unk: true, ElemT: x.Type().Underlying().(*types.Map).Elem(), Obj: id}
	case *ssa.MakeChan:
		fr.regs[x] = &TopV{T: x.Type()}
	case *ssa.MapUpdate:
		// unknown maps stay unknown
		if mv, ok := ex.eval(fr, st, x.Map).(*MapV); ok && mv.Dyn {
			if hm, ok := st.heap[mv.Obj].(*MapV); ok && hm.Dyn && !hm.Unk {
				nm := &MapV{ElemT: hm.ElemT, Dyn: true, Keys: append([]int64{}, hm.Keys...), Vals: append([]Val{}, hm.Vals...)}
				ki, _ := ex.eval(fr, st, x.Key).(*IntV)
				kc, isK := int64(0), false
				if ki != nil {
					kc, isK = st.ConstOf(ki)
				}
				if !isK {
					nm.Unk = true
				} else {
					v := ex.eval(fr, st, x.Value)
					found := false
					for i, kk := range nm.Keys {
						if kk == kc {
							nm.Vals[i] = v
							found = true
						}
					}
					if !found {
						nm.Keys = append(nm.Keys, kc)
						nm.Vals = append(nm.Vals, v)
					}
				}
				st.heap[mv.Obj] = nm
			}
		}
	case *ssa.Send:
	case *ssa.Select:
		fr.regs[x] = ex.topOf(st, x.Type(), "select")
		ex.unsupported("select")
	case *ssa.Range:
		if mv, ok := ex.eval(fr, st, x.X).(*MapV); ok && mv.Dyn {
			if hm, ok := st.heap[mv.Obj].(*MapV); ok && hm.Dyn && !hm.Unk {
				// iteration over a tracked map: ascending key order (Go leaves the order unspecified; code whose result
				// depends on it is a determinism question, C03.5)
				idx := make([]int, len(hm.Keys))
				for i := range idx {
					idx[i] = i
				}
				sort.Slice(idx, func(a, b int) bool { return hm.Keys[idx[a]] < hm.Keys[idx[b]] })
				it := &MapIterV{}
				for _, i := range idx {
					it.Keys = append(it.Keys, hm.Keys[i])
					it.Vals = append(it.Vals, hm.Vals[i])
				}
				id := ex.newObj(st, it, nil)
				fr.regs[x] = &PtrV{Obj: id}
				break
			}
		}
		fr.regs[x] = &TopV{T: x.Type()}
	case *ssa.Next:
		if pv, ok := ex.eval(fr, st, x.Iter).(*PtrV); ok && !pv.Unk && !pv.Nil {
			if it, ok := st.heap[pv.Obj].(*MapIterV); ok {
				tt := x.Type().(*types.Tuple)
				if it.Pos >= len(it.Keys) {
					fr.regs[x] = &TupleV{Vs: []Val{&BoolV{Known: true, Val: false}, ex.zeroOf(tt.At(1).Type()), ex.zeroOf(tt.At(2).Type())}}
				} else {
					w, sg, _ := intTypeInfo(tt.At(1).Type())
					var kv Val = mkConst(it.Keys[it.Pos], w, sg)
					fr.regs[x] = &TupleV{Vs: []Val{&BoolV{Known: true, Val: true}, kv, it.Vals[it.Pos]}}
					st.heap[pv.Obj] = &MapIterV{Keys: it.Keys, Vals: it.Vals, Pos: it.Pos + 1}
				}
				break
			}
		}
		// iteration over map/string: unknown continuation
		tv := &TupleV{}
		tt := x.Type().(*types.Tuple)
		for i := 0; i < tt.Len(); i++ {
			tv.Vs = append(tv.Vs, ex.topOf(st, tt.At(i).Type(), "next"))
		}
		fr.regs[x] = tv
	case *ssa.Extract:
		t := ex.eval(fr, st, x.Tuple)
		if tv, ok := t.(*TupleV); ok && x.Index < len(tv.Vs) {
			fr.regs[x] = tv.Vs[x.Index]
		} else {
			fr.regs[x] = ex.topOf(st, x.Type(), "extract")
		}
	case *ssa.FieldAddr:
		p, _ := ex.eval(fr, st, x.X).(*PtrV)
		if p == nil || p.Unk {
			fr.regs[x] = &PtrV{Unk: true}
			if p != nil && p.Unk {
				st.Events = append(st.Events, Event{Kind: "nilderef?", Pos: ex.pos(x), Msg: "field address through a pointer that may be nil"})
			}
			break
		}
		if p.Nil {
			return panicOut("nil pointer dereference (field address)")
		}
		np := &PtrV{Obj: p.Obj, Path: append(append([]PathElem{}, p.Path...), PathElem{Field: x.Field})}
		fr.regs[x] = np
	case *ssa.Field:
		sv, _ := ex.eval(fr, st, x.X).(*StructV)
		if sv != nil && x.Field < len(sv.Fields) {
			fr.regs[x] = sv.Fields[x.Field]
		} else {
			fr.regs[x] = ex.topOf(st, x.Type(), "field")
		}
	case *ssa.IndexAddr:
		idx, _ := ex.eval(fr, st, x.Index).(*IntV)
		if idx == nil {
			idx = mkSym(ex.syms.Fresh("idx", 64, true))
		}
		idx = st.Convert(idx, 64, true)
		switch base := ex.eval(fr, st, x.X).(type) {
		case *SliceV:
			if base.Unk {
				fr.regs[x] = &PtrV{Unk: true}
				break
			}
			if why := ex.boundsCheck(st, idx, base.Len); why != "" {
				if why == "certain" {
					return panicOut(fmt.Sprintf("index out of range: index %s, length %s", idx, base.Len))
				}
				st.Events = append(st.Events, Event{Kind: "oob", Pos: ex.pos(x), Msg: fmt.Sprintf("index %s not shown to be < length %s", st.describe(idx), st.describe(base.Len)), Args: []Val{idx, base.Len}})
				// continue on the in-bounds assumption
				st.Assume(">=", idx, mkConst(0, 64, true))
				if !st.Assume("<", idx, base.Len) {
					return nil, true
				}
			}
			abs := st.Arith(token.ADD, base.Off, idx, ex.pos(x))
			fr.regs[x] = &PtrV{Obj: base.Obj, Path: append(append([]PathElem{}, base.Path...), PathElem{Index: abs, Field: -1})}
		case *PtrV: // pointer to array
			if base.Unk {
				fr.regs[x] = &PtrV{Unk: true}
				break
			}
			if base.Nil {
				return panicOut("nil pointer dereference (index)")
			}
			at := x.X.Type().Underlying().(*types.Pointer).Elem().Underlying().(*types.Array)
			if why := ex.boundsCheck(st, idx, mkConst(at.Len(), 64, true)); why != "" {
				if why == "certain" {
					return panicOut("index out of range (array)")
				}
				st.Events = append(st.Events, Event{Kind: "oob", Pos: ex.pos(x), Msg: fmt.Sprintf("index %s not shown to be < %d", st.describe(idx), at.Len()), Args: []Val{idx}})
				st.Assume(">=", idx, mkConst(0, 64, true))
				if !st.Assume("<", idx, mkConst(at.Len(), 64, true)) {
					return nil, true
				}
			}
			fr.regs[x] = &PtrV{Obj: base.Obj, Path: append(append([]PathElem{}, base.Path...), PathElem{Index: idx, Field: -1})}
		default:
			fr.regs[x] = &PtrV{Unk: true}
		}
	case *ssa.Index:
		idx, _ := ex.eval(fr, st, x.Index).(*IntV)
		switch base := ex.eval(fr, st, x.X).(type) {
		case *ArrayV:
			if idx != nil {
				if v, ok := ex.arrIndex(st, base, st.TermOf(st.Convert(idx, 64, true))); ok {
					fr.regs[x] = v
					break
				}
			}
			fr.regs[x] = ex.topOf(st, x.Type(), "index")
		case *StrV:
			fr.regs[x] = ex.topOf(st, x.Type(), "strindex")
			if idx != nil && base.Known {
				if c, ok := st.ConstOf(idx); ok && c >= 0 && int(c) < len(base.S) {
					fr.regs[x] = mkConst(int64(base.S[c]), 8, false)
				}
			}
		default:
			fr.regs[x] = ex.topOf(st, x.Type(), "index")
		}
	case *ssa.Lookup:
		fr.regs[x] = ex.lookup(fr, st, x)
	case *ssa.Slice:
		v, why := ex.sliceOp(fr, st, x)
		if why != "" {
			return panicOut(why)
		}
		fr.regs[x] = v
	case *ssa.SliceToArrayPointer:
		fr.regs[x] = &PtrV{Unk: true}
	case *ssa.Store:
		p := ex.eval(fr, st, x.Addr)
		v := ex.eval(fr, st, x.Val)
		if why := ex.store(st, p, v); why != "" {
			return panicOut(why)
		}
	case *ssa.TypeAssert:
		iv, _ := ex.eval(fr, st, x.X).(*IfaceV)
		res, maybePanic := ex.typeAssert(st, iv, x)
		if maybePanic != "" {
			if maybePanic == "certain" {
				return panicOut("type assertion fails: dynamic type is not " + x.AssertedType.String())
			}
			st.Events = append(st.Events, Event{Kind: "assert", Pos: ex.pos(x), Msg: "single-result type assertion to " + x.AssertedType.String() + " whose operand may hold another dynamic type"})
		}
		fr.regs[x] = res
	case *ssa.Phi:
		// handled in enter
	default:
		ex.unsupported(fmt.Sprintf("%T", in))
		if v, ok := in.(ssa.Value); ok {
			fr.regs[v] = ex.topOf(st, v.Type(), "unsupported")
		}
	}
	return nil, false
}

func (st *State) describe(v *IntV) string {
	lo, hi := st.Range(v)
	return fmt.Sprintf("%s in [%d,%d]", v.String(), lo, hi)
}

// boundsCheck: "" if 0 <= idx < n is implied; "certain" if certainly violated; "maybe" otherwise.
func (ex *Exec) boundsCheck(st *State, idx, n *IntV) string {
	ge0, k1 := st.Decide(">=", idx, mkConst(0, 64, true))
	lt, k2 := st.Decide("<", idx, n)
	if k1 && k2 && ge0 && lt {
		return ""
	}
	if (k1 && !ge0) || (k2 && !lt) {
		return "certain"
	}
	return "maybe"
}

func (ex *Exec) binop(fr *Frame, st *State, x *ssa.BinOp) Val {
	a, b := ex.eval(fr, st, x.X), ex.eval(fr, st, x.Y)
	switch x.Op {
	case token.EQL, token.NEQ, token.LSS, token.LEQ, token.GTR, token.GEQ:
		return ex.compare(st, x.Op, a, b)
	}
	ai, ok1 := a.(*IntV)
	bi, ok2 := b.(*IntV)
	if ok1 && ok2 {
		switch x.Op {
		case token.SHL, token.SHR:
			if k, ok := st.ConstOf(bi); ok && k >= 0 {
				if x.Op == token.SHR {
					return st.ShiftR(ai, int(k))
				}
				return st.ShiftL(ai, int(k))
			}
			// variable shift: unknown, but bounded for right shifts of non-negative values
			lo, hi := st.Range(ai)
			if x.Op == token.SHR && lo >= 0 {
				return st.derived(fmt.Sprintf("shr(%s,%s)", st.ident(ai), st.ident(bi)), ai.W, ai.Signed, 0, hi)
			}
			return st.freshInt("shift", ai.W, ai.Signed)
		}
		if ai.W != bi.W {
			bi = st.Convert(bi, ai.W, ai.Signed)
		}
		return st.Arith(x.Op, ai, bi, ex.pos(x))
	}
	// floats
	if af, ok := a.(*FloatV); ok {
		if bf, ok := b.(*FloatV); ok {
			return floatOp(x.Op, af, bf)
		}
	}
	// strings
	if as, ok := a.(*StrV); ok {
		if bs, ok := b.(*StrV); ok && x.Op == token.ADD {
			if as.Known && bs.Known {
				return &StrV{Known: true, S: as.S + bs.S}
			}
			if ex.FmtModel {
				s1, ok1 := ex.strSegs(st, as)
				s2, ok2 := ex.strSegs(st, bs)
				if ok1 && ok2 {
					return ex.strOfSegs(st, append(append([]Seg{}, s1...), s2...))
				}
			}
			return &StrV{}
		}
	}
	return ex.topOf(st, x.Type(), "binop")
}

func floatOp(op token.Token, a, b *FloatV) Val {
	if a.Known && b.Known {
		switch op {
		case token.ADD:
			return &FloatV{Known: true, F: a.F + b.F}
		case token.SUB:
			return &FloatV{Known: true, F: a.F - b.F}
		case token.MUL:
			return &FloatV{Known: true, F: a.F * b.F}
		case token.QUO:
			return &FloatV{Known: true, F: a.F / b.F}
		}
	}
	ea, eb := floatExpr(a), floatExpr(b)
	r := &FloatV{}
	if ea != "" && eb != "" {
		r.Expr = "(" + ea + op.String() + eb + ")"
	}
	ma, mb := a.mono(), b.mono()
	if ma != nil && mb != nil {
		switch op {
		case token.MUL:
			r.Mono = monoMul(ma, mb, 1)
		case token.QUO:
			r.Mono = monoMul(ma, mb, -1)
		}
	}
	return r
}

func floatExpr(f *FloatV) string {
	if f.Known {
		return fmt.Sprint(f.F)
	}
	return f.Expr
}

func (ex *Exec) compare(st *State, op token.Token, a, b Val) Val {
	switch x := a.(type) {
	case *IntV:
		if y, ok := b.(*IntV); ok {
			if x.W != y.W || x.Signed != y.Signed {
				y = st.Convert(y, x.W, x.Signed)
			}
			return st.Compare(op, x, y)
		}
	case *BoolV:
		if y, ok := b.(*BoolV); ok {
			xv, xk := st.boolOf(x)
			yv, yk := st.boolOf(y)
			if xk && yk {
				return &BoolV{Known: true, Val: (xv == yv) == (op == token.EQL)}
			}
			if yk {
				if (yv && op == token.EQL) || (!yv && op == token.NEQ) {
					return x
				}
				return &BoolV{Not: x}
			}
			if xk {
				if (xv && op == token.EQL) || (!xv && op == token.NEQ) {
					return y
				}
				return &BoolV{Not: y}
			}
		}
	case *PtrV:
		if y, ok := b.(*PtrV); ok {
			if (x.Nil && y.Unk) || (y.Nil && x.Unk) {
				o := x
				if x.Nil {
					o = y
				}
				return st.nilTest(o, op)
			}
			if !x.Unk && !y.Unk {
				eq := false
				if x.Nil || y.Nil {
					eq = x.Nil && y.Nil
				} else {
					eq = x.Obj == y.Obj && len(x.Path) == 0 && len(y.Path) == 0
					if x.Obj == y.Obj && (len(x.Path) > 0 || len(y.Path) > 0) {
						return &BoolV{}
					}
				}
				return &BoolV{Known: true, Val: eq == (op == token.EQL)}
			}
		}
	case *SliceV:
		if y, ok := b.(*SliceV); ok && (x.Nil || y.Nil) {
			other := y
			if y.Nil {
				other = x
			}
			if other.Nil {
				return &BoolV{Known: true, Val: op == token.EQL}
			}
			if !other.Unk {
				lo, _ := st.Range(other.Len)
				if lo > 0 || !other.MaybeNil {
					return &BoolV{Known: true, Val: op == token.NEQ}
				}
			}
			return st.nilTest(other, op)
		}
	case *IfaceV:
		if y, ok := b.(*IfaceV); ok {
			if y.Nil || x.Nil {
				o := x
				if x.Nil {
					o = y
				}
				if o.Nil {
					return &BoolV{Known: true, Val: op == token.EQL}
				}
				if !o.Unk || o.NonNil {
					return &BoolV{Known: true, Val: op == token.NEQ}
				}
				return st.nilTest(o, op)
			}
			// two package-level sentinel errors (each assigned once, from errors.New / fmt.Errorf): equal iff the same variable
			if x.Sentinel != "" && y.Sentinel != "" {
				return &BoolV{Known: true, Val: (x.Sentinel == y.Sentinel) == (op == token.EQL)}
			}
			return &BoolV{}
		}
	case *FuncV:
		if y, ok := b.(*FuncV); ok && (x.Nil || y.Nil) {
			o := x
			if x.Nil {
				o = y
			}
			if o.Nil {
				return &BoolV{Known: true, Val: op == token.EQL}
			}
			if !o.Unk {
				return &BoolV{Known: true, Val: op == token.NEQ}
			}
			return st.nilTest(o, op)
		}
	case *StrV:
		if y, ok := b.(*StrV); ok && (op == token.EQL || op == token.NEQ) && x.Known != y.Known {
			// tracked bytes against a literal
			k, t := x, y
			if y.Known {
				k, t = y, x
			}
			if t.Bytes != nil {
				if elems, ok := ex.sliceElems(st, t.Bytes); ok {
					if len(elems) != len(k.S) {
						return &BoolV{Known: true, Val: op == token.NEQ}
					}
					all := true
					for i, e := range elems {
						iv, _ := e.(*IntV)
						if iv == nil {
							all = false
							continue
						}
						v, kn := st.Decide("==", iv, mkConst(int64(k.S[i]), 8, false))
						if kn && !v {
							return &BoolV{Known: true, Val: op == token.NEQ}
						}
						if !kn {
							all = false
						}
					}
					if all {
						return &BoolV{Known: true, Val: op == token.EQL}
					}
				}
			}
			return &BoolV{}
		}
		if y, ok := b.(*StrV); ok && x.Known && y.Known {
			var r bool
			switch op {
			case token.EQL:
				r = x.S == y.S
			case token.NEQ:
				r = x.S != y.S
			case token.LSS:
				r = x.S < y.S
			case token.GTR:
				r = x.S > y.S
			case token.LEQ:
				r = x.S <= y.S
			case token.GEQ:
				r = x.S >= y.S
			}
			return &BoolV{Known: true, Val: r}
		}
	case *FloatV:
		if y, ok := b.(*FloatV); ok && x.Known && y.Known {
			var r bool
			switch op {
			case token.EQL:
				r = x.F == y.F
			case token.NEQ:
				r = x.F != y.F
			case token.LSS:
				r = x.F < y.F
			case token.GTR:
				r = x.F > y.F
			case token.LEQ:
				r = x.F <= y.F
			case token.GEQ:
				r = x.F >= y.F
			}
			return &BoolV{Known: true, Val: r}
		}
	case *ArrayV:
		// array equality (e.g. [2]uint8 compare)
		if y, ok := b.(*ArrayV); ok {
			eq, known := ex.arrayEq(st, x, y)
			if known {
				return &BoolV{Known: true, Val: eq == (op == token.EQL)}
			}
		}
	}
	return &BoolV{}
}

func (ex *Exec) arrayEq(st *State, a, b *ArrayV) (eq, known bool) {
	if len(a.Segs) != 1 || len(b.Segs) != 1 || a.Segs[0].Run != nil || b.Segs[0].Run != nil || len(a.Segs[0].Elems) != len(b.Segs[0].Elems) {
		return false, false
	}
	all := true
	for i := range a.Segs[0].Elems {
		x, ok1 := a.Segs[0].Elems[i].(*IntV)
		y, ok2 := b.Segs[0].Elems[i].(*IntV)
		if !ok1 || !ok2 {
			return false, false
		}
		v, k := st.Decide("==", x, y)
		if k && !v {
			return false, true
		}
		if !k {
			all = false
		}
	}
	if all {
		return true, true
	}
	return false, false
}

func (ex *Exec) convert(fr *Frame, st *State, x *ssa.Convert) Val {
	v := ex.eval(fr, st, x.X)
	to := x.Type()
	if w, s, ok := intTypeInfo(to); ok {
		switch iv := v.(type) {
		case *IntV:
			return st.Convert(iv, w, s)
		case *FloatV:
			if iv.Known {
				return mkConst(int64(iv.F), w, s)
			}
			r := mkSym(ex.syms.Fresh("f2i", w, s))
			if iv.Expr != "" {
				r = mkSym(ex.syms.Get("int("+iv.Expr+")", w, s))
			}
			if iv.Mono != nil {
				if ex.MonoOf == nil {
					ex.MonoOf = map[*Sym]*FloatV{}
				}
				ex.MonoOf[r.T.Syms[0]] = iv
			}
			return r
		}
		return ex.topOf(st, to, "conv")
	}
	if b, ok := to.Underlying().(*types.Basic); ok {
		if b.Info()&types.IsFloat != 0 {
			switch iv := v.(type) {
			case *IntV:
				if c, ok := st.ConstOf(iv); ok {
					return &FloatV{Known: true, F: float64(c)}
				}
				return &FloatV{Expr: "float(" + st.ident(iv) + ")", Mono: monoOfAtom(st.ident(iv))}
			case *FloatV:
				return iv
			}
			return &FloatV{}
		}
		if b.Info()&types.IsString != 0 {
			switch sv := v.(type) {
			case *SliceV: // string(bytes)
				segs, ok := ex.sliceSegs(st, sv)
				if ok {
					arr := &ArrayV{Elem: types.Typ[types.Uint8], Segs: segs}
					id := ex.newObj(st, arr, nil)
					return &StrV{Bytes: &SliceV{Obj: id, Off: mkConst(0, 64, true), Len: sv.Len, Cap: sv.Len}, Len: sv.Len}
				}
				return &StrV{}
			case *StrV:
				return sv
			case *IntV:
				return &StrV{}
			}
			return &StrV{}
		}
	}
	if sl, ok := to.Underlying().(*types.Slice); ok {
		if sv, ok := v.(*StrV); ok { // []byte(string)
			if sv.Known {
				es := make([]Val, len(sv.S))
				for i := range es {
					es[i] = mkConst(int64(sv.S[i]), 8, false)
				}
				id := ex.newObj(st, &ArrayV{Elem: sl.Elem(), Segs: normSegs([]Seg{{Elems: es}})}, nil)
				n := mkConst(int64(len(es)), 64, true)
				return &SliceV{Obj: id, Off: mkConst(0, 64, true), Len: n, Cap: n}
			}
			if sv.Bytes != nil {
				segs, ok := ex.sliceSegs(st, sv.Bytes)
				if ok {
					id := ex.newObj(st, &ArrayV{Elem: sl.Elem(), Segs: segs}, nil)
					return &SliceV{Obj: id, Off: mkConst(0, 64, true), Len: sv.Bytes.Len, Cap: sv.Bytes.Len}
				}
			}
			return ex.unknownSlice(st, sl.Elem(), "str2bytes", 0)
		}
	}
	return v
}

// nilTest builds the boolean "v == nil" (or != nil) for an unknown reference value, consulting
// and later refining identity-keyed nil facts of the state.
func (st *State) nilTest(v Val, op token.Token) *BoolV {
	b := &BoolV{Op: "isnil", X: v}
	if isNil, ok := st.nilF[v]; ok {
		b = &BoolV{Known: true, Val: isNil}
	}
	if op == token.NEQ {
		if b.Known {
			return &BoolV{Known: true, Val: !b.Val}
		}
		return &BoolV{Not: b}
	}
	return b
}

// phiStep: if every back-edge value of the loop phi is phi + k (or phi - k) for one constant k, return k.
func phiStep(phi *ssa.Phi, li *loopInfo) (int64, bool) {
	var step int64
	found := false
	for i, e := range phi.Edges {
		pred := phi.Block().Preds[i]
		if !li.Body[pred] {
			continue
		}
		bo, ok := e.(*ssa.BinOp)
		if !ok || bo.X != phi {
			return 0, false
		}
		k, ok := constInt(bo.Y)
		if !ok {
			return 0, false
		}
		switch bo.Op {
		case token.ADD:
		case token.SUB:
			k = -k
		default:
			return 0, false
		}
		if found && k != step {
			return 0, false
		}
		step, found = k, true
	}
	return step, found
}

// havocLoop forgets what a loop may write: if the loop body contains no calls, only the objects its Store
// instructions address (resolved in the state at loop entry); otherwise the whole heap.
func (ex *Exec) havocLoop(fr *Frame, st *State, li *loopInfo) {
	var roots []Val
	var reach []Val
	hasCall := false
	precise := true
	for b := range li.Body {
		for _, in := range b.Instrs {
			switch x := in.(type) {
			case *ssa.Call:
				if _, isB := x.Call.Value.(*ssa.Builtin); isB {
					continue
				}
				// a call inside the loop: earlier iterations may have changed whatever is reachable from its operands (and
				// the package-level variables); operands computed inside the loop are unknown here, so they must be scalars.
				// A read from a bytes.Reader changes only the reader's position and the destination buffer, not the
				// bytes it reads from.
				if cal := x.Call.StaticCallee(); cal != nil && ex.effectFree(cal, 0) {
					continue // writes nothing outside its own frame (e.g. a logging helper): earlier iterations changed nothing
				}
				var ops []ssa.Value
				ops = append(ops, x.Call.Value)
				ops = append(ops, x.Call.Args...)
				var vals []Val
				okOps := true
				for _, op := range ops {
					switch o := op.(type) {
					case *ssa.Const, *ssa.Function, *ssa.Builtin:
						continue
					case ssa.Instruction:
						if li.Body[o.Block()] {
							if !pointerFree(op.Type()) {
								okOps = false
							}
							continue
						}
					}
					vals = append(vals, ex.eval(fr, st, op))
				}
				if !okOps {
					precise = false
					continue
				}
				if name := callName(x); (x.Call.IsInvoke() && (x.Call.Method.Name() == "Read" || x.Call.Method.Name() == "ReadByte")) || strings.HasPrefix(name, "(*bytes.Reader).Read") {
					if iv, ok := vals[0].(*IfaceV); ok && !iv.Unk && iv.Dyn != nil && iv.Dyn.String() == "*bytes.Reader" {
						roots = append(roots, iv.V)
						roots = append(roots, vals[1:]...)
						continue
					}
					if pv, ok := vals[0].(*PtrV); ok && strings.HasPrefix(name, "(*bytes.Reader).Read") {
						roots = append(roots, pv)
						roots = append(roots, vals[1:]...)
						continue
					}
				}
				reach = append(reach, vals...)
				hasCall = true
			case *ssa.Go, *ssa.Defer, *ssa.Send, *ssa.MapUpdate:
				precise = false
			case *ssa.Store:
				base := x.Addr
				for {
					switch a := base.(type) {
					case *ssa.IndexAddr:
						base = a.X
						continue
					case *ssa.FieldAddr:
						base = a.X
						continue
					}
					break
				}
				if al, isAl := base.(*ssa.Alloc); isAl && li.Body[al.Block()] {
					break // an object created in the same iteration: nothing that existed at the loop head is written
				}
				v, ok := fr.regs[base]
				if !ok {
					precise = false
					break
				}
				switch pv := v.(type) {
				case *PtrV:
					if pv.Unk {
						precise = false
					}
				case *SliceV:
					if pv.Unk {
						precise = false
					}
				default:
					precise = false
				}
				roots = append(roots, v)
			}
		}
	}
	if !precise {
		ex.havocAll(st, "generic iteration of loop in "+fr.fn.Name())
		return
	}
	if hasCall {
		ex.havocReachable(st, "calls in the generic iteration of loop in "+fr.fn.Name(), reach)
	}
	// only the directly addressed objects (not what they point to: stores go to these objects themselves)
	st.note("havoc objects written by loop in %s", fr.fn.Name())
	for _, r := range roots {
		id := -1
		switch pv := r.(type) {
		case *PtrV:
			if !pv.Nil {
				id = pv.Obj
			}
		case *SliceV:
			if !pv.Nil {
				id = pv.Obj
			}
		}
		if id < 0 || ex.constObj[id] {
			continue
		}
		switch x := st.heap[id].(type) {
		case *ArrayV:
			src := ex.syms.Fresh("loopw", 8, false).Name
			st.heap[id] = &ArrayV{Elem: x.Elem, Segs: []Seg{{Run: &Run{Src: src, Off: constTerm(0), Len: arrLen(x)}}}}
		default:
			if t := ex.objType[id]; t != nil {
				st.heap[id] = ex.topOf(st, t, "loopw")
			} else {
				st.heap[id] = &TopV{}
			}
		}
	}
}

// copyLoop: summary of the element-wise copy idiom
//
//	for i := c0; i < n; i++ { dst[i] = src[i] }        (also: for i := range src { dst[i] = src[i] } / for i, v := range src { dst[i] = v })
//
// as copy(dst[c0:n], src[c0:n]). Applied only when the loop consists of exactly the head and one body block doing
// nothing else, dst/src/n are defined outside the loop, and c0 <= n <= len(dst), len(src) are decided in the state
// (otherwise the generic loop treatment applies and reports possible bounds violations as usual).
func (ex *Exec) copyLoop(fr *Frame, st *State, li *loopInfo, phis []*ssa.Phi, vals []Val) ([]Outcome, bool) {
	head := li.Head
	if len(li.Body) != 2 || len(phis) != 1 || len(head.Succs) != 2 {
		return nil, false
	}
	var body, exit *ssa.BasicBlock
	for bb := range li.Body {
		if bb != head {
			body = bb
		}
	}
	if head.Succs[0] != body || li.Body[head.Succs[1]] || len(body.Succs) != 1 || body.Succs[0] != head {
		return nil, false
	}
	exit = head.Succs[1]
	phi := phis[0]
	outside := func(v ssa.Value) bool {
		switch x := v.(type) {
		case *ssa.Const, *ssa.Parameter, *ssa.FreeVar, *ssa.Global:
			return true
		case ssa.Instruction:
			return !li.Body[x.Block()]
		}
		return false
	}
	// head: [inc = phi + 1] ; cmp = idx < n ; if cmp
	var idx ssa.Value = phi
	var inc *ssa.BinOp
	var cmp *ssa.BinOp
	for _, in := range head.Instrs[firstNonPhi(head):] {
		switch x := in.(type) {
		case *ssa.DebugRef:
		case *ssa.BinOp:
			if x.Op == token.ADD && x.X == ssa.Value(phi) {
				if k, ok := constInt(x.Y); ok && k == 1 && inc == nil {
					inc = x
					idx = x
					continue
				}
			}
			if x.Op == token.LSS && cmp == nil {
				cmp = x
				continue
			}
			return nil, false
		case *ssa.If:
			if cmp == nil || x.Cond != ssa.Value(cmp) {
				return nil, false
			}
		default:
			return nil, false
		}
	}
	if cmp == nil || cmp.X != idx || !outside(cmp.Y) {
		return nil, false
	}
	// body: &dst[idx], &src[idx], load, store, [inc], jump
	var dstA, srcA *ssa.IndexAddr
	var load *ssa.UnOp
	var store *ssa.Store
	for _, in := range body.Instrs {
		switch x := in.(type) {
		case *ssa.DebugRef, *ssa.Jump:
		case *ssa.IndexAddr:
			if x.Index != idx || !outside(x.X) {
				return nil, false
			}
			if dstA == nil && srcA == nil {
				// role decided below by use
			}
			if srcA == nil {
				srcA = x
			} else if dstA == nil {
				dstA = x
			} else {
				return nil, false
			}
		case *ssa.UnOp:
			if x.Op != token.MUL || load != nil {
				return nil, false
			}
			load = x
		case *ssa.Store:
			if store != nil {
				return nil, false
			}
			store = x
		case *ssa.BinOp:
			if inc != nil || x.Op != token.ADD || x.X != ssa.Value(phi) {
				return nil, false
			}
			if k, ok := constInt(x.Y); !ok || k != 1 {
				return nil, false
			}
			inc = x
		default:
			return nil, false
		}
	}
	if inc == nil || load == nil || store == nil || srcA == nil || dstA == nil || store.Val != ssa.Value(load) {
		return nil, false
	}
	if load.X == ssa.Value(dstA) && store.Addr == ssa.Value(srcA) {
		srcA, dstA = dstA, srcA
	}
	if load.X != ssa.Value(srcA) || store.Addr != ssa.Value(dstA) {
		return nil, false
	}
	// the back edge of the phi must be the increment
	okBack := false
	for i, e := range phi.Edges {
		if head.Preds[i] == body && e == ssa.Value(inc) {
			okBack = true
		}
	}
	if !okBack {
		return nil, false
	}
	// values
	c0, _ := vals[0].(*IntV)
	n, _ := ex.eval(fr, st, cmp.Y).(*IntV)
	dst, _ := ex.eval(fr, st, dstA.X).(*SliceV)
	src, _ := ex.eval(fr, st, srcA.X).(*SliceV)
	if c0 == nil || n == nil || dst == nil || src == nil || dst.Unk || src.Unk || dst.Nil || src.Nil {
		return nil, false
	}
	c0 = st.Convert(c0, 64, true)
	n = st.Convert(n, 64, true)
	first := c0
	if idx == ssa.Value(inc) { // range form: the first index is phi+1
		first = st.Arith(token.ADD, c0, mkConst(1, 64, true), "")
	}
	dec := func(op string, a, b *IntV) bool { v, k := st.Decide(op, a, b); return k && v }
	if !dec(">=", first, mkConst(0, 64, true)) || !dec("<=", first, n) || !dec("<=", n, dst.Len) || !dec("<=", n, src.Len) {
		return nil, false
	}
	cnt := st.Arith(token.SUB, n, first, "")
	d := &SliceV{Obj: dst.Obj, Path: dst.Path, Off: st.Arith(token.ADD, dst.Off, first, ""), Len: cnt, Cap: cnt}
	sv := &SliceV{Obj: src.Obj, Path: src.Path, Off: st.Arith(token.ADD, src.Off, first, ""), Len: cnt, Cap: cnt}
	ex.copyOp(st, []Val{d, sv}, nil)
	// leave the loop: phi / idx hold the final index values, the exit test is false
	if idx == ssa.Value(inc) {
		fr.regs[phi] = st.Arith(token.SUB, n, mkConst(1, 64, true), "")
		fr.regs[inc] = st.Convert(n, c0.W, c0.Signed)
	} else {
		fr.regs[phi] = n
	}
	if pv, ok := vals[0].(*IntV); ok {
		if iv, ok := fr.regs[phi].(*IntV); ok {
			fr.regs[phi] = st.Convert(iv, pv.W, pv.Signed)
		}
	}
	fr.regs[cmp] = &BoolV{Known: true, Val: false}
	ex.Stats.CopyLoops++
	return ex.enter(fr, st, exit, head), true
}

// guardBound: the loop-invariant value B of a guard "phi < B" that sits in the loop head (B a value defined outside
// the loop, or len/cap of one). nil when there is no such guard.
func (ex *Exec) guardBound(fr *Frame, st *State, li *loopInfo, phi *ssa.Phi) *IntV {
	outside := func(v ssa.Value) bool {
		switch x := v.(type) {
		case *ssa.Const, *ssa.Parameter, *ssa.FreeVar:
			return true
		case ssa.Instruction:
			return !li.Body[x.Block()]
		}
		return false
	}
	for _, in := range li.Head.Instrs {
		cmp, ok := in.(*ssa.BinOp)
		if !ok || cmp.Op != token.LSS || cmp.X != ssa.Value(phi) {
			continue
		}
		// the comparison must be the head's branch condition with the true edge staying in the loop
		iff, ok := li.Head.Instrs[len(li.Head.Instrs)-1].(*ssa.If)
		if !ok || iff.Cond != ssa.Value(cmp) || !li.Body[li.Head.Succs[0]] {
			continue
		}
		if outside(cmp.Y) {
			v, _ := ex.eval(fr, st, cmp.Y).(*IntV)
			return v
		}
		if call, ok := cmp.Y.(*ssa.Call); ok {
			if bi, ok := call.Call.Value.(*ssa.Builtin); ok && (bi.Name() == "len" || bi.Name() == "cap") && len(call.Call.Args) == 1 && outside(call.Call.Args[0]) {
				switch a := ex.eval(fr, st, call.Call.Args[0]).(type) {
				case *SliceV:
					if !a.Unk {
						if bi.Name() == "cap" {
							return a.Cap
						}
						return a.Len
					}
				case *StrV:
					if a.Len != nil {
						return a.Len
					}
				}
			}
		}
	}
	return nil
}

// sumLoop: summary of the accumulation idiom
//
//	for i := c0; i < n; i++ { acc += T(src[i]) }     (also the range forms)
//
// as acc = acc0 + sum of the elements src[c0:n]: known elements are added as terms, an opaque run contributes the
// derived symbol "sum(<run>)" (non-negative, at most 255 per byte). Applied only when the loop consists of exactly the
// head and one body block doing nothing else and c0 <= n <= len(src) is decided.
func (ex *Exec) sumLoop(fr *Frame, st *State, li *loopInfo, phis []*ssa.Phi, vals []Val) ([]Outcome, bool) {
	head := li.Head
	if len(li.Body) != 2 || len(phis) != 2 || len(head.Succs) != 2 {
		return nil, false
	}
	var body *ssa.BasicBlock
	for bb := range li.Body {
		if bb != head {
			body = bb
		}
	}
	if head.Succs[0] != body || li.Body[head.Succs[1]] || len(body.Succs) != 1 || body.Succs[0] != head {
		return nil, false
	}
	exit := head.Succs[1]
	outside := func(v ssa.Value) bool {
		switch x := v.(type) {
		case *ssa.Const, *ssa.Parameter, *ssa.FreeVar, *ssa.Global:
			return true
		case ssa.Instruction:
			return !li.Body[x.Block()]
		}
		return false
	}
	// which phi is the index (stepped by +1), which the accumulator
	var iphi, aphi *ssa.Phi
	var inc *ssa.BinOp
	var cmp *ssa.BinOp
	isInc := func(b *ssa.BinOp, phi *ssa.Phi) bool {
		if b.Op != token.ADD || b.X != ssa.Value(phi) {
			return false
		}
		k, ok := constInt(b.Y)
		return ok && k == 1
	}
	for _, in := range append(append([]ssa.Instruction{}, head.Instrs[firstNonPhi(head):]...), body.Instrs...) {
		if b, ok := in.(*ssa.BinOp); ok {
			for _, phi := range phis {
				if isInc(b, phi) && inc == nil {
					// the increment must be the phi's back edge
					for i, e := range phi.Edges {
						if head.Preds[i] == body && e == ssa.Value(b) {
							inc, iphi = b, phi
						}
					}
				}
			}
		}
	}
	if inc == nil {
		return nil, false
	}
	for _, phi := range phis {
		if phi != iphi {
			aphi = phi
		}
	}
	var idx ssa.Value = iphi
	if inc.Block() == head {
		idx = inc
	}
	// head: [inc] cmp if
	for _, in := range head.Instrs[firstNonPhi(head):] {
		switch x := in.(type) {
		case *ssa.DebugRef:
		case *ssa.BinOp:
			if x == inc {
				continue
			}
			if x.Op == token.LSS && cmp == nil {
				cmp = x
				continue
			}
			return nil, false
		case *ssa.If:
			if cmp == nil || x.Cond != ssa.Value(cmp) {
				return nil, false
			}
		case *ssa.Call:
			// len(v) of a value fixed in the loop, re-evaluated in the head
			if bi, ok := x.Call.Value.(*ssa.Builtin); !ok || bi.Name() != "len" || len(x.Call.Args) != 1 || !outside(x.Call.Args[0]) {
				return nil, false
			}
		default:
			return nil, false
		}
	}
	boundOK := cmp != nil && outside(cmp.Y)
	if cmp != nil && !boundOK {
		if call, ok := cmp.Y.(*ssa.Call); ok && call.Block() == head {
			if bi, ok := call.Call.Value.(*ssa.Builtin); ok && bi.Name() == "len" && len(call.Call.Args) == 1 && outside(call.Call.Args[0]) {
				boundOK = true
			}
		}
	}
	if cmp == nil || cmp.X != idx || !boundOK {
		return nil, false
	}
	// body: &src[idx]; load; [convert]; add = acc + conv; [inc]; jump
	var srcA *ssa.IndexAddr
	var load *ssa.UnOp
	var conv ssa.Value
	var add *ssa.BinOp
	for _, in := range body.Instrs {
		switch x := in.(type) {
		case *ssa.DebugRef, *ssa.Jump:
		case *ssa.IndexAddr:
			if srcA != nil || x.Index != idx || !outside(x.X) {
				return nil, false
			}
			srcA = x
		case *ssa.UnOp:
			if x.Op != token.MUL || load != nil || srcA == nil || x.X != ssa.Value(srcA) {
				return nil, false
			}
			load = x
			conv = x
		case *ssa.Convert:
			if load == nil || x.X != ssa.Value(load) {
				return nil, false
			}
			conv = x
		case *ssa.BinOp:
			if x == inc {
				continue
			}
			if x.Op != token.ADD || add != nil {
				return nil, false
			}
			add = x
		default:
			return nil, false
		}
	}
	if srcA == nil || load == nil || add == nil {
		return nil, false
	}
	if !((add.X == ssa.Value(aphi) && add.Y == conv) || (add.Y == ssa.Value(aphi) && add.X == conv)) {
		return nil, false
	}
	okBack := false
	for i, e := range aphi.Edges {
		if head.Preds[i] == body && e == ssa.Value(add) {
			okBack = true
		}
	}
	if !okBack {
		return nil, false
	}
	// values
	var c0, acc0 *IntV
	for i, phi := range phis {
		iv, _ := vals[i].(*IntV)
		if phi == iphi {
			c0 = iv
		} else {
			acc0 = iv
		}
	}
	var n *IntV
	if call, ok := cmp.Y.(*ssa.Call); ok && call.Block() == head {
		if lv, ok := ex.eval(fr, st, call.Call.Args[0]).(*SliceV); ok && !lv.Unk {
			n = lv.Len
			if lv.Nil {
				n = mkConst(0, 64, true)
			}
			fr.regs[call] = n
		}
	} else {
		n, _ = ex.eval(fr, st, cmp.Y).(*IntV)
	}
	src, _ := ex.eval(fr, st, srcA.X).(*SliceV)
	if c0 == nil || acc0 == nil || n == nil || src == nil || src.Unk || src.Nil {
		return nil, false
	}
	c64, n64 := st.Convert(c0, 64, true), st.Convert(n, 64, true)
	first := c64
	if idx == ssa.Value(inc) {
		first = st.Arith(token.ADD, c64, mkConst(1, 64, true), "")
	}
	dec := func(op string, a, b *IntV) bool { v, k := st.Decide(op, a, b); return k && v }
	if !dec(">=", first, mkConst(0, 64, true)) || !dec("<=", first, n64) || !dec("<=", n64, src.Len) {
		return nil, false
	}
	cnt := st.Arith(token.SUB, n64, first, "")
	sub := &SliceV{Obj: src.Obj, Path: src.Path, Off: st.Arith(token.ADD, src.Off, first, ""), Len: cnt, Cap: cnt}
	segs, okS := ex.sliceSegs(st, sub)
	if !okS {
		return nil, false
	}
	w, signed := acc0.W, acc0.Signed
	total := acc0
	for _, sg := range st.dropEmptyRuns(segs) {
		if sg.Run != nil {
			_, lh, okR := st.termRange(sg.Run.Len)
			if !okR || lh > 1<<22 {
				return nil, false
			}
			name := fmt.Sprintf("sum(%s@%s,%s)", sg.Run.Src, sg.Run.Off, sg.Run.Len)
			s := ex.syms.Get(name, 64, true)
			if s.DefTerm == nil {
				st.refineSym(s, 0, 255*lh)
			}
			total = st.Arith(token.ADD, total, st.Convert(mkSym(s), w, signed), ex.pos(add))
			continue
		}
		for _, e := range sg.Elems {
			ei, ok := e.(*IntV)
			if !ok {
				return nil, false
			}
			if cv, isC := conv.(*ssa.Convert); isC {
				tw, ts, okT := intTypeInfo(cv.Type())
				if !okT {
					return nil, false
				}
				ei = st.Convert(ei, tw, ts)
			}
			total = st.Arith(token.ADD, total, st.Convert(ei, w, signed), ex.pos(add))
		}
	}
	fr.regs[aphi] = total
	if idx == ssa.Value(inc) {
		fr.regs[iphi] = st.Convert(st.Arith(token.SUB, n64, mkConst(1, 64, true), ""), c0.W, c0.Signed)
		fr.regs[inc] = st.Convert(n64, c0.W, c0.Signed)
	} else {
		fr.regs[iphi] = st.Convert(n64, c0.W, c0.Signed)
	}
	fr.regs[cmp] = &BoolV{Known: true, Val: false}
	ex.Stats.CopyLoops++
	return ex.enter(fr, st, exit, head), true
}

// pointerFree: values of this type hold no reference into the heap.
func pointerFree(t types.Type) bool {
	switch u := t.Underlying().(type) {
	case *types.Basic:
		return u.Kind() != types.UnsafePointer
	case *types.Struct:
		for i := 0; i < u.NumFields(); i++ {
			if !pointerFree(u.Field(i).Type()) {
				return false
			}
		}
		return true
	case *types.Array:
		return pointerFree(u.Elem())
	case *types.Tuple:
		for i := 0; i < u.Len(); i++ {
			if !pointerFree(u.At(i).Type()) {
				return false
			}
		}
		return true
	}
	return false
}

// shiftDownBound: the loop leaves through "x > 0" / "x != 0" on a phi x whose only update in the loop is x >> k (k >= 1) or
// x / d (d >= 2): at most one iteration per bit of x. Returns that bound, 0 if the loop has another shape.
func shiftDownBound(li *loopInfo) int {
	for b := range li.Body {
		if len(b.Instrs) == 0 {
			continue
		}
		iff, ok := b.Instrs[len(b.Instrs)-1].(*ssa.If)
		if !ok {
			continue
		}
		exits := false
		for _, s := range b.Succs {
			if !li.Body[s] {
				exits = true
			}
		}
		cmp, ok := iff.Cond.(*ssa.BinOp)
		if !exits || !ok || (cmp.Op != token.GTR && cmp.Op != token.NEQ) {
			continue
		}
		phi, ok := cmp.X.(*ssa.Phi)
		if !ok || !li.Body[phi.Block()] {
			continue
		}
		if k, ok := constInt(cmp.Y); !ok || k != 0 {
			continue
		}
		w, signed, okT := intTypeInfo(phi.Type())
		if !okT || (signed && cmp.Op == token.NEQ) {
			continue
		}
		good := true
		for i, e := range phi.Edges {
			if !li.Body[phi.Block().Preds[i]] {
				continue
			}
			bo, ok := e.(*ssa.BinOp)
			if !ok || bo.X != ssa.Value(phi) {
				good = false
				break
			}
			d, ok := constInt(bo.Y)
			if !ok || !((bo.Op == token.SHR && d >= 1) || (bo.Op == token.QUO && d >= 2)) {
				good = false
				break
			}
		}
		if good {
			return w
		}
	}
	return 0
}

// effectFree: a module function that stores only into its own local allocations and calls only functions of the same
// kind, printf-style logger methods (treated as sinks, see invokeSummary) and a few pure formatting functions. Used to
// keep the generic iteration of a loop from forgetting the heap because of a logging call in its body.
func (ex *Exec) effectFree(fn *ssa.Function, depth int) bool {
	if fn == nil || fn.Blocks == nil || depth > 4 {
		return false
	}
	if ex.effFree == nil {
		ex.effFree = map[*ssa.Function]int{}
	}
	switch ex.effFree[fn] {
	case 1:
		return true
	case 2:
		return false
	case 3:
		return false // recursion
	}
	ex.effFree[fn] = 3
	ok := true
	localBase := func(v ssa.Value) bool {
		for i := 0; i < 8; i++ {
			switch a := v.(type) {
			case *ssa.IndexAddr:
				v = a.X
			case *ssa.FieldAddr:
				v = a.X
			case *ssa.Alloc:
				return true
			default:
				return false
			}
		}
		return false
	}
	for _, b := range fn.Blocks {
		for _, in := range b.Instrs {
			switch x := in.(type) {
			case *ssa.Store:
				if !localBase(x.Addr) {
					ok = false
				}
			case *ssa.MapUpdate, *ssa.Send, *ssa.Go, *ssa.Defer, *ssa.Select, *ssa.Panic:
				ok = false
			case *ssa.Call:
				cc := x.Common()
				if bi, isB := cc.Value.(*ssa.Builtin); isB {
					switch bi.Name() {
					case "len", "cap", "append", "min", "max":
					default:
						ok = false
					}
					continue
				}
				if cc.IsInvoke() {
					switch cc.Method.Name() {
					case "Printf", "String", "Error":
					default:
						ok = false
					}
					continue
				}
				cal := cc.StaticCallee()
				if cal == nil {
					ok = false
					continue
				}
				if cal.Blocks != nil && cal.Pkg != nil && strings.HasPrefix(cal.Pkg.Pkg.Path(), modPath) {
					if !ex.effectFree(cal, depth+1) {
						ok = false
					}
					continue
				}
				switch callNameOf(cal) {
				case "fmt.Sprintf", "fmt.Sprint", "fmt.Errorf", "fmt.Sprintln":
				default:
					ok = false
				}
			}
		}
	}
	if ok {
		ex.effFree[fn] = 1
	} else {
		ex.effFree[fn] = 2
	}
	return ok
}

func callNameOf(f *ssa.Function) string {
	if f.Pkg != nil && f.Signature.Recv() == nil {
		return f.Pkg.Pkg.Path() + "." + f.Name()
	}
	return f.String()
}
