package main

import (
	"fmt"
	"go/token"
	"go/types"

	"golang.org/x/tools/go/ssa"
)

func init() { register("C09", checkC09) }

// stdlib fill-or-fail primitives: result depends only on the remaining byte sequence
// of the source, not on how Read fragments it (for readers returning >=1 byte or an error).
var fillOrFail = map[string]string{
	"io.ReadFull":    "reads exactly len(buf) bytes or fails",
	"io.ReadAtLeast": "reads at least min bytes or fails",
	"io.CopyN":       "copies exactly n bytes or fails",
	"io.ReadAll":     "reads to EOF",
	"io.Copy":        "reads to EOF",
	"ioutil.ReadAll": "reads to EOF",
}

func calleeQual(c ssa.CallInstruction) string {
	f := c.Common().StaticCallee()
	if f == nil {
		return ""
	}
	if f.Pkg != nil {
		return f.Pkg.Pkg.Name() + "." + f.Name()
	}
	if o := f.Object(); o != nil && o.Pkg() != nil {
		return o.Pkg().Name() + "." + f.Name()
	}
	return f.Name()
}

// constLenOne: is buf a slice of constant length 1?
func sliceConstLen(v ssa.Value) (int64, bool) {
	switch x := v.(type) {
	case *ssa.MakeSlice:
		return constInt(x.Len)
	case *ssa.Slice:
		// slice of a fixed array with constant (or absent) bounds
		if pt, ok := x.X.Type().Underlying().(*types.Pointer); ok {
			if at, ok := pt.Elem().Underlying().(*types.Array); ok {
				lo, hi := int64(0), at.Len()
				if x.Low != nil {
					k, ok := constInt(x.Low)
					if !ok {
						return 0, false
					}
					lo = k
				}
				if x.High != nil {
					k, ok := constInt(x.High)
					if !ok {
						return 0, false
					}
					hi = k
				}
				return hi - lo, true
			}
		}
	case *ssa.Phi:
		var n int64 = -1
		for _, e := range x.Edges {
			m, ok := sliceConstLen(e)
			if !ok || (n >= 0 && m != n) {
				return 0, false
			}
			n = m
		}
		return n, n >= 0
	}
	return 0, false
}

// reachesCompare: does value v (through phis/converts) reach a comparison with a constant in its function?
func reachesCompare(v ssa.Value, depth int, seen map[ssa.Value]bool) []*ssa.BinOp {
	if depth > 6 || seen[v] {
		return nil
	}
	seen[v] = true
	var out []*ssa.BinOp
	refs := v.Referrers()
	if refs == nil {
		return nil
	}
	for _, in := range *refs {
		switch x := in.(type) {
		case *ssa.BinOp:
			switch x.Op {
			case token.EQL, token.NEQ, token.LSS, token.LEQ, token.GTR, token.GEQ:
				out = append(out, x)
			}
		case *ssa.Phi:
			out = append(out, reachesCompare(x, depth+1, seen)...)
		case *ssa.Convert:
			out = append(out, reachesCompare(x, depth+1, seen)...)
		}
	}
	return out
}

// readSite describes one dynamic Read on the source
type readSite struct {
	call   ssa.CallInstruction
	bufLen int64
	constL bool
	count  ssa.Value // Extract #0
	err    ssa.Value // Extract #1
}

func analyseReadSite(c ssa.CallInstruction) readSite {
	rs := readSite{call: c}
	args := c.Common().Args
	if len(args) == 1 {
		rs.bufLen, rs.constL = sliceConstLen(args[0])
	}
	if v := c.Value(); v != nil && v.Referrers() != nil {
		for _, u := range *v.Referrers() {
			if ex, ok := u.(*ssa.Extract); ok {
				if ex.Index == 0 {
					rs.count = ex
				} else {
					rs.err = ex
				}
			}
		}
	}
	return rs
}

// mismatchEdges: edges on which "count != requested" (short read) is known, derived from
// comparisons of count with a constant or with the requested length value.
func countMismatchEdges(count ssa.Value, fullConst int64, haveConst bool, reqLen ssa.Value) (mismatch []edge, match []edge) {
	for _, cmp := range reachesCompare(count, 0, map[ssa.Value]bool{}) {
		refs := cmp.Referrers()
		if refs == nil {
			continue
		}
		// which operand is the count side?
		other := cmp.Y
		flip := false
		if k, ok := constInt(cmp.X); ok {
			_ = k
			other = cmp.X
			flip = true
		}
		k, isConst := constInt(other)
		sameLen := false
		if !isConst && reqLen != nil && (other == reqLen) {
			sameLen = true
		}
		if !isConst && !sameLen {
			continue
		}
		for _, u := range *refs {
			iff, ok := u.(*ssa.If)
			if !ok {
				continue
			}
			te, fe := ifEdges(iff)
			op := cmp.Op
			if flip {
				switch op {
				case token.LSS:
					op = token.GTR
				case token.GTR:
					op = token.LSS
				case token.LEQ:
					op = token.GEQ
				case token.GEQ:
					op = token.LEQ
				}
			}
			full := fullConst
			if sameLen {
				// compare with requested length itself
				switch op {
				case token.EQL:
					match, mismatch = append(match, te), append(mismatch, fe)
				case token.NEQ, token.LSS:
					mismatch, match = append(mismatch, te), append(match, fe)
				case token.GEQ:
					match, mismatch = append(match, te), append(mismatch, fe)
				}
				continue
			}
			if !haveConst {
				continue
			}
			// count OP k, full known: the edge implies count<full (mismatch) or count>=full (match)?
			switch op {
			case token.EQL:
				if k == full {
					match, mismatch = append(match, te), append(mismatch, fe)
				} else if k < full {
					mismatch = append(mismatch, te)
				}
			case token.NEQ:
				if k == full {
					mismatch, match = append(mismatch, te), append(match, fe)
				} else if k < full {
					mismatch = append(mismatch, fe)
				}
			case token.LSS: // count < k
				if k <= full {
					mismatch = append(mismatch, te)
				}
				if k == full {
					match = append(match, fe)
				}
			case token.LEQ: // count <= k
				if k < full {
					mismatch = append(mismatch, te)
				}
				if k == full-1 {
					match = append(match, fe)
				}
			case token.GTR: // count > k ; false: count <= k
				if k < full {
					mismatch = append(mismatch, fe)
				}
				if k == full-1 {
					match = append(match, te)
				}
			case token.GEQ: // count >= k ; false: count < k
				if k <= full {
					mismatch = append(mismatch, fe)
				}
				if k == full {
					match = append(match, te)
				}
			}
		}
	}
	return
}

// errOnlyUnderMismatch: every use of the Read error that can make the enclosing function
// fail is control-dependent on a short count (C09.2).
func errOnlyUnderMismatch(fn *ssa.Function, errv ssa.Value, mismatch []edge) (bool, string) {
	if errv == nil || errv.Referrers() == nil || len(*errv.Referrers()) == 0 {
		return true, "error result not used (count decides)"
	}
	under := func(b *ssa.BasicBlock, inEdge *edge) bool {
		for _, m := range mismatch {
			if inEdge != nil && *inEdge == m {
				return true
			}
			if edgeDominates(fn, m, b) {
				return true
			}
		}
		return false
	}
	for _, u := range *errv.Referrers() {
		switch x := u.(type) {
		case *ssa.Phi:
			for i, e := range x.Edges {
				if e == errv {
					pe := edge{x.Block().Preds[i], x.Block()}
					if !under(pe.from, &pe) {
						return false, fmt.Sprintf("error flows on through φ in block %d from a path where the full count may have been delivered", x.Block().Index)
					}
				}
			}
		case *ssa.DebugRef:
		default:
			if !under(u.Block(), nil) {
				return false, fmt.Sprintf("error consulted (%T) without a dominating short-count test", u)
			}
		}
	}
	return true, "every use of the error is control-dependent on a short count"
}

func checkC09(c *Ctx) {
	c.Level = "proof"
	c.Explain = "C09 decided by a read-discipline argument: the SMF decoder may touch its source only through operations whose result is a function of the remaining byte sequence (stdlib fill-or-fail primitives, or one-byte reads whose count is checked), so the decoded value cannot depend on how Read fragments the data. Obligations: one per dynamic Read on the source, one per escape of the source value, one per data+EOF handling site."
	c.Trusted = []string{"io.ReadFull/io.ReadAtLeast/io.CopyN/io.ReadAll contracts", "go/ssa + VTA call graph", "field-based may-flow of the source value (flow.go)"}
	c.Rule("C09.1", "every dynamic io.Reader.Read on the SMF source (value-flow from ReadFrom's reader parameter) is a one-byte read whose count reaches a comparison separating 0 from 1, or the source is handed to a stdlib fill-or-fail primitive; a multi-byte Read issued once is a violation", 2)
	c.Rule("C09.2", "data+EOF: at every source read site the accompanying error may cause failure only under control dependence on a short count", 1)
	c.Rule("C09.3", "the source value escapes to nothing but the classified read sites, fill-or-fail primitives and Close (no type switch to ByteReader/Seeker, no bufio)", 1)
	readDiscipline(c, "C09.1", "C09.2", "C09.3")
	c.Rule("C09.4", "whole-file read simulation through a fragmenting source: with every Read delivering an arbitrary positive count (and the last data possibly together with io.EOF) ReadFrom returns the same two tracks, events and deltas as from memory", 1)
	runReadFromSim(c, "", "", "", "C09.4")
}

// readDiscipline: the E-io rules on the SMF source (shared by C09 and C05.3).
func readDiscipline(c *Ctx, r1, r2, r3 string) {
	p := c.P
	readFrom := p.Func("smf", "ReadFrom")
	readFile := p.Func("smf", "ReadFile")
	if readFrom == nil || readFile == nil {
		c.Unk(r1, "anchor smf.ReadFrom/ReadFile", "-", "anchor not resolved")
		return
	}
	scope := p.Reachable(readFrom, readFile)
	for _, f := range scope {
		c.Fn(FuncName(f))
	}
	seeds := []ssa.Value{readFrom.Params[0]}
	fl := NewFlow(p, scope, seeds...)

	nsites := 0
	for _, call := range fl.Invokes {
		name := call.Common().Method.Name()
		fn := call.Parent()
		key := FuncName(fn) + ":" + name
		switch name {
		case "Read":
			nsites++
			rs := analyseReadSite(call)
			if forwardingRead(fn, call) {
				c.OK(r1, "read-site "+FuncName(fn), p.Pos(call.Pos()), "forwarding wrapper: the caller's buffer is handed on and count and error are returned unchanged; how it is read is judged at the wrapper's callers (and by C09.4)")
				continue
			}
			if !rs.constL || rs.bufLen != 1 {
				c.Bad(r1, "read-site "+FuncName(fn), p.Pos(call.Pos()), fmt.Sprintf("raw Read on the SMF source into a buffer that is not of constant length 1 (constLen=%v len=%d): a short read is legal for io.Reader and is not retried, so the result depends on fragmentation and a truncated field is zero padded", rs.constL, rs.bufLen))
				continue
			}
			if rs.count == nil {
				c.Bad(r1, "read-site "+FuncName(fn), p.Pos(call.Pos()), "one-byte Read whose count is discarded")
				continue
			}
			mis, _ := countMismatchEdges(rs.count, 1, true, nil)
			if len(mis) == 0 {
				c.Bad(r1, "read-site "+FuncName(fn), p.Pos(call.Pos()), "one-byte Read whose count never reaches a comparison that separates 0 from 1")
				continue
			}
			c.OK(r1, "read-site "+FuncName(fn), p.Pos(call.Pos()), "one-byte buffer, count compared (short read => exit/error)")
			ok, why := errOnlyUnderMismatch(fn, rs.err, mis)
			c.Check(ok, r2, "read-site "+FuncName(fn), p.Pos(call.Pos()), why, why)
		case "Close":
			c.OK(r3, "invoke "+key, p.Pos(call.Pos()), "Close on the source is allowed")
		default:
			c.Bad(r3, "invoke "+key, p.Pos(call.Pos()), "method "+name+" invoked on the SMF source: behaviour would depend on the concrete reader")
		}
	}
	for _, call := range fl.Escapes {
		q := calleeQual(call)
		fn := call.Parent()
		if q == "io.LimitReader" {
			// a length-limited view of the source: reading it "to the end" yields AT MOST n bytes and reports a short
			// count as success, so only the fill-or-fail primitives may consume it
			nsites++
			if v := call.Value(); v != nil {
				fl2 := NewFlow(p, scope, v)
				for _, c2 := range fl2.Escapes {
					q2 := calleeQual(c2)
					switch q2 {
					case "io.ReadFull", "io.ReadAtLeast", "io.CopyN":
						c.OK(r1, "primitive "+q2+" on a limited view in "+FuncName(c2.Parent()), p.Pos(c2.Pos()), "fill-or-fail primitive")
					default:
						c.Bad(r1, "read of a limited view by "+q2+" in "+FuncName(c2.Parent()), p.Pos(c2.Pos()), "the source is read through io.LimitReader by "+q2+", which returns fewer bytes than declared without an error when the input ends early: a truncated payload is delivered as if it were complete")
					}
				}
				for _, c2 := range fl2.Invokes {
					c.Bad(r1, "read of a limited view in "+FuncName(c2.Parent()), p.Pos(c2.Pos()), "method "+c2.Common().Method.Name()+" invoked on a length-limited view of the source")
				}
			}
			continue
		}
		if why, ok := fillOrFail[q]; ok {
			nsites++
			c.OK(r1, "primitive "+q+" in "+FuncName(fn), p.Pos(call.Pos()), "fill-or-fail primitive: "+why)
			continue
		}
		if q == "" {
			if call.Common().IsInvoke() {
				q = "invoke " + call.Common().Method.Name()
			} else {
				q = "dynamic call"
			}
		}
		c.Bad(r3, "escape to "+q+" in "+FuncName(fn), p.Pos(call.Pos()), "the SMF source value is passed to a callee outside the module that is not a fill-or-fail primitive")
	}
	for _, ta := range fl.Asserts {
		tn := ta.AssertedType.String()
		okT := tn == "io.ReadCloser" || tn == "io.Closer"
		c.Check(okT, r3, "type-assert to "+tn+" in "+FuncName(ta.Parent()), p.Pos(ta.Pos()), "documented Closer assertion", "type assertion on the SMF source to "+tn+": decoding would depend on the concrete reader type")
	}
	c.OK(r3, "flow-summary", "-", fmt.Sprintf("source value flow computed: %d SSA values, %d struct fields carry it; every sink was classified above", len(fl.Vals), len(fl.Fields)))
	c.Extra["source_read_sites"] = nsites
	c.Extra["tainted_fields"] = len(fl.Fields)
}

// forwardingRead: fn is itself a Read([]byte) (int, error) method whose buffer parameter is handed to the inner Read
// unchanged and whose every return yields that call's count (an io.Reader wrapper: error bookkeeping, counting).
func forwardingRead(fn *ssa.Function, call ssa.CallInstruction) bool {
	sig := fn.Signature
	if fn.Name() != "Read" || sig.Recv() == nil || sig.Params().Len() != 1 || sig.Results().Len() != 2 {
		return false
	}
	if len(call.Common().Args) != 1 || len(fn.Params) != 2 || call.Common().Args[0] != ssa.Value(fn.Params[1]) {
		return false
	}
	cv := call.Value()
	if cv == nil {
		return false
	}
	for _, r := range allReturns(fn) {
		ex, ok := strip(retVal(r, 0)).(*ssa.Extract)
		if !ok || ex.Tuple != ssa.Value(cv) || ex.Index != 0 {
			return false
		}
	}
	return len(allReturns(fn)) > 0
}
