package main

import (
	"fmt"
	"go/types"

	"golang.org/x/tools/go/ssa"
)

func init() { register("C14", checkC14) }

// filterClosures: closures with signature func([]byte, int32) nested in implementations of drivers.In.Listen
// that call a captured function value (the user's callback).
func filterClosures(p *Program) []*ssa.Function {
	inI := p.IfaceType("drivers", "In")
	var out []*ssa.Function
	if inI == nil {
		return nil
	}
	for _, T := range p.Implementers(inI) {
		m := p.MethodOf(T, "Listen")
		if m == nil {
			continue
		}
		// the closure is made in Listen itself or in a helper of the same package that Listen calls (which gets the
		// callback and the configuration as arguments)
		var cands []*ssa.Function
		seenF := map[*ssa.Function]bool{}
		var collect func(f *ssa.Function, depth int)
		collect = func(f *ssa.Function, depth int) {
			if f == nil || seenF[f] || depth > 2 {
				return
			}
			seenF[f] = true
			cands = append(cands, f.AnonFuncs...)
			// a method value (x.handle) used as the function: the bound-method wrapper names the method
			for _, b := range f.Blocks {
				for _, in := range b.Instrs {
					if mc, ok := in.(*ssa.MakeClosure); ok {
						if w, ok := mc.Fn.(*ssa.Function); ok && w.Synthetic != "" && len(w.FreeVars) == 1 {
							for _, call := range calls(w) {
								if cal := call.Common().StaticCallee(); cal != nil && cal.Signature.Recv() != nil {
									cands = append(cands, cal)
								}
							}
						}
					}
				}
			}
			for _, call := range calls(f) {
				if cal := call.Common().StaticCallee(); cal != nil && cal.Pkg != nil && m.Pkg != nil && cal.Pkg == m.Pkg && cal.Signature.Recv() == nil {
					collect(cal, depth+1)
				}
			}
		}
		collect(m, 0)
		for _, af := range cands {
			sig := af.Signature
			if sig.Params().Len() != 2 || sig.Params().At(0).Type().String() != "[]byte" || sig.Params().At(1).Type().String() != "int32" {
				continue
			}
			callsCaptured := false
			if sig.Recv() != nil {
				// method: calls a function held in a field of its receiver
				for _, call := range calls(af) {
					v := call.Common().Value
					if l, ok := v.(*ssa.UnOp); ok {
						v = l.X
					}
					if fa, ok := v.(*ssa.FieldAddr); ok && len(af.Params) > 0 && rootParam(fa.X) == af.Params[0] {
						callsCaptured = true
					}
					if fl, ok := v.(*ssa.Field); ok && len(af.Params) > 0 && rootParam(fl.X) == af.Params[0] {
						callsCaptured = true
					}
				}
			}
			for _, call := range calls(af) {
				if l, ok := call.Common().Value.(*ssa.UnOp); ok {
					if _, isFV := l.X.(*ssa.FreeVar); isFV {
						callsCaptured = true
					}
				}
				if _, isFV := call.Common().Value.(*ssa.FreeVar); isFV {
					callsCaptured = true
				}
			}
			if callsCaptured {
				out = append(out, af)
			}
		}
	}
	return out
}

// rootParam: the parameter a chain of loads / field selections starts from (nil if it starts elsewhere).
func rootParam(v ssa.Value) *ssa.Parameter {
	for i := 0; i < 8; i++ {
		switch x := v.(type) {
		case *ssa.Parameter:
			return x
		case *ssa.UnOp:
			v = x.X
		case *ssa.FieldAddr:
			v = x.X
		case *ssa.Field:
			v = x.X
		default:
			return nil
		}
	}
	return nil
}

func checkC14(c *Ctx) {
	p := c.P
	c.Level = "other"
	c.Explain = "C14 decided at class level: (1) plumbing — ListenTo is interpreted abstractly with each of the 8 option combinations built from the exported option constructors; the ListenConfig handed to the port must carry exactly those options, buffer size and error handler, and the decoder constructor must copy them; (2) every driver's filter closure is interpreted over all 256 first bytes x 2 lengths x 8 option triples: it drops exactly (FE and not ActiveSense) or (F8 and not TimeCode) or (sysex and not SysEx), forwards everything else once with the very same message and time stamp, and has no side effects; both drivers therefore agree. The independence of the decoder state from the sysex option is decided under C06 (transition tables with the option on/off)."
	c.Trusted = []string{"go/ssa", "E-abs", "the decoder's class-level behaviour (C04/C06)"}
	c.Rule("C14.1", "plumbing: for each of the 8 option combinations the ListenConfig passed to the port has TimeCode/ActiveSense/SysEx exactly as chosen, the chosen buffer size and error handler; the decoder constructor copies sysex handling, buffer size and callbacks", 9)
	c.Rule("C14.2", "the filter is a pure projection: drops exactly its class, forwards once with unchanged message and time stamp, writes nothing", 2)
	c.Rule("C14.3", "the sysex option does not steer the decoder: with the option off as with it on, every (receiver state, input class) transition of the live decoder equals the receiver model — only sysex deliveries differ", 20)
	c.Rule("C14.4", "siblings agree: every driver's filter closure has the same decision table", 1)
	c.Rule("C14.5", "the conversion stage of ListenTo is option independent: whatever the captured options hold, every decoder output shape is handed to the listener exactly once with the wire bytes (filtering happens only in the driver's filter, per class)", 17)

	mp := p.Pkg("")
	listenTo := mp.Func("ListenTo")
	if listenTo == nil {
		c.Unk("C14.1", "midi.ListenTo", "-", "not found")
		return
	}
	c.Fn(FuncName(listenTo))
	optCtor := func(name string) *ssa.Function { return mp.Func(name) }
	for combo := 0; combo < 8; combo++ {
		tc, as, sx := combo&1 != 0, combo&2 != 0, combo&4 != 0
		ex := NewExec(p)
		st := ex.NewState()
		var opts []Val
		add := func(name string, args ...Val) bool {
			f := optCtor(name)
			if f == nil {
				c.Unk("C14.1", "option constructor "+name, "-", "not found")
				return false
			}
			r := ex.Call(st, f, args, nil)
			if len(r) != 1 || r[0].Panic {
				return false
			}
			st = r[0].St
			opts = append(opts, r[0].Ret[0])
			return true
		}
		okc := true
		if tc {
			okc = okc && add("UseTimeCode")
		}
		if as {
			okc = okc && add("UseActiveSense")
		}
		if sx {
			okc = okc && add("UseSysEx")
		}
		size := mkSym(ex.syms.Get("bufsize", 32, false))
		okc = okc && add("SysExBufferSize", size)
		okc = okc && add("HandleError", &FuncV{Ext: "errhandler"})
		if !okc {
			c.Unk("C14.1", fmt.Sprintf("options combo %d", combo), "-", "option constructors not interpretable")
			continue
		}
		optT := listenTo.Params[2].Type().Underlying().(*types.Slice).Elem()
		id := ex.newObj(st, &ArrayV{Elem: optT, Segs: []Seg{{Elems: opts}}}, nil)
		n := mkConst(int64(len(opts)), 64, true)
		optSlice := &SliceV{Obj: id, Off: mkConst(0, 64, true), Len: n, Cap: n}
		outs := ex.Call(st, listenTo, []Val{&IfaceV{Unk: true, NonNil: true}, &FuncV{Ext: "recv"}, optSlice}, nil)
		ok := len(outs) > 0
		why := ""
		nl := 0
		for _, o := range outs {
			if o.Panic {
				ok = false
				why = o.Msg
				continue
			}
			for _, e := range o.St.Events {
				if e.Kind != "call:invoke Listen" || len(e.Args) != 2 {
					continue
				}
				nl++
				conf, _ := e.Args[1].(*StructV)
				if conf == nil {
					ok = false
					why = "config not a struct"
					continue
				}
				get := func(n string) Val { return conf.Fields[fieldIndex(conf.T, n)] }
				chk := func(n string, want bool) {
					b, _ := get(n).(*BoolV)
					if v, k := o.St.boolOf(b); !k || v != want {
						ok = false
						why = fmt.Sprintf("options (timecode=%v activesense=%v sysex=%v): config.%s = %v", tc, as, sx, n, v)
					}
				}
				chk("TimeCode", tc)
				chk("ActiveSense", as)
				chk("SysEx", sx)
				if bs, _ := get("SysExBufferSize").(*IntV); bs == nil || !o.St.sameInt(bs, size) {
					ok = false
					why = "buffer size option not passed on"
				}
				if eh, _ := get("OnErr").(*FuncV); eh == nil || eh.Ext != "errhandler" {
					ok = false
					why = "error handler option not passed on"
				}
			}
		}
		c.Check(ok && nl > 0, "C14.1", fmt.Sprintf("ListenTo plumbing timecode=%v activesense=%v sysex=%v", tc, as, sx), p.Pos(listenTo.Pos()), "the port receives a config carrying exactly the chosen options", why)
	}
	// decoder constructor
	if nr := p.Func("drivers", "NewReader"); nr == nil {
		c.Unk("C14.1", "drivers.NewReader", "-", "not found")
	} else {
		c.Fn(FuncName(nr))
		ex := NewExec(p)
		st := ex.NewState()
		confT := p.namedType("drivers", "ListenConfig")
		conf := ex.zeroOf(confT).(*StructV)
		sx := &BoolV{}
		size := mkSym(ex.syms.Get("bufsize", 32, false))
		st.refineSym(size.T.Syms[0], 1, 1<<20)
		conf.Fields[fieldIndex(conf.T, "SysEx")] = sx
		conf.Fields[fieldIndex(conf.T, "SysExBufferSize")] = size
		conf.Fields[fieldIndex(conf.T, "OnErr")] = &FuncV{Ext: "errhandler"}
		ok := true
		why := ""
		for _, o := range ex.Call(st, nr, []Val{conf, &FuncV{Ext: "onMsg"}}, nil) {
			if o.Panic {
				ok = false
				why = o.Msg
				continue
			}
			rp, _ := o.Ret[0].(*PtrV)
			hs, _ := ex.getField(o.St, rp, "HandleSysex")
			bs, _ := ex.getField(o.St, rp, "SysExBufferSize")
			om, _ := ex.getField(o.St, rp, "OnMsg")
			oe, _ := ex.getField(o.St, rp, "OnErr")
			if hs != Val(sx) {
				ok = false
				why = "HandleSysex is not the config's SysEx flag"
			}
			if bi, _ := bs.(*IntV); bi == nil || !o.St.sameInt(bi, size) {
				ok = false
				why = "buffer size not copied"
			}
			if f, _ := om.(*FuncV); f == nil || f.Ext != "onMsg" {
				ok = false
				why = "message callback not stored"
			}
			if f, _ := oe.(*FuncV); f == nil || f.Ext != "errhandler" {
				ok = false
				why = "error callback not stored"
			}
		}
		c.Check(ok, "C14.1", "decoder constructor copies the config", p.Pos(nr.Pos()), "sysex handling, buffer size, callbacks copied from the config", why)
	}
	liveSimulation(c, "C14.3", "", "", true)
	retypingRule(c, "C14.5", "")
	c.Rule("C14.6", "nothing but the per-byte decoder and the per-class filter decides what is delivered: EachMessage applies the step to every byte of every chunk (no chunk-level shortcut that depends on an option), and each Listen configures the decoder from its own options (= C04.1, C17.4)", 8)
	initialAndChunking(c, "C14.6")
	c.include(checkC17, map[string]string{"C17.4": "C14.6"})
	c.Rule("C14.7", "the loopback port the options are observed through is a pipe (= C04.6): Send hands the caller's bytes and the elapsed virtual milliseconds to the decoder exactly once, whatever the options are — a Send that short-cuts an unwanted message must not disturb the clock of the following ones", 1)
	c.include(checkC04, map[string]string{"C04.6": "C14.7"})
	// ---- filter closures
	fcs := filterClosures(p)
	if len(fcs) < 2 {
		c.Bad("C14.2", "filter closures", "-", fmt.Sprintf("%d filter closures found in drivers.In implementations, expected one per driver (2)", len(fcs)))
	}
	confT := p.namedType("drivers", "ListenConfig")
	allAgree := true
	for _, fc := range fcs {
		c.Fn(FuncName(fc))
		// effect scan
		pure := true
		for _, b := range fc.Blocks {
			for _, in := range b.Instrs {
				if st, ok := in.(*ssa.Store); ok {
					if _, local := st.Addr.(*ssa.Alloc); !local {
						pure = false
					}
				}
			}
		}
		bad := ""
		cells := 0
		for combo := 0; combo < 8 && bad == ""; combo++ {
			tc, as, sx := combo&1 != 0, combo&2 != 0, combo&4 != 0
			for b0 := 0; b0 < 256 && bad == ""; b0++ {
				for _, ln := range []int{1, 3} {
					cells++
					ex := NewExec(p)
					st := ex.NewState()
					msg := mkCellMsg(ex, st, c08cell{ln, b0, -1})
					ms := mkSym(ex.syms.Get("ms", 32, true))
					var binds []Val
					for _, fv := range fc.FreeVars {
						et := fv.Type()
						isPtr := false
						if pt, ok := et.(*types.Pointer); ok {
							et = pt.Elem()
							isPtr = true
						}
						var v Val
						switch {
						case types.Identical(et, confT):
							cv := ex.zeroOf(confT).(*StructV)
							cv.Fields[fieldIndex(cv.T, "TimeCode")] = &BoolV{Known: true, Val: tc}
							cv.Fields[fieldIndex(cv.T, "ActiveSense")] = &BoolV{Known: true, Val: as}
							cv.Fields[fieldIndex(cv.T, "SysEx")] = &BoolV{Known: true, Val: sx}
							v = cv
						default:
							if _, isSig := et.Underlying().(*types.Signature); isSig {
								v = &FuncV{Ext: "onMsg"}
							} else {
								v = ex.topArg(st, et, fv.Name())
							}
						}
						if isPtr {
							id := ex.newObj(st, v, et)
							binds = append(binds, &PtrV{Obj: id})
						} else {
							binds = append(binds, v)
						}
					}
					callArgs := []Val{msg, ms}
					if fc.Signature.Recv() != nil {
						// a method: its receiver carries what a closure would capture — configuration and callback, by type
						rt := fc.Signature.Recv().Type()
						isPtr := false
						if pt, ok := rt.(*types.Pointer); ok {
							rt, isPtr = pt.Elem(), true
						}
						rv, _ := ex.zeroOf(rt).(*StructV)
						if rv == nil {
							bad = "receiver of the filter method is not a struct"
							break
						}
						for i := 0; i < rv.T.NumFields(); i++ {
							ft := rv.T.Field(i).Type()
							switch {
							case types.Identical(ft, confT):
								cv := ex.zeroOf(confT).(*StructV)
								cv.Fields[fieldIndex(cv.T, "TimeCode")] = &BoolV{Known: true, Val: tc}
								cv.Fields[fieldIndex(cv.T, "ActiveSense")] = &BoolV{Known: true, Val: as}
								cv.Fields[fieldIndex(cv.T, "SysEx")] = &BoolV{Known: true, Val: sx}
								rv.Fields[i] = cv
							default:
								if _, isSig := ft.Underlying().(*types.Signature); isSig {
									rv.Fields[i] = &FuncV{Ext: "onMsg"}
								} else if b, isB := ft.Underlying().(*types.Basic); isB && b.Kind() == types.Bool {
									// option flags copied one by one: matched by name against the configuration's fields
									switch rv.T.Field(i).Name() {
									case "TimeCode", "timeCode", "timecode":
										rv.Fields[i] = &BoolV{Known: true, Val: tc}
									case "ActiveSense", "activeSense", "activesense":
										rv.Fields[i] = &BoolV{Known: true, Val: as}
									case "SysEx", "sysEx", "sysex":
										rv.Fields[i] = &BoolV{Known: true, Val: sx}
									default:
										rv.Fields[i] = ex.topArg(st, ft, rv.T.Field(i).Name())
									}
								} else {
									rv.Fields[i] = ex.topArg(st, ft, rv.T.Field(i).Name())
								}
							}
						}
						var recv Val = rv
						if isPtr {
							recv = &PtrV{Obj: ex.newObj(st, rv, rt)}
						}
						callArgs = []Val{recv, msg, ms}
					}
					res := ex.callValue(&Frame{fn: fc, regs: map[ssa.Value]Val{}, visits: map[*ssa.BasicBlock]int{}, widened: map[*ssa.BasicBlock]bool{}, phiHist: map[*ssa.Phi]Val{}, kept: map[*ssa.Phi]keptInv{}}, st, &FuncV{Fn: fc, Bindings: binds}, callArgs, nil, nil)
					wantDrop := (b0 == 0xFE && !as) || (b0 == 0xF8 && !tc) || ((b0 == 0xF0 || b0 == 0xF7) && !sx)
					for _, r := range res {
						if r.panic {
							bad = fmt.Sprintf("first byte %02X: panic %s", b0, r.msg)
							continue
						}
						ncall := 0
						for _, e := range r.st.Events {
							if e.Kind == "call:onMsg" {
								ncall++
								a0, _ := e.Args[0].(*SliceV)
								a1, _ := e.Args[1].(*IntV)
								if a0 == nil || a0.Obj != msg.Obj || !r.st.sameInt(a0.Len, msg.Len) || !r.st.sameInt(a0.Off, msg.Off) {
									bad = fmt.Sprintf("first byte %02X: the forwarded message is not the received one", b0)
								}
								if a1 == nil || !r.st.sameInt(a1, ms) {
									bad = fmt.Sprintf("first byte %02X: the time stamp is changed by the filter", b0)
								}
							}
						}
						if wantDrop && ncall != 0 {
							bad = fmt.Sprintf("options (timecode=%v activesense=%v sysex=%v): first byte %02X must be dropped but is forwarded", tc, as, sx, b0)
						}
						if !wantDrop && ncall != 1 {
							bad = fmt.Sprintf("options (timecode=%v activesense=%v sysex=%v): first byte %02X must be forwarded exactly once, forwarded %d times", tc, as, sx, b0, ncall)
						}
					}
				}
			}
		}
		if bad != "" {
			allAgree = false
		}
		c.Check(bad == "" && pure, "C14.2", "filter closure "+FuncName(fc), p.Pos(fc.Pos()), fmt.Sprintf("%d cells (8 option triples x 256 first bytes x 2 lengths): drops exactly its class, forwards once unchanged; no stores outside locals", cells), fmt.Sprintf("%s (side-effect free: %v)", bad, pure))
	}
	c.Check(allAgree && len(fcs) >= 2, "C14.4", "drivers' filters agree", "-", fmt.Sprintf("%d filter closures share the specification's decision table", len(fcs)), "the drivers' filters have different decision tables")
}
