package main

// Site-directed may-panic analysis (DESIGN §3.4 "may-panic facts", §4 C05.1/C06.1/C19.4):
// every potentially panicking construct in a scope is an obligation; it is discharged when an
// abstract run of its function with unknown inputs never flags it, or — if the function alone
// cannot show it — when every caller in scope (up to 3 levels) shows it with the callee inlined.

import (
	"fmt"
	"go/token"
	"go/types"
	"os"
	"sort"
	"strings"

	"golang.org/x/tools/go/ssa"
)

type panicSite struct {
	fn   *ssa.Function
	kind string
	pos  string
	in   ssa.Instruction
}

type fnRun struct {
	flagged map[string]string // pos -> message
	failed  string            // non-empty: run did not complete
	allocs  map[string][2]int64
	paths   int
}

type runKey struct {
	fn     *ssa.Function
	forced string
}

type PanicScan struct {
	p         *Program
	scope     map[*ssa.Function]bool
	runs      map[runKey]*fnRun
	small     map[*ssa.Function]int // measured: 0 unknown, 1 inline, 2 opaque
	height    map[*ssa.Function]int // structOK: call height of the structurally inlinable functions
	measuring map[*ssa.Function]bool
	Unroll    int
	callers   map[*ssa.Function][]*ssa.Function
}

func NewPanicScan(p *Program, scope []*ssa.Function) *PanicScan {
	ps := &PanicScan{p: p, scope: map[*ssa.Function]bool{}, runs: map[runKey]*fnRun{}, small: map[*ssa.Function]int{}, Unroll: 1, callers: map[*ssa.Function][]*ssa.Function{}}
	for _, f := range scope {
		ps.scope[f] = true
	}
	for _, f := range scope {
		for _, call := range calls(f) {
			if cal := call.Common().StaticCallee(); cal != nil && ps.scope[cal] && cal != f {
				dup := false
				for _, x := range ps.callers[cal] {
					if x == f {
						dup = true
					}
				}
				if !dup {
					ps.callers[cal] = append(ps.callers[cal], f)
				}
			}
		}
	}
	return ps
}

// sites enumerates potentially panicking constructs of fn.
func panicSites(p *Program, fn *ssa.Function) []panicSite {
	var out []panicSite
	add := func(in ssa.Instruction, kind string) {
		pos := in.Pos()
		ps := p.Pos(pos)
		if !pos.IsValid() {
			ps = p.Pos(fn.Pos())
		}
		out = append(out, panicSite{fn, kind, ps, in})
	}
	for _, b := range fn.Blocks {
		for _, in := range b.Instrs {
			switch x := in.(type) {
			case *ssa.IndexAddr:
				add(x, "index")
			case *ssa.Index:
				if _, ok := constInt(x.Index); !ok {
					add(x, "index")
				}
			case *ssa.Slice:
				if x.Low != nil || x.High != nil || x.Max != nil {
					add(x, "slice")
				}
			case *ssa.TypeAssert:
				if !x.CommaOk {
					add(x, "assert")
				}
			case *ssa.Panic:
				add(x, "panic")
			case *ssa.BinOp:
				if x.Op == token.QUO || x.Op == token.REM {
					if _, isInt, _ := intTypeInfo(x.Type()); true {
						_ = isInt
						if _, ok := intTypeInfo2(x.Type()); ok {
							if k, ok := constInt(x.Y); !ok || k == 0 {
								add(x, "div")
							}
						}
					}
				}
			case *ssa.Call:
				if bi, ok := x.Call.Value.(*ssa.Builtin); ok && bi.Name() == "panic" {
					add(x, "panic")
				}
			}
		}
	}
	return out
}

func intTypeInfo2(t types.Type) (int, bool) {
	w, _, ok := intTypeInfo(t)
	return w, ok
}

// topArg: unknown argument; pointers to structs become pointers to fresh unknown objects.
func (ex *Exec) topArg(st *State, t types.Type, name string) Val {
	if pt, ok := t.Underlying().(*types.Pointer); ok {
		switch pt.Elem().Underlying().(type) {
		case *types.Struct, *types.Array:
			return ex.newTopObject(st, pt.Elem(), name)
		}
	}
	return ex.topOf(st, t, name)
}

// structOK: loop-free, at most 150 instructions, every static module callee structOK, call height at most 7, not part
// of a static call cycle. Computed once for the whole module as a least fixed point from the leaves, so the answer does
// not depend on the order in which functions are asked about (until round 4 it was a memoised depth-first search whose
// depth cut-off and in-progress marks were cached: the same function could come out inlinable or opaque depending on
// map iteration order).
func (ps *PanicScan) structOK(fn *ssa.Function) bool {
	if ps.height == nil {
		ps.height = map[*ssa.Function]int{}
		cand := map[*ssa.Function][]*ssa.Function{}
		for f := range ps.p.All {
			if !InModule(f) || f.Blocks == nil || len(naturalLoops(f)) > 0 {
				continue
			}
			n := 0
			for _, b := range f.Blocks {
				n += len(b.Instrs)
			}
			if n > 150 {
				continue
			}
			cs := []*ssa.Function{}
			for _, call := range calls(f) {
				if cal := call.Common().StaticCallee(); cal != nil && InModule(cal) && cal.Blocks != nil {
					cs = append(cs, cal)
				}
			}
			cand[f] = cs
		}
		for changed := true; changed; {
			changed = false
			for f, cs := range cand {
				if _, done := ps.height[f]; done {
					continue
				}
				h, ok := 0, true
				for _, cal := range cs {
					hc, done := ps.height[cal]
					if !done {
						ok = false
						break
					}
					if hc+1 > h {
						h = hc + 1
					}
				}
				if ok && h <= 7 {
					ps.height[f] = h
					changed = true
				}
			}
		}
	}
	_, ok := ps.height[fn]
	return ok
}

// inlineOK: structOK, and — for functions of the scanned scope — measured: the function's own abstract run with
// unknown inputs completes in at most 8 partitions (a callee that splits into many partitions is summarised as opaque
// in its callers: unknown result, reachable heap forgotten).
func (ps *PanicScan) inlineOK(fn *ssa.Function, depth int) bool {
	if fn.Blocks == nil {
		return true // no body: handled by summaries / opaque anyway
	}
	if !ps.structOK(fn) {
		return false
	}
	if !ps.scope[fn] {
		return true
	}
	if v := ps.small[fn]; v != 0 {
		return v == 1
	}
	if ps.measuring[fn] {
		return false // reached again through a dynamic call while being measured: not inlined, not cached
	}
	if ps.measuring == nil {
		ps.measuring = map[*ssa.Function]bool{}
	}
	ps.measuring[fn] = true
	r := ps.runForced(fn, nil)
	delete(ps.measuring, fn)
	if r.failed != "" || r.paths > 8 {
		ps.small[fn] = 2
		return false
	}
	ps.small[fn] = 1
	return true
}

func (ps *PanicScan) run(fn *ssa.Function) *fnRun { return ps.runForced(fn, nil) }

// runForced analyses fn with the functions of the chain (callees on the way to a site) inlined regardless of size.
func (ps *PanicScan) runForced(fn *ssa.Function, forced []*ssa.Function) *fnRun {
	fk := ""
	fset := map[*ssa.Function]bool{}
	for _, f := range forced {
		fk += f.String() + "|"
		fset[f] = true
	}
	key := runKey{fn, fk}
	if r, ok := ps.runs[key]; ok {
		return r
	}
	r := &fnRun{flagged: map[string]string{}, allocs: map[string][2]int64{}}
	ps.runs[key] = r
	func() {
		defer func() {
			if x := recover(); x != nil {
				r.failed = fmt.Sprintf("checker panic: %v", x)
			}
		}()
		ex := NewExec(ps.p)
		ex.Unroll = ps.Unroll
		ex.MaxPaths = 6000
		ex.LazyPtr = true
		ex.WidenAtEntry = true
		// decided lazily, when a call of f is met: only the functions this run actually reaches are asked about
		ex.NoInlineFn = func(f *ssa.Function) bool {
			return InModule(f) && f != fn && !fset[f] && f.Blocks != nil && !ps.inlineOK(f, 0)
		}
		st := ex.NewState()
		var args []Val
		for _, prm := range fn.Params {
			args = append(args, ex.topArg(st, prm.Type(), "p:"+prm.Name()))
		}
		// free variables of closures: unknown cells
		outs := ex.Call(st, fn, args, nil)
		r.paths = len(outs)
		if ex.Budget {
			r.failed = "path budget exceeded"
		}
		for u := range ex.Unsupported {
			if strings.HasPrefix(u, "recursion-or-depth") {
				continue
			}
			r.failed = "unmodelled construct: " + u
		}
		if os.Getenv("ABSDEBUG") != "" {
			defer func() {
				fmt.Fprintf(os.Stderr, "panicscan %s forced=%d paths=%d failed=%q stats=%+v allocs=%v\n", FuncName(fn), len(forced), len(outs), r.failed, ex.Stats, r.allocs)
			}()
		}
		for _, o := range outs {
			if o.Panic {
				r.flagged[o.Pos] = o.Msg + " [" + outcomeWitness(o) + "]"
			}
			for _, e := range o.St.Events {
				switch e.Kind {
				case "oob", "div0", "assert", "makeslice-neg":
					if _, ok := r.flagged[e.Pos]; !ok {
						r.flagged[e.Pos] = e.Msg + " [" + outcomeWitness(o) + "]"
					}
				case "alloc":
					if len(e.Args) == 1 {
						if iv, ok := e.Args[0].(*IntV); ok {
							lo, hi := o.St.Range(iv)
							old, seen := r.allocs[e.Pos]
							if !seen || hi > old[1] {
								r.allocs[e.Pos] = [2]int64{lo, hi}
							}
						}
					}
				}
			}
		}
	}()
	return r
}

// discharge decides one site. fn is the function currently analysed, forced the callee (on the chain to the
// site) that must be inlined into it.
func (ps *PanicScan) discharge(site panicSite, fn *ssa.Function, forced []*ssa.Function, depth int, chain string) (bool, string) {
	r := ps.runForced(fn, forced)
	// the site may depend on what a callee with a loop returns (a search helper whose result indexes the slice): such
	// callees are summarised as opaque by default — try once more with the direct callees of this function inlined
	if _, bad := r.flagged[site.pos]; (bad || r.failed != "") && depth == 0 {
		var extra []*ssa.Function
		for _, call := range calls(fn) {
			if cal := call.Common().StaticCallee(); cal != nil && InModule(cal) && cal != fn && len(cal.Blocks) > 0 && len(naturalLoops(cal)) > 0 && len(cal.Blocks) <= 40 {
				extra = append(extra, cal)
			}
		}
		if len(extra) > 0 {
			r2 := ps.runForced(fn, append(append([]*ssa.Function{}, forced...), extra...))
			if _, bad2 := r2.flagged[site.pos]; r2.failed == "" && !bad2 {
				return true, fmt.Sprintf("not reachable/implied in an abstract run of %s with its loop-carrying callees inlined (%d partitions)%s", FuncName(fn), r2.paths, chain)
			}
		}
	}
	if r.failed != "" {
		if depth >= 3 || len(ps.callers[fn]) == 0 {
			return false, "undecided: " + r.failed + " in " + FuncName(fn)
		}
	} else if msg, bad := r.flagged[site.pos]; !bad {
		return true, fmt.Sprintf("not reachable/implied in an abstract run of %s with unknown inputs (%d partitions)%s", FuncName(fn), r.paths, chain)
	} else if depth >= 3 || len(ps.callers[fn]) == 0 {
		return false, msg + " (in " + FuncName(fn) + " with unknown inputs" + chain + ")"
	}
	var oks []string
	for _, cal := range ps.callers[fn] {
		ok, why := ps.discharge(site, cal, append(append([]*ssa.Function{}, forced...), fn), depth+1, chain+" <- "+FuncName(cal))
		if !ok {
			return false, why
		}
		oks = append(oks, FuncName(cal))
	}
	sort.Strings(oks)
	return true, "implied by every caller in scope: " + strings.Join(oks, ", ")
}

// Check runs the scan over the whole scope and reports obligations under rule.
func (ps *PanicScan) Check(c *Ctx, rule string, fns []*ssa.Function) (nsites int) {
	for _, fn := range fns {
		c.Fn(FuncName(fn))
		seq := map[string]int{}
		for _, s := range panicSites(ps.p, fn) {
			nsites++
			base := fmt.Sprintf("%s %s", s.kind, FuncName(fn))
			seq[base]++
			key := fmt.Sprintf("%s #%d", base, seq[base])
			ok, why := ps.discharge(s, fn, nil, 0, "")
			c.Check(ok, rule, key, s.pos, why, why)
		}
	}
	return
}
