package main

// Value-flow (may-alias, flow-insensitive, field-based) used by the E-io rules:
// where can an interface value (the SMF source reader, the destination writer) end up?

import (
	"go/types"

	"golang.org/x/tools/go/ssa"
)

type Flow struct {
	P       *Program
	Vals    map[ssa.Value]bool
	Fields  map[*types.Var]bool
	Globals map[*ssa.Global]bool
	Allocs  map[ssa.Value]bool // local cells (Alloc) holding the value
	Scope   map[*ssa.Function]bool
	// sinks
	Invokes  []ssa.CallInstruction // dynamic method calls on a tainted receiver
	Escapes  []ssa.CallInstruction // tainted value passed to a non-module callee
	Asserts  []*ssa.TypeAssert
	work     []ssa.Value
	fieldUse map[*types.Var][]ssa.Value // loads of a field (values), built lazily
}

func fieldVar(fa ssa.Value) *types.Var {
	switch x := fa.(type) {
	case *ssa.FieldAddr:
		st := x.X.Type().Underlying().(*types.Pointer).Elem().Underlying().(*types.Struct)
		return st.Field(x.Field)
	case *ssa.Field:
		st := x.X.Type().Underlying().(*types.Struct)
		return st.Field(x.Field)
	}
	return nil
}

// NewFlow propagates from seeds within the module functions in scope.
func NewFlow(p *Program, scope []*ssa.Function, seeds ...ssa.Value) *Flow {
	f := &Flow{P: p, Vals: map[ssa.Value]bool{}, Fields: map[*types.Var]bool{}, Globals: map[*ssa.Global]bool{},
		Allocs: map[ssa.Value]bool{}, Scope: map[*ssa.Function]bool{}}
	for _, fn := range scope {
		f.Scope[fn] = true
	}
	for _, s := range seeds {
		f.taint(s)
	}
	f.run(scope)
	return f
}

func (f *Flow) taint(v ssa.Value) {
	if v == nil || f.Vals[v] {
		return
	}
	f.Vals[v] = true
	f.work = append(f.work, v)
}

func (f *Flow) run(scope []*ssa.Function) {
	// index loads of fields / globals / allocs
	type ld struct {
		v    ssa.Value
		addr ssa.Value
	}
	var loads []ld
	var fieldVals []ssa.Value // ssa.Field (value form)
	for _, fn := range scope {
		for _, b := range fn.Blocks {
			for _, in := range b.Instrs {
				switch x := in.(type) {
				case *ssa.UnOp:
					if x.Op.String() == "*" {
						loads = append(loads, ld{x, x.X})
					}
				case *ssa.Field:
					fieldVals = append(fieldVals, x)
				}
			}
		}
	}
	changed := true
	for changed {
		changed = false
		for len(f.work) > 0 {
			v := f.work[len(f.work)-1]
			f.work = f.work[:len(f.work)-1]
			f.propagate(v)
		}
		for _, l := range loads {
			if f.Vals[l.v] {
				continue
			}
			hit := false
			switch a := l.addr.(type) {
			case *ssa.FieldAddr:
				hit = f.Fields[fieldVar(a)]
			case *ssa.Global:
				hit = f.Globals[a]
			case *ssa.Alloc:
				hit = f.Allocs[a]
			case *ssa.FreeVar:
				hit = f.Allocs[a] || f.Vals[a]
			case *ssa.IndexAddr:
				hit = f.Vals[a.X] || f.Allocs[a.X]
			}
			if hit {
				f.taint(l.v)
				changed = true
			}
		}
		for _, fv := range fieldVals {
			if !f.Vals[fv] && f.Fields[fieldVar(fv)] {
				f.taint(fv)
				changed = true
			}
		}
	}
}

func (f *Flow) propagate(v ssa.Value) {
	refs := v.Referrers()
	if refs == nil {
		return
	}
	for _, in := range *refs {
		if in.Parent() != nil && !f.Scope[in.Parent()] {
			continue
		}
		switch x := in.(type) {
		case *ssa.Store:
			if x.Val == v {
				switch a := x.Addr.(type) {
				case *ssa.FieldAddr:
					f.Fields[fieldVar(a)] = true
				case *ssa.Global:
					f.Globals[a] = true
				case *ssa.Alloc:
					f.Allocs[a] = true
				case *ssa.FreeVar:
					f.Allocs[a] = true
				case *ssa.IndexAddr:
					f.Allocs[a.X] = true
					f.taint(a.X)
				}
			}
		case *ssa.Phi, *ssa.ChangeType, *ssa.ChangeInterface, *ssa.MakeInterface, *ssa.Extract, *ssa.Convert:
			f.taint(x.(ssa.Value))
		case *ssa.TypeAssert:
			f.Asserts = append(f.Asserts, x)
			f.taint(x)
		case *ssa.MakeClosure:
			fn := x.Fn.(*ssa.Function)
			for i, b := range x.Bindings {
				if b == v && i < len(fn.FreeVars) {
					f.taint(fn.FreeVars[i])
					f.Allocs[fn.FreeVars[i]] = f.Allocs[b] || f.Allocs[fn.FreeVars[i]]
				}
			}
		case ssa.CallInstruction:
			cc := x.Common()
			if cc.IsInvoke() && cc.Value == v {
				f.Invokes = append(f.Invokes, x)
			}
			callees := f.P.Callees(x)
			argIdx := -1
			for i, a := range cc.Args {
				if a == v {
					argIdx = i
					passed := false
					for _, cal := range callees {
						if InModule(cal) && cal.Blocks != nil {
							pi := i
							if cc.IsInvoke() {
								pi = i + 1
							}
							if pi < len(cal.Params) {
								f.taint(cal.Params[pi])
								passed = true
							}
						}
					}
					if !passed {
						f.Escapes = append(f.Escapes, x)
					}
				}
			}
			_ = argIdx
			if !cc.IsInvoke() && cc.Value == v {
				// calling a tainted func value: not a data flow of interest
			}
			// results of module callees that return a tainted value are handled via Return below
		case *ssa.Return:
			// propagate to call sites of this function
			fn := x.Parent()
			idx := -1
			for i, r := range x.Results {
				if r == v {
					idx = i
				}
			}
			if idx < 0 {
				break
			}
			if n := f.P.CG().Nodes[fn]; n != nil {
				for _, e := range n.In {
					site := e.Site
					if site == nil || !f.Scope[site.Parent()] {
						continue
					}
					if val := site.Value(); val != nil {
						if len(x.Results) == 1 {
							f.taint(val)
						} else if rr := val.Referrers(); rr != nil {
							for _, u := range *rr {
								if ex, ok := u.(*ssa.Extract); ok && ex.Index == idx {
									f.taint(ex)
								}
							}
						}
					}
				}
			}
		}
	}
	// address-taken locals: if v is an Alloc holding tainted => handled by loads
}
