package main

// renameall: robustness tool for the checker itself. It rewrites a SCRATCH copy of the repository so that every
// unexported identifier declared in the analysed packages (package-level functions, types, variables, constants,
// struct fields, methods, parameters, results and locals) gets a different name. The transformation is behaviour
// preserving (names of unexported things are not observable), so every check must stay silent on the result: a
// rule that addresses the code by a private name instead of by its role would fail here.

import (
	"fmt"
	"go/ast"
	"go/token"
	"go/types"
	"hash/fnv"
	"os"
	"sort"
	"strings"

	"golang.org/x/tools/go/packages"
)

func renameAll(repo, suffix string, listOnly bool) int {
	if !listOnly && (repo == "/repo" || strings.HasPrefix(repo, "/verif")) {
		fmt.Println("renameall refuses to rewrite /repo or /verif: give it a scratch copy")
		return 2
	}
	dir := repo + "/v2"
	var patterns []string
	for _, p := range pkgList {
		if p == "" {
			patterns = append(patterns, modPath)
		} else {
			patterns = append(patterns, modPath+"/"+p)
		}
	}
	fset := token.NewFileSet()
	var pkgs []*packages.Package
	for _, goos := range []string{"linux", "windows"} {
		cfg := &packages.Config{Mode: packages.LoadSyntax, Dir: dir, Fset: fset, Env: loadEnv(goos), Tests: true}
		l, err := packages.Load(cfg, patterns...)
		if err != nil {
			fmt.Println(err)
			return 2
		}
		pkgs = append(pkgs, l...)
	}
	type edit struct {
		off int
		old string
	}
	edits := map[string][]edit{}
	seenPos := map[string]bool{}
	names := map[string]bool{}
	inModule := func(o types.Object) bool {
		return o != nil && o.Pkg() != nil && strings.HasPrefix(o.Pkg().Path(), modPath)
	}
	// RENAME_EXPORTED=1: also rename exported-cased methods and fields of UNEXPORTED named types (not API either),
	// unless some interface anywhere in the loaded program declares a method of that name.
	ifaceMethods := map[string]bool{}
	privMember := map[types.Object]bool{}
	if os.Getenv("RENAME_EXPORTED") != "" {
		seenPkg := map[*types.Package]bool{}
		var visit func(tp *types.Package)
		visit = func(tp *types.Package) {
			if tp == nil || seenPkg[tp] {
				return
			}
			seenPkg[tp] = true
			sc := tp.Scope()
			for _, name := range sc.Names() {
				tn, ok := sc.Lookup(name).(*types.TypeName)
				if !ok {
					continue
				}
				if it, ok := tn.Type().Underlying().(*types.Interface); ok {
					for i := 0; i < it.NumMethods(); i++ {
						ifaceMethods[it.Method(i).Name()] = true
					}
				}
				if n, ok := tn.Type().(*types.Named); ok && strings.HasPrefix(tp.Path(), modPath) && !tn.Exported() {
					for i := 0; i < n.NumMethods(); i++ {
						privMember[n.Method(i)] = true
					}
					if st, ok := n.Underlying().(*types.Struct); ok {
						for i := 0; i < st.NumFields(); i++ {
							if !st.Field(i).Embedded() {
								privMember[st.Field(i)] = true
							}
						}
					}
				}
			}
			for _, imp := range tp.Imports() {
				visit(imp)
			}
		}
		for _, pk := range pkgs {
			visit(pk.Types)
		}
		// common method sets used through reflection / fmt
		for _, n := range []string{"String", "Error", "GoString", "Format", "MarshalJSON", "UnmarshalJSON", "MarshalText", "UnmarshalText"} {
			ifaceMethods[n] = true
		}
	}
	want := func(o types.Object) bool {
		if !inModule(o) {
			return false
		}
		n := o.Name()
		if n == "" || n == "_" || n == "init" || n == "main" {
			return false
		}
		if token.IsExported(n) {
			if f, ok := o.(*types.Func); ok {
				o = f.Origin()
			}
			if v, ok := o.(*types.Var); ok {
				o = v.Origin()
			}
			if !privMember[o] || ifaceMethods[n] {
				return false
			}
		}
		switch o.(type) {
		case *types.Func, *types.Var, *types.TypeName, *types.Const:
			return true
		}
		return false
	}
	for _, pk := range pkgs {
		for _, e := range pk.Errors {
			fmt.Println("load error:", e)
			return 2
		}
		if pk.TypesInfo == nil {
			continue
		}
		record := func(id *ast.Ident, o types.Object) {
			if id == nil || !want(o) || id.Name != o.Name() {
				return
			}
			p := fset.Position(id.Pos())
			if k := fmt.Sprintf("%s:%d", p.Filename, p.Offset); seenPos[k] {
				return
			} else {
				seenPos[k] = true
			}
			if !strings.HasPrefix(p.Filename, dir) {
				return
			}
			edits[p.Filename] = append(edits[p.Filename], edit{p.Offset, id.Name})
			names[o.Pkg().Name()+"."+id.Name] = true
		}
		for id, o := range pk.TypesInfo.Defs {
			record(id, o)
		}
		for id, o := range pk.TypesInfo.Uses {
			record(id, o)
		}
		// embedded fields: the identifier is a use of the type name; the implicit field follows the type's new name.
		// type switches: "switch v := x.(type)" declares v implicitly once per clause
		for _, f := range pk.Syntax {
			ast.Inspect(f, func(n ast.Node) bool {
				ts, ok := n.(*ast.TypeSwitchStmt)
				if !ok {
					return true
				}
				as, ok := ts.Assign.(*ast.AssignStmt)
				if !ok || len(as.Lhs) != 1 {
					return true
				}
				id, _ := as.Lhs[0].(*ast.Ident)
				for _, cl := range ts.Body.List {
					if o := pk.TypesInfo.Implicits[cl]; o != nil {
						record(id, o)
						break
					}
				}
				return true
			})
		}
	}
	if listOnly {
		var l []string
		for n := range names {
			l = append(l, n)
		}
		sort.Strings(l)
		for _, n := range l {
			fmt.Println(n)
		}
		return 0
	}
	nfiles, nedits := 0, 0
	for file, es := range edits {
		src, err := os.ReadFile(file)
		if err != nil {
			fmt.Println(err)
			return 2
		}
		sort.Slice(es, func(i, j int) bool { return es[i].off > es[j].off })
		for _, e := range es {
			if string(src[e.off:e.off+len(e.old)]) != e.old {
				fmt.Printf("renameall: %s offset %d: expected %q\n", file, e.off, e.old)
				return 2
			}
			nn := e.old + suffix
			if suffix == "@hash" { // a name that shares nothing with the old one
				h := fnv.New32a()
				h.Write([]byte(e.old))
				nn = fmt.Sprintf("zq%x", h.Sum32())
			}
			src = append(src[:e.off], append([]byte(nn), src[e.off+len(e.old):]...)...)
			nedits++
		}
		if err := os.WriteFile(file, src, 0o644); err != nil {
			fmt.Println(err)
			return 2
		}
		nfiles++
	}
	fmt.Printf("renameall: %d identifiers (%d distinct names) in %d files renamed with suffix %q\n", nedits, len(names), nfiles, suffix)
	return 0
}
