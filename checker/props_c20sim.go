package main

// exportSimulation (C20): both sequencer exports are interpreted end to end on representative songs (concrete grid
// positions, symbolic data bytes and texts) and compared with the layout the statement prescribes:
//
//   bar k starts at ticks32 * (len(0) + ... + len(k-1)),  len = numerator*32/denominator,  ticks32 = resolution/8
//   an event of bar k at position p sits at start(k) + ticks32*p; a note with duration d gets a note-off (same channel
//   and key) at + ticks32*d, also when that is beyond its bar; a time-signature event at the start of every bar whose
//   signature differs from the one in force (4/4 before the first bar); every track ends at the song end
//
// ToSMF1: a "bars" track (title, composer, name, the time signatures) and one track per used track number in
// ascending order (name, that track's events in tick order); ToSMF0: one track with title, composer and everything
// merged in tick order. Deltas are differences of consecutive absolute ticks. The songs have no two events on one
// tick within a track (the order of same-tick events is not part of the statement). Sorting is interpreted with the
// code's own comparison (abs_sort.go), texts are built by the interpreted constructors.

import (
	"fmt"
	"go/token"
	"go/types"
	"os"
	"sort"
	"time"

	"golang.org/x/tools/go/ssa"
)

type simEv struct {
	track    int
	pos, dur int64
	status   int64 // 0x9n note on (2 data bytes, velocity >= 1), 0xBn control change, 0xCn program change
}

type simBar struct {
	num, den int64 // 0,0 = inherit
	evs      []simEv
	sameAs   int // k > 0: the bar holds the very same event objects (pointers) as bar k-1 — a repeated pattern
}

type simSong struct {
	name string
	q    int64
	bars []simBar
}

func exportSimulation(c *Ctx, toSMF0, toSMF1 *ssa.Function) {
	p := c.P
	songT := p.namedType("sequencer", "Song")
	barT := p.namedType("sequencer", "Bar")
	sevT := p.namedType("sequencer", "Event")
	mtT := p.namedType("smf", "MetricTicks")
	metaMeter := p.Func("smf", "MetaMeter")
	metaText := p.Func("smf", "MetaText")
	metaCopy := p.Func("smf", "MetaCopyright")
	metaName := p.Func("smf", "MetaTrackSequenceName")
	noteOff := p.Func("", "NoteOff")
	addBar := p.MethodOf(types.NewPointer(songT), "AddBar")
	if songT == nil || barT == nil || sevT == nil || mtT == nil || metaMeter == nil || metaText == nil || metaCopy == nil || metaName == nil || noteOff == nil || addBar == nil {
		c.Unk("C20.4", "export simulation anchors", "-", "not resolved")
		return
	}
	songs := []simSong{
		{"3/4, 3/4, 6/8 at 960 ticks: a note held across the bar line while the next bar already has an event on the same track", 960, []simBar{
			{3, 4, []simEv{{1, 8, 4, 0x92}, {0, 2, 0, 0xB0}}, 0},
			{0, 0, []simEv{{1, 20, 8, 0x92}}, 0},
			{6, 8, []simEv{{1, 2, 0, 0xC2}}, 0},
		}},
		{"12/8, 4/4 (explicit), inherited, 5/32 at 96 ticks: a long bar, a 32nd-note signature, track numbers 0 and 3", 96, []simBar{
			{12, 8, []simEv{{3, 40, 6, 0x95}, {0, 47, 0, 0xB1}}, 0},
			{4, 4, []simEv{{0, 1, 3, 0x91}}, 0},
			{0, 0, []simEv{{3, 31, 0, 0xC5}}, 0},
			{5, 32, []simEv{{0, 4, 0, 0xB1}}, 0},
		}},
		{"six bars, the time signature changes at every bar (2/4, 3/4, 2/4, ...), 480 ticks", 480, []simBar{
			{2, 4, []simEv{{0, 1, 2, 0x90}}, 0}, {3, 4, []simEv{{0, 1, 0, 0xB0}}, 0}, {2, 4, []simEv{{0, 3, 0, 0xC0}}, 0},
			{3, 4, []simEv{{0, 1, 2, 0x90}}, 0}, {2, 4, []simEv{{0, 5, 0, 0x90}}, 0}, {3, 4, []simEv{{0, 7, 0, 0xC0}}, 0},
		}},
		{"3/4, 6/8, 2/2, 4/4, 4/4 at 384 ticks: signatures that change while the bar length stays the same, a first bar as long as the default; bars 2 and 4 repeat the pattern of bar 0 (the same event objects)", 384, []simBar{
			{3, 4, []simEv{{0, 3, 2, 0x93}, {2, 9, 0, 0xB3}}, 0},
			{6, 8, []simEv{{0, 5, 0, 0xC3}}, 0},
			{2, 2, nil, 1},
			{4, 4, []simEv{{2, 30, 1, 0x94}}, 0},
			{0, 0, nil, 1},
		}},
		{"2/2 from the first bar (as long as the default 4/4), 960 ticks", 960, []simBar{
			{2, 2, []simEv{{0, 16, 4, 0x90}}, 0},
			{0, 0, []simEv{{0, 0, 0, 0xB0}}, 0},
		}},
	}
	for _, sg := range songs {
		for _, multi := range []bool{false, true} {
			fn := toSMF0
			label := "single-track export"
			if multi {
				fn, label = toSMF1, "multi-track export"
			}
			key := label + ": " + sg.name
			ex := NewExec(p)
			ex.SortModel = true
			ex.FmtModel = true
			ex.MapModel = true
			ex.Unroll = 64
			ex.MaxInstrs = 2000000 // a regular run needs about 100000 instructions and well under a second
			ex.MaxTime = 60 * time.Second
			ex.StrictHeap = true
			st := ex.NewState()
			k8 := func(v int64) Val { return mkConst(v, 8, false) }
			// ---- build the song
			type placed struct {
				track int
				tick  int64
				msg   []Val // nil: computed by a constructor (see kind)
				kind  string
				a, b  Val // constructor arguments
			}
			t32 := sg.q / 8
			var barVals []Val
			var want []placed
			type builtBar struct {
				ptrs []Val
				msgs [][]Val
			}
			var barBuilt []builtBar
			cur := [2]int64{4, 4}
			start := int64(0)
			for bi, b := range sg.bars {
				bar := ex.zeroOf(barT).(*StructV)
				bar.Fields[fieldIndex(bar.T, "Number")] = mkConst(int64(bi), 64, false)
				if b.num != 0 && [2]int64{b.num, b.den} != cur {
					cur = [2]int64{b.num, b.den}
					want = append(want, placed{track: -1, tick: start * t32, kind: "meter", a: k8(b.num), b: k8(b.den)})
				}
				// the bar as the user hands it to AddBar: its own signature, or none (AddBar lets it inherit)
				bar.Fields[fieldIndex(bar.T, "TimeSig")] = &ArrayV{Elem: types.Typ[types.Uint8], Segs: []Seg{{Elems: []Val{k8(b.num), k8(b.den)}}}}
				var evPtrs []Val
				if b.sameAs > 0 {
					src := barBuilt[b.sameAs-1]
					evPtrs = src.ptrs
					for ei, e := range sg.bars[b.sameAs-1].evs {
						msg := src.msgs[ei]
						tick := (start + e.pos) * t32
						want = append(want, placed{track: e.track, tick: tick, msg: msg})
						if e.status&0xF0 == 0x90 && e.dur > 0 {
							want = append(want, placed{track: e.track, tick: tick + e.dur*t32, kind: "noteoff", a: k8(e.status & 0x0F), b: msg[1]})
						}
					}
				}
				var builtMsgs [][]Val
				for ei, e := range b.evs {
					ev := ex.zeroOf(sevT).(*StructV)
					ev.Fields[fieldIndex(ev.T, "TrackNo")] = mkConst(int64(e.track), 64, true)
					ev.Fields[fieldIndex(ev.T, "Pos")] = k8(e.pos)
					ev.Fields[fieldIndex(ev.T, "Duration")] = k8(e.dur)
					d1 := ex.syms.Get(fmt.Sprintf("d%d_%d_1", bi, ei), 8, false)
					d2 := ex.syms.Get(fmt.Sprintf("d%d_%d_2", bi, ei), 8, false)
					st.refineSym(d1, 0, 127)
					st.refineSym(d2, 1, 127)
					msg := []Val{k8(e.status), mkSym(d1)}
					if e.status&0xF0 != 0xC0 {
						msg = append(msg, mkSym(d2))
					}
					ev.Fields[fieldIndex(ev.T, "Message")] = ex.mkBytes(st, "m", msg, false, 0)
					id := ex.newObj(st, ev, sevT)
					evPtrs = append(evPtrs, &PtrV{Obj: id})
					builtMsgs = append(builtMsgs, msg)
					tick := (start + e.pos) * t32
					want = append(want, placed{track: e.track, tick: tick, msg: msg})
					if e.status&0xF0 == 0x90 && e.dur > 0 {
						want = append(want, placed{track: e.track, tick: tick + e.dur*t32, kind: "noteoff", a: k8(e.status & 0x0F), b: mkSym(d1)})
					}
				}
				if len(evPtrs) > 0 {
					aid := ex.newObj(st, &ArrayV{Elem: types.NewPointer(sevT), Segs: []Seg{{Elems: evPtrs}}}, nil)
					n := mkConst(int64(len(evPtrs)), 64, true)
					bar.Fields[fieldIndex(bar.T, "Events")] = &SliceV{Obj: aid, Off: mkConst(0, 64, true), Len: n, Cap: n}
				}
				barBuilt = append(barBuilt, builtBar{evPtrs, builtMsgs})
				barVals = append(barVals, bar)
				start += cur[0] * 32 / cur[1]
			}
			songEnd := start * t32
			song := ex.zeroOf(songT).(*StructV)
			title, composer := ex.unknownString(st, "title"), ex.unknownString(st, "composer")
			song.Fields[fieldIndex(song.T, "Title")] = title
			song.Fields[fieldIndex(song.T, "Composer")] = composer
			song.Fields[fieldIndex(song.T, "Ticks")] = mkConst(sg.q, 16, false)
			// the layout cached in the song is stale (an earlier export at another resolution): arbitrary
			if i := roleFieldIndexOr(p, song.T, "sequencer.Song", "lastTick"); i >= 0 {
				song.Fields[i] = mkSym(ex.syms.Get("staleEnd", 64, true))
			}
			barsIdx := roleFieldIndexOr(p, song.T, "sequencer.Song", "bars")
			for i := 0; i < song.T.NumFields(); i++ {
				// whatever else the song keeps privately (caches of an earlier export, counters) holds arbitrary values
				if f := song.T.Field(i); !f.Exported() && i != barsIdx {
					song.Fields[i] = ex.topOf(st, f.Type(), "stale:"+f.Name())
				}
			}
			if barsIdx < 0 {
				c.Unk("C20.4", key, "-", "field holding the bars of a song not resolved")
				continue
			}
			song.Fields[barsIdx] = ex.zeroOf(song.T.Field(barsIdx).Type())
			// the bars are added through AddBar, as a user does (a bar without signature inherits there)
			songPtr := &PtrV{Obj: ex.newObj(st, song, songT)}
			okAdd := true
			states := []*State{st}
			for _, bv := range barVals {
				var next []*State
				for _, s0 := range states {
					for _, r := range ex.Call(s0, addBar, []Val{songPtr, bv}, nil) {
						if r.Panic {
							okAdd = false
							continue
						}
						next = append(next, r.St)
					}
				}
				states = next
				if len(states) == 0 || len(states) > 16 {
					okAdd = false
					break
				}
			}
			if !okAdd {
				c.Unk("C20.4", key, p.Pos(addBar.Pos()), "AddBar panics or does not complete on the representative bars")
				continue
			}
			t0 := time.Now()
			var outs []Outcome
			for _, s0 := range states {
				var recv Val = songPtr
				if _, isPtr := fn.Params[0].Type().(*types.Pointer); !isPtr {
					sv, _ := s0.heap[songPtr.Obj].(*StructV)
					if sv == nil {
						continue
					}
					recv = cloneVal(sv)
				}
				outs = append(outs, ex.Call(s0, fn, []Val{recv}, nil)...)
			}
			if os.Getenv("ABSDEBUG") != "" {
				fmt.Fprintf(os.Stderr, "c20sim %s: %v outcomes=%d budget=%v stats=%+v\n", key, time.Since(t0), len(outs), ex.Budget, ex.Stats)
			}
			if ex.Budget || len(outs) == 0 {
				why := "abstract interpretation did not complete"
				for u := range ex.Unsupported {
					why += "; " + u
				}
				c.Unk("C20.4", key, p.Pos(fn.Pos()), why)
				continue
			}
			bad := false
			for u := range ex.Unsupported {
				c.Unk("C20.4", key+": "+u, p.Pos(fn.Pos()), "unmodelled construct")
				bad = true
				break
			}
			if bad {
				continue
			}
			ok, why := true, ""
			fail := func(format string, a ...interface{}) {
				if ok {
					ok, why = false, fmt.Sprintf(format, a...)
				}
			}
			// expected tracks
			type wantTrack struct {
				head []placed // at tick 0, in this order
				evs  []placed
			}
			mk := func(kind string, a Val) placed { return placed{kind: kind, a: a} }
			var tracksWant []wantTrack
			sortPlaced := func(ps []placed) {
				sort.SliceStable(ps, func(i, j int) bool { return ps[i].tick < ps[j].tick })
			}
			if multi {
				bt := wantTrack{head: []placed{mk("text", title), mk("copyright", composer), mk("name", &StrV{Known: true, S: "bars"})}}
				nums := map[int]bool{}
				for _, w := range want {
					if w.track < 0 {
						bt.evs = append(bt.evs, w)
					} else {
						nums[w.track] = true
					}
				}
				tracksWant = append(tracksWant, bt)
				var ns []int
				for n := range nums {
					ns = append(ns, n)
				}
				sort.Ints(ns)
				for _, n := range ns {
					wt := wantTrack{head: []placed{mk("name", &StrV{Known: true, S: fmt.Sprintf("track-%d", n)})}}
					for _, w := range want {
						if w.track == n {
							wt.evs = append(wt.evs, w)
						}
					}
					sortPlaced(wt.evs)
					tracksWant = append(tracksWant, wt)
				}
			} else {
				wt := wantTrack{head: []placed{mk("text", title), mk("copyright", composer)}}
				wt.evs = append(wt.evs, want...)
				sortPlaced(wt.evs)
				tracksWant = append(tracksWant, wt)
			}
			for _, o := range outs {
				if o.Panic || len(problemEvents(o.St.Events)) > 0 {
					fail("the export may panic: %s%s", o.Msg, fmtEvents(problemEvents(o.St.Events)))
					continue
				}
				for _, e := range o.St.Events {
					if e.Kind == "sim:unstable-sort-equal-keys" {
						fail("%s @ %s", e.Msg, e.Pos)
					}
				}
				res, _ := o.Ret[0].(*StructV)
				if res == nil {
					fail("no SMF value returned")
					continue
				}
				if tf, _ := res.Fields[fieldIndex(res.T, "TimeFormat")].(*IfaceV); tf == nil || tf.Unk || tf.Nil {
					fail("the exported file has no time format")
				} else if iv, _ := tf.V.(*IntV); iv == nil || !o.St.sameInt(iv, mkConst(sg.q, iv.W, iv.Signed)) {
					fail("the exported resolution is %s, the song's is %d", valString(tf.V), sg.q)
				}
				tsl, _ := res.Fields[fieldIndex(res.T, "Tracks")].(*SliceV)
				tvals, okT := ex.sliceElems(o.St, tsl)
				if !okT || len(tvals) != len(tracksWant) {
					fail("the export has %d tracks, expected %d", len(tvals), len(tracksWant))
					continue
				}
				// messages built by constructors: interpret the constructor on the same arguments
				build := func(pl placed) ([]Val, bool) {
					if pl.msg != nil {
						return pl.msg, true
					}
					var f *ssa.Function
					var args []Val
					switch pl.kind {
					case "meter":
						f, args = metaMeter, []Val{pl.a, pl.b}
					case "text":
						f, args = metaText, []Val{pl.a}
					case "copyright":
						f, args = metaCopy, []Val{pl.a}
					case "name":
						f, args = metaName, []Val{pl.a}
					case "noteoff":
						f, args = noteOff, []Val{pl.a, pl.b}
					}
					rs := ex.Call(o.St, f, args, nil)
					if len(rs) != 1 || rs[0].Panic {
						return nil, false
					}
					sl, _ := rs[0].Ret[0].(*SliceV)
					segs, okS := ex.sliceSegs(rs[0].St, sl)
					if !okS {
						return nil, false
					}
					// keep as one pseudo element list: compare segment-wise below
					var out []Val
					for _, sgm := range segs {
						if sgm.Run != nil {
							out = append(out, &runMarker{Run: sgm.Run})
						} else {
							out = append(out, sgm.Elems...)
						}
					}
					return out, true
				}
				sameMsg := func(got *SliceV, wantEls []Val) bool {
					gsegs, okG := ex.sliceSegs(o.St, got)
					if !okG {
						return false
					}
					var g []Val
					for _, sgm := range o.St.dropEmptyRuns(gsegs) {
						if sgm.Run != nil {
							g = append(g, &runMarker{Run: sgm.Run})
						} else {
							g = append(g, sgm.Elems...)
						}
					}
					var w []Val
					for _, e := range wantEls {
						if rm, isR := e.(*runMarker); isR {
							if l, h := o.St.Range(&IntV{W: 64, Signed: true, T: rm.Run.Len}); l == 0 && h == 0 {
								continue
							}
						}
						w = append(w, e)
					}
					if len(g) != len(w) {
						return false
					}
					for i := range g {
						gr, gIsR := g[i].(*runMarker)
						wr, wIsR := w[i].(*runMarker)
						if gIsR != wIsR {
							return false
						}
						if gIsR {
							if gr.Run.Src != wr.Run.Src || !termEq(gr.Run.Off, wr.Run.Off) || !termEq(gr.Run.Len, wr.Run.Len) {
								return false
							}
							continue
						}
						if !o.St.sameVal(g[i], w[i]) {
							return false
						}
					}
					return true
				}
				for ti, wt := range tracksWant {
					tr, _ := tvals[ti].(*SliceV)
					evs, okE := ex.sliceElems(o.St, tr)
					exp := append(append([]placed{}, wt.head...), wt.evs...)
					if !okE || len(evs) != len(exp)+1 {
						fail("track %d of the export has %d events, expected %d (incl. the end of track)", ti, len(evs), len(exp)+1)
						continue
					}
					last := int64(0)
					for ei, pl := range exp {
						ev, _ := evs[ei].(*StructV)
						if ev == nil {
							fail("track %d event %d not tracked", ti, ei)
							break
						}
						wantEls, okB := build(pl)
						if !okB {
							fail("reference message for track %d event %d (%s) could not be built", ti, ei, pl.kind)
							break
						}
						ms, _ := ev.Fields[fieldIndex(ev.T, "Message")].(*SliceV)
						if ms == nil || !sameMsg(ms, wantEls) {
							got := ""
							if ms != nil {
								if gs, okG := ex.sliceSegs(o.St, ms); okG {
									got = arrayStringIn(o.St, &ArrayV{Segs: gs})
								}
							}
							fail("track %d event %d is %s, expected the %s event due at tick %d (events out of tick order, on the wrong track, missing or altered)", ti, ei, got, map[bool]string{true: pl.kind, false: "channel"}[pl.kind != ""], pl.tick)
							break
						}
						dl, _ := ev.Fields[fieldIndex(ev.T, "Delta")].(*IntV)
						if dl == nil || !o.St.sameInt(o.St.Convert(dl, 64, true), mkConst(pl.tick-last, 64, true)) {
							fail("track %d event %d has delta %s, expected %d (absolute tick %d: bar start + ticks32 * position)", ti, ei, valString(ev.Fields[fieldIndex(ev.T, "Delta")]), pl.tick-last, pl.tick)
							break
						}
						last = pl.tick
					}
					if !ok {
						break
					}
					eot, _ := evs[len(evs)-1].(*StructV)
					if eot != nil {
						ms, _ := eot.Fields[fieldIndex(eot.T, "Message")].(*SliceV)
						if ms == nil || !sameMsg(ms, []Val{k8(0xFF), k8(0x2F), k8(0x00)}) {
							fail("track %d does not end with an end-of-track event", ti)
						}
						dl, _ := eot.Fields[fieldIndex(eot.T, "Delta")].(*IntV)
						if dl == nil || !o.St.sameInt(o.St.Convert(dl, 64, true), mkConst(songEnd-last, 64, true)) {
							fail("track %d ends with delta %s after its last event at tick %d, expected %d (the song ends at tick %d = sum of the bar lengths on the 32nd grid)", ti, valString(eot.Fields[fieldIndex(eot.T, "Delta")]), last, songEnd-last, songEnd)
						}
					}
				}
			}
			c.Check(ok, "C20.4", key, p.Pos(fn.Pos()), fmt.Sprintf("%d outcome(s): every track holds exactly the prescribed events at bar start + ticks32*position (note-offs at + ticks32*duration, time signatures at the bars that change it), deltas are tick differences, every track ends at the song end", len(outs)), why)
		}
	}
	_ = token.ADD
}

// runMarker stands for an opaque run inside a flattened message (texts of unknown content).
type runMarker struct{ Run *Run }

func (*runMarker) isVal() {}

// roleFieldIndexOr: index of a (possibly renamed) private field by role, -1 if it cannot be resolved.
func roleFieldIndexOr(p *Program, t *types.Struct, typ, field string) int {
	if i := fieldIndex(t, field); i >= 0 {
		return i
	}
	fv := p.roleField(typ, field)
	if fv == nil {
		return -1
	}
	for i := 0; i < t.NumFields(); i++ {
		if t.Field(i) == fv {
			return i
		}
	}
	return -1
}
