package main

// E-cfg: path rules over go/ssa control flow.

import (
	"go/constant"
	"go/token"
	"go/types"

	"golang.org/x/tools/go/ssa"
)

type edge struct{ from, to *ssa.BasicBlock }

// blockReach computes blocks reachable from start (inclusive), never traversing
// edges in cut and never entering blocks in stop (stop blocks are not expanded,
// but are reported as reached).
func blockReach(start *ssa.BasicBlock, cut map[edge]bool, stop map[*ssa.BasicBlock]bool) map[*ssa.BasicBlock]bool {
	seen := map[*ssa.BasicBlock]bool{start: true}
	work := []*ssa.BasicBlock{start}
	for len(work) > 0 {
		b := work[len(work)-1]
		work = work[:len(work)-1]
		if stop[b] && b != start {
			continue
		}
		for _, s := range b.Succs {
			if cut[edge{b, s}] || seen[s] {
				continue
			}
			seen[s] = true
			work = append(work, s)
		}
	}
	return seen
}

// edgeDominates: every path from the function entry to target traverses edge e.
func edgeDominates(fn *ssa.Function, e edge, target *ssa.BasicBlock) bool {
	if len(fn.Blocks) == 0 {
		return false
	}
	if target == fn.Blocks[0] {
		return false
	}
	r := blockReach(fn.Blocks[0], map[edge]bool{e: true}, nil)
	return !r[target]
}

func instrIndex(i ssa.Instruction) int {
	for k, x := range i.Block().Instrs {
		if x == i {
			return k
		}
	}
	return -1
}

// instrDominates: a executes before b on every path from entry to b.
func instrDominates(a, b ssa.Instruction) bool {
	if a.Block() == b.Block() {
		return instrIndex(a) < instrIndex(b)
	}
	return a.Block().Dominates(b.Block())
}

// canReachAvoiding: is there a path from just after instruction `from` to
// instruction `to` that executes none of the `avoid` instructions?
func canReachAvoiding(from, to ssa.Instruction, avoid map[ssa.Instruction]bool) bool {
	type pt struct {
		b *ssa.BasicBlock
		i int
	}
	seenBlockStart := map[*ssa.BasicBlock]bool{}
	var walk func(b *ssa.BasicBlock, i int) bool
	walk = func(b *ssa.BasicBlock, i int) bool {
		for ; i < len(b.Instrs); i++ {
			in := b.Instrs[i]
			if in == to {
				return true
			}
			if avoid[in] {
				return false
			}
		}
		for _, s := range b.Succs {
			if seenBlockStart[s] {
				continue
			}
			seenBlockStart[s] = true
			if walk(s, 0) {
				return true
			}
		}
		return false
	}
	return walk(from.Block(), instrIndex(from)+1)
}

// canReachFromEntryAvoiding: path from function entry to `to` avoiding all `avoid` instructions.
func canReachFromEntryAvoiding(fn *ssa.Function, to ssa.Instruction, avoid map[ssa.Instruction]bool) bool {
	if len(fn.Blocks) == 0 {
		return false
	}
	seen := map[*ssa.BasicBlock]bool{fn.Blocks[0]: true}
	var walk func(b *ssa.BasicBlock) bool
	walk = func(b *ssa.BasicBlock) bool {
		for _, in := range b.Instrs {
			if in == to {
				return true
			}
			if avoid[in] {
				return false
			}
		}
		for _, s := range b.Succs {
			if !seen[s] {
				seen[s] = true
				if walk(s) {
					return true
				}
			}
		}
		return false
	}
	return walk(fn.Blocks[0])
}

// strip removes representation-only wrappers.
func strip(v ssa.Value) ssa.Value {
	for {
		switch x := v.(type) {
		case *ssa.ChangeType:
			v = x.X
		case *ssa.MakeInterface:
			v = x.X
		case *ssa.ChangeInterface:
			v = x.X
		default:
			return v
		}
	}
}

func constInt(v ssa.Value) (int64, bool) {
	c, ok := strip(v).(*ssa.Const)
	if !ok || c.Value == nil {
		if cv, ok2 := v.(*ssa.Convert); ok2 {
			return constInt(cv.X)
		}
		return 0, false
	}
	if c.Value.Kind() != constant.Int {
		return 0, false
	}
	n, exact := constant.Int64Val(c.Value)
	return n, exact
}

func isNilConst(v ssa.Value) bool {
	c, ok := v.(*ssa.Const)
	return ok && c.Value == nil
}

// calls lists call instructions (incl. go/defer) of a function.
func calls(fn *ssa.Function) []ssa.CallInstruction {
	var out []ssa.CallInstruction
	for _, b := range fn.Blocks {
		for _, in := range b.Instrs {
			if c, ok := in.(ssa.CallInstruction); ok {
				out = append(out, c)
			}
		}
	}
	return out
}

// staticCalleeIs: call resolves statically to pkgPath.name (function) or (recv).name.
func calleeIs(c ssa.CallInstruction, pkgPath, name string) bool {
	f := c.Common().StaticCallee()
	if f == nil {
		return false
	}
	if f.Name() != name {
		return false
	}
	if f.Pkg != nil {
		return f.Pkg.Pkg.Path() == pkgPath
	}
	if o := f.Object(); o != nil && o.Pkg() != nil {
		return o.Pkg().Path() == pkgPath
	}
	return false
}

// funcObjIs checks an ssa.Function against package path and name (methods: "(T).name" form by receiver type name).
func funcIs(f *ssa.Function, pkgPath, recv, name string) bool {
	if f == nil || f.Name() != name {
		return false
	}
	o := f.Object()
	if o == nil || o.Pkg() == nil || o.Pkg().Path() != pkgPath {
		return false
	}
	sig := f.Signature
	if recv == "" {
		return sig.Recv() == nil
	}
	if sig.Recv() == nil {
		return false
	}
	t := sig.Recv().Type()
	if p, ok := t.(*types.Pointer); ok {
		t = p.Elem()
	}
	if n, ok := t.(*types.Named); ok {
		return n.Obj().Name() == recv
	}
	return false
}

// invokeIs: dynamic interface call of method name on an interface type declared as pkgPath.iface (or any if iface=="").
func invokeIs(c ssa.CallInstruction, name string) bool {
	cc := c.Common()
	return cc.IsInvoke() && cc.Method.Name() == name
}

// ifEdges returns, for an If instruction, (trueSucc, falseSucc).
func ifEdges(i *ssa.If) (edge, edge) {
	b := i.Block()
	return edge{b, b.Succs[0]}, edge{b, b.Succs[1]}
}

// condFacts decomposes a boolean SSA value into atomic comparisons that hold when the value is `want`.
// Handles negation (UnOp !) ; && / || are already control flow in SSA.
type cmpFact struct {
	Op   token.Token
	X, Y ssa.Value
}

func negateOp(op token.Token) token.Token {
	switch op {
	case token.EQL:
		return token.NEQ
	case token.NEQ:
		return token.EQL
	case token.LSS:
		return token.GEQ
	case token.GEQ:
		return token.LSS
	case token.GTR:
		return token.LEQ
	case token.LEQ:
		return token.GTR
	}
	return token.ILLEGAL
}

func condFact(v ssa.Value, want bool) (cmpFact, bool) {
	switch x := v.(type) {
	case *ssa.UnOp:
		if x.Op == token.NOT {
			return condFact(x.X, !want)
		}
	case *ssa.BinOp:
		switch x.Op {
		case token.EQL, token.NEQ, token.LSS, token.LEQ, token.GTR, token.GEQ:
			op := x.Op
			if !want {
				op = negateOp(op)
			}
			return cmpFact{op, x.X, x.Y}, true
		}
	}
	return cmpFact{}, false
}

// allReturns lists Return instructions.
func allReturns(fn *ssa.Function) []*ssa.Return {
	var out []*ssa.Return
	for _, b := range fn.Blocks {
		if len(b.Instrs) == 0 {
			continue
		}
		if r, ok := b.Instrs[len(b.Instrs)-1].(*ssa.Return); ok {
			out = append(out, r)
		}
	}
	return out
}

// natural loops: back edges (t -> h) where h dominates t.
type loopInfo struct {
	Head  *ssa.BasicBlock
	Body  map[*ssa.BasicBlock]bool
	Backs []*ssa.BasicBlock
}

func naturalLoops(fn *ssa.Function) []*loopInfo {
	byHead := map[*ssa.BasicBlock]*loopInfo{}
	var order []*ssa.BasicBlock
	for _, b := range fn.Blocks {
		for _, s := range b.Succs {
			if s.Dominates(b) {
				li := byHead[s]
				if li == nil {
					li = &loopInfo{Head: s, Body: map[*ssa.BasicBlock]bool{s: true}}
					byHead[s] = li
					order = append(order, s)
				}
				li.Backs = append(li.Backs, b)
				// collect body: nodes that reach b without passing head
				work := []*ssa.BasicBlock{b}
				for len(work) > 0 {
					n := work[len(work)-1]
					work = work[:len(work)-1]
					if li.Body[n] {
						continue
					}
					li.Body[n] = true
					work = append(work, n.Preds...)
				}
			}
		}
	}
	var out []*loopInfo
	for _, h := range order {
		out = append(out, byHead[h])
	}
	return out
}

// fieldName returns the field name addressed by a FieldAddr/Field.
func fieldOf(v ssa.Value) (string, ssa.Value, bool) {
	switch x := v.(type) {
	case *ssa.FieldAddr:
		st := x.X.Type().Underlying().(*types.Pointer).Elem().Underlying().(*types.Struct)
		return st.Field(x.Field).Name(), x.X, true
	case *ssa.Field:
		st := x.X.Type().Underlying().(*types.Struct)
		return st.Field(x.Field).Name(), x.X, true
	}
	return "", nil, false
}

func namedTypeName(t types.Type) string {
	if p, ok := t.(*types.Pointer); ok {
		t = p.Elem()
	}
	if n, ok := t.(*types.Named); ok {
		return n.Obj().Name()
	}
	return ""
}

func namedTypePkg(t types.Type) string {
	if p, ok := t.(*types.Pointer); ok {
		t = p.Elem()
	}
	if n, ok := t.(*types.Named); ok && n.Obj().Pkg() != nil {
		return n.Obj().Pkg().Path()
	}
	return ""
}

func typesPtr(t types.Type) types.Type { return types.NewPointer(t) }

// retVal: the i-th result of a return, looking through the spill of results into a local cell that go/ssa
// introduces for functions with defer (store to the cell, rundefers, load, return).
func retVal(r *ssa.Return, i int) ssa.Value {
	v := r.Results[i]
	l, ok := v.(*ssa.UnOp)
	if !ok || l.Op != token.MUL {
		return v
	}
	a, ok := l.X.(*ssa.Alloc)
	if !ok {
		return v
	}
	// last store to the cell before the load in the same block
	var last ssa.Value
	for _, in := range l.Block().Instrs {
		if in == ssa.Instruction(l) {
			break
		}
		if st, ok := in.(*ssa.Store); ok && st.Addr == ssa.Value(a) {
			last = st.Val
		}
	}
	if last != nil {
		return last
	}
	return v
}
