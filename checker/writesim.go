package main

// Whole-file simulation of (*SMF).WriteTo on a representative symbolic file (E-abs). Decides, independent of how the
// write path is split into helpers: the header count is len(Tracks) whatever the cached count field holds, format 0 with
// several tracks is promoted to 1 (and nothing else changes the format), every open track is closed before it is
// serialised and a closed one is not closed twice, one chunk per track in order, and on success the reported size is the
// number of bytes handed to the destination.

import (
	"fmt"
	"go/token"
	"go/types"
	"os"
)

type wsEvent struct {
	delta int64
	msg   []Val
}

// runWriteToSim reports obligations under the given rule ids ("" = skip that clause).
func runWriteToSim(c *Ctx, ruleClose, ruleCount, rulePromo, ruleSize, ruleDelta string, ruleFailOpt ...string) {
	ruleFail := ""
	if len(ruleFailOpt) > 0 {
		ruleFail = ruleFailOpt[0]
	}
	p := c.P
	wt := p.Method("smf", "SMF", "WriteTo")
	smfT := p.namedType("smf", "SMF")
	evT := p.namedType("smf", "Event")
	trackT := p.namedType("smf", "Track")
	first := ruleClose
	for _, r := range []string{ruleCount, rulePromo, ruleSize, ruleDelta, ruleFail} {
		if first == "" {
			first = r
		}
	}
	if wt == nil || smfT == nil || evT == nil || trackT == nil {
		c.Unk(first, "WriteTo simulation anchors", "-", "not resolved")
		return
	}
	c.Fn(FuncName(wt))
	type verdict struct {
		ok  bool
		why string
	}
	vClose, vCount, vPromo, vSize, vDelta := verdict{true, ""}, verdict{true, ""}, verdict{true, ""}, verdict{true, ""}, verdict{true, ""}
	nSuccess, nFailed := 0, 0
	vFail := verdict{true, ""}
	var tracks [][]wsEvent
	// the file is written twice: without a logger and with one (any non-nil Logger; its Printf only looks at its
	// arguments) — what is logged must not change what is written
	for _, withLogger := range []bool{false, true} {
		ex := NewExec(p)
		ex.WriterContract = true
		ex.Unroll = 12
		st := ex.NewState()
		k8 := func(v int64) Val { return mkConst(v, 8, false) }
		data := func(n string) *IntV {
			s := ex.syms.Get(n, 8, false)
			st.refineSym(s, 0, 127)
			return mkSym(s)
		}
		eot := []Val{k8(0xFF), k8(0x2F), k8(0x00)}
		tracks = [][]wsEvent{
			{{0x81, []Val{k8(0x91), data("k1"), data("v1")}}, {0x4000, eot}},                                    // closed; two- and three-byte deltas
			{{0x05, []Val{k8(0x82), data("k2"), data("v2")}}},                                                   // open: must be closed by WriteTo
			{{0x00, []Val{k8(0xC3), data("p3")}}, {0x7F, []Val{k8(0xB3), data("c3"), data("w3")}}, {0x00, eot}}, // closed
			// closed; the remaining kinds of events a file can hold: poly and channel pressure, pitch bend, a text meta event,
			// a complete sysex, an F7 (escape / continuation) packet and a meta event of an undefined type — a writer that drops or re-frames one kind shows here
			{{0x03, []Val{k8(0xA4), data("k4"), data("v4")}}, {0x00, []Val{k8(0xD5), data("p5")}}, {0x02, []Val{k8(0xE6), data("l6"), data("m6")}},
				{0x00, []Val{k8(0xFF), k8(0x01), k8(0x02), data("t1"), data("t2")}}, {0x01, []Val{k8(0xF0), data("x1"), data("x2"), k8(0xF7)}},
				{0x00, []Val{k8(0xF7), data("y1")}}, {0x00, []Val{k8(0xFF), k8(0x60), k8(0x01), data("u1")}}, {0x05, eot}}, // FF 60: a meta type the library has no name for
		}
		var tvals []Val
		for _, tr := range tracks {
			var evVals []Val
			for _, e := range tr {
				ev := ex.zeroOf(evT).(*StructV)
				ev.Fields[fieldIndex(ev.T, "Delta")] = mkConst(e.delta, 32, false)
				ev.Fields[fieldIndex(ev.T, "Message")] = ex.mkBytes(st, "m", e.msg, false, 0)
				evVals = append(evVals, ev)
			}
			tid := ex.newObj(st, &ArrayV{Elem: evT, Segs: []Seg{{Elems: evVals}}}, nil)
			n := mkConst(int64(len(tr)), 64, true)
			tvals = append(tvals, &SliceV{Obj: tid, Off: mkConst(0, 64, true), Len: n, Cap: n})
		}
		tsid := ex.newObj(st, &ArrayV{Elem: trackT, Segs: []Seg{{Elems: tvals}}}, nil)
		nT := mkConst(int64(len(tracks)), 64, true)
		sp := ex.newZeroObject(st, smfT)
		fsym := ex.syms.Get("format", 16, false)
		st.refineSym(fsym, 0, 2)
		stale := ex.syms.Get("staleCount", 16, false)
		qs := ex.syms.Get("resolution", 16, false)
		st.refineSym(qs, 1, 32767)
		okSet := ex.setField(st, sp, "Tracks", &SliceV{Obj: tsid, Off: mkConst(0, 64, true), Len: nT, Cap: nT}) &&
			ex.setField(st, sp, "format", mkSym(fsym)) &&
			ex.setField(st, sp, "numTracks", mkSym(stale)) &&
			ex.setField(st, sp, "NoRunningStatus", &BoolV{Known: true, Val: true}) &&
			ex.setField(st, sp, "TimeFormat", &IfaceV{Dyn: p.namedType("smf", "MetricTicks"), V: mkSym(qs)})
		if withLogger {
			okSet = okSet && ex.setField(st, sp, "Logger", &IfaceV{Unk: true, NonNil: true})
		}
		if !okSet {
			c.Unk(first, "WriteTo simulation: fields of SMF (Tracks, format, track count, NoRunningStatus, TimeFormat)", "-", "not resolved")
			return
		}
		// the value may have been written, read or queried before and its exported Tracks changed since: every other
		// unexported field (caches, "finished" latches) holds an arbitrary value left over from earlier calls
		if sv, ok := st.heap[sp.Obj].(*StructV); ok {
			keep := map[int]bool{fieldIndex(sv.T, "format"): true, fieldIndex(sv.T, "numTracks"): true}
			for i := 0; i < sv.T.NumFields(); i++ {
				f := sv.T.Field(i)
				if f.Exported() || keep[i] {
					continue
				}
				sv.Fields[i] = ex.topOf(st, f.Type(), "left-over:"+f.Name())
			}
		}
		if os.Getenv("ABSDEBUG") != "" {
			forkProfile = map[string]int{}
			defer func() {
				for k, v := range forkProfile {
					if v > 50 {
						fmt.Fprintf(os.Stderr, "fork %6d %s\n", v, k)
					}
				}
				forkProfile = nil
			}()
		}
		outs := ex.Call(st, wt, []Val{sp, &IfaceV{Unk: true, NonNil: true}}, nil)
		if ex.Budget || len(outs) == 0 {
			c.Unk(first, "WriteTo simulation", p.Pos(wt.Pos()), fmt.Sprintf("abstract interpretation did not complete (budget=%v outcomes=%d stats=%+v)", ex.Budget, len(outs), ex.Stats))
			return
		}
		for u := range ex.Unsupported {
			c.Unk(first, "WriteTo simulation: "+u, p.Pos(wt.Pos()), "unmodelled construct on the write path")
			return
		}
		// expected chunk bodies (running status off)
		body := func(tr []wsEvent, autoClose bool) []Val {
			var b []Val
			for _, e := range tr {
				b = append(b, vlqConst(e.delta)...)
				if c0, isK := e.msg[0].(*IntV); isK {
					if v, _ := st.ConstOf(c0); v == 0xF0 || v == 0xF7 {
						// SMF framing of sysex / escape events: status, length of what follows as VLQ, the bytes
						b = append(b, e.msg[0])
						b = append(b, vlqConst(int64(len(e.msg)-1))...)
						b = append(b, e.msg[1:]...)
						continue
					}
				}
				b = append(b, e.msg...)
			}
			if autoClose {
				b = append(b, k8(0))
				b = append(b, eot...)
			}
			return b
		}
		for _, o := range outs {
			if o.Panic || len(problemEvents(o.St.Events)) > 0 {
				vClose = verdict{false, "WriteTo may panic on the representative file: " + o.Msg + fmtEvents(problemEvents(o.St.Events))}
				continue
			}
			ev, _ := o.Ret[1].(*IfaceV)
			// C10: the destination rejected (part of) some Write on this path -> the call must end in a definite error
			for _, e := range o.St.Events {
				if e.Kind == "sim:write-failed" {
					nFailed++
					if ev == nil || ev.Nil || (ev.Unk && !ev.NonNil) {
						vFail = verdict{false, "the destination failed at " + e.Pos + " (error or short write) and WriteTo returns " + valString(o.Ret[1]) + ": the failure is swallowed [" + outcomeWitness(o) + "]"}
					}
					break
				}
			}
			if ev == nil || !ev.Nil {
				// a destination failure (what is reported as size then is not part of the statement)
				continue
			}
			nSuccess++
			ws := ex.writesOf(o)
			var all []Val
			flatOK := true
			var total int64
			for _, w := range ws {
				el, okf := flatElems(w)
				if !okf {
					flatOK = false
				}
				all = append(all, el...)
				total += int64(len(el))
			}
			if !flatOK {
				vCount = verdict{false, "bytes handed to the destination are not tracked"}
				continue
			}
			get := func(i int) *IntV {
				if i < len(all) {
					iv, _ := all[i].(*IntV)
					return iv
				}
				return nil
			}
			isC := func(i int, v int64) bool {
				iv := get(i)
				if iv == nil {
					return false
				}
				c, ok := o.St.ConstOf(iv)
				return ok && c == v
			}
			// header: MThd 00000006 ff ff nn nn qq qq
			hdr := "MThd"
			okH := len(all) >= 14
			for i := 0; okH && i < 4; i++ {
				okH = isC(i, int64(hdr[i]))
			}
			okH = okH && isC(4, 0) && isC(5, 0) && isC(6, 0) && isC(7, 6)
			if !okH {
				vCount = verdict{false, "output does not start with the 14-byte MThd chunk"}
				continue
			}
			if !(isC(10, 0) && isC(11, int64(len(tracks)))) {
				vCount = verdict{false, fmt.Sprintf("header declares %s %s tracks for a value holding %d tracks (cached count field = arbitrary stale value): the count is not taken from len(Tracks)", valString(get(10)), valString(get(11)), len(tracks))}
			}
			// format byte: 1 if the source format was 0 (3 tracks), else unchanged
			f := mkSym(fsym)
			wantF := f
			if z, k := o.St.Decide("==", f, mkConst(0, 16, false)); k && z {
				wantF = mkConst(1, 16, false)
			} else if !k {
				vPromo = verdict{false, "the written format does not depend on whether the source format is 0"}
			}
			fb := o.St.beBytes(wantF, 2)
			if get(8) == nil || get(9) == nil || !o.St.sameInt(get(8), fb[0]) || !o.St.sameInt(get(9), fb[1]) {
				vPromo = verdict{false, fmt.Sprintf("format field written as %s %s for source format %s with %d tracks (expected: 0 -> 1, 1 and 2 unchanged)", valString(get(8)), valString(get(9)), o.St.describe(f), len(tracks))}
			}
			// chunks
			pos := 14
			for ti, tr := range tracks {
				last := tr[len(tr)-1].msg
				closed := len(last) == 3 && last[0].(*IntV).T.C == 0xFF && last[1].(*IntV).T.C == 0x2F
				want := body(tr, !closed)
				mtrk := "MTrk"
				okC := pos+8 <= len(all)
				for i := 0; okC && i < 4; i++ {
					okC = isC(pos+i, int64(mtrk[i]))
				}
				if !okC {
					vCount = verdict{false, fmt.Sprintf("no MTrk chunk for track %d: the chunk loop does not flush one chunk per track of the value", ti)}
					break
				}
				okL := isC(pos+4, 0) && isC(pos+5, 0) && isC(pos+6, 0) && isC(pos+7, int64(len(want)))
				got := all[minInt(pos+8, len(all)):minInt(pos+8+len(want), len(all))]
				same := len(got) == len(want)
				for i := 0; same && i < len(want); i++ {
					gi, _ := got[i].(*IntV)
					same = gi != nil && o.St.sameInt(gi, want[i].(*IntV))
				}
				if !okL || !same {
					if !closed {
						vClose = verdict{false, fmt.Sprintf("track %d was left open by the caller: its chunk is %s, expected the events followed by 00 FF 2F 00 (WriteTo closes open tracks before serialising)", ti, arrayStringIn(o.St, &ArrayV{Segs: []Seg{{Elems: all[minInt(pos, len(all)):minInt(pos+8+len(want)+4, len(all))]}}}))}
					} else {
						vClose = verdict{false, fmt.Sprintf("closed track %d is not written as its own events (closed twice, or events altered): %s", ti, arrayStringIn(o.St, &ArrayV{Segs: []Seg{{Elems: all[minInt(pos, len(all)):minInt(pos+8+len(want)+4, len(all))]}}}))}
					}
					vDelta = verdict{false, fmt.Sprintf("chunk of track %d is %s; expected each event as VLQ(its own delta) followed by its bytes, once: %s", ti, arrayStringIn(o.St, &ArrayV{Segs: []Seg{{Elems: all[minInt(pos+8, len(all)):minInt(pos+8+len(want)+4, len(all))]}}}), arrayStringIn(o.St, &ArrayV{Segs: []Seg{{Elems: want}}}))}
					break
				}
				pos += 8 + len(want)
			}
			if vClose.ok && vCount.ok && pos != len(all) {
				vCount = verdict{false, fmt.Sprintf("%d bytes follow the last track chunk", len(all)-pos)}
			}
			// size
			sz, _ := o.Ret[0].(*IntV)
			if sz == nil || !o.St.sameInt(o.St.Convert(sz, 64, true), mkConst(total, 64, true)) {
				vSize = verdict{false, fmt.Sprintf("WriteTo reports %s bytes, %d were handed to the destination", valString(o.Ret[0]), total)}
			}
		}
	} // withLogger
	if nSuccess == 0 {
		vCount = verdict{false, "no successful outcome of WriteTo on the representative file"}
	}
	desc := fmt.Sprintf("representative file: 4 tracks (closed, open, closed, closed; all seven channel kinds, meta, sysex, F7 packet), symbolic format 0..2, arbitrary cached count, without and with a logger, %d successful partition(s)", nSuccess)
	if ruleClose != "" {
		c.Check(vClose.ok && nSuccess > 0, ruleClose, "WriteTo closes open tracks, and only those (whole-file simulation)", p.Pos(wt.Pos()), desc, vClose.why)
	}
	if ruleCount != "" {
		c.Check(vCount.ok, ruleCount, "header count = len(Tracks) = chunks written, in order (whole-file simulation)", p.Pos(wt.Pos()), desc, vCount.why)
	}
	if rulePromo != "" {
		c.Check(vPromo.ok && nSuccess > 0, rulePromo, "format promotion 0 -> 1 and no other change (whole-file simulation)", p.Pos(wt.Pos()), desc, vPromo.why)
	}
	if ruleDelta != "" {
		c.Check(vDelta.ok && vCount.ok && nSuccess > 0, ruleDelta, "every event is written as VLQ(its own delta) followed by its bytes, exactly once (whole-file simulation)", p.Pos(wt.Pos()), desc+"; deltas of one, two and three VLQ bytes", vDelta.why+vCount.why)
	}
	if ruleFail != "" {
		c.Check(vFail.ok && nFailed > 0 && nSuccess > 0, ruleFail, "a destination failure at any Write ends in an error (whole-file simulation)", p.Pos(wt.Pos()), fmt.Sprintf("%d outcomes in which some Write of the destination failed (every Write of header and track chunks, error or short count): all return a definite error; %d outcomes without failure return nil", nFailed, nSuccess), vFail.why)
	}
	if ruleSize != "" {
		c.Check(vSize.ok && nSuccess > 0, ruleSize, "reported size = bytes handed to the destination (whole-file simulation)", p.Pos(wt.Pos()), desc, vSize.why)
	}
	_ = token.ADD
	_ = types.Typ
}

func minInt(a, b int) int {
	if a < b {
		return a
	}
	return b
}

// vlqConst: canonical variable-length quantity of a constant (spec side).
func vlqConst(n int64) []Val {
	out := []Val{mkConst(n&0x7F, 8, false)}
	for n >>= 7; n > 0; n >>= 7 {
		out = append([]Val{mkConst(n&0x7F|0x80, 8, false)}, out...)
	}
	return out
}

// runWriteToSimRS: second representative file, written with running status ENABLED: the status byte of a channel message is
// left out exactly when the previous event of the same track was a channel message with the same status; a sysex in
// between, a meta event in between and a track boundary all force the status byte out again. Expected bytes are
// written from SMF 1.0, the file goes through the real WriteTo in the abstract interpreter.
func runWriteToSimRS(c *Ctx, rule string) {
	p := c.P
	wt := p.Method("smf", "SMF", "WriteTo")
	smfT := p.namedType("smf", "SMF")
	evT := p.namedType("smf", "Event")
	trackT := p.namedType("smf", "Track")
	if wt == nil || smfT == nil || evT == nil || trackT == nil {
		c.Unk(rule, "WriteTo simulation anchors", "-", "not resolved")
		return
	}
	ex := NewExec(p)
	ex.WriterContract = true
	ex.Unroll = 10
	st := ex.NewState()
	k8 := func(v int64) Val { return mkConst(v, 8, false) }
	data := func(n string) *IntV {
		s := ex.syms.Get(n, 8, false)
		st.refineSym(s, 0, 127)
		return mkSym(s)
	}
	eot := []Val{k8(0xFF), k8(0x2F), k8(0x00)}
	k1, v1, k2, v2, k3, v3, k4, v4, k5, v5, a, b := data("k1"), data("v1"), data("k2"), data("v2"), data("k3"), data("v3"), data("k4"), data("v4"), data("k5"), data("v5"), data("a"), data("b")
	type ev struct {
		delta int64
		msg   []Val
		wire  []Val // expected bytes after the delta
	}
	tracks := [][]ev{
		{
			{0, []Val{k8(0x91), k1, v1}, []Val{k8(0x91), k1, v1}},
			{1, []Val{k8(0x91), k2, v2}, []Val{k2, v2}}, // same status: elided
			{2, []Val{k8(0xF0), a, b, k8(0xF7)}, []Val{k8(0xF0), k8(3), a, b, k8(0xF7)}},
			{3, []Val{k8(0x91), k3, v3}, []Val{k8(0x91), k3, v3}}, // after a sysex the status is written again
			{4, []Val{k8(0xFF), k8(0x06), k8(0x00)}, []Val{k8(0xFF), k8(0x06), k8(0x00)}},
			{5, []Val{k8(0x91), k4, v4}, []Val{k8(0x91), k4, v4}}, // after a meta event as well
			{6, eot, eot},
		},
		{
			{0, []Val{k8(0x91), k5, v5}, []Val{k8(0x91), k5, v5}}, // a new track starts with a status byte
			{0, eot, eot},
		},
	}
	var tvals []Val
	for _, tr := range tracks {
		var evVals []Val
		for _, e := range tr {
			v := ex.zeroOf(evT).(*StructV)
			v.Fields[fieldIndex(v.T, "Delta")] = mkConst(e.delta, 32, false)
			v.Fields[fieldIndex(v.T, "Message")] = ex.mkBytes(st, "m", e.msg, false, 0)
			evVals = append(evVals, v)
		}
		tid := ex.newObj(st, &ArrayV{Elem: evT, Segs: []Seg{{Elems: evVals}}}, nil)
		n := mkConst(int64(len(tr)), 64, true)
		tvals = append(tvals, &SliceV{Obj: tid, Off: mkConst(0, 64, true), Len: n, Cap: n})
	}
	tsid := ex.newObj(st, &ArrayV{Elem: trackT, Segs: []Seg{{Elems: tvals}}}, nil)
	nT := mkConst(int64(len(tracks)), 64, true)
	sp := ex.newZeroObject(st, smfT)
	okSet := ex.setField(st, sp, "Tracks", &SliceV{Obj: tsid, Off: mkConst(0, 64, true), Len: nT, Cap: nT}) &&
		ex.setField(st, sp, "format", mkConst(1, 16, false)) &&
		ex.setField(st, sp, "NoRunningStatus", &BoolV{Known: true, Val: false}) &&
		ex.setField(st, sp, "TimeFormat", &IfaceV{Dyn: p.namedType("smf", "MetricTicks"), V: mkConst(480, 16, false)})
	if !okSet {
		c.Unk(rule, "WriteTo simulation (running status): fields of SMF", "-", "not resolved")
		return
	}
	outs := ex.Call(st, wt, []Val{sp, &IfaceV{Unk: true, NonNil: true}}, nil)
	if ex.Budget || len(outs) == 0 {
		c.Unk(rule, "WriteTo simulation (running status)", p.Pos(wt.Pos()), "abstract interpretation did not complete")
		return
	}
	for u := range ex.Unsupported {
		c.Unk(rule, "WriteTo simulation (running status): "+u, p.Pos(wt.Pos()), "unmodelled construct on the write path")
		return
	}
	ok, why, nSucc := true, "", 0
	for _, o := range outs {
		if o.Panic || len(problemEvents(o.St.Events)) > 0 {
			ok, why = false, "WriteTo may panic: "+o.Msg+fmtEvents(problemEvents(o.St.Events))
			continue
		}
		if ev, _ := o.Ret[1].(*IfaceV); ev == nil || !ev.Nil {
			continue
		}
		nSucc++
		var all []Val
		for _, w := range ex.writesOf(o) {
			el, okf := flatElems(w)
			if !okf {
				ok, why = false, "written bytes not tracked"
			}
			all = append(all, el...)
		}
		pos := 14
		for ti, tr := range tracks {
			var want []Val
			for _, e := range tr {
				want = append(want, vlqConst(e.delta)...)
				want = append(want, e.wire...)
			}
			got := all[minInt(pos+8, len(all)):minInt(pos+8+len(want), len(all))]
			same := len(got) == len(want)
			for i := 0; same && i < len(want); i++ {
				gi, _ := got[i].(*IntV)
				same = gi != nil && o.St.sameInt(gi, want[i].(*IntV))
			}
			if !same {
				ok, why = false, fmt.Sprintf("track %d is written as %s, SMF 1.0 running status gives %s (status elided only after a channel message with the same status; written again after sysex, meta and at the start of a track)", ti, arrayStringIn(o.St, &ArrayV{Segs: []Seg{{Elems: all[minInt(pos+8, len(all)):minInt(pos+8+len(want)+3, len(all))]}}}), arrayStringIn(o.St, &ArrayV{Segs: []Seg{{Elems: want}}}))
				break
			}
			pos += 8 + len(want)
		}
		if ok && pos != len(all) {
			ok, why = false, "bytes after the last track chunk"
		}
	}
	c.Check(ok && nSucc > 0, rule, "running status end to end (whole-file simulation, compression on)", p.Pos(wt.Pos()), "2 tracks: same-status run, sysex, meta and track boundary; written bytes equal the SMF 1.0 running-status encoding", why)
}
