package main

// C04 / C06: the live decoder against the MIDI 1.0 receiver model, by one-step simulation:
// for every reference state x input class the step function of the decoder is interpreted
// abstractly from the corresponding implementation state; the events delivered and the
// post-state must be those of the reference transition (DESIGN §3.5, §4 C04/C06).

import (
	"fmt"
	"go/token"
	"go/types"
	"strings"
	"sync"

	"golang.org/x/tools/go/ssa"
)

type refState struct {
	rs   int    // 0 = no running status, 8..14 = channel status of that kind
	pend string // none chan0 chan1 sc1 sc2a sc2b sc3 sysex ignore
	sx   int    // sysex fill class: 0: len <= N-2, 1: len == N-1, 2: len == N (only for pend == sysex with sysex handling on)
}

func (s refState) String() string {
	r := "rs=none"
	if s.rs != 0 {
		r = fmt.Sprintf("rs=%Xn", s.rs)
	}
	x := s.pend
	if s.pend == "sysex" {
		x += []string{"(room>=2)", "(room=1)", "(full)"}[s.sx]
	}
	return r + " pending=" + x
}

func liveRefStates() []refState {
	var out []refState
	for _, k := range []int{0, 8, 9, 0xA, 0xB, 0xC, 0xD, 0xE} {
		out = append(out, refState{k, "none", 0})
		if k != 0 {
			out = append(out, refState{k, "chan0", 0})
			if k != 0xC && k != 0xD {
				out = append(out, refState{k, "chan1", 0})
			}
		}
	}
	for _, p := range []string{"sc1", "sc2a", "sc2b", "sc3", "ignore"} {
		out = append(out, refState{0, p, 0})
	}
	for sx := 0; sx < 3; sx++ {
		out = append(out, refState{0, "sysex", sx})
	}
	return out
}

type liveInput struct {
	name string
	lo   int // byte range of the class
	hi   int
}

func liveInputs() []liveInput {
	in := []liveInput{{"data", 0, 0x7F}}
	for _, k := range []int{8, 9, 0xA, 0xB, 0xC, 0xD, 0xE} {
		in = append(in, liveInput{fmt.Sprintf("status %Xn", k), k << 4, k<<4 | 15})
	}
	for b := 0xF0; b <= 0xFF; b++ {
		in = append(in, liveInput{fmt.Sprintf("%02X", b), b, b})
	}
	return in
}

// expected output message: each byte is "S" (stored status), "b" (input byte), "bf" (stored first data byte), "0", or a constant "F1".
type refOut struct {
	bytes []string
	sysex bool // a sysex delivery of the buffered bytes + F7
}

type refStep struct {
	post  refState
	outs  []refOut
	newRS string // "" unchanged, "0" cleared, "b" input byte
	bf    string // "" don't care, "b" input
	sxLen string // "" n/a, "+1", "1" (restart)
	sxTS  string // "" n/a, "now", "same"
}

// refTransition: the MIDI 1.0 receiver model (DESIGN C04.3 / C06.2).
func refTransition(s refState, in liveInput, handleSysex bool) refStep {
	b := in.lo
	st := refStep{post: s}
	// real-time: anywhere, touches nothing; FD (undefined) delivers nothing; F9 is documented by the library as Tick
	if b >= 0xF8 {
		if b != 0xFD {
			st.outs = []refOut{{bytes: []string{"b"}}}
		}
		return st
	}
	twoData := func(k int) bool { return k != 0xC && k != 0xD }
	switch {
	case in.name == "data":
		switch s.pend {
		case "none":
			if s.rs == 0 {
				return st // data without status: ignored
			}
			if twoData(s.rs) {
				st.post.pend = "chan1"
				st.bf = "b"
			} else {
				st.outs = []refOut{{bytes: []string{"S", "b", "0"}}}
			}
		case "chan0":
			if twoData(s.rs) {
				st.post.pend = "chan1"
				st.bf = "b"
			} else {
				st.outs = []refOut{{bytes: []string{"S", "b", "0"}}}
				st.post.pend = "none"
			}
		case "chan1":
			st.outs = []refOut{{bytes: []string{"S", "bf", "b"}}}
			st.post.pend = "none"
		case "sc1":
			st.outs = []refOut{{bytes: []string{"F1", "b", "0"}}}
			st.post.pend = "none"
		case "sc3":
			st.outs = []refOut{{bytes: []string{"F3", "b", "0"}}}
			st.post.pend = "none"
		case "sc2a":
			st.post.pend = "sc2b"
			st.bf = "b"
		case "sc2b":
			st.outs = []refOut{{bytes: []string{"F2", "bf", "b"}}}
			st.post.pend = "none"
		case "sysex":
			if handleSysex {
				if s.sx == 2 {
					st.post = refState{0, "ignore", 0} // would exceed the buffer: dropped as a whole
				} else {
					st.sxLen = "+1"
					st.sxTS = "same"
					st.post.sx = -1 // any class consistent with len+1
				}
			} else {
				st.sxTS = "same"
			}
		case "ignore":
		}
		return st
	case b >= 0x80 && b <= 0xEF:
		st.post = refState{b >> 4, "chan0", 0}
		st.newRS = "b"
		return st
	}
	// F0..F7
	st.newRS = "0"
	st.post.rs = 0
	switch b {
	case 0xF0:
		st.post = refState{0, "sysex", -1}
		st.sxLen = "1"
		st.sxTS = "now"
	case 0xF1:
		st.post.pend = "sc1"
	case 0xF2:
		st.post.pend = "sc2a"
	case 0xF3:
		st.post.pend = "sc3"
	case 0xF4, 0xF5:
		st.post.pend = "ignore"
	case 0xF6:
		st.post.pend = "none"
		st.outs = []refOut{{bytes: []string{"F6", "0", "0"}}}
	case 0xF7:
		if s.pend == "sysex" && handleSysex && s.sx != 2 {
			st.outs = []refOut{{sysex: true}}
		}
		st.post.pend = "none"
	}
	return st
}

var pendState = map[string]int64{"none": 0, "chan0": 1, "chan1": 1, "sc1": 2, "sc2a": 2, "sc2b": 2, "sc3": 2, "sysex": 3, "ignore": 4}

type liveCellResult struct {
	key     string
	okSim   bool
	why     string
	panics  string
	wellBad string
}

// findLiveStep: the function applied to each byte inside the range loop of (*drivers.Reader).EachMessage.
func findLiveStep(p *Program) (*ssa.Function, *ssa.Function) {
	rT := p.namedType("drivers", "Reader")
	if rT == nil {
		return nil, nil
	}
	em := p.MethodOf(types.NewPointer(rT), "EachMessage")
	if em == nil {
		return nil, nil
	}
	var step *ssa.Function
	for _, l := range naturalLoops(em) {
		for b := range l.Body {
			for _, in := range b.Instrs {
				if call, ok := in.(*ssa.Call); ok {
					if f := call.Common().StaticCallee(); f != nil && InModule(f) && len(call.Common().Args) == 2 {
						step = f
					}
				}
			}
		}
	}
	return em, step
}

func runLiveCell(p *Program, step *ssa.Function, s refState, in liveInput, hs bool) liveCellResult {
	res := liveCellResult{key: fmt.Sprintf("%s, input %s, sysex handling %v", s, in.name, hs), okSim: true}
	rT := p.namedType("drivers", "Reader")
	ex := NewExec(p)
	ex.Unroll = 2
	ex.WidenAtEntry = true
	st := ex.NewState()
	rp := ex.newZeroObject(st, rT)
	set := func(n string, v Val) {
		if !ex.setField(st, rp, n, v) {
			res.okSim = false
			res.why = "decoder has no field " + n
		}
	}
	// implementation state corresponding to s
	set("state", mkConst(pendState[s.pend], 64, true))
	var S *IntV = mkConst(0, 8, false)
	if s.rs != 0 {
		sy := ex.syms.Get("S", 8, false)
		st.refineSym(sy, int64(s.rs)<<4, int64(s.rs)<<4|15)
		S = mkSym(sy)
	}
	set("statusByte", S)
	switch {
	case s.rs != 0:
		set("typ", mkConst(int64(s.rs), 8, false))
	case s.pend == "sc1":
		set("typ", mkConst(0xF1, 8, false))
	case s.pend == "sc2a" || s.pend == "sc2b":
		set("typ", mkConst(0xF2, 8, false))
	case s.pend == "sc3":
		set("typ", mkConst(0xF3, 8, false))
	default:
		set("typ", ex.byteSym("stale-typ"))
	}
	set("issetBf", &BoolV{Known: true, Val: s.pend == "chan1" || s.pend == "sc2b"})
	bfTok := ex.byteSym("bf")
	st.refineSym(bfTok.T.Syms[0], 0, 127)
	set("bf", bfTok)
	now := mkSym(ex.syms.Get("now", 32, true))
	sxts := mkSym(ex.syms.Get("sxts", 32, true))
	set("ts_ms", now)
	set("sysexTS", sxts)
	set("HandleSysex", &BoolV{Known: true, Val: hs})
	set("OnMsg", &FuncV{Ext: "OnMsg"})
	set("OnErr", &FuncV{Ext: "OnErr"})
	Ns := ex.syms.Get("N", 32, false)
	st.refineSym(Ns, 1, 1<<24)
	N := mkSym(Ns)
	set("SysExBufferSize", N)
	N64 := st.Convert(N, 64, true)
	var L *IntV
	if s.pend == "sysex" {
		Ls := ex.syms.Get("L", 64, true)
		L = mkSym(Ls)
		st.refineSym(Ls, 1, 1<<24)
		if hs {
			switch s.sx {
			case 0:
				st.refineSym(Ns, 3, 1<<24)
				st.Assume("<=", st.Arith(token.ADD, L, mkConst(2, 64, true), ""), N64)
			case 1:
				st.refineSym(Ns, 2, 1<<24)
				L = st.Arith(token.SUB, N64, mkConst(1, 64, true), "")
			case 2:
				L = N64
			}
		} else {
			L = mkConst(1, 64, true)
		}
		arr := &ArrayV{Elem: types.Typ[types.Uint8], Segs: normSegs([]Seg{{Run: &Run{Src: "sx", Off: constTerm(0), Len: st.TermOf(L)}}, {Run: &Run{Src: "0", Off: constTerm(0), Len: termAdd(st.TermOf(N64), st.TermOf(L), -1), Elem: mkConst(0, 8, false)}}})}
		id := ex.newObj(st, arr, nil)
		set("sysexBf", &SliceV{Obj: id, Off: mkConst(0, 64, true), Len: N64, Cap: N64})
		set("sysexlen", L)
	} else {
		set("sysexlen", mkConst(0, 64, true))
	}
	if !res.okSim {
		return res
	}
	// input byte
	var b *IntV
	if in.lo == in.hi {
		b = mkConst(int64(in.lo), 8, false)
	} else {
		bs := ex.syms.Get("b", 8, false)
		st.refineSym(bs, int64(in.lo), int64(in.hi))
		b = mkSym(bs)
	}
	want := refTransition(s, in, hs)
	outs := ex.Call(st, step, []Val{rp, b}, nil)
	if ex.Budget || len(outs) == 0 {
		res.okSim = false
		res.why = "abstract interpretation did not complete"
		return res
	}
	for u := range ex.Unsupported {
		if !strings.HasPrefix(u, "recursion") {
			res.okSim = false
			res.why = "unmodelled construct: " + u
		}
	}
	tok := func(o *State, t string) *IntV {
		switch t {
		case "S":
			return S
		case "b":
			return b
		case "bf":
			return bfTok
		case "0":
			return mkConst(0, 8, false)
		}
		var v int64
		fmt.Sscanf(t, "%X", &v)
		return mkConst(v, 8, false)
	}
	fail := func(f string, a ...interface{}) {
		if res.okSim {
			res.okSim = false
			res.why = fmt.Sprintf(f, a...)
		}
	}
	for _, o := range outs {
		if o.Panic {
			res.panics = o.Msg + " @" + o.Pos
			continue
		}
		if pe := problemEvents(o.St.Events); len(pe) > 0 {
			// a callback that may be nil is the caller's contract (OnMsg is set by NewReader); bounds are ours
			var real []Event
			for _, e := range pe {
				if e.Kind != "call:unknown-func" {
					real = append(real, e)
				}
			}
			if len(real) > 0 {
				res.panics = fmtEvents(real)
				continue
			}
		}
		// delivered events
		var got []Event
		for _, e := range o.St.Events {
			if e.Kind == "call:OnMsg" {
				got = append(got, e)
			}
		}
		if len(got) != len(want.outs) {
			fail("delivers %d message(s), the receiver model delivers %d", len(got), len(want.outs))
			// well-formedness of what is delivered anyway
		}
		for i, e := range got {
			msg, _ := e.Args[0].(*SliceV)
			ts, _ := e.Args[1].(*IntV)
			segs, okS := ex.sliceSegs(o.St, msg)
			// C06.4 well-formedness: non-empty, status first, data <= 127
			if msg == nil || !okS {
				res.wellBad = "delivered message not tracked"
				continue
			}
			if lo, _ := o.St.Range(msg.Len); lo < 1 {
				res.wellBad = "an empty message may be delivered"
			}
			// the receiver may keep what it is given: the message must be freshly allocated by this step and the decoder
			// must not keep a reference to it (a scratch buffer of the decoder is rewritten by a later message)
			// (a buffer allocated earlier may be handed over, provided the decoder drops every reference to it)
			if len(msg.Path) > 0 || msg.Obj == rp.Obj || ex.isGlobalObj(msg.Obj) {
				fail("the delivered message shares storage with the decoder (a scratch buffer inside the decoder or a package-level buffer): a message the receiver keeps is overwritten later")
			} else if sv, ok := o.St.heap[rp.Obj].(*StructV); ok {
				for _, fv := range sv.Fields {
					switch x := fv.(type) {
					case *SliceV:
						if !x.Nil && !x.Unk && x.Obj == msg.Obj {
							fail("the decoder keeps a reference to the delivered message")
						}
					case *PtrV:
						if !x.Nil && !x.Unk && x.Obj == msg.Obj {
							fail("the decoder keeps a reference to the delivered message")
						}
					}
				}
			}
			if len(segs) > 0 && segs[0].Run == nil && len(segs[0].Elems) > 0 {
				if f0, ok := segs[0].Elems[0].(*IntV); ok && !(i < len(want.outs) && want.outs[i].sysex) {
					if lo, _ := o.St.Range(f0); lo < 0x80 {
						res.wellBad = fmt.Sprintf("a message whose first byte may be a data byte (%s) is delivered", o.St.describe(f0))
					}
				}
				isSx := i < len(want.outs) && want.outs[i].sysex
				if f0, ok := segs[0].Elems[0].(*IntV); ok && !isSx {
					if c0, isC := o.St.ConstOf(f0); isC && c0 == 0xF0 {
						isSx = true // sysex content is tracked in step with the buffer, not element-wise
					}
				}
				for j := 1; j < len(segs[0].Elems) && !isSx; j++ {
					if dv, ok := segs[0].Elems[j].(*IntV); ok {
						if _, hi := o.St.Range(dv); hi > 127 {
							// the trailing F7 of a sysex is legal
							if c, isC := o.St.ConstOf(dv); !(isC && c == 0xF7) {
								res.wellBad = fmt.Sprintf("a delivered message may carry a status byte in a data position (%s)", o.St.describe(dv))
							}
						}
					}
				}
			}
			if i >= len(want.outs) {
				continue
			}
			w := want.outs[i]
			if w.sysex {
				wantLen := o.St.Arith(token.ADD, L, mkConst(1, 64, true), "")
				if !o.St.sameInt(msg.Len, wantLen) {
					fail("sysex delivered with length %s, expected buffered length + 1 (%s)", msg.Len, wantLen)
				}
				if ts == nil || !o.St.sameInt(ts, sxts) {
					fail("sysex delivered with time stamp %s, expected the time captured at its first byte", valString(e.Args[1]))
				}
				// content: the buffered bytes in order, then F7
				wantSegs := []Seg{{Run: &Run{Src: "sx", Off: constTerm(0), Len: o.St.TermOf(L)}}, {Elems: []Val{mkConst(0xF7, 8, false)}}}
				if why := segsDiffer(o.St, segs, wantSegs); why != "" {
					fail("sysex delivered as %s, expected the %s buffered bytes followed by F7 (%s)", arrayStringIn(o.St, &ArrayV{Segs: segs}), L, why)
				}
				// and it must be a copy: the decoder keeps (or frees) its buffer, the receiver may keep the message
				if bfv, _ := ex.getField(o.St, rp, "sysexBf"); bfv != nil {
					if sl, _ := bfv.(*SliceV); sl != nil && !sl.Nil && !sl.Unk && sl.Obj == msg.Obj {
						fail("the delivered sysex aliases the decoder's buffer")
					}
				}
				continue
			}
			elems, flat := flatElems(segs)
			if !flat || len(elems) != len(w.bytes) {
				fail("delivers %s, expected %v", arrayString(&ArrayV{Segs: segs}), w.bytes)
				continue
			}
			for j, t := range w.bytes {
				iv, _ := elems[j].(*IntV)
				if iv == nil || !o.St.sameInt(iv, tok(o.St, t)) {
					fail("delivers %s, expected %v (byte %d differs)", arrayStringIn(o.St, &ArrayV{Segs: segs}), w.bytes, j)
				}
			}
			if ts == nil || !o.St.sameInt(ts, now) {
				fail("message stamped with %s instead of the current chunk time", valString(e.Args[1]))
			}
		}
		// post state
		getI := func(n string) *IntV { v, _ := ex.getField(o.St, rp, n); iv, _ := v.(*IntV); return iv }
		getB := func(n string) (bool, bool) {
			v, _ := ex.getField(o.St, rp, n)
			bv, _ := v.(*BoolV)
			if bv == nil {
				return false, false
			}
			return o.St.boolOf(bv)
		}
		if sv := getI("state"); sv == nil || !o.St.sameInt(sv, mkConst(pendState[want.post.pend], 64, true)) {
			fail("decoder goes to state %s, the receiver model to %s", valString(sv), want.post)
		}
		wantRS := S
		switch want.newRS {
		case "0":
			wantRS = mkConst(0, 8, false)
		case "b":
			wantRS = b
		}
		if sv := getI("statusByte"); sv == nil || !o.St.sameInt(sv, wantRS) {
			fail("running status becomes %s, must be %s", valString(sv), wantRS)
		}
		if want.post.rs != 0 {
			if tv := getI("typ"); tv == nil || !o.St.sameInt(tv, mkConst(int64(want.post.rs), 8, false)) {
				fail("message kind register %s does not match the running status kind %X", valString(tv), want.post.rs)
			}
		}
		switch want.post.pend {
		case "sc1", "sc2a", "sc2b", "sc3":
			k := map[string]int64{"sc1": 0xF1, "sc2a": 0xF2, "sc2b": 0xF2, "sc3": 0xF3}[want.post.pend]
			if tv := getI("typ"); tv == nil || !o.St.sameInt(tv, mkConst(k, 8, false)) {
				fail("system-common kind register is %s, must be %X", valString(tv), k)
			}
		}
		wantSet := want.post.pend == "chan1" || want.post.pend == "sc2b"
		if v, k := getB("issetBf"); !k || v != wantSet {
			fail("first-data-byte flag is %v after the step, must be %v (a stale flag corrupts the next message)", v, wantSet)
		}
		if want.bf == "b" {
			if bv := getI("bf"); bv == nil || !o.St.sameInt(bv, b) {
				fail("the first data byte is not captured")
			}
		}
		if tv := getI("ts_ms"); tv == nil || !o.St.sameInt(tv, now) {
			fail("the step changes the clock")
		}
		if want.post.pend == "sysex" {
			ln := getI("sysexlen")
			var wl *IntV
			switch want.sxLen {
			case "1":
				wl = mkConst(1, 64, true)
			case "+1":
				wl = o.St.Arith(token.ADD, L, mkConst(1, 64, true), "")
			default:
				wl = L
			}
			if ln == nil || wl == nil || !o.St.sameInt(ln, wl) {
				fail("sysex length becomes %s, must be %s", valString(ln), wl)
			}
			tsv := getI("sysexTS")
			wt := sxts
			if want.sxTS == "now" {
				wt = now
			}
			if tsv == nil || !o.St.sameInt(tsv, wt) {
				fail("sysex time stamp becomes %s, must be %s", valString(tsv), wt)
			}
			bfv, _ := ex.getField(o.St, rp, "sysexBf")
			sl, _ := bfv.(*SliceV)
			if sl == nil || sl.Nil || !o.St.sameInt(sl.Len, N64) {
				fail("sysex buffer is not an N-byte buffer while a sysex is pending")
			} else if hs && ln != nil {
				// buffered content: F0 alone after a (re)start, otherwise the bytes buffered so far, plus the input byte if it was appended
				var wantSegs []Seg
				switch want.sxLen {
				case "1":
					wantSegs = []Seg{{Elems: []Val{mkConst(0xF0, 8, false)}}}
				case "+1":
					wantSegs = []Seg{{Run: &Run{Src: "sx", Off: constTerm(0), Len: o.St.TermOf(L)}}, {Elems: []Val{b}}}
				default:
					wantSegs = []Seg{{Run: &Run{Src: "sx", Off: constTerm(0), Len: o.St.TermOf(L)}}}
				}
				pre := &SliceV{Obj: sl.Obj, Path: sl.Path, Off: sl.Off, Len: ln, Cap: ln}
				gotSegs, okG := ex.sliceSegs(o.St, pre)
				if !okG {
					fail("sysex buffer content not tracked")
				} else if why := segsDiffer(o.St, gotSegs, wantSegs); why != "" {
					fail("sysex buffer holds %s after the step, expected %s (%s)", arrayStringIn(o.St, &ArrayV{Segs: gotSegs}), arrayStringIn(o.St, &ArrayV{Segs: wantSegs}), why)
				}
			}
		}
	}
	return res
}

func liveSimulation(c *Ctx, ruleSim, rulePanic, ruleWell string, onlyWellFormedInputs bool) {
	p := c.P
	em, step := findLiveStep(p)
	if em == nil || step == nil {
		c.Unk(ruleSim, "live decoder step (role: applied to each byte in EachMessage)", "-", "not resolved")
		return
	}
	c.Fn(FuncName(em))
	c.Fn(FuncName(step))
	for _, f := range p.Reachable(step) {
		c.Fn(FuncName(f))
	}
	type job struct {
		s  refState
		in liveInput
		hs bool
	}
	var jobs []job
	for _, s := range liveRefStates() {
		for _, in := range liveInputs() {
			for _, hs := range []bool{true, false} {
				if !hs && s.pend == "sysex" && s.sx != 0 {
					continue
				}
				jobs = append(jobs, job{s, in, hs})
			}
		}
	}
	results := make([]liveCellResult, len(jobs))
	var wg sync.WaitGroup
	sem := make(chan bool, 16)
	for i := range jobs {
		wg.Add(1)
		sem <- true
		go func(i int) {
			defer wg.Done()
			defer func() { <-sem }()
			defer func() {
				if r := recover(); r != nil {
					results[i] = liveCellResult{key: "checker", okSim: false, why: fmt.Sprintf("checker panic: %v", r)}
				}
			}()
			results[i] = runLiveCell(p, step, jobs[i].s, jobs[i].in, jobs[i].hs)
		}(i)
	}
	wg.Wait()
	// aggregate per reference state
	type agg struct {
		n, bad, pan, well int
		why, pwhy, wwhy   string
	}
	by := map[string]*agg{}
	var order []string
	for i, r := range results {
		k := jobs[i].s.String()
		a := by[k]
		if a == nil {
			a = &agg{}
			by[k] = a
			order = append(order, k)
		}
		a.n++
		if !r.okSim {
			a.bad++
			if a.why == "" {
				a.why = r.key + ": " + r.why
			}
		}
		if r.panics != "" {
			a.pan++
			if a.pwhy == "" {
				a.pwhy = r.key + ": " + r.panics
			}
		}
		if r.wellBad != "" {
			a.well++
			if a.wwhy == "" {
				a.wwhy = r.key + ": " + r.wellBad
			}
		}
	}
	states, transitions := 0, 0
	for _, k := range order {
		a := by[k]
		states++
		transitions += a.n
		if ruleSim != "" {
			c.Check(a.bad == 0, ruleSim, "receiver state "+k, p.Pos(step.Pos()), fmt.Sprintf("%d (input class, sysex option) cells: delivered messages, time stamps and next state equal the MIDI 1.0 receiver model", a.n), fmt.Sprintf("%d of %d cells deviate; first: %s", a.bad, a.n, a.why))
		}
		if rulePanic != "" {
			c.Check(a.pan == 0, rulePanic, "no panic from state "+k, p.Pos(step.Pos()), fmt.Sprintf("%d cells: no reachable panic, every index proven in range", a.n), fmt.Sprintf("%d of %d cells can panic; first: %s", a.pan, a.n, a.pwhy))
		}
		if ruleWell != "" {
			c.Check(a.well == 0, ruleWell, "well-formed deliveries from state "+k, p.Pos(step.Pos()), "every delivered message is non-empty, starts with a status byte and has only data bytes behind it", fmt.Sprintf("%d of %d cells; first: %s", a.well, a.n, a.wwhy))
		}
	}
	c.Extra["states"] = states
	c.Extra["transitions"] = transitions
	c.Extra["traces_validated_against_impl"] = 0
}

// segsDiffer compares two segment lists structurally in a state ("" = equal): same sequence of known elements
// (pairwise equal) and opaque runs (same source, offset and length), zero-length runs ignored.
func segsDiffer(st *State, got, want []Seg) string {
	flat := func(segs []Seg) []interface{} {
		var out []interface{}
		for _, s := range st.dropEmptyRuns(segs) {
			if s.Run != nil {
				out = append(out, s.Run)
				continue
			}
			for _, e := range s.Elems {
				out = append(out, e)
			}
		}
		return out
	}
	g, w := flat(got), flat(want)
	if len(g) != len(w) {
		return fmt.Sprintf("%d pieces instead of %d", len(g), len(w))
	}
	for i := range g {
		switch x := g[i].(type) {
		case *Run:
			y, ok := w[i].(*Run)
			if !ok || x.Src != y.Src || !termEq(x.Off, y.Off) || !termEq(x.Len, y.Len) {
				return fmt.Sprintf("piece %d is not the expected run", i)
			}
		case Val:
			y, ok := w[i].(Val)
			xi, _ := x.(*IntV)
			yi, _ := y.(*IntV)
			if !ok || xi == nil || yi == nil || !st.sameInt(xi, yi) {
				return fmt.Sprintf("byte %d differs", i)
			}
		}
	}
	return ""
}
