package main

import (
	"fmt"
	"math"
	"math/bits"
)

// State: one trace partition of the abstract execution.
type State struct {
	ex     *Exec
	rng    map[*Sym][2]int64  // refined ranges
	kb     map[*Sym][2]uint64 // known bits of symbols: [zeros mask, ones mask]
	facts  []*Term            // each: term <= 0
	neq    []*Term            // each: term != 0
	heap   map[int]Val
	Events []Event
	Trace  []string        // branch decisions (witness)
	nilF   map[Val]bool    // identity-keyed facts about unknown pointers/interfaces/funcs/slices: true = nil
	boolF  map[*BoolV]bool // identity-keyed facts about opaque unknown booleans
}

type Event struct {
	Kind string // "call:<name>", "panic", "wrap", "oob", ...
	Recv Val    // dynamic calls on a receiver that is not analysed: the receiver value
	Args []Val
	Pos  string
	Msg  string
}

func (st *State) Clone() *State {
	n := &State{ex: st.ex, rng: make(map[*Sym][2]int64, len(st.rng)), kb: make(map[*Sym][2]uint64, len(st.kb)), heap: make(map[int]Val, len(st.heap))}
	for k, v := range st.rng {
		n.rng[k] = v
	}
	for k, v := range st.kb {
		n.kb[k] = v
	}
	n.facts = append([]*Term(nil), st.facts...)
	n.neq = append([]*Term(nil), st.neq...)
	for k, v := range st.heap {
		n.heap[k] = cloneVal(v)
	}
	if len(st.nilF) > 0 {
		n.nilF = make(map[Val]bool, len(st.nilF))
		for k, v := range st.nilF {
			n.nilF[k] = v
		}
	}
	if len(st.boolF) > 0 {
		n.boolF = make(map[*BoolV]bool, len(st.boolF))
		for k, v := range st.boolF {
			n.boolF[k] = v
		}
	}
	n.Events = append([]Event(nil), st.Events...)
	n.Trace = append([]string(nil), st.Trace...)
	return n
}

func cloneVal(v Val) Val {
	switch x := v.(type) {
	case *StructV:
		n := &StructV{T: x.T, Fields: make([]Val, len(x.Fields))}
		for i, f := range x.Fields {
			n.Fields[i] = cloneVal(f)
		}
		return n
	case *ArrayV:
		n := &ArrayV{Elem: x.Elem, Segs: make([]Seg, len(x.Segs))}
		for i, s := range x.Segs {
			if s.Run != nil {
				n.Segs[i] = Seg{Run: s.Run}
			} else {
				es := make([]Val, len(s.Elems))
				for j, e := range s.Elems {
					es[j] = cloneVal(e)
				}
				n.Segs[i] = Seg{Elems: es}
			}
		}
		return n
	case *BufV:
		return &BufV{Data: cloneVal(x.Data).(*ArrayV), Handed: append([]int(nil), x.Handed...)}
	case *RdrV:
		return &RdrV{Src: x.Src, Pos: x.Pos, Failed: x.Failed, Source: x.Source}
	case *MapV:
		if x.Const {
			return x
		}
		if x.Dyn {
			// tracked maps are replaced, never mutated, on update: the value can be shared
			return x
		}
		return &MapV{Unk: true, ElemT: x.ElemT}
	}
	return v
}

// ---------------------------------------------------------------- ranges

func satAdd(a, b int64) (int64, bool) {
	c := a + b
	if (a > 0 && b > 0 && c < 0) || (a < 0 && b < 0 && c >= 0) {
		return 0, false
	}
	return c, true
}

func satMul(a, b int64) (int64, bool) {
	if a == 0 || b == 0 {
		return 0, true
	}
	hi, lo := bits.Mul64(uint64(abs64(a)), uint64(abs64(b)))
	if hi != 0 || lo > math.MaxInt64 {
		return 0, false
	}
	r := int64(lo)
	if (a < 0) != (b < 0) {
		r = -r
	}
	return r, true
}

func abs64(a int64) int64 {
	if a < 0 {
		if a == math.MinInt64 {
			return math.MaxInt64
		}
		return -a
	}
	return a
}

func (st *State) SymRange(s *Sym) (int64, int64) {
	lo, hi := s.Lo, s.Hi
	if r, ok := st.rng[s]; ok {
		lo, hi = max64(lo, r[0]), min64(hi, r[1])
	}
	if s.DefTerm != nil {
		l2, h2, ok := st.termRange(s.DefTerm)
		if ok {
			lo, hi = max64(lo, l2), min64(hi, h2)
		}
	}
	if s.DefBits != nil {
		l2, h2, ok := st.bitsRange(s.DefBits, s.Signed)
		if ok {
			lo, hi = max64(lo, l2), min64(hi, h2)
		}
	}
	if k, ok := st.kb[s]; ok && lo >= 0 {
		// ones mask gives a lower bound, zeros mask an upper bound
		if int64(k[1]) > lo {
			lo = int64(k[1])
		}
		m := ^k[0]
		if s.W < 64 {
			m &= (1 << uint(s.W)) - 1
		} else {
			m &= math.MaxInt64
		}
		if int64(m) < hi {
			hi = int64(m)
		}
	}
	return lo, hi
}

func max64(a, b int64) int64 {
	if a > b {
		return a
	}
	return b
}
func min64(a, b int64) int64 {
	if a < b {
		return a
	}
	return b
}

// termRange evaluates an affine term over the symbol ranges; ok=false on overflow.
func (st *State) termRange(t *Term) (lo, hi int64, ok bool) {
	lo, hi = t.C, t.C
	for i, s := range t.Syms {
		sl, sh := st.SymRange(s)
		c := t.Coefs[i]
		a, ok1 := satMul(sl, c)
		b, ok2 := satMul(sh, c)
		if !ok1 || !ok2 {
			return 0, 0, false
		}
		if a > b {
			a, b = b, a
		}
		var o1, o2 bool
		lo, o1 = satAdd(lo, a)
		hi, o2 = satAdd(hi, b)
		if !o1 || !o2 {
			return 0, 0, false
		}
	}
	return lo, hi, true
}

// normBit resolves a symbolic bit against the state's knowledge about the symbol.
func (st *State) normBit(b Bit) Bit {
	if b.K != BSym {
		return b
	}
	s := b.S
	if s.Summary {
		return Bit{K: BTop}
	}
	if k, ok := st.kb[s]; ok {
		if k[0]&(1<<b.J) != 0 {
			return Bit{K: B0}
		}
		if k[1]&(1<<b.J) != 0 {
			return Bit{K: B1}
		}
	}
	if s.DefBits != nil && int(b.J) < len(s.DefBits) {
		d := st.normBit(s.DefBits[b.J])
		if d.K != BTop {
			return d
		}
	}
	lo, hi := st.SymRange(s)
	if lo >= 0 {
		// bits above the common prefix of lo and hi are known
		x := uint64(lo) ^ uint64(hi)
		top := 64 - bits.LeadingZeros64(x) // bits >= top agree
		if int(b.J) >= top {
			if (uint64(lo)>>b.J)&1 == 1 {
				return Bit{K: B1}
			}
			return Bit{K: B0}
		}
	} else if hi < 0 && s.Signed {
		x := uint64(lo) ^ uint64(hi)
		top := 64 - bits.LeadingZeros64(x)
		if int(b.J) >= top {
			if (uint64(lo)>>b.J)&1 == 1 {
				return Bit{K: B1}
			}
			return Bit{K: B0}
		}
	}
	return b
}

func (st *State) normBits(bs []Bit) []Bit {
	out := make([]Bit, len(bs))
	for i, b := range bs {
		out[i] = st.normBit(b)
	}
	return out
}

// bitsRange: range implied by a bit pattern.
func (st *State) bitsRange(bs []Bit, signed bool) (lo, hi int64, ok bool) {
	w := len(bs)
	var mn, mx uint64
	for i, b := range bs {
		nb := st.normBit(b)
		switch nb.K {
		case B1:
			mn |= 1 << uint(i)
			mx |= 1 << uint(i)
		case B0:
		default:
			mx |= 1 << uint(i)
		}
	}
	if signed {
		top := st.normBit(bs[w-1])
		switch top.K {
		case B0:
			return int64(mn), int64(mx), true
		case B1:
			return signExtend(mn, w, true), signExtend(mx, w, true), true
		default:
			l, h := typeRange(w, true)
			return l, h, true
		}
	}
	if w >= 64 && mx > math.MaxInt64 {
		mx = math.MaxInt64
	}
	return int64(mn), int64(mx), true
}

// Range of an integer value in this state (in the value's own type interpretation).
func (st *State) Range(v *IntV) (int64, int64) {
	lo, hi := typeRange(v.W, v.Signed)
	if v.T != nil {
		if l, h, ok := st.termRange(v.T); ok {
			lo, hi = max64(lo, l), min64(hi, h)
		}
	}
	if v.Bits != nil {
		if l, h, ok := st.bitsRange(v.Bits, v.Signed); ok {
			lo, hi = max64(lo, l), min64(hi, h)
		}
	}
	return lo, hi
}

func (st *State) ConstOf(v *IntV) (int64, bool) {
	if c, ok := v.Const(); ok {
		return c, true
	}
	lo, hi := st.Range(v)
	if lo == hi {
		return lo, true
	}
	if v.Bits != nil {
		nb := st.normBits(v.Bits)
		if c, ok := (&IntV{W: v.W, Signed: v.Signed, Bits: nb}).Const(); ok {
			return c, true
		}
	}
	return 0, false
}

// BitsOf gives the bit view of a value (normalised in this state).
func (st *State) BitsOf(v *IntV) []Bit {
	if c, ok := st.ConstOf(v); ok {
		return constBits(c, v.W)
	}
	if v.Bits != nil {
		return st.normBits(v.Bits)
	}
	t := v.T
	if s, ok := t.SingleSym(); ok {
		return st.symBits(s, v.W)
	}
	// 2^k * s (no bit shifted out): the bits of s, shifted — the same view a left shift produces
	if len(t.Syms) == 1 && t.C == 0 && t.Coefs[0] > 1 {
		if k, p2 := isPow2(t.Coefs[0]); p2 {
			s := t.Syms[0]
			lo, hi := st.SymRange(s)
			_, tmax := typeRange(v.W, v.Signed)
			if lo >= 0 && k < 62 && hi <= tmax>>uint(k) {
				sb := st.symBits(s, v.W)
				out := make([]Bit, v.W)
				for i := range out {
					if i < k {
						out[i] = Bit{K: B0}
					} else {
						out[i] = sb[i-k]
					}
				}
				return out
			}
		}
	}
	// derived symbol for the term
	d := st.ex.syms.Get("("+t.String()+")", v.W, v.Signed)
	d.DefTerm = t
	bs := st.symBits(d, v.W)
	// congruence: if every symbol's coefficient is a multiple of 2^k, the low k bits are those of the constant part
	if te := expandTerm(t); len(te.Syms) > 0 {
		k := 63
		for _, c := range te.Coefs {
			if c == 0 {
				continue
			}
			tz := 0
			for uc := uint64(c); uc&1 == 0 && tz < 63; uc >>= 1 {
				tz++
			}
			if tz < k {
				k = tz
			}
		}
		if k > 0 && k < 63 {
			cb := constBits(te.C, v.W)
			for i := 0; i < k && i < v.W; i++ {
				bs[i] = cb[i]
			}
		}
	}
	return bs
}

func (st *State) symBits(s *Sym, w int) []Bit {
	bs := make([]Bit, w)
	lo, _ := st.SymRange(s)
	for j := 0; j < w; j++ {
		if j < s.W {
			bs[j] = st.normBit(Bit{K: BSym, S: s, J: uint8(j)})
		} else if !s.Signed || lo >= 0 {
			bs[j] = Bit{K: B0}
		} else {
			bs[j] = st.normBit(Bit{K: BSym, S: s, J: uint8(s.W - 1)})
		}
	}
	return bs
}

// TermOf gives the term view of a value.
// expandTerm substitutes derived symbols that are defined by a term.
func expandTerm(t *Term) *Term {
	need := false
	for _, s := range t.Syms {
		if s.DefTerm != nil {
			need = true
		}
	}
	if !need {
		return t
	}
	r := constTerm(t.C)
	for i, s := range t.Syms {
		if s.DefTerm != nil {
			r = termAdd(r, expandTerm(s.DefTerm), t.Coefs[i])
		} else {
			r = termAdd(r, symTerm(s), t.Coefs[i])
		}
	}
	return r
}

func (st *State) TermOf(v *IntV) *Term {
	return expandTerm(st.termOf0(v))
}

func (st *State) termOf0(v *IntV) *Term {
	if v.T != nil {
		return v.T
	}
	if c, ok := st.ConstOf(v); ok {
		return constTerm(c)
	}
	bs := st.normBits(v.Bits)
	// in-place single symbol?
	var s *Sym
	k := 0
	okp := true
	for j, b := range bs {
		switch b.K {
		case BSym:
			if int(b.J) != j || (s != nil && b.S != s) || j != k {
				okp = false
			}
			s = b.S
			k = j + 1
		case B0:
		default:
			okp = false
		}
		if !okp {
			break
		}
	}
	if okp && s != nil {
		lo, hi := st.SymRange(s)
		if lo >= 0 && (k >= 63 || hi < (int64(1)<<uint(k))) {
			// value == s provided the (possibly signed) result type does not reinterpret the top bit
			if !v.Signed || k < v.W {
				return symTerm(s)
			}
		}
	}
	d := st.ex.syms.Get("{"+bitsString(bs)+"}", v.W, v.Signed)
	d.DefBits = bs
	return symTerm(d)
}

// ---------------------------------------------------------------- deciding and assuming comparisons

// implied: t <= 0 in this state?
func (st *State) implied(t *Term) bool {
	if _, hi, ok := st.termRange(t); ok && hi <= 0 {
		return true
	}
	for _, f := range st.facts {
		d := termAdd(t, f, -1)
		if d.IsConst() {
			if d.C <= 0 {
				return true
			}
			continue
		}
		// t = f + d with f <= 0: enough that d <= 0 over the symbol ranges
		if len(d.Syms) < len(t.Syms)+len(f.Syms) {
			if _, hi, ok := st.termRange(d); ok && hi <= 0 {
				return true
			}
		}
	}
	return false
}

// Decide evaluates x op y; known=false if undecided.
func (st *State) Decide(op string, x, y *IntV) (val, known bool) {
	xl, xh := st.Range(x)
	yl, yh := st.Range(y)
	tx, ty := st.TermOf(x), st.TermOf(y)
	d := termAdd(tx, ty, -1)    // x - y
	lt := func() (bool, bool) { // x < y
		if xh < yl {
			return true, true
		}
		if xl >= yh {
			return false, true
		}
		if st.implied(termAdd(d, constTerm(1), 1)) { // x-y+1 <= 0
			return true, true
		}
		if st.implied(termScale(d, -1)) { // y-x <= 0
			return false, true
		}
		return false, false
	}
	le := func() (bool, bool) { // x <= y
		if xh <= yl {
			return true, true
		}
		if xl > yh {
			return false, true
		}
		if st.implied(d) {
			return true, true
		}
		if st.implied(termAdd(termScale(d, -1), constTerm(1), 1)) { // y-x+1<=0
			return false, true
		}
		return false, false
	}
	switch op {
	case "<":
		return lt()
	case "<=":
		return le()
	case ">":
		v, k := le()
		return !v, k
	case ">=":
		v, k := lt()
		return !v, k
	case "==", "!=":
		eq, known := false, false
		if xl == xh && yl == yh && xl == yl {
			eq, known = true, true
		} else if xh < yl || yh < xl {
			eq, known = false, true
		} else if d.IsConst() {
			eq, known = d.C == 0, true
		} else if st.knownNeq(d) {
			eq, known = false, true
		} else if st.implied(d) && st.implied(termScale(d, -1)) {
			eq, known = true, true // x-y <= 0 and y-x <= 0
		} else if st.implied(termAdd(d, constTerm(1), 1)) || st.implied(termAdd(termScale(d, -1), constTerm(1), 1)) {
			eq, known = false, true
		} else if x.W == y.W {
			// bit-level disagreement
			bx, by := st.BitsOf(x), st.BitsOf(y)
			same := true
			for i := range bx {
				a, b := bx[i], by[i]
				if (a.K == B0 && b.K == B1) || (a.K == B1 && b.K == B0) {
					eq, known = false, true
					same = false
					break
				}
				if a.K == BTop || b.K == BTop || a != b {
					same = false
				}
			}
			if !known && same {
				eq, known = true, true
			}
		}
		if op == "!=" {
			return !eq, known
		}
		return eq, known
	}
	return false, false
}

func negOp(op string) string {
	switch op {
	case "==":
		return "!="
	case "!=":
		return "=="
	case "<":
		return ">="
	case "<=":
		return ">"
	case ">":
		return "<="
	case ">=":
		return "<"
	}
	return op
}

func (st *State) refineSym(s *Sym, lo, hi int64) {
	l, h := st.SymRange(s)
	l, h = max64(l, lo), min64(h, hi)
	st.rng[s] = [2]int64{l, h}
}

func (st *State) setBit(s *Sym, j uint8, one bool) {
	k := st.kb[s]
	if one {
		k[1] |= 1 << j
	} else {
		k[0] |= 1 << j
	}
	st.kb[s] = k
}

// Assume adds the constraint x op y; returns false if it is contradictory (dead path).
func (st *State) Assume(op string, x, y *IntV) bool {
	if v, known := st.Decide(op, x, y); known {
		return v
	}
	// the bit view of the non-constant side, taken BEFORE the interval refinement below makes the value a constant (the
	// bit-level refinement further down needs the symbols behind the bits, not the constant they are about to become)
	var preBits []Bit
	if op == "==" || op == "!=" {
		if _, ok := st.ConstOf(y); ok {
			preBits = st.BitsOf(x)
		} else if _, ok := st.ConstOf(x); ok {
			preBits = st.BitsOf(y)
		}
	}
	tx, ty := st.TermOf(x), st.TermOf(y)
	d := termAdd(tx, ty, -1) // x - y
	// single-symbol refinement: coef*s + c  op 0
	refine1 := func(d *Term, op string) {
		if len(d.Syms) != 1 {
			return
		}
		s, a, c := d.Syms[0], d.Coefs[0], d.C
		if a != 1 && a != -1 {
			return
		}
		// a*s + c op 0
		switch op {
		case "<=": // a*s <= -c
			if a == 1 {
				st.refineSym(s, math.MinInt64, -c)
			} else {
				st.refineSym(s, c, math.MaxInt64)
			}
		case "<":
			if a == 1 {
				st.refineSym(s, math.MinInt64, -c-1)
			} else {
				st.refineSym(s, c+1, math.MaxInt64)
			}
		case ">=":
			if a == 1 {
				st.refineSym(s, -c, math.MaxInt64)
			} else {
				st.refineSym(s, math.MinInt64, c)
			}
		case ">":
			if a == 1 {
				st.refineSym(s, -c+1, math.MaxInt64)
			} else {
				st.refineSym(s, math.MinInt64, c-1)
			}
		case "==":
			v := -c
			if a == -1 {
				v = c
			}
			st.refineSym(s, v, v)
		case "!=":
			v := -c
			if a == -1 {
				v = c
			}
			l, h := st.SymRange(s)
			if l == v {
				st.refineSym(s, v+1, h)
			} else if h == v {
				st.refineSym(s, l, v-1)
			}
		}
	}
	refine1(d, op)
	// two symbols with coefficients +1 / -1 (s1 - s2 + c op 0): interval propagation in both directions, so that a guard
	// "lo < hi" between two counters bounds each of them by the other's range
	if len(d.Syms) == 2 && ((d.Coefs[0] == 1 && d.Coefs[1] == -1) || (d.Coefs[0] == -1 && d.Coefs[1] == 1)) && (op == "<" || op == "<=" || op == ">" || op == ">=") {
		s1, s2 := d.Syms[0], d.Syms[1]
		if d.Coefs[0] == -1 {
			s1, s2 = s2, s1
		}
		// s1 - s2 + c op 0
		c := d.C
		strict := int64(0)
		if op == "<" || op == ">" {
			strict = 1
		}
		l1, h1 := st.SymRange(s1)
		l2, h2 := st.SymRange(s2)
		addOK := func(a, b int64) (int64, bool) {
			r := a + b
			if (b > 0 && r < a) || (b < 0 && r > a) {
				return 0, false
			}
			return r, true
		}
		if op == "<" || op == "<=" {
			// s1 <= s2 - c - strict
			if v, ok := addOK(h2, -c-strict); ok && v < h1 {
				st.refineSym(s1, l1, v)
			}
			if v, ok := addOK(l1, c+strict); ok && v > l2 {
				st.refineSym(s2, v, h2)
			}
		} else {
			// s1 >= s2 - c + strict
			if v, ok := addOK(l2, -c+strict); ok && v > l1 {
				st.refineSym(s1, v, h1)
			}
			if v, ok := addOK(h1, c-strict); ok && v < h2 {
				st.refineSym(s2, l2, v)
			}
		}
	}
	// a linear equality over several symbols with bounded ranges (a big-endian value 256*h0 + h1 compared with a small
	// constant): each symbol is bounded by what the others leave over — c_i*s_i = -(c0 + sum_{j != i} c_j*s_j)
	if op == "==" && len(d.Syms) >= 2 && len(d.Syms) <= 4 {
		small := true
		for _, sy := range d.Syms {
			l, h := st.SymRange(sy)
			if l < -(1<<40) || h > 1<<40 {
				small = false
			}
		}
		for _, cf := range d.Coefs {
			if cf > 1<<20 || cf < -(1<<20) || cf == 0 {
				small = false
			}
		}
		for round := 0; small && round < 3; round++ {
			for i, si := range d.Syms {
				restLo, restHi := d.C, d.C
				for j, sj := range d.Syms {
					if j == i {
						continue
					}
					l, h := st.SymRange(sj)
					a, b := d.Coefs[j]*l, d.Coefs[j]*h
					if a > b {
						a, b = b, a
					}
					restLo += a
					restHi += b
				}
				// c_i * s_i in [-restHi, -restLo]
				lo, hi := -restHi, -restLo
				ci := d.Coefs[i]
				if ci < 0 {
					lo, hi, ci = -hi, -lo, -ci
				}
				// s_i in [ceil(lo/ci), floor(hi/ci)]
				cl := lo / ci
				if lo%ci != 0 && lo > 0 {
					cl++
				}
				fh := hi / ci
				if hi%ci != 0 && hi < 0 {
					fh--
				}
				l, h := st.SymRange(si)
				if cl > l || fh < h {
					st.refineSym(si, max64(l, cl), min64(h, fh))
				}
			}
		}
	}
	// linear facts
	switch op {
	case "<=":
		st.facts = append(st.facts, d)
	case "<":
		st.facts = append(st.facts, termAdd(d, constTerm(1), 1))
	case ">=":
		st.facts = append(st.facts, termScale(d, -1))
	case ">":
		st.facts = append(st.facts, termAdd(termScale(d, -1), constTerm(1), 1))
	case "==":
		st.facts = append(st.facts, d, termScale(d, -1))
	case "!=":
		st.neq = append(st.neq, d)
	}
	// bit-level refinement for ==/!= against a constant
	if op == "==" || op == "!=" {
		var cv int64
		var other *IntV
		if c, ok := st.ConstOf(y); ok {
			cv, other = c, x
		} else if c, ok := st.ConstOf(x); ok {
			cv, other = c, y
		}
		if other != nil {
			bs := st.BitsOf(other)
			if preBits != nil && len(preBits) == len(bs) {
				bs = preBits
			}
			if op == "==" {
				for i, b := range bs {
					want := (uint64(cv)>>uint(i))&1 == 1
					if b.K == BSym {
						st.setBit(b.S, b.J, want)
					}
				}
			} else {
				// if exactly one symbolic bit can differ and all known bits agree -> that bit must differ
				var cand *Bit
				n := 0
				agree := true
				for i := range bs {
					b := bs[i]
					want := (uint64(cv)>>uint(i))&1 == 1
					switch b.K {
					case BSym:
						n++
						bb := b
						cand = &bb
						_ = want
					case BTop:
						n += 2
					case B0:
						if want {
							agree = false
						}
					case B1:
						if !want {
							agree = false
						}
					}
				}
				if agree && n == 1 && cand != nil {
					// find its position's wanted value
					for i := range bs {
						if bs[i] == *cand {
							want := (uint64(cv)>>uint(i))&1 == 1
							st.setBit(cand.S, cand.J, !want)
						}
					}
				}
			}
		}
	}
	// an excluded value that sits at an end of a symbol's interval shortens the interval (s != 0 with s in [-5,0] gives
	// [-5,-1]); repeated because a shortened interval can meet the next excluded value
	for changed, rounds := true, 0; changed && rounds < 8; rounds++ {
		changed = false
		for _, n := range st.neq {
			if len(n.Syms) != 1 || (n.Coefs[0] != 1 && n.Coefs[0] != -1) {
				continue
			}
			sy := n.Syms[0]
			v := -n.C * n.Coefs[0] // coef*s + c != 0  <=>  s != -c/coef
			l, h := st.SymRange(sy)
			if l == v && l < h {
				st.refineSym(sy, l+1, h)
				changed = true
			} else if h == v && l < h {
				st.refineSym(sy, l, h-1)
				changed = true
			}
		}
	}
	// contradiction check
	for s := range st.rng {
		l, h := st.SymRange(s)
		if l > h {
			return false
		}
	}
	for s, k := range st.kb {
		if k[0]&k[1] != 0 {
			return false
		}
		l, h := st.SymRange(s)
		if l > h {
			return false
		}
	}
	return true
}

func (st *State) note(format string, a ...interface{}) {
	st.Trace = append(st.Trace, fmt.Sprintf(format, a...))
}

// widenVal: an invariant candidate covering both the previous and the incoming value of a loop phi:
// equal constants are kept; integers are kept as a fresh symbol with the previous range when
// the incoming range does not grow beyond it. ok=false => forget the value.
func (st *State) widenVal(prev, cur Val) (Val, bool) {
	switch p := prev.(type) {
	case *BoolV:
		c, ok := cur.(*BoolV)
		if !ok {
			return nil, false
		}
		pv, pk := st.boolOf(p)
		cv, ck := st.boolOf(c)
		if pk && ck && pv == cv {
			return &BoolV{Known: true, Val: pv}, true
		}
	case *IntV:
		c, ok := cur.(*IntV)
		if !ok || c.W != p.W || c.Signed != p.Signed {
			return nil, false
		}
		pl, ph := st.Range(p)
		cl, ch := st.Range(c)
		if cv, ok := st.ConstOf(c); ok {
			if pv, ok := st.ConstOf(p); ok && pv == cv {
				return mkConst(cv, p.W, p.Signed), true
			}
		}
		// candidate: hull of both ranges (soundness comes from the inductive check at re-arrival)
		l, h := min64(pl, cl), max64(ph, ch)
		tl, th := typeRange(p.W, p.Signed)
		if l == tl && h == th {
			return nil, false
		}
		r := st.freshInt("inv", p.W, p.Signed)
		st.refineSym(r.T.Syms[0], l, h)
		return r, true
	}
	return nil, false
}

// subsumed: is value v covered by the kept invariant k?
func (st *State) subsumed(v, k Val) bool {
	switch kk := k.(type) {
	case *BoolV:
		vv, ok := v.(*BoolV)
		if !ok {
			return false
		}
		a, ak := st.boolOf(vv)
		b, bk := st.boolOf(kk)
		return ak && bk && a == b
	case *IntV:
		vv, ok := v.(*IntV)
		if !ok {
			return false
		}
		vl, vh := st.Range(vv)
		kl, kh := st.Range(kk)
		return vl >= kl && vh <= kh
	}
	return false
}

func (st *State) knownNeq(d *Term) bool {
	for _, n := range st.neq {
		if termEq(n, d) || termEq(n, termScale(d, -1)) {
			return true
		}
	}
	return false
}
