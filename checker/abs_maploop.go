package main

// mapLoop: summary of the per-element text-building idiom (only with Exec.FmtModel)
//
//     for i := first; i < n; i++ { acc = append(acc, f1(src[i]), ..., fm(src[i])) }      (classic and range forms)
//
// decided SEMANTICALLY, not by the spelling of f: for each of the 256 values of the element one iteration of the loop
// body is run abstractly (index symbolic, accumulator an opaque prefix); the iteration must come back to the loop head
// exactly once with the index advanced by one and the accumulator extended by m constant bytes. If the resulting table
// is the upper/lower-case hex rendering, the loop result is the hex text of src[first:n] (abs_text.go); if it is the
// identity it is a copy; any other table gives an opaque run of m*(n-first) bytes. Table lookups, arithmetic with
// branches, helper functions: all the same to this summary.
//
// Applies only when the loop leaves through its head, carries exactly an index and a byte-slice accumulator, its body
// stores only into its own temporaries and calls only builtins or scalar helper functions without effects.

import (
	"go/token"
	"go/types"

	"golang.org/x/tools/go/ssa"
)

type capCtx struct {
	arrivals []capArrival
}

type capArrival struct {
	st   *State
	vals []Val
}

func scalarType(t types.Type) bool {
	b, ok := t.Underlying().(*types.Basic)
	return ok && b.Info()&(types.IsInteger|types.IsBoolean) != 0
}

// scalarPureFn: a function over scalars whose static call closure has no store outside its own temporaries, no
// dynamic call, no go/defer, no map update, no channel operation.
func scalarPureFn(fn *ssa.Function, seen map[*ssa.Function]bool) bool {
	if fn == nil || fn.Blocks == nil {
		return false
	}
	if seen[fn] {
		return true
	}
	seen[fn] = true
	sig := fn.Signature
	for i := 0; i < sig.Params().Len(); i++ {
		if !scalarType(sig.Params().At(i).Type()) {
			return false
		}
	}
	return pureInstrs(fn.Blocks, nil, seen)
}

func rootAlloc(v ssa.Value) *ssa.Alloc {
	for d := 0; d < 6; d++ {
		switch x := v.(type) {
		case *ssa.Alloc:
			return x
		case *ssa.IndexAddr:
			v = x.X
		case *ssa.FieldAddr:
			v = x.X
		default:
			return nil
		}
	}
	return nil
}

func pureInstrs(blocks []*ssa.BasicBlock, in map[*ssa.BasicBlock]bool, seen map[*ssa.Function]bool) bool {
	for _, b := range blocks {
		if in != nil && !in[b] {
			continue
		}
		for _, ins := range b.Instrs {
			switch x := ins.(type) {
			case *ssa.Store:
				a := rootAlloc(x.Addr)
				if a == nil || a.Heap && false {
					return false
				}
				if in != nil && !in[a.Block()] {
					return false
				}
			case *ssa.MapUpdate, *ssa.Send, *ssa.Go, *ssa.Defer, *ssa.Select, *ssa.RunDefers, *ssa.Panic:
				return false
			case *ssa.Call:
				if _, ok := x.Call.Value.(*ssa.Builtin); ok {
					continue
				}
				if x.Call.IsInvoke() {
					return false
				}
				if !scalarPureFn(x.Call.StaticCallee(), seen) {
					return false
				}
			}
		}
	}
	return true
}

func (ex *Exec) mapLoop(fr *Frame, st *State, li *loopInfo, phis []*ssa.Phi, vals []Val, prev *ssa.BasicBlock) ([]Outcome, bool) {
	if !ex.FmtModel || len(phis) != 2 {
		return nil, false
	}
	head := li.Head
	if len(head.Succs) != 2 || !li.Body[head.Succs[0]] || li.Body[head.Succs[1]] {
		return nil, false
	}
	var blocks []*ssa.BasicBlock
	for bb := range li.Body {
		blocks = append(blocks, bb)
		if bb == head {
			continue
		}
		for _, s := range bb.Succs {
			if !li.Body[s] {
				return nil, false
			}
		}
	}
	var iphi, aphi *ssa.Phi
	var i0 *IntV
	var acc0 *SliceV
	for k, phi := range phis {
		switch v := vals[k].(type) {
		case *IntV:
			if s, ok := phiStep(phi, li); ok && s == 1 {
				iphi, i0 = phi, v
			}
		case *SliceV:
			if sl, ok := phi.Type().Underlying().(*types.Slice); ok {
				if b, ok := sl.Elem().Underlying().(*types.Basic); ok && b.Kind() == types.Uint8 {
					aphi, acc0 = phi, v
				}
			}
		}
	}
	if iphi == nil || aphi == nil || acc0.Unk {
		return nil, false
	}
	outside := func(v ssa.Value) bool {
		switch x := v.(type) {
		case *ssa.Const, *ssa.Parameter, *ssa.FreeVar, *ssa.Global:
			return true
		case ssa.Instruction:
			return !li.Body[x.Block()]
		}
		return false
	}
	// guard in the head: idx < n with idx = phi or phi+1 (range form)
	var idx ssa.Value = iphi
	var cmp *ssa.BinOp
	for _, in := range head.Instrs {
		if bo, ok := in.(*ssa.BinOp); ok {
			if bo.Op == token.ADD && bo.X == ssa.Value(iphi) {
				if k, ok := constInt(bo.Y); ok && k == 1 {
					idx = bo
				}
			}
			if bo.Op == token.LSS {
				cmp = bo
			}
		}
	}
	iff, _ := head.Instrs[len(head.Instrs)-1].(*ssa.If)
	if cmp == nil || iff == nil || iff.Cond != ssa.Value(cmp) || (cmp.X != ssa.Value(iphi) && cmp.X != idx) {
		return nil, false
	}
	idx = cmp.X
	var n *IntV
	if outside(cmp.Y) {
		n, _ = ex.eval(fr, st, cmp.Y).(*IntV)
	} else if call, ok := cmp.Y.(*ssa.Call); ok {
		if bi, ok := call.Call.Value.(*ssa.Builtin); ok && bi.Name() == "len" && outside(call.Call.Args[0]) {
			if a, ok := ex.eval(fr, st, call.Call.Args[0]).(*SliceV); ok && !a.Unk {
				n = a.Len
			}
		}
	}
	if n == nil {
		return nil, false
	}
	// the element source: a byte slice defined outside, indexed with idx in the loop
	var src *SliceV
	var srcVal ssa.Value
	for _, bb := range blocks {
		for _, in := range bb.Instrs {
			if ia, ok := in.(*ssa.IndexAddr); ok && ia.Index == idx && outside(ia.X) {
				if srcVal != nil && srcVal != ia.X {
					return nil, false
				}
				srcVal = ia.X
			}
		}
	}
	if srcVal == nil {
		return nil, false
	}
	src, _ = ex.eval(fr, st, srcVal).(*SliceV)
	if src == nil || src.Unk || src.Nil {
		return nil, false
	}
	if !pureInstrs(blocks, li.Body, map[*ssa.Function]bool{}) {
		return nil, false
	}
	n64 := st.Convert(n, 64, true)
	first := st.Convert(i0, 64, true)
	if idx != ssa.Value(iphi) {
		first = st.Arith(token.ADD, first, mkConst(1, 64, true), "")
	}
	dec := func(op string, a, b *IntV) bool { v, k := st.Decide(op, a, b); return k && v }
	if !dec(">=", first, mkConst(0, 64, true)) || !dec("<=", first, n64) || !dec("<=", n64, src.Len) {
		return nil, false
	}
	// the source content must be opaque there (one run): elements are then addressed by a symbol per position
	cnt := st.Arith(token.SUB, n64, first, "")
	sub := &SliceV{Obj: src.Obj, Path: src.Path, Off: st.Arith(token.ADD, src.Off, first, ""), Len: cnt, Cap: cnt}
	if isZeroLen(st, sub) {
		return nil, false // nothing to summarise; the ordinary treatment leaves at once
	}
	savedUnsup := map[string]int{}
	for k, v := range ex.Unsupported {
		savedUnsup[k] = v
	}
	fail := func() ([]Outcome, bool) {
		ex.Unsupported = savedUnsup
		return nil, false
	}
	var table [256][]byte
	m := -1
	for k := 0; k < 256; k++ {
		st2, fr2 := st.Clone(), fr.clone()
		mi := st2.freshInt("mapidx", 64, true)
		_, hiN := st2.Range(n64)
		lo1, _ := st2.Range(first)
		st2.refineSym(mi.T.Syms[0], lo1, hiN-1)
		if !st2.Assume("<", mi, n64) || !st2.Assume(">=", mi, first) {
			return fail()
		}
		// element at position mi := k
		one := &SliceV{Obj: src.Obj, Path: src.Path, Off: st2.Arith(token.ADD, src.Off, mi, ""), Len: mkConst(1, 64, true), Cap: mkConst(1, 64, true)}
		segs, ok := ex.sliceSegs(st2, one)
		if !ok || len(segs) != 1 || segs[0].Run == nil {
			return fail()
		}
		ev, _ := ex.elemOfRun(st2, segs[0].Run, segs[0].Run.Off, types.Typ[types.Uint8]).(*IntV)
		if ev == nil {
			return fail()
		}
		esym, isSym := ev.T.SingleSym()
		if !isSym {
			return fail()
		}
		st2.refineSym(esym, int64(k), int64(k))
		// accumulator: an opaque prefix of unknown length
		A := st2.freshInt("mapacc", 64, true)
		st2.refineSym(A.T.Syms[0], 0, 1<<30)
		accSrc := ex.syms.Fresh("macc", 8, false).Name
		aid := ex.newObj(st2, &ArrayV{Elem: types.Typ[types.Uint8], Segs: []Seg{{Run: &Run{Src: accSrc, Off: constTerm(0), Len: A.T}}}}, nil)
		accIn := &SliceV{Obj: aid, Off: mkConst(0, 64, true), Len: A, Cap: A}
		pin := st2.Convert(mi, i0.W, i0.Signed)
		if idx != ssa.Value(iphi) {
			pin = st2.Convert(st2.Arith(token.SUB, mi, mkConst(1, 64, true), ""), i0.W, i0.Signed)
		}
		fr2.regs[iphi] = pin
		fr2.regs[aphi] = accIn
		cc := &capCtx{}
		if fr2.capture == nil {
			fr2.capture = map[*ssa.BasicBlock]*capCtx{}
		}
		fr2.capture[head] = cc
		outs := ex.execFrom(fr2, st2, head, firstNonPhi(head), prev)
		if ex.Budget || len(outs) != 0 || len(cc.arrivals) != 1 || len(ex.Unsupported) != len(savedUnsup) {
			return fail()
		}
		ar := cc.arrivals[0]
		var ni *IntV
		var na *SliceV
		for j, phi := range phis {
			if phi == iphi {
				ni, _ = ar.vals[j].(*IntV)
			}
			if phi == aphi {
				na, _ = ar.vals[j].(*SliceV)
			}
		}
		if ni == nil || na == nil || na.Unk || na.Nil {
			return fail()
		}
		wantI := ar.st.Arith(token.ADD, ar.st.Convert(pin, 64, true), mkConst(1, 64, true), "")
		if !ar.st.sameInt(ar.st.Convert(ni, 64, true), wantI) {
			return fail()
		}
		osegs, ok := ex.sliceSegs(ar.st, na)
		if !ok {
			return fail()
		}
		osegs = normSegs(ar.st.dropEmptyRuns(osegs))
		if len(osegs) == 0 || osegs[0].Run == nil || osegs[0].Run.Src != accSrc || !termEq(osegs[0].Run.Off, constTerm(0)) || !termEq(osegs[0].Run.Len, A.T) {
			return fail()
		}
		var bytesK []byte
		for _, sg := range osegs[1:] {
			if sg.Run != nil {
				return fail()
			}
			for _, e := range sg.Elems {
				iv, _ := e.(*IntV)
				if iv == nil {
					return fail()
				}
				c, isK := ar.st.ConstOf(iv)
				if !isK {
					return fail()
				}
				bytesK = append(bytesK, byte(c))
			}
		}
		if m >= 0 && len(bytesK) != m {
			return fail()
		}
		m = len(bytesK)
		table[k] = bytesK
	}
	if m <= 0 {
		return fail()
	}
	ex.Unsupported = savedUnsup
	// classify the table
	const up, low = "0123456789ABCDEF", "0123456789abcdef"
	isUp, isLow, isID := m == 2, m == 2, m == 1
	for k := 0; k < 256; k++ {
		if m == 2 {
			if table[k][0] != up[k>>4] || table[k][1] != up[k&15] {
				isUp = false
			}
			if table[k][0] != low[k>>4] || table[k][1] != low[k&15] {
				isLow = false
			}
		}
		if m == 1 && table[k][0] != byte(k) {
			isID = false
		}
	}
	var msegs []Seg
	switch {
	case isUp || isLow:
		if ex.texts == nil {
			ex.texts = map[string]textMeaning{}
		}
		var ok bool
		msegs, ok = ex.hexSegs(st, sub, isLow && !isUp)
		if !ok {
			return nil, false
		}
	case isID:
		var ok bool
		msegs, ok = ex.sliceSegs(st, sub)
		if !ok {
			return nil, false
		}
	default:
		L := st.Arith(token.MUL, cnt, mkConst(int64(m), 64, true), "")
		msegs = []Seg{{Run: &Run{Src: ex.syms.Fresh("map", 8, false).Name, Off: constTerm(0), Len: st.TermOf(L)}}}
	}
	res := ex.appendOp(st, []Val{acc0, ex.sliceOfSegs(st, msegs)}, nil)
	fin := n64
	if idx != ssa.Value(iphi) {
		fin = st.Arith(token.SUB, n64, mkConst(1, 64, true), "")
	}
	fr.regs[iphi] = st.Convert(fin, i0.W, i0.Signed)
	fr.regs[aphi] = res
	ex.Stats.CopyLoops++
	return ex.execFrom(fr, st, head, firstNonPhi(head), prev), true
}
