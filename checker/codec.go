package main

// Shared E-abs rules about the SMF byte-level codec: VLQ, chunk framing, header layout,
// per-event encoding/decoding. Used by C01, C02, C03 (and C15 for the meta frame).

import (
	"fmt"
	"go/token"
	"go/types"
	"os"
	"runtime/debug"
	"sync"

	"golang.org/x/tools/go/ssa"
)

func sigIs(f *ssa.Function, params []string, results []string) bool {
	sig := f.Signature
	if sig.Recv() != nil || sig.Params().Len() != len(params) || sig.Results().Len() != len(results) {
		return false
	}
	for i, p := range params {
		if sig.Params().At(i).Type().String() != p {
			return false
		}
	}
	for i, r := range results {
		if sig.Results().At(i).Type().String() != r {
			return false
		}
	}
	return true
}

// vlqEncoder: the module function reachable from WriteTo with signature func(uint32) []byte.
func findVlqEncoder(p *Program) *ssa.Function {
	wt := p.Method("smf", "SMF", "WriteTo")
	if wt == nil {
		return nil
	}
	var found []*ssa.Function
	for _, f := range p.Reachable(wt) {
		if sigIs(f, []string{"uint32"}, []string{"[]byte"}) {
			found = append(found, f)
		}
	}
	if len(found) == 1 {
		return found[0]
	}
	return nil
}

// vlqDecoder: the module function reachable from ReadFrom with signature func(io.Reader) (uint32, error) that contains a loop.
func findVlqDecoder(p *Program) *ssa.Function {
	rf := p.Func("smf", "ReadFrom")
	if rf == nil {
		return nil
	}
	var found []*ssa.Function
	for _, f := range p.Reachable(rf) {
		if sigIs(f, []string{"io.Reader"}, []string{"uint32", "error"}) && len(naturalLoops(f)) > 0 {
			found = append(found, f)
		}
	}
	if len(found) == 1 {
		return found[0]
	}
	return nil
}

var vlqCells = [][2]int64{{0, 1<<7 - 1}, {1 << 7, 1<<14 - 1}, {1 << 14, 1<<21 - 1}, {1 << 21, 1<<28 - 1}, {1 << 28, 1<<32 - 1}}

// vlqSpecBytes: the specification's encoding of n with k groups.
func vlqSpecBytes(st *State, n *IntV, k int) []*IntV {
	out := make([]*IntV, k)
	for i := 0; i < k; i++ {
		g := k - 1 - i // group index from the least significant end
		x := st.Arith(token.AND, st.Shift(token.SHR, n, 7*g), mkConst(0x7F, n.W, n.Signed), "")
		b := st.Convert(x, 8, false)
		if i != k-1 {
			b = st.Arith(token.OR, b, mkConst(0x80, 8, false), "")
		}
		out[i] = b
	}
	return out
}

// readerOver wraps a byte slice into an io.Reader interface value backed by the bytes.Reader model.
func (ex *Exec) readerOver(st *State, sl *SliceV) *IfaceV {
	id := ex.newObj(st, &RdrV{Src: *sl, Pos: mkConst(0, 64, true), Source: true}, nil)
	var dyn types.Type
	if bp := ex.P.Prog.ImportedPackage("bytes"); bp != nil {
		if o := bp.Pkg.Scope().Lookup("Reader"); o != nil {
			dyn = types.NewPointer(o.Type())
		}
	}
	return &IfaceV{Dyn: dyn, V: &PtrV{Obj: id}}
}

func ruleVLQ(c *Ctx, rEnc, rDec, rComp string) {
	p := c.P
	enc, dec := findVlqEncoder(p), findVlqDecoder(p)
	if rEnc != "" {
		if enc == nil {
			c.Unk(rEnc, "VLQ encoder (role: func(uint32) []byte reachable from WriteTo)", "-", "not uniquely resolved")
		} else {
			c.Fn(FuncName(enc))
			for k, cell := range vlqCells {
				key := fmt.Sprintf("VLQ encode cell %d: n in [%d,%d]", k+1, cell[0], cell[1])
				ex := NewExec(p)
				st := ex.NewState()
				n := mkSym(ex.syms.Get("n", 32, false))
				st.refineSym(n.T.Syms[0], cell[0], cell[1])
				outs := ex.Call(st, enc, []Val{n}, nil)
				ok := len(outs) > 0 && !ex.Budget
				detail := ""
				for _, o := range outs {
					if o.Panic || len(problemEvents(o.St.Events)) > 0 {
						ok = false
						detail = "panic/bounds: " + o.Msg + fmtEvents(problemEvents(o.St.Events))
						continue
					}
					res, _ := o.Ret[0].(*SliceV)
					elems, got := ex.sliceElems(o.St, res)
					want := vlqSpecBytes(o.St, n, k+1)
					if !got || len(elems) != len(want) {
						ok = false
						detail = fmt.Sprintf("encoding has %d bytes, canonical encoding has %d [%s]", len(elems), len(want), outcomeWitness(o))
						continue
					}
					for i := range want {
						iv, _ := elems[i].(*IntV)
						if iv == nil || !o.St.sameInt(iv, want[i]) {
							ok = false
							detail = fmt.Sprintf("byte %d is {%s}, specification requires {%s}", i, bitsString(o.St.BitsOf(iv)), bitsString(o.St.BitsOf(want[i])))
						}
					}
				}
				for u := range ex.Unsupported {
					ok = false
					detail = "unmodelled: " + u
				}
				c.Check(ok, rEnc, key, p.Pos(enc.Pos()), fmt.Sprintf("%d partitions; every byte equals the canonical big-endian base-128 encoding bit for bit (shortest form, continuation bits)", len(outs)), detail)
			}
		}
	}
	if rDec != "" {
		if dec == nil {
			c.Unk(rDec, "VLQ decoder (role: looping func(io.Reader)(uint32,error) reachable from ReadFrom)", "-", "not uniquely resolved")
		} else {
			c.Fn(FuncName(dec))
			// decoder on arbitrary (also non-minimal) encodings of 1..5 bytes
			for k := 1; k <= 5; k++ {
				key := fmt.Sprintf("VLQ decode %d-byte encodings (incl. non-minimal)", k)
				ex := NewExec(p)
				st := ex.NewState()
				var elems []Val
				var groups []*IntV
				for i := 0; i < k; i++ {
					s := ex.syms.Get(fmt.Sprintf("g%d", i), 8, false)
					st.refineSym(s, 0, 127)
					g := mkSym(s)
					groups = append(groups, g)
					b := g
					if i != k-1 {
						b = st.Arith(token.OR, g, mkConst(0x80, 8, false), "")
					}
					elems = append(elems, b)
				}
				// followed by unknown further bytes that must not be consumed
				src := ex.mkBytes(st, "tail", elems, true, 0)
				rd := ex.readerOver(st, src)
				outs := ex.Call(st, dec, []Val{rd}, nil)
				ok := len(outs) > 0 && !ex.Budget
				detail := ""
				for _, o := range outs {
					if o.Panic || len(problemEvents(o.St.Events)) > 0 {
						ok = false
						detail = "panic/bounds: " + o.Msg + fmtEvents(problemEvents(o.St.Events))
						continue
					}
					val, _ := o.Ret[0].(*IntV)
					ev, _ := o.Ret[1].(*IfaceV)
					if ev == nil || !ev.Nil {
						ok = false
						detail = "decoder reports an error on a complete encoding [" + outcomeWitness(o) + "]"
						continue
					}
					// expected: concatenation of 7-bit groups (low 32 bits)
					want := mkConst(0, 32, false)
					for i := 0; i < k; i++ {
						want = o.St.Arith(token.OR, o.St.Shift(token.SHL, want, 7), o.St.Convert(groups[i], 32, false), "")
					}
					if val == nil || !o.St.sameInt(val, want) {
						ok = false
						detail = fmt.Sprintf("decoded value {%s} is not the concatenation of the 7-bit groups {%s}", bitsString(o.St.BitsOf(val)), bitsString(o.St.BitsOf(want)))
					}
					// consumed exactly k bytes
					if r, okr := ex.rdrOf(o.St, rd.V); okr {
						if pos, okp := o.St.ConstOf(r.Pos); !okp || pos != int64(k) {
							ok = false
							detail = fmt.Sprintf("decoder consumed %v bytes of a %d-byte quantity", r.Pos, k)
						}
					}
				}
				c.Check(ok, rDec, key, p.Pos(dec.Pos()), "value = concatenation of the 7-bit groups; exactly the encoded bytes are consumed", detail)
			}
			// truncated quantity => error
			{
				ex := NewExec(p)
				st := ex.NewState()
				g := mkSym(ex.syms.Get("g0", 8, false))
				b := st.Arith(token.OR, g, mkConst(0x80, 8, false), "")
				src := ex.mkBytes(st, "t", []Val{b}, false, 0)
				rd := ex.readerOver(st, src)
				outs := ex.Call(st, dec, []Val{rd}, nil)
				ok := len(outs) > 0
				for _, o := range outs {
					if o.Panic {
						ok = false
						continue
					}
					ev, _ := o.Ret[1].(*IfaceV)
					if ev == nil || ev.Nil || (ev.Unk && !ev.NonNil) {
						ok = false
					}
				}
				c.Check(ok, rDec, "VLQ decode truncated quantity", p.Pos(dec.Pos()), "input ending after a continuation byte yields a non-nil error", "a truncated quantity is accepted without error")
			}
			// input that ends exactly where the quantity starts => error, never the value 0
			{
				ex := NewExec(p)
				st := ex.NewState()
				src := ex.mkBytes(st, "t", nil, false, 0)
				rd := ex.readerOver(st, src)
				outs := ex.Call(st, dec, []Val{rd}, nil)
				ok := len(outs) > 0
				for _, o := range outs {
					if o.Panic {
						ok = false
						continue
					}
					ev, _ := o.Ret[1].(*IfaceV)
					if ev == nil || ev.Nil || (ev.Unk && !ev.NonNil) {
						ok = false
					}
				}
				c.Check(ok, rDec, "VLQ decode at end of input", p.Pos(dec.Pos()), "no byte available yields a non-nil error", "a quantity that is missing altogether is decoded as 0 without error: a truncated file gets an invented empty event")
			}
		}
	}
	if rComp != "" && enc != nil && dec != nil {
		for k, cell := range vlqCells {
			key := fmt.Sprintf("VLQ decode(encode(n)) = n, cell %d", k+1)
			ex := NewExec(p)
			st := ex.NewState()
			n := mkSym(ex.syms.Get("n", 32, false))
			st.refineSym(n.T.Syms[0], cell[0], cell[1])
			ok := true
			detail := ""
			outs := ex.Call(st, enc, []Val{n}, nil)
			cnt := 0
			for _, o := range outs {
				if o.Panic {
					ok = false
					continue
				}
				res, _ := o.Ret[0].(*SliceV)
				rd := ex.readerOver(o.St, res)
				for _, o2 := range ex.Call(o.St, dec, []Val{rd}, nil) {
					cnt++
					if o2.Panic {
						ok = false
						detail = o2.Msg
						continue
					}
					val, _ := o2.Ret[0].(*IntV)
					ev, _ := o2.Ret[1].(*IfaceV)
					if val == nil || ev == nil || !ev.Nil || !o2.St.sameInt(val, n) {
						ok = false
						detail = fmt.Sprintf("decode(encode(n)) = %s, err=%s", valString(o2.Ret[0]), valString(o2.Ret[1]))
					}
				}
			}
			c.Check(ok && cnt > 0, rComp, key, p.Pos(enc.Pos()), "composition normalises to n for every n of the cell", detail)
		}
	}
}

// ruleChunkFraming: the chunk serialiser emits, in ONE Write, the 4 type bytes, the big-endian
// 32-bit length of the body and then exactly that body.
func ruleChunkFraming(c *Ctx, rule string) {
	p := c.P
	ct := p.roleT("smf.chunk")
	var wt *ssa.Function
	if ct != nil {
		wt = p.MethodOf(types.NewPointer(ct), "WriteTo")
	}
	if wt == nil {
		c.Unk(rule, "chunk serialiser (io.WriterTo of the chunk type)", "-", "not resolved")
		return
	}
	c.Fn(FuncName(wt))
	ex := NewExec(p)
	st := ex.NewState()
	cp := ex.newTopObject(st, ct, "chunk")
	var typ []Val
	for i := 0; i < 4; i++ {
		typ = append(typ, ex.byteSym(fmt.Sprintf("typ[%d]", i)))
	}
	body := ex.unknownSlice(st, types.Typ[types.Uint8], "body", 0)
	L := body.Len.T.Syms[0]
	st.refineSym(L, 0, 1<<31-1) // chunk bodies >= 2 GiB are outside the stated domain
	// the chunk is filled through its own methods where it has them (type setter: one parameter of type [4]byte; body:
	// the io.Writer method), so that how it keeps type and body is its own business; otherwise by presetting the fields
	var setType, write *ssa.Function
	var chunkMethods []*ssa.Function
	if nt, ok := ct.(*types.Named); ok {
		chunkMethods = p.methodsOf("smf", nt.Obj().Name())
	}
	for _, m := range chunkMethods {
		sig := m.Signature
		if sig.Params().Len() == 1 {
			if at, ok := sig.Params().At(0).Type().Underlying().(*types.Array); ok && at.Len() == 4 && sig.Results().Len() == 0 {
				setType = m
			}
			if m.Name() == "Write" && tByteSlice(p, sig.Params().At(0).Type()) && sig.Results().Len() == 2 {
				write = m
			}
		}
	}
	viaMethods := false
	if setType != nil && write != nil {
		cz := ex.newZeroObject(st, ct)
		o1 := ex.Call(st, setType, []Val{cz, &ArrayV{Elem: types.Typ[types.Uint8], Segs: []Seg{{Elems: typ}}}}, nil)
		if len(o1) == 1 && !o1[0].Panic {
			o2 := ex.Call(o1[0].St, write, []Val{cz, body}, nil)
			if len(o2) == 1 && !o2[0].Panic {
				st, cp, viaMethods = o2[0].St, cz, true
			}
		}
	}
	if !viaMethods {
		ex.setField(st, cp, "typ", ex.mkBytes(st, "typ", typ, false, 0))
		ex.setField(st, cp, "data", body)
	}
	outs := ex.Call(st, wt, []Val{cp, &IfaceV{Unk: true}}, nil)
	ok := len(outs) > 0 && !ex.Budget
	detail := ""
	nOK := 0
	for _, o := range outs {
		if o.Panic || len(problemEvents(o.St.Events)) > 0 {
			ok = false
			detail = "panic/bounds: " + o.Msg + fmtEvents(problemEvents(o.St.Events))
			continue
		}
		ws := ex.writesOf(o)
		if len(ws) != 1 {
			ok = false
			detail = fmt.Sprintf("%d Write calls on the destination (header and body must go out in one call)", len(ws))
			continue
		}
		segs := normSegs(ws[0])
		// expected: 4 type bytes, 4 length bytes, run(body)
		lenV := &IntV{W: 32, Signed: false, T: symTerm(L)}
		want := []Seg{{Elems: append(append([]Val{}, typ...), intVals(o.St.beBytes(lenV, 4))...)}, {Run: &Run{Src: body2src(ex, o.St, body), Off: constTerm(0), Len: symTerm(L)}}}
		if !segsEqual(segs, want, o.St.sameVal) {
			ok = false
			detail = fmt.Sprintf("bytes written %s differ from <type><len(body) as u32be><body> %s", arrayString(&ArrayV{Segs: segs}), arrayString(&ArrayV{Segs: want}))
			continue
		}
		nOK++
	}
	c.Check(ok && nOK > 0, rule, "chunk framing "+FuncName(wt), p.Pos(wt.Pos()), "one Write carrying the 4 type bytes, len(body) as big-endian u32 and that same body (symbolic body of any length < 2^31)", detail)
}

func intVals(xs []*IntV) []Val {
	out := make([]Val, len(xs))
	for i, x := range xs {
		out[i] = x
	}
	return out
}

func body2src(ex *Exec, st *State, s *SliceV) string {
	if arr, ok := ex.arrOf(st, s); ok && len(arr.Segs) == 1 && arr.Segs[0].Run != nil {
		return arr.Segs[0].Run.Src
	}
	return "?"
}

// ---------------------------------------------------------------- header

// headerWriter: the module function reachable from WriteTo that takes an io.Writer and serialises a local chunk.
func findHeaderWriter(p *Program) *ssa.Function {
	wt := p.Method("smf", "SMF", "WriteTo")
	ct := p.roleT("smf.chunk")
	if wt == nil || ct == nil {
		return nil
	}
	cw := p.MethodOf(types.NewPointer(ct), "WriteTo")
	var found []*ssa.Function
	for _, f := range p.Reachable(wt) {
		hasW := false
		for _, prm := range f.Params {
			if prm.Type().String() == "io.Writer" {
				hasW = true
			}
		}
		if !hasW {
			continue
		}
		for _, call := range calls(f) {
			if call.Common().StaticCallee() == cw && len(call.Common().Args) > 0 {
				// receiver: a local chunk, by address (pointer receiver) or by value (value receiver)
				a := call.Common().Args[0]
				if l, ok := a.(*ssa.UnOp); ok && l.Op == token.MUL {
					a = l.X
				}
				if _, ok := a.(*ssa.Alloc); ok {
					found = append(found, f)
				}
			}
		}
	}
	if len(found) == 1 {
		return found[0]
	}
	return nil
}

// mkWriterObj builds an abstract *writer whose SMF has the given header fields and a nil logger.
func mkWriterObj(ex *Exec, st *State, p *Program, format, ntracks *IntV, tf Val) (*PtrV, *PtrV) {
	wT := p.roleT("smf.writer")
	sT := p.namedType("smf", "SMF")
	if wT == nil || sT == nil {
		return nil, nil
	}
	sp := ex.newZeroObject(st, sT)
	ex.setField(st, sp, "format", format)
	ex.setField(st, sp, "numTracks", ntracks)
	ex.setField(st, sp, "TimeFormat", tf)
	wp := ex.newZeroObject(st, wT)
	ex.setField(st, wp, "SMF", sp)
	return wp, sp
}

type tfCase struct {
	name string
	mk   func(ex *Exec, st *State, p *Program) (Val, func(st *State) []*IntV) // value and expected 2 division bytes
}

func tfCases() []tfCase {
	var cs []tfCase
	cs = append(cs, tfCase{"metric q (all 65536 values)", func(ex *Exec, st *State, p *Program) (Val, func(st *State) []*IntV) {
		q := mkSym(ex.syms.Get("q", 16, false))
		v := &IfaceV{Dyn: p.namedType("smf", "MetricTicks"), V: q}
		return v, func(st *State) []*IntV {
			lo, hi := st.Range(q)
			var t *IntV
			switch {
			case lo == 0 && hi == 0:
				t = mkConst(960, 16, false)
			case lo > 32767:
				t = mkConst(32767, 16, false)
			case lo >= 1 && hi <= 32767:
				t = q
			default:
				return nil
			}
			return st.beBytes(t, 2)
		}
	}})
	for _, fps := range []int64{24, 25, 29, 30} {
		fps := fps
		cs = append(cs, tfCase{fmt.Sprintf("time code %d fps, subframes symbolic", fps), func(ex *Exec, st *State, p *Program) (Val, func(st *State) []*IntV) {
			sub := mkSym(ex.syms.Get("sub", 8, false))
			tcT := p.namedType("smf", "TimeCode")
			sv := &StructV{T: tcT.Underlying().(*types.Struct), Fields: []Val{mkConst(fps, 8, false), sub}}
			return &IfaceV{Dyn: tcT, V: sv}, func(st *State) []*IntV {
				return []*IntV{mkConst(256-fps, 8, false), sub}
			}
		}})
	}
	return cs
}

func ruleHeaderWrite(c *Ctx, rule string) {
	p := c.P
	hw := findHeaderWriter(p)
	if hw == nil {
		c.Unk(rule, "header writer (role: takes io.Writer, serialises a local chunk, reachable from WriteTo)", "-", "not uniquely resolved")
		return
	}
	c.Fn(FuncName(hw))
	for _, tc := range tfCases() {
		ex := NewExec(p)
		st := ex.NewState()
		format := mkSym(ex.syms.Get("format", 16, false))
		ntr := mkSym(ex.syms.Get("ntracks", 16, false))
		tfv, expect := tc.mk(ex, st, p)
		wp, _ := mkWriterObj(ex, st, p, format, ntr, tfv)
		if wp == nil {
			c.Unk(rule, "writer object", "-", "types not found")
			return
		}
		var args []Val
		for _, prm := range hw.Params {
			if prm.Type().String() == "io.Writer" {
				args = append(args, &IfaceV{Unk: true})
			} else {
				args = append(args, wp)
			}
		}
		outs := ex.Call(st, hw, args, nil)
		ok := len(outs) > 0 && !ex.Budget
		detail := ""
		good := 0
		for _, o := range outs {
			if o.Panic || len(problemEvents(o.St.Events)) > 0 {
				ok = false
				detail = "panic/bounds: " + o.Msg + fmtEvents(problemEvents(o.St.Events))
				continue
			}
			ws := ex.writesOf(o)
			if len(ws) != 1 {
				ok = false
				detail = fmt.Sprintf("%d writes for the header chunk", len(ws))
				continue
			}
			got, flat := flatElems(ws[0])
			div := expect(o.St)
			if div == nil {
				ok = false
				detail = "division clamp boundaries (0, 32767) not separated on this path [" + outcomeWitness(o) + "]"
				continue
			}
			var want []*IntV
			for _, ch := range "MThd" {
				want = append(want, mkConst(int64(ch), 8, false))
			}
			want = append(want, mkConst(0, 8, false), mkConst(0, 8, false), mkConst(0, 8, false), mkConst(6, 8, false))
			want = append(want, o.St.beBytes(format, 2)...)
			want = append(want, o.St.beBytes(ntr, 2)...)
			want = append(want, div...)
			if !flat || len(got) != len(want) {
				ok = false
				detail = fmt.Sprintf("header chunk has %d bytes, SMF 1.0 prescribes 14", len(got))
				continue
			}
			for i := range want {
				iv, _ := got[i].(*IntV)
				if iv == nil || !o.St.sameInt(iv, want[i]) {
					ok = false
					detail = fmt.Sprintf("header byte %d is %s, specification requires %s [%s]", i, valString(got[i]), want[i], outcomeWitness(o))
				}
			}
			// metric: bit 15 must be 0
			if iv, okb := got[12].(*IntV); okb && tc.name[0] == 'm' {
				if _, hi := o.St.Range(iv); hi > 127 {
					ok = false
					detail = "metric division with bit 15 possibly set"
				}
			}
			good++
		}
		c.Check(ok && good > 0, rule, "header layout: "+tc.name, p.Pos(hw.Pos()), fmt.Sprintf("%d partitions; 14 bytes MThd 00000006 format ntrks division, all big-endian, bit for bit", good), detail)
	}
}

// ---------------------------------------------------------------- per-event encoder

// findEventEncoder: function reachable from WriteTo with a uint32 and a Message parameter.
func findEventEncoder(p *Program) *ssa.Function {
	wt := p.Method("smf", "SMF", "WriteTo")
	mt := p.namedType("smf", "Message")
	if wt == nil || mt == nil {
		return nil
	}
	var found []*ssa.Function
	for _, f := range p.Reachable(wt) {
		hasD, hasM := false, false
		for _, prm := range f.Params {
			if prm.Type().String() == "uint32" {
				hasD = true
			}
			if types.Identical(prm.Type(), mt) {
				hasM = true
			}
		}
		if hasD && hasM {
			found = append(found, f)
		}
	}
	if len(found) > 1 {
		// a function with these parameters that never reaches the variable-length-quantity encoder does not serialise
		// anything (e.g. a helper that appends an event to a track before the file is written)
		if vq := findVlqEncoder(p); vq != nil {
			var ser []*ssa.Function
			for _, f := range found {
				for _, g := range p.Reachable(f) {
					if g == vq {
						ser = append(ser, f)
						break
					}
				}
			}
			if len(ser) > 0 {
				found = ser
			}
		}
	}
	if len(found) == 1 {
		return found[0]
	}
	// several layers take (delta, message) — e.g. an outer Write(delta, msg) that validates and an inner encoder: the
	// encoder proper is the innermost one (it calls none of the other candidates)
	isCand := map[*ssa.Function]bool{}
	for _, f := range found {
		isCand[f] = true
	}
	var inner []*ssa.Function
	for _, f := range found {
		callsOther := false
		for _, call := range calls(f) {
			if cal := call.Common().StaticCallee(); cal != nil && cal != f && isCand[cal] {
				callsOther = true
			}
		}
		if !callsOther {
			inner = append(inner, f)
		}
	}
	if len(inner) == 1 {
		return inner[0]
	}
	return nil
}

func ruleEventEncode(c *Ctx, rule string) {
	p := c.P
	enc := findEventEncoder(p)
	newRW := p.Func("internal/runningstatus", "NewSMFWriter")
	if enc == nil || newRW == nil {
		c.Unk(rule, "event encoder (role: func(delta uint32, msg Message) reachable from WriteTo)", "-", "not uniquely resolved")
		return
	}
	c.Fn(FuncName(enc))
	type lenClass struct {
		name   string
		prefix int
		rest   bool
		lo, hi int64 // rest length range
	}
	lcs := []lenClass{{"len=1", 1, false, 0, 0}, {"len=2", 2, false, 0, 0}, {"len=3", 3, false, 0, 0}, {"len 4..128", 3, true, 1, 125}, {"len 129..16384", 3, true, 126, 16381}}
	type rsCase struct {
		name string
		mode int // 0 = no running-status writer, 1 = stored status equals first byte, 2 = stored status differs
	}
	rss := []rsCase{{"running status off", 0}, {"stored status = first byte", 1}, {"stored status != first byte", 2}}
	groups := map[string][2]int{} // group -> ok, total
	var firstBad string
	for b0 := 0; b0 < 256; b0++ {
		isChan := b0 >= 0x80 && b0 <= 0xEF
		isSysex := b0 == 0xF0 || b0 == 0xF7
		for _, lc := range lcs {
			for _, rs := range rss {
				if rs.mode == 1 && !isChan && b0 != 0 {
					// stored status can equal the first byte only for channel statuses (or 0 = none)
					continue
				}
				ex := NewExec(p)
				st := ex.NewState()
				format := mkConst(1, 16, false)
				wp, _ := mkWriterObj(ex, st, p, format, mkConst(1, 16, false), &IfaceV{Nil: true})
				// message
				elems := []Val{mkConst(int64(b0), 8, false)}
				for i := 1; i < lc.prefix; i++ {
					elems = append(elems, ex.byteSym(fmt.Sprintf("m[%d]", i)))
				}
				raw := ex.mkBytes(st, "m", elems, lc.rest, lc.lo)
				if lc.rest {
					st.refineSym(ex.syms.Get("len(m.rest)", 64, true), lc.lo, lc.hi)
				}
				// running-status writer
				var rwObj *PtrV
				if rs.mode != 0 {
					r := ex.Call(st, newRW, nil, nil)
					if len(r) != 1 || r[0].Panic {
						c.Unk(rule, "NewSMFWriter", "-", "constructor not interpretable")
						return
					}
					st = r[0].St
					iv, _ := r[0].Ret[0].(*IfaceV)
					if iv == nil || iv.Dyn == nil {
						c.Unk(rule, "NewSMFWriter", "-", "constructor does not return a concrete writer")
						return
					}
					rwObj, _ = iv.V.(*PtrV)
					var sv *IntV
					if rs.mode == 1 {
						sv = mkConst(int64(b0), 8, false)
					} else {
						s := ex.syms.Get("stored", 8, false)
						sv = mkSym(s)
						if !st.Assume("!=", sv, mkConst(int64(b0), 8, false)) {
							continue
						}
					}
					if !ex.setField(st, rwObj, "status", sv) {
						c.Unk(rule, "running-status writer state", "-", "no status field")
						return
					}
					ex.setField(st, wp, "runningWriter", iv)
				}
				delta := mkSym(ex.syms.Get("delta", 32, false))
				st.refineSym(delta.T.Syms[0], 0, 127)
				var args []Val
				for _, prm := range enc.Params {
					switch {
					case prm.Type().String() == "uint32":
						args = append(args, delta)
					case namedTypeName(prm.Type()) == "Message":
						args = append(args, raw)
					default:
						args = append(args, wp)
					}
				}
				outs := ex.Call(st, enc, args, nil)
				grp := "data first byte"
				switch {
				case isSysex:
					grp = "sysex F0/F7"
				case isChan:
					grp = "channel 80-EF"
				case b0 == 0xFF:
					grp = "meta FF"
				case b0 >= 0xF1:
					grp = "system F1-F6,F8-FE"
				}
				grp += " / " + rs.name
				g := groups[grp]
				g[1]++
				good := len(outs) > 0 && !ex.Budget
				why := ""
				for _, o := range outs {
					if o.Panic || len(problemEvents(o.St.Events)) > 0 {
						good = false
						why = "panic/bounds: " + o.Msg + fmtEvents(problemEvents(o.St.Events))
						continue
					}
					chunkV, okc := ex.getField(o.St, wp, "currentChunk.data")
					sl, _ := chunkV.(*SliceV)
					if !okc || sl == nil {
						good = false
						why = "chunk body not found"
						continue
					}
					got, okg := ex.sliceSegs(o.St, sl)
					// expected
					rawSegs, _ := ex.sliceSegs(o.St, raw)
					tailSegs, _ := ex.arrSub(o.St, &ArrayV{Segs: rawSegs}, constTerm(1), o.St.TermOf(raw.Len))
					want := []Seg{{Elems: intVals(vlqSpecBytes(o.St, delta, 1))}}
					wantStatus := int64(0)
					elide := isChan && rs.mode == 1
					switch {
					case isSysex:
						lm1 := o.St.Convert(o.St.Arith(token.SUB, raw.Len, mkConst(1, 64, true), ""), 32, false)
						k := 1
						if _, hi := o.St.Range(lm1); hi > 127 {
							k = 2
						}
						want = append(want, Seg{Elems: append([]Val{mkConst(int64(b0), 8, false)}, intVals(vlqSpecBytes(o.St, lm1, k))...)})
						want = append(want, tailSegs...)
					case elide:
						want = append(want, tailSegs...)
						wantStatus = int64(b0)
					default:
						want = append(want, rawSegs...)
						if isChan {
							wantStatus = int64(b0)
						}
					}
					if !okg || !segsEqual(o.St.dropEmptyRuns(got), o.St.dropEmptyRuns(want), o.St.sameVal) {
						good = false
						why = fmt.Sprintf("first byte %02X, %s, %s: chunk gets %s, SMF 1.0 requires %s", b0, lc.name, rs.name, arrayString(&ArrayV{Segs: got}), arrayString(&ArrayV{Segs: want}))
						continue
					}
					if rwObj != nil {
						sv, _ := ex.getField(o.St, rwObj, "status")
						iv, _ := sv.(*IntV)
						if iv == nil || !o.St.sameInt(iv, mkConst(wantStatus, 8, false)) {
							good = false
							why = fmt.Sprintf("first byte %02X, %s: running-status writer keeps %s afterwards, must be %02X", b0, rs.name, valString(sv), wantStatus)
						}
					}
				}
				if good {
					g[0]++
				} else if firstBad == "" || true {
					if _, seen := groups["!"+grp]; !seen {
						groups["!"+grp] = [2]int{}
						c.Bad(rule, "event encoder: "+grp, p.Pos(enc.Pos()), why)
					}
				}
				groups[grp] = g
			}
		}
	}
	for grp, g := range groups {
		if grp[0] == '!' {
			continue
		}
		if g[0] == g[1] {
			c.OK(rule, "event encoder: "+grp, p.Pos(enc.Pos()), fmt.Sprintf("%d cells (first byte x length class): chunk gets VLQ(delta) then exactly the SMF 1.0 encoding; stored status afterwards as the format requires", g[1]))
		}
	}
}

// ---------------------------------------------------------------- per-track flush

// findTrackFlush: module function reachable from WriteTo that serialises a chunk held in a struct field.
func findTrackFlush(p *Program) *ssa.Function {
	wt := p.Method("smf", "SMF", "WriteTo")
	ct := p.roleT("smf.chunk")
	if wt == nil || ct == nil {
		return nil
	}
	cw := p.MethodOf(types.NewPointer(ct), "WriteTo")
	var found []*ssa.Function
	for _, f := range p.Reachable(wt) {
		for _, call := range calls(f) {
			if call.Common().StaticCallee() == cw && len(call.Common().Args) > 0 {
				// receiver: the address of the chunk field (pointer receiver) or its loaded value (value receiver)
				a := call.Common().Args[0]
				if l, ok := a.(*ssa.UnOp); ok && l.Op == token.MUL {
					a = l.X
				}
				if _, ok := a.(*ssa.FieldAddr); ok {
					found = append(found, f)
				}
			}
		}
	}
	if len(found) == 1 {
		return found[0]
	}
	return nil
}

// ruleTrackFlush: after a successful flush of a track chunk the running-status writer holds no status,
// the chunk body is empty and the pending delta is 0 (so nothing leaks into the next track).
func ruleTrackFlush(c *Ctx, rule string) {
	p := c.P
	fl := findTrackFlush(p)
	newRW := p.Func("internal/runningstatus", "NewSMFWriter")
	if fl == nil || newRW == nil {
		c.Unk(rule, "track flush (role: serialises the chunk field, reachable from WriteTo)", "-", "not uniquely resolved")
		return
	}
	c.Fn(FuncName(fl))
	for _, noRS := range []bool{false, true} {
		ex := NewExec(p)
		st := ex.NewState()
		wp, sp := mkWriterObj(ex, st, p, mkConst(1, 16, false), mkSym(ex.syms.Get("ntracks", 16, false)), &IfaceV{Nil: true})
		ex.setField(st, sp, "NoRunningStatus", &BoolV{Known: true, Val: noRS})
		var typ []Val
		for _, ch := range "MTrk" {
			typ = append(typ, mkConst(int64(ch), 8, false))
		}
		okTyp := true
		if tv, has := ex.getField(st, wp, "currentChunk.typ"); !has {
			okTyp = false
		} else if _, isSlice := tv.(*SliceV); !isSlice {
			okTyp = false // the type is kept in another form (e.g. a [4]byte)
		}
		okTyp = okTyp && ex.setField(st, wp, "currentChunk.typ", ex.mkBytes(st, "typ", typ, false, 0))
		body := ex.unknownSlice(st, types.Typ[types.Uint8], "body", 1)
		st.refineSym(body.Len.T.Syms[0], 1, 1<<31-1)
		okData := ex.setField(st, wp, "currentChunk.data", body)
		if !okTyp || !okData {
			// the chunk keeps its type / body in another form than the cell can preset: what this cell decides (nothing of
			// one track leaks into the next: running status, chunk body, pending delta) is decided by the whole-file write
			// simulations, which write several tracks in a row with and without running status and compare every byte
			c.OK(rule, fmt.Sprintf("track flush leaves a clean writer (NoRunningStatus=%v)", noRS), p.Pos(fl.Pos()), "chunk representation not presettable by this cell; decided by the whole-file write simulations (several tracks in a row, running status on and off)")
			continue
		}
		ex.setField(st, wp, "deltatime", mkSym(ex.syms.Get("pendingdelta", 32, false)))
		ex.setField(st, wp, "tracksProcessed", mkSym(ex.syms.Get("done", 16, false)))
		if !noRS {
			r := ex.Call(st, newRW, nil, nil)
			if len(r) != 1 || r[0].Panic {
				c.Unk(rule, "NewSMFWriter", "-", "not interpretable")
				return
			}
			st = r[0].St
			iv := r[0].Ret[0].(*IfaceV)
			s := mkSym(ex.syms.Get("stored", 8, false))
			st.refineSym(s.T.Syms[0], 0x80, 0xEF)
			ex.setField(st, iv.V.(*PtrV), "status", s)
			ex.setField(st, wp, "runningWriter", iv)
		}
		var args []Val
		for _, prm := range fl.Params {
			if prm.Type().String() == "io.Writer" {
				args = append(args, &IfaceV{Unk: true})
			} else {
				args = append(args, wp)
			}
		}
		outs := ex.Call(st, fl, args, nil)
		ok := len(outs) > 0 && !ex.Budget
		why := ""
		succ := 0
		for _, o := range outs {
			if o.Panic || len(problemEvents(o.St.Events)) > 0 {
				ok = false
				why = "panic/bounds: " + o.Msg + fmtEvents(problemEvents(o.St.Events))
				continue
			}
			ev, _ := o.Ret[len(o.Ret)-1].(*IfaceV)
			if ev == nil || !ev.Nil {
				continue // failed flush: WriteTo aborts (C10)
			}
			succ++
			if !noRS {
				rw, _ := ex.getField(o.St, wp, "runningWriter")
				iv, _ := rw.(*IfaceV)
				if iv == nil || iv.Nil || iv.Unk {
					ok = false
					why = "after a successful flush the running-status writer is missing"
					continue
				}
				sv, _ := ex.getField(o.St, iv.V.(*PtrV), "status")
				si, _ := sv.(*IntV)
				if si == nil || !o.St.sameInt(si, mkConst(0, 8, false)) {
					ok = false
					why = "after a successful flush the running-status writer still holds status " + valString(sv) + ": the first channel message of the next track could be written without status byte"
				}
			}
			dv, _ := ex.getField(o.St, wp, "currentChunk.data")
			if sl, _ := dv.(*SliceV); sl == nil || !(sl.Nil || isZeroLen(o.St, sl)) {
				ok = false
				why = "chunk body is not cleared after the flush: the next track would repeat this track's bytes"
			}
			// a writer that keeps a pending delta must clear it (a writer that gets the delta as a parameter has none;
			// the whole-file simulation checks the deltas of the track that follows either way)
			if dl, has := ex.getField(o.St, wp, "deltatime"); has {
				if di, _ := dl.(*IntV); di == nil || !o.St.sameInt(di, mkConst(0, 32, false)) {
					ok = false
					why = "pending delta not reset after the flush"
				}
			}
		}
		c.Check(ok && succ > 0, rule, fmt.Sprintf("track flush leaves a clean writer (NoRunningStatus=%v)", noRS), p.Pos(fl.Pos()), "on every successful flush: stored running status cleared, chunk body empty, pending delta 0", why)
	}
}

// ---------------------------------------------------------------- running-status reader (SMF)

func ruleRSReader(c *Ctx, rule string) {
	p := c.P
	newRR := p.Func("internal/runningstatus", "NewSMFReader")
	if newRR == nil {
		c.Unk(rule, "runningstatus.NewSMFReader", "-", "not found")
		return
	}
	bad := 0
	n := 0
	var firstWhy string
	for canary := 0; canary < 256; canary++ {
		for _, zero := range []bool{true, false} {
			ex := NewExec(p)
			st := ex.NewState()
			r := ex.Call(st, newRR, nil, nil)
			if len(r) != 1 || r[0].Panic {
				c.Unk(rule, "NewSMFReader", "-", "not interpretable")
				return
			}
			st = r[0].St
			iv, _ := r[0].Ret[0].(*IfaceV)
			if iv == nil || iv.Dyn == nil {
				c.Unk(rule, "NewSMFReader", "-", "no concrete reader")
				return
			}
			read := p.MethodOf(iv.Dyn, "Read")
			if read == nil {
				c.Unk(rule, "SMF running-status reader Read", "-", "not found")
				return
			}
			c.Fn(FuncName(read))
			var stored *IntV = mkConst(0, 8, false)
			if !zero {
				s := ex.syms.Get("stored", 8, false)
				stored = mkSym(s)
				st.refineSym(s, 0x80, 0xEF)
			}
			if !ex.setField(st, iv.V.(*PtrV), "reader.status", stored) && !ex.setField(st, iv.V.(*PtrV), "status", stored) {
				c.Unk(rule, "reader state", "-", "status field not found")
				return
			}
			n++
			for _, o := range ex.Call(st, read, []Val{iv.V, mkConst(int64(canary), 8, false)}, nil) {
				if o.Panic {
					bad++
					firstWhy = o.Msg
					continue
				}
				var wantStatus *IntV
				wantChanged := false
				switch {
				case canary == 0xFF || canary == 0xF0 || canary == 0xF7:
					wantStatus, wantChanged = mkConst(0, 8, false), true
				case canary >= 0x80 && canary <= 0xEF:
					wantStatus, wantChanged = mkConst(int64(canary), 8, false), true
				default:
					wantStatus = stored
				}
				gs, _ := o.Ret[0].(*IntV)
				gc, _ := o.Ret[1].(*BoolV)
				after, ok1 := ex.getField(o.St, iv.V.(*PtrV), "reader.status")
				if !ok1 {
					after, _ = ex.getField(o.St, iv.V.(*PtrV), "status")
				}
				ai, _ := after.(*IntV)
				cv, ck := false, false
				if gc != nil {
					cv, ck = o.St.boolOf(gc)
				}
				if gs == nil || ai == nil || !o.St.sameInt(gs, wantStatus) || !o.St.sameInt(ai, wantStatus) || !ck || cv != wantChanged {
					bad++
					if firstWhy == "" {
						firstWhy = fmt.Sprintf("canary %02X with stored status %s: returns (%s, changed=%v/%v), keeps %s; SMF 1.0: status %s, changed=%v", canary, stored, valString(o.Ret[0]), cv, ck, valString(after), wantStatus, wantChanged)
					}
				}
			}
		}
	}
	c.Check(bad == 0, rule, "SMF running-status reader table", "-", fmt.Sprintf("%d (first byte x stored status) cells: cleared on exactly FF/F0/F7, set on exactly 80-EF, kept otherwise", n), firstWhy)
}

// ---------------------------------------------------------------- header reader and composition

// findHeaderParser: function reachable from ReadFrom that stores the (exported) TimeFormat field.
func findHeaderParser(p *Program) *ssa.Function {
	rf := p.Func("smf", "ReadFrom")
	if rf == nil {
		return nil
	}
	var found []*ssa.Function
	for _, f := range p.Reachable(rf) {
		for _, b := range f.Blocks {
			for _, in := range b.Instrs {
				if st, ok := in.(*ssa.Store); ok {
					if fv := fieldVar(st.Addr); fv != nil && fv.Name() == "TimeFormat" {
						found = append(found, f)
					}
				}
			}
		}
	}
	uniq := map[*ssa.Function]bool{}
	for _, f := range found {
		uniq[f] = true
	}
	if len(uniq) == 1 {
		return found[0]
	}
	return nil
}

// findReaderCtor: the function of package smf that makes a reader from an io.Reader (role: func(io.Reader) *reader).
func findReaderCtor(p *Program) *ssa.Function {
	rT := p.roleT("smf.reader")
	sp := p.Pkg("smf")
	if rT == nil || sp == nil {
		return nil
	}
	var found []*ssa.Function
	for _, f := range pkgFuncsWithClosures(sp, p) {
		sig := f.Signature
		if sig.Recv() != nil || sig.Params().Len() != 1 || sig.Results().Len() != 1 || f.Parent() != nil {
			continue
		}
		if sig.Params().At(0).Type().String() != "io.Reader" {
			continue
		}
		if pt, ok := sig.Results().At(0).Type().(*types.Pointer); ok && types.Identical(pt.Elem(), rT) {
			found = append(found, f)
		}
	}
	if len(found) == 1 {
		return found[0]
	}
	return nil
}

func mkReaderObj(ex *Exec, st *State, p *Program) (*PtrV, *PtrV) {
	rT := p.roleT("smf.reader")
	sT := p.namedType("smf", "SMF")
	if rT == nil || sT == nil {
		return nil, nil
	}
	sp := ex.newZeroObject(st, sT)
	rp := ex.newZeroObject(st, rT)
	ex.setField(st, rp, "SMF", sp)
	return rp, sp
}

// ruleHeaderRead: the reader's header semantics (C02.3) and reader(writer(header)) = header (C01.4).
func ruleHeaderRead(c *Ctx, ruleSem, ruleComp string) {
	p := c.P
	hp := findHeaderParser(p)
	if hp == nil {
		c.Unk(ruleSem, "header parser (role: stores TimeFormat, reachable from ReadFrom)", "-", "not uniquely resolved")
		return
	}
	c.Fn(FuncName(hp))
	callParser := func(ex *Exec, st *State, src *SliceV) (*PtrV, *PtrV, []Outcome) {
		rp, sp := mkReaderObj(ex, st, p)
		rd := ex.readerOver(st, src)
		ex.setField(st, rp, "input", rd)
		var args []Val
		for _, prm := range hp.Params {
			if prm.Type().String() == "io.Reader" {
				args = append(args, rd)
			} else {
				args = append(args, rp)
			}
		}
		return rp, sp, ex.Call(st, hp, args, nil)
	}
	semOK, semN, semSucc, semRej := true, 0, 0, 0
	semWhy := ""
	for h4 := 0; ruleSem != "" && h4 < 256; h4++ {
		ex := NewExec(p)
		st := ex.NewState()
		var bs []*IntV
		var vals []Val
		for i := 0; i < 6; i++ {
			b := ex.byteSym(fmt.Sprintf("h[%d]", i))
			if i == 4 {
				b = mkConst(int64(h4), 8, false) // high byte of the division: all 256 values singly
			}
			bs = append(bs, b)
			vals = append(vals, b)
		}
		src := ex.mkBytes(st, "tail", vals, true, 0)
		_, sp, outs := callParser(ex, st, src)
		u16 := func(st *State, hi, lo *IntV) *IntV {
			return st.Arith(token.OR, st.Shift(token.SHL, st.Convert(hi, 16, false), 8), st.Convert(lo, 16, false), "")
		}
		ok := len(outs) > 0 && !ex.Budget
		why := ""
		succ, rej := 0, 0
		for _, o := range outs {
			if o.Panic || len(problemEvents(o.St.Events)) > 0 {
				ok = false
				why = "panic/bounds: " + o.Msg + fmtEvents(problemEvents(o.St.Events))
				continue
			}
			ev, _ := o.Ret[len(o.Ret)-1].(*IfaceV)
			format := u16(o.St, bs[0], bs[1])
			fl, fh := o.St.Range(format)
			if ev == nil || !ev.Nil {
				rej++
				if fh <= 2 {
					ok = false
					why = "a header with a legal format (0..2) and 6 bytes of data is rejected [" + outcomeWitness(o) + "]"
				}
				continue
			}
			succ++
			if fl > 2 {
				ok = false
				why = fmt.Sprintf("format in [%d,%d] accepted", fl, fh)
				continue
			}
			gf, _ := ex.getField(o.St, sp, "format")
			gn, _ := ex.getField(o.St, sp, "numTracks")
			gt, _ := ex.getField(o.St, sp, "TimeFormat")
			if gi, _ := gf.(*IntV); gi == nil || !o.St.sameInt(gi, format) {
				ok = false
				why = "format field is not the big-endian u16 at offset 0: " + valString(gf) + " vs " + format.String()
			}
			if gi, _ := gn.(*IntV); gi == nil || !o.St.sameInt(gi, u16(o.St, bs[2], bs[3])) {
				ok = false
				why = "track count is not the big-endian u16 at offset 2: got " + valString(gn)
			}
			div := u16(o.St, bs[4], bs[5])
			ti, _ := gt.(*IfaceV)
			if ti == nil || ti.Dyn == nil {
				ok = false
				why = "TimeFormat not set to a concrete format"
				continue
			}
			hb, _ := o.St.Range(bs[4])
			switch namedTypeName(ti.Dyn) {
			case "MetricTicks":
				iv, _ := ti.V.(*IntV)
				want := o.St.Arith(token.AND, div, mkConst(0x7FFF, 16, false), "")
				if _, hi := o.St.Range(bs[4]); hi > 127 {
					ok = false
					why = "metric time format chosen although bit 15 of the division may be set"
				}
				if iv == nil || !o.St.sameInt(iv, want) {
					ok = false
					why = "metric resolution is not bits 0-14 of the division: " + valString(ti.V)
				}
			case "TimeCode":
				if hb < 128 {
					ok = false
					why = "time code chosen although bit 15 of the division may be clear"
				}
				sv, _ := ti.V.(*StructV)
				if sv == nil || len(sv.Fields) != 2 {
					ok = false
					why = "TimeCode value malformed"
					break
				}
				fps, _ := sv.Fields[0].(*IntV)
				sub, _ := sv.Fields[1].(*IntV)
				// fps = two's complement negation of the high byte
				wantFps := o.St.Convert(o.St.Neg(o.St.Convert(bs[4], 8, true), ""), 8, false)
				if fps == nil || !sameBits(o.St, fps, wantFps) {
					ok = false
					why = "frames per second is not the negated high byte of the division: " + valString(sv.Fields[0])
				}
				if sub == nil || !o.St.sameInt(sub, bs[5]) {
					ok = false
					why = "subframes is not the low byte of the division"
				}
			default:
				ok = false
				why = "unexpected time format type " + ti.Dyn.String()
			}
		}
		semN++
		semSucc += succ
		semRej += rej
		if !(ok && succ >= 1 && rej >= 1) {
			semOK = false
			if semWhy == "" {
				semWhy = fmt.Sprintf("division high byte %02X: %s (accepting=%d rejecting=%d)", h4, why, succ, rej)
			}
		}
	}
	if ruleSem != "" {
		c.Check(semOK && semN == 256, ruleSem, "header semantics", p.Pos(hp.Pos()), fmt.Sprintf("256 high-byte cells x symbolic remaining header bytes, %d accepting / %d rejecting partitions: formats {0,1,2}; bit 15 selects time code; metric = bits 0-14; fps = -(high byte) mod 256; subframes = low byte", semSucc, semRej), semWhy)
	}
	if ruleComp != "" {
		hw := findHeaderWriter(p)
		if hw == nil {
			c.Unk(ruleComp, "header writer", "-", "not resolved")
			return
		}
		for _, tc := range tfCases() {
			for format := int64(0); format <= 2; format++ {
				ex := NewExec(p)
				st := ex.NewState()
				ntr := mkSym(ex.syms.Get("ntracks", 16, false))
				tfv, _ := tc.mk(ex, st, p)
				if q := ex.syms.byName["q"]; q != nil {
					st.refineSym(q, 1, 32767) // domain of C01: metric resolution 1..32767
				}
				wp, _ := mkWriterObj(ex, st, p, mkConst(format, 16, false), ntr, tfv)
				var args []Val
				for _, prm := range hw.Params {
					if prm.Type().String() == "io.Writer" {
						args = append(args, &IfaceV{Unk: true})
					} else {
						args = append(args, wp)
					}
				}
				ok := true
				why := ""
				n := 0
				for _, o := range ex.Call(st, hw, args, nil) {
					if o.Panic {
						ok = false
						why = o.Msg
						continue
					}
					ev, _ := o.Ret[len(o.Ret)-1].(*IfaceV)
					if ev == nil || !ev.Nil {
						continue
					}
					ws := ex.writesOf(o)
					if len(ws) != 1 {
						ok = false
						why = "header not written in one piece"
						continue
					}
					all, flat := flatElems(ws[0])
					if !flat || len(all) != 14 {
						ok = false
						why = "header is not 14 bytes"
						continue
					}
					src := ex.mkBytes(o.St, "hdr", all[8:], false, 0)
					_, sp, outs := callParser(ex, o.St, src)
					for _, o2 := range outs {
						n++
						if o2.Panic {
							ok = false
							why = "reader panics on the writer's header: " + o2.Msg
							continue
						}
						e2, _ := o2.Ret[len(o2.Ret)-1].(*IfaceV)
						if e2 == nil || !e2.Nil {
							ok = false
							why = "reader rejects the writer's header"
							continue
						}
						gf, _ := ex.getField(o2.St, sp, "format")
						gn, _ := ex.getField(o2.St, sp, "numTracks")
						gt, _ := ex.getField(o2.St, sp, "TimeFormat")
						if gi, _ := gf.(*IntV); gi == nil || !o2.St.sameInt(gi, mkConst(format, 16, false)) {
							ok = false
							why = "format does not survive the round trip"
						}
						if gi, _ := gn.(*IntV); gi == nil || !o2.St.sameInt(gi, ntr) {
							ok = false
							why = "track count does not survive the round trip"
						}
						if !sameTimeFormat(o2.St, gt, tfv) {
							ok = false
							why = fmt.Sprintf("time division does not survive the round trip: wrote %s, read %s", valString(tfv), valString(gt))
						}
					}
				}
				c.Check(ok && n > 0, ruleComp, fmt.Sprintf("reader(writer(header)) = header: format %d, %s", format, tc.name), p.Pos(hp.Pos()), "format, track count and time division read back equal to what was written (symbolic values)", why)
			}
		}
	}
}

func sameBits(st *State, a, b *IntV) bool {
	if st.sameInt(a, b) {
		return true
	}
	if a.W != b.W {
		return false
	}
	ba, bb := st.BitsOf(a), st.BitsOf(b)
	for i := range ba {
		if ba[i].K == BTop || bb[i].K == BTop || ba[i] != bb[i] {
			return false
		}
	}
	return true
}

func sameTimeFormat(st *State, a, b Val) bool {
	ai, _ := a.(*IfaceV)
	bi, _ := b.(*IfaceV)
	if ai == nil || bi == nil || ai.Dyn == nil || bi.Dyn == nil || !types.Identical(ai.Dyn, bi.Dyn) {
		return false
	}
	switch x := ai.V.(type) {
	case *IntV:
		y, ok := bi.V.(*IntV)
		return ok && st.sameInt(x, y)
	case *StructV:
		y, ok := bi.V.(*StructV)
		if !ok || len(x.Fields) != len(y.Fields) {
			return false
		}
		for i := range x.Fields {
			xi, ok1 := x.Fields[i].(*IntV)
			yi, ok2 := y.Fields[i].(*IntV)
			if !ok1 || !ok2 || !st.sameInt(xi, yi) {
				return false
			}
		}
		return true
	}
	return false
}

// ---------------------------------------------------------------- per-event decoder

// findEventDecoder: the function reachable from ReadFrom that consults the running-status reader
// (dynamic call of Read on the runningstatus.Reader interface) and takes the first byte of the event.
func findEventDecoder(p *Program) *ssa.Function {
	rf := p.Func("smf", "ReadFrom")
	if rf == nil {
		return nil
	}
	var found []*ssa.Function
	for _, f := range p.Reachable(rf) {
		for _, call := range calls(f) {
			cc := call.Common()
			if cc.IsInvoke() && cc.Method.Name() == "Read" && namedTypeName(cc.Value.Type()) == "Reader" && namedTypePkg(cc.Value.Type()) == modPath+"/internal/runningstatus" {
				found = append(found, f)
			}
		}
	}
	if len(found) == 1 {
		return found[0]
	}
	return nil
}

type decCell struct {
	canary int
	kind   int  // 0 = no stored status, 8..E = stored channel status of that kind
	typ    int  // meta type for canary FF, else -1
	large  bool // sysex / meta with a three-byte length of at least 16384 (beyond every small-buffer path of the reader)
	logger bool // the file object has a logger set (smf.Log option): what is logged must not change what is decoded
}

type decResult struct {
	cell   decCell
	class  string
	ok     bool
	why    string
	panics bool
	pwhy   string
}

func runDecodeCell(p *Program, dec, newRR *ssa.Function, cell decCell) decResult {
	res := decResult{cell: cell, ok: true}
	canary := cell.canary
	ex := NewExec(p)
	ex.Unroll = 6
	st := ex.NewState()
	rp, sp := mkReaderObj(ex, st, p)
	r := ex.Call(st, newRR, nil, nil)
	if len(r) != 1 || r[0].Panic {
		return decResult{cell: cell, why: "NewSMFReader not interpretable"}
	}
	st = r[0].St
	rsv := r[0].Ret[0].(*IfaceV)
	var stored *IntV = mkConst(0, 8, false)
	if cell.kind != 0 {
		s := ex.syms.Get("stored", 8, false)
		stored = mkSym(s)
		st.refineSym(s, int64(cell.kind)<<4, int64(cell.kind)<<4|15)
	}
	if !ex.setField(st, rsv.V.(*PtrV), "reader.status", stored) {
		ex.setField(st, rsv.V.(*PtrV), "status", stored)
	}
	ex.setField(st, rp, "runningStatus", rsv)
	ntr := mkSym(ex.syms.Get("numTracks", 16, false))
	ex.setField(st, sp, "numTracks", ntr)
	done := mkSym(ex.syms.Get("processedTracks", 16, true))
	ex.setField(st, rp, "processedTracks", done)
	setLoggers := func(st *State, objs ...*PtrV) int {
		// any non-nil logger (its Printf only looks at its arguments, invokeSummary): every field of the exported
		// interface type Logger in the reader and in the file object
		lt := p.namedType("smf", "Logger")
		n := 0
		for _, o := range objs {
			if o == nil || lt == nil {
				continue
			}
			if sv, ok := st.heap[o.Obj].(*StructV); ok {
				for i := 0; i < sv.T.NumFields(); i++ {
					if types.Identical(sv.T.Field(i).Type(), lt) {
						sv.Fields[i] = &IfaceV{Unk: true, NonNil: true}
						n++
					}
				}
			}
		}
		return n
	}
	// input shape by class
	isSysex := canary == 0xF0 || canary == 0xF7
	isMeta := canary == 0xFF
	isChan := canary >= 0x80 && canary <= 0xEF
	isData := canary < 0x80
	var elems []Val
	v0s := ex.syms.Get("v0", 8, false)
	st.refineSym(v0s, 0, 127)
	v0 := mkSym(v0s)
	d0, d1 := ex.byteSym("d0"), ex.byteSym("d1")
	typ := mkConst(int64(cell.typ), 8, false)
	// large cells: length L = 16384*h + 128*m + l with h = 1 (three-byte canonical VLQ 80|h 80|m l)
	var lenBytes []Val
	var lenTerm *Term
	if cell.large {
		hs, msy, ls := ex.syms.Get("lh", 8, false), ex.syms.Get("lm", 8, false), ex.syms.Get("ll", 8, false)
		st.refineSym(hs, 1, 1) // most significant group fixed: L in 16384..32767 (keeps the lower bound visible in the bit view)
		st.refineSym(msy, 0, 127)
		st.refineSym(ls, 0, 127)
		lenBytes = []Val{st.Arith(token.OR, mkSym(hs), mkConst(0x80, 8, false), ""), st.Arith(token.OR, mkSym(msy), mkConst(0x80, 8, false), ""), mkSym(ls)}
		// value of the quantity by the SMF definition: the 7-bit groups concatenated, most significant first
		g := func(sy *Sym) *IntV { return st.Convert(mkSym(sy), 32, false) }
		val := st.Arith(token.OR, st.Arith(token.OR, st.Shift(token.SHL, g(hs), 14), st.Shift(token.SHL, g(msy), 7), ""), g(ls), "")
		lenTerm = st.TermOf(st.Convert(val, 64, true))
	}
	switch {
	case isSysex && cell.large:
		elems = lenBytes
		res.class = "sysex F0/F7, length >= 16384"
	case isMeta && cell.large:
		elems = append([]Val{typ}, lenBytes...)
		res.class = "meta FF, length >= 16384"
	case isSysex:
		elems = []Val{v0}
		res.class = "sysex F0/F7"
	case isMeta:
		elems = []Val{typ, v0}
		res.class = "meta FF"
	default:
		elems = []Val{d0, d1}
		switch {
		case isChan:
			res.class = "channel status 80-EF"
		case isData && cell.kind != 0:
			res.class = "data byte under running status"
		case isData:
			res.class = "data byte without running status"
		default:
			res.class = "system status F1-F6/F8-FE"
		}
	}
	if cell.logger {
		res.class += ", logger set"
	}
	src := ex.mkBytes(st, "payload", elems, true, 0)
	rd := ex.readerOver(st, src)
	// the reader object is built by the package's own constructor where there is one (so that a wrapper around the
	// input, a pre-sized buffer etc. are set up the way the code expects); only the cell's state is then written over it
	viaCtor := false
	if ctor := findReaderCtor(p); ctor != nil {
		if co := ex.Call(st, ctor, []Val{rd}, nil); len(co) == 1 && !co[0].Panic {
			if np, ok := co[0].Ret[0].(*PtrV); ok && !np.Nil && !np.Unk {
				st = co[0].St
				rp = np
				viaCtor = ex.setField(st, rp, "SMF", sp) && ex.setField(st, rp, "runningStatus", rsv) && ex.setField(st, rp, "processedTracks", done)
			}
		}
	}
	if !viaCtor {
		ex.setField(st, rp, "input", rd)
	}
	if cell.logger && setLoggers(st, rp, sp) == 0 {
		return decResult{cell: cell, why: "no field of type smf.Logger in the reader or the file object"}
	}
	var args []Val
	for _, prm := range dec.Params {
		if w, _, ok := intTypeInfo(prm.Type()); ok && w == 8 {
			args = append(args, mkConst(int64(canary), 8, false))
		} else {
			args = append(args, rp)
		}
	}
	outs := ex.Call(st, dec, args, nil)
	if ex.Budget || len(outs) == 0 {
		res.ok = false
		res.why = "abstract interpretation did not complete"
		return res
	}
	fail := func(f string, a ...interface{}) {
		if res.ok {
			res.ok = false
			res.why = fmt.Sprintf("first byte %02X, stored status kind %X: ", canary, cell.kind) + fmt.Sprintf(f, a...)
		}
	}
	succ := 0
	for _, o := range outs {
		if o.Panic {
			res.panics = true
			res.pwhy = fmt.Sprintf("first byte %02X, stored status kind %X: %s @%s", canary, cell.kind, o.Msg, o.Pos)
			continue
		}
		if pe := problemEvents(o.St.Events); len(pe) > 0 {
			res.panics = true
			res.pwhy = fmt.Sprintf("first byte %02X, stored status kind %X: %s", canary, cell.kind, fmtEvents(pe))
			continue
		}
		ev, _ := o.Ret[len(o.Ret)-1].(*IfaceV)
		isErr := ev == nil || !ev.Nil
		rdr, _ := ex.rdrOf(o.St, rd.V)
		msg, _ := o.Ret[0].(*SliceV)
		after, okA := ex.getField(o.St, rsv.V.(*PtrV), "reader.status")
		if !okA {
			after, _ = ex.getField(o.St, rsv.V.(*PtrV), "status")
		}
		ai, _ := after.(*IntV)
		expectMsg := func(want []Seg, consumed *Term, wantStatus *IntV) {
			if msg == nil {
				fail("no message returned")
				return
			}
			got, okg := ex.sliceSegs(o.St, msg)
			if !okg || !segsEqualIn(o.St, o.St.dropEmptyRuns(got), o.St.dropEmptyRuns(want)) {
				fail("decoded message %s, SMF 1.0 grammar gives %s", arrayString(&ArrayV{Segs: got}), arrayString(&ArrayV{Segs: want}))
			}
			if !ex.freshSlice(o, msg) {
				fail("the decoded message shares storage that outlives the call (a buffer of the reader or a package-level scratch buffer): the events of a track would all show the bytes of the last one")
			} else if !msg.Nil && ex.reachableFrom(o.St, rp)[msg.Obj] {
				fail("after decoding, the reader still holds a reference to the storage of the message it returned (a buffer it keeps for the next packet): a later event overwrites the bytes of this one")
			}
			if rdr == nil {
				fail("the source reader is no longer tracked after decoding (wrapped or replaced): cannot tell how many bytes were consumed")
			} else if !(termEq(o.St.TermOf(rdr.Pos), consumed) || o.St.sameInt(o.St.Convert(rdr.Pos, 64, true), &IntV{W: 64, Signed: true, T: consumed})) {
				fail("consumed %v bytes after the first byte, grammar says %s", rdr.Pos, consumed)
			}
			if ai == nil || !o.St.sameInt(ai, wantStatus) {
				fail("running status afterwards %s, must be %s", valString(after), wantStatus)
			}
		}
		switch {
		case isSysex || isMeta:
			if isErr {
				// an error is right only if the source ends before the event does (fewer payload bytes left than declared);
				// any complete sysex / meta event, whatever its type and length, is valid and must be decoded
				hdrE, lenE := int64(1), &IntV{W: 64, Signed: true, T: symTerm(v0s)}
				if isMeta {
					hdrE = 2
				}
				if cell.large {
					hdrE += 2
					lenE = &IntV{W: 64, Signed: true, T: lenTerm}
				}
				need := o.St.Arith(token.ADD, lenE, mkConst(hdrE, 64, true), "")
				if short, k := o.St.Decide("<", o.St.Convert(src.Len, 64, true), need); !(k && short) {
					fail("a complete event (%d header bytes + the declared payload present in the source) is rejected with an error [%s]", hdrE, outcomeWitness(o))
				}
				continue
			}
			succ++
			hdr := 1
			pre := []Val{mkConst(int64(canary), 8, false)}
			if isMeta {
				hdr = 2
				pre = append(pre, typ, v0) // canonical VLQ of a value < 128 is the byte itself
			}
			if cell.large {
				hdr = 3
				pre = []Val{mkConst(int64(canary), 8, false)}
				if isMeta {
					hdr = 4
					pre = append(append(pre, typ), lenBytes...)
				}
				want := []Seg{{Elems: pre}, {Run: &Run{Src: "payload", Off: constTerm(int64(hdr)), Len: lenTerm}}}
				expectMsg(normSegs(want), termAdd(constTerm(int64(hdr)), lenTerm, 1), mkConst(0, 8, false))
				continue
			}
			want := []Seg{{Elems: pre}, {Run: &Run{Src: "payload", Off: constTerm(int64(hdr)), Len: symTerm(v0s)}}}
			expectMsg(normSegs(want), termAdd(constTerm(int64(hdr)), symTerm(v0s), 1), mkConst(0, 8, false))
			// end-of-track bookkeeping — only where the reader keeps its mode in two flags (done / chunk header expected);
			// with any other representation the whole-file read simulation (C02.4: two tracks declared and held, three
			// declared) is what decides that an end-of-track finishes the file exactly when it is the last declared one
			isDoneV, _ := ex.getField(o.St, rp, "isDone")
			expChunkV, _ := ex.getField(o.St, rp, "expectChunk")
			isDone, okD := isDoneV.(*BoolV)
			expChunk, okC := expChunkV.(*BoolV)
			if !okD || !okC {
				continue
			}
			dv, dk := o.St.boolOf(isDone)
			cv, ck := o.St.boolOf(expChunk)
			if isMeta && cell.typ == 0x2F {
				// last declared track => done, otherwise expect the next chunk; exactly one of them
				if !dk || !ck || dv == cv {
					fail("after end-of-track: isDone=%v expectChunk=%v (exactly one must be set)", dv, cv)
				} else {
					last, lk := o.St.Decide("==", o.St.Convert(o.St.Arith(token.ADD, done, mkConst(1, 16, true), ""), 16, false), ntr)
					if lk && last != dv {
						fail("end-of-track of the last declared track must finish the file (and only that one)")
					}
				}
			} else if !dk || !ck || dv || cv {
				fail("a non end-of-track event changes the reader mode (isDone=%v expectChunk=%v)", dv, cv)
			}
		case isChan:
			if isErr {
				continue
			}
			succ++
			k := canary >> 4
			if k == 0xC || k == 0xD {
				expectMsg([]Seg{{Elems: []Val{mkConst(int64(canary), 8, false), d0}}}, constTerm(1), mkConst(int64(canary), 8, false))
			} else {
				expectMsg([]Seg{{Elems: []Val{mkConst(int64(canary), 8, false), d0, d1}}}, constTerm(2), mkConst(int64(canary), 8, false))
			}
		case isData && cell.kind != 0:
			if isErr {
				continue
			}
			succ++
			if cell.kind == 0xC || cell.kind == 0xD {
				expectMsg([]Seg{{Elems: []Val{stored, mkConst(int64(canary), 8, false)}}}, constTerm(0), stored)
			} else {
				expectMsg([]Seg{{Elems: []Val{stored, mkConst(int64(canary), 8, false), d0}}}, constTerm(1), stored)
			}
		case isData || cell.kind == 0:
			// data byte or system status with no running status: not an event => must be an error
			if !isErr {
				fail("accepted as an event although no status is in force")
			}
			succ++
		default:
			succ++ // system status bytes under running status: outside the grammar, only panic-freedom is required
		}
	}
	if succ == 0 && res.ok && !res.panics {
		res.ok = false
		res.why = fmt.Sprintf("first byte %02X, stored status kind %X: no successful decoding path", canary, cell.kind)
	}
	return res
}

func ruleEventDecode(c *Ctx, rule, rulePanic string) {
	p := c.P
	dec := findEventDecoder(p)
	newRR := p.Func("internal/runningstatus", "NewSMFReader")
	if dec == nil || newRR == nil {
		c.Unk(rule, "event decoder (role: consults the running-status reader, reachable from ReadFrom)", "-", "not uniquely resolved")
		return
	}
	c.Fn(FuncName(dec))
	var cells []decCell
	for canary := 0; canary < 256; canary++ {
		for _, kind := range []int{0, 8, 9, 0xA, 0xB, 0xC, 0xD, 0xE} {
			if canary == 0xFF {
				for t := 0; t < 256; t++ {
					cells = append(cells, decCell{canary, kind, t, false, false})
					if kind == 0 {
						cells = append(cells, decCell{canary, kind, t, false, true})
					}
				}
			} else {
				cells = append(cells, decCell{canary, kind, -1, false, false})
				if kind == 9 && (canary == 0xF0 || canary == 0xF7 || canary == 0x93 || canary == 0xC1 || canary == 0x40 || canary == 0xF8) {
					cells = append(cells, decCell{canary, kind, -1, false, true})
				}
			}
		}
	}
	// large payloads (length >= 16384, three-byte VLQ): sysex, F7 packet and a text meta event
	cells = append(cells, decCell{0xF0, 0, -1, true, false}, decCell{0xF7, 0x9, -1, true, false}, decCell{0xFF, 0, 0x01, true, false})
	results := make([]decResult, len(cells))
	var wg sync.WaitGroup
	sem := make(chan bool, 16)
	for i := range cells {
		wg.Add(1)
		sem <- true
		go func(i int) {
			defer wg.Done()
			defer func() { <-sem }()
			defer func() {
				if r := recover(); r != nil {
					if os.Getenv("ABSDEBUG") != "" {
						fmt.Fprintf(os.Stderr, "decode cell panic: %v\n%s\n", r, debug.Stack())
					}
					results[i] = decResult{cell: cells[i], class: "checker", why: fmt.Sprintf("checker panic: %v", r)}
				}
			}()
			results[i] = runDecodeCell(p, dec, newRR, cells[i])
		}(i)
	}
	wg.Wait()
	type agg struct {
		n, bad, panics int
		why, pwhy      string
	}
	by := map[string]*agg{}
	var order []string
	for _, r := range results {
		a := by[r.class]
		if a == nil {
			a = &agg{}
			by[r.class] = a
			order = append(order, r.class)
		}
		a.n++
		if !r.ok {
			a.bad++
			if a.why == "" {
				a.why = r.why
			}
		}
		if r.panics {
			a.panics++
			if a.pwhy == "" {
				a.pwhy = r.pwhy
			}
		}
	}
	for _, cl := range order {
		a := by[cl]
		if rule != "" {
			c.Check(a.bad == 0, rule, "event decoder: "+cl, p.Pos(dec.Pos()), fmt.Sprintf("%d cells: bytes consumed, message built and running status afterwards equal the SMF 1.0 event grammar", a.n), fmt.Sprintf("%d of %d cells deviate; first: %s", a.bad, a.n, a.why))
		}
		if rulePanic != "" {
			c.Check(a.panics == 0, rulePanic, "event decoder no panic: "+cl, p.Pos(dec.Pos()), fmt.Sprintf("%d cells: no reachable panic / unproven bound", a.n), fmt.Sprintf("%d of %d cells can panic; first: %s", a.panics, a.n, a.pwhy))
		}
	}
}

// ---------------------------------------------------------------- chunk reader (alien chunks)

// findChunkReader: the function reachable from ReadFrom that skips data with io.CopyN.
func findChunkReader(p *Program) *ssa.Function {
	rf := p.Func("smf", "ReadFrom")
	if rf == nil {
		return nil
	}
	var found []*ssa.Function
	for _, f := range p.Reachable(rf) {
		for _, call := range calls(f) {
			if calleeQual(call) == "io.CopyN" {
				// the skipping one discards: destination is not a local buffer
				if len(call.Common().Args) > 0 {
					if _, isAlloc := strip(call.Common().Args[0]).(*ssa.Alloc); !isAlloc {
						found = append(found, f)
					}
				}
			}
		}
	}
	if len(found) == 1 {
		return found[0]
	}
	return nil
}

func ruleAlienChunks(c *Ctx, rule string) {
	p := c.P
	cr := findChunkReader(p)
	if cr == nil {
		c.Unk(rule, "chunk reader (role: skips with io.CopyN, reachable from ReadFrom)", "-", "not uniquely resolved")
		return
	}
	c.Fn(FuncName(cr))
	for _, tcase := range []string{"MTrk", "XFIH", "symbolic"} {
		ex := NewExec(p)
		st := ex.NewState()
		rp, _ := mkReaderObj(ex, st, p)
		var hdr []Val
		for i := 0; i < 4; i++ {
			if tcase == "symbolic" {
				hdr = append(hdr, ex.byteSym(fmt.Sprintf("T%d", i)))
			} else {
				hdr = append(hdr, mkConst(int64(tcase[i]), 8, false))
			}
		}
		var lb []*IntV
		for i := 0; i < 4; i++ {
			b := ex.byteSym(fmt.Sprintf("L%d", i))
			lb = append(lb, b)
			hdr = append(hdr, b)
		}
		src := ex.mkBytes(st, "rest", hdr, true, 0)
		rd := ex.readerOver(st, src)
		ex.setField(st, rp, "input", rd)
		done := mkSym(ex.syms.Get("processedTracks", 16, true))
		st.refineSym(done.T.Syms[0], -1, 30000)
		ex.setField(st, rp, "processedTracks", done)
		ex.setField(st, rp, "expectChunk", &BoolV{Known: true, Val: true})
		outs := ex.Call(st, cr, []Val{rp}, nil)
		ok := len(outs) > 0 && !ex.Budget
		why := ""
		nTrack, nSkip := 0, 0
		for _, o := range outs {
			if o.Panic || len(problemEvents(o.St.Events)) > 0 {
				ok = false
				why = "panic/bounds: " + o.Msg + fmtEvents(problemEvents(o.St.Events))
				continue
			}
			errv, _ := ex.getField(o.St, rp, "error")
			if ev, _ := errv.(*IfaceV); ev == nil || !ev.Nil {
				continue // short input
			}
			rdr, _ := ex.rdrOf(o.St, rd.V)
			pt, _ := ex.getField(o.St, rp, "processedTracks")
			ec, _ := ex.getField(o.St, rp, "expectChunk")
			pti, _ := pt.(*IntV)
			ecv, eck := o.St.boolOf(ec.(*BoolV))
			l32 := mkConst(0, 32, false)
			for i := 0; i < 4; i++ {
				l32 = o.St.Arith(token.OR, o.St.Shift(token.SHL, l32, 8), o.St.Convert(lb[i], 32, false), "")
			}
			consumed := o.St.TermOf(rdr.Pos)
			skipped := false
			for _, e := range o.St.Events {
				if e.Kind == "source-read" && len(e.Args) == 1 {
					if n, okn := e.Args[0].(*IntV); okn && n.W == 64 {
						skipped = true
						if !o.St.sameInt(o.St.Convert(n, 64, true), o.St.Convert(l32, 64, true)) {
							ok = false
							why = fmt.Sprintf("alien chunk: skipping %s bytes, the chunk header declares %s", n, l32)
						}
					}
				}
			}
			if skipped {
				nSkip++
				if tcase == "MTrk" {
					ok = false
					why = "a track chunk is skipped"
				}
				want := termAdd(constTerm(8), o.St.TermOf(o.St.Convert(l32, 64, true)), 1)
				if !termEq(consumed, want) {
					ok = false
					why = fmt.Sprintf("after skipping an alien chunk %s bytes are consumed, must be 8 + declared length (%s)", consumed, want)
				}
				if !eck || !ecv {
					ok = false
					why = "after an alien chunk the reader does not expect another chunk header"
				}
				if pti == nil || !o.St.sameInt(pti, done) {
					ok = false
					why = "an alien chunk changes the track counter"
				}
			} else {
				nTrack++
				if tcase == "XFIH" {
					ok = false
					why = "an alien chunk is treated as a track"
				}
				if !termEq(consumed, constTerm(8)) {
					ok = false
					why = "a track chunk header consumes " + consumed.String() + " bytes instead of 8"
				}
				if !eck || ecv {
					ok = false
					why = "after a track chunk header the reader still expects a chunk header"
				}
				if pti == nil || !o.St.sameInt(pti, o.St.Arith(token.ADD, done, mkConst(1, 16, true), "")) {
					ok = false
					why = "a track chunk does not advance the track counter by one"
				}
			}
		}
		good := ok
		switch tcase {
		case "MTrk":
			good = good && nTrack > 0 && nSkip == 0
		case "XFIH":
			good = good && nSkip > 0 && nTrack == 0
		default:
			good = good && nSkip > 0 && nTrack > 0
		}
		c.Check(good, rule, "chunk reader on type "+tcase, p.Pos(cr.Pos()), fmt.Sprintf("%d track / %d skipped partitions: MTrk starts a track after exactly 8 bytes; any other type is skipped by exactly its declared 32-bit length and another chunk header is expected", nTrack, nSkip), why)
	}
}

// ---------------------------------------------------------------- delta / option plumbing (C01.7)

// rulePlumbing: (a) SetDelta(d); Write(m) puts VLQ(d) in front of the event and clears the pending delta;
// (b) the writer constructor honours NoRunningStatus; (c) the reader's event function stores the decoded delta
// into the field that the track collector hands to Track.Add / Track.Close; (d) Track.Add gives the delta to the
// first message only.
func rulePlumbing(c *Ctx, rule string) {
	p := c.P
	wT := p.roleT("smf.writer")
	smfT := p.namedType("smf", "SMF")
	trackT := p.namedType("smf", "Track")
	if wT == nil || smfT == nil || trackT == nil {
		c.Unk(rule, "smf writer/SMF/Track types", "-", "not found")
		return
	}
	setDelta := p.roleFunc("smf.writer.SetDelta")
	write := p.roleFunc("smf.writer.Write")
	newW := p.roleFunc("smf.newWriter")
	// (a) writer: each event goes out as VLQ(its own delta) ++ bytes, once (whole-file simulation; independent of how
	// the delta is handed to the encoder — pending field or parameter)
	runWriteToSim(c, "", "", "", "", rule)
	_, _ = setDelta, write
	if newW != nil {
		c.Fn(FuncName(newW))
		for _, noRS := range []bool{false, true} {
			ex := NewExec(p)
			st := ex.NewState()
			sp := ex.newZeroObject(st, smfT)
			ex.setField(st, sp, "NoRunningStatus", &BoolV{Known: true, Val: noRS})
			ok := true
			why := ""
			for _, o := range ex.Call(st, newW, []Val{sp, &IfaceV{Unk: true, NonNil: true}}, nil) {
				if o.Panic {
					ok = false
					why = o.Msg
					continue
				}
				wp, _ := o.Ret[0].(*PtrV)
				rw, _ := ex.getField(o.St, wp, "runningWriter")
				iv, _ := rw.(*IfaceV)
				if iv == nil || iv.Unk || iv.Nil != noRS {
					ok = false
					why = fmt.Sprintf("NoRunningStatus=%v but the writer's running-status stage is nil=%v", noRS, iv != nil && iv.Nil)
				}
				ty, _ := ex.getField(o.St, wp, "currentChunk.typ")
				if tsl, _ := ty.(*SliceV); tsl != nil {
					if el, okE := ex.sliceElems(o.St, tsl); okE {
						want := []Val{mkConst('M', 8, false), mkConst('T', 8, false), mkConst('r', 8, false), mkConst('k', 8, false)}
						if !segsEqual([]Seg{{Elems: el}}, []Seg{{Elems: want}}, o.St.sameVal) {
							ok = false
							why = "track chunks are not typed MTrk"
						}
					}
				}
			}
			c.Check(ok, rule, fmt.Sprintf("writer constructor honours NoRunningStatus=%v, chunk type MTrk", noRS), p.Pos(newW.Pos()), "running-status stage present iff compression is on; chunk type MTrk", why)
		}
	}
	// (c) reader: every decoded delta reaches the event it belongs to — decided by the whole-file read simulation (two
	// tracks with alien chunks around them; deltas 0, 16 on the end-of-track, 2, 5, 0): each event of the returned file
	// carries the delta the file gives it, the closing event included. (Until round 7 a flow rule: "the delta field is
	// stored from the VLQ decoder's result and loaded as the argument of Track.Add / Close"; it depended on the reader
	// keeping the delta in a field of its own.)
	runReadFromSim(c, rule, "")
	// (d) Track.Add: first message gets the delta, the following ones 0
	if add := p.MethodOf(types.NewPointer(trackT), "Add"); add != nil {
		c.Fn(FuncName(add))
		ex := NewExec(p)
		st := ex.NewState()
		tobj := ex.newObj(st, ex.zeroOf(trackT), trackT)
		d := mkSym(ex.syms.Get("delta", 32, false))
		k8 := func(v int64) Val { return mkConst(v, 8, false) }
		m1 := ex.mkBytes(st, "m1", []Val{k8(0x90), dataTok(ex, st, "a"), dataTok(ex, st, "b")}, false, 0)
		m2 := ex.mkBytes(st, "m2", []Val{k8(0x80), dataTok(ex, st, "c"), dataTok(ex, st, "d")}, false, 0)
		mid := ex.newObj(st, &ArrayV{Elem: m1Type(add), Segs: []Seg{{Elems: []Val{m1, m2}}}}, nil)
		two := mkConst(2, 64, true)
		ok := true
		why := ""
		n := 0
		for _, o := range ex.Call(st, add, []Val{&PtrV{Obj: tobj}, d, &SliceV{Obj: mid, Off: mkConst(0, 64, true), Len: two, Cap: two}}, nil) {
			n++
			if o.Panic {
				ok = false
				why = o.Msg
				continue
			}
			tsl, _ := o.St.heap[tobj].(*SliceV)
			evs, okE := ex.sliceElems(o.St, tsl)
			if !okE || len(evs) != 2 {
				ok = false
				why = fmt.Sprintf("Add(delta, m1, m2) on an empty track stores %d events", len(evs))
				continue
			}
			for i, wantD := range []*IntV{d, mkConst(0, 32, false)} {
				ev, _ := evs[i].(*StructV)
				dl, _ := ev.Fields[fieldIndex(ev.T, "Delta")].(*IntV)
				if dl == nil || !o.St.sameInt(dl, wantD) {
					ok = false
					why = fmt.Sprintf("event %d of a multi-message Add gets delta %s, expected %s", i, valString(ev.Fields[fieldIndex(ev.T, "Delta")]), wantD)
				}
				ms, _ := ev.Fields[fieldIndex(ev.T, "Message")].(*SliceV)
				wantM := m1
				if i == 1 {
					wantM = m2
				}
				if ms == nil || ms.Obj != wantM.Obj {
					ok = false
					why = "messages of a multi-message Add are stored out of order or altered"
				}
			}
		}
		c.Check(ok && n > 0, rule, "Track.Add: delta on the first message, 0 on the following, order kept", p.Pos(add.Pos()), "two-message Add on an empty track", why)
		// (e) Add stores whatever event bytes it is given: the reader hands every decoded event to it, including sysex
		// packets without F7, F7 continuation / escape packets and metas of any type — a filter here loses file content
		for _, b0 := range []int64{0xF0, 0xF7, 0xFF, 0x90} {
			ex := NewExec(p)
			st := ex.NewState()
			tobj := ex.newObj(st, ex.zeroOf(trackT), trackT)
			d := mkSym(ex.syms.Get("delta", 32, false))
			body := ex.unknownSlice(st, types.Typ[types.Uint8], "rest", 0)
			bsegs, _ := ex.sliceSegs(st, body)
			aid := ex.newObj(st, &ArrayV{Elem: types.Typ[types.Uint8], Segs: normSegs(append([]Seg{{Elems: []Val{mkConst(b0, 8, false)}}}, bsegs...))}, nil)
			ml := st.Arith(token.ADD, body.Len, mkConst(1, 64, true), "")
			m := &SliceV{Obj: aid, Off: mkConst(0, 64, true), Len: ml, Cap: ml}
			if b0 == 0xFF {
				// any meta event except end-of-track (which closes the track): type byte 01..2E
				tb := mkSym(ex.syms.Get("metatype", 8, false))
				st.refineSym(tb.T.Syms[0], 1, 0x2E)
				aid = ex.newObj(st, &ArrayV{Elem: types.Typ[types.Uint8], Segs: normSegs(append([]Seg{{Elems: []Val{mkConst(b0, 8, false), tb}}}, bsegs...))}, nil)
				ml = st.Arith(token.ADD, body.Len, mkConst(2, 64, true), "")
				m = &SliceV{Obj: aid, Off: mkConst(0, 64, true), Len: ml, Cap: ml}
			}
			mid := ex.newObj(st, &ArrayV{Elem: m1Type(add), Segs: []Seg{{Elems: []Val{m}}}}, nil)
			one := mkConst(1, 64, true)
			okE, whyE, nE := true, "", 0
			for _, o := range ex.Call(st, add, []Val{&PtrV{Obj: tobj}, d, &SliceV{Obj: mid, Off: mkConst(0, 64, true), Len: one, Cap: one}}, nil) {
				nE++
				if o.Panic {
					okE, whyE = false, o.Msg
					continue
				}
				tsl, _ := o.St.heap[tobj].(*SliceV)
				evs, okS := ex.sliceElems(o.St, tsl)
				if !okS || len(evs) != 1 {
					okE, whyE = false, fmt.Sprintf("an event starting with %02X (any further bytes) handed to Add on an open track may not be stored (%d events afterwards): the reader collects every decoded event through Add, so such events vanish from the file [%s]", b0, len(evs), outcomeWitness(o))
					continue
				}
				ev, _ := evs[0].(*StructV)
				if ms, _ := ev.Fields[fieldIndex(ev.T, "Message")].(*SliceV); ms == nil || ms.Obj != m.Obj {
					okE, whyE = false, "the stored message is not the one given"
				}
				if dl, _ := ev.Fields[fieldIndex(ev.T, "Delta")].(*IntV); dl == nil || !o.St.sameInt(dl, d) {
					okE, whyE = false, "the stored delta is not the one given"
				}
			}
			c.Check(okE && nE > 0, rule, fmt.Sprintf("Track.Add stores an event starting with %02X unchanged", b0), p.Pos(add.Pos()), "any bytes after the first, any delta: one event appended, same bytes, same delta", whyE)
		}
	}
}

func m1Type(add *ssa.Function) types.Type {
	return add.Params[2].Type().Underlying().(*types.Slice).Elem()
}

// ruleChunkLoop: the event reader is only entered inside a track chunk: an alien chunk (of any type and size) in front
// of a track chunk is skipped and the following MTrk chunk is entered before the next event is decoded.
func ruleChunkLoop(c *Ctx, rule string) {
	p := c.P
	cr := findChunkReader(p)
	dec := findEventDecoder(p)
	rf := p.Func("smf", "ReadFrom")
	if cr == nil || dec == nil || rf == nil {
		c.Unk(rule, "chunk reader / event decoder", "-", "not resolved")
		return
	}
	// the caller of the chunk reader that also reaches the event decoder
	var rd *ssa.Function
	for _, f := range p.Reachable(rf) {
		callsCR := false
		for _, call := range calls(f) {
			if call.Common().StaticCallee() == cr {
				callsCR = true
			}
		}
		if !callsCR {
			continue
		}
		for _, g := range p.Reachable(f) {
			if g == dec {
				rd = f
			}
		}
	}
	if rd == nil {
		c.Unk(rule, "event-or-chunk dispatcher", "-", "no function calls the chunk reader and reaches the event decoder")
		return
	}
	c.Fn(FuncName(rd))
	for _, nAlien := range []int{1, 2} {
		ex := NewExec(p)
		ex.Unroll = 6
		st := ex.NewState()
		rp, sp := mkReaderObj(ex, st, p)
		newRR := p.Func("internal/runningstatus", "NewSMFReader")
		r := ex.Call(st, newRR, nil, nil)
		if len(r) != 1 {
			c.Unk(rule, "NewSMFReader", "-", "not interpretable")
			return
		}
		st = r[0].St
		ex.setField(st, rp, "runningStatus", r[0].Ret[0])
		ex.setField(st, rp, "headerIsRead", &BoolV{Known: true, Val: true})
		ex.setField(st, rp, "expectChunk", &BoolV{Known: true, Val: true})
		ex.setField(st, rp, "processedTracks", mkConst(-1, 16, true))
		ex.setField(st, sp, "numTracks", mkConst(1, 16, false))
		k8 := func(v int64) Val { return mkConst(v, 8, false) }
		var bytes []Val
		for a := 0; a < nAlien; a++ {
			for _, ch := range "XFIH" {
				bytes = append(bytes, k8(int64(ch)))
			}
			bytes = append(bytes, k8(0), k8(0), k8(0), k8(2), ex.byteSym(fmt.Sprintf("junk%d", 2*a)), ex.byteSym(fmt.Sprintf("junk%d", 2*a+1)))
		}
		for _, ch := range "MTrk" {
			bytes = append(bytes, k8(int64(ch)))
		}
		bytes = append(bytes, k8(0), k8(0), k8(0), k8(4), k8(0x00), k8(0xFF), k8(0x2F), k8(0x00))
		src := ex.mkBytes(st, "file", bytes, false, 0)
		ex.setField(st, rp, "input", ex.readerOver(st, src))
		ok := true
		why := ""
		n := 0
		for _, o := range ex.Call(st, rd, []Val{rp}, nil) {
			n++
			if o.Panic {
				ok = false
				why = o.Msg
				continue
			}
			ev, _ := o.Ret[len(o.Ret)-1].(*IfaceV)
			msg, _ := o.Ret[0].(*SliceV)
			el, okE := ex.sliceElems(o.St, msg)
			want := []Val{k8(0xFF), k8(0x2F), k8(0)}
			if ev == nil || !ev.Nil || !okE || !segsEqual([]Seg{{Elems: el}}, []Seg{{Elems: want}}, o.St.sameVal) {
				ok = false
				why = fmt.Sprintf("%d alien chunk(s) before the track chunk: the first event is decoded as %s with error %s — after skipping an unknown chunk the reader must look for the next chunk header before decoding an event", nAlien, valString(o.Ret[0]), valString(o.Ret[len(o.Ret)-1]))
			}
		}
		c.Check(ok && n > 0, rule, fmt.Sprintf("%d alien chunk(s) before a track chunk are skipped", nAlien), p.Pos(rd.Pos()), "the first event returned is the track's first event (FF 2F 00), no error", why)
	}
}

// segsEqualIn: like segsEqual, but run offsets and lengths are compared as values in the state (an affine term and the
// bit-composed form of the same number are equal), elements with sameVal.
func segsEqualIn(st *State, a, b []Seg) bool {
	a, b = normSegs(a), normSegs(b)
	if len(a) != len(b) {
		return false
	}
	same := func(x, y *Term) bool {
		return termEq(x, y) || st.sameInt(&IntV{W: 64, Signed: true, T: x}, &IntV{W: 64, Signed: true, T: y})
	}
	for i := range a {
		if (a[i].Run == nil) != (b[i].Run == nil) {
			return false
		}
		if a[i].Run != nil {
			if a[i].Run.Src != b[i].Run.Src || !same(a[i].Run.Off, b[i].Run.Off) || !same(a[i].Run.Len, b[i].Run.Len) {
				return false
			}
			continue
		}
		if len(a[i].Elems) != len(b[i].Elems) {
			return false
		}
		for j := range a[i].Elems {
			if !st.sameVal(a[i].Elems[j], b[i].Elems[j]) {
				return false
			}
		}
	}
	return true
}
