package main

import (
	"encoding/json"
	"fmt"
	"os"
	"path/filepath"
	"sort"
	"strings"
	"time"
)

type Status int

const (
	Discharged Status = iota
	Violated
	Undecided
)

func (s Status) String() string {
	return [...]string{"discharged", "violated", "undecided"}[s]
}

// Obligation is one rule instance.
type Obligation struct {
	Rule   string `json:"rule"` // e.g. C10.1
	Key    string `json:"key"`  // instance key: construct, never a line number
	Pos    string `json:"pos"`  // file:line (diagnostic only)
	Status Status `json:"-"`
	St     string `json:"status"`
	Detail string `json:"detail"` // reason / witness
}

type RuleInfo struct {
	ID    string `json:"id"`
	Text  string `json:"text"`
	Floor int    `json:"floor"` // minimal number of instances, confirmed by hand
	Count int    `json:"instances"`
}

// Ctx collects the outcome of one check run.
type Ctx struct {
	included  bool // this context runs a check on behalf of another property (Ctx.include)
	Prop      string
	Tier      string
	P         *Program
	Obls      []*Obligation
	Rules     map[string]*RuleInfo
	ruleOrder []string
	Analysed  map[string]bool // functions analysed
	Notes     []string
	Level     string
	Assume    []string
	Trusted   []string
	Explain   string
	Extra     map[string]interface{}
	start     time.Time
}

func NewCtx(prop, tier string, p *Program) *Ctx {
	return &Ctx{Prop: prop, Tier: tier, P: p, Rules: map[string]*RuleInfo{}, Analysed: map[string]bool{}, Extra: map[string]interface{}{}, start: time.Now(), Level: "other"}
}

func (c *Ctx) Rule(id, text string, floor int) {
	if _, ok := c.Rules[id]; !ok {
		c.Rules[id] = &RuleInfo{ID: id, Text: text, Floor: floor}
		c.ruleOrder = append(c.ruleOrder, id)
	}
}

func (c *Ctx) add(rule, key, pos string, st Status, detail string) *Obligation {
	if _, ok := c.Rules[rule]; !ok {
		panic("obligation for undeclared rule " + rule)
	}
	o := &Obligation{Rule: rule, Key: key, Pos: pos, Status: st, St: st.String(), Detail: detail}
	c.Obls = append(c.Obls, o)
	c.Rules[rule].Count++
	return o
}

func (c *Ctx) OK(rule, key, pos, detail string)  { c.add(rule, key, pos, Discharged, detail) }
func (c *Ctx) Bad(rule, key, pos, detail string) { c.add(rule, key, pos, Violated, detail) }
func (c *Ctx) Unk(rule, key, pos, detail string) { c.add(rule, key, pos, Undecided, detail) }
func (c *Ctx) Check(cond bool, rule, key, pos, okDetail, badDetail string) bool {
	if cond {
		c.OK(rule, key, pos, okDetail)
	} else {
		c.Bad(rule, key, pos, badDetail)
	}
	return cond
}
func (c *Ctx) Fn(name string) { c.Analysed[name] = true }

// ---------------------------------------------------------------------------------
// known findings

type KnownFinding struct {
	Property string `json:"property"`
	Rule     string `json:"rule"`
	Key      string `json:"key"`
	What     string `json:"what"`
}

type KnownFile struct {
	Findings []KnownFinding `json:"findings"`
	Fixed    []string       `json:"fixed"`
}

func loadKnown(verifDir string) (*KnownFile, error) {
	var kf KnownFile
	b, err := os.ReadFile(filepath.Join(verifDir, "known_findings.json"))
	if err != nil {
		if os.IsNotExist(err) {
			return &kf, nil
		}
		return nil, err
	}
	if err := json.Unmarshal(b, &kf); err != nil {
		return nil, err
	}
	return &kf, nil
}

// ---------------------------------------------------------------------------------
// finishing a check: evidence + exit code

type evidence struct {
	PropertyID  string                 `json:"property_id"`
	Tier        string                 `json:"tier"`
	Seed        int                    `json:"seed"`
	Level       string                 `json:"level"`
	Coverage    map[string]interface{} `json:"coverage"`
	Assumptions []string               `json:"assumptions"`
	WallS       float64                `json:"wall_s"`
	Violations  int                    `json:"violations"`
}

var commonAssumptions = []string{
	"go/ssa (x/tools v0.29.0) faithfully represents the source of the working tree at /repo/v2 (GOOS=linux GOARCH=amd64 CGO_ENABLED=0)",
	"standard-library contracts as summarised in DESIGN §3.4/§3.7 (io.ReadFull, io.Writer, fmt.Errorf non-nil, sort.Stable, time.Sleep >= d)",
	"user callbacks do not re-enter the object under analysis",
	"cgo drivers (rtmididrv, portmididrv) and webmididrv are out of scope: they do not type-check in this sandbox",
	"nothing is executed: every obligation is decided from the type-checked syntax / SSA / call graph of the current tree",
}

func (c *Ctx) Finish(verifDir string, seed int) int {
	known, err := loadKnown(verifDir)
	if err != nil {
		fmt.Printf("ERROR reading known findings: %v\n", err)
		return 2
	}
	if timeBudgetHit.Load() && !c.included && len(c.ruleOrder) > 0 {
		c.add(c.ruleOrder[0], "wall-clock limit", "-", Undecided, "an abstract run of this check was cut off by a wall-clock limit (120 s per run, MIDIVERIF_DEADLINE per check): the check is undecided, whatever the rule that started the run reported")
	}
	// floors
	for _, id := range c.ruleOrder {
		r := c.Rules[id]
		if r.Count < r.Floor {
			c.add(id, "instance-floor", "-", Undecided, fmt.Sprintf("rule matched %d instances, floor confirmed by hand is %d (a rule matching nothing passes vacuously)", r.Count, r.Floor))
			r.Count-- // the synthetic one does not count
		}
	}
	sort.SliceStable(c.Obls, func(i, j int) bool {
		if c.Obls[i].Rule != c.Obls[j].Rule {
			return c.Obls[i].Rule < c.Obls[j].Rule
		}
		return c.Obls[i].Key < c.Obls[j].Key
	})
	replayDir := filepath.Join(verifDir, "evidence", "replay")
	os.MkdirAll(replayDir, 0o755)
	// remove stale replays of this property
	if old, _ := filepath.Glob(filepath.Join(replayDir, c.Prop+"-*.json")); old != nil {
		for _, f := range old {
			os.Remove(f)
		}
	}
	if os.Getenv("MIDIVERIF_OBLS") != "" {
		for _, o := range c.Obls {
			fmt.Fprintf(os.Stderr, "OBL %s [%s] %s: %s\n", o.Rule, o.St, o.Key, o.Detail)
		}
	}
	nviol, nknown, ndis := 0, 0, 0
	usedKnown := map[int]bool{}
	for _, o := range c.Obls {
		if o.Status == Discharged {
			ndis++
			continue
		}
		matched := false
		if o.Status == Violated {
			for i, k := range known.Findings {
				if k.Property == c.Prop && k.Rule == o.Rule && k.Key == o.Key {
					matched = true
					usedKnown[i] = true
					fmt.Printf("KNOWN-FINDING: property=%s %s %s %s\n", c.Prop, o.Rule, o.Key, k.What)
					break
				}
			}
		}
		if matched {
			nknown++
			continue
		}
		nviol++
		name := fmt.Sprintf("%s-%03d.json", c.Prop, nviol)
		path := filepath.Join(replayDir, name)
		rep := map[string]interface{}{
			"property": c.Prop, "rule": o.Rule, "rule_text": c.Rules[o.Rule].Text, "instance": o.Key,
			"pos": o.Pos, "status": o.St, "detail": o.Detail, "tier": c.Tier, "repo": c.P.RepoDir,
		}
		b, _ := json.MarshalIndent(rep, "", " ")
		os.WriteFile(path, b, 0o644)
		fmt.Printf("VIOLATION property=%s replay=%s\n", c.Prop, path)
		fmt.Printf("  %s [%s] %s @ %s: %s\n", o.Rule, o.St, o.Key, o.Pos, o.Detail)
	}
	// evidence
	var rules []RuleInfo
	for _, id := range c.ruleOrder {
		rules = append(rules, *c.Rules[id])
	}
	var samples []interface{}
	perRule := map[string]int{}
	for _, o := range c.Obls {
		if perRule[o.Rule] < 4 || o.Status != Discharged {
			perRule[o.Rule]++
			samples = append(samples, o)
		}
	}
	var fns []string
	for f := range c.Analysed {
		fns = append(fns, f)
	}
	sort.Strings(fns)
	keys := map[string]bool{}
	for _, o := range c.Obls {
		keys[o.Rule+"|"+o.Key] = true
	}
	cov := map[string]interface{}{
		"explanation":            c.Explain,
		"obligations":            len(c.Obls),
		"discharged":             ndis + nknown,
		"known_findings_matched": nknown,
		"evaluations":            len(c.Obls),
		"distinct_nontrivial":    len(keys),
		"rule":                   "one obligation per rule instance (call site, function, table row, abstract cell); distinct = distinct (rule, construct key); every instance is derived from the current source, none is trivial by construction since each names a construct the rule had to resolve",
		"samples":                samples,
		"rules":                  rules,
		"functions_analysed":     fns,
		"functions_analysed_n":   len(fns),
		"checker_cmd":            fmt.Sprintf("/verif/bin/midiverif check %s --tier %s", c.Prop, c.Tier),
		"trusted_base":           c.Trusted,
		"notes":                  c.Notes,
		"exhaustive":             true,
	}
	for k, v := range c.Extra {
		cov[k] = v
	}
	ev := evidence{PropertyID: c.Prop, Tier: c.Tier, Seed: seed, Level: c.Level, Coverage: cov,
		Assumptions: append(append([]string{}, commonAssumptions...), c.Assume...),
		WallS:       time.Since(c.start).Seconds(), Violations: nviol}
	os.MkdirAll(filepath.Join(verifDir, "evidence"), 0o755)
	b, _ := json.MarshalIndent(ev, "", " ")
	if err := os.WriteFile(filepath.Join(verifDir, "evidence", c.Prop+".json"), b, 0o644); err != nil {
		fmt.Printf("ERROR writing evidence: %v\n", err)
		return 2
	}
	var rs []string
	for _, id := range c.ruleOrder {
		rs = append(rs, fmt.Sprintf("%s=%d", id, c.Rules[id].Count))
	}
	fmt.Printf("%s tier=%s obligations=%d discharged=%d known=%d violations=%d functions=%d [%s] %.2fs\n",
		c.Prop, c.Tier, len(c.Obls), ndis, nknown, nviol, len(fns), strings.Join(rs, " "), time.Since(c.start).Seconds())
	if nviol > 0 {
		return 1
	}
	return 0
}

// include runs another property's check function in a sub-context and adopts the obligations of the rules named in
// `as` (source rule id -> rule id of this property, which must be declared). Used where a property's behaviour rests on a
// mechanism another property already decides (e.g. a valid file needs well-formed meta events): the same rule instances
// are obligations of both.
func (c *Ctx) include(fn propFn, as map[string]string) {
	if c.included {
		return // includes are one level deep: a check that runs as part of another one does not pull in its own inclusions
	}
	sub := NewCtx(c.Prop, c.Tier, c.P)
	sub.included = true
	func() {
		defer func() {
			if r := recover(); r != nil {
				for _, to := range as {
					c.Unk(to, "included rules (checker panic)", "-", fmt.Sprint(r))
					break
				}
			}
		}()
		fn(sub)
	}()
	for _, o := range sub.Obls {
		if to, ok := as[o.Rule]; ok {
			c.add(to, o.Key, o.Pos, o.Status, o.Detail)
		}
	}
	for k := range sub.Analysed {
		c.Analysed[k] = true
	}
}
