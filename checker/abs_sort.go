package main

// Sorting in the abstract interpreter (only with Exec.SortModel): sort.Sort / sort.Stable on a sort.Interface value and
// sort.Slice / sort.SliceStable on a slice with a less closure, for slices of a small constant length.
//
// The comparison function of the analysed code is CALLED (interpreted) on the current abstract elements:
//   - an insertion sort is run with it; every comparison it needs must be decided (a known boolean on a single path),
//     otherwise the summary does not apply and the call stays opaque (the rule looking at the result reports
//     "undecided");
//   - the result is the stable permutation. For the unstable entry points (sort.Sort, sort.Slice) two things are
//     checked afterwards: if the input was already in order (no element had to move) the result is the input — the
//     pinned toolchain's pattern-defeating quicksort leaves sorted input alone (DESIGN §7) —, otherwise any two
//     neighbours of the result that may compare equal (neither decided-less than the other) are recorded as an event
//     "sim:unstable-sort-equal-keys": their relative order is unspecified for inputs beyond the 12-element insertion-
//     sort threshold, whatever the small representative input does.
//
// This replaces reading off "which sort function on which key" from the call site.

import (
	"fmt"
	"sort"

	"golang.org/x/tools/go/ssa"
)

func (ex *Exec) sortSummary(fr *Frame, st *State, name string, args []Val, x ssa.CallInstruction) ([]callRes, bool) {
	if !ex.SortModel {
		return nil, false
	}
	stable := name == "sort.Stable" || name == "sort.SliceStable"
	type ops struct {
		n    int
		less func(st *State, i, j int) (bool, bool, *State) // value, decided, state
		swap func(st *State, i, j int) (*State, bool)
	}
	var o ops
	idx := func(i int) Val { return mkConst(int64(i), 64, true) }
	single := func(res []callRes) (callRes, bool) {
		if len(res) != 1 || res[0].panic {
			return callRes{}, false
		}
		return res[0], true
	}
	switch name {
	case "sort.Sort", "sort.Stable":
		iv, _ := args[0].(*IfaceV)
		if iv == nil || iv.Unk || iv.Nil || iv.Dyn == nil {
			return nil, false
		}
		lenF, lessF, swapF := ex.P.MethodOf(iv.Dyn, "Len"), ex.P.MethodOf(iv.Dyn, "Less"), ex.P.MethodOf(iv.Dyn, "Swap")
		if lenF == nil || lessF == nil || swapF == nil {
			return nil, false
		}
		r, ok := single(ex.callFn(fr, st, lenF, []Val{iv.V}, x, lenF.Signature.Results().At(0).Type()))
		if !ok {
			return nil, false
		}
		nv, _ := r.ret.(*IntV)
		if nv == nil {
			return nil, false
		}
		n, isK := r.st.ConstOf(nv)
		if !isK || n < 0 || n > 16 {
			return nil, false
		}
		st = r.st
		o.n = int(n)
		o.less = func(st *State, i, j int) (bool, bool, *State) {
			r, ok := single(ex.callFn(fr, st, lessF, []Val{iv.V, idx(i), idx(j)}, x, lessF.Signature.Results().At(0).Type()))
			if !ok {
				return false, false, st
			}
			bv, _ := r.ret.(*BoolV)
			if bv == nil {
				return false, false, r.st
			}
			v, k := r.st.boolOf(bv)
			return v, k, r.st
		}
		o.swap = func(st *State, i, j int) (*State, bool) {
			r, ok := single(ex.callFn(fr, st, swapF, []Val{iv.V, idx(i), idx(j)}, x, nil))
			if !ok {
				return st, false
			}
			return r.st, true
		}
	case "sort.Slice", "sort.SliceStable":
		iv, _ := args[0].(*IfaceV)
		fv, _ := args[1].(*FuncV)
		if iv == nil || iv.Unk || iv.Nil || fv == nil || fv.Unk || fv.Nil {
			return nil, false
		}
		sl, _ := iv.V.(*SliceV)
		if sl == nil || sl.Unk {
			return nil, false
		}
		if sl.Nil {
			return []callRes{{st: st}}, true
		}
		n, isK := st.ConstOf(sl.Len)
		if !isK || n < 0 || n > 16 {
			return nil, false
		}
		o.n = int(n)
		o.less = func(st *State, i, j int) (bool, bool, *State) {
			r, ok := single(ex.callValue(fr, st, fv, []Val{idx(i), idx(j)}, x, nil))
			if !ok {
				return false, false, st
			}
			bv, _ := r.ret.(*BoolV)
			if bv == nil {
				return false, false, r.st
			}
			v, k := r.st.boolOf(bv)
			return v, k, r.st
		}
		o.swap = func(st *State, i, j int) (*State, bool) {
			els, ok := ex.sliceElems(st, sl)
			arr, ok2 := ex.arrOf(st, sl)
			if !ok || !ok2 || len(els) != o.n {
				return st, false
			}
			els = append([]Val{}, els...)
			els[i], els[j] = els[j], els[i]
			if !ex.arrReplace(st, arr, st.TermOf(sl.Off), []Seg{{Elems: els}}, st.TermOf(sl.Len)) {
				return st, false
			}
			return st, true
		}
	case "sort.Ints", "slices.Sort":
		sl, _ := args[0].(*SliceV)
		if sl == nil || sl.Unk {
			return nil, false
		}
		if sl.Nil {
			return []callRes{{st: st}}, true
		}
		els, ok := ex.sliceElems(st, sl)
		arr, ok2 := ex.arrOf(st, sl)
		if !ok || !ok2 {
			return nil, false
		}
		type kv struct {
			k int64
			v Val
		}
		var ks []kv
		for _, e := range els {
			iv, _ := e.(*IntV)
			if iv == nil {
				return nil, false
			}
			c, isK := st.ConstOf(iv)
			if !isK {
				return nil, false
			}
			ks = append(ks, kv{c, e})
		}
		sort.SliceStable(ks, func(i, j int) bool { return ks[i].k < ks[j].k })
		out := make([]Val, len(ks))
		for i := range ks {
			out[i] = ks[i].v
		}
		if !ex.arrReplace(st, arr, st.TermOf(sl.Off), []Seg{{Elems: out}}, st.TermOf(sl.Len)) {
			return nil, false
		}
		return []callRes{{st: st}}, true
	default:
		return nil, false
	}
	moved := false
	for i := 1; i < o.n; i++ {
		for j := i; j > 0; j-- {
			v, k, s2 := o.less(st, j, j-1)
			st = s2
			if !k {
				return nil, false
			}
			if !v {
				break
			}
			s3, ok := o.swap(st, j, j-1)
			if !ok {
				return nil, false
			}
			st = s3
			moved = true
		}
	}
	if !stable && moved {
		for i := 0; i+1 < o.n; i++ {
			v, k, s2 := o.less(st, i, i+1)
			st = s2
			if k && v {
				continue // strictly ordered: no freedom
			}
			st.Events = append(st.Events, Event{Kind: "sim:unstable-sort-equal-keys", Pos: ex.pos(x), Msg: fmt.Sprintf("%s: elements %d and %d of the sorted result may compare equal; the input was not already in order, so their relative order is unspecified", name, i, i+1)})
			break
		}
	}
	return []callRes{{st: st}}, true
}
