package main

import (
	"fmt"
	"go/token"
	"go/types"

	"golang.org/x/tools/go/ssa"
)

func init() { register("C07", checkC07) }

// spec table (MIDI 1.0, DESIGN appendix A.1) — independent of the library
type chanCtor struct {
	name   string
	kind   int64 // status high nibble
	ndata  int   // data bytes on the wire
	params []string
	getter string // matching accessor
}

var chanCtors = []chanCtor{
	{"NoteOn", 0x9, 2, []string{"channel", "key", "velocity"}, "GetNoteOn"},
	{"NoteOffVelocity", 0x8, 2, []string{"channel", "key", "velocity"}, "GetNoteOff"},
	{"NoteOff", 0x8, 2, []string{"channel", "key"}, "GetNoteOff"},
	{"PolyAfterTouch", 0xA, 2, []string{"channel", "key", "pressure"}, "GetPolyAfterTouch"},
	{"ControlChange", 0xB, 2, []string{"channel", "controller", "value"}, "GetControlChange"},
	{"ProgramChange", 0xC, 1, []string{"channel", "program"}, "GetProgramChange"},
	{"AfterTouch", 0xD, 1, []string{"channel", "pressure"}, "GetAfterTouch"},
	{"Pitchbend", 0xE, 2, []string{"channel", "value"}, "GetPitchBend"},
}

// clampExpect: min(max(v,lo),hi) in state st; ok=false if the state does not separate the clamp boundaries.
func clampExpect(st *State, v *IntV, lo, hi int64) (*IntV, bool) {
	l, h := st.Range(v)
	switch {
	case l >= lo && h <= hi:
		return v, true
	case l > hi:
		return mkConst(hi, v.W, v.Signed), true
	case h < lo:
		return mkConst(lo, v.W, v.Signed), true
	}
	return nil, false
}

func checkC07(c *Ctx) {
	p := c.P
	c.Level = "proof"
	c.Explain = "C07 decided by abstract interpretation (interval x known-bits x bit provenance, trace partitioning on the clamp branches) of every exported channel-voice and system-common constructor with fully symbolic arguments: each output byte must be, bit for bit, what MIDI 1.0 prescribes for the clamped arguments; the matching accessor is then interpreted on the constructor's abstract result and must return the clamped arguments. Covers all argument tuples at once, including all out-of-range ones."
	c.Trusted = []string{"go/ssa translation", "transfer functions and stdlib summaries of E-abs (abs_*.go)", "spec table chanCtors / MIDI 1.0 status table in props_c07.go"}
	c.Rule("C07.1", "channel-voice constructors: for all arguments the result has the prescribed length, byte 0 = kind<<4 | min(channel,15), every data byte = min(arg,127) (pitch bend: U = clamp(value,-8192,8191)+8192, data1 = U bits 0-6, data2 = U bits 7-13); no panic, no out-of-range index", 8)
	c.Rule("C07.2", "system-common constructors: SPP = F2, bits 0-6, bits 7-13 of the argument (LSB first); MTC / SongSelect: one data byte within 0..127 for every argument; Tune = F6", 4)
	c.Rule("C07.3", "accessor(constructor(args)) = clamped args for all args: the matching accessor returns true on every path and its out-parameters equal the clamped arguments", 8)
	c.Rule("C07.5", "loopback: a message sent through the loopback port arrives with the same value — live decoder equals the receiver model in every (state, input class) cell, the listener stage is the identity on every decoder output shape, the loopback Send forwards bytes and time unchanged", 40)
	c.Rule("C07.4", "acceptance table: every other type-specific accessor rejects the constructor's result (derived views GetNoteStart/GetNoteEnd/GetChannel exempt)", 8)
	c.Rule("C07.6", "loopback with the default options loses nothing but what the options name: the driver's filter drops exactly active sensing, timing clock and sysex when their option is off and forwards every other message once, unchanged (= C14.2, C14.4) — time code quarter frames, song position, song select, tune request and all channel messages arrive", 3)
	c.include(checkC14, map[string]string{"C14.2": "C07.6", "C14.4": "C07.6"})

	mp := p.Pkg("")
	if mp == nil {
		c.Unk("C07.1", "package midi", "-", "not loaded")
		return
	}
	msgT := mp.Pkg.Scope().Lookup("Message")
	if msgT == nil {
		c.Unk("C07.1", "type midi.Message", "-", "not found")
		return
	}
	getters := map[string]*ssa.Function{}
	for _, m := range p.methodsOf("", "Message") {
		if len(m.Name()) > 3 && m.Name()[:3] == "Get" {
			getters[m.Name()] = m
		}
	}
	derivedViews := map[string]bool{"GetNoteStart": true, "GetNoteEnd": true, "GetChannel": true}

	type ctorRun struct {
		name   string
		fn     *ssa.Function
		spec   func(st *State, args []*IntV) ([]*IntV, string) // expected bytes
		want   func(st *State, args []*IntV) ([]*IntV, string) // expected accessor outputs (in out-param order)
		getter string
		rule   string
	}
	var runs []ctorRun
	for _, cc := range chanCtors {
		cc := cc
		fn := mp.Func(cc.name)
		if fn == nil {
			c.Unk("C07.1", "constructor "+cc.name, "-", "exported constructor not found")
			continue
		}
		runs = append(runs, ctorRun{name: cc.name, fn: fn, getter: cc.getter, rule: "C07.1",
			spec: func(st *State, a []*IntV) ([]*IntV, string) {
				ch, ok := clampExpect(st, a[0], 0, 15)
				if !ok {
					return nil, "channel clamp boundary 15 not separated on this path"
				}
				status := st.Arith(token.OR, mkConst(cc.kind<<4, 8, false), st.Convert(ch, 8, false), "")
				out := []*IntV{status}
				if cc.name == "Pitchbend" {
					v, ok := clampExpect(st, a[1], -8192, 8191)
					if !ok {
						return nil, "pitch clamp boundaries not separated on this path"
					}
					u := st.Convert(st.Arith(token.ADD, st.Convert(v, 32, true), mkConst(8192, 32, true), ""), 16, false)
					d1 := st.Convert(st.Arith(token.AND, u, mkConst(0x7F, 16, false), ""), 8, false)
					d2 := st.Convert(st.Arith(token.AND, st.Shift(token.SHR, u, 7), mkConst(0x7F, 16, false), ""), 8, false)
					return append(out, d1, d2), ""
				}
				for i := 1; i < len(a); i++ {
					d, ok := clampExpect(st, a[i], 0, 127)
					if !ok {
						return nil, fmt.Sprintf("clamp boundary 127 of %s not separated on this path", cc.params[i])
					}
					out = append(out, d)
				}
				if cc.name == "NoteOff" {
					out = append(out, mkConst(0, 8, false))
				}
				return out, ""
			},
			want: func(st *State, a []*IntV) ([]*IntV, string) {
				ch, _ := clampExpect(st, a[0], 0, 15)
				out := []*IntV{ch}
				if cc.name == "Pitchbend" {
					v, _ := clampExpect(st, a[1], -8192, 8191)
					abs := st.Convert(st.Arith(token.ADD, st.Convert(v, 32, true), mkConst(8192, 32, true), ""), 16, false)
					return append(out, v, abs), ""
				}
				for i := 1; i < len(a); i++ {
					d, _ := clampExpect(st, a[i], 0, 127)
					out = append(out, d)
				}
				if cc.name == "NoteOff" {
					out = append(out, mkConst(0, 8, false))
				}
				return out, ""
			}})
	}
	// system common
	sys := []struct {
		name, getter string
		spec         func(st *State, a []*IntV) ([]*IntV, string)
		want         func(st *State, a []*IntV) ([]*IntV, string)
	}{
		{"SPP", "GetSPP", func(st *State, a []*IntV) ([]*IntV, string) {
			d1 := st.Convert(st.Arith(token.AND, a[0], mkConst(0x7F, 16, false), ""), 8, false)
			d2 := st.Convert(st.Arith(token.AND, st.Shift(token.SHR, a[0], 7), mkConst(0x7F, 16, false), ""), 8, false)
			return []*IntV{mkConst(0xF2, 8, false), d1, d2}, ""
		}, func(st *State, a []*IntV) ([]*IntV, string) {
			return []*IntV{st.Arith(token.AND, a[0], mkConst(0x3FFF, 16, false), "")}, ""
		}},
		{"MTC", "GetMTC", nil, nil},
		{"SongSelect", "GetSongSelect", nil, nil},
		{"Tune", "", func(st *State, a []*IntV) ([]*IntV, string) { return []*IntV{mkConst(0xF6, 8, false)}, "" }, nil},
	}
	for _, s := range sys {
		s := s
		fn := mp.Func(s.name)
		if fn == nil {
			c.Unk("C07.2", "constructor "+s.name, "-", "exported constructor not found")
			continue
		}
		runs = append(runs, ctorRun{name: s.name, fn: fn, getter: s.getter, rule: "C07.2", spec: s.spec, want: s.want})
	}

	totalPaths := 0
	for _, r := range runs {
		c.Fn(FuncName(r.fn))
		ex := NewExec(p)
		st := ex.NewState()
		var args []Val
		var iargs []*IntV
		for _, prm := range r.fn.Params {
			w, s, ok := intTypeInfo(prm.Type())
			if !ok {
				c.Unk(r.rule, "constructor "+r.name, p.Pos(r.fn.Pos()), "non-integer parameter "+prm.Name())
				continue
			}
			v := mkSym(ex.syms.Get(prm.Name(), w, s))
			args = append(args, v)
			iargs = append(iargs, v)
		}
		outs := ex.Call(st, r.fn, args, nil)
		if ex.Budget || len(outs) == 0 {
			c.Unk(r.rule, "constructor "+r.name, p.Pos(r.fn.Pos()), "abstract interpretation did not complete (budget)")
			continue
		}
		for u := range ex.Unsupported {
			c.Unk(r.rule, "constructor "+r.name+" unsupported "+u, p.Pos(r.fn.Pos()), "unmodelled construct on the path")
		}
		totalPaths += len(outs)
		okAll := true
		for pi, o := range outs {
			key := fmt.Sprintf("%s path %d/%d", r.name, pi+1, len(outs))
			if o.Panic {
				c.Bad(r.rule, "constructor "+r.name+" panic", o.Pos, "reachable panic: "+o.Msg+" ["+outcomeWitness(o)+"]")
				okAll = false
				continue
			}
			if pe := problemEvents(o.St.Events); len(pe) > 0 {
				c.Bad(r.rule, "constructor "+r.name+" may-panic", pe[0].Pos, fmtEvents(pe))
				okAll = false
				continue
			}
			res, _ := o.Ret[0].(*SliceV)
			if !ex.freshSlice(o, res) {
				c.Bad(r.rule, "constructor "+r.name+" returns a fresh message", p.Pos(r.fn.Pos()), "the returned message shares storage that outlives the call (a package-level template or buffer): a message built earlier changes when the next one is built")
				okAll = false
			}
			elems, ok := ex.sliceElems(o.St, res)
			if !ok {
				c.Unk(r.rule, "constructor "+r.name+" result", p.Pos(r.fn.Pos()), "result is not a byte slice of known length on "+key)
				okAll = false
				continue
			}
			// well-formedness for all constructors: status >= 0x80, data <= 127
			for i, e := range elems {
				iv, _ := e.(*IntV)
				if iv == nil {
					c.Unk(r.rule, "constructor "+r.name+" byte", p.Pos(r.fn.Pos()), "non-integer element")
					okAll = false
					continue
				}
				lo, hi := o.St.Range(iv)
				if i == 0 && lo < 0x80 {
					c.Bad(r.rule, fmt.Sprintf("constructor %s byte 0 is a status byte", r.name), p.Pos(r.fn.Pos()), fmt.Sprintf("byte 0 in [%d,%d] may be < 0x80 [%s]", lo, hi, outcomeWitness(o)))
					okAll = false
				}
				if i > 0 && hi > 127 {
					c.Bad(r.rule, fmt.Sprintf("constructor %s data byte %d <= 127", r.name, i), p.Pos(r.fn.Pos()), fmt.Sprintf("data byte %d in [%d,%d] may exceed 127 for some argument (%s) [%s]", i, lo, hi, iv, outcomeWitness(o)))
					okAll = false
				}
			}
			if r.spec != nil {
				exp, why := r.spec(o.St, iargs)
				if why != "" {
					c.Bad(r.rule, "constructor "+r.name+" clamp", p.Pos(r.fn.Pos()), why+" ["+outcomeWitness(o)+"]")
					okAll = false
					continue
				}
				if len(exp) != len(elems) {
					c.Bad(r.rule, "constructor "+r.name+" length", p.Pos(r.fn.Pos()), fmt.Sprintf("result has %d bytes, MIDI 1.0 prescribes %d", len(elems), len(exp)))
					okAll = false
					continue
				}
				for i := range exp {
					got := elems[i].(*IntV)
					if !o.St.sameInt(got, exp[i]) {
						c.Bad(r.rule, fmt.Sprintf("constructor %s byte %d", r.name, i), p.Pos(r.fn.Pos()), fmt.Sprintf("byte %d is %s {%s}, specification requires %s {%s} [%s]", i, got, bitsString(o.St.BitsOf(got)), exp[i], bitsString(o.St.BitsOf(exp[i])), outcomeWitness(o)))
						okAll = false
					}
				}
			}
			// accessor on the result
			g := getters[r.getter]
			if r.getter != "" && g == nil {
				c.Unk("C07.3", r.name+" -> "+r.getter, "-", "accessor not found")
				continue
			}
			if g != nil {
				c.Fn(FuncName(g))
				ast := o.St.Clone()
				gargs := []Val{res}
				var cells []*PtrV
				for _, prm := range g.Params[1:] {
					cell := ex.allocCell(ast, prm.Type().(*types.Pointer).Elem())
					cells = append(cells, cell)
					gargs = append(gargs, cell)
				}
				gouts := ex.Call(ast, g, gargs, nil)
				for _, gout := range gouts {
					if gout.Panic {
						c.Bad("C07.3", r.name+" -> "+r.getter+" panic", gout.Pos, gout.Msg)
						okAll = false
						continue
					}
					bv, _ := gout.Ret[0].(*BoolV)
					if bv == nil {
						continue
					}
					v, k := gout.St.boolOf(bv)
					if !k || !v {
						c.Bad("C07.3", r.name+" -> "+r.getter+" accepts", p.Pos(g.Pos()), "the matching accessor may reject the constructor's own result ["+outcomeWitness(gout)+"]")
						okAll = false
						continue
					}
					if r.want != nil {
						want, _ := r.want(gout.St, iargs)
						for i, cell := range cells {
							if i >= len(want) {
								break
							}
							got, _ := gout.St.heap[cell.Obj].(*IntV)
							if got == nil || !gout.St.sameInt(got, st0conv(gout.St, want[i], got)) {
								c.Bad("C07.3", fmt.Sprintf("%s -> %s out %d", r.name, r.getter, i), p.Pos(g.Pos()), fmt.Sprintf("accessor returns %v, expected the clamped argument %s [%s]", valString(gout.St.heap[cell.Obj]), want[i], outcomeWitness(gout)))
								okAll = false
							}
						}
					} else {
						// only well-formedness required (undocumented out-of-range behaviour): value = data byte
					}
				}
				// each out-parameter alone (the others nil): the accessor still accepts and still writes that value
				if r.want != nil && len(g.Params) > 2 {
					for i := range g.Params[1:] {
						ast := o.St.Clone()
						gargs := []Val{res}
						var cell *PtrV
						for j, prm := range g.Params[1:] {
							if j == i {
								cell = ex.allocCell(ast, prm.Type().(*types.Pointer).Elem())
								// a recognisable stale content: the accessor must overwrite it
								if w, sg, ok := intTypeInfo(prm.Type().(*types.Pointer).Elem()); ok {
									ast.heap[cell.Obj] = mkSym(ex.syms.Fresh("stale", w, sg))
								}
								gargs = append(gargs, cell)
							} else {
								gargs = append(gargs, &PtrV{Nil: true})
							}
						}
						for _, gout := range ex.Call(ast, g, gargs, nil) {
							key := fmt.Sprintf("%s -> %s only out %d", r.name, r.getter, i)
							if gout.Panic {
								c.Bad("C07.3", key+" panic", gout.Pos, gout.Msg)
								okAll = false
								continue
							}
							bv, _ := gout.Ret[0].(*BoolV)
							if v, k := gout.St.boolOf(bv); bv == nil || !k || !v {
								c.Bad("C07.3", key+" accepts", p.Pos(g.Pos()), "the accessor may reject the constructor's own result when only this out-parameter is requested")
								okAll = false
								continue
							}
							want, _ := r.want(gout.St, iargs)
							if i >= len(want) {
								continue
							}
							got, _ := gout.St.heap[cell.Obj].(*IntV)
							if got == nil || !gout.St.sameInt(got, st0conv(gout.St, want[i], got)) {
								c.Bad("C07.3", key, p.Pos(g.Pos()), fmt.Sprintf("with the other out-parameters nil the accessor leaves %v in this one, expected the clamped argument %s", valString(gout.St.heap[cell.Obj]), want[i]))
								okAll = false
							}
						}
					}
				}
				// every other type-specific accessor rejects
				for name, other := range getters {
					if name == r.getter || derivedViews[name] {
						continue
					}
					// siblings for the same wire type
					ost := o.St.Clone()
					oargs := []Val{res}
					bad := false
					for _, prm := range other.Params[1:] {
						pt, ok := prm.Type().(*types.Pointer)
						if !ok {
							bad = true
							break
						}
						oargs = append(oargs, ex.allocCell(ost, pt.Elem()))
					}
					if bad {
						continue
					}
					for _, oo := range ex.Call(ost, other, oargs, nil) {
						if oo.Panic {
							c.Bad("C07.4", r.name+" vs "+name+" panic", oo.Pos, oo.Msg)
							okAll = false
							continue
						}
						bv, _ := oo.Ret[0].(*BoolV)
						if bv == nil {
							continue
						}
						if v, k := oo.St.boolOf(bv); !k || v {
							c.Bad("C07.4", r.name+" accepted by "+name, p.Pos(other.Pos()), "a foreign type-specific accessor may accept the message")
							okAll = false
						}
					}
				}
			}
		}
		if okAll {
			c.OK(r.rule, "constructor "+r.name, p.Pos(r.fn.Pos()), fmt.Sprintf("%d trace partitions; every output byte equals the specification bit for bit", len(outs)))
			if r.getter != "" {
				c.OK("C07.3", r.name+" -> "+r.getter, p.Pos(r.fn.Pos()), "accessor accepts on every partition and returns the clamped arguments")
				c.OK("C07.4", r.name+" rejected by all other accessors", p.Pos(r.fn.Pos()), fmt.Sprintf("%d accessors checked", len(getters)-1))
			}
		}
	}
	c.Extra["trace_partitions"] = totalPaths
	// C07.5 loopback: decoder = receiver model, listener stage = identity, loopback Send = pipe
	liveSimulation(c, "C07.5", "", "", true)
	retypingRule(c, "C07.5", "")
	sendToRule(c, "C07.5", 2) // twice in a row: what the wrapper remembers of the first message must not change the second
	loopbackRule(c, "C07.5")
}

// st0conv converts the expected value to the width/sign of the observed cell.
func st0conv(st *State, want, got *IntV) *IntV {
	return st.Convert(want, got.W, got.Signed)
}

// sendToRule: the sending wrapper midi.SendTo hands the message's bytes to the port unchanged: the function it returns is
// interpreted on a symbolic message (any length >= 1); the port's Send must be invoked exactly once with exactly those
// bytes, and its error returned.
//
// calls > 1: the function is called that many times in a row, each time with a fresh message and whatever the port's
// Send returned before (an error included — the port may have been closed and opened again in between): every call
// reaches the port once with its own message (C17: nothing the wrapper remembers from an earlier call decides a later one).
func sendToRule(c *Ctx, rule string, calls int) {
	p := c.P
	st0 := p.Func("", "SendTo")
	if st0 == nil {
		c.Unk(rule, "midi.SendTo", "-", "not found")
		return
	}
	c.Fn(FuncName(st0))
	ex := NewExec(p)
	st := ex.NewState()
	port := &IfaceV{Unk: true, NonNil: true}
	ok, why, n := true, "", 0
	for _, o := range ex.Call(st, st0, []Val{port}, nil) {
		if o.Panic {
			ok, why = false, o.Msg
			continue
		}
		if ev, _ := o.Ret[1].(*IfaceV); ev == nil || !ev.Nil {
			continue // the port could not be opened
		}
		fv, _ := o.Ret[0].(*FuncV)
		if fv == nil || fv.Fn == nil {
			ok, why = false, "SendTo does not return a function"
			continue
		}
		fr := &Frame{fn: fv.Fn, regs: map[ssa.Value]Val{}, visits: map[*ssa.BasicBlock]int{}, widened: map[*ssa.BasicBlock]bool{}, phiHist: map[*ssa.Phi]Val{}, kept: map[*ssa.Phi]keptInv{}}
		states := []*State{o.St}
		for ci := 0; ci < calls && ok; ci++ {
			var next []*State
			for _, s0 := range states {
				msg := ex.unknownSlice(s0, types.Typ[types.Uint8], fmt.Sprintf("msg%d", ci), 1)
				want, _ := ex.sliceSegs(s0, msg)
				s0.Events = nil
				for _, r := range ex.callValue(fr, s0, fv, []Val{msg}, nil, nil) {
					n++
					if r.panic {
						ok, why = false, "the send function may panic: "+r.msg
						continue
					}
					k := 0
					for _, e := range r.st.Events {
						if e.Kind != "call:invoke Send" || len(e.Args) != 1 {
							continue
						}
						k++
						sl, _ := e.Args[0].(*SliceV)
						got, okG := ex.sliceSegs(r.st, sl)
						if sl == nil || !okG || !r.st.sameInt(sl.Len, msg.Len) || segsDiffer(r.st, got, want) != "" {
							ok, why = false, fmt.Sprintf("call %d: the bytes handed to the port (%s, len %s) are not the message's bytes (%s, len %s): %s", ci+1, arrayStringIn(r.st, &ArrayV{Segs: got}), valString(e.Args[0]), arrayStringIn(r.st, &ArrayV{Segs: want}), msg.Len, segsDiffer(r.st, got, want))
						}
					}
					if k != 1 {
						ok, why = false, fmt.Sprintf("call %d of the send function: the port's Send is invoked %d times for one message (whatever an earlier call returned, the port decides)", ci+1, k)
					}
					next = append(next, r.st)
				}
			}
			states = next
			if len(states) > 64 {
				states = states[:64]
			}
		}
	}
	key := "SendTo hands the message bytes to the port unchanged, once"
	if calls > 1 {
		key = fmt.Sprintf("SendTo: each of %d consecutive calls of the send function reaches the port once with its own message", calls)
	}
	c.Check(ok && n > 0, rule, key, p.Pos(st0.Pos()), "symbolic message of any length >= 1", why)
}
