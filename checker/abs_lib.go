package main

// standard-library summaries for E-abs (DESIGN §3.4): everything else is opaque (returns top, clobbers what it can reach).

import (
	"fmt"
	"go/token"
	"go/types"
	"math"
	"os"
	"strings"

	"golang.org/x/tools/go/ssa"
)

func (ex *Exec) bufOf(st *State, p Val) (*BufV, *PtrV) {
	pv, _ := p.(*PtrV)
	if pv == nil || pv.Unk || pv.Nil {
		return nil, nil
	}
	if len(pv.Path) != 0 {
		// a buffer that is a field of a larger object (e.g. kept in a reader between calls)
		cur, ok := ex.loadPath(st, st.heap[pv.Obj], pv.Path)
		if !ok {
			return nil, nil
		}
		switch b := cur.(type) {
		case *BufV:
			return b, pv
		case *StructV:
			if b.T != nil && b.T.NumFields() > 0 && ex.objTypeIsBuffer(pv, st) {
				nb := &BufV{Data: &ArrayV{Elem: types.Typ[types.Uint8]}}
				if ex.storePath(st, pv.Obj, pv.Path, nb) {
					return nb, pv
				}
			}
		}
		return nil, nil
	}
	switch b := st.heap[pv.Obj].(type) {
	case *BufV:
		return b, pv
	case *StructV:
		// zero bytes.Buffer
		nb := &BufV{Data: &ArrayV{Elem: types.Typ[types.Uint8]}}
		st.heap[pv.Obj] = nb
		return nb, pv
	}
	return nil, nil
}

func (ex *Exec) bufAppendSegs(st *State, b *BufV, segs []Seg) {
	if os.Getenv("ABSDEBUG") != "" {
		fmt.Fprintf(os.Stderr, "bufAppend %p += %s\n", b, arrayString(&ArrayV{Segs: segs}))
	}
	b.Data.Segs = normSegs(append(append([]Seg{}, b.Data.Segs...), segs...))
}

func (ex *Exec) bytesOfInt(st *State, v *IntV, bigEndian bool) []Val {
	n := v.W / 8
	bs := st.BitsOf(v)
	out := make([]Val, n)
	for i := 0; i < n; i++ {
		byteIdx := i
		if bigEndian {
			byteIdx = n - 1 - i
		}
		bits8 := make([]Bit, 8)
		copy(bits8, bs[byteIdx*8:byteIdx*8+8])
		bv := &IntV{W: 8, Signed: false, Bits: bits8}
		if c, ok := bv.Const(); ok {
			bv = mkConst(c&0xff, 8, false)
		}
		out[i] = bv
	}
	return out
}

func nilErr() Val { return &IfaceV{Nil: true} }

func (ex *Exec) libSummary(fr *Frame, st *State, fn *ssa.Function, args []Val, x ssa.CallInstruction, resT types.Type) ([]callRes, bool) {
	name := fn.String()
	one := func(v Val) ([]callRes, bool) { return []callRes{{st: st, ret: v}}, true }
	pos := ""
	if x != nil {
		pos = ex.pos(x)
	}
	if res, ok := ex.textSummary(fr, st, fn, args, x, resT); ok {
		return res, true
	}
	switch name {
	case "(*bytes.Buffer).WriteByte":
		if b, _ := ex.bufOf(st, args[0]); b != nil {
			ex.bufAppendSegs(st, b, []Seg{{Elems: []Val{args[1]}}})
			return one(nilErr())
		}
	case "(*bytes.Buffer).Write", "(*bytes.Buffer).WriteString":
		if b, _ := ex.bufOf(st, args[0]); b != nil {
			var sl *SliceV
			switch a := args[1].(type) {
			case *SliceV:
				sl = a
			case *StrV:
				if a.Known {
					es := make([]Val, len(a.S))
					for i := range es {
						es[i] = mkConst(int64(a.S[i]), 8, false)
					}
					ex.bufAppendSegs(st, b, []Seg{{Elems: es}})
					return one(&TupleV{Vs: []Val{mkConst(int64(len(a.S)), 64, true), nilErr()}})
				}
				sl = a.Bytes
			}
			if sl != nil && !sl.Unk {
				segs, ok := ex.sliceSegs(st, sl)
				if ok {
					ex.bufAppendSegs(st, b, segs)
					return one(&TupleV{Vs: []Val{sl.Len, nilErr()}})
				}
			}
			// unknown content
			L := st.freshInt("wlen", 64, true)
			st.refineSym(L.T.Syms[0], 0, 1<<40)
			ex.bufAppendSegs(st, b, []Seg{{Run: &Run{Src: ex.syms.Fresh("unk", 8, false).Name, Off: constTerm(0), Len: L.T}}})
			return one(&TupleV{Vs: []Val{L, nilErr()}})
		}
	case "(*bytes.Buffer).Bytes":
		if b, pv := ex.bufOf(st, args[0]); b != nil {
			arr := cloneVal(b.Data).(*ArrayV)
			id := ex.newObj(st, arr, nil)
			_ = pv
			b.Handed = append(b.Handed, id)
			n := &IntV{W: 64, Signed: true, T: arrLen(arr)}
			return one(&SliceV{Obj: id, Off: mkConst(0, 64, true), Len: n, Cap: n})
		}
	case "(*bytes.Buffer).String":
		if b, _ := ex.bufOf(st, args[0]); b != nil {
			arr := cloneVal(b.Data).(*ArrayV)
			id := ex.newObj(st, arr, nil)
			n := &IntV{W: 64, Signed: true, T: arrLen(arr)}
			return one(&StrV{Bytes: &SliceV{Obj: id, Off: mkConst(0, 64, true), Len: n, Cap: n}, Len: n})
		}
		return one(&StrV{})
	case "(*bytes.Buffer).Len":
		if b, _ := ex.bufOf(st, args[0]); b != nil {
			return one(&IntV{W: 64, Signed: true, T: arrLen(b.Data)})
		}
	case "(*bytes.Buffer).Reset":
		if b, _ := ex.bufOf(st, args[0]); b != nil {
			b.Data.Segs = nil
			return one(nil)
		}
	case "bytes.NewReader":
		if sl, ok := args[0].(*SliceV); ok {
			id := ex.newObj(st, &RdrV{Src: *sl, Pos: mkConst(0, 64, true)}, nil)
			return one(&PtrV{Obj: id})
		}
	case "(*bytes.Reader).Read":
		if r, ok := ex.rdrOf(st, args[0]); ok {
			return ex.readerRead(st, r, args[1], pos), true
		}
	case "encoding/binary.Write":
		// binary.Write(w, order, data)
		w, _ := args[0].(*IfaceV)
		data, _ := args[2].(*IfaceV)
		order, _ := args[1].(*IfaceV)
		big := order == nil || order.Dyn == nil || strings.Contains(order.Dyn.String(), "bigEndian")
		if w != nil && data != nil && !data.Unk {
			if iv, ok := data.V.(*IntV); ok {
				bytesV := ex.bytesOfInt(st, iv, big)
				if w.Dyn != nil && w.Dyn.String() == "*bytes.Buffer" {
					if b, _ := ex.bufOf(st, w.V); b != nil {
						ex.bufAppendSegs(st, b, []Seg{{Elems: bytesV}})
						return one(nilErr())
					}
				}
				st.Events = append(st.Events, Event{Kind: "write", Args: bytesV, Pos: pos})
				return one(&IfaceV{Unk: true})
			}
		}
	case "fmt.Errorf", "errors.New":
		return one(&IfaceV{Unk: true, NonNil: true})
	case "errors.Is":
		// the errors of this module are plain sentinels (never wrapped): identity comparison; nil is never "is" a sentinel
		x, _ := args[0].(*IfaceV)
		y, _ := args[1].(*IfaceV)
		if x != nil && x.Nil {
			return one(&BoolV{Known: true, Val: y != nil && y.Nil})
		}
		if x != nil && y != nil && x.Sentinel != "" && y.Sentinel != "" {
			return one(&BoolV{Known: true, Val: x.Sentinel == y.Sentinel})
		}
		return one(&BoolV{})
	case "fmt.Sprintf", "fmt.Sprint", "fmt.Sprintln":
		return one(&StrV{})
	case "fmt.Fprintf", "fmt.Fprint", "fmt.Fprintln":
		w, _ := args[0].(*IfaceV)
		if w != nil && w.Dyn != nil && w.Dyn.String() == "*bytes.Buffer" {
			if b, _ := ex.bufOf(st, w.V); b != nil {
				L := st.freshInt("fmtlen", 64, true)
				st.refineSym(L.T.Syms[0], 0, 1<<40)
				ex.bufAppendSegs(st, b, []Seg{{Run: &Run{Src: ex.syms.Fresh("fmt", 8, false).Name, Off: constTerm(0), Len: L.T}}})
				return one(&TupleV{Vs: []Val{L, nilErr()}})
			}
		}
		st.Events = append(st.Events, Event{Kind: "call:" + name, Args: args, Pos: pos})
		return one(ex.retTop(st, resT, "fprintf"))
	case "fmt.Printf", "fmt.Println", "fmt.Print":
		return one(ex.retTop(st, resT, "printf"))
	case "math.Round", "math.Floor", "math.Ceil", "math.Trunc", "math.Abs":
		if f, ok := args[0].(*FloatV); ok {
			if f.Known {
				var r float64
				switch name {
				case "math.Round":
					r = math.Round(f.F)
				case "math.Floor":
					r = math.Floor(f.F)
				case "math.Ceil":
					r = math.Ceil(f.F)
				case "math.Trunc":
					r = math.Trunc(f.F)
				case "math.Abs":
					r = math.Abs(f.F)
				}
				return one(&FloatV{Known: true, F: r})
			}
			if f.Expr != "" || f.Mono != nil {
				r := &FloatV{Rounded: strings.TrimPrefix(name, "math."), Mono: f.Mono}
				if f.Expr != "" {
					r.Expr = strings.TrimPrefix(name, "math.") + "(" + f.Expr + ")"
				}
				return one(r)
			}
		}
		return one(&FloatV{})
	case "math/big.NewInt":
		if iv, ok := args[0].(*IntV); ok {
			id := ex.newObj(st, iv, nil)
			return one(&PtrV{Obj: id})
		}
	case "(*math/big.Int).Bytes":
		if pv, ok := args[0].(*PtrV); ok && !pv.Unk && !pv.Nil {
			if iv, ok := st.heap[pv.Obj].(*IntV); ok {
				return ex.bigBytes(st, iv), true
			}
		}
	case "reflect.DeepEqual", "bytes.Equal":
		return one(ex.deepEqual(st, args[0], args[1]))
	case "(*sync.RWMutex).Lock", "(*sync.RWMutex).Unlock", "(*sync.RWMutex).RLock", "(*sync.RWMutex).RUnlock", "(*sync.Mutex).Lock", "(*sync.Mutex).Unlock":
		st.Events = append(st.Events, Event{Kind: "lock:" + fn.Name(), Pos: pos})
		return one(nil)
	case "time.Sleep", "runtime.Gosched", "runtime.LockOSThread", "runtime.UnlockOSThread":
		st.Events = append(st.Events, Event{Kind: "call:" + name, Args: args, Pos: pos})
		return one(nil)
	case "time.Now":
		return one(ex.retTop(st, resT, "now"))
	case "io.ReadFull":
		// over a tracked bytes.Reader the result is exact
		if riv, ok := args[0].(*IfaceV); ok && riv.Dyn != nil && riv.Dyn.String() == "*bytes.Reader" {
			if r, ok := ex.rdrOf(st, riv.V); ok {
				if buf, ok := args[1].(*SliceV); ok && !buf.Unk {
					if r.Failed || (ex.ReaderMayFail && r.Source) {
						// failure injection (C10.6): the source fails during this call — some bytes may have arrived, the
						// source's own error is handed on (io.ReadFull passes every error but io.EOF through unchanged)
						fs := st
						if !r.Failed {
							fs = st.Clone()
							fs.Events = append(fs.Events, Event{Kind: "sim:read-failed", Pos: pos})
						}
						for id, v := range fs.heap {
							if rv, ok := v.(*RdrV); ok && rv == r {
								fs.heap[id] = &RdrV{Src: r.Src, Pos: r.Pos, Failed: true, Source: r.Source}
							}
						}
						got := fs.freshInt("n", 64, true)
						_, hiB := fs.Range(buf.Len)
						if hiB > 0 {
							hiB--
						}
						fs.refineSym(got.T.Syms[0], 0, hiB)
						failRes := callRes{st: fs, ret: &TupleV{Vs: []Val{got, ex.sourceFailure()}}}
						if r.Failed {
							return []callRes{failRes}, true
						}
						ex.ReaderMayFail = false
						rest, _ := ex.libSummary(fr, st, fn, args, x, resT)
						ex.ReaderMayFail = true
						return append([]callRes{failRes}, rest...), true
					}
					remaining := st.Arith(token.SUB, r.Src.Len, r.Pos, pos)
					ge, known := st.Decide(">=", remaining, buf.Len)
					mkFail := func(s *State) callRes {
						n := s.freshInt("n", 64, true)
						return callRes{st: s, ret: &TupleV{Vs: []Val{n, &IfaceV{Unk: true, NonNil: true}}}}
					}
					if known && ge {
						if c, ok := st.ConstOf(buf.Len); ok && c == 0 {
							return one(&TupleV{Vs: []Val{mkConst(0, 64, true), nilErr()}})
						}
						return []callRes{ex.readerCopy(st, r, buf, buf.Len, pos)}, true
					}
					if known && !ge {
						return []callRes{mkFail(st)}, true
					}
					st2 := st.Clone()
					var out []callRes
					if st2.Assume("<", remaining, buf.Len) {
						out = append(out, mkFail(st2))
					}
					if st.Assume(">=", remaining, buf.Len) {
						r2, _ := ex.rdrOf(st, riv.V)
						out = append(out, ex.readerCopy(st, r2, buf, buf.Len, pos))
					}
					return out, true
				}
			}
		}
		fallthrough
	case "io.ReadAtLeast":
		// fill-or-fail into the buffer: content unknown, err unknown; on nil error the buffer is full
		if sl, ok := args[1].(*SliceV); ok && !sl.Unk && !sl.Nil {
			if arr, ok := ex.arrOf(st, sl); ok {
				src := ex.syms.Fresh("in", 8, false).Name
				ex.arrReplace(st, arr, st.TermOf(sl.Off), []Seg{{Run: &Run{Src: src, Off: constTerm(0), Len: st.TermOf(sl.Len)}}}, st.TermOf(sl.Len))
			}
			st.Events = append(st.Events, Event{Kind: "source-read", Args: []Val{sl.Len}, Pos: pos})
			n := st.freshInt("n", 64, true)
			st.refineSym(n.T.Syms[0], 0, 1<<40)
			return one(&TupleV{Vs: []Val{n, &IfaceV{Unk: true}}})
		}
	case "io.CopyN":
		st.Events = append(st.Events, Event{Kind: "source-read", Args: []Val{args[2]}, Pos: pos})
		// exact over a tracked bytes.Reader when the destination is not tracked (e.g. io.Discard)
		if riv, ok := args[1].(*IfaceV); ok && riv.Dyn != nil && riv.Dyn.String() == "*bytes.Reader" {
			if r, ok := ex.rdrOf(st, riv.V); ok && (r.Failed || (ex.ReaderMayFail && r.Source)) {
				// failure injection (C10.6): the copy stops with the source's error after an unknown number of bytes
				fs := st
				if !r.Failed {
					fs = st.Clone()
					fs.Events = append(fs.Events, Event{Kind: "sim:read-failed", Pos: pos})
				}
				for id, v := range fs.heap {
					if rv, ok := v.(*RdrV); ok && rv == r {
						fs.heap[id] = &RdrV{Src: r.Src, Pos: r.Pos, Failed: true, Source: r.Source}
					}
				}
				got := fs.freshInt("copied", 64, true)
				fs.refineSym(got.T.Syms[0], 0, 1<<40)
				if w, ok := args[0].(*IfaceV); ok && w.Dyn != nil && w.Dyn.String() == "*bytes.Buffer" {
					if b, _ := ex.bufOf(fs, w.V); b != nil {
						ex.bufAppendSegs(fs, b, []Seg{{Run: &Run{Src: ex.syms.Fresh("partial", 8, false).Name, Off: constTerm(0), Len: got.T}}})
					}
				}
				failRes := callRes{st: fs, ret: &TupleV{Vs: []Val{got, ex.sourceFailure()}}}
				if r.Failed {
					return []callRes{failRes}, true
				}
				ex.ReaderMayFail = false
				rest, _ := ex.libSummary(fr, st, fn, args, x, resT)
				ex.ReaderMayFail = true
				return append([]callRes{failRes}, rest...), true
			}
			if r, ok := ex.rdrOf(st, riv.V); ok {
				w, _ := args[0].(*IfaceV)
				n, _ := args[2].(*IntV)
				if n != nil && w != nil && w.Dyn != nil && w.Dyn.String() == "*bytes.Buffer" {
					// tracked source into a tracked buffer: exact (the bytes copied are the next n of the source, or all
					// that is left together with io.EOF)
					if b, _ := ex.bufOf(st, w.V); b != nil {
						remaining := st.Arith(token.SUB, r.Src.Len, r.Pos, pos)
						n64 := st.Convert(n, 64, true)
						var out []callRes
						copyOut := func(s *State, cnt *IntV, errV Val) bool {
							bb, _ := ex.bufOf(s, w.V)
							rr, okR := ex.rdrOf(s, riv.V)
							if bb == nil || !okR {
								return false
							}
							src := &SliceV{Obj: rr.Src.Obj, Path: rr.Src.Path, Off: s.Arith(token.ADD, rr.Src.Off, rr.Pos, pos), Len: cnt, Cap: cnt}
							segs, okS := ex.sliceSegs(s, src)
							if !okS {
								return false
							}
							ex.bufAppendSegs(s, bb, segs)
							for id, v := range s.heap {
								if rv, ok := v.(*RdrV); ok && rv == rr {
									s.heap[id] = &RdrV{Src: rv.Src, Pos: s.Arith(token.ADD, rv.Pos, cnt, pos), Failed: rv.Failed, Source: rv.Source}
								}
							}
							out = append(out, callRes{st: s, ret: &TupleV{Vs: []Val{cnt, errV}}})
							return true
						}
						st2 := st.Clone()
						okAll := true
						if st2.Assume("<", remaining, n64) {
							okAll = copyOut(st2, remaining, &IfaceV{Unk: true, NonNil: true, Sentinel: "io.EOF"}) && okAll
						}
						if st.Assume(">=", remaining, n64) {
							okAll = copyOut(st, n64, nilErr()) && okAll
						}
						if okAll && len(out) > 0 {
							return out, true
						}
					}
				}
				if n != nil && (w == nil || w.Dyn == nil || w.Dyn.String() != "*bytes.Buffer") {
					remaining := st.Arith(token.SUB, r.Src.Len, r.Pos, pos)
					adv := func(s *State, by *IntV) {
						for id, v := range s.heap {
							if rv, ok := v.(*RdrV); ok && rv.Src.Obj == r.Src.Obj && s.sameInt(rv.Pos, r.Pos) {
								s.heap[id] = &RdrV{Src: rv.Src, Pos: s.Arith(token.ADD, rv.Pos, by, pos), Failed: rv.Failed, Source: rv.Source}
							}
						}
					}
					st2 := st.Clone()
					var out []callRes
					if st2.Assume("<", remaining, n) {
						adv(st2, remaining)
						out = append(out, callRes{st: st2, ret: &TupleV{Vs: []Val{remaining, &IfaceV{Unk: true, NonNil: true}}}})
					}
					if st.Assume(">=", remaining, n) {
						adv(st, n)
						out = append(out, callRes{st: st, ret: &TupleV{Vs: []Val{n, nilErr()}}})
					}
					return out, true
				}
			}
		}
		// destination may be a tracked buffer: append unknown run of unknown length <= n
		if w, ok := args[0].(*IfaceV); ok && w.Dyn != nil && w.Dyn.String() == "*bytes.Buffer" {
			if b, _ := ex.bufOf(st, w.V); b != nil {
				L := st.freshInt("copied", 64, true)
				st.refineSym(L.T.Syms[0], 0, 1<<40)
				ex.bufAppendSegs(st, b, []Seg{{Run: &Run{Src: ex.syms.Fresh("in", 8, false).Name, Off: constTerm(0), Len: L.T}}})
				return one(&TupleV{Vs: []Val{L, &IfaceV{Unk: true}}})
			}
		}
		n := st.freshInt("copied", 64, true)
		st.refineSym(n.T.Syms[0], 0, 1<<40)
		return one(&TupleV{Vs: []Val{n, &IfaceV{Unk: true}}})
	}
	switch name {
	case "(time.Duration).Nanoseconds":
		if iv, ok := args[0].(*IntV); ok {
			return one(iv)
		}
	case "(time.Duration).Microseconds":
		if iv, ok := args[0].(*IntV); ok {
			return one(st.Arith(token.QUO, iv, mkConst(1000, 64, true), pos))
		}
	case "(time.Duration).Milliseconds":
		if iv, ok := args[0].(*IntV); ok {
			return one(st.Arith(token.QUO, iv, mkConst(1000000, 64, true), pos))
		}
	}
	if strings.HasPrefix(name, "(time.Duration).") || strings.HasPrefix(name, "(time.Time).") {
		return one(ex.retTop(st, resT, fn.Name()))
	}
	return nil, false
}

func (ex *Exec) rdrOf(st *State, p Val) (*RdrV, bool) {
	pv, _ := p.(*PtrV)
	if pv == nil || pv.Unk || pv.Nil {
		return nil, false
	}
	r, ok := st.heap[pv.Obj].(*RdrV)
	return r, ok
}

// readerRead models (*bytes.Reader).Read: copies min(len(buf), remaining) bytes; EOF iff none remain.
func (ex *Exec) readerRead(st *State, r *RdrV, bufV Val, pos string) []callRes {
	buf, _ := bufV.(*SliceV)
	if buf == nil || buf.Unk {
		return []callRes{{st: st, ret: &TupleV{Vs: []Val{st.freshInt("n", 64, true), &IfaceV{Unk: true}}}}}
	}
	srcErr := ex.sourceFailure
	if r.Failed {
		return []callRes{{st: st, ret: &TupleV{Vs: []Val{mkConst(0, 64, true), srcErr()}}}}
	}
	if ex.ReaderMayFail && r.Source {
		// failure injection: this Read fails (nothing delivered), and so does every later one
		st2 := st.Clone()
		for id, v := range st2.heap {
			if rv, ok := v.(*RdrV); ok && rv == r {
				st2.heap[id] = &RdrV{Src: r.Src, Pos: r.Pos, Failed: true, Source: r.Source}
			}
		}
		st2.Events = append(st2.Events, Event{Kind: "sim:read-failed", Pos: pos})
		out := []callRes{{st: st2, ret: &TupleV{Vs: []Val{mkConst(0, 64, true), srcErr()}}}}
		ex.ReaderMayFail = false
		out = append(out, ex.readerRead(st, r, bufV, pos)...)
		ex.ReaderMayFail = true
		return out
	}
	remaining := st.Arith(token.SUB, r.Src.Len, r.Pos, pos)
	// EOF case: remaining <= 0
	zero := mkConst(0, 64, true)
	if le, k := st.Decide("<=", remaining, zero); k && le {
		// (*bytes.Reader).Read at the end returns io.EOF even for an empty buffer
		return []callRes{{st: st, ret: &TupleV{Vs: []Val{zero, &IfaceV{Unk: true, NonNil: true, Sentinel: "io.EOF"}}}}}
	} else if !k {
		// fork: empty / non-empty
		st2 := st.Clone()
		var out []callRes
		if st2.Assume("<=", remaining, zero) {
			out = append(out, callRes{st: st2, ret: &TupleV{Vs: []Val{zero, &IfaceV{Unk: true, NonNil: true, Sentinel: "io.EOF"}}}})
		}
		if !st.Assume(">", remaining, zero) {
			return out
		}
		out = append(out, ex.readerReadNonEmpty(st, r, buf, remaining, pos)...)
		return out
	}
	return ex.readerReadNonEmpty(st, r, buf, remaining, pos)
}

func (ex *Exec) readerReadNonEmpty(st *State, r *RdrV, buf *SliceV, remaining *IntV, pos string) []callRes {
	if ex.ReaderFrag && r.Source {
		// a fragmenting source (C09.4): any count from 1 to min(len(buf), remaining) is delivered; when the delivery
		// reaches the end of the data the source may hand over io.EOF together with it
		if z, k := st.Decide("==", buf.Len, mkConst(0, 64, true)); k && z {
			return []callRes{{st: st, ret: &TupleV{Vs: []Val{mkConst(0, 64, true), nilErr()}}}}
		}
		n := st.freshInt("fragn", 64, true)
		_, hb := st.Range(buf.Len)
		st.refineSym(n.T.Syms[0], 1, hb)
		if !st.Assume("<=", n, buf.Len) || !st.Assume("<=", n, remaining) {
			return nil
		}
		if l, h := st.Range(n); l == h {
			n = mkConst(l, 64, true) // a one-byte buffer: exactly one byte
		}
		var out []callRes
		if atEnd, k := st.Decide("==", n, remaining); !k || atEnd {
			s2 := st.Clone()
			if s2.Assume("==", n, remaining) {
				if r2, ok := ex.rdrOfObj(s2, r); ok {
					res := ex.readerCopy(s2, r2, buf, n, pos)
					if tv, ok := res.ret.(*TupleV); ok {
						tv.Vs[1] = &IfaceV{Unk: true, NonNil: true, Sentinel: "io.EOF"}
					}
					out = append(out, res)
				}
			}
		}
		out = append(out, ex.readerCopy(st, r, buf, n, pos))
		return out
	}
	n := buf.Len
	le, k := st.Decide("<=", buf.Len, remaining)
	if k && !le {
		n = remaining
	} else if !k {
		// undecided which is smaller: fork
		st2 := st.Clone()
		var out []callRes
		if st2.Assume(">", buf.Len, remaining) {
			out = append(out, ex.readerCopy(st2, r, buf, remaining, pos))
		}
		if st.Assume("<=", buf.Len, remaining) {
			out = append(out, ex.readerCopy(st, r, buf, buf.Len, pos))
		}
		return out
	}
	return []callRes{ex.readerCopy(st, r, buf, n, pos)}
}

func (ex *Exec) readerCopy(st *State, r *RdrV, buf *SliceV, n *IntV, pos string) callRes {
	src := &SliceV{Obj: r.Src.Obj, Path: r.Src.Path, Off: st.Arith(token.ADD, r.Src.Off, r.Pos, pos), Len: n, Cap: n}
	segs, ok := ex.sliceSegs(st, src)
	arr, ok2 := ex.arrOf(st, buf)
	if ok && ok2 {
		if !ex.arrReplace(st, arr, st.TermOf(buf.Off), segs, st.TermOf(n)) {
			ok = false
		}
	}
	if os.Getenv("ABSDEBUG") != "" {
		fmt.Fprintf(os.Stderr, "readerCopy src off=%s len=%s ok=%v ok2=%v segs=%s\n", src.Off, src.Len, ok, ok2, arrayString(&ArrayV{Segs: segs}))
	}
	if (!ok || !ok2) && ok2 {
		ex.setArrOf(st, buf, &ArrayV{Elem: arr.Elem, Segs: []Seg{{Run: &Run{Src: ex.syms.Fresh("rd", 8, false).Name, Off: constTerm(0), Len: arrLen(arr)}}}})
	}
	// advance reader (the reader object lives in the heap; find and update)
	for id, v := range st.heap {
		if rv, ok := v.(*RdrV); ok && rv == r {
			st.heap[id] = &RdrV{Src: r.Src, Pos: st.Arith(token.ADD, r.Pos, n, pos), Failed: r.Failed, Source: r.Source}
		}
	}
	return callRes{st: st, ret: &TupleV{Vs: []Val{n, nilErr()}}}
}

// bigBytes: big.NewInt(x).Bytes(): minimal big-endian bytes; partitions on the byte length.
func (ex *Exec) bigBytes(st *State, v *IntV) []callRes {
	lo, hi := st.Range(v)
	if lo < 0 {
		return []callRes{{st: st, ret: ex.unknownSlice(st, types.Typ[types.Uint8], "bigbytes", 0)}}
	}
	var out []callRes
	for k := 0; k <= 8; k++ {
		var l, h int64
		if k == 0 {
			l, h = 0, 0
		} else {
			l = int64(1) << uint(8*(k-1))
			if k == 8 {
				h = math.MaxInt64
			} else {
				h = (int64(1) << uint(8*k)) - 1
			}
		}
		if h < lo || l > hi {
			continue
		}
		s2 := st.Clone()
		if !s2.Assume(">=", v, mkConst(l, v.W, v.Signed)) || !s2.Assume("<=", v, mkConst(h, v.W, v.Signed)) {
			continue
		}
		s2.note("big.Int.Bytes length class %d", k)
		bs := s2.BitsOf(v)
		es := make([]Val, k)
		for i := 0; i < k; i++ {
			byteIdx := k - 1 - i
			b8 := make([]Bit, 8)
			for j := 0; j < 8; j++ {
				if byteIdx*8+j < len(bs) {
					b8[j] = bs[byteIdx*8+j]
				} else {
					b8[j] = Bit{K: B0}
				}
			}
			es[i] = &IntV{W: 8, Bits: b8}
		}
		id := ex.newObj(s2, &ArrayV{Elem: types.Typ[types.Uint8], Segs: normSegs([]Seg{{Elems: es}})}, nil)
		n := mkConst(int64(k), 64, true)
		out = append(out, callRes{st: s2, ret: &SliceV{Obj: id, Off: mkConst(0, 64, true), Len: n, Cap: n}})
	}
	return out
}

// invokeSummary: dynamic calls on unknown receivers with a known contract.
func (ex *Exec) invokeSummary(st *State, m *types.Func, args []Val, resT types.Type) ([]callRes, bool) {
	switch m.Name() {
	case "Read":
		if len(args) == 1 {
			if sl, ok := args[0].(*SliceV); ok && !sl.Unk && !sl.Nil {
				if arr, ok := ex.arrOf(st, sl); ok {
					// the buffer may be partially overwritten: unknown content
					src := ex.syms.Fresh("in", 8, false).Name
					ex.arrReplace(st, arr, st.TermOf(sl.Off), []Seg{{Run: &Run{Src: src, Off: constTerm(0), Len: st.TermOf(sl.Len)}}}, st.TermOf(sl.Len))
				}
				n := st.freshInt("n", 64, true)
				_, hi := st.Range(sl.Len)
				st.refineSym(n.T.Syms[0], 0, hi)
				return []callRes{{st: st, ret: &TupleV{Vs: []Val{n, &IfaceV{Unk: true}}}}}, true
			}
		}
	case "Write":
		if len(args) == 1 {
			if sl, ok := args[0].(*SliceV); ok && !sl.Unk && ex.WriterContract {
				// io.Writer contract, split eagerly: either everything was accepted (n = len, nil) or an error is returned
				okSt, badSt := st, st.Clone()
				n := badSt.freshInt("n", 64, true)
				_, hi := badSt.Range(sl.Len)
				badSt.refineSym(n.T.Syms[0], 0, hi)
				pos := ""
				if len(badSt.Events) > 0 {
					pos = badSt.Events[len(badSt.Events)-1].Pos
				}
				badSt.Events = append(badSt.Events, Event{Kind: "sim:write-failed", Pos: pos, Args: []Val{n}})
				return []callRes{
					{st: okSt, ret: &TupleV{Vs: []Val{sl.Len, nilErr()}}},
					{st: badSt, ret: &TupleV{Vs: []Val{n, &IfaceV{Unk: true, NonNil: true}}}},
				}, true
			}
			if sl, ok := args[0].(*SliceV); ok && !sl.Unk {
				n := st.freshInt("n", 64, true)
				_, hi := st.Range(sl.Len)
				st.refineSym(n.T.Syms[0], 0, hi)
				return []callRes{{st: st, ret: &TupleV{Vs: []Val{n, &IfaceV{Unk: true}}}}}, true
			}
		}
	case "Send":
		// drivers.Out.Send(bytes) error: a port reads the bytes it is given and does not keep or modify them
		if len(args) == 1 {
			if _, ok := args[0].(*SliceV); ok {
				return []callRes{{st: st, ret: &IfaceV{Unk: true}}}, true
			}
		}
	case "Printf":
		return []callRes{{st: st, ret: nil}}, true
	case "String", "Error":
		return []callRes{{st: st, ret: &StrV{}}}, true
	}
	return nil, false
}

var _ = fmt.Sprint

// deepEqual: reflect.DeepEqual on byte-slice-like values with tracked content; unknown otherwise.
func (ex *Exec) deepEqual(st *State, a, b Val) *BoolV {
	unwrap := func(v Val) *SliceV {
		if iv, ok := v.(*IfaceV); ok && !iv.Unk && !iv.Nil {
			v = iv.V
		}
		s, _ := v.(*SliceV)
		return s
	}
	x, y := unwrap(a), unwrap(b)
	if x == nil || y == nil || x.Unk || y.Unk {
		return &BoolV{}
	}
	if eq, k := st.Decide("==", x.Len, y.Len); k && !eq {
		return &BoolV{Known: true, Val: false}
	}
	sx, ok1 := ex.sliceSegs(st, x)
	sy, ok2 := ex.sliceSegs(st, y)
	if !ok1 || !ok2 {
		return &BoolV{}
	}
	ex1, f1 := flatElems(sx)
	ey1, f2 := flatElems(sy)
	if f1 && f2 && len(ex1) == len(ey1) {
		all := true
		for i := range ex1 {
			xi, okx := ex1[i].(*IntV)
			yi, oky := ey1[i].(*IntV)
			if !okx || !oky {
				return &BoolV{}
			}
			eq, k := st.Decide("==", xi, yi)
			if k && !eq {
				return &BoolV{Known: true, Val: false}
			}
			if !k {
				all = false
			}
		}
		if all && (x.Nil == y.Nil || (len(ex1) > 0)) {
			return &BoolV{Known: true, Val: true}
		}
		return &BoolV{}
	}
	// compare known prefixes
	px, py := []Val{}, []Val{}
	if len(sx) > 0 && sx[0].Run == nil {
		px = sx[0].Elems
	}
	if len(sy) > 0 && sy[0].Run == nil {
		py = sy[0].Elems
	}
	for i := 0; i < len(px) && i < len(py); i++ {
		xi, okx := px[i].(*IntV)
		yi, oky := py[i].(*IntV)
		if okx && oky {
			if eq, k := st.Decide("==", xi, yi); k && !eq {
				return &BoolV{Known: true, Val: false}
			}
		}
	}
	return &BoolV{}
}

// objTypeIsBuffer: the pointer's static target type is bytes.Buffer (checked through the path's field types).
func (ex *Exec) objTypeIsBuffer(pv *PtrV, st *State) bool {
	t := ex.objType[pv.Obj]
	if t == nil {
		return false
	}
	for _, pe := range pv.Path {
		stt, ok := t.Underlying().(*types.Struct)
		if !ok || pe.Index != nil || pe.Field < 0 || pe.Field >= stt.NumFields() {
			return false
		}
		t = stt.Field(pe.Field).Type()
	}
	return t.String() == "bytes.Buffer"
}

// sourceFailure: the error a failing source returns (Exec.ReaderMayFail).
func (ex *Exec) sourceFailure() Val {
	if ex.ReaderFailSentinel != "" {
		return &IfaceV{Unk: true, NonNil: true, Sentinel: ex.ReaderFailSentinel}
	}
	return &IfaceV{Unk: true, NonNil: true, Sentinel: "sim.source-failure"}
}

// rdrOfObj: the reader model equal to r in (a clone of) the state.
func (ex *Exec) rdrOfObj(st *State, r *RdrV) (*RdrV, bool) {
	for _, v := range st.heap {
		if rv, ok := v.(*RdrV); ok && rv == r {
			return rv, true
		}
	}
	return nil, false
}
