package main

import (
	"fmt"
	"go/token"
	"go/types"
	"os"
	"strings"

	"golang.org/x/tools/go/ssa"
)

func init() { register("C18", checkC18) }

// identOfVal: canonical identity of an abstract value (for uninterpreted function keys)
func identOfVal(ex *Exec, st *State, v Val) string {
	switch x := v.(type) {
	case *IntV:
		return st.ident(x)
	case *BoolV:
		if b, k := st.boolOf(x); k {
			return fmt.Sprint(b)
		}
		return "bool?"
	case *ArrayV:
		return arrayStringIn(st, x)
	case *SliceV:
		if x.Nil {
			return "[]"
		}
		segs, ok := ex.sliceSegs(st, x)
		if !ok {
			return "slice?"
		}
		return arrayStringIn(st, &ArrayV{Segs: st.dropEmptyRuns(segs)})
	case *StructV:
		var p []string
		for _, f := range x.Fields {
			p = append(p, identOfVal(ex, st, f))
		}
		return "{" + strings.Join(p, ",") + "}"
	}
	return valString(v)
}

func arrayStringIn(st *State, a *ArrayV) string {
	var p []string
	for _, s := range a.Segs {
		if s.Run != nil {
			p = append(p, fmt.Sprintf("run(%s+%s,len=%s)", s.Run.Src, s.Run.Off, s.Run.Len))
		} else {
			for _, e := range s.Elems {
				if iv, ok := e.(*IntV); ok {
					p = append(p, st.ident(iv))
				} else {
					p = append(p, valString(e))
				}
			}
		}
	}
	return "[" + strings.Join(p, " ") + "]"
}

func checkC18(c *Ctx) {
	p := c.P
	c.Level = "other"
	c.Explain = "C18 decided by abstract interpretation of parse(build(v)) for symbolic values: the Roland-style builder is run with symbolic ids, address, request size and a payload of symbolic length >= 1; the parser is run on the abstract result with the checksum function treated as an uninterpreted function of the fields it covers, so parse succeeds on all partitions iff both sides apply the same function to the same fields at the same positions, and the returned value must equal the built one; likewise for machine-control locate and plain commands. The checksum arithmetic is decided in the congruence partition sum = 128*q + r for all 128 residues (zero sum, 7-bit result); a wrong checksum byte is rejected on every accepting path; with each covered byte entering the sum exactly once, a single-byte change of address or payload by d in 1..127 moves the required checksum by -d mod 128 != 0 and is rejected by the same comparison. Not decided: multi-byte corruptions that cancel out (not claimed by the property)."
	c.Trusted = []string{"go/ssa", "E-abs incl. bytes.Buffer summary", "checksum treated as uninterpreted function in the parse(build) cells; its arithmetic is decided separately (C18.4) with the summation loop summarised as a sum symbol"}
	c.Rule("C18.1", "Roland-style frame: Parse(SysEx(v)) succeeds on every partition and returns v (ids, address, payload of any length >= 1 / request size); builder layout F0 id dev model 11|12 addr x3 (size x3 | data) checksum F7", 4)
	c.Rule("C18.2", "checksum coverage: builder and parser apply the same checksum function to the same fields (address + payload/size); every accepting path of the parser has compared the checksum byte with it", 3)
	c.Rule("C18.4", "zero sum: for every residue class of the covered bytes' sum (partition by sum mod 128, the multiple of 128 symbolic; the class reached through the payload sum, through each address byte and through each size byte) the checksum c is a constant with 0 <= c <= 127 and sum + c = 0 mod 128", 7)
	c.Rule("C18.5", "the helpers do not write into the caller's memory: with the payload handed in as a slice that has spare capacity (a window of a larger buffer), Checksum and SysEx leave the bytes behind the window untouched — an append onto the caller's slice would overwrite them (the next chunk of a dump, the F7 of the message being parsed)", 2)
	c.Rule("C18.3", "machine control: locate and plain commands parse back to the value they were built from (device ids 1..127, commands below 0x40)", 2)

	// ---------------- Roland frame
	mt := p.namedType("sysex", "Manufacturer")
	parse := p.Func("sysex", "Parse")
	var build, cks *ssa.Function
	if mt != nil {
		build = p.MethodOf(mt, "SysEx")
		cks = p.MethodOf(mt, "Checksum")
	}
	if mt == nil || parse == nil || build == nil || cks == nil {
		c.Unk("C18.1", "sysex.Manufacturer / Parse / SysEx / Checksum", "-", "not resolved")
	} else {
		c.Fn(FuncName(parse))
		c.Fn(FuncName(build))
		c.Fn(FuncName(cks))
		for _, req := range []bool{false, true} {
			ex := NewExec(p)
			var keys []string
			ex.CallHook = func(ex *Exec, st *State, fr *Frame, call ssa.CallInstruction, callee *ssa.Function, args []Val) ([]callRes, bool) {
				if callee != cks {
					return nil, false
				}
				// uninterpreted: depends on what the function reads — address, request flag, and size or data
				sv, _ := args[0].(*StructV)
				if sv == nil {
					return nil, false
				}
				get := func(n string) Val { return sv.Fields[fieldIndex(sv.T, n)] }
				key := "cks(" + identOfVal(ex, st, get("Address")) + "," + identOfVal(ex, st, get("InfoRequest")) + ","
				if b, k := st.boolOf(get("InfoRequest").(*BoolV)); k && b {
					key += identOfVal(ex, st, get("NumReqBytes"))
				} else {
					key += identOfVal(ex, st, get("SendingData"))
				}
				key += ")"
				keys = append(keys, key)
				s := ex.syms.Get(key, 8, false)
				return []callRes{{st: st, ret: mkSym(s)}}, true
			}
			st := ex.NewState()
			mv := ex.zeroOf(mt).(*StructV)
			set := func(n string, v Val) { mv.Fields[fieldIndex(mv.T, n)] = v }
			id, dev, model := ex.byteSym("manufacturer"), ex.byteSym("device"), ex.byteSym("model")
			set("ManufacturerID", id)
			set("DeviceID", dev)
			set("ModelID", model)
			set("InfoRequest", &BoolV{Known: true, Val: req})
			addr := []Val{ex.byteSym("a0"), ex.byteSym("a1"), ex.byteSym("a2")}
			set("Address", &ArrayV{Elem: types.Typ[types.Uint8], Segs: []Seg{{Elems: addr}}})
			size := []Val{ex.byteSym("n0"), ex.byteSym("n1"), ex.byteSym("n2")}
			var data *SliceV
			if req {
				set("NumReqBytes", &ArrayV{Elem: types.Typ[types.Uint8], Segs: []Seg{{Elems: size}}})
			} else {
				data = ex.unknownSlice(st, types.Typ[types.Uint8], "payload", 1)
				set("SendingData", data)
			}
			ok := true
			why := ""
			n := 0
			for _, o := range ex.Call(st, build, []Val{mv}, nil) {
				if o.Panic || len(problemEvents(o.St.Events)) > 0 {
					ok = false
					why = "builder: " + o.Msg + fmtEvents(problemEvents(o.St.Events))
					continue
				}
				msg, _ := o.Ret[0].(*SliceV)
				// layout
				segs, _ := ex.sliceSegs(o.St, msg)
				cmd := int64(0x12)
				if req {
					cmd = 0x11
				}
				want := []Seg{{Elems: append([]Val{mkConst(0xF0, 8, false), id, dev, model, mkConst(cmd, 8, false)}, addr...)}}
				if req {
					want = append(want, Seg{Elems: size})
				} else {
					ds, _ := ex.sliceSegs(o.St, data)
					want = append(want, ds...)
				}
				if len(keys) == 0 {
					ok = false
					why = "builder does not call the checksum function"
					continue
				}
				want = append(want, Seg{Elems: []Val{mkSym(ex.syms.Get(keys[len(keys)-1], 8, false)), mkConst(0xF7, 8, false)}})
				if !segsEqual(segs, normSegs(want), o.St.sameVal) {
					ok = false
					why = "builder layout " + arrayStringIn(o.St, &ArrayV{Segs: segs}) + " differs from F0 id dev model cmd addr (size|data) checksum F7"
					continue
				}
				bkey := keys[len(keys)-1]
				pristine := o.St.Clone() // the parse run below refines o.St in place
				for _, po := range ex.Call(o.St, parse, []Val{msg}, nil) {
					n++
					if po.Panic || len(problemEvents(po.St.Events)) > 0 {
						ok = false
						why = "parser may panic on the builder's output: " + po.Msg + fmtEvents(problemEvents(po.St.Events))
						continue
					}
					ev, _ := po.Ret[1].(*IfaceV)
					if ev == nil || !ev.Nil {
						ok = false
						pk := ""
						if len(keys) > 0 {
							pk = keys[len(keys)-1]
						}
						why = fmt.Sprintf("parser may reject what the builder produced [%s]; builder checksum over %s, parser checksum over %s", outcomeWitness(po), bkey, pk)
						continue
					}
					rp, _ := po.Ret[0].(*PtrV)
					if rp == nil || rp.Nil || rp.Unk {
						ok = false
						why = "no value returned"
						continue
					}
					rv, _ := po.St.heap[rp.Obj].(*StructV)
					if rv == nil || identOfVal(ex, po.St, rv) != identOfVal(ex, po.St, mv) {
						ok = false
						why = "parsed value " + identOfVal(ex, po.St, rv) + " differs from the built one " + identOfVal(ex, po.St, mv)
					}
				}
				pk := keys[len(keys)-1]
				c.Check(pk == bkey, "C18.2", fmt.Sprintf("checksum coverage (request=%v)", req), p.Pos(parse.Pos()), "same function over "+bkey, "builder covers "+bkey+", parser covers "+pk)
				// the comparison is unconditional: with an arbitrary byte x in the checksum position, every accepting path of
				// the parser has established x == checksum(fields) (so a wrong checksum byte is rejected whatever the ids are)
				{
					x := ex.byteSym("xsum")
					cst := pristine
					csegs := append([]Seg{}, segs[:len(segs)-1]...)
					last := segs[len(segs)-1]
					okShape := last.Run == nil && len(last.Elems) >= 2
					if okShape {
						ne := append([]Val{}, last.Elems...)
						ne[len(ne)-2] = x
						csegs = append(csegs, Seg{Elems: ne})
						cid := ex.newObj(cst, &ArrayV{Elem: types.Typ[types.Uint8], Segs: normSegs(csegs)}, nil)
						cmsg := &SliceV{Obj: cid, Off: mkConst(0, 64, true), Len: msg.Len, Cap: msg.Len}
						okC, whyC, nAcc := true, "", 0
						for _, po := range ex.Call(cst, parse, []Val{cmsg}, nil) {
							if os.Getenv("ABSDEBUG") != "" {
								fmt.Fprintf(os.Stderr, "C18 corrupt outcome panic=%v ret=%v witness=%s\n", po.Panic, po.Ret, outcomeWitness(po))
							}
							if po.Panic {
								continue
							}
							ev, _ := po.Ret[1].(*IfaceV)
							if ev == nil || !ev.Nil {
								continue // rejected
							}
							nAcc++
							want := mkSym(ex.syms.Get(keys[len(keys)-1], 8, false))
							if os.Getenv("ABSDEBUG") != "" {
								fmt.Fprintf(os.Stderr, "C18 corrupt: x=%s want=%s facts=%d neq=%d witness=%s\n", x, want, len(po.St.facts), len(po.St.neq), outcomeWitness(po))
								for _, f := range po.St.facts {
									fmt.Fprintf(os.Stderr, "   fact %s <= 0\n", f)
								}
							}
							if eq, k := po.St.Decide("==", x, want); !(k && eq) && !po.St.sameInt(x, want) {
								okC = false
								whyC = "the parser can accept a message whose checksum byte is arbitrary (the comparison with the computed checksum is skipped on some path): " + outcomeWitness(po)
							}
						}
						c.Check(okC && nAcc > 0, "C18.2", fmt.Sprintf("checksum compared on every accepting path (request=%v)", req), p.Pos(parse.Pos()), fmt.Sprintf("%d accepting partition(s), each implies checksum byte = checksum(fields)", nAcc), whyC)
					} else {
						c.Unk("C18.2", fmt.Sprintf("checksum compared on every accepting path (request=%v)", req), p.Pos(parse.Pos()), "builder output does not end in [checksum F7]")
					}
				}
			}
			c.Check(ok && n > 0, "C18.1", fmt.Sprintf("Parse(SysEx(v)) = v (request=%v)", req), p.Pos(parse.Pos()), fmt.Sprintf("%d partitions, symbolic ids/address/payload of any length >= 1", n), why)
			c.Check(ok && n > 0, "C18.1", fmt.Sprintf("builder layout (request=%v)", req), p.Pos(build.Pos()), "F0 id dev model cmd addr (size|data) checksum F7", why)
		}
	}

	// what the checksum function reads (all three address bytes, all three size bytes, the whole payload) is decided by
	// C18.4 below: a byte that is not summed leaves its residue class with the wrong checksum. (A syntactic "reads index
	// 0,1,2 and ranges over the payload" rule stood here until round 4; it alarmed on a checksum that sums through a
	// helper over s.Address[:] / s.SendingData.)
	// ---------------- checksum arithmetic (C18.4)
	if mt != nil && cks != nil {
		checksumArithmetic(c, mt, cks)
	}

	// ---------------- C18.5 caller memory
	if mt != nil && cks != nil && build != nil {
		for _, fn := range []*ssa.Function{cks, build} {
			ex := NewExec(p)
			st := ex.NewState()
			mv := ex.zeroOf(mt).(*StructV)
			for i := 0; i < mv.T.NumFields(); i++ {
				if _, _, isInt := intTypeInfo(mv.T.Field(i).Type()); isInt {
					mv.Fields[i] = ex.topOf(st, mv.T.Field(i).Type(), mv.T.Field(i).Name())
				}
			}
			mv.Fields[fieldIndex(mv.T, "Address")] = &ArrayV{Elem: types.Typ[types.Uint8], Segs: []Seg{{Elems: []Val{ex.byteSym("a0"), ex.byteSym("a1"), ex.byteSym("a2")}}}}
			mv.Fields[fieldIndex(mv.T, "InfoRequest")] = &BoolV{Known: true, Val: false}
			// the payload: a window [0:L) of a buffer that continues with four guard bytes
			L := st.freshInt("paylen", 64, true)
			st.refineSym(L.T.Syms[0], 1, 512)
			guards := []Val{ex.byteSym("g0"), ex.byteSym("g1"), ex.byteSym("g2"), ex.byteSym("g3")}
			bid := ex.newObj(st, &ArrayV{Elem: types.Typ[types.Uint8], Segs: []Seg{{Run: &Run{Src: "dump", Off: constTerm(0), Len: L.T}}, {Elems: guards}}}, nil)
			capV := st.Arith(token.ADD, L, mkConst(4, 64, true), "")
			mv.Fields[fieldIndex(mv.T, "SendingData")] = &SliceV{Obj: bid, Off: mkConst(0, 64, true), Len: L, Cap: capV}
			ok, why, n := true, "", 0
			for _, o := range ex.Call(st, fn, []Val{mv}, nil) {
				n++
				if o.Panic {
					ok, why = false, o.Msg
					continue
				}
				tail := &SliceV{Obj: bid, Off: L, Len: mkConst(4, 64, true), Cap: mkConst(4, 64, true)}
				got, okG := ex.sliceElems(o.St, tail)
				same := okG && len(got) == 4
				for i := 0; same && i < 4; i++ {
					same = o.St.sameVal(got[i], guards[i])
				}
				if !same {
					ok, why = false, FuncName(fn)+" changes the bytes that follow the payload in the caller's buffer (it appends onto the caller's slice): the next window of a chunked dump, or the end byte of a message being parsed, is overwritten"
				}
			}
			c.Check(ok && n > 0, "C18.5", "caller memory behind the payload after "+FuncName(fn), p.Pos(fn.Pos()), "payload = window with spare capacity: the four bytes behind it are unchanged on every path", why)
		}
	}
	// ---------------- MMC
	gt := p.namedType("mmc", "GoTo")
	if gt == nil {
		c.Unk("C18.3", "mmc.GoTo", "-", "not found")
	} else {
		b, pr := p.MethodOf(gt, "SysEx"), p.MethodOf(types.NewPointer(gt), "Parse")
		ex := NewExec(p)
		st := ex.NewState()
		gv := ex.zeroOf(gt).(*StructV)
		for i := range gv.Fields {
			gv.Fields[i] = ex.byteSym(gv.T.Field(i).Name())
		}
		ok := b != nil && pr != nil
		why := ""
		n := 0
		if ok {
			c.Fn(FuncName(b))
			c.Fn(FuncName(pr))
			for _, o := range ex.Call(st, b, []Val{gv}, nil) {
				if o.Panic {
					ok = false
					why = o.Msg
					continue
				}
				dst := ex.newStaleObject(o.St, gt)
				for _, po := range ex.Call(o.St, pr, []Val{dst, o.Ret[0]}, nil) {
					n++
					ev, _ := po.Ret[0].(*IfaceV)
					if po.Panic || len(problemEvents(po.St.Events)) > 0 || ev == nil || !ev.Nil {
						ok = false
						why = "locate: Parse may reject/panic on SysEx() output: " + po.Msg + " [" + outcomeWitness(po) + "]"
						continue
					}
					if identOfVal(ex, po.St, po.St.heap[dst.Obj]) != identOfVal(ex, po.St, gv) {
						ok = false
						why = "locate: parsed " + identOfVal(ex, po.St, po.St.heap[dst.Obj]) + " built " + identOfVal(ex, po.St, gv)
					}
				}
			}
		}
		c.Check(ok && n > 0, "C18.3", "locate (GoTo) parses what it builds", "-", "13 fixed positions agree; all fields symbolic", why)
	}
	mm := p.namedType("mmc", "Message")
	if mm == nil {
		c.Unk("C18.3", "mmc.Message", "-", "not found")
	} else {
		b, pr := p.MethodOf(mm, "SysEx"), p.MethodOf(types.NewPointer(mm), "Parse")
		ex := NewExec(p)
		st := ex.NewState()
		v := ex.zeroOf(mm).(*StructV)
		dev := ex.byteSym("device")
		st.refineSym(dev.T.Syms[0], 1, 127)
		cmd := ex.byteSym("command")
		st.refineSym(cmd.T.Syms[0], 0, 0x3F)
		v.Fields[fieldIndex(v.T, "DeviceID")] = dev
		v.Fields[fieldIndex(v.T, "Command")] = cmd
		ok := b != nil && pr != nil
		why := ""
		n := 0
		if ok {
			c.Fn(FuncName(b))
			c.Fn(FuncName(pr))
			for _, o := range ex.Call(st, b, []Val{v}, nil) {
				if o.Panic {
					ok = false
					why = o.Msg
					continue
				}
				dst := ex.newStaleObject(o.St, mm)
				for _, po := range ex.Call(o.St, pr, []Val{dst, o.Ret[0]}, nil) {
					n++
					ev, _ := po.Ret[0].(*IfaceV)
					if po.Panic || len(problemEvents(po.St.Events)) > 0 || ev == nil || !ev.Nil {
						ok = false
						why = "plain command: Parse may reject/panic on the 6-byte message SysEx() emits: " + po.Msg + " [" + outcomeWitness(po) + "]"
						continue
					}
					dv := po.St.heap[dst.Obj].(*StructV)
					gd, _ := dv.Fields[fieldIndex(dv.T, "DeviceID")].(*IntV)
					gc, _ := dv.Fields[fieldIndex(dv.T, "Command")].(*IntV)
					if gd == nil || gc == nil || !po.St.sameInt(gd, dev) || !po.St.sameInt(gc, cmd) {
						ok = false
						why = "plain command: device/command not recovered"
					}
					if r, _ := dv.Fields[fieldIndex(dv.T, "IsResponse")].(*BoolV); r != nil {
						if bv, k := po.St.boolOf(r); !k || bv {
							ok = false
							why = "plain command parsed as response"
						}
					}
				}
			}
		}
		c.Check(ok && n > 0, "C18.3", "plain machine-control command parses what it builds", "-", "F0 7F dev 06 cmd F7 accepted, device and command recovered (device 1..127, command < 0x40 symbolic)", why)
	}
}

// checksumArithmetic (C18.4): Checksum() is interpreted in the congruence partition "covered sum = 128*q + r" for every
// residue r, with q symbolic: the payload is an opaque run of any length whose byte sum is defined as 128*q + r (the
// summation loop is summarised, abs_exec.go sumLoop), or r sits in one address / size byte and the rest sums to 128*q.
// In every class the result must be the constant (128 - r) mod 128.
func checksumArithmetic(c *Ctx, mt types.Type, cks *ssa.Function) {
	p := c.P
	type where struct {
		name string
		req  bool
		slot int // 0: payload sum, 1..3: address byte, 4..6: size byte
	}
	var ws []where
	ws = append(ws, where{"residue in the payload sum", false, 0})
	for i := 1; i <= 3; i++ {
		ws = append(ws, where{fmt.Sprintf("residue in address byte %d (data set)", i-1), false, i})
	}
	for i := 4; i <= 6; i++ {
		ws = append(ws, where{fmt.Sprintf("residue in size byte %d (data request)", i-4), true, i})
	}
	for _, w := range ws {
		ok, why, n := true, "", 0
		for r := int64(0); r < 128 && ok; r++ {
			ex := NewExec(p)
			st := ex.NewState()
			mv := ex.zeroOf(mt).(*StructV)
			set := func(n string, v Val) { mv.Fields[fieldIndex(mv.T, n)] = v }
			k8 := func(v int64) Val { return mkConst(v, 8, false) }
			addr := []Val{k8(0), k8(0), k8(0)}
			size := []Val{k8(0), k8(0), k8(0)}
			if w.slot >= 1 && w.slot <= 3 {
				addr[w.slot-1] = k8(r)
			}
			if w.slot >= 4 {
				size[w.slot-4] = k8(r)
			}
			set("Address", &ArrayV{Elem: types.Typ[types.Uint8], Segs: []Seg{{Elems: addr}}})
			set("NumReqBytes", &ArrayV{Elem: types.Typ[types.Uint8], Segs: []Seg{{Elems: size}}})
			set("InfoRequest", &BoolV{Known: true, Val: w.req})
			// the field the other kind of message uses holds whatever an earlier use of the value left there (a request value
			// re-used as a data set, a parsed data set turned into a request): it is not part of the message and not summed
			if w.req {
				set("SendingData", ex.unknownSlice(st, types.Typ[types.Uint8], "stalePayload", 0))
			} else {
				set("NumReqBytes", &ArrayV{Elem: types.Typ[types.Uint8], Segs: []Seg{{Elems: []Val{ex.byteSym("stale0"), ex.byteSym("stale1"), ex.byteSym("stale2")}}}})
			}
			if !w.req {
				data := ex.unknownSlice(st, types.Typ[types.Uint8], "payload", 1)
				st.refineSym(data.Len.T.Syms[0], 1, 512)
				set("SendingData", data)
				segs, _ := ex.sliceSegs(st, data)
				if len(segs) != 1 || segs[0].Run == nil {
					c.Unk("C18.4", "payload model", "-", "unexpected shape")
					return
				}
				run := segs[0].Run
				sname := fmt.Sprintf("sum(%s@%s,%s)", run.Src, run.Off, run.Len)
				sum := ex.syms.Get(sname, 64, true)
				q := ex.syms.Get("q", 64, true)
				st.refineSym(q, 0, 1000)
				res := int64(0)
				if w.slot == 0 {
					res = r
				}
				sum.DefTerm = termAdd(termScale(symTerm(q), 128), constTerm(res), 1)
				st.refineSym(sum, 0, 128*1000+127)
			}
			outs := ex.Call(st, cks, []Val{mv}, nil)
			if ex.Budget || len(outs) == 0 {
				ok, why = false, "checksum function not interpretable"
				break
			}
			for u := range ex.Unsupported {
				ok, why = false, "unmodelled construct: "+u
			}
			for _, o := range outs {
				n++
				if o.Panic || len(problemEvents(o.St.Events)) > 0 {
					ok, why = false, "may panic: "+o.Msg+fmtEvents(problemEvents(o.St.Events))
					continue
				}
				cv, _ := o.Ret[0].(*IntV)
				cc, isC := int64(0), false
				if cv != nil {
					cc, isC = o.St.ConstOf(cv)
				}
				if !isC {
					ok, why = false, fmt.Sprintf("covered sum = 128*q + %d: the checksum is not a single value (%s): the summation or the reduction modulo 128 is not what the specification prescribes", r, valString(o.Ret[0]))
					continue
				}
				if cc < 0 || cc > 127 || (r+cc)%128 != 0 {
					ok, why = false, fmt.Sprintf("covered sum = 128*q + %d: checksum %d; sum + checksum must be 0 modulo 128 with a 7-bit checksum (expected %d)", r, cc, (128-r)%128)
				}
			}
		}
		c.Check(ok && n > 0, "C18.4", "checksum arithmetic, "+w.name, p.Pos(cks.Pos()), "128 residue classes x symbolic multiple of 128: checksum = (128 - r) mod 128", why)
	}
}
