package main

import (
	"fmt"
	"go/token"
	"go/types"
	"sort"
	"strings"
	"sync"

	"golang.org/x/tools/go/ssa"
)

// ---------------------------------------------------------------- memory access

func (ex *Exec) load(st *State, p Val, t types.Type) (Val, string) {
	pv, _ := p.(*PtrV)
	if pv == nil || pv.Unk {
		if pv != nil {
			st.Events = append(st.Events, Event{Kind: "nilderef?", Msg: "load through a pointer that may be nil"})
		}
		return ex.topOf(st, t, "load"), ""
	}
	if pv.Nil {
		return nil, "nil pointer dereference (load)"
	}
	root, ok := st.heap[pv.Obj]
	if !ok {
		return ex.topOf(st, t, "load"), ""
	}
	v, ok := ex.loadPath(st, root, pv.Path)
	if !ok || v == nil {
		return ex.topOf(st, t, "load"), ""
	}
	if tv, isTop := v.(*TopV); isTop {
		_ = tv
		nv := ex.topOf(st, t, "load")
		ex.storePath(st, pv.Obj, pv.Path, nv)
		return nv, ""
	}
	// materialise unknown bools so that later refinement is shared: keep as is (BoolV unknown has no identity)
	if uv, ok := v.(*PtrV); ok && uv.Unk && ex.LazyPtr {
		// lazy materialisation: an unknown pointer field becomes a pointer to a fresh unknown object
		if pt, ok := t.Underlying().(*types.Pointer); ok {
			switch pt.Elem().Underlying().(type) {
			case *types.Struct, *types.Array:
				np := ex.newTopObject(st, pt.Elem(), "lazy")
				ex.storePath(st, pv.Obj, pv.Path, np)
				return np, ""
			}
		}
	}
	if sv, ok := v.(*StructV); ok {
		return cloneVal(sv), "" // struct values are copied on load
	}
	if av, ok := v.(*ArrayV); ok {
		return cloneVal(av), ""
	}
	return v, ""
}

func (ex *Exec) store(st *State, p Val, v Val) string {
	pv, _ := p.(*PtrV)
	if pv == nil || pv.Unk {
		ex.havocAll(st, "store through unknown pointer")
		return ""
	}
	if pv.Nil {
		return "nil pointer dereference (store)"
	}
	switch x := v.(type) {
	case *StructV:
		v = cloneVal(x)
	case *ArrayV:
		v = cloneVal(x)
	}
	if !ex.storePath(st, pv.Obj, pv.Path, v) {
		// unresolved position: weak update -> forget the object
		t := ex.objType[pv.Obj]
		if arr, ok := st.heap[pv.Obj].(*ArrayV); ok {
			src := ex.syms.Fresh("weak", 8, false).Name
			st.heap[pv.Obj] = &ArrayV{Elem: arr.Elem, Segs: []Seg{{Run: &Run{Src: src, Off: constTerm(0), Len: arrLen(arr)}}}}
		} else if t != nil {
			st.heap[pv.Obj] = ex.topOf(st, t, "weak")
		} else {
			st.heap[pv.Obj] = &TopV{}
		}
	}
	return ""
}

func (ex *Exec) sliceOp(fr *Frame, st *State, x *ssa.Slice) (Val, string) {
	base := ex.eval(fr, st, x.X)
	getI := func(v ssa.Value) *IntV {
		if v == nil {
			return nil
		}
		iv, _ := ex.eval(fr, st, v).(*IntV)
		if iv == nil {
			return mkSym(ex.syms.Fresh("slidx", 64, true))
		}
		return st.Convert(iv, 64, true)
	}
	lo, hi := getI(x.Low), getI(x.High)
	zero := mkConst(0, 64, true)
	switch b := base.(type) {
	case *SliceV:
		if b.Unk {
			return &SliceV{Unk: true}, ""
		}
		if lo == nil {
			lo = zero
		}
		if hi == nil {
			hi = b.Len
		}
		// 0 <= lo <= hi <= cap
		c1, k1 := st.Decide("<=", zero, lo)
		c2, k2 := st.Decide("<=", lo, hi)
		c3, k3 := st.Decide("<=", hi, b.Cap)
		if (k1 && !c1) || (k2 && !c2) || (k3 && !c3) {
			return nil, fmt.Sprintf("slice bounds out of range [%s:%s] with capacity %s", lo, hi, b.Cap)
		}
		if !(k1 && k2 && k3) {
			st.Events = append(st.Events, Event{Kind: "oob", Pos: ex.pos(x), Msg: fmt.Sprintf("slice bounds [%s:%s] not shown to be within capacity %s", st.describe(lo), st.describe(hi), st.describe(b.Cap)), Args: []Val{lo, hi, b.Cap}})
			st.Assume("<=", zero, lo)
			st.Assume("<=", lo, hi)
			if !st.Assume("<=", hi, b.Cap) {
				return nil, "dead"
			}
		}
		nl := st.Arith(token.SUB, hi, lo, ex.pos(x))
		nc := st.Arith(token.SUB, b.Cap, lo, ex.pos(x))
		if x.Max != nil {
			nc = st.Arith(token.SUB, getI(x.Max), lo, ex.pos(x))
		}
		obj := b.Obj
		if b.Nil {
			return b, ""
		}
		return &SliceV{Obj: obj, Path: b.Path, Off: st.Arith(token.ADD, b.Off, lo, ex.pos(x)), Len: nl, Cap: nc}, ""
	case *PtrV: // *array
		if b.Unk || b.Nil {
			return &SliceV{Unk: true}, ""
		}
		at := x.X.Type().Underlying().(*types.Pointer).Elem().Underlying().(*types.Array)
		n := mkConst(at.Len(), 64, true)
		if lo == nil {
			lo = zero
		}
		if hi == nil {
			hi = n
		}
		for _, pe := range b.Path {
			if pe.Index != nil { // array nested in an array element: not tracked
				return &SliceV{Unk: true}, ""
			}
		}
		if len(b.Path) != 0 {
			if _, ok := ex.arrOf(st, &SliceV{Obj: b.Obj, Path: b.Path}); !ok {
				return &SliceV{Unk: true}, ""
			}
		}
		return &SliceV{Obj: b.Obj, Path: append([]PathElem{}, b.Path...), Off: lo, Len: st.Arith(token.SUB, hi, lo, ex.pos(x)), Cap: st.Arith(token.SUB, n, lo, ex.pos(x))}, ""
	case *StrV:
		if b.Known && (lo == nil || isConstV(st, lo)) && (hi == nil || isConstV(st, hi)) {
			l, h := int64(0), int64(len(b.S))
			if lo != nil {
				l, _ = st.ConstOf(lo)
			}
			if hi != nil {
				h, _ = st.ConstOf(hi)
			}
			if l >= 0 && l <= h && h <= int64(len(b.S)) {
				return &StrV{Known: true, S: b.S[l:h]}, ""
			}
			return nil, "string slice out of range"
		}
		return &StrV{}, ""
	}
	return ex.topOf(st, x.Type(), "slice"), ""
}

func isConstV(st *State, v *IntV) bool { _, ok := st.ConstOf(v); return ok }

func (ex *Exec) lookup(fr *Frame, st *State, x *ssa.Lookup) Val {
	m := ex.eval(fr, st, x.X)
	k := ex.eval(fr, st, x.Index)
	var elemT types.Type
	if mt, ok := x.X.Type().Underlying().(*types.Map); ok {
		elemT = mt.Elem()
	} else {
		// string index
		r := ex.topOf(st, x.Type(), "strlookup")
		return r
	}
	mk := func(v Val, ok *BoolV) Val {
		if x.CommaOk {
			return &TupleV{Vs: []Val{v, ok}}
		}
		return v
	}
	mv, _ := m.(*MapV)
	ki, _ := k.(*IntV)
	if mv != nil && mv.Dyn {
		if hm, ok := st.heap[mv.Obj].(*MapV); ok && hm.Dyn && !hm.Unk {
			mv = &MapV{Const: true, Keys: hm.Keys, Vals: hm.Vals, ElemT: hm.ElemT}
		} else {
			mv = nil
		}
	}
	if mv != nil && mv.Const && ki != nil {
		if c, ok := st.ConstOf(ki); ok {
			for i, kk := range mv.Keys {
				if kk == c {
					return mk(mv.Vals[i], &BoolV{Known: true, Val: true})
				}
			}
			return mk(ex.zeroOf(elemT), &BoolV{Known: true, Val: false})
		}
		// range of keys: join candidates
		lo, hi := st.Range(ki)
		var cands []Val
		miss := false
		n := 0
		for i, kk := range mv.Keys {
			if kk >= lo && kk <= hi {
				cands = append(cands, mv.Vals[i])
				n++
			}
		}
		if int64(n) < hi-lo+1 {
			miss = true
		}
		if len(cands) == 0 {
			return mk(ex.zeroOf(elemT), &BoolV{Known: true, Val: false})
		}
		// join integer candidates into a fresh symbol with the hull range
		if w, s, ok := intTypeInfo(elemT); ok {
			var l, h int64
			first := true
			add := func(c int64) {
				if first || c < l {
					l = c
				}
				if first || c > h {
					h = c
				}
				first = false
			}
			for _, cv := range cands {
				if iv, ok := cv.(*IntV); ok {
					if c, ok := st.ConstOf(iv); ok {
						add(c)
					}
				}
			}
			if miss {
				add(0)
			}
			r := st.freshInt("maplookup", w, s)
			st.refineSym(r.T.Syms[0], l, h)
			okb := &BoolV{}
			if !miss {
				okb = &BoolV{Known: true, Val: true}
			}
			return mk(r, okb)
		}
	}
	return mk(ex.topOf(st, elemT, "maplookup"), &BoolV{})
}

func (ex *Exec) typeAssert(st *State, iv *IfaceV, x *ssa.TypeAssert) (Val, string) {
	mk := func(v Val, ok bool, known bool) Val {
		if x.CommaOk {
			b := &BoolV{}
			if known {
				b = &BoolV{Known: true, Val: ok}
			}
			return &TupleV{Vs: []Val{v, b}}
		}
		return v
	}
	if iv == nil || iv.Unk {
		v := ex.topOf(st, x.AssertedType, "assert")
		if types.IsInterface(x.AssertedType) && iv != nil {
			v = iv
		}
		if x.CommaOk {
			return mk(v, false, false), ""
		}
		return v, "maybe"
	}
	if iv.Nil {
		if x.CommaOk {
			return mk(ex.zeroOf(x.AssertedType), false, true), ""
		}
		return ex.zeroOf(x.AssertedType), "certain"
	}
	if types.IsInterface(x.AssertedType) {
		it := x.AssertedType.Underlying().(*types.Interface)
		if types.Implements(iv.Dyn, it) {
			return mk(iv, true, true), ""
		}
		if x.CommaOk {
			return mk(&IfaceV{Nil: true}, false, true), ""
		}
		return &IfaceV{Nil: true}, "certain"
	}
	if types.Identical(iv.Dyn, x.AssertedType) {
		return mk(iv.V, true, true), ""
	}
	if x.CommaOk {
		return mk(ex.zeroOf(x.AssertedType), false, true), ""
	}
	return ex.zeroOf(x.AssertedType), "certain"
}

// ---------------------------------------------------------------- constant package-level tables

var constGlobalCache = map[*ssa.Global]Val{}
var constGlobalDone = map[*ssa.Global]bool{}
var cacheMu sync.Mutex

// constGlobal returns the value of a package-level map/slice that is initialised by a composite
// literal of constants in the package initialiser and never written elsewhere (who-writes check).
func (ex *Exec) constGlobal(g *ssa.Global) Val {
	cacheMu.Lock()
	defer cacheMu.Unlock()
	if constGlobalDone[g] {
		return constGlobalCache[g]
	}
	constGlobalDone[g] = true
	if g.Pkg == nil {
		return nil
	}
	elemT := g.Type().(*types.Pointer).Elem()
	mt, isMap := elemT.Underlying().(*types.Map)
	if !isMap {
		return nil
	}
	if _, _, ok := intTypeInfo(mt.Key()); !ok {
		return nil
	}
	initFn := g.Pkg.Func("init")
	if initFn == nil {
		return nil
	}
	// who-writes: the only Store to g is in init, and no MapUpdate/delete on a load of g anywhere in the module
	var theMap *ssa.MakeMap
	for fn := range ex.P.All {
		if !InModule(fn) {
			continue
		}
		for _, b := range fn.Blocks {
			for _, in := range b.Instrs {
				switch x := in.(type) {
				case *ssa.Store:
					if x.Addr == g {
						if fn != initFn {
							return nil
						}
						mm, ok := x.Val.(*ssa.MakeMap)
						if !ok || theMap != nil {
							return nil
						}
						theMap = mm
					}
				case *ssa.MapUpdate:
					if l, ok := x.Map.(*ssa.UnOp); ok && l.X == g {
						return nil
					}
				case *ssa.Call:
					if bi, ok := x.Call.Value.(*ssa.Builtin); ok && (bi.Name() == "delete" || bi.Name() == "clear") {
						if l, ok := x.Call.Args[0].(*ssa.UnOp); ok && l.X == g {
							return nil
						}
					}
				}
			}
		}
	}
	if theMap == nil {
		return nil
	}
	mv := &MapV{Const: true, ElemT: mt.Elem()}
	for _, u := range *theMap.Referrers() {
		switch x := u.(type) {
		case *ssa.MapUpdate:
			k, ok := constInt(x.Key)
			if !ok {
				return nil
			}
			c, ok := x.Value.(*ssa.Const)
			if !ok {
				return nil
			}
			mv.Keys = append(mv.Keys, k)
			mv.Vals = append(mv.Vals, ex.constVal(c))
		case *ssa.Store, *ssa.DebugRef:
		default:
			return nil
		}
	}
	constGlobalCache[g] = mv
	return mv
}

// ---------------------------------------------------------------- calls

func (ex *Exec) doCall(fr *Frame, st *State, x *ssa.Call) []callRes {
	cc := x.Common()
	var args []Val
	if cc.IsInvoke() {
		recv := ex.eval(fr, st, cc.Value)
		for _, a := range cc.Args {
			args = append(args, ex.eval(fr, st, a))
		}
		return ex.invoke(fr, st, x, recv, cc.Method, args)
	}
	fv := ex.eval(fr, st, cc.Value)
	for _, a := range cc.Args {
		args = append(args, ex.eval(fr, st, a))
	}
	return ex.callValue(fr, st, fv, args, x, x.Type())
}

func (ex *Exec) retTop(st *State, t types.Type, name string) Val {
	if t == nil {
		return nil
	}
	if tt, ok := t.(*types.Tuple); ok {
		if tt.Len() == 0 {
			return nil
		}
		tv := &TupleV{}
		for i := 0; i < tt.Len(); i++ {
			tv.Vs = append(tv.Vs, ex.topOf(st, tt.At(i).Type(), name))
		}
		return tv
	}
	return ex.topOf(st, t, name)
}

func (ex *Exec) invoke(fr *Frame, st *State, x ssa.CallInstruction, recv Val, m *types.Func, args []Val) []callRes {
	iv, _ := recv.(*IfaceV)
	var resT types.Type
	if v := x.Value(); v != nil {
		resT = v.Type()
	}
	if iv != nil && !iv.Unk && !iv.Nil && iv.Dyn != nil {
		if fn := ex.P.MethodOf(iv.Dyn, m.Name()); fn != nil {
			return ex.callFn(fr, st, fn, append([]Val{iv.V}, args...), x, resT)
		}
	}
	if iv != nil && iv.Nil {
		return []callRes{{st: st, panic: true, msg: "method call on nil interface", pos: ex.pos(x)}}
	}
	// unknown receiver: external call
	st.Events = append(st.Events, Event{Kind: "call:invoke " + m.Name(), Recv: recv, Args: args, Pos: ex.pos(x)})
	if sum, ok := ex.invokeSummary(st, m, args, resT); ok {
		return sum
	}
	if hasPointerArg(args) {
		ex.havocAll(st, "unknown interface call "+m.Name())
	}
	return []callRes{{st: st, ret: ex.retTop(st, resT, "inv:"+m.Name())}}
}

func hasPointerArg(args []Val) bool {
	for _, a := range args {
		switch x := a.(type) {
		case *PtrV:
			if !x.Nil {
				return true
			}
		case *SliceV:
			if !x.Nil {
				return true
			}
		case *IfaceV:
			if !x.Nil {
				return true
			}
		case *FuncV:
			if x.Fn != nil {
				return true
			}
		case *MapV:
			return true
		}
	}
	return false
}

func (ex *Exec) callValue(fr *Frame, st *State, fv Val, args []Val, x ssa.CallInstruction, resT types.Type) []callRes {
	f, _ := fv.(*FuncV)
	if resT == nil && x != nil {
		if v := x.Value(); v != nil {
			resT = v.Type()
		}
	}
	if f == nil || f.Unk {
		st.Events = append(st.Events, Event{Kind: "call:unknown-func", Args: args, Pos: ex.pos(x), Msg: "call of a function value that may be nil"})
		if hasPointerArg(args) {
			ex.havocAll(st, "unknown function value")
		}
		return []callRes{{st: st, ret: ex.retTop(st, resT, "dyn")}}
	}
	if f.Nil {
		return []callRes{{st: st, panic: true, msg: "call of nil function value", pos: ex.pos(x)}}
	}
	if strings.HasPrefix(f.Ext, "builtin:") {
		return ex.builtin(fr, st, strings.TrimPrefix(f.Ext, "builtin:"), args, x, resT)
	}
	if f.Ext != "" {
		st.Events = append(st.Events, Event{Kind: "call:" + f.Ext, Args: args, Pos: ex.pos(x)})
		return []callRes{{st: st, ret: ex.retTop(st, resT, "ext:"+f.Ext)}}
	}
	return ex.callFn(fr, st, f.Fn, append(append([]Val{}, args...)), x, resT, f.Bindings...)
}

func (ex *Exec) callFn(fr *Frame, st *State, fn *ssa.Function, args []Val, x ssa.CallInstruction, resT types.Type, bindings ...Val) []callRes {
	if ex.CallHook != nil {
		if res, ok := ex.CallHook(ex, st, fr, x, fn, args); ok {
			return res
		}
	}
	if res, ok := ex.fmtSummary(fr, st, fn, args, x, resT); ok {
		return res
	}
	if ex.SortModel {
		if res, ok := ex.sortSummary(fr, st, fn.String(), args, x); ok {
			return res
		}
	}
	if res, ok := ex.libSummary(fr, st, fn, args, x, resT); ok {
		return res
	}
	recursive := false
	for _, s := range fr.stack {
		if s == fn {
			recursive = true
		}
	}
	inlineOK := fn.Blocks != nil && !ex.NoInline[fn] && !recursive && !(ex.NoInlineFn != nil && ex.NoInlineFn(fn)) && fr.depth < ex.MaxDepth && (InModule(fn) || inlineStd(fn))
	if !inlineOK {
		st.Events = append(st.Events, Event{Kind: "call:opaque " + fn.String(), Args: args, Pos: ex.pos(x)})
		if recursive || fr.depth >= ex.MaxDepth {
			ex.unsupported("recursion-or-depth:" + fn.String())
		}
		if hasPointerArg(args) && !pureStd(fn) {
			ex.havocReachable(st, "opaque call "+fn.String(), append(append([]Val{}, args...), bindings...))
		}
		r := ex.retTop(st, resT, "ret:"+fn.Name())
		if nonNilCtors[qualOfFn(fn)] {
			r = &IfaceV{Unk: true, NonNil: true}
		}
		return []callRes{{st: st, ret: r}}
	}
	sub := &Frame{fn: fn, regs: map[ssa.Value]Val{}, visits: map[*ssa.BasicBlock]int{}, widened: map[*ssa.BasicBlock]bool{}, phiHist: map[*ssa.Phi]Val{}, kept: map[*ssa.Phi]keptInv{}, depth: fr.depth + 1, stack: append(append([]*ssa.Function{}, fr.stack...), fn)}
	for i, p := range fn.Params {
		if i < len(args) {
			sub.regs[p] = args[i]
		}
	}
	for i, fv := range fn.FreeVars {
		if i < len(bindings) {
			sub.regs[fv] = bindings[i]
		}
	}
	ex.Stats.Calls++
	if callProfile != nil {
		callProfile[fn.String()]++
	}
	outs := ex.enter(sub, st, fn.Blocks[0], nil)
	var res []callRes
	for _, o := range outs {
		if o.Panic {
			res = append(res, callRes{st: o.St, panic: true, msg: o.Msg, pos: o.Pos})
			continue
		}
		var r Val
		switch len(o.Ret) {
		case 0:
		case 1:
			r = o.Ret[0]
		default:
			r = &TupleV{Vs: o.Ret}
		}
		res = append(res, callRes{st: o.St, ret: r})
	}
	return res
}

// callProfile (debugging, ABSDEBUG): how often each function is entered.
var callProfile map[string]int

func qualOfFn(f *ssa.Function) string {
	if f.Pkg != nil {
		return f.Pkg.Pkg.Name() + "." + f.Name()
	}
	if o := f.Object(); o != nil && o.Pkg() != nil {
		return o.Pkg().Name() + "." + f.Name()
	}
	return f.Name()
}

func fullQual(f *ssa.Function) string {
	s := f.String()
	return s
}

// inlineStd: standard-library functions that are inlined from their own SSA bodies.
func inlineStd(fn *ssa.Function) bool {
	s := fn.String()
	for _, p := range []string{"(encoding/binary.bigEndian).", "(encoding/binary.littleEndian).", "(*encoding/binary.bigEndian).", "(encoding/binary.ByteOrder)."} {
		if strings.HasPrefix(s, p) {
			return true
		}
	}
	return false
}

// pureStd: standard-library functions without effects on the analysed heap.
func pureStd(fn *ssa.Function) bool {
	s := fn.String()
	for _, p := range []string{"fmt.Sprintf", "fmt.Errorf", "fmt.Sprint", "errors.New", "fmt.Println", "fmt.Printf", "strings.", "math.", "time.", "strconv.", "(time.Duration).", "(time.Time).", "runtime."} {
		if strings.HasPrefix(s, p) {
			return true
		}
	}
	return false
}

func (ex *Exec) builtin(fr *Frame, st *State, name string, args []Val, x ssa.CallInstruction, resT types.Type) []callRes {
	one := func(v Val) []callRes { return []callRes{{st: st, ret: v}} }
	switch name {
	case "len", "cap":
		switch a := args[0].(type) {
		case *SliceV:
			if a.Unk {
				r := st.freshInt("len", 64, true)
				st.refineSym(r.T.Syms[0], 0, 1<<40)
				return one(r)
			}
			if name == "cap" {
				return one(a.Cap)
			}
			return one(a.Len)
		case *StrV:
			if a.Known {
				return one(mkConst(int64(len(a.S)), 64, true))
			}
			if a.Len != nil {
				return one(a.Len)
			}
		case *ArrayV:
			t := arrLen(a)
			return one(&IntV{W: 64, Signed: true, T: t})
		case *MapV:
			if a.Const {
				return one(mkConst(int64(len(a.Keys)), 64, true))
			}
			if a.Dyn {
				if hm, ok := st.heap[a.Obj].(*MapV); ok && hm.Dyn && !hm.Unk {
					return one(mkConst(int64(len(hm.Keys)), 64, true))
				}
			}
		case *PtrV:
			// pointer to array
		}
		r := st.freshInt("len", 64, true)
		st.refineSym(r.T.Syms[0], 0, 1<<40)
		return one(r)
	case "append":
		return one(ex.appendOp(st, args, x))
	case "copy":
		return one(ex.copyOp(st, args, x))
	case "panic":
		return []callRes{{st: st, panic: true, msg: "explicit panic: " + valString(args[0]), pos: ex.pos(x)}}
	case "delete", "clear":
		// on a tracked map (MapModel): remove the constant key / all keys; a key that is not constant makes the map unknown
		if mv, ok := args[0].(*MapV); ok && mv.Dyn {
			if hm, ok := st.heap[mv.Obj].(*MapV); ok && hm.Dyn && !hm.Unk {
				nm := &MapV{ElemT: hm.ElemT, Dyn: true}
				if name == "delete" && len(args) == 2 {
					ki, _ := args[1].(*IntV)
					kc, isK := int64(0), false
					if ki != nil {
						kc, isK = st.ConstOf(ki)
					}
					if !isK {
						nm.Unk = true
					}
					for i, kk := range hm.Keys {
						if !isK || kk != kc {
							nm.Keys = append(nm.Keys, kk)
							nm.Vals = append(nm.Vals, hm.Vals[i])
						}
					}
				}
				st.heap[mv.Obj] = nm
			}
		} else if sl, ok := args[0].(*SliceV); ok && name == "clear" && !sl.Nil {
			ex.havocAll(st, "clear on a slice")
		}
		return one(ex.retTop(st, resT, name))
	case "print", "println", "recover":
		return one(ex.retTop(st, resT, name))
	case "min", "max":
		return one(ex.retTop(st, resT, name))
	}
	ex.unsupported("builtin:" + name)
	return one(ex.retTop(st, resT, name))
}

func (ex *Exec) appendOp(st *State, args []Val, x ssa.CallInstruction) Val {
	s, _ := args[0].(*SliceV)
	var t *SliceV
	var elemT types.Type = types.Typ[types.Uint8]
	if x != nil && x.Value() != nil {
		if sl, ok := x.Value().Type().Underlying().(*types.Slice); ok {
			elemT = sl.Elem()
		}
	}
	switch a := args[1].(type) {
	case *SliceV:
		t = a
	case *StrV:
		if a.Known {
			es := make([]Val, len(a.S))
			for i := range es {
				es[i] = mkConst(int64(a.S[i]), 8, false)
			}
			id := ex.newObj(st, &ArrayV{Elem: elemT, Segs: normSegs([]Seg{{Elems: es}})}, nil)
			n := mkConst(int64(len(es)), 64, true)
			t = &SliceV{Obj: id, Off: mkConst(0, 64, true), Len: n, Cap: n}
		} else if a.Bytes != nil {
			t = a.Bytes
		}
	}
	if s == nil || t == nil || s.Unk || t.Unk {
		return ex.unknownSlice(st, elemT, "append", 0)
	}
	if t.Nil || isZeroLen(st, t) {
		return s
	}
	a1, ok1 := ex.sliceSegs(st, s)
	a2, ok2 := ex.sliceSegs(st, t)
	if !ok1 || !ok2 {
		r := ex.unknownSlice(st, elemT, "append", 0)
		return r
	}
	n := st.Arith(token.ADD, s.Len, t.Len, "")
	// enough capacity: append writes into the backing array of s (and the result aliases it)
	if !s.Nil && s.Cap != nil {
		if le, k := st.Decide("<=", n, s.Cap); k && le {
			if arr, ok := ex.arrOf(st, s); ok {
				at := st.Arith(token.ADD, s.Off, s.Len, "")
				if ex.arrReplace(st, arr, st.TermOf(at), cloneVal(&ArrayV{Elem: elemT, Segs: a2}).(*ArrayV).Segs, st.TermOf(t.Len)) {
					return &SliceV{Obj: s.Obj, Path: s.Path, Off: s.Off, Len: n, Cap: s.Cap}
				}
			}
		}
	}
	// a new backing array: the elements are COPIED (struct elements must not stay shared with the old array, which
	// pointers handed out earlier still refer to)
	segs := normSegs(append(append([]Seg{}, a1...), a2...))
	fresh := cloneVal(&ArrayV{Elem: elemT, Segs: segs}).(*ArrayV)
	id := ex.newObj(st, fresh, nil)
	return &SliceV{Obj: id, Off: mkConst(0, 64, true), Len: n, Cap: n}
}

func isZeroLen(st *State, s *SliceV) bool {
	if s.Nil {
		return true
	}
	c, ok := st.ConstOf(s.Len)
	return ok && c == 0
}

func (ex *Exec) copyOp(st *State, args []Val, x ssa.CallInstruction) Val {
	d, _ := args[0].(*SliceV)
	var s *SliceV
	switch a := args[1].(type) {
	case *SliceV:
		s = a
	case *StrV:
		s = a.Bytes
	}
	if d == nil || s == nil || d.Unk || s.Unk {
		ex.havocAll(st, "copy with unknown operand")
		return st.freshInt("copy", 64, true)
	}
	if d.Nil || s.Nil {
		return mkConst(0, 64, true)
	}
	// n = min(len d, len s)
	n := d.Len
	if le, k := st.Decide("<=", s.Len, d.Len); k && le {
		n = s.Len
	} else if !k {
		// undecided: forget destination
		if arr, ok := ex.arrOf(st, d); ok {
			ex.setArrOf(st, d, &ArrayV{Elem: arr.Elem, Segs: []Seg{{Run: &Run{Src: ex.syms.Fresh("copy", 8, false).Name, Off: constTerm(0), Len: arrLen(arr)}}}})
		}
		r := st.freshInt("copy", 64, true)
		st.refineSym(r.T.Syms[0], 0, 1<<40)
		return r
	}
	src := &SliceV{Obj: s.Obj, Path: s.Path, Off: s.Off, Len: n, Cap: n}
	segs, ok := ex.sliceSegs(st, src)
	if ok {
		segs = cloneVal(&ArrayV{Segs: segs}).(*ArrayV).Segs // copy semantics for struct elements
	}
	arr, ok2 := ex.arrOf(st, d)
	if !ok || !ok2 || !ex.arrReplace(st, arr, st.TermOf(d.Off), segs, st.TermOf(n)) {
		if ok2 {
			ex.setArrOf(st, d, &ArrayV{Elem: arr.Elem, Segs: []Seg{{Run: &Run{Src: ex.syms.Fresh("copy", 8, false).Name, Off: constTerm(0), Len: arrLen(arr)}}}})
		}
	}
	return n
}

var _ = sort.Ints

var sentinelCache = map[*ssa.Global]int{}

// sentinelErr: package-level error variable stored exactly once, in the package initialiser,
// from errors.New / fmt.Errorf (hence never nil and never reassigned).
func (ex *Exec) sentinelErr(g *ssa.Global) bool {
	cacheMu.Lock()
	defer cacheMu.Unlock()
	return ex.sentinelErr0(g)
}

func (ex *Exec) sentinelErr0(g *ssa.Global) bool {
	if v, ok := sentinelCache[g]; ok {
		return v == 1
	}
	sentinelCache[g] = 0
	if !isErrorType(g.Type().(*types.Pointer).Elem()) {
		return false
	}
	n := 0
	for fn := range ex.P.All {
		for _, b := range fn.Blocks {
			for _, in := range b.Instrs {
				st, ok := in.(*ssa.Store)
				if !ok || st.Addr != g {
					continue
				}
				n++
				if fn.Name() != "init" {
					return false
				}
				call, ok := st.Val.(*ssa.Call)
				if !ok || !nonNilCtors[calleeQual(call)] {
					// may be a copy of another sentinel
					if l, ok := st.Val.(*ssa.UnOp); ok {
						if g2, ok := l.X.(*ssa.Global); ok && g2 != g && ex.sentinelErr0(g2) {
							continue
						}
					}
					return false
				}
			}
		}
	}
	if n == 1 {
		sentinelCache[g] = 1
		return true
	}
	return false
}

// initGlobal: a package-level variable stored exactly once (in the package initialiser) from a call of a module
// function with constant arguments, and never stored or address-taken elsewhere, is evaluated by interpreting that call.
func (ex *Exec) initGlobal(st *State, g *ssa.Global) (Val, bool) {
	if g.Pkg == nil || !strings.HasPrefix(g.Pkg.Pkg.Path(), modPath) || ex.inInitGlobal {
		return nil, false
	}
	var theCall *ssa.Call
	n := 0
	for fn := range ex.P.All {
		if !InModule(fn) {
			continue
		}
		for _, b := range fn.Blocks {
			for _, in := range b.Instrs {
				switch x := in.(type) {
				case *ssa.Store:
					if x.Addr == g {
						n++
						if fn.Name() != "init" {
							return nil, false
						}
						theCall, _ = x.Val.(*ssa.Call)
					}
				default:
					// address escaping (passed to a call / stored) would allow writes: only loads are allowed
					for _, op := range in.Operands(nil) {
						if *op == ssa.Value(g) {
							if l, ok := in.(*ssa.UnOp); !ok || l.Op != token.MUL {
								if _, isStore := in.(*ssa.Store); !isStore {
									return nil, false
								}
							}
						}
					}
				}
			}
		}
	}
	if n != 1 || theCall == nil {
		return nil, false
	}
	callee := theCall.Common().StaticCallee()
	if callee == nil || !InModule(callee) {
		return nil, false
	}
	var args []Val
	for _, a := range theCall.Common().Args {
		cst, ok := a.(*ssa.Const)
		if !ok {
			return nil, false
		}
		args = append(args, ex.constVal(cst))
	}
	ex.inInitGlobal = true
	defer func() { ex.inInitGlobal = false }()
	outs := ex.Call(st, callee, args, nil)
	if len(outs) != 1 || outs[0].Panic || len(outs[0].Ret) != 1 || outs[0].St != st {
		return nil, false
	}
	return outs[0].Ret[0], true
}
