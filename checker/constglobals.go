package main

// Package-level variables that are constant after package initialisation: every use in the module is a load, or an
// element/field address that is only loaded from — except inside the package's init function, where it may be stored
// to. Such a variable (a lookup table, a digits string) is state that cannot change between calls.

import (
	"go/token"
	"go/types"
	"strings"
	"sync"

	"golang.org/x/tools/go/ssa"
)

var immutableGlobalCache = map[*ssa.Global]bool{}
var immutableMu sync.Mutex

func (p *Program) immutableGlobal(g *ssa.Global) bool {
	immutableMu.Lock()
	defer immutableMu.Unlock()
	if v, ok := immutableGlobalCache[g]; ok {
		return v
	}
	res := true
	var onlyLoaded func(v ssa.Value, inInit bool, d int) bool
	onlyLoaded = func(v ssa.Value, inInit bool, d int) bool {
		if d > 4 {
			return false
		}
		refs := v.Referrers()
		if refs == nil {
			return true
		}
		for _, u := range *refs {
			switch x := u.(type) {
			case *ssa.UnOp:
				if x.Op != token.MUL {
					return false
				}
			case *ssa.IndexAddr:
				if x.X != v || !onlyLoaded(x, inInit, d+1) {
					return false
				}
			case *ssa.FieldAddr:
				if !onlyLoaded(x, inInit, d+1) {
					return false
				}
			case *ssa.Store:
				if x.Addr != v || !inInit {
					return false
				}
			case *ssa.DebugRef:
			default:
				return false
			}
		}
		return true
	}
	for fn := range p.All {
		if !InModule(fn) {
			continue
		}
		inInit := fn.Name() == "init" && fn.Pkg == g.Pkg
		for _, b := range fn.Blocks {
			for _, in := range b.Instrs {
				for _, op := range in.Operands(nil) {
					if *op != ssa.Value(g) {
						continue
					}
					switch x := in.(type) {
					case *ssa.UnOp:
						if x.Op != token.MUL {
							res = false
						}
					case *ssa.IndexAddr:
						if !onlyLoaded(x, inInit, 0) {
							res = false
						}
					case *ssa.FieldAddr:
						if !onlyLoaded(x, inInit, 0) {
							res = false
						}
					case *ssa.Store:
						if x.Addr != ssa.Value(g) || !inInit {
							res = false
						}
					case *ssa.DebugRef:
					default:
						res = false
					}
				}
			}
		}
	}
	immutableGlobalCache[g] = res
	return res
}

// constTableGlobal: the value of an immutable package-level array of integers (or an immutable string / integer
// variable) whose initialiser consists of constant stores in init: zero value plus those stores.
func (ex *Exec) constTableGlobal(g *ssa.Global) Val {
	if g.Pkg == nil || !strings.HasPrefix(g.Pkg.Pkg.Path(), modPath) || !ex.P.immutableGlobal(g) {
		return nil
	}
	elemT := g.Type().(*types.Pointer).Elem()
	initFn := g.Pkg.Func("init")
	if initFn == nil {
		return nil
	}
	switch u := elemT.Underlying().(type) {
	case *types.Array:
		if _, _, ok := intTypeInfo(u.Elem()); !ok || u.Len() > 4096 {
			return nil
		}
		es := make([]Val, u.Len())
		for i := range es {
			es[i] = ex.zeroOf(u.Elem())
		}
		for _, b := range initFn.Blocks {
			for _, in := range b.Instrs {
				switch x := in.(type) {
				case *ssa.IndexAddr:
					if x.X != ssa.Value(g) {
						continue
					}
					for _, r := range *x.Referrers() {
						st, ok := r.(*ssa.Store)
						if !ok {
							continue
						}
						k, okK := constInt(x.Index)
						cv, okC := st.Val.(*ssa.Const)
						if !okK || !okC || k < 0 || k >= u.Len() {
							return nil
						}
						es[k] = ex.constVal(cv)
					}
				case *ssa.Store:
					if x.Addr == ssa.Value(g) {
						return nil // whole-array store from a computed value: not modelled
					}
				}
			}
		}
		return &ArrayV{Elem: u.Elem(), Segs: []Seg{{Elems: es}}}
	case *types.Basic:
		var val Val
		n := 0
		for _, b := range initFn.Blocks {
			for _, in := range b.Instrs {
				if st, ok := in.(*ssa.Store); ok && st.Addr == ssa.Value(g) {
					n++
					cv, ok := st.Val.(*ssa.Const)
					if !ok {
						return nil
					}
					val = ex.constVal(cv)
				}
			}
		}
		if n == 1 {
			return val
		}
		if n == 0 {
			return ex.zeroOf(elemT)
		}
	}
	return nil
}
